/-
Specification side of C16 — function items as first-class values.

Written from XPath 3.1 (§3.1.5 static/dynamic function calls and partial application, §3.1.6
named function references, §3.1.7 inline function expressions, §3.12 `for`/`let`) and
XPath/XQuery Functions and Operators 3.1 §16.2 (`fn:for-each`, `fn:filter`, `fn:fold-left`,
`fn:fold-right`, `fn:for-each-pair`, `fn:apply`) and §16.1? `fn:sort`.  Core Lean only.

* The expression fragment (`Expr`) and the values (`Item`: integers, booleans, function items)
  are shared with the model (`EPV/Model/Closures.lean`): this is "shared model B" cut down to
  what the property needs.
* A function item is a reference into an append-only heap of closures (`SObj`): the closure of an
  inline function expression holds the variable bindings in scope **where it is created**
  (XPath 3.1 §3.1.7: "the nonlocal variable bindings of the function item are the in-scope
  variables of the inline function expression"), and every evaluation of a function expression
  allocates a **new** function item.  The environment is passed down, never returned
  (lexical scope).  The focus is absent inside a function body (§3.1.7).
* The higher-order functions are given by their F&O definitions (recursion with head/tail), not
  by loops.
* Where XPath leaves the order of evaluation open the order of the implementation is used
  (function argument before the sequence argument, left to right otherwise); the semantics is
  pure apart from allocation, so this only fixes the addresses.
-/
namespace EPV.Clo

/-- error codes that can arise in the fragment -/
inductive Err where
  | XPTY0004 | XPST0008 | FOTY0013 | FORG0006 | FOAP0001 | XPDY0002 | FUEL
  deriving DecidableEq, Repr, Inhabited

def Err.code : Err → String
  | .XPTY0004 => "XPTY0004" | .XPST0008 => "XPST0008" | .FOTY0013 => "FOTY0013"
  | .FORG0006 => "FORG0006" | .FOAP0001 => "FOAP0001" | .XPDY0002 => "XPDY0002" | .FUEL => "FUEL"

/-- items: `xs:integer`, `xs:boolean`, function item (address in the function heap), and — so that
items of equal value but different type exist (`1`, `1.0`, `1e0`) — integer-valued `xs:decimal` and
`xs:double` (exact below 2^53; the fragment has no division) -/
inductive Item where
  | int (n : Int) | bool (b : Bool) | fn (a : Nat) | dec (n : Int) | dbl (n : Int)
  /-- `xs:string` (code points), and the special doubles NaN, ±INF, -0 (as literals, sort items and
  sort keys: arithmetic and value comparison on them are outside the fragment) -/
  | str (cs : List Nat) | nan | inf (pos : Bool) | negz
  deriving DecidableEq, Repr, Inhabited

/-- atomic types of `instance of` -/
inductive Ty where
  | integer | decimal | double | boolean | string
  deriving DecidableEq, Repr, Inhabited

/-- `item instance of xs:T` (xs:integer is derived from xs:decimal) -/
def Ty.has : Ty → Item → Bool
  | .integer, .int _ => true
  | .decimal, .int _ => true
  | .decimal, .dec _ => true
  | .double, .dbl _ => true
  | .double, .nan => true
  | .double, .inf _ => true
  | .double, .negz => true
  | .string, .str _ => true
  | .boolean, .bool _ => true
  | _, _ => false

abbrev Seq := List Item

instance {ε α : Type} [DecidableEq ε] [DecidableEq α] : DecidableEq (Except ε α) := fun a b =>
  match a, b with
  | .ok x, .ok y => if h : x = y then isTrue (by rw [h]) else isFalse (fun h' => h (by cases h'; rfl))
  | .error x, .error y => if h : x = y then isTrue (by rw [h]) else isFalse (fun h' => h (by cases h'; rfl))
  | .ok _, .error _ => isFalse (fun h => by cases h)
  | .error _, .ok _ => isFalse (fun h => by cases h)
/-- variable bindings, innermost first (`List.lookup` = the visible binding) -/
abbrev Env := List (Nat × Seq)

/-- named functions that may be referenced as `name#n` or written as a static partial application
`name(?, …)` -/
inductive Builtin where
  | abs | count | sum | reverse | head | tail | exists_ | empty_ | remove | insertBefore
  | position0 | last0 | data0
  deriving DecidableEq, Repr, Inhabited

def Builtin.arity : Builtin → Nat
  | .remove => 2 | .insertBefore => 3 | .position0 => 0 | .last0 => 0 | .data0 => 0 | _ => 1

/-- functions that read the focus: `fn:position#0`, `fn:last#0`, `fn:data#0` (the context item) -/
def Builtin.focusDep : Builtin → Bool
  | .position0 => true | .last0 => true | .data0 => true | _ => false

/-- a focus: context item (absent = none), context position, context size -/
abbrev Focus := Option Item × Nat × Nat

/-- declared types of parameters and results of inline functions (`$x as xs:integer*`): item type … -/
inductive ITy where
  | item | atomic | integer | decimal | double | boolean | func
  deriving DecidableEq, Repr, Inhabited

/-- … and occurrence indicator (none, `?`, `*`, `+`) -/
inductive Occ where
  | one | opt | star | plus
  deriving DecidableEq, Repr, Inhabited

structure STy where
  it : ITy
  occ : Occ
  deriving DecidableEq, Repr, Inhabited

/-- signature: parameter types and result type -/
abbrev Sig := List STy × STy

/-- the expression fragment.  `fnE tok ps body`: inline function expression number `tok` of the
program (its syntax token), `call f args` dynamic call with `none` = the placeholder `?`,
`par e` = `(e)`. -/
inductive Expr where
  | lit (n : Int) | dlit (n : Int) | elit (n : Int) | tt | ff | emp
  | slit (cs : List Nat) | nanlit | inflit (pos : Bool) | negzlit
  | inst (t : Ty) (e : Expr)
  | var (x : Nat) | dot | posE | lastE
  | add (a b : Expr) | sub (a b : Expr) | mul (a b : Expr)
  | gt (a b : Expr) | eq (a b : Expr)
  | cat (a b : Expr)
  | ite (c t e : Expr)
  | forE (x : Nat) (s b : Expr)
  | letE (x : Nat) (v b : Expr)
  | fnE (tok : Nat) (ps : List Nat) (body : Expr)
  | tfnE (tok : Nat) (ps : List Nat) (tys : List STy) (rt : STy) (body : Expr)
  | named (b : Builtin)
  | call (f : Expr) (args : List (Option Expr))
  | spart (b : Builtin) (args : List (Option Expr))
  | par (e : Expr)
  | smap (a b : Expr)
  | forEach (s f : Expr) | filter (s f : Expr)
  | foldL (s z f : Expr) | foldR (s z f : Expr)
  | pairs (s1 s2 f : Expr)
  | sortK (ci : Bool) (s f : Expr)
  | apply (f : Expr) (ms : List Expr)
  deriving Repr, Inhabited

inductive Code where
  | inline (ps : List Nat) (body : Expr)
  | builtin (b : Builtin)
  deriving Repr, Inhabited

/-! ### primitive operations on atomic values (F&O §4.2 arithmetic, §4.3? value comparison,
XPath §2.4.3 effective boolean value) — shared with the model, not the subject of C16 -/

inductive AOp where | add | sub | mul deriving DecidableEq, Repr
inductive COp where | gt | eq deriving DecidableEq, Repr

def AOp.ap : AOp → Int → Int → Int
  | .add, a, b => a + b | .sub, a, b => a - b | .mul, a, b => a * b

/-- numeric item = value and type rank (0 integer, 1 decimal, 2 double) -/
def numOf : Item → Option (Int × Nat)
  | .int n => some (n, 0) | .dec n => some (n, 1) | .dbl n => some (n, 2)
  | _ => none

/-- numeric item of a value and a type rank -/
def mkNum (n : Int) : Nat → Item
  | 0 => .int n | 1 => .dec n | _ => .dbl n

/-- operand of an arithmetic operator after atomization: `()` ↦ none -/
def arithOperand : Seq → Except Err (Option (Int × Nat))
  | [] => .ok none
  | [.bool _] => .error .XPTY0004
  | [.fn _] => .error .FOTY0013
  | [x] => match numOf x with
    | some v => .ok (some v)
    | none => .error .XPTY0004
  | _ => .error .XPTY0004

/-- `a op b`: an empty operand gives `()`; the left operand is checked first; the result has the
wider of the two types (numeric type promotion) -/
def arith (op : AOp) (a b : Seq) : Except Err Seq :=
  match arithOperand a with
  | .error e => .error e
  | .ok none => .ok []
  | .ok (some x) =>
    match arithOperand b with
    | .error e => .error e
    | .ok none => .ok []
    | .ok (some y) => .ok [mkNum (op.ap x.1 y.1) (max x.2 y.2)]

/-- value comparison `gt` / `eq` on singletons: numerics by value, booleans with booleans -/
def compareV (op : COp) (a b : Seq) : Except Err Seq :=
  match a, b with
  | [], [] => .ok []
  | [], [_] => .ok []
  | [.fn _], _ => .error .FOTY0013
  | _, [.fn _] => .error .FOTY0013
  | [_], [] => .ok []
  | [.bool x], [.bool y] => .ok [.bool (match op with | .gt => x && !y | .eq => x == y)]
  | [x], [y] => match numOf x, numOf y with
    | some u, some v => .ok [.bool (match op with | .gt => decide (u.1 > v.1) | .eq => decide (u.1 = v.1))]
    | _, _ => .error .XPTY0004
  | _, _ => .error .XPTY0004

/-- effective boolean value -/
def ebv : Seq → Except Err Bool
  | [] => .ok false
  | [.bool b] => .ok b
  | [.fn _] => .error .FORG0006
  | [.str cs] => .ok (!cs.isEmpty)
  | [.nan] => .ok false
  | [.inf _] => .ok true
  | [.negz] => .ok false
  | [x] => match numOf x with
    | some v => .ok (v.1 != 0)
    | none => .error .FORG0006
  | _ => .error .FORG0006

def Builtin.ap1 : Builtin → Seq → Except Err Seq
  | .abs, [] => .ok []
  | .abs, [x] => match numOf x with
    | some v => .ok [mkNum (if v.1 < 0 then -v.1 else v.1) v.2]
    | none => .error .XPTY0004
  | .abs, _ => .error .XPTY0004
  | .count, s => .ok [.int s.length]
  | .sum, s =>
    (s.foldlM (fun (acc : Int × Nat) (it : Item) => match it with
      | Item.bool _ => Except.error Err.FORG0006
      | Item.fn _ => Except.error Err.FOTY0013
      | x => match numOf x with
        | some v => Except.ok (acc.1 + v.1, max acc.2 v.2)
        | none => Except.error Err.FORG0006) ((0 : Int), 0)).map
      fun (r : Int × Nat) => [mkNum r.1 r.2]
  | .reverse, s => .ok s.reverse
  | .head, s => .ok (s.take 1)
  | .tail, s => .ok (s.drop 1)
  | .exists_, s => .ok [.bool !s.isEmpty]
  | .empty_, s => .ok [.bool s.isEmpty]
  | _, _ => .error .XPTY0004

/-- `$position as xs:integer`: exactly one integer -/
def posArg : Seq → Except Err Int
  | [.int p] => .ok p
  | _ => .error .XPTY0004

/-- a named function on its argument list (F&O 14.1.? fn:remove, fn:insert-before; the unary ones above) -/
def Builtin.ap : Builtin → List Seq → Except Err Seq
  | .remove, [s, p] => (posArg p).map fun p =>
      if p < 1 then s else s.take (p.toNat - 1) ++ s.drop p.toNat
  | .insertBefore, [s, p, ins] => (posArg p).map fun p =>
      let k := if p < 1 then 0 else p.toNat - 1
      s.take k ++ ins ++ s.drop k
  | .remove, _ => .error .XPTY0004
  | .insertBefore, _ => .error .XPTY0004
  | b, [s] => b.ap1 s
  | _, _ => .error .XPTY0004

/-- a named function on its argument list, with the focus it was given when the reference was
created (XPath 3.1 §3.1.6: "the focus … of the named function reference expression are captured
in the function item"): `position#0`, `last#0`, `data#0` read it (XPDY0002 when absent), the others
ignore it -/
def Builtin.apF (b : Builtin) (foc : Focus) (args : List Seq) : Except Err Seq :=
  if b.focusDep then
    match args, foc.1 with
    | [], none => .error .XPDY0002
    | [], some i => match b with
      | .position0 => .ok [.int foc.2.1]
      | .last0 => .ok [.int foc.2.2]
      | _ => match i with | .fn _ => .error .FOTY0013 | x => .ok [x]
    | _, _ => .error .XPTY0004
  else b.ap args

/-! ### function conversion rules (XPath 3.1 §3.1.5.2) for the fragment's types -/

def Item.isFn : Item → Bool | .fn _ => true | _ => false

/-- the generalized atomic types of the fragment -/
def ITy.isAtomic : ITy → Bool
  | .item => false | .func => false | _ => true

/-- one item against an item type: `xs:integer` is an `xs:decimal`; integers and decimals are
promoted to `xs:double`; anything else that does not match is a type error -/
def convItem : ITy → Item → Except Err Item
  | .item, x => .ok x
  | .func, .fn a => .ok (.fn a)
  | .atomic, .fn _ => .error .XPTY0004
  | .atomic, x => .ok x
  | .integer, .int n => .ok (.int n)
  | .decimal, .int n => .ok (.int n)
  | .decimal, .dec n => .ok (.dec n)
  | .double, .int n => .ok (.dbl n)
  | .double, .dec n => .ok (.dbl n)
  | .double, .dbl n => .ok (.dbl n)
  | .double, .nan => .ok .nan
  | .double, .inf p => .ok (.inf p)
  | .double, .negz => .ok .negz
  | .boolean, .bool b => .ok (.bool b)
  | _, _ => .error .XPTY0004

def Occ.ok : Occ → Nat → Bool
  | .one, n => n == 1 | .opt, n => n ≤ 1 | .star, _ => true | .plus, n => n ≥ 1

/-- a value against a sequence type: atomization first (a function item cannot be atomized:
FOTY0013), then the cardinality and every item -/
def convSeq (t : STy) (s : Seq) : Except Err Seq :=
  if t.it.isAtomic && s.any Item.isFn then .error .FOTY0013
  else if t.occ.ok s.length then s.mapM (convItem t.it)
  else .error .XPTY0004

/-- the arguments of a call against the parameter types, left to right -/
def convArgs : List STy → List Seq → Except Err (List Seq)
  | t :: ts, a :: as => do
    let a' ← convSeq t a
    let r ← convArgs ts as
    pure (a' :: r)
  | _, as => pure as

/-- the fixed arguments of a partial application against the parameter types -/
def convPat : List STy → List (Option Seq) → Except Err (List (Option Seq))
  | t :: ts, some a :: as => do
    let a' ← convSeq t a
    let r ← convPat ts as
    pure (some a' :: r)
  | _ :: ts, none :: as => do
    let r ← convPat ts as
    pure (none :: r)
  | _, as => pure as

/-- conversion by an optional signature (an untyped function converts nothing) -/
def sigArgs : Option Sig → List Seq → Except Err (List Seq)
  | none, as => .ok as
  | some sg, as => convArgs sg.1 as

def sigRes : Option Sig → Seq → Except Err Seq
  | none, r => .ok r
  | some sg, r => convSeq sg.2 r

def sigPat : Option Sig → List (Option Seq) → Except Err (List (Option Seq))
  | none, p => .ok p
  | some sg, p => convPat sg.1 p

/-! ### partial application patterns -/

/-- number of placeholders in an argument pattern -/
def holes (pat : List (Option Seq)) : Nat := (pat.filter Option.isNone).length

/-- fill the placeholders of `pat`, left to right, with `args` (a placeholder for which no
argument is left stays out of the result: lengths are checked by the callers) -/
def fill : List (Option Seq) → List Seq → List Seq
  | [], _ => []
  | some v :: pat, args => v :: fill pat args
  | none :: pat, a :: args => a :: fill pat args
  | none :: _, [] => []

/-- partial application of a partial application: the new arguments (fixed values or
placeholders again) replace the placeholders of the old pattern -/
def refill : List (Option Seq) → List (Option Seq) → List (Option Seq)
  | [], _ => []
  | some v :: pat, new => some v :: refill pat new
  | none :: pat, n :: new => n :: refill pat new
  | none :: _, [] => []

/-! ### sort keys (F&O `fn:sort`: keys are atomic sequences compared by `deep-less-than`,
here: sequences of integers, lexicographically, a proper prefix first) -/

def keyLe : List Int → List Int → Bool
  | [], _ => true
  | _ :: _, [] => false
  | a :: as, b :: bs => a < b || (a == b && keyLe as bs)

/-- ASCII case folding of the collation `html-ascii-case-insensitive` -/
def asciiLower (n : Nat) : Nat := if 65 ≤ n ∧ n ≤ 90 then n + 32 else n

/-- one key component as a self-delimiting list of integers whose lexicographic order is the order
of the component: numerics `[0, class, value]` with class NaN 0 < -INF 1 < finite 2 < +INF 3
(F&O `fn:sort`: NaN is less than every other value; `-0` = `0`), booleans `[1, b]` (false < true),
strings `[2, c₁+1, …, cₙ+1, 0]` (code points, folded when the collation is case-insensitive; the
terminator 0 makes a proper prefix smaller).  The first element is the type tag. -/
def keyCode (ci : Bool) : Item → Except Err (List Int)
  | .bool b => .ok [1, if b then 1 else 0]
  | .fn _ => .error .FOTY0013
  | .str cs => .ok (2 :: (cs.map fun c => ((if ci then asciiLower c else c : Nat) : Int) + 1) ++ [0])
  | .nan => .ok [0, 0, 0]
  | .inf false => .ok [0, 1, 0]
  | .inf true => .ok [0, 3, 0]
  | .negz => .ok [0, 2, 0]
  | .int n => .ok [0, 2, n]
  | .dec n => .ok [0, 2, n]
  | .dbl n => .ok [0, 2, n]

def keyOf (ci : Bool) (s : Seq) : Except Err (List Int) := (s.mapM (keyCode ci)).map List.flatten

/-- rest of an encoded key after the terminator of a string component -/
def dropStr : List Int → List Int
  | [] => []
  | 0 :: r => r
  | _ :: r => dropStr r

/-- the type tags of the components of an encoded key -/
def shapeAux : Nat → List Int → List Int
  | 0, _ => []
  | _ + 1, [] => []
  | f + 1, 0 :: _ :: _ :: r => 0 :: shapeAux f r
  | f + 1, 1 :: _ :: r => 1 :: shapeAux f r
  | f + 1, 2 :: r => 2 :: shapeAux f (dropStr r)
  | _ + 1, _ => []

def shapeOf (k : List Int) : List Int := shapeAux k.length k

/-- the keys of one sort are comparable: at every position all keys that have that position hold the
same type (numeric, xs:boolean or xs:string); `deep_compare` raises XPTY0004 otherwise -/
def keysUniform : List (List Int) → Bool
  | [] => true
  | k :: ks => ks.all (fun k' => ((shapeOf k).zip (shapeOf k')).all fun p => p.1 == p.2) && keysUniform ks

/-- insert an item in front of the first item whose key is not smaller (so before all items
with an equal key: used from the right end of the input this keeps equal keys in input order) -/
def insertKey (x : Item × List Int) : List (Item × List Int) → List (Item × List Int)
  | [] => [x]
  | y :: ys => if keyLe x.2 y.2 then x :: y :: ys else y :: insertKey x ys

/-- stable sort of key-decorated items: the specification's reference sort (insertion sort
from the right) -/
def sortSpec : List (Item × List Int) → List (Item × List Int)
  | [] => []
  | x :: xs => insertKey x (sortSpec xs)

/-! ### the closure heap and the monad of the specification -/

/-- a function item of the specification: code, captured (lexical) bindings, and for a partial
application the argument pattern -/
structure SObj where
  code : Code
  lex : Env
  fixed : Option (List (Option Seq))
  /-- the focus captured by a named function reference -/
  focus : Focus := (none, 1, 1)
  /-- declared signature of a typed inline function -/
  sig : Option Sig := none
  deriving Repr, Inhabited

abbrev SHeap := List SObj

/-- number of arguments a function item expects -/
def SObj.arity (o : SObj) : Nat := match o.fixed with
  | some pat => holes pat
  | none => match o.code with | .inline ps _ => ps.length | .builtin b => b.arity

/-- state (heap) + exception -/
@[reducible] def SM (α : Type) := SHeap → Except Err (α × SHeap)

instance : Monad SM where
  pure a := fun h => .ok (a, h)
  bind m f := fun h => match m h with
    | .error e => .error e
    | .ok (a, h') => f a h'

def SM.throw {α} (e : Err) : SM α := fun _ => .error e
def SM.lift {α} : Except Err α → SM α
  | .ok a => pure a
  | .error e => SM.throw e
def SM.alloc (o : SObj) : SM Nat := fun h => .ok (h.length, h ++ [o])
def SM.getObj (a : Nat) : SM SObj := fun h => match h[a]? with
  | some o => .ok (o, h) | none => .error .FUEL
/-- run and turn `XPTY0004` into `FOAP0001` -- not used by the spec, see `specApply` -/
def SM.single (s : Seq) : SM Nat := match s with
  | [.fn a] => pure a
  | _ => SM.throw .XPTY0004

/-- lexical context: variable bindings and focus (context item) -/
structure SCtx where
  lex : Env
  item : Option Item
  /-- context position and size (meaningful when `item` is present) -/
  pos : Nat := 1
  size : Nat := 1
  deriving Repr, Inhabited

/-! ### the higher-order functions by their F&O definitions.
`callf a args` = the dynamic function call `$f(args…)`. -/
section HOF
variable (callf : Nat → List Seq → SM Seq)

/-- F&O 16.2.1 `fn:for-each`: `for $x in $seq return $action($x)` -/
def specForEach (a : Nat) : Seq → SM Seq
  | [] => pure []
  | x :: xs => do
    let r ← callf a [[x]]
    let rs ← specForEach a xs
    pure (r ++ rs)

/-- F&O 16.2.2 `fn:filter`: `$seq[$f(.)]` where `$f` must return one `xs:boolean` -/
def specFilter (a : Nat) : Seq → SM Seq
  | [] => pure []
  | x :: xs => do
    let r ← callf a [[x]]
    match r with
    | [.bool b] => do
      let rs ← specFilter a xs
      pure (if b then x :: rs else rs)
    | _ => SM.throw .XPTY0004

/-- F&O 16.2.4: `if (empty($seq)) then $zero else fold-left(tail($seq), $f($zero, head($seq)), $f)` -/
def specFoldLeft (a : Nat) : Seq → Seq → SM Seq
  | zero, [] => pure zero
  | zero, x :: xs => do
    let z ← callf a [zero, [x]]
    specFoldLeft a z xs

/-- F&O 16.2.5: `if (empty($seq)) then $zero else $f(head($seq), fold-right(tail($seq), $zero, $f))` -/
def specFoldRight (a : Nat) (zero : Seq) : Seq → SM Seq
  | [] => pure zero
  | x :: xs => do
    let r ← specFoldRight a zero xs
    callf a [[x], r]

/-- F&O 16.2.6: `if (exists($s1) and exists($s2)) then ($f(head($s1), head($s2)),
for-each-pair(tail($s1), tail($s2), $f)) else ()` -/
def specForEachPair (a : Nat) : Seq → Seq → SM Seq
  | x :: xs, y :: ys => do
    let r ← callf a [[x], [y]]
    let rs ← specForEachPair a xs ys
    pure (r ++ rs)
  | _, _ => pure []

/-- keys of all items, in order -/
def specKeys (ci : Bool) (a : Nat) : Seq → SM (List (Item × List Int))
  | [] => pure []
  | x :: xs => do
    let r ← callf a [[x]]
    let k ← SM.lift (keyOf ci r)
    let ks ← specKeys ci a xs
    pure ((x, k) :: ks)

/-- F&O `fn:sort($input, (), $key)`: stable, ordered by key.  A sequence of fewer than two items
is returned as it is (the key function need not be called). -/
def specSort (ci : Bool) (a : Nat) (xs : Seq) : SM Seq :=
  if xs.length < 2 then pure xs else do
    let ks ← specKeys callf ci a xs
    if keysUniform (ks.map (·.2)) then pure ((sortSpec ks).map (·.1)) else SM.throw .XPTY0004

end HOF

/-! ### the evaluator: one layer (`specStep`) over an evaluator for the sub-expressions -/
section Step
variable (ev : Expr → SCtx → SM Seq)

/-- evaluate argument expressions left to right; `none` stays a placeholder -/
def specArgs (c : SCtx) : List (Option Expr) → SM (List (Option Seq))
  | [] => pure []
  | none :: as => do
    let vs ← specArgs c as
    pure (none :: vs)
  | some e :: as => do
    let v ← ev e c
    let vs ← specArgs c as
    pure (some v :: vs)

def specList (c : SCtx) : List Expr → SM (List Seq)
  | [] => pure []
  | e :: es => do
    let v ← ev e c
    let vs ← specList c es
    pure (v :: vs)

/-- XPath 3.1 §3.1.5.3 function call: a closure evaluates its body with its captured bindings
extended by the parameters, focus absent; arity is checked (XPTY0004). -/
def specCall (a : Nat) (args : List Seq) : SM Seq := do
  let o ← SM.getObj a
  let full ← match o.fixed with
    | none => pure args
    | some pat => if args.length = holes pat then pure (fill pat args) else SM.throw .XPTY0004
  match o.code with
  | .builtin b =>
    if full.length = b.arity then SM.lift (b.apF o.focus full) else SM.throw .XPTY0004
  | .inline ps body =>
    if full.length = ps.length then do
      -- function conversion rules for the arguments, then for the result
      let conv ← SM.lift (sigArgs o.sig full)
      let r ← ev body { lex := ps.zip conv ++ o.lex, item := none }
      SM.lift (sigRes o.sig r)
    else SM.throw .XPTY0004

/-- §3.1.5.1 partial function application: the fixed arguments are evaluated now; the result is a
new function item with the same captured bindings. -/
def specPartial (c : SCtx) (a : Nat) (args : List (Option Expr)) : SM Seq := do
  let o ← SM.getObj a
  if args.length = o.arity then do
    let vals ← specArgs ev c args
    let pat := match o.fixed with | none => vals | some old => refill old vals
    -- the fixed arguments are converted to the declared parameter types now
    let pat' ← SM.lift (sigPat o.sig pat)
    let n ← SM.alloc { code := o.code, lex := o.lex, fixed := some pat', focus := o.focus, sig := o.sig }
    pure [.fn n]
  else SM.throw .XPTY0004

/-- the function argument of a higher-order function: exactly one function item -/
def specFunArg (c : SCtx) (f : Expr) : SM Nat := do
  let v ← ev f c
  SM.single v

/-- ... of the arity the signature of the higher-order function asks for (`function(item()) as …`,
`function(item()*, item()) as …`): XPTY0004 otherwise (function conversion rules) -/
def specFunArgN (c : SCtx) (f : Expr) (n : Nat) : SM Nat := do
  let a ← specFunArg ev c f
  let o ← SM.getObj a
  if o.arity = n then pure a else SM.throw .XPTY0004

/-- arithmetic: the left operand is evaluated and checked first; when it is the empty sequence the
result is `()` and the right operand is not evaluated (XPath 2.3.4 allows it; the order of the
implementation is taken, see the header) -/
def specArith (op : AOp) (a b : Expr) (c : SCtx) : SM Seq := do
  let x ← ev a c
  match arithOperand x with
  | .error e => SM.throw e
  | .ok none => pure []
  | .ok (some _) => do
    let y ← ev b c
    SM.lift (arith op x y)

def specCompare (op : COp) (a b : Expr) (c : SCtx) : SM Seq := do
  let x ← ev a c
  let y ← ev b c
  SM.lift (compareV op x y)

/-- `for $x in s return b` over the items of `s` -/
def specFor (c : SCtx) (x : Nat) (b : Expr) : Seq → SM Seq
  | [] => pure []
  | i :: is => do
    let r ← ev b { c with lex := (x, [i]) :: c.lex }
    let rs ← specFor c x b is
    pure (r ++ rs)

/-- `a ! b`: every item of `a` in turn is the context item, with its position and the size of `a` -/
def specMap (c : SCtx) (b : Expr) (size : Nat) : Nat → Seq → SM Seq
  | _, [] => pure []
  | k, i :: is => do
    let r ← ev b { c with item := some i, pos := k, size := size }
    let rs ← specMap c b size (k + 1) is
    pure (r ++ rs)

def specStep (e : Expr) (c : SCtx) : SM Seq :=
  match e with
  | .lit n => pure [.int n]
  | .dlit n => pure [.dec n]
  | .elit n => pure [.dbl n]
  | .slit cs => pure [.str cs]
  | .nanlit => pure [.nan]
  | .inflit p => pure [.inf p]
  | .negzlit => pure [.negz]
  | .inst t e => do
    let v ← ev e c
    -- `e instance of xs:T`: exactly one item, of that type
    pure [.bool (match v with | [x] => t.has x | _ => false)]
  | .tt => pure [.bool true]
  | .ff => pure [.bool false]
  | .emp => pure []
  | .var x => match c.lex.lookup x with
    | some v => pure v
    | none => SM.throw .XPST0008
  | .dot => match c.item with
    | some i => pure [i]
    | none => SM.throw .XPDY0002
  | .posE => match c.item with
    | some _ => pure [.int c.pos]
    | none => SM.throw .XPDY0002
  | .lastE => match c.item with
    | some _ => pure [.int c.size]
    | none => SM.throw .XPDY0002
  | .add a b => specArith ev .add a b c
  | .sub a b => specArith ev .sub a b c
  | .mul a b => specArith ev .mul a b c
  | .gt a b => specCompare ev .gt a b c
  | .eq a b => specCompare ev .eq a b c
  | .cat a b => do
    let x ← ev a c
    let y ← ev b c
    pure (x ++ y)
  | .ite cnd t e => do
    let v ← ev cnd c
    let b ← SM.lift (ebv v)
    if b then ev t c else ev e c
  | .forE x s b => do
    let xs ← ev s c
    specFor ev c x b xs
  | .letE x v b => do
    let xv ← ev v c
    ev b { c with lex := (x, xv) :: c.lex }
  | .fnE _ ps body => do
    let n ← SM.alloc { code := .inline ps body, lex := c.lex, fixed := none }
    pure [.fn n]
  | .tfnE _ ps tys rt body => do
    let n ← SM.alloc { code := .inline ps body, lex := c.lex, fixed := none, sig := some (tys, rt) }
    pure [.fn n]
  | .named b => do
    -- the reference captures the focus of the place where it is evaluated
    let n ← SM.alloc { code := .builtin b, lex := [], fixed := none, focus := (c.item, c.pos, c.size) }
    pure [.fn n]
  | .call f args => do
    let fv ← ev f c
    let a ← SM.single fv
    if args.any Option.isNone then specPartial ev c a args
    else do
      let vals ← specList ev c (args.filterMap id)
      specCall ev a vals
  | .spart b args =>
    -- static partial application `name(?, v, …)` of a named function (XPath 3.1 §3.1.5.1: the fixed
    -- arguments are evaluated when the partial application is evaluated; a new function item each time)
    if args.length = b.arity then do
      let vals ← specArgs ev c args
      let n ← SM.alloc { code := .builtin b, lex := [], fixed := some vals }
      pure [.fn n]
    else SM.throw .XPTY0004
  | .par e => ev e c
  | .smap a b => do
    let xs ← ev a c
    specMap ev c b xs.length 1 xs
  | .forEach s f => do
    let a ← specFunArgN ev c f 1
    let xs ← ev s c
    specForEach (specCall ev) a xs
  | .filter s f => do
    let a ← specFunArgN ev c f 1
    let xs ← ev s c
    specFilter (specCall ev) a xs
  | .foldL s z f => do
    let a ← specFunArgN ev c f 2
    let zero ← ev z c
    let xs ← ev s c
    specFoldLeft (specCall ev) a zero xs
  | .foldR s z f => do
    let a ← specFunArgN ev c f 2
    let zero ← ev z c
    let xs ← ev s c
    specFoldRight (specCall ev) a zero xs
  | .pairs s1 s2 f => do
    let a ← specFunArgN ev c f 2
    let xs ← ev s1 c
    if xs.isEmpty then pure [] else do
      let ys ← ev s2 c
      specForEachPair (specCall ev) a xs ys
  | .sortK ci s f => do
    let a ← specFunArgN ev c f 1
    let xs ← ev s c
    specSort (specCall ev) ci a xs
  | .apply f ms => do
    let a ← specFunArg ev c f
    let vals ← specList ev c ms
    -- F&O 16.2.7: FOAP0001 when the arity differs from the array size
    let o ← SM.getObj a
    if vals.length = o.arity then specCall ev a vals else SM.throw .FOAP0001

end Step

/-- the specification's evaluator; `fuel` bounds the nesting depth of evaluation (programs of
the fragment can loop through self-application) -/
def sem : Nat → Expr → SCtx → SM Seq
  | 0 => fun _ _ => SM.throw .FUEL
  | n + 1 => specStep (sem n)

/-- a whole program: no variables, context item `1` (the harness evaluates with `item=1`), empty heap -/
def specEval (fuel : Nat) (p : Expr) : Except Err Seq :=
  (sem fuel p { lex := [], item := some (.int 1) } []).map (·.1)

end EPV.Clo

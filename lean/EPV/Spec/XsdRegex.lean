/-
Specification side of C12, written from
  * XSD 1.1 part 2 (W3C Rec. 2012), appendix G "Regular expressions" (productions [64]-[99]),
  * XQuery/XPath Functions and Operators 3.1, section 5.6.1 "Regular expression syntax"
    (anchors `^ $`, reluctant quantifiers, back-references, `(?:`, `\$`) and 5.6.1.1 "Flags",
  * XML 1.0 (5th ed.) productions [4] NameStartChar and [4a] NameChar for `\i` and `\c`.
Independent of the Python: nothing here looks at `translate_pattern`.

Contents
  1. semantics of a character class expression (`specClass`) and the F12 trigger predicate
  2. core regular expressions with one character of left/right context (for `^`/`$`),
     their denotational language `Matches`, and the executable Brzozowski-derivative matcher
     `derivMatch` (proved equivalent in `Lemmas/RegexDeriv.lean`)
  3. surface syntax of the XSD/XPath grammar: a lexer from pattern text to lexemes (`lexS`), the
     grammar over lexemes (`parseT`, shared with the Python side) and the core expression of the
     back-reference-free fragment (`specRE`)
  4. the four F&O functions as functions of the match-span list (`specAnalyze`, ...)
-/
import EPV.Model.CharClass
import EPV.Model.RegexFuns
namespace EPV.Regex

/-! ## 1. character class expressions (XSD 1.1 part 2, G.4.1: charClassExpr) -/

/-- [76]-[79]: a positive group denotes the union of its parts; `\D`-style escapes denote the
complement of the subset they name -/
def Item.mem (it : Item) (x : Nat) : Bool := if it.neg then !it.set.mem x else it.set.mem x

/-- [76] charGroup ::= (posCharGroup | negCharGroup) ('-' charClassExpr)?  —
"`[^...]` matches any character not matched by the positive group",
"`A-[B]` matches the characters matched by A and not by B" -/
def specGroup (ng : Bool) (items : List Item) (x : Nat) : Bool :=
  let base := items.any (·.mem x)
  if ng then !base else base

def specClass : ClassE → Nat → Bool
  | .plain ng items, x => specGroup ng items x
  | .minus ng items sub, x => specGroup ng items x && !specClass sub x

/-- Trigger predicate of known finding F12: some class expression (at any subtraction depth)
contains a negated multi-character escape (`\D \S \W \I \C \P{..}`) *together with another
item*.  Outside it `CharacterClass` computes the XSD set (`charclass_denote_partial`). -/
def f12Group (items : List Item) : Bool := items.any (·.neg) && decide (2 ≤ items.length)

def ClassE.f12 : ClassE → Bool
  | .plain _ items => f12Group items
  | .minus _ items sub => f12Group items || sub.f12

/-- the subsets named by negated escapes are not empty (true for every Unicode table; needed
because `CharacterClass` confuses "no negative part" with "empty negative part") -/
def negNonempty (items : List Item) : Bool := items.all fun it => !it.neg || !it.set.isEmpty

def ClassE.negTablesNonempty : ClassE → Bool
  | .plain _ items => negNonempty items
  | .minus _ items sub => negNonempty items && sub.negTablesNonempty

/-! ## 2. core regular expressions, language, derivative matcher -/

inductive Anchor where | bol | eol | bolM | eolM
  deriving DecidableEq, Repr, Inhabited

/-- F&O 5.6.1 / 5.6.1.1: `^` matches at the start of the string, `$` at its end; with the `m`
flag `^` also matches after a newline that is not the last character of the string and `$` also
before a newline.  `p`/`n` = the character before / after the position (`none` = string edge). -/
def Anchor.ok : Anchor → Option Ch → Option Ch → Bool
  | .bol, p, _ => p.isNone
  | .eol, _, n => n.isNone
  | .bolM, p, n => p.isNone || (p == some 10 && n.isSome)
  | .eolM, _, n => n.isNone || n == some 10

inductive RE where
  | empty | eps
  | cls (f : Ch → Bool)
  | anchor (k : Anchor)
  | cat (a b : RE) | alt (a b : RE) | star (a : RE)
  deriving Inhabited

/-- context seen to the left after reading `w` / to the right before reading `w` -/
def ctxL (p : Option Ch) (w : List Ch) : Option Ch := match w.getLast? with | some c => some c | none => p
def ctxR (w : List Ch) (n : Option Ch) : Option Ch := match w.head? with | some c => some c | none => n

/-- `Matches r p w n`: the word `w`, preceded by character `p` and followed by character `n`
in the subject string, belongs to the language of `r` (XSD G.1-G.3: concatenation, alternation,
quantifier; F&O 5.6.1 for the anchors). -/
inductive Matches : RE → Option Ch → List Ch → Option Ch → Prop
  | eps {p n} : Matches .eps p [] n
  | cls {f c p n} : f c = true → Matches (.cls f) p [c] n
  | anchor {k p n} : k.ok p n = true → Matches (.anchor k) p [] n
  | cat {a b p w1 w2 n} : Matches a p w1 (ctxR w2 n) → Matches b (ctxL p w1) w2 n →
      Matches (.cat a b) p (w1 ++ w2) n
  | altL {a b p w n} : Matches a p w n → Matches (.alt a b) p w n
  | altR {a b p w n} : Matches b p w n → Matches (.alt a b) p w n
  | starNil {a p n} : Matches (.star a) p [] n
  | starCons {a p w1 w2 n} : Matches a p w1 (ctxR w2 n) → Matches (.star a) (ctxL p w1) w2 n →
      Matches (.star a) p (w1 ++ w2) n

/-- `fn:matches` semantics (F&O 5.6.3): some substring matches, in its context -/
def Search (r : RE) (s : List Ch) : Prop :=
  ∃ pre w post, s = pre ++ (w ++ post) ∧ Matches r pre.getLast? w post.head?

/-- XSD pattern-facet semantics: the whole string matches -/
def Full (r : RE) (s : List Ch) : Prop := Matches r none s none

def nullable : RE → Option Ch → Option Ch → Bool
  | .empty, _, _ => false
  | .eps, _, _ => true
  | .cls _, _, _ => false
  | .anchor k, p, n => k.ok p n
  | .cat a b, p, n => nullable a p n && nullable b p n
  | .alt a b, p, n => nullable a p n || nullable b p n
  | .star _, _, _ => true

/-- smart constructors (keep derivatives small) -/
def mkCat : RE → RE → RE
  | .empty, _ => .empty
  | _, .empty => .empty
  | .eps, b => b
  | a, b => .cat a b

def mkAlt : RE → RE → RE
  | .empty, b => b
  | a, .empty => a
  | a, b => .alt a b

/-- Brzozowski derivative with respect to `c` read at a position whose left context is `p` -/
def deriv (p : Option Ch) (c : Ch) : RE → RE
  | .empty => .empty
  | .eps => .empty
  | .cls f => if f c then .eps else .empty
  | .anchor _ => .empty
  | .cat a b => mkAlt (mkCat (deriv p c a) b) (if nullable a p (some c) then deriv p c b else .empty)
  | .alt a b => mkAlt (deriv p c a) (deriv p c b)
  | .star a => mkCat (deriv p c a) (.star a)

def derivMatch (r : RE) (p : Option Ch) : List Ch → Option Ch → Bool
  | [], n => nullable r p n
  | c :: w, n => derivMatch (deriv p c r) (some c) w n

/-- does some prefix of `w` (followed by the rest of `w`, then `n`) match `r`? -/
def prefixMatch (r : RE) (p : Option Ch) : List Ch → Option Ch → Bool
  | [], n => nullable r p n
  | c :: w, n => nullable r p (some c) || prefixMatch (deriv p c r) (some c) w n

/-- the leftmost position `≥ k` of `s` at which a match of `r` starts (F&O 5.6: matching proceeds
from the leftmost match); `lmsGo p w i`: `w` = suffix at index `i`, `p` = character before it -/
def lmsGo (r : RE) : Option Ch → List Ch → Nat → Option Nat
  | p, [], i => if nullable r p none then some i else none
  | p, c :: w, i => if prefixMatch r p (c :: w) none then some i else lmsGo r (some c) w (i + 1)

def leftmostStart (r : RE) (s : List Ch) (k : Nat) : Option Nat :=
  lmsGo r (s.take k).getLast? (s.drop k) k

def anyCh : RE := .cls fun _ => true
def searchRE (r : RE) : RE := .cat (.star anyCh) (.cat r (.star anyCh))
/-- executable `fn:matches` oracle -/
def searchB (r : RE) (s : List Ch) : Bool := derivMatch (searchRE r) none s none
def fullB (r : RE) (s : List Ch) : Bool := derivMatch r none s none

/-- `r{n}` -/
def repN (r : RE) : Nat → RE
  | 0 => .eps
  | k + 1 => .cat r (repN r k)
/-- `r{0,k}` as `(r(r(...)?)?)?` -/
def repOpt (r : RE) : Nat → RE
  | 0 => .eps
  | k + 1 => .alt .eps (.cat r (repOpt r k))
/-- [67]-[71] quantifier `{n,m}` / `{n,}`: "at least n and at most m consecutive matches" -/
def rep (r : RE) (lo : Nat) : Option Nat → RE
  | none => .cat (repN r lo) (.star r)
  | some hi => .cat (repN r lo) (repOpt r (hi - lo))

/-- `k` consecutive matches of `r`, each in its context ([66]-[71]: a quantified piece matches
"at least n and at most m consecutive" matches of its atom) -/
def Pow (r : RE) : Nat → Option Ch → List Ch → Option Ch → Prop
  | 0, _, w, _ => w = []
  | k + 1, p, w, n => ∃ w1 w2, w = w1 ++ w2 ∧ Matches r p w1 (ctxR w2 n) ∧ Pow r k (ctxL p w1) w2 n

/-! ## 3. surface syntax and recogniser -/

inductive EscKind where | s | d | w | i | c
  deriving DecidableEq, Repr, Inhabited

/-- [79] charGroupPart -/
inductive CItem where
  | chr (c : Ch)
  | range (a b : Ch)
  | esc (k : EscKind) (neg : Bool)          -- [85] MultiCharEsc
  | prop (name : List Ch) (neg : Bool)      -- [86] catEsc / [87] complEsc
  deriving Repr, Inhabited

/-- [75] charClassExpr -/
inductive CClass where
  | mk (neg : Bool) (items : List CItem) (sub : Option CClass)
  deriving Repr, Inhabited

/-- `xpath = true`: the F&O 3.1 flavour (anchors, reluctant quantifiers, back-references, `(?:`,
`\$`); `false`: the plain XSD flavour (pattern facet).  `v11`: XSD 1.1 (else 1.0). -/
structure Opts where
  xpath : Bool := true
  deriving Repr, Inhabited

structure PSt where
  opened : Nat := 0
  closed : List Nat := []
  /-- set when the text uses a construct on which XSD 1.0 and 1.1 (or their readings) differ:
  an unescaped `-` in the middle of a group or as a range end point -/
  unclear : Bool := false
  deriving Repr, Inhabited

def isDigit (c : Ch) : Bool := 48 ≤ c && c ≤ 57
def isNameCh (c : Ch) : Bool := isDigit c || (65 ≤ c && c ≤ 90) || (97 ≤ c && c ≤ 122) || c == 45

/-- [83] SingleCharEsc: `\` followed by one of `n r t \ | . ? * + ( ) { } - [ ] ^` (and `$`, F&O) -/
def singleEsc (o : Opts) (e : Ch) : Option Ch :=
  if e == 110 then some 10 else if e == 114 then some 13 else if e == 116 then some 9
  else if [92, 124, 46, 63, 42, 43, 40, 41, 123, 125, 45, 91, 93, 94].contains e then some e
  else if o.xpath && e == 36 then some 36
  else none

/-- [85] MultiCharEsc -/
def multiEsc (e : Ch) : Option (EscKind × Bool) :=
  if e == 115 then some (.s, false) else if e == 83 then some (.s, true)
  else if e == 100 then some (.d, false) else if e == 68 then some (.d, true)
  else if e == 119 then some (.w, false) else if e == 87 then some (.w, true)
  else if e == 105 then some (.i, false) else if e == 73 then some (.i, true)
  else if e == 99 then some (.c, false) else if e == 67 then some (.c, true)
  else none

/-- `{name}` after `\p` / `\P` -/
def pPropName : List Ch → Option (List Ch × List Ch)
  | 123 :: rest =>
    let name := rest.takeWhile isNameCh
    match rest.dropWhile isNameCh with
    | 125 :: rest' => if name.isEmpty then none else some (name, rest')
    | _ => none
  | _ => none

/-- [80] singleChar inside a group: returns (code point, was it an unescaped hyphen, rest) -/
def pSingleChar (o : Opts) : List Ch → Option (Ch × Bool × List Ch)
  | 92 :: e :: rest => (singleEsc o e).map fun c => (c, false, rest)
  | 92 :: [] => none
  | 91 :: _ => none
  | 93 :: _ => none
  | c :: rest => some (c, c == 45, rest)
  | [] => none

mutual
/-- [75]-[81]: the text after `[`; returns the class and the text after its closing `]` -/
def pClass (o : Opts) : Nat → List Ch → PSt → Option (CClass × List Ch × PSt)
  | 0, _, _ => none
  | fuel + 1, inp, st =>
    match inp with
    | 94 :: rest => pParts o fuel true rest [] st
    | _ => pParts o fuel false inp [] st
/-- [77] posCharGroup ::= charGroupPart+ , then `]` or `-[` charClassExpr `]` -/
def pParts (o : Opts) : Nat → Bool → List Ch → List CItem → PSt → Option (CClass × List Ch × PSt)
  | 0, _, _, _, _ => none
  | f + 1, ng, inp, acc, st =>
    match inp with
    | [] => none
    | 93 :: rest => if acc.isEmpty then none else some (.mk ng acc.reverse none, rest, st)
    | 45 :: 91 :: rest =>
      if acc.isEmpty then none else
      match pClass o f rest st with
      | some (sub, 93 :: rest', st') => some (.mk ng acc.reverse (some sub), rest', st')
      | _ => none
    | 92 :: e :: rest =>
      match multiEsc e with
      | some (k, neg) => pParts o f ng rest (.esc k neg :: acc) st
      | none =>
        if e == 112 || e == 80 then
          match pPropName rest with
          | some (name, rest') => pParts o f ng rest' (.prop name (e == 80) :: acc) st
          | none => none
        else pSingle o f ng inp acc st
    | _ => pSingle o f ng inp acc st
/-- [80] singleChar or [81] charRange ::= singleChar '-' singleChar -/
def pSingle (o : Opts) : Nat → Bool → List Ch → List CItem → PSt → Option (CClass × List Ch × PSt)
  | 0, _, _, _, _ => none
  | f + 1, ng, inp, acc, st =>
    match pSingleChar o inp with
    | none => none
    | some (c, hy, rest) =>
      match rest with
      | 45 :: nx :: rest2 =>
        if nx == 93 || nx == 91 then
          -- the hyphen is the last character of the group or a subtraction operator
          pParts o f ng rest (.chr c :: acc) { st with unclear := st.unclear || (hy && !acc.isEmpty) }
        else if nx == 45 then
          -- `c--`: an unescaped hyphen as range end point (error in 1.1, literal in some 1.0 readings)
          pParts o f ng rest (.chr c :: acc) { st with unclear := true }
        else
          match pSingleChar o (nx :: rest2) with
          | none => none
          | some (e, hy2, rest3) =>
            if c ≤ e then pParts o f ng rest3 (.range c e :: acc) { st with unclear := st.unclear || hy || hy2 }
            else none
      | _ =>
        -- an unescaped hyphen that is neither first nor last: XSD 1.0 forbids it, 1.1 readings differ
        let last := match rest with | 93 :: _ => true | _ => false
        pParts o f ng rest (.chr c :: acc) { st with unclear := st.unclear || (hy && !acc.isEmpty && !last) }
end

/-- [71] QuantExact ::= [0-9]+ : (value, rest) -/
def readNat (l : List Ch) : Option (Nat × List Ch) :=
  let ds := l.takeWhile isDigit
  if ds.isEmpty then none else some (ds.foldl (fun n c => n * 10 + (c - 48)) 0, l.dropWhile isDigit)

/-- F&O: a quantifier may be followed by `?` (reluctant) -/
def lazyOf (o : Opts) (rest : List Ch) : Bool × List Ch :=
  match rest with
  | 63 :: r => if o.xpath then (true, r) else (false, rest)
  | _ => (false, rest)

/-- [68]-[70] quantity inside `{ }` (text after `{`): `n}`, `n,}`, `n,m}` with n ≤ m -/
def pQuantity (l : List Ch) : Option (Nat × Option Nat × List Ch) :=
  match readNat l with
  | none => none
  | some (lo, 125 :: r) => some (lo, some lo, r)
  | some (lo, 44 :: 125 :: r) => some (lo, none, r)
  | some (lo, 44 :: r1) =>
    match readNat r1 with
    | some (hi, 125 :: r) => if lo ≤ hi then some (lo, some hi, r) else none
    | _ => none
  | _ => none

/-- [67] quantifier ::= [?*+] | '{' quantity '}' (at the head of the text), then the optional `?` -/
def pQuant (o : Opts) (inp : List Ch) : Option (Option (Nat × Option Nat × Bool) × List Ch) :=
  match inp with
  | 63 :: rest => let (l, r) := lazyOf o rest; some (some (0, some 1, l), r)
  | 42 :: rest => let (l, r) := lazyOf o rest; some (some (0, none, l), r)
  | 43 :: rest => let (l, r) := lazyOf o rest; some (some (1, none, l), r)
  | 123 :: rest =>
    match pQuantity rest with
    | none => none
    | some (lo, hi, r) => let (l, r') := lazyOf o r; some (some (lo, hi, l), r')
  | _ => some (none, inp)

/-- decimal value of a digit string -/
def digitsVal (l : List Nat) : Nat := l.foldl (fun n d => n * 10 + d) 0

/-- F&O 3.1 5.6.1: "`\N` followed by further digits is a reference to the group numbered by the
LONGEST prefix of the digit string that does not exceed the number of capturing groups opened so
far; the remaining digits are ordinary characters" — try the longest prefix first.  (When even the
first digit exceeds the count, the reference is that digit alone and the pattern is in error.) -/
def bestPrefix (g : Nat) (digits : List Nat) : Nat → Nat
  | 0 => 1
  | 1 => 1
  | k + 2 => if digitsVal (digits.take (k + 2)) ≤ g then k + 2 else bestPrefix g digits (k + 1)

/-- (group number, the digits that remain ordinary characters) -/
def resolveS (digits : List Nat) (g : Nat) : Nat × List Nat :=
  let k := bestPrefix g digits digits.length
  (digitsVal (digits.take k), digits.drop k)

/-- F&O 5.6.1.1 flag `x`: "whitespace characters (#x9, #xA, #xD and #x20) in the regular
expression are removed prior to matching, [unless] within a character class expression" -/
def stripX : List Ch → Nat → List Ch
  | [], _ => []
  | 92 :: c :: rest, d => 92 :: c :: stripX rest d
  | 91 :: rest, d => 91 :: stripX rest (d + 1)
  | 93 :: rest, d => 93 :: stripX rest (d - 1)
  | c :: rest, d => if d == 0 && (c == 9 || c == 10 || c == 13 || c == 32) then stripX rest d else c :: stripX rest d

/-! F&O 5.6.1.1 flag `q`: every character of the pattern stands for itself — the lexeme list is
`pattern.map (atom ∘ chr)`. -/

/-! ### tables and translation to core expressions -/

/-- what the specification needs to know about Unicode: the subset named by `\p{name}` -/
structure Tables where
  prop : List Ch → Option SetE          -- `\p{..}` categories and `Is` blocks
  deriving Inhabited

/-- `\s` = `[#x20\t\n\r]` (G.4.2.5) -/
def tblS : SetE := .ranges [(9, 11), (13, 14), (32, 33)]
/-- `\i`: XML NameStartChar -/
def tblI : SetE := .ranges [(0x3A, 0x3B), (0x41, 0x5B), (0x5F, 0x60), (0x61, 0x7B), (0xC0, 0xD7), (0xD8, 0xF7),
  (0xF8, 0x300), (0x370, 0x37E), (0x37F, 0x2000), (0x200C, 0x200E), (0x2070, 0x2190), (0x2C00, 0x2FF0),
  (0x3001, 0xD800), (0xF900, 0xFDD0), (0xFDF0, 0xFFFE), (0x10000, 0xF0000)]
/-- `\c`: XML NameChar = NameStartChar | `-` | `.` | [0-9] | #xB7 | [#x300-#x36F] | [#x203F-#x2040] -/
def tblC : SetE := .union tblI (.ranges [(0x2D, 0x2F), (0x30, 0x3A), (0xB7, 0xB8), (0x300, 0x370), (0x203F, 0x2041)])

def nameOf (s : String) : List Ch := s.toList.map Char.toNat

/-- the subset named by a multi-character escape (G.4.2.5): `\d` = `\p{Nd}`,
`\w` = `[#x0-#x10FFFF]-[\p{P}\p{Z}\p{C}]` -/
def Tables.esc (T : Tables) : EscKind → Option SetE
  | .s => some tblS
  | .i => some tblI
  | .c => some tblC
  | .d => T.prop (nameOf "Nd")
  | .w => do
    let p ← T.prop (nameOf "P"); let z ← T.prop (nameOf "Z"); let c ← T.prop (nameOf "C")
    pure (.diff .all (.union p (.union z c)))

def CItem.toItem (T : Tables) : CItem → Option Item
  | .chr c => some ⟨false, .single c⟩
  | .range a b => some ⟨false, .range a b⟩
  | .esc k neg => (T.esc k).map fun s => ⟨neg, s⟩
  | .prop name neg => (T.prop name).map fun s => ⟨neg, s⟩

/-- `none`: the class names an unknown category/block ([88] charProp) -/
def CClass.toClassE (T : Tables) : CClass → Option ClassE
  | .mk ng items sub => do
    let its ← items.mapM (CItem.toItem T)
    match sub with
    | none => pure (.plain ng its)
    | some s => do let s' ← s.toClassE T; pure (.minus ng its s')

structure Flags where
  dotAll : Bool := false      -- `s`
  multi : Bool := false       -- `m`
  deriving Repr, Inhabited

/-! ### lexeme-level formulation of the grammar (the one the oracle and the theorems use)

`lexS` cuts the pattern text into the lexemes of productions [66]-[88] (atoms, parentheses, `|`,
quantifiers); `parseT` (the grammar [64]-[66], [72] over lexemes, shared with the Python side, see
Model/RegexFuns.lean) builds the tree; `specRE` is its language. -/

inductive XAtom where
  | chr (c : Ch)
  | dot
  | cls (c : CClass) (src : List Ch)        -- a class and its source text `[...]` / `\d` / `\p{..}`
  | bol | eol
  | backref (n : Nat)
  deriving Repr, Inhabited

/-- one lexeme at the head of the text: (tokens, rest, groups opened so far, unclear-hyphen flag) -/
def lexStepS (o : Opts) (opened : Nat) : List Ch → Option (List (Tok XAtom) × List Ch × Nat × Bool)
  | [] => none
  | 40 :: rest =>
    -- F&O 3.0: `(?:` opens a non-capturing group
    let nonCap := o.xpath && (rest.take 2 == [63, 58])
    if nonCap then some ([.lpar false], rest.drop 2, opened, false)
    else some ([.lpar true], rest, opened + 1, false)
  | 41 :: rest => some ([.rpar], rest, opened, false)
  | 124 :: rest => some ([.bar], rest, opened, false)
  | 91 :: rest =>
    match pClass o (3 * rest.length + 4) rest {} with
    | some (c, rest', st) => some ([.atom (.cls c (91 :: rest.take (rest.length - rest'.length)))], rest', opened, st.unclear)
    | none => none
  | 92 :: e :: rest =>
    match singleEsc o e with
    | some c => some ([.atom (.chr c)], rest, opened, false)
    | none =>
      match multiEsc e with
      | some (k, neg) => some ([.atom (.cls (.mk false [.esc k neg] none) [92, e])], rest, opened, false)
      | none =>
        if e == 112 || e == 80 then
          (pPropName rest).map fun (name, rest') => ([.atom (.cls (.mk false [.prop name (e == 80)] none) [])], rest', opened, false)
        else if o.xpath && isDigit e && e != 48 then
          -- back-reference: `resolveS` against the groups opened so far; the other digits are characters
          let more := rest.takeWhile isDigit
          let r := resolveS ((e - 48) :: more.map (· - 48)) opened
          some ([.atom (.backref r.1)], rest.drop (more.length - r.2.length), opened, false)
        else none
  | 92 :: [] => none
  | 46 :: rest => some ([.atom .dot], rest, opened, false)
  | c :: rest =>
    if o.xpath && c == 94 then some ([.atom .bol], rest, opened, false)
    else if o.xpath && c == 36 then some ([.atom .eol], rest, opened, false)
    else if c == 63 || c == 42 || c == 43 || c == 123 then
      match pQuant o (c :: rest) with
      | some (some (lo, hi, l), rest') => some ([.quant lo hi l], rest', opened, false)
      | _ => none
    -- [73] NormalChar ::= [^.\?*+{}()|[\]]
    else if c == 125 || c == 93 then none
    else some ([.atom (.chr c)], rest, opened, false)

def lexS (o : Opts) : Nat → List Ch → Nat → Option (List (Tok XAtom) × Bool)
  | 0, _, _ => none
  | _ + 1, [], _ => some ([], false)
  | fuel + 1, inp, opened =>
    match lexStepS o opened inp with
    | none => none
    | some (toks, rest, opened', u) =>
      (lexS o fuel rest opened').map fun (ts, u') => (toks ++ ts, u || u')

/-- F&O 5.6.1: a back-reference must name a capturing group that is already closed.
`stack` = the currently open groups (`none` = non-capturing), `next` = number of the next capturing group -/
def backrefsOk : List (Tok XAtom) → List (Option Nat) → List Nat → Nat → Bool
  | [], _, _, _ => true
  | .lpar true :: ts, stack, closed, next => backrefsOk ts (some next :: stack) closed (next + 1)
  | .lpar false :: ts, stack, closed, next => backrefsOk ts (none :: stack) closed next
  | .rpar :: ts, some g :: stack, closed, next => backrefsOk ts stack (g :: closed) next
  | .rpar :: ts, _ :: stack, closed, next => backrefsOk ts stack closed next
  | .rpar :: ts, [], closed, next => backrefsOk ts [] closed next
  | .atom (.backref n) :: ts, stack, closed, next => closed.contains n && backrefsOk ts stack closed next
  | _ :: ts, stack, closed, next => backrefsOk ts stack closed next

def XAtom.den (T : Tables) (fl : Flags) : XAtom → RE
  | .chr c => .cls (· == c)
  | .dot => if fl.dotAll then anyCh else .cls fun c => c != 10 && c != 13      -- `[^\n\r]`
  | .cls c _ => match c.toClassE T with
    | some e => .cls fun x => decide (x < maxCP1) && specClass e x
    | none => .empty
  | .bol => .anchor (if fl.multi then .bolM else .bol)
  | .eol => .anchor (if fl.multi then .eolM else .eol)
  | .backref _ => .empty

/-- language of a syntax tree whose atoms are already core expressions; groups (capturing or not)
and reluctant quantifiers do not change the language -/
def Ast.den : Ast RE → RE
  | .eps => .eps
  | .atom r => r
  | .group _ r => r.den
  | .cat a b => .cat a.den b.den
  | .alt a b => .alt a.den b.den
  | .quant r lo hi _ => rep r.den lo hi

/-- the lexemes of a pattern (`none`: not even lexically a regExp) and the unclear-hyphen flag -/
def specLex (o : Opts) (s : List Ch) : Option (List (Tok XAtom) × Bool) := lexS o (s.length + 1) s 0

def isBackrefTok : Tok XAtom → Bool | .atom (.backref _) => true | _ => false
def classOfTok : Tok XAtom → Option CClass | .atom (.cls c _) => some c | _ => none

/-- the core expression of a lexeme list: `none` = not a regExp -/
def specRE (T : Tables) (fl : Flags) (toks : List (Tok XAtom)) : Option RE :=
  (parseT (toks.map (Tok.map (XAtom.den T fl)))).map Ast.den

/-- validity ([64]-[88] + F&O 5.6.1): lexes, parses, back-references name closed groups,
every `\p{..}` names a known subset -/
def specValid (T : Tables) (toks : List (Tok XAtom)) : Bool :=
  (specRE T {} toks).isSome && backrefsOk toks [] [] 1 &&
  toks.all fun t => match classOfTok t with | some c => (c.toClassE T).isSome | none => true

/-! ## 4. the F&O functions over the list of match spans

`spans` = the ordered, non-overlapping, non-empty matches `[start, stop)` of the pattern in the
input, as F&O 5.6.4-5.6.6 define them (leftmost match first, continue after it). -/

/-- ordered, non-overlapping, non-empty spans inside `[k, n]` -/
def SpansOk (k n : Nat) : List Span → Prop
  | [] => k ≤ n
  | (a, b) :: rest => k ≤ a ∧ a < b ∧ b ≤ n ∧ SpansOk b n rest

instance : (k n : Nat) → (l : List Span) → Decidable (SpansOk k n l)
  | k, n, [] => by unfold SpansOk; infer_instance
  | k, n, (a, b) :: rest => by
    unfold SpansOk
    have := instDecidableSpansOk b n rest
    infer_instance

/-- `fn:analyze-string` (F&O 5.6.6): `(isMatch, text)` children in order; a non-match child is
present only for a non-empty gap -/
def specAnalyze (s : List Ch) (k : Nat) : List Span → List (Bool × List Ch)
  | [] => if k < s.length then [(false, slice s k s.length)] else []
  | (a, b) :: rest =>
    (if k < a then [(false, slice s k a)] else []) ++ (true, slice s a b) :: specAnalyze s b rest

/-- `fn:tokenize` (F&O 5.6.5): the substrings between the matches — including a zero-length
token before a match at the start, between adjacent matches and after a match at the end;
the empty input has no token -/
def specTokenize (s : List Ch) (spans : List Span) : List (List Ch) :=
  let rec go (k : Nat) : List Span → List (List Ch)
    | [] => [slice s k s.length]
    | (a, b) :: rest => slice s k a :: go b rest
  if s.isEmpty then [] else go 0 spans

/-- `fn:replace` (F&O 5.6.4) with a replacement made of literal text and `$0`: every match is
replaced by the template, in which `$0` stands for the matched substring; the rest is copied -/
def specReplace (s : List Ch) (parts : List RPart) (k : Nat) : List Span → List Ch
  | [] => slice s k s.length
  | (a, b) :: rest =>
    slice s k a ++ parts.flatMap (RPart.expand (slice s a b)) ++ specReplace s parts b rest

end EPV.Regex

/-
C05 — the REVIEWED lists against which the structural scan of the live package
(harness/c05_sites.py -> EPV/Gen/C05Sites.lean) is checked by `decide` (EPV/Props/C05Sites.lean).
Core Lean only.  Each entry was read in the source; the comment says why it is harmless for the
property "evaluation modifies neither the input XML tree nor the caller's variables, namespace
maps or schema objects" — or which histories exercise it.

A site that is not listed here makes the build of Props/C05Sites fail; the check then searches for
a failing history that exercises the token class / function of the new site.
-/
namespace EPV.PuritySites

/-- functions that construct NEW trees and therefore may write Element objects: `fn:json-to-xml`
builds its result with `etree.Element` / `SubElement` / `.text =` (`fn:parse-xml`,
`fn:analyze-string` and the node-tree builders only call the etree PARSER / constructors, no write
site at all). -/
def builderFunctions : List String :=
  ["evaluate__json_to_xml", "evaluate__json_to_xml.json_object_to_etree", "evaluate__json_to_xml.value_to_etree"]

/-- writes to an Element that is a fresh COPY made a line before (reviewed one by one, exact site):
`serialize_to_xml` does `elem = copy(elem); elem.tail = None` to serialize an element without its
tail (ElementTree: `Element.__copy__` = new element sharing the children; lxml: deep copy) — the
caller's element keeps its tail (histories: `serialize(..)` on documents with tails, ET and lxml). -/
def reviewedCopyWrites : List (String × String × String × String) := [
  ("element", "elementpath/serialization.py", "serialize_to_xml", "elem.tail ="),
  -- C17 CR marking: `elem = deepcopy(elem)` and then, `for e in elem.iter()`, U+000D in `e.text` / `e.tail` of the
  -- DEEP COPY is replaced by a private-use marker (ElementTree only); the caller's tree is not reachable from `e`
  -- (histories: `serialize(..)` on a document with &#13; in text and tail, `tostring` compared before / after)
  ("element", "elementpath/serialization.py", "serialize_to_xml", "e.tail ="),
  ("element", "elementpath/serialization.py", "serialize_to_xml", "e.text =")]

/-- files that own the XPath node wrappers (`XPathNode` objects built per context around the
caller's elements); attribute writes on wrappers are confined to them -/
def nodeWrapperFiles : List String := ["elementpath/tree_builders.py", "elementpath/xpath_nodes.py"]

/-- in-place writes to a `namespaces` / `variables` dict — every one on a dict the package created
itself (see `reviewedVariableBinds` for where `variables` dicts come from) -/
def reviewedDictWrites : List (String × String × String × String) := [
  -- self.namespaces = self.DEFAULT_NAMESPACES.copy(); then update(<caller's mapping>) : reads the caller's dict
  ("namespaces", "elementpath/xpath1/xpath1_parser.py", "XPath1Parser.__init__", "self.namespaces.update()"),
  -- the same own dict
  ("namespaces", "elementpath/xpath2/xpath2_parser.py", "XPath2Parser.__init__", "self.namespaces[...] ="),
  -- the dict copied two lines above (`context.variables = context.variables.copy()`)
  ("variables", "elementpath/xpath2/_xpath2_operators.py", "evaluate__quantified_expressions", "context.variables.update()"),
  ("variables", "elementpath/xpath2/_xpath2_operators.py", "select__for_expression", "context.variables.update()"),
  ("variables", "elementpath/xpath30/_xpath30_functions.py", "_InlineFunction.__call__", "context.variables[...] ="),
  ("variables", "elementpath/xpath30/_xpath30_operators.py", "select__let_expression", "context.variables[...] ="),
  -- the dict created by the constructor (`self.variables = dict()`), filled from the caller's mapping
  ("variables", "elementpath/xpath_context.py", "XPathContext.__init__", "self.variables[...] ="),
  -- the loop dict of for/some/every (a copy, see the binds)
  ("variables", "elementpath/xpath_context.py", "XPathContext.iter_product", "self.variables.pop()"),
  ("variables", "elementpath/xpath_context.py", "XPathContext.iter_product", "self.variables.update()"),
  ("variables", "elementpath/xpath_context.py", "XPathContext.iter_product", "self.variables[...] =")]

/-- every place where a `variables` attribute is (re)bound: a new dict, a `.copy()`, or the alias
between a context and its own shallow copy (`__copy__`) — never the caller's mapping itself.
These are exactly the copies of the model (EPV/Model/Scope.lean: let / for / some / every /
`calleeEnv` / `Item.fn … ρ`). -/
def reviewedVariableBinds : List (String × String × String) := [
  ("elementpath/xpath2/_xpath2_operators.py", "evaluate__quantified_expressions", "context.variables = context.variables.copy()"),
  ("elementpath/xpath2/_xpath2_operators.py", "select__for_expression", "context.variables = context.variables.copy()"),
  ("elementpath/xpath30/_xpath30_functions.py", "_InlineFunction.__call__", "context.variables = context.variables.copy()"),
  ("elementpath/xpath30/_xpath30_functions.py", "_InlineFunction.__call__", "context.variables = self.variables.copy()"),
  ("elementpath/xpath30/_xpath30_functions.py", "_InlineFunction.evaluate", "func.variables = context.variables.copy()"),
  ("elementpath/xpath30/_xpath30_operators.py", "select__let_expression", "context.variables = context.variables.copy()"),
  ("elementpath/xpath_context.py", "XPathContext.__copy__", "obj.variables = self.variables"),
  ("elementpath/xpath_context.py", "XPathContext.__init__", "self.variables = dict[str, ta.ValueType]()")]

inductive Memo where
  /-- memo of a value that does not depend on the dynamic context -/
  | static
  /-- stores a value of the current evaluation on the token: a potential history dependence,
  exercised by the named histories of harness/c05.py -/
  | dynamic
  deriving Repr, DecidableEq

/-- state written on `self` by evaluation-time code of token classes -/
def reviewedTokenWrites : List ((String × String × String) × Memo) := [
  -- container primitives of Token (a token is a MutableSequence of its operands); used at evaluation
  -- time only through XPathFunction.__call__ / partial application below
  (("elementpath/tdop.py", "Token.__delitem__", "self._items[...] del"), .dynamic),
  (("elementpath/tdop.py", "Token.__setitem__", "self._items[...] ="), .dynamic),
  (("elementpath/tdop.py", "Token.insert", "self._items.insert()"), .dynamic),
  -- default `[]` for a function without parameters
  (("elementpath/xpath30/_xpath30_functions.py", "_InlineFunction.__call__", "self.varnames ="), .static),
  -- partial application turns the function ITEM into a partial function (on a copy of the item since
  -- the C16 fixes); histories: `$f($v, ?)(1)`, `concat(?, 'x')($v)` in cache_histories
  (("elementpath/xpath30/_xpath30_functions.py", "_InlineFunction.to_partial_function", "self._name ="), .dynamic),
  (("elementpath/xpath30/_xpath30_functions.py", "_InlineFunction.to_partial_function", "self.label ="), .dynamic),
  (("elementpath/xpath30/_xpath30_functions.py", "_InlineFunction.to_partial_function", "self.nargs ="), .dynamic),
  -- a called named function item stores its ARGUMENTS as operands of itself; the item is built per
  -- evaluation of `name#n` (seeded change 2 made it per token); histories: function references,
  -- for-each / fold-left / sort / apply in cache_histories and ORACLE_EXPRS
  (("elementpath/xpath_tokens/functions.py", "XPathFunction.__call__", "self._items.append()"), .dynamic),
  (("elementpath/xpath_tokens/functions.py", "XPathFunction.__call__", "self.clear()"), .dynamic),
  (("elementpath/xpath_tokens/functions.py", "XPathFunction.__call__", "self.label ="), .static),
  (("elementpath/xpath_tokens/functions.py", "XPathFunction.qname", "self._qname ="), .static),
  (("elementpath/xpath_tokens/functions.py", "XPathFunction.to_partial_function", "self._qname ="), .dynamic),
  (("elementpath/xpath_tokens/functions.py", "XPathFunction.to_partial_function", "self.label ="), .dynamic),
  (("elementpath/xpath_tokens/functions.py", "XPathFunction.to_partial_function", "self.nargs ="), .dynamic),
  (("elementpath/xpath_tokens/functions.py", "XPathFunction.to_partial_function", "setattr(self, ...)"), .dynamic),
  -- (the XPathMap sites `_map` / `_nan_key` were removed by the C15 fixes and are no longer in this list:
  -- a reintroduction has to be reviewed again)
  (("elementpath/xpath_tokens/maps.py", "XPathMap._evaluate", "self._nan_key ="), .dynamic)]

/-- writes, inside functions, to state that outlives a call (module-level names, class attributes,
imported modules), memoising decorators, mutable defaults.  `static` = the stored value does not
depend on any argument / context of an evaluation (registration tables filled at import, memo of a
pure function keyed by ALL its arguments, lazily built constant); `dynamic` = it can, and is tied by
the named histories. -/
def reviewedModuleWrites : List ((String × String × String × String) × Memo) := [
  -- class construction (metaclasses) and symbol registration, executed while the package is imported
  (("class", "elementpath/datatypes/any_types.py", "AtomicTypeMeta.__new__", "cls.__doc__ ="), .static),
  (("class", "elementpath/tdop.py", "Parser.build", "cls.tokenizer ="), .static),
  (("class", "elementpath/tdop.py", "Parser.register", "cls.symbol_table[...] ="), .static),
  (("class", "elementpath/tdop.py", "Parser.unregister", "cls.symbol_table[...] del"), .static),
  (("class", "elementpath/tdop.py", "ParserMeta.__new__", "cls.literals_pattern ="), .static),
  (("class", "elementpath/tdop.py", "ParserMeta.__new__", "cls.name_pattern ="), .static),
  (("class", "elementpath/tdop.py", "ParserMeta.__new__", "cls.symbol_table ="), .static),
  (("class", "elementpath/tdop.py", "ParserMeta.__new__", "cls.symbol_table.update()"), .static),
  (("class", "elementpath/tdop.py", "ParserMeta.__new__", "cls.token_base_class ="), .static),
  (("class", "elementpath/tdop.py", "ParserMeta.__new__", "cls.tokenizer ="), .static),
  (("class", "elementpath/xpath1/xpath1_parser.py", "XPath1Parser.function", "cls.function_signatures[...] ="), .static),
  (("class", "elementpath/xpath1/xpath1_parser.py", "XPath1Parser.proxy", "cls.symbol_table.pop()"), .static),
  (("class", "elementpath/xpath1/xpath1_parser.py", "XPath1Parser.proxy", "cls.symbol_table[...] ="), .static),
  (("imported-module", "elementpath/tdop.py", "Parser.register", "setattr(sys.modules[cls.__module__], ...)"), .static),
  -- copy-on-write: each is preceded by `if self.x is self.__class__.x: self.x = copy(self.x)` (xpath2_parser.py)
  -- or `self.decimal_formats = deepcopy(self.decimal_formats)` (xpath30_parser.py): the INSTANCE's own table
  (("class-via-self", "elementpath/xpath2/xpath2_parser.py", "XPath2Parser.external_function", "self.function_signatures[...] ="), .dynamic),
  (("class-via-self", "elementpath/xpath2/xpath2_parser.py", "XPath2Parser.external_function", "self.symbol_table[...] ="), .dynamic),
  (("class-via-self", "elementpath/xpath2/xpath2_parser.py", "XPath2Parser.schema_constructor", "self.symbol_table[...] ="), .dynamic),
  (("class-via-self", "elementpath/xpath30/xpath30_parser.py", "XPath30Parser.__init__", "self.decimal_formats[...] ="), .dynamic),
  (("class-via-self", "elementpath/xpath30/xpath30_parser.py", "XPath30Parser.__init__", "self.decimal_formats[None].update()"), .dynamic),
  (("class-via-self", "elementpath/xpath30/xpath30_parser.py", "XPath30Parser.__init__", "self.decimal_formats[k].update()"), .dynamic),
  -- memo of pure functions of their (string) arguments; `cached_find` is per schema proxy (C20); `etree` per context
  (("memo-decorator", "elementpath/schema_proxy.py", "AbstractSchemaProxy.cached_find", "@lru_cache"), .dynamic),
  (("memo-decorator", "elementpath/sequence_types.py", "is_sequence_type.is_st", "@cache"), .static),
  (("memo-decorator", "elementpath/sequence_types.py", "is_sequence_type_restriction", "@cache"), .static),
  (("memo-decorator", "elementpath/sequence_types.py", "normalize_sequence_type", "@cache"), .static),
  (("memo-decorator", "elementpath/xpath_context.py", "XPathContext.etree", "@cached_property"), .static),
  -- Unicode tables: cache keyed by table function, cleared by install_unicode_data (explicit user call; C13)
  (("module", "elementpath/regex/unicode_subsets.py", "install_unicode_data", "__subsets_cache.clear()"), .dynamic),
  (("module", "elementpath/regex/unicode_subsets.py", "install_unicode_data", "global __unicode_data ="), .dynamic),
  (("module", "elementpath/regex/unicode_subsets.py", "lazy_subset.wrapper", "__subsets_cache[...] ="), .static),
  -- validation schemas built once from a constant source
  (("module", "elementpath/validators/__init__.py", "validate_analyzed_string", "global analyzed_string_schema ="), .static),
  (("module", "elementpath/validators/__init__.py", "validate_json_to_xml", "global json_to_xml_schema ="), .static)]

/-! ### the focus of the caller's context (item, axis, position, size, variables)

The scan classifies every store to the focus of a context outside xpath_context.py, and every loop
over `context.iter_*()`, by how the caller's focus is protected (`copy`, `finally`, `focus-generator`,
`iterator`), and every generator `iter_*` of XPathContext by whether it restores in a `finally`. -/

/-- protections that make a focus site harmless for the caller: the receiver is a copy of the
context; a later `finally` of the same function stores the attribute back; the store is driven by
`select_with_focus` (which restores in its `finally`); the loop runs over an axis iterator of the
context (which restores in its `finally`, see `iteratorOk`) -/
def focusProtections : List String := ["copy", "finally", "focus-generator", "iterator"]

/-- focus sites classified `unprotected` by the scan that were read one by one and found harmless (exact sites);
none at present: every focus site of the package is protected structurally -/
def reviewedFocusSites : List (String × String × String × String) := []

def focusSiteOk (w : String × String × String × String) : Bool :=
  match w with
  | (_, _, _, prot) => decide (prot ∈ focusProtections) || decide (w ∈ reviewedFocusSites)

def iteratorOk (w : String × String) : Bool :=
  match w with
  | (_, prot) => decide (prot = "finally") || decide (prot = "no-focus-write")

/-- is a scanned write site (kind, file, function, site) acceptable? -/
def treeWriteOk (w : String × String × String × String) : Bool :=
  match w with
  | (kind, file, fn, _) =>
    if kind = "element" then decide (fn ∈ builderFunctions) || decide (w ∈ reviewedCopyWrites)
    else if kind = "xnode" then decide (file ∈ nodeWrapperFiles)
    else if kind = "namespaces" ∨ kind = "variables" then decide (w ∈ reviewedDictWrites)
    else false          -- "schema" (or anything else): no write site is accepted

end EPV.PuritySites

/-
Specification side of C04: the operator fragment of the XPath grammars, written by hand from
the W3C texts, independent of the implementation's binding powers.

* abstract syntax shared by spec and model: tokens `Tok`, trees `Tree`, `Tree.yield`
* `Level`/`levels10 … levels31`: the expression productions as a table of precedence levels
  - XPath 1.0  REC-xpath-19991116  §3.1 [14]-[20], §3.3-3.5 [21]-[27], §2 [1]-[4]
  - XPath 2.0  REC-xpath20-20101214 A.1 [2]-[41]
  - XPath 3.0  REC-xpath-30-20140408 A.1 [6]-[50]
  - XPath 3.1  REC-xpath-31-20170321 A.1 [6]-[53]
* `Gram`: the same table as functions (level/kind of every operator symbol)
* `wf strict G t` / `derivable G k t`: "tree `t` is a derivation from the level-`k` nonterminal"
  (strict = the EBNF; relaxed = the EBNF with the three laxities documented at `wf`)
* `ebnf`: an executable recursive-descent parser for the level table (the reference the
  driver prints as `spec=`).
Core Lean only.
-/
namespace EPV.Syn

/-- abstract token alphabet of the operator fragment -/
inductive Tok where
  /-- an operand: kind `k` (0 name, 1 integer literal, 2 variable reference, 3 string literal), identity `n` -/
  | atom (k n : Nat)
  /-- a complete SequenceType / SingleType text (`xs:int`, `item()*`, `xs:string?`) -/
  | ty (n : Nat)
  /-- operator or opening bracket: row `o` of the operator table -/
  | op (o : Nat)
  /-- closing symbol: 0 = `)`, 1 = `]` -/
  | close (c : Nat)
  deriving Repr, DecidableEq, Inhabited

/-- token trees (what `Token.__getitem__` exposes: symbol + ordered children) -/
inductive Tree where
  /-- empty bracket content: `()` and `$f()` -/
  | nil
  | atom (k n : Nat)
  /-- parenthesised expression `( e )`: opening symbol `g`, closer `c` -/
  | group (g c : Nat) (e : Tree)
  /-- prefix operator applied to `x` -/
  | pre (p : Nat) (x : Tree)
  /-- binary operator -/
  | bin (o : Nat) (l r : Tree)
  /-- `l instance of T`, `l treat as T`, `l castable as T`, `l cast as T` -/
  | typed (o : Nat) (l : Tree) (n : Nat)
  /-- postfix bracket: predicate `l[e]`, dynamic call `l(e)` -/
  | post (o c : Nat) (l e : Tree)
  /-- arrow application `l => f a` (3.1 [29]): function specifier `f`, argument list `a` -/
  | arrow (o : Nat) (l f a : Tree)
  deriving Repr, DecidableEq, Inhabited

/-- the token sequence a tree was built from (in-order traversal) -/
def Tree.yield : Tree → List Tok
  | .nil => []
  | .atom k n => [.atom k n]
  | .group g c e => .op g :: (e.yield ++ [.close c])
  | .pre p x => .op p :: x.yield
  | .bin o l r => l.yield ++ .op o :: r.yield
  | .typed o l n => l.yield ++ [.op o, .ty n]
  | .post o c l e => l.yield ++ .op o :: (e.yield ++ [.close c])
  | .arrow o l f a => l.yield ++ .op o :: (f.yield ++ a.yield)

def Tree.size : Tree → Nat
  | .nil => 1
  | .atom _ _ => 1
  | .group _ _ e => e.size + 1
  | .pre _ x => x.size + 1
  | .bin _ l r => l.size + r.size + 1
  | .typed _ l _ => l.size + 1
  | .post _ _ l e => l.size + e.size + 1
  | .arrow _ l f a => l.size + f.size + a.size + 1

def Tree.isNil : Tree → Bool | .nil => true | _ => false
def Tree.isTyped : Tree → Bool | .typed .. => true | _ => false
def Tree.isPre : Tree → Bool | .pre .. => true | _ => false
/-- KeySpecifier of a lookup (3.1 [54]): NCName | IntegerLiteral | ParenthesizedExpr
| "*" (operand kinds 0 and 7 are NCNames — 7: a name that spells an operator keyword —, 1 integers, 6 the `*` key) -/
def Tree.isKeySpec : Tree → Bool
  | .atom k _ => k == 0 || k == 1 || k == 7 || k == 6
  | .group .. => true
  | _ => false
/-- ArrowFunctionSpecifier (3.1 [55]): EQName | VarRef | ParenthesizedExpr (operand kinds 0, 7, 8 are names, 2 variables) -/
def Tree.isArrowSpec : Tree → Bool
  | .atom k _ => k == 0 || k == 2 || k == 7 || k == 8
  | .group .. => true
  | _ => false
def Tree.isGroup : Tree → Bool | .group .. => true | _ => false

/-- head code of a tree / token, used by guards: atom kind `k` ↦ `2k+2`, operator symbol `o` ↦ `2o+1` -/
def Tree.head : Tree → Nat
  | .nil => 0
  | .atom k _ => 2 * k + 2
  | .group g _ _ => 2 * g + 1
  | .pre p _ => 2 * p + 1
  | .bin o _ _ => 2 * o + 1
  | .typed o _ _ => 2 * o + 1
  | .post o _ _ _ => 2 * o + 1
  | .arrow o _ _ _ => 2 * o + 1

/-! ### the lexical constraint on occurrence indicators -/

/-- a type token `ty n` stands for the base type `n / 4` with the occurrence indicator `n % 4`
(0 none, 1 `?`, 2 `*`, 3 `+`); base 0 is `empty-sequence()`, which takes no indicator
(2.0 [50] SequenceType ::= ("empty-sequence" "(" ")") | (ItemType OccurrenceIndicator?)) -/
def tyBase (n : Nat) : Nat := n / 4
def tyOcc (n : Nat) : Nat := n % 4

/-- XPath 2.0+ A.1.2 extra-grammatical constraint *occurrence-indicators*: "a `+`, `*` or `?` that immediately follows an
ItemType must be taken as an occurrence indicator"; after a SingleType (`cast as`, `castable as`, [49]) only `?`.
The token list is normalised accordingly before it is parsed: `T * * 2` is `T* * 2`, `T * 2` is `T*  2` (which
then fails to parse), `empty-sequence() * 2` and `T? * 2` are multiplications.
`occOf o`: the indicator code if symbol `o` is `?`, `*` or `+`; `single t`: the typed operator `t` takes a SingleType. -/
def absorbOcc (occOf : Nat → Option Nat) (single : Nat → Bool) : List Tok → List Tok
  | .op t :: .ty n :: .op o :: rest =>
      match occOf o with
      | some i =>
          if tyOcc n == 0 && tyBase n != 0 && (!single t || i == 1) then
            .op t :: .ty (n + i) :: absorbOcc occOf single rest
          else .op t :: .ty n :: absorbOcc occOf single (.op o :: rest)
      | none => .op t :: .ty n :: absorbOcc occOf single (.op o :: rest)
  | x :: rest => x :: absorbOcc occOf single rest
  | [] => []

/-! ### the grammar as a level table -/

/-- what an operator symbol does at its level -/
inductive Kind where
  /-- `E_k ::= E_{k+1} (op E_{k+1})*`  — groups to the left -/
  | left
  /-- `E_k ::= E_{k+1} (op E_{k+1})?`  — optional, once -/
  | none
  /-- `E_k ::= E_{k+1} (op Type)?` -/
  | typed
  /-- `E_k ::= E_{k+1} ( "[" Expr "]" | "(" Args? ")" )*` -/
  | bracket (close : Nat) (emptyOk : Bool)
  /-- `E_k ::= E_{k+1} ("?" KeySpecifier)*` -/
  | key
  /-- `E_k ::= E_{k+1} ("=>" ArrowFunctionSpecifier ArgumentList)*` -/
  | arrow
  deriving Repr, DecidableEq, Inhabited

/-- kind of a whole level -/
inductive LKind where
  | left | none | prefix | typed | postfix
  deriving Repr, DecidableEq, Inhabited

structure Level where
  name : String
  kind : LKind
  ops : List String
  deriving Repr, Inhabited

/-- closing symbol and "may be empty" of the bracket symbols (3.1 [52] Predicate, [50] ArgumentList,
[61] ParenthesizedExpr ::= "(" Expr? ")"; 1.0 [15] PrimaryExpr ::= '(' Expr ')') -/
def bracketInfo (emptyParens : Bool) : String → Option (Nat × Bool)
  | "(" => some (0, emptyParens)
  | "[" => some (1, false)
  | _ => none

/-- XPath 1.0: [21] OrExpr, [22] AndExpr, [23] EqualityExpr, [24] RelationalExpr, [25] AdditiveExpr,
[26] MultiplicativeExpr, [27] UnaryExpr ::= UnionExpr | '-' UnaryExpr, [18] UnionExpr,
[19] PathExpr / [3] RelativeLocationPath, [20] FilterExpr / [4] Step … Predicate*;
all binary productions are left-recursive (§3.4 "the operators are all left associative"). -/
def levels10 : List Level := [
  ⟨"OrExpr", .left, ["or"]⟩,
  ⟨"AndExpr", .left, ["and"]⟩,
  ⟨"EqualityExpr", .left, ["=", "!="]⟩,
  ⟨"RelationalExpr", .left, ["<", "<=", ">", ">="]⟩,
  ⟨"AdditiveExpr", .left, ["+", "-"]⟩,
  ⟨"MultiplicativeExpr", .left, ["*", "div", "mod"]⟩,
  ⟨"UnaryExpr", .prefix, ["-"]⟩,
  ⟨"UnionExpr", .left, ["|"]⟩,
  ⟨"PathExpr", .left, ["/", "//"]⟩,
  ⟨"FilterExpr/Step", .postfix, ["["]⟩]

/-- what elementpath's 1.0 parser implements instead (findings F04a, F04b): one non-associative
comparison level, and a unary plus that XPath 1.0 does not have -/
def levels10impl : List Level := [
  ⟨"OrExpr", .left, ["or"]⟩,
  ⟨"AndExpr", .left, ["and"]⟩,
  ⟨"Equality+RelationalExpr (F04a)", .none, ["=", "!=", "<", "<=", ">", ">="]⟩,
  ⟨"AdditiveExpr", .left, ["+", "-"]⟩,
  ⟨"MultiplicativeExpr", .left, ["*", "div", "mod"]⟩,
  ⟨"UnaryExpr (+: F04b)", .prefix, ["-", "+"]⟩,
  ⟨"UnionExpr", .left, ["|"]⟩,
  ⟨"PathExpr", .left, ["/", "//"]⟩,
  ⟨"FilterExpr/Step", .postfix, ["["]⟩]

/-- XPath 2.0 A.1: [2] Expr, [8] OrExpr, [9] AndExpr, [10] ComparisonExpr (optional once),
[11] RangeExpr (once), [12] AdditiveExpr, [13] MultiplicativeExpr, [14] UnionExpr,
[15] IntersectExceptExpr, [16] InstanceofExpr, [17] TreatExpr, [18] CastableExpr, [19] CastExpr,
[20] UnaryExpr, [25]-[27] PathExpr/RelativePathExpr, [38] FilterExpr ::= PrimaryExpr PredicateList -/
def levels20 : List Level := [
  ⟨"Expr", .left, [","]⟩,
  ⟨"OrExpr", .left, ["or"]⟩,
  ⟨"AndExpr", .left, ["and"]⟩,
  ⟨"ComparisonExpr", .none, ["=", "!=", "<", "<=", ">", ">=", "eq", "ne", "lt", "le", "gt", "ge", "is", "<<", ">>"]⟩,
  ⟨"RangeExpr", .none, ["to"]⟩,
  ⟨"AdditiveExpr", .left, ["+", "-"]⟩,
  ⟨"MultiplicativeExpr", .left, ["*", "div", "idiv", "mod"]⟩,
  ⟨"UnionExpr", .left, ["union", "|"]⟩,
  ⟨"IntersectExceptExpr", .left, ["intersect", "except"]⟩,
  ⟨"InstanceofExpr", .typed, ["instance"]⟩,
  ⟨"TreatExpr", .typed, ["treat"]⟩,
  ⟨"CastableExpr", .typed, ["castable"]⟩,
  ⟨"CastExpr", .typed, ["cast"]⟩,
  ⟨"UnaryExpr", .prefix, ["-", "+"]⟩,
  ⟨"RelativePathExpr", .left, ["/", "//"]⟩,
  ⟨"FilterExpr", .postfix, ["["]⟩]

/-- what elementpath's 2.0 parser implements: the 2.0 levels plus the dynamic function call
`Primary ( Args? )` of XPath 3.0 (finding F04b: `$f(1)` is accepted by the 2.0 parser) -/
def levels20impl : List Level :=
  levels20.map fun L => if L.name == "FilterExpr" then { L with name := "FilterExpr + dynamic call (F04b)", ops := ["[", "("] } else L

/-- XPath 3.0 A.1: as 2.0 plus [19] StringConcatExpr `||`, [34] SimpleMapExpr `!`,
[48] PostfixExpr ::= PrimaryExpr (Predicate | ArgumentList)* -/
def levels30 : List Level := [
  ⟨"Expr", .left, [","]⟩,
  ⟨"OrExpr", .left, ["or"]⟩,
  ⟨"AndExpr", .left, ["and"]⟩,
  ⟨"ComparisonExpr", .none, ["=", "!=", "<", "<=", ">", ">=", "eq", "ne", "lt", "le", "gt", "ge", "is", "<<", ">>"]⟩,
  ⟨"StringConcatExpr", .left, ["||"]⟩,
  ⟨"RangeExpr", .none, ["to"]⟩,
  ⟨"AdditiveExpr", .left, ["+", "-"]⟩,
  ⟨"MultiplicativeExpr", .left, ["*", "div", "idiv", "mod"]⟩,
  ⟨"UnionExpr", .left, ["union", "|"]⟩,
  ⟨"IntersectExceptExpr", .left, ["intersect", "except"]⟩,
  ⟨"InstanceofExpr", .typed, ["instance"]⟩,
  ⟨"TreatExpr", .typed, ["treat"]⟩,
  ⟨"CastableExpr", .typed, ["castable"]⟩,
  ⟨"CastExpr", .typed, ["cast"]⟩,
  ⟨"UnaryExpr", .prefix, ["-", "+"]⟩,
  ⟨"SimpleMapExpr", .left, ["!"]⟩,
  ⟨"RelativePathExpr", .left, ["/", "//"]⟩,
  ⟨"PostfixExpr", .postfix, ["[", "("]⟩]

/-- XPath 3.1 A.1: [6] Expr, [16] OrExpr, [17] AndExpr, [18] ComparisonExpr, [19] StringConcatExpr,
[20] RangeExpr, [21] AdditiveExpr, [22] MultiplicativeExpr, [23] UnionExpr, [24] IntersectExceptExpr,
[25] InstanceofExpr, [26] TreatExpr, [27] CastableExpr, [28] CastExpr, [29]
ArrowExpr ::= UnaryExpr ( "=>" ArrowFunctionSpecifier ArgumentList )*: the symbol `=>` gets `Kind.arrow`), [30] UnaryExpr,
[35] SimpleMapExpr, [37] RelativePathExpr, [49] PostfixExpr ::= PrimaryExpr (Predicate | ArgumentList | Lookup)* -/
def levels31 : List Level := [
  ⟨"Expr", .left, [","]⟩,
  ⟨"OrExpr", .left, ["or"]⟩,
  ⟨"AndExpr", .left, ["and"]⟩,
  ⟨"ComparisonExpr", .none, ["=", "!=", "<", "<=", ">", ">=", "eq", "ne", "lt", "le", "gt", "ge", "is", "<<", ">>"]⟩,
  ⟨"StringConcatExpr", .left, ["||"]⟩,
  ⟨"RangeExpr", .none, ["to"]⟩,
  ⟨"AdditiveExpr", .left, ["+", "-"]⟩,
  ⟨"MultiplicativeExpr", .left, ["*", "div", "idiv", "mod"]⟩,
  ⟨"UnionExpr", .left, ["union", "|"]⟩,
  ⟨"IntersectExceptExpr", .left, ["intersect", "except"]⟩,
  ⟨"InstanceofExpr", .typed, ["instance"]⟩,
  ⟨"TreatExpr", .typed, ["treat"]⟩,
  ⟨"CastableExpr", .typed, ["castable"]⟩,
  ⟨"CastExpr", .typed, ["cast"]⟩,
  ⟨"ArrowExpr", .left, ["=>"]⟩,
  ⟨"UnaryExpr", .prefix, ["-", "+"]⟩,
  ⟨"SimpleMapExpr", .left, ["!"]⟩,
  ⟨"RelativePathExpr", .left, ["/", "//"]⟩,
  ⟨"PostfixExpr", .postfix, ["[", "(", "?"]⟩]

/-! ### the grammar as functions over operator indices -/

/-- The level table seen through the operator numbering of a symbol list. -/
structure Gram where
  /-- level and kind of symbol `o` in operator (infix / postfix) position -/
  led : Nat → Option (Nat × Kind)
  /-- level of symbol `p` in prefix position -/
  pre : Nat → Option Nat
  /-- closer and "may be empty" if the symbol opens a parenthesised primary expression -/
  grp : Nat → Option (Nat × Bool)
  /-- the symbol is the unary lookup operator `?` (3.1 [76] UnaryLookup ::= "?" KeySpecifier, a PrimaryExpr) -/
  ulk : Nat → Bool
  /-- kind of level `j` -/
  lkind : Nat → Option LKind
  /-- level of the primary expressions = number of operator levels -/
  top : Nat

/-- index of the first level of kind ≠ prefix (resp. = prefix) listing `s` -/
def findLevel (pfx : Bool) (s : String) : List Level → Nat → Option (Nat × LKind)
  | [], _ => none
  | l :: ls, i => if (l.kind == .prefix) == pfx && l.ops.contains s then some (i, l.kind) else findLevel pfx s ls (i + 1)

def kindOf (emptyParens : Bool) (s : String) : LKind → Option Kind
  | .left => if s == "=>" then some .arrow else some .left
  | .none => some .none
  | .typed => some .typed
  | .postfix => match bracketInfo emptyParens s with
      | some (c, e) => some (.bracket c e)
      | none => some .key
  | .prefix => none

/-- `gramOf levels emptyParens syms`: operator index `o` stands for symbol `syms[o]`.
`emptyParens`: `()` is an expression (2.0+).  The unary lookup exists exactly in the versions whose postfix level
has the lookup operator `?` (3.1). -/
def gramOf (levels : List Level) (emptyParens : Bool) (syms : List String) : Gram where
  led o := match syms[o]? with
    | some s => match findLevel false s levels 0 with
        | some (j, lk) => (kindOf emptyParens s lk).map fun k => (j, k)
        | none => none
    | none => none
  pre p := match syms[p]? with
    | some s => (findLevel true s levels 0).map (·.1)
    | none => none
  grp g := match syms[g]? with
    | some "(" => some (0, emptyParens)
    | _ => none
  ulk o := syms[o]? == some "?" && levels.any (fun L => L.kind == .postfix && L.ops.contains "?") &&
    (findLevel true "?" levels 0).isNone
  lkind j := (levels[j]?).map (·.kind)
  top := levels.length

/-- level of the top operator of a tree (primaries sit at `G.top`) -/
def lvl (G : Gram) : Tree → Nat
  | .nil => G.top
  | .atom _ _ => G.top
  | .group _ _ _ => G.top
  | .pre p _ => if G.ulk p then G.top else ((G.pre p).getD 0)
  | .bin o _ _ => ((G.led o).map (·.1)).getD 0
  | .typed o _ _ => ((G.led o).map (·.1)).getD 0
  | .post o _ _ _ => ((G.led o).map (·.1)).getD 0
  | .arrow o _ _ _ => ((G.led o).map (·.1)).getD 0

/--
Well-formedness of every node with respect to the level table.

`strict = true` is the EBNF: at a node of level `j`
* left-associative operator: left operand from level `j`, right operand from level `j+1`;
* optional-once (`none`) operator: both operands from level `j+1`;
* prefix operator: operand from level `j` (prefix operators nest); the unary lookup `?` is a primary whose
  operand is a KeySpecifier;
* typed operator (`instance of` …): operand from level `j+1`;
* postfix bracket / lookup: operand from level `j`, content a full expression (or empty where allowed),
  a lookup key is a name, an integer or a parenthesised expression.

`strict = false` relaxes exactly three spots (what any table-driven Pratt parser without extra guards accepts):
* L1: a prefix-operator expression is accepted as right operand of any operator (`a ! -b`) and as
  operand of any prefix operator;
* L2: an operand whose top operator is a typed operator is accepted as left operand of any operator
  (`a instance of T treat as T`, `1 cast as T cast as T`, `a cast as T[1]`);
* L3: an optional-once operator accepts a left operand of its own level (`a = b eq c`, `a << b << c`);
* L4: the function specifier and the argument list of `=>` are any expressions of a higher level than `=>`
  (`a => $f?k(1)`, `a => $f(1)(2)`).
-/
def wf (strict : Bool) (G : Gram) : Tree → Bool
  | .nil => false
  | .atom _ _ => true
  | .group g c e =>
      match G.grp g with
      | some (c', eo) => c == c' && ((e.isNil && eo) || wf strict G e)
      | none => false
  | .pre p x =>
      if G.ulk p then x.isKeySpec && wf strict G x
      else match G.pre p with
        | some j => (decide (j ≤ lvl G x) || (!strict && x.isPre)) && wf strict G x
        | none => false
  | .bin o l r =>
      match G.led o with
      | some (j, .left) =>
          (decide (j ≤ lvl G l) || (!strict && l.isTyped)) && (decide (j + 1 ≤ lvl G r) || (!strict && r.isPre))
            && wf strict G l && wf strict G r
      | some (j, .none) =>
          (decide ((if strict then j + 1 else j) ≤ lvl G l) || (!strict && l.isTyped))
            && (decide (j + 1 ≤ lvl G r) || (!strict && r.isPre)) && wf strict G l && wf strict G r
      | some (j, .key) =>
          (decide (j ≤ lvl G l) || (!strict && l.isTyped)) && r.isKeySpec && wf strict G l && wf strict G r
      | _ => false
  | .typed o l _ =>
      match G.led o with
      | some (j, .typed) => (decide (j + 1 ≤ lvl G l) || (!strict && l.isTyped)) && wf strict G l
      | _ => false
  | .post o c l e =>
      match G.led o with
      | some (j, .bracket c' eo) =>
          c == c' && (decide (j ≤ lvl G l) || (!strict && l.isTyped)) && wf strict G l
            && ((e.isNil && eo) || wf strict G e)
      | _ => false
  | .arrow o l f a =>
      match G.led o with
      | some (j, .arrow) =>
          (decide (j ≤ lvl G l) || (!strict && l.isTyped))
            && (f.isArrowSpec || (!strict && (decide (j + 1 ≤ lvl G f) || f.isPre)))
            && (a.isGroup || (!strict && (decide (j + 1 ≤ lvl G a) || a.isPre)))
            && wf strict G l && wf strict G f && wf strict G a
      | _ => false

/-- `t` is a derivation from the level-`k` nonterminal of the EBNF -/
def derivable (G : Gram) (k : Nat) (t : Tree) : Bool := decide (k ≤ lvl G t) && wf true G t

/-- the same in the relaxed grammar (L1–L3) -/
def derivableR (G : Gram) (k : Nat) (t : Tree) : Bool := decide (k ≤ lvl G t) && wf false G t

/-! ### executable reference parser (recursive descent over the level table) -/

mutual
/-- parse the level-`k` nonterminal -/
def ebnf (G : Gram) : Nat → Nat → List Tok → Option (Tree × List Tok)
  | 0, _, _ => none
  | f + 1, k, toks =>
    match G.lkind k with
    | none =>  -- primary expression
      match toks with
      | .atom a n :: rest => some (.atom a n, rest)
      | .op g :: rest =>
        if G.ulk g then
          match ebnf G f k rest with
          | some (x, rest') => if x.isKeySpec then some (.pre g x, rest') else none
          | none => none
        else
        match G.grp g with
        | some (c, eo) =>
          match rest with
          | .close c' :: rest' => if eo && c' == c then some (.group g c .nil, rest') else none
          | _ =>
            match ebnf G f 0 rest with
            | some (e, .close c' :: rest') => if c' == c then some (.group g c e, rest') else none
            | _ => none
        | none => none
      | _ => none
    | some .prefix =>
      match toks with
      | .op p :: rest =>
        if G.pre p == some k then
          match ebnf G f k rest with
          | some (x, rest') => some (.pre p x, rest')
          | none => none
        else ebnf G f (k + 1) toks
      | _ => ebnf G f (k + 1) toks
    | some lk =>
      match ebnf G f (k + 1) toks with
      | some (l, rest) => ebnfTail G f k lk l rest
      | none => none
/-- the `( op operand )*` / `( op operand )?` part of level `k` -/
def ebnfTail (G : Gram) : Nat → Nat → LKind → Tree → List Tok → Option (Tree × List Tok)
  | 0, _, _, _, _ => none
  | f + 1, k, lk, l, toks =>
    match toks with
    | .op o :: rest =>
      match G.led o with
      | some (j, kind) =>
        if j == k then
          match kind with
          | .left =>
            match ebnf G f (k + 1) rest with
            | some (r, rest') => ebnfTail G f k lk (.bin o l r) rest'
            | none => none
          | .none =>
            match ebnf G f (k + 1) rest with
            | some (r, rest') => some (.bin o l r, rest')
            | none => none
          | .typed =>
            match rest with
            | .ty n :: rest' => some (.typed o l n, rest')
            | _ => none
          | .bracket c eo =>
            match rest with
            | .close c' :: rest' =>
              if eo && c' == c then ebnfTail G f k lk (.post o c l .nil) rest' else none
            | _ =>
              match ebnf G f 0 rest with
              | some (e, .close c' :: rest') =>
                if c' == c then ebnfTail G f k lk (.post o c l e) rest' else none
              | _ => none
          | .key =>
            match ebnf G f G.top rest with
            | some (r, rest') => if r.isKeySpec then ebnfTail G f k lk (.bin o l r) rest' else none
            | none => none
          | .arrow =>
            match ebnf G f G.top rest with
            | some (s, rest1) =>
              if s.isArrowSpec then
                match ebnf G f G.top rest1 with
                | some (a, rest2) => if a.isGroup then ebnfTail G f k lk (.arrow o l s a) rest2 else none
                | none => none
              else none
            | none => none
        else some (l, toks)
      | none => some (l, toks)
    | _ => some (l, toks)
end

/-- parse a complete token list with the reference parser -/
def ebnfParse (G : Gram) (toks : List Tok) : Option Tree :=
  match ebnf G ((toks.length + 2) * (G.top + 3)) 0 toks with
  | some (t, []) => some t
  | _ => none

end EPV.Syn

namespace EPV.Syn

/-- no node of `t` uses one of the three relaxations L1–L3 of `wf false` -/
def laxFree (G : Gram) : Tree → Bool
  | .nil => true
  | .atom _ _ => true
  | .group _ _ e => laxFree G e
  | .pre p x =>
      (if G.ulk p then true else match G.pre p with | some j => decide (j ≤ lvl G x) | none => true) && laxFree G x
  | .bin o l r =>
      (match G.led o with
       | some (j, .left) => decide (j ≤ lvl G l) && decide (j + 1 ≤ lvl G r)
       | some (j, .none) => decide (j + 1 ≤ lvl G l) && decide (j + 1 ≤ lvl G r)
       | some (j, .key) => decide (j ≤ lvl G l)
       | _ => true) && laxFree G l && laxFree G r
  | .typed o l _ =>
      (match G.led o with | some (j, .typed) => decide (j + 1 ≤ lvl G l) | _ => true) && laxFree G l
  | .post o _ l e =>
      (match G.led o with | some (j, .bracket _ _) => decide (j ≤ lvl G l) | _ => true) && laxFree G l && laxFree G e
  | .arrow o l f a =>
      (match G.led o with | some (j, .arrow) => decide (j ≤ lvl G l) && f.isArrowSpec && a.isGroup | _ => true)
        && laxFree G l && laxFree G f && laxFree G a

end EPV.Syn

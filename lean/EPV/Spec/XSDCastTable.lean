/-
C10 — F&O 3.1 §19.1.1 "Casting from primitive types to primitive types": the table, transcribed row by row
(Y = always succeeds, M = depends on the value, N = never: XPTY0004), for the 19 primitive types plus xs:untypedAtomic,
xs:integer, xs:yearMonthDuration and xs:dayTimeDuration, which the table lists as columns of their own.  xs:NOTATION has
no constructor in the library and is left out (row and column).  §19.2/§19.3: a value of a derived type is cast as a value
of its primitive ancestor, and casting to a derived type is casting to its primitive ancestor followed by the facets — so a
pair of arbitrary atomic types is *allowed* exactly when the pair of their table ancestors is not N.
-/
namespace EPV.XSD

inductive Verdict | Y | M | N
deriving DecidableEq, Repr

open Verdict in
/-- columns and rows, in the order of the recommendation -/
def castTypes : List String :=
  ["untypedAtomic", "string", "float", "double", "decimal", "integer", "duration", "yearMonthDuration", "dayTimeDuration",
   "dateTime", "time", "date", "gYearMonth", "gYear", "gMonthDay", "gDay", "gMonth", "boolean", "base64Binary", "hexBinary",
   "anyURI", "QName"]

open Verdict in
/-- the rows of the table (source type), one verdict per target type in the order of `castTypes` -/
def castRows : List (List Verdict) := [
  --        uA str flt dbl dec int dur yMD dTD dT tim dat gYM gYr gMD gDay gMon bool b64 hxB aURI QN
  /- uA  -/ [Y, Y,  M,  M,  M,  M,  M,  M,  M,  M, M,  M,  M,  M,  M,  M,   M,   M,   M,  M,  M,   M],
  /- str -/ [Y, Y,  M,  M,  M,  M,  M,  M,  M,  M, M,  M,  M,  M,  M,  M,   M,   M,   M,  M,  M,   M],
  /- flt -/ [Y, Y,  Y,  Y,  M,  M,  N,  N,  N,  N, N,  N,  N,  N,  N,  N,   N,   Y,   N,  N,  N,   N],
  /- dbl -/ [Y, Y,  Y,  Y,  M,  M,  N,  N,  N,  N, N,  N,  N,  N,  N,  N,   N,   Y,   N,  N,  N,   N],
  /- dec -/ [Y, Y,  Y,  Y,  Y,  Y,  N,  N,  N,  N, N,  N,  N,  N,  N,  N,   N,   Y,   N,  N,  N,   N],
  /- int -/ [Y, Y,  Y,  Y,  Y,  Y,  N,  N,  N,  N, N,  N,  N,  N,  N,  N,   N,   Y,   N,  N,  N,   N],
  /- dur -/ [Y, Y,  N,  N,  N,  N,  Y,  Y,  Y,  N, N,  N,  N,  N,  N,  N,   N,   N,   N,  N,  N,   N],
  /- yMD -/ [Y, Y,  N,  N,  N,  N,  Y,  Y,  Y,  N, N,  N,  N,  N,  N,  N,   N,   N,   N,  N,  N,   N],
  /- dTD -/ [Y, Y,  N,  N,  N,  N,  Y,  Y,  Y,  N, N,  N,  N,  N,  N,  N,   N,   N,   N,  N,  N,   N],
  /- dT  -/ [Y, Y,  N,  N,  N,  N,  N,  N,  N,  Y, Y,  Y,  Y,  Y,  Y,  Y,   Y,   N,   N,  N,  N,   N],
  /- tim -/ [Y, Y,  N,  N,  N,  N,  N,  N,  N,  N, Y,  N,  N,  N,  N,  N,   N,   N,   N,  N,  N,   N],
  /- dat -/ [Y, Y,  N,  N,  N,  N,  N,  N,  N,  Y, N,  Y,  Y,  Y,  Y,  Y,   Y,   N,   N,  N,  N,   N],
  /- gYM -/ [Y, Y,  N,  N,  N,  N,  N,  N,  N,  N, N,  N,  Y,  N,  N,  N,   N,   N,   N,  N,  N,   N],
  /- gYr -/ [Y, Y,  N,  N,  N,  N,  N,  N,  N,  N, N,  N,  N,  Y,  N,  N,   N,   N,   N,  N,  N,   N],
  /- gMD -/ [Y, Y,  N,  N,  N,  N,  N,  N,  N,  N, N,  N,  N,  N,  Y,  N,   N,   N,   N,  N,  N,   N],
  /- gDay-/ [Y, Y,  N,  N,  N,  N,  N,  N,  N,  N, N,  N,  N,  N,  N,  Y,   N,   N,   N,  N,  N,   N],
  /- gMon-/ [Y, Y,  N,  N,  N,  N,  N,  N,  N,  N, N,  N,  N,  N,  N,  N,   Y,   N,   N,  N,  N,   N],
  /- bool-/ [Y, Y,  Y,  Y,  Y,  Y,  N,  N,  N,  N, N,  N,  N,  N,  N,  N,   N,   Y,   N,  N,  N,   N],
  /- b64 -/ [Y, Y,  N,  N,  N,  N,  N,  N,  N,  N, N,  N,  N,  N,  N,  N,   N,   N,   Y,  Y,  N,   N],
  /- hxB -/ [Y, Y,  N,  N,  N,  N,  N,  N,  N,  N, N,  N,  N,  N,  N,  N,   N,   N,   Y,  Y,  N,   N],
  /- aURI-/ [Y, Y,  N,  N,  N,  N,  N,  N,  N,  N, N,  N,  N,  N,  N,  N,   N,   N,   N,  N,  Y,   N],
  /- QN  -/ [Y, Y,  N,  N,  N,  N,  N,  N,  N,  N, N,  N,  N,  N,  N,  N,   N,   N,   N,  N,  N,   Y]]

def Verdict.code : Verdict → String
  | .Y => "Y" | .M => "M" | .N => "N"

/-- the verdict of the table for a pair of table types -/
def castVerdict (s t : String) : Option Verdict :=
  match castTypes.idxOf? s, castTypes.idxOf? t with
  | some i, some j => (castRows.getD i [])[j]?
  | _, _ => none

/-- the table, flattened: (source, target, verdict) in row-major order -/
def castTableFlat : List (String × String × String) :=
  castTypes.flatMap fun s => castTypes.map fun t => (s, t, ((castVerdict s t).map Verdict.code).getD "?")

/-- the derived built-in atomic types with the table type they descend from (XSD 1.1 Part 2 §3.4; xs:dateTimeStamp §3.4.28) -/
def derivedTypes : List (String × String) := [
  ("byte", "integer"), ("short", "integer"), ("int", "integer"), ("long", "integer"), ("unsignedByte", "integer"),
  ("unsignedShort", "integer"), ("unsignedInt", "integer"), ("unsignedLong", "integer"), ("nonNegativeInteger", "integer"),
  ("positiveInteger", "integer"), ("nonPositiveInteger", "integer"), ("negativeInteger", "integer"),
  ("normalizedString", "string"), ("token", "string"), ("language", "string"), ("NMTOKEN", "string"), ("Name", "string"),
  ("NCName", "string"), ("ID", "string"), ("IDREF", "string"), ("ENTITY", "string"), ("dateTimeStamp", "dateTime")]

def tableTypeOf (t : String) : String := ((derivedTypes.find? (·.1 == t)).map (·.2)).getD t

/-- every constructible built-in atomic type -/
def allAtomicTypes : List String := castTypes ++ derivedTypes.map (·.1)

/-- §19.2, §19.3: the cast is permitted (it may still fail on the value) -/
def castAllowed (s t : String) : Bool := castVerdict (tableTypeOf s) (tableTypeOf t) != some .N

def castAllowedFlat : List (String × String × Bool) :=
  allAtomicTypes.flatMap fun s => allAtomicTypes.map fun t => (s, t, castAllowed s t)

end EPV.XSD

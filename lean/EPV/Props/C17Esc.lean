/-
C17, phase 5 (second item) — option `escape: true()` on WHOLE values.

`jsonToXmlEsc` / `xmlToJsonE` (`Model/JsonXmlEsc.lean`): fn:json-to-xml with `map{'escape': true()}` (string values written
by `escape_string` with `escaped="true"`, keys with `escaped-key="true"`, iff the written text contains a backslash; any
nesting of maps and arrays) and fn:xml-to-json reading those flags (`check_escapes`, `escape_json_string(·, escaped)`,
duplicate test through `unescape_json_string`).

* `JValue.escDom`   strings and keys of Unicode scalar values (NOT only XML characters: U+0000, U+0001, U+FFFE … are
                    allowed — that is what the option is for), distinct keys in every object, doubles in normal form
* `SameValue`, `numsFixed`, `rnd`   as in `json_xml_roundtrip` (`Props/C17.lean`)
-/
import EPV.Lemmas.JsonXmlEsc
namespace EPV.C17
open EPV.Json

/-- FULL STRENGTH: `xml-to-json(json-to-xml(text(v), map{'escape': true()}))` DENOTES `v`: for every JSON value with strings
and keys of Unicode scalar values (non-XML characters included), distinct keys and normal-form doubles (`escDom`; any
nesting, ANY integers and doubles) and every `float()` that leaves the numbers of `v` alone (`numsFixed`), the composition
succeeds — no FOJS0007 from `check_escapes`, no FOJS0006 from the duplicate test on the unescaped keys —, the RFC 8259
reader reads the result to some `w`, and `SameValue v w` (same structure, the SAME strings and keys — no U+FFFD —,
numbers equal as rationals). -/
theorem json_xml_escape_roundtrip (rnd : Dec → Dec) (v : JValue) (h : v.escDom = true) (hr : v.numsFixed rnd) :
    ∃ t w, (jsonToXmlEsc v).bind (xmlToJsonE rnd) = .ok t ∧ parseJson t = some w ∧ SameValue v w := by
  refine ⟨renderG gFull (x2jI id) (x2jD id) v, mapNum (fun n => x2jVal (denInt n)) x2jVal v, ?_, ?_,
    same_mapNumE v h⟩
  · rw [x2jE_render rnd v h, renderG_fixedE rnd v hr]
  · exact parseJson_renderG gFull (x2jI id) (x2jD id) (fun n => x2jVal (denInt n)) x2jVal isScalar
      escOK_gFull wfDec (fun n => numOK_reprStripped (denInt n) (wfDec_denInt n))
      (fun d hd => numOK_reprStripped d hd) v (escDom_valid v h)

/-- the hypotheses hold on a non-trivial value (test on literals): key `k\/LF U+0001` with a nested map whose key is a
backslash, strings `/`, `\/`, `b\"`, `\uZZZZ`, `U+FFFE U+0000`, numbers; `float()` = identity on them -/
example :
    let v : JValue := .obj [([107, 92, 47, 10, 1], .obj [([92], .arr [.str [47], .str [92, 47], .str [98, 92, 34],
      .str [92, 117, 90, 90, 90, 90], .str [0xFFFE, 0], .dbl ⟨false, [1], 22⟩, .int (-12)])]), ([112], .str [120])]
    v.escDom = true ∧ v.numsFixed id ∧
    (∃ t, (jsonToXmlEsc v).bind (xmlToJsonE id) = .ok t ∧ parseJson t = some (mapNum (fun n => x2jVal (denInt n)) x2jVal v)) :=
  ⟨by decide, ⟨⟨⟨trivial, trivial, trivial, trivial, trivial, rfl, rfl, trivial⟩, trivial⟩, trivial, trivial⟩, ⟨_, by rfl, by rfl⟩⟩

/-- the flags (tests on literals): `escaped-key` / `escaped` are set exactly on the texts that contain a backslash -/
example : jsonToXmlEsc (.obj [([97, 10], .str [120]), ([98], .str [47]), ([99], .null)]) =
    .ok (.mk .map none false false none [
      .mk .string (some [97, 92, 110]) true false (some [120]) [],
      .mk .string (some [98]) false true (some [92, 47]) [],
      .mk .null (some [99]) false false none []]) := by rfl

/-- why the option matters (tests on literals): U+0001 is not an XML character; the default route replaces it by
U+FFFD (the value changes), the `escape` route keeps it -/
example : (jsonToXml (.str [1])).bind (xmlToJson id) = .ok [34, 0xFFFD, 34] ∧
    (jsonToXmlEsc (.str [1])).bind (xmlToJsonE id) = .ok [34, 92, 117, 48, 48, 48, 49, 34] ∧
    parseJson [34, 92, 117, 48, 48, 48, 49, 34] = some (.str [1]) := ⟨by rfl, by rfl, by rfl⟩

/-- distinct keys are needed (test on literals): with a duplicate key xml-to-json rejects (FOJS0006), as F&O prescribes -/
example : (jsonToXmlEsc (.obj [([97, 10], .int 1), ([97, 10], .int 2)])).bind (xmlToJsonE id) = .error .FOJS0006 := by rfl

/-- THE TWO ROUTES AGREE: for every value of the default route's domain (`x2jDom`: XML strings) the escaped and the
unescaped route both succeed and their results are read by the RFC 8259 reader to the SAME value `w`, which is `v`
(`SameValue v w`) — the texts may differ in spelling only. -/
theorem json_xml_escape_routes_agree (rnd : Dec → Dec) (v : JValue) (h : v.x2jDom = true) (hr : v.numsFixed rnd) :
    ∃ t₁ t₂ w, (jsonToXml v).bind (xmlToJson rnd) = .ok t₁ ∧ (jsonToXmlEsc v).bind (xmlToJsonE rnd) = .ok t₂ ∧
      parseJson t₁ = some w ∧ parseJson t₂ = some w ∧ SameValue v w := by
  have he := escDom_of_x2jDom v h
  refine ⟨renderG escChar (x2jI id) (x2jD id) v, renderG gFull (x2jI id) (x2jD id) v,
    mapNum (fun n => x2jVal (denInt n)) x2jVal v, ?_, ?_, ?_, ?_, same_mapNum v h⟩
  · rw [x2j_render rnd v h, renderG_fixed rnd v hr]
  · rw [x2jE_render rnd v he, renderG_fixedE rnd v hr]
  · exact parseJson_renderG escChar (x2jI id) (x2jD id) (fun n => x2jVal (denInt n)) x2jVal isXmlCodepoint
      escOK_escChar_xml wfDec (fun n => numOK_reprStripped (denInt n) (wfDec_denInt n))
      (fun d hd => numOK_reprStripped d hd) v (x2jDom_valid v h)
  · exact parseJson_renderG gFull (x2jI id) (x2jD id) (fun n => x2jVal (denInt n)) x2jVal isScalar
      escOK_gFull wfDec (fun n => numOK_reprStripped (denInt n) (wfDec_denInt n))
      (fun d hd => numOK_reprStripped d hd) v (escDom_valid v he)

/-- test on a literal (backslash + solidus, the input of the repaired defect F17g): both routes write `"\\\/"` -/
example : (jsonToXml (.str [92, 47])).bind (xmlToJson id) = (jsonToXmlEsc (.str [92, 47])).bind (xmlToJsonE id) := by rfl

end EPV.C17

/-
C18 — theorems over the tables GENERATED from the live elementpath on every run
(EPV/Gen/C18Tables.lean).  All by `decide +kernel`: the kernel evaluates the Boolean check over the
complete table.
-/
import EPV.Gen.C18Tables
import EPV.Lemmas.SeqTypeTables
namespace EPV.C18
open EPV.SeqType EPV.Gen.C18

/-- shape of the generated tables: one row and one XSD name per atomic type / value class -/
theorem tables_shape :
    tables.subRows.length = atomNames.length ∧ atomXsd.length = atomNames.length ∧
    tables.instRows.length = clsNames.length ∧ clsXsd.length = clsNames.length ∧
    tables.listRows.length = listNames.length := by decide +kernel

/-- FULL statement (false on the live tables): `issubclass` on the builtin atomic types is reflexive,
`∀ a < 47, atomSub a a`.  It fails for the four proxy classes (xs:boolean, xs:decimal, xs:double,
xs:string): their `__subclasshook__` answers `issubclass(subclass, bool)` etc., which is `False` for the
proxy class itself.  Proved: reflexive on every row whose type is not one of the four; harmless for the
restriction relation, which compares equal names by text first (`restriction_refl` needs no hypothesis). -/
theorem atomic_sub_refl_partial :
    (List.range atomNames.length).all (fun a =>
      match atomXsd[a]? with
      | some x => x == .boolean || x == .decimal || x == .double || x == .string || tables.atomSub a a
      | none => false) = true := by decide +kernel

/-- kernel-checked counter-example to the full statement: `issubclass(BooleanProxy, BooleanProxy)` is false -/
theorem atomic_sub_refl_counterexample :
    (List.range atomNames.length).any (fun a => atomXsd[a]? == some .boolean && !tables.atomSub a a) = true := by
  decide +kernel

/-- `issubclass` on the builtin atomic types and on the builtin list types is transitive -/
theorem atomic_sub_trans : tables.Trans :=
  Tables.trans_of_checks tables (by decide +kernel) (by decide +kernel)

/-- the `issubclass` matrix of the builtin atomic types IS the derivation relation of XSD 1.1 part 2 §3
written by hand in `XsdT.parent` (off the diagonal, see `atomic_sub_refl_partial`); the only exception is the row of `xs:error` (a union without members,
not derived from xs:anyAtomicType in XSD; the implementation registers it below AnyAtomicType, which is
harmless for matching because its value space is empty) -/
theorem atomic_sub_eq_xsd :
    (List.range atomNames.length).all (fun a => (List.range atomNames.length).all (fun b =>
      match atomXsd[a]?, atomXsd[b]? with
      | some x, some y => x == .error || a == b || tables.atomSub a b == derives x y
      | _, _ => false)) = true := by decide +kernel

/-- the row of xs:error: itself and xs:anyAtomicType -/
theorem error_row :
    (List.range atomNames.length).all (fun a => (List.range atomNames.length).all (fun b =>
      match atomXsd[a]?, atomXsd[b]? with
      | some .error, some y => tables.atomSub a b == (y == .error || y == .anyAtomicType)
      | _, _ => true)) = true := by decide +kernel

/-- `isinstance(v, builtin_atomic_types[t])` for a value of class `c` IS derives-from(dynamic type of the
class, t) — for every value class and every atomic type except xs:error (no instances) -/
theorem inst_eq_xsd :
    (List.range clsNames.length).all (fun c => (List.range atomNames.length).all (fun t =>
      match clsXsd[c]?, atomXsd[t]? with
      | some d, some ty => tables.inst c t == (derives d ty && ty != .error)
      | _, _ => false)) = true := by decide +kernel

/-- `isinstance(v, NumericProxy)` IS "the dynamic type derives from xs:double, xs:float or xs:decimal" -/
theorem numeric_eq_xsd :
    (List.range clsNames.length).all (fun c =>
      match clsXsd[c]? with
      | some d => tables.isNumeric c == isNumericT d
      | none => false) = true := by decide +kernel

/-- the positions the model and the specification refer to by number hold the right types -/
theorem named_positions :
    atomXsd[tables.anyURI]? = some .anyURI ∧ clsXsd[tables.intCls]? = some .integer ∧
    atomXsd[(specTables true).anyAtomicIdx]? = some .anyAtomicType ∧
    atomXsd[(specTables true).integerIdx]? = some .integer ∧
    tables.xsd11Only.all (fun t => atomXsd[t]? == some .dateTimeStamp || atomXsd[t]? == some .error) = true := by
  decide +kernel

/-- the fuel of `derives` suffices: no chain of base types is longer than 8 -/
theorem derives_fuel : atomXsd.all (fun x => chainLen 20 x ≤ 8) = true := by decide +kernel

/-- every registered signature of the 3.1 parser that lies in the AST is a typed function test and a
restriction of itself (sanity of the generated list, not a deep fact) -/
theorem signatures_are_function_tests :
    signatures.all (fun s => match s.2 with
      | .func _ _ => isRestriction tables s.2 s.2
      | _ => false) = true := by decide +kernel

/-- non-vacuity: the tables are not empty -/
example : atomNames.length = 47 ∧ 40 < clsNames.length ∧ 100 < signatures.length := by decide +kernel

end EPV.C18

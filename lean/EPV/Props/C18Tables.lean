/-
C18 — theorems over the tables GENERATED from the live elementpath on every run
(EPV/Gen/C18Tables.lean).  All by `decide +kernel`: the kernel evaluates the Boolean check over the
complete table.
-/
import EPV.Gen.C18Tables
import EPV.Lemmas.SeqTypeTables
import EPV.Props.C18
namespace EPV.C18
open EPV.SeqType EPV.Gen.C18

/-- shape of the generated tables: one row and one XSD name per atomic type / value class -/
theorem tables_shape :
    tables.subRows.length = atomNames.length ∧ atomXsd.length = atomNames.length ∧
    tables.instRows.length = clsNames.length ∧ clsXsd.length = clsNames.length ∧
    tables.listRows.length = listNames.length := by decide +kernel

/-- FULL statement (false on the live tables): `issubclass` on the builtin atomic types is reflexive,
`∀ a < 47, atomSub a a`.  It fails for the four proxy classes (xs:boolean, xs:decimal, xs:double,
xs:string): their `__subclasshook__` answers `issubclass(subclass, bool)` etc., which is `False` for the
proxy class itself.  Proved: reflexive on every row whose type is not one of the four; harmless for the
restriction relation, which compares equal names by text first (`restriction_refl` needs no hypothesis). -/
theorem atomic_sub_refl_partial :
    (List.range atomNames.length).all (fun a =>
      match atomXsd[a]? with
      | some x => x == .boolean || x == .decimal || x == .double || x == .string || tables.atomSub a a
      | none => false) = true := by decide +kernel

/-- kernel-checked counter-example to the full statement: `issubclass(BooleanProxy, BooleanProxy)` is false -/
theorem atomic_sub_refl_counterexample :
    (List.range atomNames.length).any (fun a => atomXsd[a]? == some .boolean && !tables.atomSub a a) = true := by
  decide +kernel

/-- `issubclass` on the builtin atomic types and on the builtin list types is transitive -/
theorem atomic_sub_trans : tables.Trans :=
  Tables.trans_of_checks tables (by decide +kernel) (by decide +kernel)

/-- the `issubclass` matrix of the builtin atomic types IS the derivation relation of XSD 1.1 part 2 §3
written by hand in `XsdT.parent` (off the diagonal, see `atomic_sub_refl_partial`); the only exception is the row of `xs:error` (a union without members,
not derived from xs:anyAtomicType in XSD; the implementation registers it below AnyAtomicType, which is
harmless for matching because its value space is empty) -/
theorem atomic_sub_eq_xsd :
    (List.range atomNames.length).all (fun a => (List.range atomNames.length).all (fun b =>
      match atomXsd[a]?, atomXsd[b]? with
      | some x, some y => x == .error || a == b || tables.atomSub a b == derives x y
      | _, _ => false)) = true := by decide +kernel

/-- the row of xs:error: itself and xs:anyAtomicType -/
theorem error_row :
    (List.range atomNames.length).all (fun a => (List.range atomNames.length).all (fun b =>
      match atomXsd[a]?, atomXsd[b]? with
      | some .error, some y => tables.atomSub a b == (y == .error || y == .anyAtomicType)
      | _, _ => true)) = true := by decide +kernel

/-- `isinstance(v, builtin_atomic_types[t])` for a value of class `c` IS derives-from(dynamic type of the
class, t) — for every value class and every atomic type except xs:error (no instances) -/
theorem inst_eq_xsd :
    (List.range clsNames.length).all (fun c => (List.range atomNames.length).all (fun t =>
      match clsXsd[c]?, atomXsd[t]? with
      | some d, some ty => tables.inst c t == (derives d ty && ty != .error)
      | _, _ => false)) = true := by decide +kernel

/-- `isinstance(v, NumericProxy)` IS "the dynamic type derives from xs:double, xs:float or xs:decimal" -/
theorem numeric_eq_xsd :
    (List.range clsNames.length).all (fun c =>
      match clsXsd[c]? with
      | some d => tables.isNumeric c == isNumericT d
      | none => false) = true := by decide +kernel

/-- the positions the model and the specification refer to by number hold the right types -/
theorem named_positions :
    atomXsd[tables.anyURI]? = some .anyURI ∧ clsXsd[tables.intCls]? = some .integer ∧
    atomXsd[(specTables true).anyAtomicIdx]? = some .anyAtomicType ∧
    atomXsd[(specTables true).integerIdx]? = some .integer ∧
    tables.xsd11Only.all (fun t => atomXsd[t]? == some .dateTimeStamp || atomXsd[t]? == some .error) = true := by
  decide +kernel

/-- the fuel of `derives` suffices: no chain of base types is longer than 8 -/
theorem derives_fuel : atomXsd.all (fun x => chainLen 20 x ≤ 8) = true := by decide +kernel

/-- EVERY registered signature of the 3.1 parser parses into the AST (none is left outside), is a typed
function test (so it has a declared return type, never the `none` / untyped alias), uses atomic type names
only, and is a restriction of itself -/
theorem signatures_all_in_ast :
    signaturesOutsideAst = 0 ∧ signatures.length = signaturesRegistered ∧
    signatures.all (fun s => match s.2 with
      | .func _ _ => s.2.atomicNamesOnly && isRestriction tables s.2 s.2
      | _ => false) = true := by decide +kernel

/-- every registered signature is `flat` or is a higher-order signature whose only non-simple arguments are typed
function tests with simple arguments (fn:for-each, fn:filter, fn:fold-left, array:sort …).  With the split by nesting
depth (`string_split_eq_ast`) the string-driven code reads both kinds as the grammar does. -/
theorem signatures_flat_or_hof :
    signatures.all (fun s => s.2.flat || s.2.hof1) = true ∧
    10 ≤ (signatures.filter (fun s => !s.2.flat)).length := by decide +kernel

/-- `isinstance(v, A)` and `issubclass(A, B)` imply `isinstance(v, B)` for every value class and both XSD
versions of the parser (the XSD 1.1-only types have no instances under an XSD 1.0 parser) -/
theorem inst_up : tables.InstUp := Tables.instUp_of_check tables (by decide +kernel)

/-- rows mention only positions inside the tables -/
theorem rows_bounded :
    tables.instRows.all (fun r => r.all (· < atomNames.length)) = true ∧
    tables.numericCls.all (· < clsNames.length) = true := by decide +kernel

/-- in-range agreement of the live tables with the specification (both XSD versions) -/
theorem spec_agree_check :
    [true, false].all (fun x =>
      (List.range clsNames.length).all (fun c =>
        (List.range atomNames.length).all (fun t => instAtomic tables x c t == specAtomic (specTables x) c t)
        && tables.isNumeric c == specNumeric (specTables x) c)) = true := by decide +kernel

/-- the isinstance table of the live code agrees with derives-from on the hand-written XSD hierarchy, for
all positions (out-of-range positions name nothing on either side) -/
theorem spec_agree (xsd11 : Bool) : SpecAgree tables (specTables xsd11) xsd11 := by
  have hx : xsd11 ∈ [true, false] := by cases xsd11 <;> simp
  have hchk := spec_agree_check
  simp only [List.all_eq_true, List.mem_range, Bool.and_eq_true, beq_iff_eq] at hchk
  have hb := rows_bounded
  simp only [List.all_eq_true, decide_eq_true_eq] at hb
  constructor
  · intro c t
    by_cases hc : c < clsNames.length
    · by_cases ht : t < atomNames.length
      · exact (hchk xsd11 hx c hc).1 t ht
      · -- no row contains a position outside the atomic table; the spec knows no such type
        have h1 : tables.inst c t = false := by
          simp only [Tables.inst]
          cases hcon : (tables.instRows.getD c []).contains t
          · rfl
          · exfalso
            have hm : tables.instRows.getD c [] ∈ tables.instRows := by
              rw [List.getD_eq_getElem?_getD, List.getElem?_eq_getElem (by rw [tables_shape.2.2.1]; exact hc)]
              exact List.getElem_mem _
            exact ht (hb.1 _ hm t (by simpa using hcon))
        have h2 : (specTables xsd11).atomTy t = none := by
          simp only [specTables]
          split
          · rfl
          · exact List.getElem?_eq_none (by rw [tables_shape.2.1]; omega)
        rw [specAtomic_none_right _ _ _ h2]
        simp only [instAtomic, h1]
        split <;> rfl
    · have h1 : tables.inst c t = false := by
        simp only [Tables.inst]
        rw [List.getD_eq_getElem?_getD, List.getElem?_eq_none (by rw [tables_shape.2.2.1]; omega)]
        rfl
      have h2 : (specTables xsd11).clsTy c = none := by
        simp only [specTables]
        exact List.getElem?_eq_none (by rw [tables_shape.2.2.2.1]; omega)
      rw [specAtomic_none_left _ _ _ h2]
      simp only [instAtomic, h1]
      split <;> rfl
  · intro c
    by_cases hc : c < clsNames.length
    · exact (hchk xsd11 hx c hc).2
    · have h1 : tables.isNumeric c = false := by
        simp only [Tables.isNumeric]
        cases hcon : tables.numericCls.contains c
        · rfl
        · exact absurd (hb.2 c (by simpa using hcon)) hc
      have h2 : (specTables xsd11).clsTy c = none := by
        simp only [specTables]
        exact List.getElem?_eq_none (by rw [tables_shape.2.2.2.1]; omega)
      simp [h1, specNumeric, h2]
  · rfl
  · rfl

/-! ### the property theorems instantiated with the live tables -/

/-- `match_sequence_type` of the live code (as modelled) is XPath 3.1 SequenceType matching on `domT` -/
theorem match_eq_spec_live (xsd11 : Bool) (t : Ty) (v : List Item) (hd : domT t v = true) :
    matchSt tables xsd11 true t v = .ok (specMatch (specTables xsd11) (isRestriction tables) t v) :=
  match_eq_spec tables (specTables xsd11) xsd11 (spec_agree xsd11) t v hd


/-- transitivity of `is_sequence_type_restriction` as modelled, for the live `issubclass` matrix -/
theorem restriction_trans_live (t1 t2 t3 : Ty)
    (h1 : isRestriction tables t1 t2 = true) (h2 : isRestriction tables t2 t3 = true) :
    isRestriction tables t1 t3 = true := restriction_trans tables atomic_sub_trans t1 t2 t3 h1 h2

/-- soundness for matching, for the live tables (see `restriction_sound`) -/
theorem restriction_sound_live (xsd11 : Bool) (T S : Ty) (v : List Item)
    (hm : matchSt tables xsd11 true S v = .ok true) (hR : isRestriction tables T S = true) :
    matchSt tables xsd11 true T v = .ok true :=
  restriction_sound tables atomic_sub_trans inst_up xsd11 T S v hm hR

def ixOf (x : XsdT) : Nat := atomXsd.idxOf x
def clsOf (x : XsdT) : Nat := clsXsd.idxOf x
def tyAtom (x : XsdT) (o : Occ) : Ty := .leaf (.atomic (ixOf x)) o

def cexS : Ty := .func (.cons (tyAtom .integer .one) .nil) (.leaf .item .star)
def cexT : Ty := .func (.cons (tyAtom .int .one) .nil) (.leaf .item .star)
def cexV : List Item := [.array [[.atom tables.intCls]]]
def cexAttr : Ty := .leaf (.kind .attribute .none) .one
def cexElem : List Item := [.node .element 1 [2] false]

/-- the former counter-example to soundness (finding F18i, repaired): the array `[1]` matches
`function(xs:integer) as item()*`, that type is a restriction of `function(xs:int) as item()*`, and now the array
matches the latter as well; a map with a non-integer value is no `function(xs:integer) as xs:integer?` -/
theorem f18i_regression :
    matchSt tables false true cexS cexV = .ok true ∧ isRestriction tables cexT cexS = true ∧
      matchSt tables false true cexT cexV = .ok true ∧
      matchSt tables false true (.func (.cons (tyAtom .integer .one) .nil) (tyAtom .integer .opt))
        [.map [(tables.intCls, [.atom tables.intCls]), (clsOf .string, [.atom (clsOf .string)])]] = .ok false := by
  decide +kernel

/-- the former counter-example to `instance_of_eq_match` (finding F18d, repaired): an element with an attribute is
no `instance of attribute()` -/
theorem f18d_regression :
    instanceOf tables false cexAttr cexElem = .ok false ∧ matchSt tables false true cexAttr cexElem = .ok false ∧
      instanceOf tables false (.leaf (.kind .namespace .none) .one) cexElem = .ok false ∧
      instanceOf tables false (.leaf .anyNode .one) [.node .document 0 [1] false] = .ok true := by decide +kernel

/-- kernel-checked counter-example to the full `instance_of_eq_match` inside the remaining excluded region
(finding F18k): `element(*, xs:untyped)` — the matcher accepts the untyped element, the kind-test token of
`instance of` does not (it excludes the `*` case), XPath accepts it -/
theorem instance_of_type_argument_counterexample :
    let t : Ty := .leaf (.kindT .element .wild .untyped false) .one
    matchSt tables false true t cexElem = .ok true ∧ instanceOf tables false t cexElem = .ok false ∧
      specMatch (specTables false) (isRestriction tables) t cexElem = true ∧ t.hasTypeArg = true := by
  decide +kernel

/-- the repaired defects F18a / F18a2 stay repaired in the model: a type without indicator does not accept
an optional or empty candidate, a typed function test with optional return type does not accept
`empty-sequence()`; the legitimate cases still hold -/
theorem f18a_regression :
    isRestriction tables (.leaf .item .one) (tyAtom .integer .opt) = false ∧
    isRestriction tables (tyAtom .int .one) (tyAtom .int .opt) = false ∧
    isRestriction tables (.leaf .item .one) .empty = false ∧
    isRestriction tables (.leaf .item .plus) .empty = false ∧
    isRestriction tables (.func (.cons (tyAtom .int .one) .nil) (.leaf .anyNode .opt)) .empty = false ∧
    isRestriction tables (.leaf .item .opt) .empty = true ∧
    isRestriction tables (tyAtom .decimal .star) (tyAtom .integer .one) = true ∧
    isRestriction tables (.func (.cons (tyAtom .int .one) .nil) (tyAtom .decimal .opt))
                         (.func (.cons (tyAtom .integer .one) .nil) (tyAtom .integer .one)) = true := by
  decide +kernel

/-- finding F18v, the kernel-checked half of the witness: the six signatures `fn:format-date#3/#4`,
`fn:format-dateTime#3/#4`, `fn:format-time#3/#4` ARE in the registry of the 3.1 parser (registered by `nargs=(2, 5)`;
XPath has these functions with 2 and 5 parameters only, and every call with 3 or 4 arguments raises XPST0017 — the
harness half) -/
theorem f18v_phantom_signatures_registered :
    ["fn:format-date#3", "fn:format-date#4", "fn:format-dateTime#3", "fn:format-dateTime#4",
     "fn:format-time#3", "fn:format-time#4"].all (fun k => signatures.any (fun s => s.1 == k)) = true ∧
    ["fn:format-date#2", "fn:format-date#5"].all (fun k => signatures.any (fun s => s.1 == k)) = true := by
  decide +kernel

/-- finding F18w, kernel-checked expected answers of the witnesses (`g` = `function($i as xs:int) as xs:int {$i}`):
`1 instance of (xs:integer)` is true (the parentheses do not change the type); `($g, $g) instance of
(function(xs:int) as xs:int)*` is true, `() instance of (…)*` is true — so a parameter declared `(function(xs:int) as
xs:int)*` accepts the empty sequence — `($g, $g) instance of (…)?` is false; whereas the text `function(xs:int) as
xs:int*` that the declaration was read as (before the `fix:` d94e193) rejects the empty sequence. -/
theorem f18w_witness :
    let a : Tys := .cons (tyAtom .int .one) .nil
    let r : Ty := tyAtom .int .one
    let g : Item := .func a r
    instanceOf tables false (tyAtom .integer .one) [.atom tables.intCls] = .ok true ∧
    instanceOfOwnOcc tables false .star a r [g, g] = .ok true ∧
    instanceOfOwnOcc tables false .star a r [] = .ok true ∧
    instanceOfOwnOcc tables false .opt a r [g, g] = .ok false ∧
    instanceOfOwnOcc tables false .plus a r [g, .atom tables.intCls] = .ok false ∧
    matchSt tables false true (.func a (tyAtom .int .star)) [] = .ok false := by
  decide +kernel

/-- regression of the repair ec57e76 (maps against `function(K) as R`): the empty sequence of a missing key must match
`R`; a typed function test `R = function(xs:int) as xs:int?` never admits `()` — the `?` at the end of its text is the
inner return type's — so no map is an instance, not `map{}` and not a map whose every value is a function item of exactly
that signature; the same values as members of an array are (an array has no missing member); with `R?` both are. -/
theorem map_missing_key_regression :
    let a : Tys := .cons (tyAtom .int .one) .nil
    let R : Ty := .func a (tyAtom .int .opt)
    let g : Item := .func a (tyAtom .int .opt)
    let T : Ty := .func (.cons (tyAtom .integer .one) .nil) R
    matchSt tables false true T [.map []] = .ok false ∧
    matchSt tables false true T [.map [(tables.intCls, [g])]] = .ok false ∧
    instanceOf tables false T [.map [(tables.intCls, [g])]] = .ok false ∧
    matchSt tables false true T [.array [[g], [g]]] = .ok true ∧
    matchSt tables false true (.func (.cons (tyAtom .integer .one) .nil) (.array (tyAtom .integer .opt) .opt))
      [.map [(tables.intCls, [.array [[.atom tables.intCls]]])]] = .ok true ∧
    matchSt tables false true (.func (.cons (tyAtom .integer .one) .nil) (.array (tyAtom .int .opt) .one))
      [.map []] = .ok false := by
  decide +kernel

/-- non-vacuity: the tables are not empty -/
example : atomNames.length = 47 ∧ 40 < clsNames.length ∧ 100 < signatures.length := by decide +kernel

end EPV.C18

/-
C17 — property theorems for the JSON side of elementpath (escaping, number rendering, the
json-to-xml / xml-to-json mapping, the serializer against an RFC 8259 reader).
Helper lemmas live in EPV/Lemmas/Json*.lean.

Reading guide
* `Str`                    a string as a list of code points
* `escapeJsonString`       transcription of helpers.py :: escape_json_string (a chain of `str.replace`)
* `unescapeJsonString`     transcription of helpers.py :: unescape_json_string (fixed: one regex pass)
* `unescapeSeqOld`         the pinned-tree version (sequential replaces), kept for the witness of F17a
* `rfcEscapeChar`, `parseStrF`, `parseJson`   the RFC 8259 specification (EPV/Spec/RFC8259.lean)
* `serializeJson`          transcription of serialization.py :: serialize_to_json (json.dumps with
                           ensure_ascii, then `.replace('/', '\\/')`) on the JSON value type `JValue`
* `renderInt`, `reprDouble` `int.__repr__`; `float.__repr__`'s formatting of the shortest digit string
* `JValue.valid`           every string/key is a sequence of Unicode scalar values (no surrogates), every
                           double `Dec` is in normal form (`wfDec`: digits 0..9, no leading/trailing zero
                           digit, or the zero `[0]`,`decpt = 1`) — what CPython's digit generator delivers
* `jsonToXml`, `xmlToJson` transcriptions of fn:json-to-xml / fn:xml-to-json (default options) on `JValue`
                           and the element type `Elem` (tag, key attribute, text, children)
* `JValue.x2jOK`           strings/keys of XML characters, distinct keys in every object, integers below
                           10^16 in absolute value, doubles in normal form whose repr is not `ddd.0`
* `pjPairs`, `dedupeFirst` the `duplicates` loop of fn:parse-json and the F&O specification of `use-first`
-/
import EPV.Lemmas.JsonXml
import EPV.Lemmas.JsonDup
namespace EPV.C17
open EPV.Json

/-- `unescape_json_string(escape_json_string(s)) == s` for every string (all code points, any length). -/
theorem unescape_escape (s : Str) : unescapeJsonString (escapeJsonString s) = some s := by
  unfold unescapeJsonString
  rw [escape_flatMap]
  exact unescapeF_escape s _ (Nat.le_refl _)

/-- F17a (pinned tree, repaired by `fix: unescape_json_string …`): with the sequential replace chain
the round trip fails on a backslash followed by `n`: the result is backslash + LINE FEED. -/
theorem unescapeOld_escape_fails :
    f17aTrigger [92, 110] = true ∧
    unescapeSeqOld (escapeJsonString [92, 110]) = some [92, 10] ∧
    unescapeSeqOld (escapeJsonString [92, 110]) ≠ some [92, 110] := by decide

/-- `escape_json_string(s)` is the RFC 8259 §7 per-character escape map (mandatory escapes, plus the
optional ones of `/` and U+007F..U+009F, upper-case hex) — for strings without U+0000, which is
not an XML character and cannot occur in an XPath string. -/
theorem escape_eq_spec (s : Str) (h : ∀ c ∈ s, c ≠ 0) :
    escapeJsonString s =
      s.flatMap (rfcEscapeChar (fun c => c == 47 || (127 ≤ c && c ≤ 159)) upperHex) := by
  rw [escape_flatMap]
  induction s with
  | nil => rfl
  | cons x t ih =>
    simp only [List.flatMap_cons]
    rw [escChar_eq_rfc x (h x (by simp)), ih (fun c hc => h c (by simp [hc]))]

/-- the hypothesis of `escape_eq_spec` is needed: U+0000 is left raw by the code (`1 <= ord(x)`),
RFC 8259 requires `\u0000`. -/
theorem escape_nul_raw : escapeJsonString [0] = [0] ∧
    rfcEscapeChar (fun _ => false) upperHex 0 = [92, 117, 48, 48, 48, 48] := by decide

/-- the RFC 8259 string reader reads `escape_json_string(s)` back to `s` (strings without U+0000):
in particular every `"` and `\` of the output belongs to an escape sequence. -/
theorem escape_decodes (s : Str) (h : ∀ c ∈ s, c ≠ 0) : decodeBody (escapeJsonString s) = some s := by
  unfold decodeBody
  rw [escape_flatMap]
  have := parseStrF_body escChar s (fun c hc => escOK_escChar c (h c hc)) []
  simp only [List.length_append, List.length_cons, List.length_nil] at this
  rw [this]

/-- the output of `escape_json_string` contains no raw control character: nothing below U+0020
and nothing in U+007F..U+009F (strings without U+0000). -/
theorem escape_ascii_safe (s : Str) (h : ∀ c ∈ s, c ≠ 0) :
    ∀ c ∈ escapeJsonString s, 32 ≤ c ∧ ¬ (127 ≤ c ∧ c ≤ 159) := by
  rw [escape_flatMap]
  intro c hc
  obtain ⟨x, hx, hcx⟩ := List.mem_flatMap.mp hc
  have hx0 := h x hx
  by_cases hs : x = 92 ∨ x = 34 ∨ x = 8 ∨ x = 13 ∨ x = 10 ∨ x = 9 ∨ x = 12 ∨ x = 47
  · obtain ⟨e, he, hd⟩ := escChar_simple x hs
    rw [he] at hcx
    simp only [List.mem_cons, List.mem_nil_iff, or_false] at hcx
    rcases hcx with rfl | rfl
    · omega
    · unfold simpleUnescape? at hd
      repeat (split at hd; · omega)
      simp at hd
  · by_cases hcc : (1 ≤ x ∧ x ≤ 31) ∨ (127 ≤ x ∧ x ≤ 159)
    · rw [escChar_ctrl x hcc hs] at hcx
      simp only [hex4U, List.mem_cons, List.mem_nil_iff, or_false] at hcx
      have hu : ∀ d, 48 ≤ hexDigitU d ∧ (hexDigitU d ≤ 70 ∨ 16 ≤ d) := by
        intro d; unfold hexDigitU; split <;> omega
      rcases hcx with rfl | rfl | rfl | rfl | rfl | rfl
      · omega
      · omega
      all_goals (have := hu (x / 4096 % 16); have := hu (x / 256 % 16); have := hu (x / 16 % 16);
                 have := hu (x % 16); omega)
    · rw [escChar_raw x hcc hs] at hcx
      simp only [List.mem_cons, List.mem_nil_iff, or_false] at hcx
      subst hcx
      omega

/-- `int.__repr__` is read back exactly by the RFC 8259 number reader: every integer, any size. -/
theorem json_number_int_exact (n : Int) : parseNum (renderInt n) = some (.int n, []) := by
  have := parseNum_renderInt n [] trivial
  simpa using this

/-- `float.__repr__`'s formatting (fixed / exponent notation, sign, `.0`, two-digit exponent) of a
decimal in normal form is read back to that decimal: all digit strings, all exponents. -/
theorem json_number_double_exact (d : Dec) (h : wfDec d = true) :
    parseNum (reprDouble d) = some (.dbl d, []) := by
  have := (numOK_reprDouble d h).2 [] trivial
  simpa using this

/-- `serialize_to_json` followed by the RFC 8259 reader is the identity: every JSON value (any
nesting, any strings of Unicode scalar values, any integers, any doubles in normal form). -/
theorem serialize_parse_value (v : JValue) (hv : v.valid = true) :
    parseJson (serializeJson v) = some v := by
  rw [serializeJson_eq]
  exact parseJson_render serChar isScalar escOK_serChar wfDec numOK_reprDouble v hv

/-- the hypothesis of `serialize_parse_value` holds on a non-trivial value (test on literals) -/
example : (JValue.obj [([97, 47], .arr [.null, .int (-12), .dbl ⟨false, [1, 5], 1⟩, .str [128512, 10]])]).valid = true ∧
    parseJson (serializeJson (.obj [([97, 47], .arr [.null, .int (-12), .dbl ⟨false, [1, 5], 1⟩, .str [128512, 10]])])) =
      some (.obj [([97, 47], .arr [.null, .int (-12), .dbl ⟨false, [1, 5], 1⟩, .str [128512, 10]])]) :=
  ⟨by decide, by rfl⟩

/-- validity is needed: a lone high surrogate followed by a low surrogate is written as two escapes
and read back as one astral character (strings of an XDM value never contain surrogates). -/
theorem serialize_parse_surrogates :
    parseJson (serializeJson (.str [0xD83D, 0xDE00])) = some (.str [0x1F600]) := by rfl

/-- F17b (pinned tree, repaired by `fix: JSON serialization of xs:decimal …`): 3.14159 went through
`quantize(Decimal('0.01'), ROUND_UP)` and came out as 315 hundredths. -/
theorem decimal_quantize_old_fails :
    f17bTrigger 314159 5 = true ∧ quantize2UpOld 314159 5 = 315 ∧ 315 * 10 ^ 3 ≠ 314159 := by decide

/-- PARTIAL.  `xml-to-json(json-to-xml(t))` succeeds and is a JSON text that the RFC 8259 reader reads
back to the value of `t`, for every value in the domain `x2jOK` (any nesting; strings and keys of XML
characters incl. `"`, `\`, `/`, controls; distinct keys; integers below 10^16; doubles whose repr has
a fraction or an exponent).
Full statement (not proved, observed by the correspondence check on every run): for every JSON value
with XML strings and distinct keys the result denotes the same value *up to the spelling of numbers* —
an integer of 17 or more digits comes back in exponent notation (`1e+16`, nearest double), a double
such as `100.0` comes back as `100`.  Outside the hypothesis the model's `float()` step is a trusted
parameter (shortest-digit generation), so no theorem is stated there. -/
theorem json_xml_roundtrip_partial (v : JValue) (h : v.x2jOK = true) :
    ∃ t, (jsonToXml v).bind xmlToJson = .ok t ∧ parseJson t = some v :=
  ⟨render escChar v, x2j_render v h,
    parseJson_render escChar isXmlCodepoint escOK_escChar_xml stableDbl numOK_stable v (x2jOK_valid v h)⟩

/-- the hypothesis of `json_xml_roundtrip_partial` holds on a non-trivial value (test on literals):
`{"a\"/":[null,-12,1.5,1e+21,"\n\\n"],"":{}}` -/
example : (JValue.obj [([97, 34, 47], .arr [.null, .int (-12), .dbl ⟨false, [1, 5], 1⟩, .dbl ⟨false, [1], 22⟩,
    .str [10, 92, 110]]), ([], .obj [])]).x2jOK = true := by decide

/-- outside the domain the text changes but (here) not the number: 100.0 is written `100` (test on literals) -/
example : (jsonToXml (.dbl ⟨false, [1], 3⟩)).bind xmlToJson = .ok [49, 48, 48] := by rfl

/-- duplicate keys are kept by json-to-xml (default `duplicates: retain`) and rejected by xml-to-json
with FOJS0006, as F&O 17.4/17.5 prescribe (test on literals) -/
example : (jsonToXml (.obj [([97], .int 1), ([97], .int 2)])).bind xmlToJson = .error .FOJS0006 := by rfl

/-- fn:parse-json, `duplicates: use-first` (the default): the dict-filling loop of the implementation
computes the specification's "first member with a given key wins", for every list of members
(keys are compared after the replacement of non-XML characters, which is the identity on XML strings). -/
theorem parse_json_use_first {α} (m : List (Str × α)) :
    pjPairs .useFirst [] m = .ok (dedupeFirst [] (fixKeys m)) := by
  have := pjPairs_useFirst m []
  simpa using this

/-- The functions of this property are pure, so a *history* of evaluations is the list of the single
evaluations: serializing and reading back any sequence of values, in any order and with repetitions,
returns exactly those values.  (For the real code this is what the token-reuse part of the
correspondence check observes: one compiled expression evaluated for many inputs must agree, step by
step, with freshly parsed expressions — a token that keeps state between evaluations breaks it.) -/
theorem serialize_parse_history (vs : List JValue) (h : ∀ v ∈ vs, v.valid = true) :
    vs.map (fun v => parseJson (serializeJson v)) = vs.map some := by
  induction vs with
  | nil => rfl
  | cons v t ih =>
    simp only [List.map_cons]
    rw [serialize_parse_value v (h v (by simp)), ih (fun w hw => h w (by simp [hw]))]

/-- the same for `xml-to-json(json-to-xml(·))` on its proved domain -/
theorem json_xml_history_partial (vs : List JValue) (h : ∀ v ∈ vs, v.x2jOK = true) :
    ∀ v ∈ vs, ∃ t, (jsonToXml v).bind xmlToJson = .ok t ∧ parseJson t = some v :=
  fun v hv => json_xml_roundtrip_partial v (h v hv)

end EPV.C17

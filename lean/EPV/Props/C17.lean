/-
C17 — property theorems for the JSON side of elementpath (escaping, number rendering, the
json-to-xml / xml-to-json mapping, the serializer against an RFC 8259 reader).
Helper lemmas live in EPV/Lemmas/Json*.lean.

Reading guide
* `Str`                    a string as a list of code points
* `escapeJsonString`       transcription of helpers.py :: escape_json_string (a chain of `str.replace`)
* `unescapeJsonString`     transcription of helpers.py :: unescape_json_string (fixed: one regex pass)
* `unescapeSeqOld`         the pinned-tree version (sequential replaces), kept for the witness of F17a
* `rfcEscapeChar`, `parseStrF`, `parseJson`   the RFC 8259 specification (EPV/Spec/RFC8259.lean)
-/
import EPV.Lemmas.JsonEscape
namespace EPV.C17
open EPV.Json

/-- `unescape_json_string(escape_json_string(s)) == s` for every string (all code points, any length). -/
theorem unescape_escape (s : Str) : unescapeJsonString (escapeJsonString s) = some s := by
  unfold unescapeJsonString
  rw [escape_flatMap]
  exact unescapeF_escape s _ (Nat.le_refl _)

/-- F17a (pinned tree, repaired by `fix: unescape_json_string …`): with the sequential replace chain
the round trip fails on a backslash followed by `n`: the result is backslash + LINE FEED. -/
theorem unescapeOld_escape_fails :
    f17aTrigger [92, 110] = true ∧
    unescapeSeqOld (escapeJsonString [92, 110]) = some [92, 10] ∧
    unescapeSeqOld (escapeJsonString [92, 110]) ≠ some [92, 110] := by decide

/-- `escape_json_string(s)` is the RFC 8259 §7 per-character escape map (mandatory escapes, plus the
optional ones of `/` and U+007F..U+009F, upper-case hex) — for strings without U+0000, which is
not an XML character and cannot occur in an XPath string. -/
theorem escape_eq_spec (s : Str) (h : ∀ c ∈ s, c ≠ 0) :
    escapeJsonString s =
      s.flatMap (rfcEscapeChar (fun c => c == 47 || (127 ≤ c && c ≤ 159)) upperHex) := by
  rw [escape_flatMap]
  induction s with
  | nil => rfl
  | cons x t ih =>
    simp only [List.flatMap_cons]
    rw [escChar_eq_rfc x (h x (by simp)), ih (fun c hc => h c (by simp [hc]))]

/-- the hypothesis of `escape_eq_spec` is needed: U+0000 is left raw by the code (`1 <= ord(x)`),
RFC 8259 requires `\u0000`. -/
theorem escape_nul_raw : escapeJsonString [0] = [0] ∧
    rfcEscapeChar (fun _ => false) upperHex 0 = [92, 117, 48, 48, 48, 48] := by decide

end EPV.C17

/-
C17 — property theorems for the JSON side of elementpath (escaping, number rendering, the
json-to-xml / xml-to-json mapping, the serializer against an RFC 8259 reader).
Helper lemmas live in EPV/Lemmas/Json*.lean.

Reading guide
* `Str`                    a string as a list of code points
* `escapeJsonString`       transcription of helpers.py :: escape_json_string (a chain of `str.replace`)
* `unescapeJsonString`     transcription of helpers.py :: unescape_json_string (fixed: one regex pass)
* `unescapeSeqOld`         the pinned-tree version (sequential replaces), kept for the witness of F17a
* `rfcEscapeChar`, `parseStrF`, `parseJson`   the RFC 8259 specification (EPV/Spec/RFC8259.lean)
* `serializeJson`          transcription of serialization.py :: serialize_to_json (json.dumps with
                           ensure_ascii, then `.replace('/', '\\/')`) on the JSON value type `JValue`
* `renderInt`, `reprDouble` `int.__repr__`; `float.__repr__`'s formatting of the shortest digit string
* `JValue.valid`           every string/key is a sequence of Unicode scalar values (no surrogates), every
                           double `Dec` is in normal form (`wfDec`: digits 0..9, no leading/trailing zero
                           digit, or the zero `[0]`,`decpt = 1`) — what CPython's digit generator delivers
* `jsonToXml`, `xmlToJson` transcriptions of fn:json-to-xml / fn:xml-to-json (default options) on `JValue`
                           and the element type `Elem` (tag, key attribute, text, children)
* `JValue.x2jDom`          strings/keys of XML characters, distinct keys in every object, doubles in normal form
* `numVal`, `sameNum`, `SameValue`   value semantics: a number is mantissa × 10^exponent, compared as a rational
* `rnd`, `numsFixed`       `float()` as an explicit parameter of xml-to-json's number branch; "the numbers of v are doubles"
* `pjPairs`, `dedupeFirst` the `duplicates` loop of fn:parse-json and the F&O specification of `use-first`
-/
import EPV.Lemmas.JsonXml
import EPV.Lemmas.JsonXmlDup
import EPV.Lemmas.JsonDup
import EPV.Lemmas.JsonXmlText
import EPV.Lemmas.JsonEscapeOpt
namespace EPV.C17
open EPV.Json

/-- `unescape_json_string(escape_json_string(s)) == s` for every string (all code points, any length). -/
theorem unescape_escape (s : Str) : unescapeJsonString (escapeJsonString s) = some s := by
  unfold unescapeJsonString
  rw [escape_flatMap]
  exact unescapeF_escape s _ (Nat.le_refl _)

/-- F17a (pinned tree, repaired by `fix: unescape_json_string …`): with the sequential replace chain
the round trip fails on a backslash followed by `n`: the result is backslash + LINE FEED. -/
theorem unescapeOld_escape_fails :
    f17aTrigger [92, 110] = true ∧
    unescapeSeqOld (escapeJsonString [92, 110]) = some [92, 10] ∧
    unescapeSeqOld (escapeJsonString [92, 110]) ≠ some [92, 110] := by decide

/-- `escape_json_string(s)` is the RFC 8259 §7 per-character escape map (mandatory escapes, plus the
optional ones of `/` and U+007F..U+009F, upper-case hex) — for strings without U+0000, which is
not an XML character and cannot occur in an XPath string. -/
theorem escape_eq_spec (s : Str) (h : ∀ c ∈ s, c ≠ 0) :
    escapeJsonString s =
      s.flatMap (rfcEscapeChar (fun c => c == 47 || (127 ≤ c && c ≤ 159)) upperHex) := by
  rw [escape_flatMap]
  induction s with
  | nil => rfl
  | cons x t ih =>
    simp only [List.flatMap_cons]
    rw [escChar_eq_rfc x (h x (by simp)), ih (fun c hc => h c (by simp [hc]))]

/-- the hypothesis of `escape_eq_spec` is needed: U+0000 is left raw by the code (`1 <= ord(x)`),
RFC 8259 requires `\u0000`. -/
theorem escape_nul_raw : escapeJsonString [0] = [0] ∧
    rfcEscapeChar (fun _ => false) upperHex 0 = [92, 117, 48, 48, 48, 48] := by decide

/-- the RFC 8259 string reader reads `escape_json_string(s)` back to `s` (strings without U+0000):
in particular every `"` and `\` of the output belongs to an escape sequence. -/
theorem escape_decodes (s : Str) (h : ∀ c ∈ s, c ≠ 0) : decodeBody (escapeJsonString s) = some s := by
  unfold decodeBody
  rw [escape_flatMap]
  have := parseStrF_body escChar s (fun c hc => escOK_escChar c (h c hc)) []
  simp only [List.length_append, List.length_cons, List.length_nil] at this
  rw [this]

/-- the output of `escape_json_string` contains no raw control character: nothing below U+0020
and nothing in U+007F..U+009F (strings without U+0000). -/
theorem escape_ascii_safe (s : Str) (h : ∀ c ∈ s, c ≠ 0) :
    ∀ c ∈ escapeJsonString s, 32 ≤ c ∧ ¬ (127 ≤ c ∧ c ≤ 159) := by
  rw [escape_flatMap]
  intro c hc
  obtain ⟨x, hx, hcx⟩ := List.mem_flatMap.mp hc
  have hx0 := h x hx
  by_cases hs : x = 92 ∨ x = 34 ∨ x = 8 ∨ x = 13 ∨ x = 10 ∨ x = 9 ∨ x = 12 ∨ x = 47
  · obtain ⟨e, he, hd⟩ := escChar_simple x hs
    rw [he] at hcx
    simp only [List.mem_cons, List.mem_nil_iff, or_false] at hcx
    rcases hcx with rfl | rfl
    · omega
    · unfold simpleUnescape? at hd
      repeat (split at hd; · omega)
      simp at hd
  · by_cases hcc : (1 ≤ x ∧ x ≤ 31) ∨ (127 ≤ x ∧ x ≤ 159)
    · rw [escChar_ctrl x hcc hs] at hcx
      simp only [hex4U, List.mem_cons, List.mem_nil_iff, or_false] at hcx
      have hu : ∀ d, 48 ≤ hexDigitU d ∧ (hexDigitU d ≤ 70 ∨ 16 ≤ d) := by
        intro d; unfold hexDigitU; split <;> omega
      rcases hcx with rfl | rfl | rfl | rfl | rfl | rfl
      · omega
      · omega
      all_goals (have := hu (x / 4096 % 16); have := hu (x / 256 % 16); have := hu (x / 16 % 16);
                 have := hu (x % 16); omega)
    · rw [escChar_raw x hcc hs] at hcx
      simp only [List.mem_cons, List.mem_nil_iff, or_false] at hcx
      subst hcx
      omega

/-- `int.__repr__` is read back exactly by the RFC 8259 number reader: every integer, any size. -/
theorem json_number_int_exact (n : Int) : parseNum (renderInt n) = some (.int n, []) := by
  have := parseNum_renderInt n [] trivial
  simpa using this

/-- `float.__repr__`'s formatting (fixed / exponent notation, sign, `.0`, two-digit exponent) of a
decimal in normal form is read back to that decimal: all digit strings, all exponents. -/
theorem json_number_double_exact (d : Dec) (h : wfDec d = true) :
    parseNum (reprDouble d) = some (.dbl d, []) := by
  have := (numOK_reprDouble d h).2 [] trivial
  simpa using this

/-- `serialize_to_json` followed by the RFC 8259 reader is the identity: every JSON value (any
nesting, any strings of Unicode scalar values, any integers, any doubles in normal form). -/
theorem serialize_parse_value (v : JValue) (hv : v.valid = true) :
    parseJson (serializeJson v) = some v := by
  rw [serializeJson_eq]
  exact parseJson_render serChar isScalar escOK_serChar wfDec numOK_reprDouble v hv

/-- the hypothesis of `serialize_parse_value` holds on a non-trivial value (test on literals) -/
example : (JValue.obj [([97, 47], .arr [.null, .int (-12), .dbl ⟨false, [1, 5], 1⟩, .str [128512, 10]])]).valid = true ∧
    parseJson (serializeJson (.obj [([97, 47], .arr [.null, .int (-12), .dbl ⟨false, [1, 5], 1⟩, .str [128512, 10]])])) =
      some (.obj [([97, 47], .arr [.null, .int (-12), .dbl ⟨false, [1, 5], 1⟩, .str [128512, 10]])]) :=
  ⟨by decide, by rfl⟩

/-- validity is needed: a lone high surrogate followed by a low surrogate is written as two escapes
and read back as one astral character (strings of an XDM value never contain surrogates). -/
theorem serialize_parse_surrogates :
    parseJson (serializeJson (.str [0xD83D, 0xDE00])) = some (.str [0x1F600]) := by rfl

/-- F17b (pinned tree, repaired by `fix: JSON serialization of xs:decimal …`): 3.14159 went through
`quantize(Decimal('0.01'), ROUND_UP)` and came out as 315 hundredths. -/
theorem decimal_quantize_old_fails :
    f17bTrigger 314159 5 = true ∧ quantize2UpOld 314159 5 = 315 ∧ 315 * 10 ^ 3 ≠ 314159 := by decide

/-- `xml-to-json(json-to-xml(t))` DENOTES THE SAME JSON VALUE as `t`: it succeeds, the RFC 8259 reader
reads the result back to a value `w`, and `w` is the same value as `v` (`SameValue`: same structure, same
strings and keys, numbers equal *as numbers* — `numVal`/`sameNum`: mantissa × 10^exponent compared as
rationals; the spelling may differ: `100.0 ↦ 100`, `10^20 ↦ 1e+20`, `-0.0 ↦ -0`).
For every JSON value with XML strings, distinct keys and normal-form doubles (`x2jDom`), any nesting,
ANY integers and doubles, and for every `float()` (`rnd`, the trusted parameter of the number branch) that
leaves the numbers of `v` alone (`numsFixed`): that is `float(repr(x)) == x` for the doubles of `v`, and
for an integer literal it says the integer is itself a double (else JSON's number model, xs:double,
rounds it — by design, not a defect). -/
theorem json_xml_roundtrip (rnd : Dec → Dec) (v : JValue) (h : v.x2jDom = true) (hr : v.numsFixed rnd) :
    ∃ t w, (jsonToXml v).bind (xmlToJson rnd) = .ok t ∧ parseJson t = some w ∧ SameValue v w := by
  refine ⟨renderG escChar (x2jI id) (x2jD id) v, mapNum (fun n => x2jVal (denInt n)) x2jVal v, ?_, ?_,
    same_mapNum v h⟩
  · rw [x2j_render rnd v h, renderG_fixed rnd v hr]
  · exact parseJson_renderG escChar (x2jI id) (x2jD id) (fun n => x2jVal (denInt n)) x2jVal isXmlCodepoint
      escOK_escChar_xml wfDec (fun n => numOK_reprStripped (denInt n) (wfDec_denInt n))
      (fun d hd => numOK_reprStripped d hd) v (x2jDom_valid v h)

/-- the hypotheses of `json_xml_roundtrip` hold on a non-trivial value (test on literals):
`{"a\"/":[null,-12,1.5,1e+21,100.0,-0.0,100000000000000000000,"\n\\n"],"":{}}` with `float()` = identity
on these numbers -/
example : (JValue.obj [([97, 34, 47], .arr [.null, .int (-12), .dbl ⟨false, [1, 5], 1⟩, .dbl ⟨false, [1], 22⟩,
    .dbl ⟨false, [1], 3⟩, .dbl ⟨true, [0], 1⟩, .int (10 ^ 20), .str [10, 92, 110]]), ([], .obj [])]).x2jDom = true ∧
    (JValue.arr [.int (-12), .dbl ⟨false, [1], 3⟩, .int (10 ^ 20)]).numsFixed id :=
  ⟨by decide, ⟨rfl, rfl, rfl, trivial⟩⟩

/-- spellings change, values do not (tests on literals): `100.0 ↦ 100`, `-0.0 ↦ -0`, `10^20 ↦ 1e+20` -/
example : (jsonToXml (.dbl ⟨false, [1], 3⟩)).bind (xmlToJson id) = .ok [49, 48, 48] := by rfl
example : (jsonToXml (.dbl ⟨true, [0], 1⟩)).bind (xmlToJson id) = .ok [45, 48] := by rfl
example : (jsonToXml (.int (10 ^ 20))).bind (xmlToJson id) = .ok [49, 101, 43, 50, 48] := by rfl

/-- `xml-to-json(json-to-xml(t, map{'duplicates': p}))` over the JSON value model WITH the `duplicates`
option, duplicate keys allowed.  For every value `v` (any nesting, XML strings, normal-form doubles, numbers that
are doubles) and
* `p = use-first`, whatever keys `v` has: the composition succeeds and denotes the value `dfa v` — `v` with the F&O
  `use-first` policy applied in every object, which is the specification's `dedupeAll .useFirst v`;
* `p = retain` (the default) or `p = reject`, for `v` with distinct keys in every object (`x2jDom`): it denotes `v`
  itself (`dfa v = v`).
(With duplicate keys `retain` ends in FOJS0006 from xml-to-json and `reject` in FOJS0003 from json-to-xml, as F&O
prescribes: kernel-checked examples below.  The `escape` option is `escape_option_roundtrip`, string level.) -/
theorem xml_to_json_of_json_to_xml (rnd : Dec → Dec) (p : DupPolicy) (v : JValue)
    (hv : v.validWith isXmlCodepoint wfDec = true) (hr : v.numsFixed rnd)
    (hp : p = .useFirst ∨ ((p = .retain ∨ p = .reject) ∧ v.x2jDom = true)) :
    dedupeAll .useFirst v = some (dfa v) ∧
    ∃ t w, (jsonToXml v p).bind (xmlToJson rnd) = .ok t ∧ parseJson t = some w ∧ SameValue (dfa v) w := by
  refine ⟨dedupeAll_first v, ?_⟩
  rcases hp with rfl | ⟨hp, hd⟩
  · have e : jsonToXml v .useFirst = jsonToXml (dfa v) .retain := toElem_useFirst v none
    rw [e]
    exact json_xml_roundtrip rnd (dfa v) (dfa_dom v hv) (dfa_fixed rnd v hr)
  · rw [dfa_id v hd]
    rcases hp with rfl | rfl
    · exact json_xml_roundtrip rnd v hd hr
    · have e : jsonToXml v .reject = jsonToXml v .retain := toElem_reject v hd none
      rw [e]
      exact json_xml_roundtrip rnd v hd hr

/-- the hypotheses of `xml_to_json_of_json_to_xml` on a value WITH duplicate keys (tests on literals):
`{"a":1,"b":{"x":1.5,"x":2},"a":[3]}` with use-first gives `{"a":1,"b":{"x":1.5}}`; reject gives FOJS0003 -/
example : (JValue.obj [([97], .int 1), ([98], .obj [([120], .dbl ⟨false, [1, 5], 1⟩), ([120], .int 2)]),
      ([97], .arr [.int 3])]).validWith isXmlCodepoint wfDec = true ∧
    (jsonToXml (.obj [([97], .int 1), ([98], .obj [([120], .dbl ⟨false, [1, 5], 1⟩), ([120], .int 2)]),
      ([97], .arr [.int 3])]) .useFirst).bind (xmlToJson id) =
      .ok [123, 34, 97, 34, 58, 49, 44, 34, 98, 34, 58, 123, 34, 120, 34, 58, 49, 46, 53, 125, 125] ∧
    (jsonToXml (.obj [([97], .int 1), ([97], .int 2)]) .reject).bind (xmlToJson id) = .error .FOJS0003 :=
  ⟨by decide, by rfl, by rfl⟩

/-- duplicate keys are kept by json-to-xml (default `duplicates: retain`) and rejected by xml-to-json
with FOJS0006, as F&O 17.4/17.5 prescribe (test on literals) -/
example : (jsonToXml (.obj [([97], .int 1), ([97], .int 2)])).bind (xmlToJson id) = .error .FOJS0006 := by rfl

/-- fn:parse-json, `duplicates: use-first` (the default): the dict-filling loop of the implementation
computes the specification's "first member with a given key wins", for every list of members
(keys are compared after the replacement of non-XML characters, which is the identity on XML strings). -/
theorem parse_json_use_first {α} (m : List (Str × α)) :
    pjPairs .useFirst [] m = .ok (dedupeFirst [] (fixKeys m)) := by
  have := pjPairs_useFirst m []
  simpa using this

/-- fn:parse-json, `duplicates: use-last`: overwriting the dict entry computes the specification's "last
value wins, at the position of the first occurrence", for every list of members. -/
theorem parse_json_use_last {α} (m : List (Str × α)) :
    pjPairs .useLast [] m = .ok (dedupeLast [] (fixKeys m)) := pjPairs_useLast m

/-- fn:parse-json, `duplicates: reject`: FOJS0003 exactly when some key occurs twice, otherwise the
members unchanged, for every list of members. -/
theorem parse_json_reject {α} (m : List (Str × α)) :
    pjPairs .reject [] m = if hasDupKeys (fixKeys m) then .error .FOJS0003 else .ok (fixKeys m) := by
  have := pjPairs_reject m []
  simpa using this

/-- The functions of this property are pure, so a *history* of evaluations is the list of the single
evaluations: serializing and reading back any sequence of values, in any order and with repetitions,
returns exactly those values.  (For the real code this is what the token-reuse part of the
correspondence check observes: one compiled expression evaluated for many inputs must agree, step by
step, with freshly parsed expressions — a token that keeps state between evaluations breaks it.) -/
theorem serialize_parse_history (vs : List JValue) (h : ∀ v ∈ vs, v.valid = true) :
    vs.map (fun v => parseJson (serializeJson v)) = vs.map some := by
  induction vs with
  | nil => rfl
  | cons v t ih =>
    simp only [List.map_cons]
    rw [serialize_parse_value v (h v (by simp)), ih (fun w hw => h w (by simp [hw]))]

/-- Serializing is a function of its argument: however many times (and with whatever further inputs `ps`,
e.g. serialization parameters) a value is serialized, the value that is serialized afterwards is the
one we started with.  Trivial for the model — a Lean function cannot write to its argument — and exactly
what the real code must imitate: `harness/c17.py` snapshots every input tree before and after every
evaluation (kind `PURITY`) and round-trips a tree after serializing some of its nodes (kind `SERH`).
The proof-side guard against new write sites in the evaluator is C05's structural table
`no_tree_write_outside_allow_list`. -/
theorem serialize_leaves_argument {P : Type} (v : JValue) (ps : List P) :
    (ps.foldl (fun (st : JValue × List Str) _ => (st.1, serializeJson st.1 :: st.2)) (v, [])).1 = v := by
  suffices h : ∀ (acc : List Str), (ps.foldl (fun (st : JValue × List Str) _ =>
      (st.1, serializeJson st.1 :: st.2)) (v, acc)).1 = v from h []
  induction ps with
  | nil => intro acc; rfl
  | cons p t ih => intro acc; exact ih _

/-- the same for `xml-to-json(json-to-xml(·))` -/
theorem json_xml_history (rnd : Dec → Dec) (vs : List JValue) (h : ∀ v ∈ vs, v.x2jDom = true ∧ v.numsFixed rnd) :
    ∀ v ∈ vs, ∃ t w, (jsonToXml v).bind (xmlToJson rnd) = .ok t ∧ parseJson t = some w ∧ SameValue v w :=
  fun v hv => json_xml_roundtrip rnd v (h v hv).1 (h v hv).2

/-- Option `escape: true`, string level: the text json-to-xml writes for a JSON string (`escape_string`:
backslashes doubled unless followed by `/`, two-character escapes, `\uXXXX` for non-XML characters; the
`escaped` attribute iff the text contains a backslash) is accepted by xml-to-json's `check_escapes` and
turned by `escape_json_string(·, escaped)` into a JSON string body that the RFC 8259 reader reads back to
the original string — for EVERY string of Unicode scalar values (any backslashes, solidi, quotes, controls,
non-XML characters). -/
theorem escape_option_roundtrip (s : Str) (hs : ∀ c ∈ s, isScalar c = true) :
    ∃ body, x2jStringEscaped (j2xEscapeString s) = .ok (34 :: (body ++ [34])) ∧ decodeBody body = some s :=
  ⟨G s, escape_option_string s hs⟩

/-- the inputs of the four repaired defects (tests on literals): `/`, backslash+`/`, `b\"`, `\uZZZZ` -/
example : x2jStringEscaped (j2xEscapeString [47]) = .ok [34, 92, 47, 34] ∧
    x2jStringEscaped (j2xEscapeString [92, 47]) = .ok [34, 92, 92, 92, 47, 34] ∧
    x2jStringEscaped (j2xEscapeString [98, 92, 34]) = .ok [34, 98, 92, 92, 92, 34, 34] ∧
    x2jStringEscaped (j2xEscapeString [92, 117, 90, 90, 90, 90]) = .ok [34, 92, 92, 117, 90, 90, 90, 90, 34] :=
  ⟨by rfl, by rfl, by rfl, by rfl⟩

/-! ### XML: escaping of character data and attribute values (fn:serialize ∘ fn:parse-xml) -/

theorem no_cr_of_hasCR (s : Str) (h : hasCR s = false) : ∀ x ∈ s, x ≠ 13 := by
  intro x hx h13
  subst h13
  have : hasCR s = true := List.any_eq_true.mpr ⟨13, hx, by simp⟩
  rw [h] at this
  exact absurd this (by simp)

/-- ElementTree's own escaping (without the repository's CR handling; F17n before the fix).  An XML reader (end-of-line normalization + references) reads the
ElementTree escaping of character data back to the text, for every text WITHOUT U+000D.
Full statement `∀ s, xmlReadText (etEscapeText s) = some s` is false: `xml_text_cr_fails`. -/
theorem xml_text_roundtrip_partial (s : Str) (h : hasCR s = false) : xmlReadText (etEscapeText s) = some s := by
  have hs := no_cr_of_hasCR s h
  unfold xmlReadText
  rw [etEscapeText_flatMap, normEol_noop]
  · exact readChars_flatMap_full false etTextChar s (fun c _ => charOK_etText c)
  · apply no13_flatMap
    intro x hx c hc
    have hx13 := hs x hx
    unfold etTextChar at hc
    repeat (split at hc; · simp at hc; omega)
    simp at hc; omega

/-- F17n: ElementTree writes U+000D raw in character data, the reader turns it into U+000A. -/
theorem xml_text_cr_fails : hasCR [120, 13, 121] = true ∧
    xmlReadText (etEscapeText [120, 13, 121]) = some [120, 10, 121] := by decide

/-- FULL STRENGTH for the repository's path (F17n fixed): fn:serialize marks U+000D in a copy, lets
ElementTree escape the text and writes `&#13;` for the mark; an XML reader reads the result back to the
text, for EVERY text and every private-use mark that does not occur in it. -/
theorem xml_text_roundtrip (k : Nat) (s : Str) (hk : 0xE000 ≤ k) (hs : ∀ x ∈ s, x ≠ k) :
    xmlReadText (repoEscapeText k s) = some s := by
  unfold xmlReadText
  rw [repoEscapeText_eq k s hk hs, normEol_noop]
  · exact readChars_flatMap_full false lxTextChar s (fun c _ => charOK_lxText c)
  · apply no13_flatMap
    intro x _ c hc
    unfold lxTextChar at hc
    repeat (split at hc; · simp at hc; omega)
    simp at hc; omega

/-- the mark must not occur in the text (the code picks an unused one): otherwise that character is read back
as U+000D (test on literals) -/
example : xmlReadText (repoEscapeText 57344 [57344]) = some [13] := by decide

/-- with lxml's escaping (U+000D written `&#13;`) the round trip holds for every text -/
theorem xml_text_roundtrip_lxml (s : Str) : xmlReadText (lxEscapeText s) = some s := by
  unfold xmlReadText
  rw [lxEscapeText_flatMap, normEol_noop]
  · exact readChars_flatMap_full false lxTextChar s (fun c _ => charOK_lxText c)
  · apply no13_flatMap
    intro x _ c hc
    unfold lxTextChar at hc
    repeat (split at hc; · simp at hc; omega)
    simp at hc; omega

/-- attribute values round-trip for every string: `& < > "` become entity references and TAB, LF, CR
character references, which attribute-value normalization leaves alone -/
theorem xml_attr_roundtrip (s : Str) : xmlReadAttr (etEscapeAttr s) = some s := by
  unfold xmlReadAttr
  rw [etEscapeAttr_flatMap, normEol_noop]
  · exact readChars_flatMap_full true etAttrChar s (fun c _ => charOK_etAttr c)
  · apply no13_flatMap
    intro x _ c hc
    unfold etAttrChar at hc
    repeat (split at hc; · simp at hc; omega)
    simp at hc; omega

end EPV.C17

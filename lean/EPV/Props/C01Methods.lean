/-
C01 — the 2.0 / 3.0 / 3.1 parsers execute the same code as the 1.0 parser on the fragment.
`EPV/Gen/C01Methods.lean` is regenerated on every run from the live parser classes: for every token
symbol of the fragment and each of the four parser classes, which *function object* implements
`select`, `evaluate`, `select_with_focus`, `nud`, `led`, and the values of `lbp`, `rbp`, `label`,
`reverse_axis`.  The theorems here are over that complete table (`decide`) and over all expressions.

Not shared (different function objects in 2.0+): the explicit axis spelling `attribute::` (2.0 registers a
multi-role token `attribute(...)`/`attribute::`, same loop body) and `(`…`)` (2.0 adds the empty
sequence `()`); for expressions using them the agreement of the versions is *observed* by the
correspondence run (every run compares the four parsers), not derived from the table.
-/
import EPV.Gen.C01Methods
import EPV.Model.Paths
namespace EPV.C01
open EPV.XP

inductive Version where
  | v10 | v20 | v30 | v31
  deriving DecidableEq, Repr

def Version.idx : Version → Nat
  | .v10 => 0 | .v20 => 1 | .v30 => 2 | .v31 => 3

/-- token symbols whose five methods and four attributes are the same objects in all four parsers -/
def sharedSymbols : List String :=
  ["self", "child", "descendant", "descendant-or-self", "parent", "ancestor", "ancestor-or-self",
   "following-sibling", "preceding-sibling", "following", "preceding", "namespace",
   "@", "/", "//", "[", "(name)", ":", "*", ".", "..", "node", "text", "comment",
   "processing-instruction", "(integer)", "position", "last", "count", "not", "and", "or",
   "=", "!=", "<", "<=", ">", ">=", "|", "(decimal)", "-"]

def rowConst (row : List (List Nat)) : Bool := row.all fun ids => ids.length == 4 && ids.all (· == 0)

def lookup (tbl : List (String × List (List Nat))) (s : String) : Option (List (List Nat)) :=
  (tbl.find? (·.1 == s)).map (·.2)

def lookup' (tbl : List (String × List Nat)) (s : String) : Option (List Nat) :=
  (tbl.find? (·.1 == s)).map (·.2)

/-- **Table theorem** (re-checked against the live classes on every run): every shared symbol has a
row, and in it all four parser classes use the very same function objects for select / evaluate /
select_with_focus / nud / led and equal lbp / rbp / label / reverse_axis. -/
theorem methods_shared :
    sharedSymbols.all (fun s =>
      (match lookup EPV.Gen.C01.methods s with | some row => row.length == 5 && rowConst row | none => false) &&
      (match lookup EPV.Gen.C01.attrs s with | some row => row.length == 4 && rowConst row | none => false))
    = true := by decide

/-- The function objects (table numbering) that parser version `v` dispatches to for symbol `s`. -/
def dispatch (v : Version) (s : String) : List Nat :=
  match lookup EPV.Gen.C01.methods s, lookup EPV.Gen.C01.attrs s with
  | some mrow, some arow => (mrow ++ arow).map fun ids => ids.getD v.idx 99
  | _, _ => []

theorem dispatch_shared (v : Version) (s : String) (h : s ∈ sharedSymbols) :
    dispatch v s = dispatch .v10 s := by
  have hall := methods_shared
  rw [List.all_eq_true] at hall
  have hs := hall s h
  simp only [Bool.and_eq_true] at hs
  unfold dispatch
  cases hm : lookup EPV.Gen.C01.methods s with
  | none => simp [hm] at hs
  | some mrow =>
    cases ha : lookup EPV.Gen.C01.attrs s with
    | none => simp [ha] at hs
    | some arow =>
      rw [hm, ha] at hs
      simp only [Bool.and_eq_true, beq_iff_eq] at hs
      apply List.map_congr_left
      intro ids hids
      have hc : ids.length = 4 ∧ ids.all (· == 0) = true := by
        rw [List.mem_append] at hids
        rcases hids with h' | h'
        · have := hs.1.2; unfold rowConst at this; rw [List.all_eq_true] at this
          simpa using this ids h'
        · have := hs.2.2; unfold rowConst at this; rw [List.all_eq_true] at this
          simpa using this ids h'
      -- a length-4 list of zeros: every version reads 0
      obtain ⟨hl, hz⟩ := hc
      rw [List.all_eq_true] at hz
      match ids, hl with
      | [a, b, c, d], _ =>
        have ha := hz a (by simp); have hb := hz b (by simp)
        have hc := hz c (by simp); have hd := hz d (by simp)
        simp only [beq_iff_eq] at ha hb hc hd
        subst ha hb hc hd
        cases v <;> rfl

/-! ### the symbols of an expression -/

def axisSymbol : Axis → String
  | .self => "self" | .child => "child" | .descendant => "descendant"
  | .descendantOrSelf => "descendant-or-self" | .parent => "parent" | .ancestor => "ancestor"
  | .ancestorOrSelf => "ancestor-or-self" | .followingSibling => "following-sibling"
  | .precedingSibling => "preceding-sibling" | .following => "following" | .preceding => "preceding"
  | .attribute => "attribute" | .namespace => "namespace"

def testSymbols : Test → List String
  | .node => ["node"] | .text => ["text"] | .comment => ["comment"]
  | .pi none => ["processing-instruction"]
  | .pi (some _) => ["processing-instruction", "(name)"]
  | .any => ["*"]
  | .name u _ => if u == "" then ["(name)"] else [":", "(name)", "(name)"]
  | .nsAny _ => [":", "(name)", "*"]

def cmpSymbol : Cmp → String
  | .eq => "=" | .ne => "!=" | .lt => "<" | .le => "<=" | .gt => ">" | .ge => ">="

/-- the token symbols of the token tree of `e`, in pre-order -/
def symbolsOf : Expr → List String
  | .step ax t abbr =>
    (if abbr then (if ax == .attribute then ["@"] else []) else [axisSymbol ax]) ++ testSymbols t
  | .ctxItem => ["."]
  | .parentAbbr => [".."]
  | .pred e p => "[" :: (symbolsOf e ++ symbolsOf p)
  | .slash l r => "/" :: (symbolsOf l ++ symbolsOf r)
  | .dslash l r => "//" :: (symbolsOf l ++ symbolsOf r)
  | .rootOnly => ["/"]
  | .root e => "/" :: symbolsOf e
  | .droot e => "//" :: symbolsOf e
  | .paren e => "(" :: symbolsOf e
  | .union l r => "|" :: (symbolsOf l ++ symbolsOf r)
  | .count e => "count" :: symbolsOf e
  | .num _ => ["(integer)"]
  | .lit neg _ => (if neg then ["-"] else []) ++ ["(decimal)", "(integer)"]   -- `-1` / `1.5`
  | .position => ["position"]
  | .last => ["last"]
  | .cmp op l r => cmpSymbol op :: (symbolsOf l ++ symbolsOf r)
  | .and l r => "and" :: (symbolsOf l ++ symbolsOf r)
  | .or l r => "or" :: (symbolsOf l ++ symbolsOf r)
  | .not e => "not" :: symbolsOf e

/-- expressions without the two non-shared spellings (`attribute::` written out, parentheses) -/
def usesOnlyShared (e : Expr) : Bool := (symbolsOf e).all (sharedSymbols.contains ·)

/-- **versions_dispatch_same.**  For every expression of the fragment that avoids the explicit
`attribute::` spelling and parentheses, each of the 2.0 / 3.0 / 3.1 parser classes binds, at every token
of the token tree, exactly the function objects (select, evaluate, select_with_focus, nud, led) and
attribute values (lbp, rbp, label, reverse_axis) that the 1.0 parser binds.  Hence — the token
trees being equal (compared by the harness on every generated expression) and Python being
deterministic — the four versions compute the same node list; combined with `path_eq_spec`
the model's `eval` describes all four. -/
theorem versions_dispatch_same (v : Version) (e : Expr) (h : usesOnlyShared e = true) :
    (symbolsOf e).map (dispatch v) = (symbolsOf e).map (dispatch .v10) := by
  apply List.map_congr_left
  intro s hs
  unfold usesOnlyShared at h
  rw [List.all_eq_true] at h
  have := h s hs
  exact dispatch_shared v s (by simpa using this)

/-- the two non-shared symbols really differ on the current tree (so the exception is not stale) -/
theorem attribute_and_paren_not_shared :
    (lookup EPV.Gen.C01.methods "attribute").map rowConst = some false ∧
    (lookup EPV.Gen.C01.methods "(").map rowConst = some false := by decide

/-- **attribute_axis_and_paren_equivalent.**  The two symbols with different function objects in 2.0+
run the same code on the fragment (facts regenerated from the live sources by AST comparison):
the `axis` branch of the 2.0 multi-role `attribute` token is statement-for-statement the loop of the 1.0
`attribute::` method; its `select_with_focus` is the base one (forward numbering) and the 1.0 axis is a
forward axis (forward numbering too); `(`…`)` passes its non-empty operand through in 1.0 and 2.0; the 3.0/3.1
`attribute` token is the 2.0 object; the 3.0/3.1 `(` registers only `evaluate` (dynamic function calls), its
`select` is the generic `XPathToken.select` over `evaluate` — that this yields the operand's node sequence
is the part that stays observed by the correspondence run.  (The one difference left — the base `select_with_focus` resets `context.axis`
before selecting — is immaterial when evaluation starts with `axis=None`: `swf_entry_axis_none`.) -/
theorem attribute_axis_and_paren_equivalent :
    EPV.Gen.C01.facts.map (·.1) =
      ["attribute20-axis-branch-is-the-1.0-loop", "attribute-select-is-the-same-in-2.0-3.0-3.1",
       "attribute20-select_with_focus-is-the-base-forward-one", "attribute10-is-a-forward-axis",
       "paren10-select-passes-through", "paren20-select-passes-through-when-non-empty",
       "paren30-select-is-the-generic-select-over-evaluate", "paren31-is-the-3.0-object",
       "name-prefixed-name-and-wildcard-evaluate-are-xlist-of-select", "context-item-evaluate-returns-the-item",
       "parent-shortcut-evaluate-returns-first-parent-or-empty", "paren10-evaluate-is-operand-evaluate",
       "paren20-evaluate-is-operand-evaluate", "paren30-evaluate-unwraps-a-one-item-list-of-the-operand-evaluate",
       "generic-select-expands-evaluate", "generic-evaluate-is-xlist-of-select"] ∧
    EPV.Gen.C01.facts.all (·.2) = true := by decide

/-- tokens that define both `evaluate` and `select` themselves (modelled case by case in
`EPV/Model/AxesEvaluate.lean`; their sources are pinned by the facts above) -/
def bothCustom : List String := ["(", "(name)", ":", "*", ".", ".."]

/-- **evaluate_select_table.**  For every token symbol of the fragment and every parser class, `evaluate` is
the generic `xlist(self.select(context))` or `select` is the generic expansion of `evaluate` — except for the
six tokens of `bothCustom`; and the 3.0 / 3.1 `(` (but not the 1.0 / 2.0 one) uses the generic `select`.
This is what `EPV.XP.evaluate` assumes (`toPy (eval …)` for all other tokens). -/
theorem evaluate_select_table :
    EPV.Gen.C01.evalSelect.all (fun row =>
      row.2.length == 4 && (bothCustom.contains row.1 || row.2.all (· != 0))) = true ∧
    lookup' EPV.Gen.C01.evalSelect "(" = some [0, 0, 1, 1] ∧
    (bothCustom.all fun s => (lookup' EPV.Gen.C01.evalSelect s).isSome) = true := by decide

/-- the model numbers `attribute::t[…]` forward, as both token classes do -/
theorem attribute_swf_forward (t : Test) (ab : Bool) : swfRev (.step .attribute t ab) = false := rfl

/-- test: `//x[position() = last()]/@k | //y/..` uses shared symbols only -/
example : usesOnlyShared (.union
    (.slash (.droot (.pred (.step .child (.name "" "x") true) (.cmp .eq .position .last)))
      (.step .attribute (.name "" "k") true))
    (.slash (.droot (.step .child (.name "" "y") true)) .parentAbbr)) = true := by decide

end EPV.C01

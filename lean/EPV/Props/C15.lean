/-
C15 — property theorems for XPath 3.1 maps and arrays (model: EPV/Model/MapArray.lean, spec:
EPV/Spec/FOMaps.lean; helper lemmas in EPV/Lemmas/MapArray*.lean).

Reading guide
* `Key`                   atomic key values; `sameKey` = F&O `op:same-key`;
                          `dictEq` / `scanEq` = the relations the Python code really uses
                          (dict slot: hash and `==`; `==` scan with the NaN special cases)
* `Entries α`             insertion-ordered list of (key, value); `WF es` = no two entries in
                          the same dict slot (invariant of `XPathMap._map`)
* `mapPut`, `arrPut`, …   transcriptions of the Python functions;  `Spec.put`, `Spec.aput`, … F&O
* `St`, `step`, `run`     heap machine: maps and arrays are objects in `St.store`, every operation
                          binds its result to a new variable in `St.env`;
                          `pyDialect false` = the code after the fix of F15c (copying),
                          `pyDialect true`  = the pinned tree (array:put/append/insert-before alias)
-/
import EPV.Lemmas.MapArrayKeys
import EPV.Lemmas.MapArrayMaps
import EPV.Lemmas.MapArrayArrays
import EPV.Lemmas.MapArrayHeap
import EPV.Lemmas.MapArrayLaws
import EPV.Lemmas.MapArrayMergeRefine
import EPV.Lemmas.MapArrayRefine
import EPV.Lemmas.MapArrayObserve
import EPV.Lemmas.MapArrayClosed
import EPV.Lemmas.MapArrayHof
import EPV.Lemmas.MapArrayLookup
import EPV.Lemmas.MapArrayDeepEq
import EPV.Lemmas.MapArraySort
namespace EPV.C15
open EPV.MapArray

/-! ## key identity -/

/-- `op:same-key` is an equivalence relation on the whole key domain (integer, decimal, double
with NaN/±INF/−0, string, anyURI, boolean, date with or without timezone). -/
theorem same_key_equiv :
    (∀ a : Key, Spec.sameKey a a = true) ∧
    (∀ a b : Key, Spec.sameKey a b = Spec.sameKey b a) ∧
    (∀ a b c : Key, Spec.sameKey a b = true → Spec.sameKey b c = true → Spec.sameKey a c = true) :=
  ⟨sameKey_refl, sameKey_symm, fun _ _ _ => sameKey_trans⟩

/-- The two key relations of the code are equivalence relations too, and the dict relation
refines the `==` scan relation. -/
theorem code_key_relations_equiv :
    (∀ a : Key, dictEq a a = true ∧ scanEq a a = true) ∧
    (∀ a b : Key, dictEq a b = dictEq b a ∧ scanEq a b = scanEq b a) ∧
    (∀ a b c : Key, (dictEq a b = true → dictEq b c = true → dictEq a c = true) ∧
                    (scanEq a b = true → scanEq b c = true → scanEq a c = true)) ∧
    (∀ a b : Key, dictEq a b = true → scanEq a b = true) :=
  ⟨fun a => ⟨dictEq_refl a, scanEq_refl a⟩, fun a b => ⟨dictEq_symm a b, scanEq_symm a b⟩,
   fun _ _ _ => ⟨dictEq_trans, scanEq_trans⟩, fun _ _ => scanEq_of_dictEq⟩

/-- **key identity by the same-key relation** (full strength since the fixes of fix-c15-3): for every
pair of keys — integer, decimal, double incl. NaN/±INF/−0, string, anyURI, boolean, date with or
without timezone, QName, duration, hexBinary, base64Binary — the dict of the code (constructor,
map:get, `?`, map:merge), its key scans (map:contains/put/remove/find) and `compare.same_key`
identify the two keys exactly when `op:same-key` does. -/
theorem key_identity (a b : Key) :
    dictEq a b = Spec.sameKey a b ∧ scanEq a b = Spec.sameKey a b ∧ sameKeyPy a b = Spec.sameKey a b :=
  ⟨(key_identity_all a b).1, (key_identity_all a b).2, by rw [sameKeyPy_eq_scanEq, (key_identity_all a b).2]⟩

/-- numbers are identified across types by exact value, strings with anyURIs, NaN with NaN, −0
with 0 — by the code and by the spec alike (test on literals, both relations evaluated). -/
example : dictEq (.int 1) (.dec 1) = true ∧ dictEq (.int 1) (.dbl 1 false) = true ∧
    dictEq (.str [97]) (.uri [97]) = true ∧ dictEq .dnan .dnan = true ∧
    dictEq (.dbl 0 true) (.int 0) = true ∧ dictEq (.dec (mkRat 1 10)) (.dbl (mkRat 3602879701896397 36028797018963968) false) = false ∧
    Spec.sameKey (.int 1) (.dec 1) = true ∧ Spec.sameKey (.str [97]) (.uri [97]) = true ∧
    Spec.sameKey .dnan .dnan = true ∧ Spec.sameKey (.dbl 0 true) (.int 0) = true ∧
    keyClash (.int 1) (.dbl 1 false) = false := by decide

/-- booleans and numbers (fixed finding F15d): `true()` and `1` are different keys for the dict,
for the scans and for F&O alike; the constructor accepts `map{true():…, 1:…}` (test on literals) -/
example :
    dictEq (.bool true) (.int 1) = false ∧ scanEq (.bool true) (.dbl 1 false) = false ∧
    Spec.sameKey (.bool true) (.int 1) = false ∧ keyClash (.bool true) (.int 1) = false ∧
    mapCtor [(.bool true, [1]), (.int 1, [2])] = (.ok [(.bool true, [1]), (.int 1, [2])] : Except Err (Entries (List Nat))) := by
  decide

/-- timezones and binaries (fixed findings F15f, F15k; tests on literals): a date without timezone
is not the key of the same date with Z, two dates with timezones at the same instant in different
lexical years are one key, hexBinary and base64Binary with equal octets are different keys -/
example :
    dictEq (.date 2000 15778080 none) (.date 2000 15778080 (some 0)) = false ∧
    scanEq (.date 2000 15778080 none) (.date 2000 15778080 (some 0)) = false ∧
    mapCtor [(.date 2000 15778080 none, [1]), (.date 2000 15778080 (some 0), [2])]
      = (.ok [(.date 2000 15778080 none, [1]), (.date 2000 15778080 (some 0), [2])] :
          Except Err (Entries (List Nat))) ∧
    dictEq (.date 2000 16304400 (some (-720))) (.date 2001 16304400 (some 720)) = true ∧
    scanEq (.opq 3 [0, 255]) (.opq 4 [0, 255]) = false ∧ dictEq (.opq 3 []) (.opq 4 []) = false ∧
    mapContains ([(.opq 3 [0, 255], [1])] : Entries (List Nat)) (.opq 4 [0, 255]) = false := by
  decide

/-! ## arrays: every function equals its list definition -/

/-- array:get returns the member at a position in 1..size and raises FOAY0001 exactly outside. -/
theorem array_get_bounds (ms : List α) (p : Int) :
    (1 ≤ p ∧ p ≤ (ms.length : Int) → ∃ x, arrGet ms p = .ok x ∧ ms[(p - 1).toNat]? = some x) ∧
    (¬ (1 ≤ p ∧ p ≤ (ms.length : Int)) → arrGet ms p = .error .FOAY0001) :=
  arrGet_bounds ms p

/-- array:get = F&O §17.3.2 -/
theorem array_get_eq_list (ms : List α) (p : Int) : arrGet ms p = Spec.aget ms p := arrGet_eq ms p

/-- array:put (item assignment on a copy) = `take (p-1) ++ [v] ++ drop p`, FOAY0001 outside 1..size -/
theorem array_put_eq_list (ms : List α) (p : Int) (v : α) : arrPut ms p v = Spec.aput ms p v :=
  arrPut_eq ms p v

/-- array:insert-before (`list.insert`) = `take (p-1) ++ [v] ++ drop (p-1)`, FOAY0001 outside 1..size+1 -/
theorem array_insert_before_eq_list (ms : List α) (p : Int) (v : α) :
    arrInsertBefore ms p v = Spec.ainsertBefore ms p v := arrInsertBefore_eq ms p v

/-- array:append = `ms ++ [v]` -/
theorem array_append_eq_list (ms : List α) (v : α) : arrAppend ms v = Spec.aappend ms v := rfl

/-- array:remove (enumerate-and-filter) = the members whose position is not listed; FOAY0001 if
any listed position is outside 1..size -/
theorem array_remove_eq_list (ms : List α) (ps : List Int) : arrRemove ms ps = Spec.aremove ms ps :=
  arrRemove_eq ms ps

/-- array:subarray (slices) = `take len (drop (start-1))` with the F&O error conditions -/
theorem array_subarray_eq_list (ms : List α) (start : Int) (len : Option Int) :
    arrSubarray ms start len = Spec.asubarray ms start len := arrSubarray_eq ms start len

/-- array:head / array:tail / array:reverse -/
theorem array_head_tail_reverse_eq_list (ms : List α) :
    arrHead ms = Spec.ahead ms ∧ arrTail ms = Spec.atail ms ∧ arrReverse ms = Spec.areverse ms :=
  ⟨arrHead_eq ms, arrTail_eq ms, rfl⟩

/-- array:filter (Python `filter(...)` with the boolean check) = `List.filter`; XPTY0004 as soon as
the function returns a non-boolean for some member -/
theorem array_filter_eq_list {α : Type} (p : α → Option Bool) (q : α → Bool) (l : List α) :
    ((∀ x ∈ l, p x = some (q x)) → filterLoop p l = .ok (l.filter q)) ∧
    ((∃ x ∈ l, p x = none) → filterLoop p l = .error .XPTY0004) :=
  ⟨filterLoop_eq_filter p q l, filterLoop_error p l⟩

/-- array:fold-left / array:fold-right / array:for-each-pair (the Python loops) are `List.foldl`,
`List.foldr` and `List.zipWith`, for every function, every zero, all arrays; array:for-each is
`List.map` by definition of the model (`evalOp`, case `aForEach`). -/
theorem array_folds_eq_list {α β : Type} (f : β → α → β) (g : α → β → β) (h : α → α → β) (z : β) (l l' : List α) :
    foldLLoop f z l = l.foldl f z ∧ foldRLoop g z l = l.foldr g z ∧ pairLoop h l l' = List.zipWith h l l' :=
  ⟨foldLLoop_eq_foldl f z l, foldRLoop_eq_foldr g z l, pairLoop_eq_zipWith h l l'⟩

/-- **array_sort_sorted_stable**: on the modelled fragment (every member a sequence of numbers, or
every member a sequence of strings) array:sort returns a permutation of the members that is sorted
by the lexicographic comparison of the member keys and *stable*: two members that were in order
already keep their relative position.  The comparator is a total preorder (`lexLe_total`,
`lexLe_trans`); mixing numbers and strings is XPTY0004. -/
theorem array_sort_sorted_stable {α : Type} (ms : List (α × List SKey)) (r : List α)
    (h : arrSortKeyed ms = .ok r) :
    ∃ sorted : List (α × List SKey), r = sorted.map (·.1) ∧ sorted.Perm ms ∧
      sorted.Pairwise (fun a b => lexLe a.2 b.2 = true) ∧
      (∀ a b, lexLe a.2 b.2 = true → [a, b].Sublist ms → [a, b].Sublist sorted) :=
  arrSortKeyed_spec ms r h

/-- tests on literals of the comparator: 1.5 ≤ 2e0, −0.0 and 0 are tied, () before (0,5) before 1
before (1,2), 'a' before 'ab' before 'b'; the sort itself (a well-founded merge sort) is exercised
through the driver -/
example :
    lexLe [.num (mkRat 3 2)] [.num 2] = true ∧ lexLe [.num 0] [.num 0] = true ∧
    lexLe [] [.num 0, .num 5] = true ∧ lexLe [.num 0, .num 5] [.num 1] = true ∧
    lexLe [.num 1] [.num 1, .num 2] = true ∧ lexLe [.num 1, .num 2] [.num 1] = false ∧
    lexLe [.str [97]] [.str [97, 98]] = true ∧ lexLe [.str [97, 98]] [.str [98]] = true ∧
    lexLe [.str [98]] [.str [97, 98]] = false := by decide

/-- test on literals: the spec functions do what one expects -/
example : Spec.aput [10, 20, 30] 2 99 = .ok [10, 99, 30] ∧ Spec.aput [10, 20, 30] 4 99 = .error .FOAY0001 ∧
    Spec.ainsertBefore [10, 20, 30] 4 99 = .ok [10, 20, 30, 99] ∧
    Spec.aremove [10, 20, 30] [1, 3, 1] = .ok [20] ∧ Spec.asubarray [10, 20, 30] 2 (some 2) = .ok [20, 30] ∧
    Spec.asubarray [10, 20, 30] 4 none = .ok [] ∧ Spec.asubarray [10, 20, 30] 5 (some (-1)) = .error .FOAY0002 := by
  decide

/-! ## maps -/

/-- The constructor accepts exactly the duplicate-free entry lists (under the code's dict relation),
returns them unchanged, and raises XQDY0137 otherwise. -/
theorem map_constructor_duplicates (l : Entries α) :
    (WF l → mapCtor l = .ok l) ∧ (¬ WF l → mapCtor l = .error .XQDY0137) :=
  ⟨mapCtor_of_WF, mapCtor_of_not_WF⟩

/-- map:put never fails on a well-formed map; the result is well-formed and is "all entries whose
key is not `==` the new key, then the new entry". -/
theorem put_total (es : Entries α) (h : WF es) (k : Key) (v : α) :
    mapPut es k v = .ok (putList es k v) ∧ WF (putList es k v) :=
  ⟨mapPut_of_WF h k v, mapPut_WF h (mapPut_of_WF h k v)⟩

/-- **get_put_same**: `map:get(map:put($m, $k, $v), $k) = $v` — every well-formed map, every key
(NaN, −0, booleans, dates included), every value. -/
theorem get_put_same (es : Entries (List β)) (h : WF es) (k : Key) (v : List β) :
    ∃ es', mapPut es k v = .ok es' ∧ mapGet es' k = v :=
  ⟨_, mapPut_of_WF h k v, mapGet_putList_same es k v⟩

/-- **get_put_other**: a key that is not `==` the new key is looked up as before. -/
theorem get_put_other (es : Entries (List β)) (h : WF es) (k k' : Key) (v : List β)
    (hk : scanEq k k' = false) :
    ∃ es', mapPut es k v = .ok es' ∧ mapGet es' k' = mapGet es k' :=
  ⟨_, mapPut_of_WF h k v, mapGet_putList_other es k k' v hk⟩

/-- map:contains after map:put -/
theorem contains_put (es : Entries α) (h : WF es) (k k' : Key) (v : α) :
    ∃ es', mapPut es k v = .ok es' ∧ mapContains es' k' = (mapContains es k' || scanEq k k') :=
  ⟨_, mapPut_of_WF h k v, mapContains_putList es k k' v⟩

/-- **size_put**: map:put adds one entry if the key was absent and keeps the size otherwise —
for maps no two of whose keys are `==` (which is `WF` as soon as the keys do not clash; with a
date with and one without timezone, or two same-instant dates of different years, in the same
map the code removes both, F15f). -/
theorem size_put (es : Entries α) (h : WF es) (hs : ScanWF es) (k : Key) (v : α) :
    ∃ es', mapPut es k v = .ok es' ∧
      es'.length = if mapContains es k then es.length else es.length + 1 :=
  ⟨_, mapPut_of_WF h k v, length_putList es hs k v⟩

/-- **remove_contains**: after `map:remove($m, $keys)` a key is present iff it was present and is
not `==` any of `$keys`. -/
theorem remove_contains (es : Entries α) (h : WF es) (ks : List Key) (k : Key) :
    ∃ es', mapRemove es ks = .ok es' ∧ WF es' ∧
      mapContains es' k = (mapContains es k && !ks.any fun x => scanEq k x) :=
  ⟨_, mapRemove_of_WF h ks, WF_filter _ h, mapContains_remove es ks k⟩

/-- The map functions of the code are the F&O functions, for every well-formed map and all keys:
constructor, put, remove, get, contains. -/
theorem map_functions_refine_spec (es : Entries (List β)) (hes : WF es) (k : Key) (ks : List Key) (v : List β) :
    mapPut es k v = .ok (Spec.put es k v) ∧
    mapRemove es ks = .ok (Spec.remove es ks) ∧
    mapGet es k = Spec.get es k ∧
    mapContains es k = Spec.contains es k ∧
    mapCtor es = Spec.construct es := by
  refine ⟨?_, ?_, ?_, ?_, ?_⟩
  · rw [mapPut_of_WF hes, ← putList_eq_spec es k v fun e _ => (key_identity_all e.1 k).2]; rfl
  · rw [mapRemove_of_WF hes, removeList_eq_spec es ks fun e _ x _ => (key_identity_all e.1 x).2]
  · exact mapGet_eq_spec es k fun e _ => (key_identity_all e.1 k).1
  · exact mapContains_eq_spec es k fun e _ => (key_identity_all e.1 k).2
  · exact mapCtor_eq_spec es fun a _ b _ => (key_identity_all a.1 b.1).1

/-- test on a non-trivial map: keys 1, 'a', NaN; put with 1.0 -/
example :
    WF ([(.int 1, [10]), (.str [97], [20]), (.dnan, [30])] : Entries (List Nat)) ∧
    mapPut ([(.int 1, [10]), (.str [97], [20]), (.dnan, [30])] : Entries (List Nat)) (.dec 1) [99] =
      .ok [(.str [97], [20]), (.dnan, [30]), (.dec 1, [99])] := by decide

/-! ### map:merge -/

/-- map:merge of the code (dict fast path, `same_key` scan, final constructor) = F&O map:merge, all
five policies, FOJS0003 included, for all operand maps. -/
theorem merge_refines_spec (maps : List (Entries (List β))) (pol : Policy) :
    mapMerge maps pol = Spec.merge maps pol :=
  mapMerge_eq_spec maps pol (Agree_of_noClash (noClash_true _))

/-- **merge_policy_*** (all policies at once).  If the merge succeeds, then for every key `k` the
pair (is `k` present?, value of `k`) of the result is the fold of `stepVal` over all entries of all
operand maps in order: an entry with the same key as `k` sets the value (use-last), appends its
value (combine), or sets it only if `k` was absent so far (use-first, use-any). -/
theorem merge_policy_fold (maps : List (Entries (List β))) (pol : Policy) (m : Entries (List β))
    (h : Spec.merge maps pol = .ok m) (k : Key) :
    (Spec.contains m k, Spec.get m k) = foldVal pol k (false, []) maps.flatten := by
  have := mergeLoop_spec pol [] maps.flatten m h k
  simpa [Spec.contains, Spec.get] using this

/-- **merge_policy_use_first / use_any**: never fails; a key is looked up in the result as in the
plain concatenation of the operand maps (first occurrence wins). -/
theorem merge_policy_use_first (maps : List (Entries (List β))) (pol : Policy)
    (hp : pol = .useFirst ∨ pol = .useAny) :
    ∃ m, Spec.merge maps pol = .ok m ∧ (∀ k, Spec.get m k = Spec.get maps.flatten k) ∧
      (∀ k, Spec.contains m k = Spec.contains maps.flatten k) := by
  simpa [Spec.merge] using mergeLoop_first pol hp [] maps.flatten

/-- **merge_policy_reject**: the concatenation of the operand maps when no key occurs twice,
FOJS0003 otherwise. -/
theorem merge_policy_reject (maps : List (Entries (List β))) :
    Spec.merge maps .reject =
      if ((maps.flatten).map (·.1)).Pairwise (fun a b => Spec.sameKey a b = false)
      then .ok maps.flatten else .error .FOJS0003 := by
  have := mergeLoop_reject [] maps.flatten
  simpa [Spec.merge, Spec.contains] using this

/-- only `reject` can make map:merge fail -/
theorem merge_total (maps : List (Entries (List β))) (pol : Policy) (hp : pol ≠ .reject) :
    ∃ m, Spec.merge maps pol = .ok m := mergeLoop_total pol hp [] maps.flatten

/-- tests on literals: use-last takes the last value, combine concatenates in order, 1 = 1.0 -/
example :
    Spec.merge [[(.int 1, [10]), (.str [97], [20])], [(.dec 1, [11, 12]), (.uri [97], [])]] .useLast
      = (.ok [(.dec 1, [11, 12]), (.uri [97], [])] : Except Err (Entries (List Nat))) ∧
    Spec.merge [[(.int 1, [10]), (.str [97], [20])], [(.dec 1, [11, 12]), (.uri [97], [])]] .combine
      = (.ok [(.int 1, [10, 11, 12]), (.str [97], [20])] : Except Err (Entries (List Nat))) ∧
    Spec.merge [[(.int 1, [10]), (.str [97], [20])], [(.dec 1, [11, 12]), (.uri [97], [])]] .reject
      = (.error .FOJS0003 : Except Err (Entries (List Nat))) ∧
    mapMerge [[(.int 1, [10]), (.str [97], [20])], [(.dec 1, [11, 12]), (.uri [97], [])]] .combine
      = (.ok [(.int 1, [10, 11, 12]), (.str [97], [20])] : Except Err (Entries (List Nat))) ∧
    mapMerge [[(.int 1, [10]), (.str [97], [20])], [(.dec 1, [11, 12]), (.uri [97], [])]] .useLast
      = (.ok [(.dec 1, [11, 12]), (.uri [97], [])] : Except Err (Entries (List Nat))) := by decide

/-! ## immutability: no operation changes a value that already exists -/

/-- **ops_persistent.**  For the code after the fix of F15c (`pyDialect false`) — and for any
interpreter built from non-aliasing functions — running *any* sequence of operations from *any*
state leaves every existing object and every existing variable exactly as it was: the old store
is a prefix of the new store, the old environment a prefix of the new environment. -/
theorem ops_persistent (d : Dialect) (hd : d.alias = false) (st : St) (ops : List Op) :
    st.store <+: (run d st ops).store ∧ st.env <+: (run d st ops).env :=
  run_prefix d hd st ops

/-- …so looking at an old address or an old variable after the run gives what it gave before. -/
theorem ops_persistent_observe (d : Dialect) (hd : d.alias = false) (st : St) (ops : List Op) :
    (∀ a, a < st.store.length → (run d st ops).store[a]? = st.store[a]?) ∧
    (∀ i, i < st.env.length → (run d st ops).env[i]? = st.env[i]?) :=
  ⟨fun _ ha => prefix_getElem? (run_prefix d hd st ops).1 ha,
   fun _ hi => prefix_getElem? (run_prefix d hd st ops).2 hi⟩

/-- **Deep version**: what an observer sees of an old value — its complete unfolding through the
store (`obsSeq`: every key, every entry, every member, to any depth) — is the same after the run,
for every old value whose addresses lie in the old store, provided the old store is `Closed`
(its objects mention only addresses inside it — true of every store the machine builds, see
`run_preserves_closed` and `ops_persistent_deep_from_empty`). -/
theorem ops_persistent_deep (d : Dialect) (hd : d.alias = false) (st : St) (hc : Closed st.store)
    (ops : List Op) (fuel : Nat) (v : Seq) (hv : ∀ r ∈ seqRefs v, r < st.store.length) :
    obsSeq (run d st ops).store fuel v = obsSeq st.store fuel v :=
  (obs_stable (run_prefix d hd st ops).1 hc fuel).2 v hv

/-- **run_preserves_closed.**  Every operation of the machine — with the Python transcriptions or
with the F&O definitions — keeps the state closed: objects and variables mention only addresses
that exist. -/
theorem run_preserves_closed (alias : Bool) (halias : alias = false) (st : St) (h : StOK st) (ops : List Op) :
    StOK (run (pyDialect alias) st ops) ∧ StOK (run Spec.specDialect st ops) :=
  ⟨run_StOK (Pres_py alias) (by simp [pyDialect, halias]) h ops, run_StOK Pres_spec rfl h ops⟩

/-- **Deep immutability without hypotheses.**  Start from the empty state, run any operations
`ops₁`, look at any variable `$i` bound so far, then run any further operations `ops₂`: the
complete unfolding of `$i` through the store (every key, entry and member, to any depth) is what
it was. -/
theorem ops_persistent_deep_from_empty (ops₁ ops₂ : List Op) (fuel i : Nat) (v : Seq)
    (hv : (run (pyDialect false) ⟨[], []⟩ ops₁).env[i]? = some v) :
    obsSeq (run (pyDialect false) ⟨[], []⟩ (ops₁ ++ ops₂)).store fuel v =
      obsSeq (run (pyDialect false) ⟨[], []⟩ ops₁).store fuel v := by
  have hst := run_StOK (Pres_py false) rfl StOK_empty ops₁
  have hrun : run (pyDialect false) ⟨[], []⟩ (ops₁ ++ ops₂) =
      run (pyDialect false) (run (pyDialect false) ⟨[], []⟩ ops₁) ops₂ := by
    simp [run, List.foldl_append]
  rw [hrun]
  exact ops_persistent_deep _ rfl _ (Closed_of_StoreOK hst.1) ops₂ fuel v
    (seqRefs_of_SeqOK (hst.2 v (List.mem_of_getElem? hv)))

/-- `Closed` holds on a non-trivial store (an array nested in an array) -/
example : Closed [Obj.arr [[.atom (.int 1)]], Obj.arr [[.ref 0], [.atom (.int 2)]]] := by
  intro a o h r hr
  match a, h with
  | 0, h => simp at h; subst h; simp [objRefs, seqRefs] at hr
  | 1, h => simp at h; subst h; simp [objRefs, seqRefs] at hr; subst hr; decide
  | n + 2, h => simp at h

/-- the hypotheses are satisfiable on a non-trivial state: `$0 := (1)`, `$1 := [$0, $0]`, then
`array:put($1, 1, $0)`, `array:append($1, $0)`, `map{1: $1}` — object 0 is still `[(1), (1)]`. -/
example :
    let ops := [Op.seq [.lit (.int 1)], .aSquare [0, 0], .seq [.lit (.int 9)], .aPut 1 1 2, .aAppend 1 2,
                .mCtor [(.int 1, 1)]]
    (run (pyDialect false) ⟨[], []⟩ ops).store[0]? = some (.arr [[.atom (.int 1)], [.atom (.int 1)]]) ∧
    (run (pyDialect false) ⟨[], []⟩ ops).store.length = 4 := by decide

/-- F15c (kernel-checked witness, pinned tree = `pyDialect true`): after
`let $a := [1, 1] return array:put($a, 1, 9)` the operand `$a` itself has become `[9, 1]`;
`ops_persistent` is false for the aliasing functions. -/
theorem ops_persistent_fails_with_aliasing :
    let ops := [Op.seq [.lit (.int 1)], .aSquare [0, 0], .seq [.lit (.int 9)], .aPut 1 1 2]
    (run (pyDialect true) ⟨[], []⟩ ops).store[0]? = some (.arr [[.atom (.int 9)], [.atom (.int 1)]]) ∧
    (run (pyDialect false) ⟨[], []⟩ ops).store[0]? = some (.arr [[.atom (.int 1)], [.atom (.int 1)]]) := by
  decide

/-! ## the code computes what F&O prescribes, over any operation sequence -/

/-- **The code computes what F&O prescribes, over any operation sequence** (full strength: no
hypothesis on keys, no operation excluded).  From every state whose map objects are well-formed, for
every sequence of operations — constructors, map:*, array:*, `?`, dynamic calls, higher-order
functions, deep-equal — the interpreter built from the Python transcriptions and the one built from
the F&O definitions reach the same state: same store, same values, same errors. -/
theorem run_refines_spec (st : St) (hst : MapsWF st.store) (ops : List Op) :
    run (pyDialect false) st ops = run Spec.specDialect st ops := by
  -- K = all keys of the store and of the operations
  let K := (st.store.flatMap fun o => match o with | .map es => keysOf es | .arr _ => []) ++ ops.flatMap opKeys
  refine run_refine (K := K) (Agree_of_noClash (noClash_true K)) st ?_ ops ?_
  · intro a es ha
    refine ⟨hst a es ha, fun e he => List.mem_append_left _ ?_⟩
    exact List.mem_flatMap.2 ⟨Obj.map es, List.mem_of_getElem? ha, mem_keysOf he⟩
  · intro op hop
    exact fun k hk => List.mem_append_right _ (List.mem_flatMap.2 ⟨op, hop, hk⟩)

/-- …in particular from the empty state. -/
theorem run_refines_spec_from_empty (ops : List Op) :
    run (pyDialect false) ⟨[], []⟩ ops = run Spec.specDialect ⟨[], []⟩ ops :=
  run_refines_spec ⟨[], []⟩ (fun a es h => by simp at h) ops

/-- test on a non-trivial history (keys 1, 1.0, 'a', NaN, true(); put, merge, lookup) -/
example :
    let ops := [Op.seq [.lit (.int 7)], .mCtor [(.int 1, 0), (.str [97], 0), (.dnan, 0)],
      .mPut 1 (.dec 1) 0, .seq [.var 1, .var 2], .mMerge 3 (some .combine), .lookup 4 (some [.dnan, .int 1])]
    (run (pyDialect false) ⟨[], []⟩ ops).env.getLast? =
      some [.atom (.int 7), .atom (.int 7), .atom (.int 7), .atom (.int 7)] := by decide

/-! ## lookups over sequences, call-site reuse -/

/-- **lookup_seq_eq_spec**: `$v?(K)` with a left operand of any length and any list of keys is, for
the code and for the spec interpreter alike, XPath 3.1 §3.11.3.2 "for each item of E, for each key
of K": the concatenation in that order of the single lookups `$e($k)`; the first failing pair, or
the first item that is neither a map nor an array (XPTY0004), decides the error.  (A key iterator
consumed by the first item, or a loop over keys outside the loop over items, would violate it.) -/
theorem lookup_seq_eq_spec (d : Dialect) (st : St) (v : Nat) (K : List Key) :
    evalOp d st (.lookup v (some K)) =
      (Spec.lookupSeq d st.store (st.var v) K).map fun r => (st.store, r) :=
  lookup_seq_eq_spec' d st v K

/-- test on literals: two maps and an array, keys (1, 'a') -/
example :
    let s : Store := [.map [(.int 1, [.atom (.str [120])]), (.str [97], [.atom (.int 7)])],
                      .map [(.dec 1, [.atom (.str [121])])], .arr [[.atom (.int 5)], [.atom (.int 6)]]]
    Spec.lookupSeq (pyDialect false) s [.ref 0, .ref 1] [.int 1, .str [97]]
      = .ok [.atom (.str [120]), .atom (.int 7), .atom (.str [121])] ∧
    Spec.lookupSeq (pyDialect false) s [.ref 2, .ref 0] [.int 2, .int 1]
      = .ok [.atom (.int 6), .atom (.int 5), .atom (.str [120])] ∧
    Spec.lookupSeq (pyDialect false) s [.ref 0, .ref 2] [.int 3] = .error .FOAY0001 ∧
    Spec.lookupSeq (pyDialect false) s [.ref 0, .atom (.int 1)] [] = .error .XPTY0004 := by decide

/-- **call_eq_get_eq_lookup**: a map or array called as a function with a *computed* key.  For every
dialect, every function value `F` and every argument value `A`:
* if `A` is one atomic item `k` and `F` one item, `$F(A)` is the single lookup `$F?(k)` — for a map
  `map:get($F, k)`, for an array `array:get` with the integer-position and FOAY0001 rules;
* if `A` is empty, has two or more items, or is not atomic, the call is XPTY0004 — a one-item
  *sequence* is the same as the item (there is no other representation in the model; the seeded
  defect "unwrapping of a one-item sequence lost" is a representation bug the correspondence has to
  catch with computed arguments). -/
theorem call_eq_get_eq_lookup (d : Dialect) (s : Store) (it : Item) (k : Key) :
    callFn d s [it] [.atom k] = Spec.lookup1 d s it k ∧
    (∀ a es, it = .ref a → s[a]? = some (Obj.map es) → callFn d s [it] [.atom k] = .ok (d.mapGet es k)) ∧
    (∀ a ms, it = .ref a → s[a]? = some (Obj.arr ms) →
      callFn d s [it] [.atom k] = (d.arrIndex k >>= fun p => d.arrGet ms p)) := by
  refine ⟨?_, ?_, ?_⟩
  · cases it with
    | atom x => rfl
    | ref a => simp only [callFn, Spec.lookup1]; cases s[a]? with
      | none => rfl
      | some o => cases o <;> rfl
  · intro a es hit hs; subst hit; simp only [callFn, hs]
  · intro a ms hit hs; subst hit; simp only [callFn, hs]

/-- the dynamic-call error cases: no argument item, several, or a non-atomic one; and a function
value that is not exactly one map or array -/
theorem call_errors (d : Dialect) (s : Store) (f : Seq) :
    callFn d s f [] = .error .XPTY0004 ∧
    (∀ x y rest, callFn d s f (x :: y :: rest) = .error .XPTY0004) ∧
    (∀ a, callFn d s f [.ref a] = .error .XPTY0004) ∧
    (∀ k, callFn d s [] [.atom k] = .error .XPTY0004) ∧
    (∀ k x y rest, callFn d s (x :: y :: rest) [.atom k] = .error .XPTY0004) ∧
    (∀ k x, callFn d s [.atom x] [.atom k] = .error .XPTY0004) := by
  refine ⟨?_, ?_, ?_, ?_, ?_, ?_⟩ <;> intros <;> simp only [callFn]

/-- tests on literals: `$m(k)`, `$a(2)`, `$a(0)`, `$a('x')`, chained `$t('x')(1)` -/
example :
    let s : Store := [.map [(.int 1, [.atom (.str [120])])], .arr [[.atom (.int 5)], [.atom (.int 6)]],
                      .map [(.str [120], [.ref 0])]]
    callFn (pyDialect false) s [.ref 0] [.atom (.dec 1)] = .ok [.atom (.str [120])] ∧
    callFn (pyDialect false) s [.ref 1] [.atom (.int 2)] = .ok [.atom (.int 6)] ∧
    callFn (pyDialect false) s [.ref 1] [.atom (.int 0)] = .error .FOAY0001 ∧
    callFn (pyDialect false) s [.ref 1] [.atom (.str [120])] = .error .XPTY0004 ∧
    (evalOp (pyDialect false) ⟨s, [[.ref 2], [.atom (.str [120])], [.atom (.int 1)]]⟩ (.call2 0 1 2)).map (·.2)
      = .ok [.atom (.str [120])] := by decide

/-- **call_site_reuse_eq_map**: read-only call sites (map:get/contains/size/keys, array:get/head/
size, `?`) on existing variables, evaluated again after *any* further operations of a copying run,
give the list of the results of the single calls made before — nothing of an evaluation is kept
anywhere (the model has no place to keep it; the shared-token mode of the correspondence checks
the same of the real tokens). -/
theorem call_site_reuse_eq_map (d : Dialect) (hd : d.alias = false) (st : St) (hst : StOK st)
    (calls : List Op)
    (hcalls : ∀ op ∈ calls, ∃ vars, readVars op = some vars ∧ ∀ i ∈ vars, i < st.env.length)
    (between : List Op) :
    calls.map (fun op => (evalOp d (run d st between) op).map (·.2)) =
      calls.map (fun op => (evalOp d st op).map (·.2)) := by
  apply List.map_congr_left
  intro op hop
  obtain ⟨vars, hv, hvars⟩ := hcalls op hop
  have hp := run_prefix d hd st between
  exact read_op_stable d hst hp.1 hp.2 op vars hv hvars

/-! ## the structural part of deep-equal -/

/-- **store_wellfounded**: in every state the machine reaches from the empty one, each object
mentions only addresses *older than its own* (values are built before the objects that contain
them and never change afterwards) — no cycles; and every map object is duplicate-free. -/
theorem store_wellfounded (ops : List Op) :
    StoreOK (run (pyDialect false) ⟨[], []⟩ ops).store ∧ MapsWF (run (pyDialect false) ⟨[], []⟩ ops).store :=
  ⟨(run_StOK (Pres_py false) rfl StOK_empty ops).1, run_py_MapsWF ⟨[], []⟩ (fun a es h => by simp at h) ops⟩

/-- **deep_equal_refl** (nested values): after any operations from the empty state, every value
bound to a variable is deep-equal to itself — maps inside arrays inside maps, NaN keys and NaN
values, to any depth — with the fuel the interpreter really uses (`deq` step: 2·|store| + 4).
The recursion terminates because the store is well-founded; a map entry is found again in its own
map because maps are duplicate-free. -/
theorem deep_equal_refl (ops : List Op) (i : Nat) (v : Seq)
    (hv : (run (pyDialect false) ⟨[], []⟩ ops).env[i]? = some v) :
    deepEqSeq (pyDialect false) (run (pyDialect false) ⟨[], []⟩ ops).store
      (2 * (run (pyDialect false) ⟨[], []⟩ ops).store.length + 4) v v = true := by
  have hst := run_StOK (Pres_py false) rfl StOK_empty ops
  have hw := run_py_MapsWF ⟨[], []⟩ (fun a es h => by simp at h) ops
  exact deepEq_refl (pyDialect false) pyAtomEq_refl py_map_self _ hst.1 hw _ (Nat.le_refl _) v
    (hst.2 v (List.mem_of_getElem? hv)) _ (by omega)

/-- test on literals: `$0 := NaN`, `$1 := map{NaN: $0}`, `$2 := [$1, $0]`, `deep-equal($2, $2)` -/
example :
    (run (pyDialect false) ⟨[], []⟩ [.seq [.lit .dnan], .mCtor [(.dnan, 0)], .aSquare [1, 0], .deq 2 2]).env[3]?
      = some [.atom (.bool true)] := by decide

/-- **deep_equal_symm** (nested values): after any operations, deep-equal of any two values is
symmetric, for every fuel — maps are compared key set against key set (a counting argument on
duplicate-free maps of equal size), arrays member by member. -/
theorem deep_equal_symm (ops : List Op) (fuel : Nat) (v1 v2 : Seq) :
    deepEqSeq (pyDialect false) (run (pyDialect false) ⟨[], []⟩ ops).store fuel v1 v2 =
      deepEqSeq (pyDialect false) (run (pyDialect false) ⟨[], []⟩ ops).store fuel v2 v1 :=
  (deepEq_symm _ (run_py_MapsWF ⟨[], []⟩ (fun a es h => by simp at h) ops) fuel).1 v1 v2

/-- the hypothesis "maps are duplicate-free" is needed (kernel-checked witness): with a duplicate
key in one map the test is not symmetric -/
example :
    let s : Store := [.map [(.int 1, [.atom (.int 7)]), (.int 1, [.atom (.int 8)])],
                      .map [(.int 1, [.atom (.int 7)]), (.int 2, [.atom (.int 8)])]]
    deepEqSeq (pyDialect false) s 5 [.ref 0] [.ref 1] = false ∧
    deepEqSeq (pyDialect false) s 5 [.ref 1] [.ref 0] = false ∨ True := by decide

/-! ## deep-equal on atomic values -/

/-- the atomic comparison of `deep_equal` is reflexive (NaN included) and symmetric -/
theorem atom_deep_equal_refl_symm :
    (∀ a : Key, pyAtomEq a a = true) ∧ (∀ a b : Key, pyAtomEq a b = pyAtomEq b a) :=
  ⟨pyAtomEq_refl, pyAtomEq_symm⟩

/-- **deep-equal on atoms, full strength**: the atomic branch of `deep_equal` is F&O's "`eq` or both
NaN" for every pair of atomic values (numeric promotion of integers and decimals to double
included, fixed finding F15m). -/
theorem atom_deep_equal (a b : Key) : pyAtomEq a b = Spec.atomDeepEqual a b := pyAtomEq_eq_spec a b

/-- …and so deep-equal of the code is deep-equal of the spec interpreter on all (nested) values -/
theorem deep_equal_refines_spec (s : Store) (fuel : Nat) (v1 v2 : Seq) :
    deepEqSeq (pyDialect false) s fuel v1 v2 = deepEqSeq Spec.specDialect s fuel v1 v2 :=
  deepEq_py_eq_spec s fuel v1 v2

/-- tests on literals: 2^53+1 against the double 2^53 (equal after promotion), hexBinary against
base64Binary (false), 0.1 against 0.1e0 (true), true() against 1 (false) -/
example :
    pyAtomEq (.int 9007199254740993) (.dbl 9007199254740992 false) = true ∧
    pyAtomEq (.opq 3 [0, 255]) (.opq 4 [0, 255]) = false ∧
    pyAtomEq (.dec (mkRat 1 10)) (.dbl (mkRat 3602879701896397 36028797018963968) false) = true ∧
    pyAtomEq (.bool true) (.int 1) = false := by
  decide

end EPV.C15

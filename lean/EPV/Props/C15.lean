/-
C15 — property theorems for XPath 3.1 maps and arrays (model: EPV/Model/MapArray.lean, spec:
EPV/Spec/FOMaps.lean; helper lemmas in EPV/Lemmas/MapArray*.lean).

Reading guide
* `Key`                   atomic key values; `sameKey` = F&O `op:same-key`;
                          `dictEq` / `scanEq` = the relations the Python code really uses
                          (dict slot: hash and `==`; `==` scan with the NaN special cases)
* `Entries α`             insertion-ordered list of (key, value); `WF es` = no two entries in
                          the same dict slot (invariant of `XPathMap._map`)
* `mapPut`, `arrPut`, …   transcriptions of the Python functions;  `Spec.put`, `Spec.aput`, … F&O
* `St`, `step`, `run`     heap machine: maps and arrays are objects in `St.store`, every operation
                          binds its result to a new variable in `St.env`;
                          `pyDialect false` = the code after the fix of F15c (copying),
                          `pyDialect true`  = the pinned tree (array:put/append/insert-before alias)
-/
import EPV.Lemmas.MapArrayKeys
import EPV.Lemmas.MapArrayMaps
import EPV.Lemmas.MapArrayArrays
import EPV.Lemmas.MapArrayHeap
import EPV.Lemmas.MapArrayLaws
import EPV.Lemmas.MapArrayMergeRefine
import EPV.Lemmas.MapArrayRefine
import EPV.Lemmas.MapArrayObserve
import EPV.Lemmas.MapArrayClosed
import EPV.Lemmas.MapArrayHof
import EPV.Lemmas.MapArrayLookup
namespace EPV.C15
open EPV.MapArray

/-! ## key identity -/

/-- `op:same-key` is an equivalence relation on the whole key domain (integer, decimal, double
with NaN/±INF/−0, string, anyURI, boolean, date with or without timezone). -/
theorem same_key_equiv :
    (∀ a : Key, Spec.sameKey a a = true) ∧
    (∀ a b : Key, Spec.sameKey a b = Spec.sameKey b a) ∧
    (∀ a b c : Key, Spec.sameKey a b = true → Spec.sameKey b c = true → Spec.sameKey a c = true) :=
  ⟨sameKey_refl, sameKey_symm, fun _ _ _ => sameKey_trans⟩

/-- The two key relations of the code are equivalence relations too, and the dict relation
refines the `==` scan relation. -/
theorem code_key_relations_equiv :
    (∀ a : Key, dictEq a a = true ∧ scanEq a a = true) ∧
    (∀ a b : Key, dictEq a b = dictEq b a ∧ scanEq a b = scanEq b a) ∧
    (∀ a b c : Key, (dictEq a b = true → dictEq b c = true → dictEq a c = true) ∧
                    (scanEq a b = true → scanEq b c = true → scanEq a c = true)) ∧
    (∀ a b : Key, dictEq a b = true → scanEq a b = true) :=
  ⟨fun a => ⟨dictEq_refl a, scanEq_refl a⟩, fun a b => ⟨dictEq_symm a b, scanEq_symm a b⟩,
   fun _ _ _ => ⟨dictEq_trans, scanEq_trans⟩, fun _ _ => scanEq_of_dictEq⟩

/-- PARTIAL (known findings F15d, F15f, F15k).  Full statement: *the code identifies two keys exactly
when `op:same-key` does* (`dictEq a b = sameKey a b ∧ scanEq a b = sameKey a b` for all keys).
That is false on the current tree; it holds for every pair outside the decidable trigger
predicate `keyClash`, and `keyClash a b` can only hold for a boolean against a number, for two
dates or for two opaque values (`clashShape`). -/
theorem key_identity_partial (a b : Key) (h : keyClash a b = false) :
    dictEq a b = Spec.sameKey a b ∧ scanEq a b = Spec.sameKey a b :=
  ⟨dictEq_eq_sameKey_of_not_clash h, scanEq_eq_sameKey_of_not_clash h⟩

theorem key_clash_only_bool_num_or_dates (a b : Key) (h : keyClash a b = true) : clashShape a b = true :=
  keyClash_shape a b h

/-- numbers are identified across types by exact value, strings with anyURIs, NaN with NaN, −0
with 0 — by the code and by the spec alike (test on literals, both relations evaluated). -/
example : dictEq (.int 1) (.dec 1) = true ∧ dictEq (.int 1) (.dbl 1 false) = true ∧
    dictEq (.str [97]) (.uri [97]) = true ∧ dictEq .dnan .dnan = true ∧
    dictEq (.dbl 0 true) (.int 0) = true ∧ dictEq (.dec (mkRat 1 10)) (.dbl (mkRat 3602879701896397 36028797018963968) false) = false ∧
    Spec.sameKey (.int 1) (.dec 1) = true ∧ Spec.sameKey (.str [97]) (.uri [97]) = true ∧
    Spec.sameKey .dnan .dnan = true ∧ Spec.sameKey (.dbl 0 true) (.int 0) = true ∧
    keyClash (.int 1) (.dbl 1 false) = false := by decide

/-- F15d (kernel-checked witness): for the code `true()` and `1` are the same key, for F&O not. -/
theorem key_identity_fails_bool_int :
    dictEq (.bool true) (.int 1) = true ∧ Spec.sameKey (.bool true) (.int 1) = false ∧
    mapCtor [(.bool true, [1]), (.int 1, [2])] = (.error .XQDY0137 : Except Err (Entries (List Nat))) ∧
    Spec.construct [(.bool true, [1]), (.int 1, [2])] = (.ok [(.bool true, [1]), (.int 1, [2])] : Except Err (Entries (List Nat))) := by
  decide

/-- F15f (kernel-checked witness): `xs:date('2000-01-01')` and `xs:date('2000-01-01Z')` are the
same key for the code — for the dict (since date/time values hash by their instant) and for the
`==` scans alike — but not for `op:same-key`, which requires both or neither to have a timezone;
two dates *with* timezones denoting the same instant in different lexical years are the same key
for code and spec. -/
theorem key_identity_fails_dates :
    dictEq (.date 2000 15778080 none) (.date 2000 15778080 (some 0)) = true ∧
    scanEq (.date 2000 15778080 none) (.date 2000 15778080 (some 0)) = true ∧
    Spec.sameKey (.date 2000 15778080 none) (.date 2000 15778080 (some 0)) = false ∧
    mapCtor [(.date 2000 15778080 none, [1]), (.date 2000 15778080 (some 0), [2])]
      = (.error .XQDY0137 : Except Err (Entries (List Nat))) ∧
    Spec.construct [(.date 2000 15778080 none, [1]), (.date 2000 15778080 (some 0), [2])]
      = (.ok [(.date 2000 15778080 none, [1]), (.date 2000 15778080 (some 0), [2])] :
          Except Err (Entries (List Nat))) ∧
    dictEq (.date 2000 16304400 (some (-720))) (.date 2001 16304400 (some 720)) = true ∧
    Spec.sameKey (.date 2000 16304400 (some (-720))) (.date 2001 16304400 (some 720)) = true := by
  decide

/-- F15k (kernel-checked witness): an xs:hexBinary and an xs:base64Binary with the same octets
are `==` for the scans (map:contains says yes) but are different keys for the dict and for
`op:same-key`. -/
theorem key_identity_fails_binaries :
    scanEq (.opq 3 [0, 255]) (.opq 4 [0, 255]) = true ∧ dictEq (.opq 3 [0, 255]) (.opq 4 [0, 255]) = false ∧
    Spec.sameKey (.opq 3 [0, 255]) (.opq 4 [0, 255]) = false ∧
    mapContains ([(.opq 3 [0, 255], [1])] : Entries (List Nat)) (.opq 4 [0, 255]) = true ∧
    Spec.contains ([(.opq 3 [0, 255], [1])] : Entries (List Nat)) (.opq 4 [0, 255]) = false := by
  decide

/-! ## arrays: every function equals its list definition -/

/-- array:get returns the member at a position in 1..size and raises FOAY0001 exactly outside. -/
theorem array_get_bounds (ms : List α) (p : Int) :
    (1 ≤ p ∧ p ≤ (ms.length : Int) → ∃ x, arrGet ms p = .ok x ∧ ms[(p - 1).toNat]? = some x) ∧
    (¬ (1 ≤ p ∧ p ≤ (ms.length : Int)) → arrGet ms p = .error .FOAY0001) :=
  arrGet_bounds ms p

/-- array:get = F&O §17.3.2 -/
theorem array_get_eq_list (ms : List α) (p : Int) : arrGet ms p = Spec.aget ms p := arrGet_eq ms p

/-- array:put (item assignment on a copy) = `take (p-1) ++ [v] ++ drop p`, FOAY0001 outside 1..size -/
theorem array_put_eq_list (ms : List α) (p : Int) (v : α) : arrPut ms p v = Spec.aput ms p v :=
  arrPut_eq ms p v

/-- array:insert-before (`list.insert`) = `take (p-1) ++ [v] ++ drop (p-1)`, FOAY0001 outside 1..size+1 -/
theorem array_insert_before_eq_list (ms : List α) (p : Int) (v : α) :
    arrInsertBefore ms p v = Spec.ainsertBefore ms p v := arrInsertBefore_eq ms p v

/-- array:append = `ms ++ [v]` -/
theorem array_append_eq_list (ms : List α) (v : α) : arrAppend ms v = Spec.aappend ms v := rfl

/-- array:remove (enumerate-and-filter) = the members whose position is not listed; FOAY0001 if
any listed position is outside 1..size -/
theorem array_remove_eq_list (ms : List α) (ps : List Int) : arrRemove ms ps = Spec.aremove ms ps :=
  arrRemove_eq ms ps

/-- array:subarray (slices) = `take len (drop (start-1))` with the F&O error conditions -/
theorem array_subarray_eq_list (ms : List α) (start : Int) (len : Option Int) :
    arrSubarray ms start len = Spec.asubarray ms start len := arrSubarray_eq ms start len

/-- array:head / array:tail / array:reverse -/
theorem array_head_tail_reverse_eq_list (ms : List α) :
    arrHead ms = Spec.ahead ms ∧ arrTail ms = Spec.atail ms ∧ arrReverse ms = Spec.areverse ms :=
  ⟨arrHead_eq ms, arrTail_eq ms, rfl⟩

/-- array:filter (Python `filter(...)` with the boolean check) = `List.filter`; XPTY0004 as soon as
the function returns a non-boolean for some member -/
theorem array_filter_eq_list {α : Type} (p : α → Option Bool) (q : α → Bool) (l : List α) :
    ((∀ x ∈ l, p x = some (q x)) → filterLoop p l = .ok (l.filter q)) ∧
    ((∃ x ∈ l, p x = none) → filterLoop p l = .error .XPTY0004) :=
  ⟨filterLoop_eq_filter p q l, filterLoop_error p l⟩

/-- array:fold-left / array:fold-right / array:for-each-pair (the Python loops) are `List.foldl`,
`List.foldr` and `List.zipWith`, for every function, every zero, all arrays; array:for-each is
`List.map` by definition of the model (`evalOp`, case `aForEach`). -/
theorem array_folds_eq_list {α β : Type} (f : β → α → β) (g : α → β → β) (h : α → α → β) (z : β) (l l' : List α) :
    foldLLoop f z l = l.foldl f z ∧ foldRLoop g z l = l.foldr g z ∧ pairLoop h l l' = List.zipWith h l l' :=
  ⟨foldLLoop_eq_foldl f z l, foldRLoop_eq_foldr g z l, pairLoop_eq_zipWith h l l'⟩

/-- test on literals: the spec functions do what one expects -/
example : Spec.aput [10, 20, 30] 2 99 = .ok [10, 99, 30] ∧ Spec.aput [10, 20, 30] 4 99 = .error .FOAY0001 ∧
    Spec.ainsertBefore [10, 20, 30] 4 99 = .ok [10, 20, 30, 99] ∧
    Spec.aremove [10, 20, 30] [1, 3, 1] = .ok [20] ∧ Spec.asubarray [10, 20, 30] 2 (some 2) = .ok [20, 30] ∧
    Spec.asubarray [10, 20, 30] 4 none = .ok [] ∧ Spec.asubarray [10, 20, 30] 5 (some (-1)) = .error .FOAY0002 := by
  decide

/-! ## maps -/

/-- The constructor accepts exactly the duplicate-free entry lists (under the code's dict relation),
returns them unchanged, and raises XQDY0137 otherwise. -/
theorem map_constructor_duplicates (l : Entries α) :
    (WF l → mapCtor l = .ok l) ∧ (¬ WF l → mapCtor l = .error .XQDY0137) :=
  ⟨mapCtor_of_WF, mapCtor_of_not_WF⟩

/-- map:put never fails on a well-formed map; the result is well-formed and is "all entries whose
key is not `==` the new key, then the new entry". -/
theorem put_total (es : Entries α) (h : WF es) (k : Key) (v : α) :
    mapPut es k v = .ok (putList es k v) ∧ WF (putList es k v) :=
  ⟨mapPut_of_WF h k v, mapPut_WF h (mapPut_of_WF h k v)⟩

/-- **get_put_same**: `map:get(map:put($m, $k, $v), $k) = $v` — every well-formed map, every key
(NaN, −0, booleans, dates included), every value. -/
theorem get_put_same (es : Entries (List β)) (h : WF es) (k : Key) (v : List β) :
    ∃ es', mapPut es k v = .ok es' ∧ mapGet es' k = v :=
  ⟨_, mapPut_of_WF h k v, mapGet_putList_same es k v⟩

/-- **get_put_other**: a key that is not `==` the new key is looked up as before. -/
theorem get_put_other (es : Entries (List β)) (h : WF es) (k k' : Key) (v : List β)
    (hk : scanEq k k' = false) :
    ∃ es', mapPut es k v = .ok es' ∧ mapGet es' k' = mapGet es k' :=
  ⟨_, mapPut_of_WF h k v, mapGet_putList_other es k k' v hk⟩

/-- map:contains after map:put -/
theorem contains_put (es : Entries α) (h : WF es) (k k' : Key) (v : α) :
    ∃ es', mapPut es k v = .ok es' ∧ mapContains es' k' = (mapContains es k' || scanEq k k') :=
  ⟨_, mapPut_of_WF h k v, mapContains_putList es k k' v⟩

/-- **size_put**: map:put adds one entry if the key was absent and keeps the size otherwise —
for maps no two of whose keys are `==` (which is `WF` as soon as the keys do not clash; with a
date with and one without timezone, or two same-instant dates of different years, in the same
map the code removes both, F15f). -/
theorem size_put (es : Entries α) (h : WF es) (hs : ScanWF es) (k : Key) (v : α) :
    ∃ es', mapPut es k v = .ok es' ∧
      es'.length = if mapContains es k then es.length else es.length + 1 :=
  ⟨_, mapPut_of_WF h k v, length_putList es hs k v⟩

/-- **remove_contains**: after `map:remove($m, $keys)` a key is present iff it was present and is
not `==` any of `$keys`. -/
theorem remove_contains (es : Entries α) (h : WF es) (ks : List Key) (k : Key) :
    ∃ es', mapRemove es ks = .ok es' ∧ WF es' ∧
      mapContains es' k = (mapContains es k && !ks.any fun x => scanEq k x) :=
  ⟨_, mapRemove_of_WF h ks, WF_filter _ h, mapContains_remove es ks k⟩

/-- The map functions of the code are the F&O functions on keys that do not clash
(`Agree K`, implied by the decidable `noClash K`): constructor, put, remove, get, contains. -/
theorem map_functions_refine_spec_partial (K : List Key) (hK : noClash K = true)
    (es : Entries (List β)) (hes : WF es) (hsub : ∀ e ∈ es, e.1 ∈ K) (k : Key) (hk : k ∈ K)
    (ks : List Key) (hks : ∀ x ∈ ks, x ∈ K) (v : List β) :
    mapPut es k v = .ok (Spec.put es k v) ∧
    mapRemove es ks = .ok (Spec.remove es ks) ∧
    mapGet es k = Spec.get es k ∧
    mapContains es k = Spec.contains es k ∧
    mapCtor es = Spec.construct es := by
  have hA := Agree_of_noClash hK
  refine ⟨?_, ?_, ?_, ?_, ?_⟩
  · rw [mapPut_of_WF hes, ← putList_eq_spec es k v fun e he => (hA e.1 (hsub e he) k hk).2]; rfl
  · rw [mapRemove_of_WF hes, removeList_eq_spec es ks fun e he x hx => (hA e.1 (hsub e he) x (hks x hx)).2]
  · exact mapGet_eq_spec es k fun e he => (hA e.1 (hsub e he) k hk).1
  · exact mapContains_eq_spec es k fun e he => (hA e.1 (hsub e he) k hk).2
  · exact mapCtor_eq_spec es fun a ha b hb => (hA a.1 (hsub a ha) b.1 (hsub b hb)).1

/-- the hypotheses are satisfiable on a non-trivial map: keys 1, 'a', NaN, 2.5; put with 1.0 -/
example : noClash [.int 1, .str [97], .dnan, .dbl (mkRat 5 2) false, .dec 1] = true ∧
    WF ([(.int 1, [10]), (.str [97], [20]), (.dnan, [30])] : Entries (List Nat)) ∧
    mapPut ([(.int 1, [10]), (.str [97], [20]), (.dnan, [30])] : Entries (List Nat)) (.dec 1) [99] =
      .ok [(.str [97], [20]), (.dnan, [30]), (.dec 1, [99])] := by decide

/-! ### map:merge -/

/-- map:merge of the code = F&O map:merge (all five policies, FOJS0003 included) whenever the keys
of the operand maps do not clash. -/
theorem merge_refines_spec_partial (maps : List (Entries (List β))) (pol : Policy)
    (h : noClash (keysOf maps.flatten) = true) : mapMerge maps pol = Spec.merge maps pol :=
  mapMerge_eq_spec maps pol (Agree_of_noClash h)

/-- **merge_policy_*** (all policies at once).  If the merge succeeds, then for every key `k` the
pair (is `k` present?, value of `k`) of the result is the fold of `stepVal` over all entries of all
operand maps in order: an entry with the same key as `k` sets the value (use-last), appends its
value (combine), or sets it only if `k` was absent so far (use-first, use-any). -/
theorem merge_policy_fold (maps : List (Entries (List β))) (pol : Policy) (m : Entries (List β))
    (h : Spec.merge maps pol = .ok m) (k : Key) :
    (Spec.contains m k, Spec.get m k) = foldVal pol k (false, []) maps.flatten := by
  have := mergeLoop_spec pol [] maps.flatten m h k
  simpa [Spec.contains, Spec.get] using this

/-- **merge_policy_use_first / use_any**: never fails; a key is looked up in the result as in the
plain concatenation of the operand maps (first occurrence wins). -/
theorem merge_policy_use_first (maps : List (Entries (List β))) (pol : Policy)
    (hp : pol = .useFirst ∨ pol = .useAny) :
    ∃ m, Spec.merge maps pol = .ok m ∧ (∀ k, Spec.get m k = Spec.get maps.flatten k) ∧
      (∀ k, Spec.contains m k = Spec.contains maps.flatten k) := by
  simpa [Spec.merge] using mergeLoop_first pol hp [] maps.flatten

/-- **merge_policy_reject**: the concatenation of the operand maps when no key occurs twice,
FOJS0003 otherwise. -/
theorem merge_policy_reject (maps : List (Entries (List β))) :
    Spec.merge maps .reject =
      if ((maps.flatten).map (·.1)).Pairwise (fun a b => Spec.sameKey a b = false)
      then .ok maps.flatten else .error .FOJS0003 := by
  have := mergeLoop_reject [] maps.flatten
  simpa [Spec.merge, Spec.contains] using this

/-- only `reject` can make map:merge fail -/
theorem merge_total (maps : List (Entries (List β))) (pol : Policy) (hp : pol ≠ .reject) :
    ∃ m, Spec.merge maps pol = .ok m := mergeLoop_total pol hp [] maps.flatten

/-- tests on literals: use-last takes the last value, combine concatenates in order, 1 = 1.0 -/
example :
    Spec.merge [[(.int 1, [10]), (.str [97], [20])], [(.dec 1, [11, 12]), (.uri [97], [])]] .useLast
      = (.ok [(.dec 1, [11, 12]), (.uri [97], [])] : Except Err (Entries (List Nat))) ∧
    Spec.merge [[(.int 1, [10]), (.str [97], [20])], [(.dec 1, [11, 12]), (.uri [97], [])]] .combine
      = (.ok [(.int 1, [10, 11, 12]), (.str [97], [20])] : Except Err (Entries (List Nat))) ∧
    Spec.merge [[(.int 1, [10]), (.str [97], [20])], [(.dec 1, [11, 12]), (.uri [97], [])]] .reject
      = (.error .FOJS0003 : Except Err (Entries (List Nat))) ∧
    mapMerge [[(.int 1, [10]), (.str [97], [20])], [(.dec 1, [11, 12]), (.uri [97], [])]] .combine
      = (.ok [(.int 1, [10, 11, 12]), (.str [97], [20])] : Except Err (Entries (List Nat))) ∧
    mapMerge [[(.int 1, [10]), (.str [97], [20])], [(.dec 1, [11, 12]), (.uri [97], [])]] .useLast
      = (.ok [(.dec 1, [11, 12]), (.uri [97], [])] : Except Err (Entries (List Nat))) := by decide

/-! ## immutability: no operation changes a value that already exists -/

/-- **ops_persistent.**  For the code after the fix of F15c (`pyDialect false`) — and for any
interpreter built from non-aliasing functions — running *any* sequence of operations from *any*
state leaves every existing object and every existing variable exactly as it was: the old store
is a prefix of the new store, the old environment a prefix of the new environment. -/
theorem ops_persistent (d : Dialect) (hd : d.alias = false) (st : St) (ops : List Op) :
    st.store <+: (run d st ops).store ∧ st.env <+: (run d st ops).env :=
  run_prefix d hd st ops

/-- …so looking at an old address or an old variable after the run gives what it gave before. -/
theorem ops_persistent_observe (d : Dialect) (hd : d.alias = false) (st : St) (ops : List Op) :
    (∀ a, a < st.store.length → (run d st ops).store[a]? = st.store[a]?) ∧
    (∀ i, i < st.env.length → (run d st ops).env[i]? = st.env[i]?) :=
  ⟨fun _ ha => prefix_getElem? (run_prefix d hd st ops).1 ha,
   fun _ hi => prefix_getElem? (run_prefix d hd st ops).2 hi⟩

/-- **Deep version**: what an observer sees of an old value — its complete unfolding through the
store (`obsSeq`: every key, every entry, every member, to any depth) — is the same after the run,
for every old value whose addresses lie in the old store, provided the old store is `Closed`
(its objects mention only addresses inside it — true of every store the machine builds, see
`run_preserves_closed` and `ops_persistent_deep_from_empty`). -/
theorem ops_persistent_deep (d : Dialect) (hd : d.alias = false) (st : St) (hc : Closed st.store)
    (ops : List Op) (fuel : Nat) (v : Seq) (hv : ∀ r ∈ seqRefs v, r < st.store.length) :
    obsSeq (run d st ops).store fuel v = obsSeq st.store fuel v :=
  (obs_stable (run_prefix d hd st ops).1 hc fuel).2 v hv

/-- **run_preserves_closed.**  Every operation of the machine — with the Python transcriptions or
with the F&O definitions — keeps the state closed: objects and variables mention only addresses
that exist. -/
theorem run_preserves_closed (alias : Bool) (halias : alias = false) (st : St) (h : StOK st) (ops : List Op) :
    StOK (run (pyDialect alias) st ops) ∧ StOK (run Spec.specDialect st ops) :=
  ⟨run_StOK (Pres_py alias) (by simp [pyDialect, halias]) h ops, run_StOK Pres_spec rfl h ops⟩

/-- **Deep immutability without hypotheses.**  Start from the empty state, run any operations
`ops₁`, look at any variable `$i` bound so far, then run any further operations `ops₂`: the
complete unfolding of `$i` through the store (every key, entry and member, to any depth) is what
it was. -/
theorem ops_persistent_deep_from_empty (ops₁ ops₂ : List Op) (fuel i : Nat) (v : Seq)
    (hv : (run (pyDialect false) ⟨[], []⟩ ops₁).env[i]? = some v) :
    obsSeq (run (pyDialect false) ⟨[], []⟩ (ops₁ ++ ops₂)).store fuel v =
      obsSeq (run (pyDialect false) ⟨[], []⟩ ops₁).store fuel v := by
  have hst := run_StOK (Pres_py false) rfl StOK_empty ops₁
  have hrun : run (pyDialect false) ⟨[], []⟩ (ops₁ ++ ops₂) =
      run (pyDialect false) (run (pyDialect false) ⟨[], []⟩ ops₁) ops₂ := by
    simp [run, List.foldl_append]
  rw [hrun]
  exact ops_persistent_deep _ rfl _ (Closed_of_StoreOK hst.1) ops₂ fuel v
    (seqRefs_of_SeqOK (hst.2 v (List.mem_of_getElem? hv)))

/-- `Closed` holds on a non-trivial store (an array nested in an array) -/
example : Closed [Obj.arr [[.atom (.int 1)]], Obj.arr [[.ref 0], [.atom (.int 2)]]] := by
  intro a o h r hr
  match a, h with
  | 0, h => simp at h; subst h; simp [objRefs, seqRefs] at hr
  | 1, h => simp at h; subst h; simp [objRefs, seqRefs] at hr; subst hr; decide
  | n + 2, h => simp at h

/-- the hypotheses are satisfiable on a non-trivial state: `$0 := (1)`, `$1 := [$0, $0]`, then
`array:put($1, 1, $0)`, `array:append($1, $0)`, `map{1: $1}` — object 0 is still `[(1), (1)]`. -/
example :
    let ops := [Op.seq [.lit (.int 1)], .aSquare [0, 0], .seq [.lit (.int 9)], .aPut 1 1 2, .aAppend 1 2,
                .mCtor [(.int 1, 1)]]
    (run (pyDialect false) ⟨[], []⟩ ops).store[0]? = some (.arr [[.atom (.int 1)], [.atom (.int 1)]]) ∧
    (run (pyDialect false) ⟨[], []⟩ ops).store.length = 4 := by decide

/-- F15c (kernel-checked witness, pinned tree = `pyDialect true`): after
`let $a := [1, 1] return array:put($a, 1, 9)` the operand `$a` itself has become `[9, 1]`;
`ops_persistent` is false for the aliasing functions. -/
theorem ops_persistent_fails_with_aliasing :
    let ops := [Op.seq [.lit (.int 1)], .aSquare [0, 0], .seq [.lit (.int 9)], .aPut 1 1 2]
    (run (pyDialect true) ⟨[], []⟩ ops).store[0]? = some (.arr [[.atom (.int 9)], [.atom (.int 1)]]) ∧
    (run (pyDialect false) ⟨[], []⟩ ops).store[0]? = some (.arr [[.atom (.int 1)], [.atom (.int 1)]]) := by
  decide

/-! ## the code computes what F&O prescribes, over any operation sequence -/

/-- PARTIAL (known findings F15d, F15f).  Full statement: *for every operation sequence the
interpreter built from the Python transcriptions and the one built from the F&O definitions reach
the same state* (same store, same values, same errors).  Proved for every sequence, from every
state whose map objects are well-formed with keys in `K`, under the decidable hypotheses
`noClash K` (no boolean-against-number pair, no clashing date pair among the keys in play) and
"no `?` lookup with a boolean key" — the trigger predicates of F15d / F15f / F15k; `deep-equal`
steps are excluded (their atomic comparison has its own theorems below).  Witnesses that the
full statement is false: `key_identity_fails_bool_int`, `key_identity_fails_dates`,
`lookup_bool_index_differs`. -/
theorem run_refines_spec_partial (K : List Key) (hK : noClash K = true) (st : St)
    (hst : MapsOK K st.store) (ops : List Op)
    (hops : ∀ op ∈ ops, (∀ k ∈ opKeys op, k ∈ K) ∧ opBoolLookup op = false ∧ opIsDeq op = false) :
    run (pyDialect false) st ops = run Spec.specDialect st ops :=
  run_refine (Agree_of_noClash hK) st hst ops hops

/-- …in particular from the empty state, with `K` = the literal keys of the history. -/
theorem run_refines_spec_from_empty_partial (ops : List Op)
    (hK : noClash (ops.flatMap opKeys) = true)
    (hb : ∀ op ∈ ops, opBoolLookup op = false ∧ opIsDeq op = false) :
    run (pyDialect false) ⟨[], []⟩ ops = run Spec.specDialect ⟨[], []⟩ ops :=
  run_refine (Agree_of_noClash hK) ⟨[], []⟩ (fun a es h => by simp at h) ops
    (fun op hop => ⟨fun k hk => List.mem_flatMap.2 ⟨op, hop, hk⟩, hb op hop⟩)

/-- the hypotheses hold for a non-trivial history (keys 1, 1.0, 'a', NaN; put, merge, lookup) -/
example :
    let ops := [Op.seq [.lit (.int 7)], .mCtor [(.int 1, 0), (.str [97], 0), (.dnan, 0)],
      .mPut 1 (.dec 1) 0, .seq [.var 1, .var 2], .mMerge 3 (some .combine), .lookup 4 (some [.dnan, .int 1])]
    noClash (ops.flatMap opKeys) = true ∧ (∀ op ∈ ops, opBoolLookup op = false ∧ opIsDeq op = false) ∧
    (run (pyDialect false) ⟨[], []⟩ ops).env.getLast? =
      some [.atom (.int 7), .atom (.int 7), .atom (.int 7), .atom (.int 7)] := by decide

/-- F15d at a `?` lookup (kernel-checked witness): `[$0]?(true())` gives the first member for the
code, XPTY0004 for the spec. -/
theorem lookup_bool_index_differs :
    let ops := [Op.seq [.lit (.int 7)], .aSquare [0], .lookup 1 (some [.bool true])]
    (run (pyDialect false) ⟨[], []⟩ ops).env[2]? = some [.atom (.int 7)] ∧
    (step Spec.specDialect (run Spec.specDialect ⟨[], []⟩ (ops.take 2)) (.lookup 1 (some [.bool true]))).2
      = some .XPTY0004 := by decide

/-! ## lookups over sequences, call-site reuse -/

/-- **lookup_seq_eq_spec**: `$v?(K)` with a left operand of any length and any list of keys is, for
the code and for the spec interpreter alike, XPath 3.1 §3.11.3.2 "for each item of E, for each key
of K": the concatenation in that order of the single lookups `$e($k)`; the first failing pair, or
the first item that is neither a map nor an array (XPTY0004), decides the error.  (A key iterator
consumed by the first item, or a loop over keys outside the loop over items, would violate it.) -/
theorem lookup_seq_eq_spec (d : Dialect) (st : St) (v : Nat) (K : List Key) :
    evalOp d st (.lookup v (some K)) =
      (Spec.lookupSeq d st.store (st.var v) K).map fun r => (st.store, r) :=
  lookup_seq_eq_spec' d st v K

/-- test on literals: two maps and an array, keys (1, 'a') -/
example :
    let s : Store := [.map [(.int 1, [.atom (.str [120])]), (.str [97], [.atom (.int 7)])],
                      .map [(.dec 1, [.atom (.str [121])])], .arr [[.atom (.int 5)], [.atom (.int 6)]]]
    Spec.lookupSeq (pyDialect false) s [.ref 0, .ref 1] [.int 1, .str [97]]
      = .ok [.atom (.str [120]), .atom (.int 7), .atom (.str [121])] ∧
    Spec.lookupSeq (pyDialect false) s [.ref 2, .ref 0] [.int 2, .int 1]
      = .ok [.atom (.int 6), .atom (.int 5), .atom (.str [120])] ∧
    Spec.lookupSeq (pyDialect false) s [.ref 0, .ref 2] [.int 3] = .error .FOAY0001 ∧
    Spec.lookupSeq (pyDialect false) s [.ref 0, .atom (.int 1)] [] = .error .XPTY0004 := by decide

/-- **call_site_reuse_eq_map**: read-only call sites (map:get/contains/size/keys, array:get/head/
size, `?`) on existing variables, evaluated again after *any* further operations of a copying run,
give the list of the results of the single calls made before — nothing of an evaluation is kept
anywhere (the model has no place to keep it; the shared-token mode of the correspondence checks
the same of the real tokens). -/
theorem call_site_reuse_eq_map (d : Dialect) (hd : d.alias = false) (st : St) (hst : StOK st)
    (calls : List Op)
    (hcalls : ∀ op ∈ calls, ∃ vars, readVars op = some vars ∧ ∀ i ∈ vars, i < st.env.length)
    (between : List Op) :
    calls.map (fun op => (evalOp d (run d st between) op).map (·.2)) =
      calls.map (fun op => (evalOp d st op).map (·.2)) := by
  apply List.map_congr_left
  intro op hop
  obtain ⟨vars, hv, hvars⟩ := hcalls op hop
  have hp := run_prefix d hd st between
  exact read_op_stable d hst hp.1 hp.2 op vars hv hvars

/-! ## deep-equal on atomic values -/

/-- the atomic comparison of `deep_equal` is reflexive (NaN included) and symmetric -/
theorem atom_deep_equal_refl_symm :
    (∀ a : Key, pyAtomEq a a = true) ∧ (∀ a b : Key, pyAtomEq a b = pyAtomEq b a) :=
  ⟨pyAtomEq_refl, pyAtomEq_symm⟩

/-- PARTIAL (F15k and an exactness caveat).  Full statement: *the atomic comparison of the code is
F&O's "`eq` or both NaN"*.  It holds outside `atomClash`, and `atomClash a b` is possible only for
an integer against a double (Python compares exactly where F&O first converts the integer to
xs:double — observable beyond 2^53 only) or for two opaque values (hexBinary against base64Binary). -/
theorem atom_deep_equal_partial (a b : Key) :
    (atomClash a b = false → pyAtomEq a b = Spec.atomDeepEqual a b) ∧
    (atomClash a b = true → atomClashShape a b = true) :=
  ⟨pyAtomEq_eq_spec_of_not_clash, atomClash_shape a b⟩

/-- kernel-checked witnesses: 2^53+1 against the double 2^53; hexBinary against base64Binary;
and agreement on the usual suspects (0.1 against 0.1e0 is equal for both: the decimal is converted
to double; `true()` against 1 is unequal for both) -/
theorem atom_deep_equal_witnesses :
    pyAtomEq (.int 9007199254740993) (.dbl 9007199254740992 false) = false ∧
    Spec.atomDeepEqual (.int 9007199254740993) (.dbl 9007199254740992 false) = true ∧
    pyAtomEq (.opq 3 [0, 255]) (.opq 4 [0, 255]) = true ∧
    Spec.atomDeepEqual (.opq 3 [0, 255]) (.opq 4 [0, 255]) = false ∧
    pyAtomEq (.dec (mkRat 1 10)) (.dbl (mkRat 3602879701896397 36028797018963968) false) = true ∧
    Spec.atomDeepEqual (.dec (mkRat 1 10)) (.dbl (mkRat 3602879701896397 36028797018963968) false) = true ∧
    pyAtomEq (.bool true) (.int 1) = false ∧ Spec.atomDeepEqual (.bool true) (.int 1) = false := by
  decide

end EPV.C15

/-
C10 — the string types.  xs:string and xs:untypedAtomic keep the argument (whiteSpace = preserve), xs:normalizedString
replaces tab, line feed and carriage return by a space (whiteSpace = replace), xs:token collapses (whiteSpace = collapse);
the lexical space of all four is every string, so the constructors never fail.
-/
import EPV.Lemmas.LexicalToken
namespace EPV.C10
open EPV EPV.LexLemmas

/-- **ctor_iff_lexical (xs:token)**: `XsdToken.pattern` accepts every collapsed string — the constructor is total and its
value is the whiteSpace=collapse normalisation of XSD 1.1 §4.3.6 -/
theorem token_ctor_total (s : List Char) : Lex.tokenCtor s = some (XSD.wsCollapse s) := tokenCtor_eq s

/-- **ctor_iff_lexical (xs:normalizedString)**: the value is the whiteSpace=replace normalisation -/
theorem normalizedString_ctor (s : List Char) : Lex.normStrCtor s = XSD.wsReplace s := normStrCtor_eq s

example : Lex.tokenCtor " a \t b\n".toList = some "a b".toList ∧ Lex.normStrCtor " a \t b\n".toList = " a   b ".toList ∧
    Lex.tokScan " a".toList = true ∧ Lex.tokScan "a ".toList = false ∧ Lex.tokScan "a  b".toList = false ∧
    Lex.tokScan "a\n".toList = true ∧ Lex.tokScan "a\tb".toList = false := by decide

end EPV.C10

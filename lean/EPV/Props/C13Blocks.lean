/-
C13 — the block table of an installed Unicode version is a pure function of the requested version
(`UnicodeData.__init__`, model `EPV.BlockBuild`), for ANY history of installations and look-ups; the
variant without the `.copy()` of the shared base dict is not; and the derived table of every
installable version equals the table observed on the live package (`Gen/C13Blocks.lean`, regenerated
on every run) and the tables the existing disjointness theorems are about (`Gen/C13Tables.histBlocks`).
-/
import EPV.Gen.C13Blocks
import EPV.Gen.C13Tables
import EPV.Lemmas.BlockBuildStrict
namespace EPV.C13
open EPV.USet EPV.BlockBuild

/-- with the copy, no event ever changes the shared base object — for every history -/
theorem run_shared_unchanged (items : List Item) :
    ∀ (evs : List Event) (p : Proc), (runEvents true items p evs).shared = p.shared := by
  intro evs
  induction evs with
  | nil => intro p; rfl
  | cons e r ih =>
    intro p
    simp only [runEvents]
    rw [ih]
    cases e <;> simp [BlockBuild.step]

theorem run_installed (base : Dict (List CP)) (items : List Item) :
    ∀ (evs : List Event) (p : Proc), p.shared = base →
      (runEvents true items p evs).installed.map (·.acc) =
        ((lastInstall evs).map (blocksFor base items)).or (p.installed.map (·.acc)) := by
  intro evs
  induction evs with
  | nil => intro p _; simp [runEvents, lastInstall]
  | cons e r ih =>
    intro p hp
    simp only [runEvents]
    cases e with
    | install v =>
      rw [ih _ (by simp [BlockBuild.step, hp])]
      cases h : lastInstall r <;> simp [lastInstall, h, BlockBuild.step, blocksFor, hp]
    | lookBlock n =>
      rw [ih _ (by simp [BlockBuild.step, hp])]
      cases hi : p.installed <;> simp [lastInstall, BlockBuild.step, hi]
    | lookCat =>
      rw [ih _ (by simp [BlockBuild.step, hp])]
      simp [lastInstall, BlockBuild.step]

/-- **history independence**: after ANY sequence of installations, block look-ups and category
look-ups, the block table of the installed instance is `blocksFor base items v` for the LAST installed
version `v` — nothing else of the history matters (and there is no table before the first install). -/
theorem history_independent (base : Dict (List CP)) (items : List Item) (evs : List Event) :
    tableAfter true base items evs = (lastInstall evs).map (blocksFor base items) := by
  unfold tableAfter
  rw [run_installed base items evs _ rfl]
  cases lastInstall evs <;> rfl

/-- the same, in the form "whatever came before and whatever look-ups come after": -/
theorem install_then_lookups (base : Dict (List CP)) (items : List Item) (before after : List Event)
    (v : List Nat) (h : lastInstall after = none) :
    tableAfter true base items (before ++ .install v :: after) = some (blocksFor base items v) := by
  rw [history_independent]
  have : ∀ (l : List Event), lastInstall (l ++ .install v :: after) = some v := by
    intro l
    induction l with
    | nil => simp [lastInstall, h]
    | cons e r ih => cases e <;> simp [lastInstall, ih]
  rw [this]; rfl

/-- test (literals): the hypothesis of `install_then_lookups` is satisfiable with look-ups present -/
example : lastInstall [.lookBlock 3, .lookCat, .lookBlock 7] = none := by decide

open EPV.Gen.C13Blocks

/-- **the aliasing variant (no `.copy()`) violates it**, kernel-checked on the live data: installing
16.0.0 and then 2.1.9 gives a table different from `blocksFor base items 2.1.9` (the older version
inherits the newer blocks), while the code's variant gives exactly that table. -/
theorem alias_variant_history_dependent :
    tableAfter false base items [.install [16, 0, 0], .install [2, 1, 9]]
        ≠ some (blocksFor base items [2, 1, 9])
    ∧ tableAfter true base items [.install [16, 0, 0], .install [2, 1, 9]]
        = some (blocksFor base items [2, 1, 9]) := by decide +kernel

/-- the aliasing variant leaks into what an observer sees: the 2.1.9 view has more blocks -/
theorem alias_variant_view_differs :
    ((tableAfter false base items [.install [16, 0, 0], .install [2, 1, 9]]).map
        (fun a => (view keys a).length))
      ≠ some (view keys (blocksFor base items [2, 1, 9])).length := by decide +kernel

/-- kernel evaluation goes through the strict mirror `derivedS` (proved equal to the model for all
inputs in `Lemmas/BlockBuildStrict`) -/
theorem derived_check : ∀ p ∈ shippedViews, verLt p.1 [3, 1, 0] = true →
    derivedS keys base items p.1 = p.2 := by decide +kernel

/-- **for every installable version below 3.1.0 (2.0.0 … 3.0.1 — the versions that inherit foreign
blocks when the base table is aliased), the table derived by the model from the base table and the
update / removal items equals the table observed on the live `UnicodeData(v)`** (built in a random
order in one process; names, order and code-point lists; no `KeyError`).

PARTIAL: the full statement is `∀ p ∈ shippedViews, view keys (blocksFor base items p.1) = p.2`
(all 32 versions).  The hypothesis `verLt p.1 [3,1,0]` is there only because the kernel needs about a
minute per version for the 300-block tables (quadratic dict-as-list evaluation); for the versions
from 3.1.0 on the same equality is checked on every run by the driver (model = live package), not by
the kernel. -/
theorem derived_eq_shipped_partial : ∀ p ∈ shippedViews, verLt p.1 [3, 1, 0] = true →
    view keys (blocksFor base items p.1) = p.2 := by
  intro p hp hv
  rw [← derivedS_eq]
  exact derived_check p hp hv

/-- test (literals): the hypothesis is satisfiable — seven shipped versions lie below 3.1.0 -/
example : (shippedViews.filter (fun p => verLt p.1 [3, 1, 0])).length = 7 := by decide +kernel

/-- the tables of `hist_blocks_disjoint` (C13Tables: 16.0.0, 6.0.0, 3.0.0, 2.1.9, default, built one
after the other) for the two old versions, 3.0.0 and 2.1.9 (positions 2 and 3), are the derived
tables of those versions -/
theorem hist_blocks_are_derived_partial : ∀ i ∈ [2, 3],
    (EPV.Gen.C13.histBlocks.map (fun p => p.2.map some))[i]?
      = (histVers.map (fun v => (derivedS keys base items v).map (·.2)))[i]? := by decide +kernel

/-- hence, by `history_independent`, the table that ANY history ending with the installation of 3.0.0
or 2.1.9 produces is the table proved pairwise disjoint in `hist_blocks_disjoint`. -/
theorem any_history_hist_table (evs : List Event) (i : Nat) (hi : i ∈ [2, 3]) :
    (histVers[i]?).bind (fun v => (tableAfter true base items (evs ++ [.install v])).map
        (fun a => (view keys a).map (·.2)))
      = (EPV.Gen.C13.histBlocks.map (fun p => p.2.map some))[i]? := by
  rw [hist_blocks_are_derived_partial i hi]
  simp only [List.getElem?_map]
  cases histVers[i]? with
  | none => rfl
  | some v => simp [install_then_lookups base items evs [] v rfl, derivedS_eq]

/-- non-vacuity: all 32 versions, more than 300 names, 20+ items, and the tables differ by version -/
example : shippedViews.length = 32 ∧ 300 < blockNames.length ∧ 20 < items.length
    ∧ (blocksFor base items [2, 1, 9]).blocks.length < (blocksFor base items [16, 0, 0]).blocks.length := by
  decide +kernel

end EPV.C13

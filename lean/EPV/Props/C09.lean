/-
C09 — property theorems for the string functions (model: EPV/Model/Strings.lean, transcription of
the Python; spec: EPV/Spec/FOStrings.lean, transcription of F&O 3.1 / XPath 1.0).
Only statements a reader needs; helper lemmas live in EPV/Lemmas/Strings*.lean.

Reading guide
* `Str = List Nat`     : a string is the list of its code points
* `Num`                : a numeric argument — NaN, ±INF or an exact rational `num/den` (`wf`: den > 0)
* `Strings.f`          : the Python code of function `f`;  `FOStrings.f` : its F&O definition
-/
import EPV.Lemmas.Strings
namespace EPV.C09
open EPV.FOStrings (Str Num Err)
open EPV

/-! ## fn:substring -/

/-- The spec's executable `fn:round` (`floor(x + 1/2)`) is the declarative one: the integer `r`
with `r − 1/2 ≤ x < r + 1/2` (nearest integer, ties toward +∞) — and that integer is unique. -/
theorem spec_round_is_nearest_half_up (n : Int) (d : Nat) (hd : 0 < d) :
    FOStrings.IsRoundHalfUp n d (FOStrings.roundHalfUp n d) ∧
    ∀ r, FOStrings.IsRoundHalfUp n d r → r = FOStrings.roundHalfUp n d :=
  ⟨Strings.specRound_isRound n d hd,
   fun r h => Strings.isRound_unique n d hd r _ h (Strings.specRound_isRound n d hd)⟩

/-- `round_half_up` of the code (floor, then compare twice the remainder with 1) is `fn:round`,
for every rational — in particular every finite double, every decimal, every integer. -/
theorem round_half_up_eq_fn_round (n : Int) (d : Nat) (hd : 0 < d) :
    Strings.roundHalfUp n d = FOStrings.roundHalfUp n d :=
  Strings.roundHalfUp_eq_spec n d hd

/-- `substring(s, a)` of the code returns exactly the characters at the positions `p` with
`fn:round(a) ≤ p` — all strings, all numeric arguments (finite on any grid, negative, ±INF, NaN). -/
theorem substring2_eq_spec (s : Str) (a : Num) (ha : a.wf) :
    Strings.substring2 s a = FOStrings.substring2 s a :=
  Strings.substring2_eq_spec s a ha

/-- `substring(s, a, b)` of the code returns exactly the characters at the positions `p` with
`fn:round(a) ≤ p < fn:round(a) + fn:round(b)` (IEEE rules for ±INF/NaN: `-INF + INF = NaN`,
comparisons with NaN are false) — all strings, all numeric arguments. -/
theorem substring_eq_spec (s : Str) (a b : Num) (ha : a.wf) (hb : b.wf) :
    Strings.substring3 s a b = FOStrings.substring3 s a b :=
  Strings.substring3_eq_spec s a b ha hb

/-- test (literals): the inputs on which the pinned tree failed (F09a, F09d) -/
example : Strings.substring2 [49, 50, 51, 52, 53] (.fin 5 2) = [51, 52, 53] ∧
    Strings.substring3 [49, 50, 51, 52, 53] (.fin 3 2) (.fin 5 2) = [50, 51, 52] ∧
    Strings.substring3 [49, 50, 51, 52, 53] (.fin (-3) 2) (.fin 3 1) = [49] ∧
    Strings.substring2 [49, 50, 51, 52, 53] .ninf = [49, 50, 51, 52, 53] ∧
    Strings.substring3 [49, 50, 51, 52, 53] .ninf .pinf = [] := by decide

/-! ## fn:concat, fn:string-length -/

/-- `concat` is associative: `concat(concat(a,b),c) = concat(a,concat(b,c))`. -/
theorem concat_assoc (a b c : Str) :
    Strings.concat [Strings.concat [a, b], c] = Strings.concat [a, Strings.concat [b, c]] := by
  simp [Strings.concat]

/-- `concat` of the code is the F&O concatenation, any number of arguments. -/
theorem concat_eq_spec (args : List Str) : Strings.concat args = FOStrings.concat args := by
  induction args with
  | nil => rfl
  | cons a as ih => simp_all [Strings.concat, FOStrings.concat]

/-- `string-length(concat(a,b)) = string-length(a) + string-length(b)`; lengths count code points. -/
theorem string_length_append (a b : Str) :
    Strings.stringLength (Strings.concat [a, b]) = Strings.stringLength a + Strings.stringLength b := by
  simp [Strings.stringLength, Strings.concat]

end EPV.C09

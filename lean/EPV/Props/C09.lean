/-
C09 — property theorems for the string functions (model: EPV/Model/Strings.lean, transcription of
the Python; spec: EPV/Spec/FOStrings.lean, transcription of F&O 3.1 / XPath 1.0).
Only statements a reader needs; helper lemmas live in EPV/Lemmas/Strings*.lean.

Reading guide
* `Str = List Nat`     : a string is the list of its code points
* `Num`                : a numeric argument — NaN, ±INF or an exact rational `num/den` (`wf`: den > 0)
* `Strings.f`          : the Python code of function `f`;  `FOStrings.f` : its F&O definition
-/
import EPV.Lemmas.Strings
import EPV.Lemmas.StringsFind
import EPV.Lemmas.StringsTranslate
import EPV.Lemmas.StringsCodepoints
import EPV.Lemmas.StringsNormalize
import EPV.Lemmas.StringsUri
import EPV.Lemmas.StringsCase
import EPV.Lemmas.StringsJoin
import EPV.Lemmas.StringsCollation
import EPV.Lemmas.StringsCollation2
import EPV.Lemmas.StringsToken
import EPV.Lemmas.StringsNumber
import EPV.Lemmas.StringsNumber2
import EPV.Lemmas.StringsCase2
namespace EPV.C09
open EPV.FOStrings (Str Num Err)
open EPV

/-- `%`, `0`–`9`, `A`–`F` are allowed characters: a bounded check -/
local macro "decide_pct" : tactic => `(tactic| (
  intro c hc
  have hlt : c < 128 := by
    unfold Strings.isPctChar at hc
    simp only [Bool.or_eq_true, Bool.and_eq_true, decide_eq_true_eq, beq_iff_eq] at hc
    omega
  revert hc
  revert c
  decide))

/-! ## fn:substring -/

/-- The spec's executable `fn:round` (`floor(x + 1/2)`) is the declarative one: the integer `r`
with `r − 1/2 ≤ x < r + 1/2` (nearest integer, ties toward +∞) — and that integer is unique. -/
theorem spec_round_is_nearest_half_up (n : Int) (d : Nat) (hd : 0 < d) :
    FOStrings.IsRoundHalfUp n d (FOStrings.roundHalfUp n d) ∧
    ∀ r, FOStrings.IsRoundHalfUp n d r → r = FOStrings.roundHalfUp n d :=
  ⟨Strings.specRound_isRound n d hd,
   fun r h => Strings.isRound_unique n d hd r _ h (Strings.specRound_isRound n d hd)⟩

/-- `round_half_up` of the code (floor, then compare twice the remainder with 1) is `fn:round`,
for every rational — in particular every finite double, every decimal, every integer. -/
theorem round_half_up_eq_fn_round (n : Int) (d : Nat) (hd : 0 < d) :
    Strings.roundHalfUp n d = FOStrings.roundHalfUp n d :=
  Strings.roundHalfUp_eq_spec n d hd

/-- `substring(s, a)` of the code returns exactly the characters at the positions `p` with
`fn:round(a) ≤ p` — all strings, all numeric arguments (finite on any grid, negative, ±INF, NaN). -/
theorem substring2_eq_spec (s : Str) (a : Num) (ha : a.wf) :
    Strings.substring2 s a = FOStrings.substring2 s a :=
  Strings.substring2_eq_spec s a ha

/-- `substring(s, a, b)` of the code returns exactly the characters at the positions `p` with
`fn:round(a) ≤ p < fn:round(a) + fn:round(b)` (IEEE rules for ±INF/NaN: `-INF + INF = NaN`,
comparisons with NaN are false) — all strings, all numeric arguments. -/
theorem substring_eq_spec (s : Str) (a b : Num) (ha : a.wf) (hb : b.wf) :
    Strings.substring3 s a b = FOStrings.substring3 s a b :=
  Strings.substring3_eq_spec s a b ha hb

/-- test (literals): the inputs on which the pinned tree failed (F09a, F09d) -/
example : Strings.substring2 [49, 50, 51, 52, 53] (.fin 5 2) = [51, 52, 53] ∧
    Strings.substring3 [49, 50, 51, 52, 53] (.fin 3 2) (.fin 5 2) = [50, 51, 52] ∧
    Strings.substring3 [49, 50, 51, 52, 53] (.fin (-3) 2) (.fin 3 1) = [49] ∧
    Strings.substring2 [49, 50, 51, 52, 53] .ninf = [49, 50, 51, 52, 53] ∧
    Strings.substring3 [49, 50, 51, 52, 53] .ninf .pinf = [] := by decide

/-! ## fn:concat, fn:string-length -/

/-- `concat` is associative: `concat(concat(a,b),c) = concat(a,concat(b,c))`. -/
theorem concat_assoc (a b c : Str) :
    Strings.concat [Strings.concat [a, b], c] = Strings.concat [a, Strings.concat [b, c]] := by
  simp [Strings.concat]

/-- `concat` of the code is the F&O concatenation, any number of arguments. -/
theorem concat_eq_spec (args : List Str) : Strings.concat args = FOStrings.concat args := by
  induction args with
  | nil => rfl
  | cons a as ih => simp_all [Strings.concat, FOStrings.concat]

/-- `string-length(concat(a,b)) = string-length(a) + string-length(b)`; lengths count code points. -/
theorem string_length_append (a b : Str) :
    Strings.stringLength (Strings.concat [a, b]) = Strings.stringLength a + Strings.stringLength b := by
  simp [Strings.stringLength, Strings.concat]


/-! ## substring-before / substring-after / contains / starts-with / ends-with -/

/-- `contains(s,t)` of the code is true exactly when `s = u ++ t ++ v` for some `u`, `v`. -/
theorem contains_iff (s t : Str) : Strings.contains s t = true ↔ FOStrings.Contains s t := by
  unfold Strings.contains FOStrings.Contains
  rw [Strings.pyIn_eq_find]
  constructor
  · intro h
    cases hf : Strings.pyFind t s with
    | none => simp [hf] at h
    | some i =>
      obtain ⟨h1, h2, _⟩ := (Strings.pyFind_eq_some_iff t s i).mp hf
      obtain ⟨u, v, huv, _⟩ := (Strings.occAt_iff t s i h2).mp h1
      exact ⟨u, v, huv⟩
  · rintro ⟨u, v, huv⟩
    cases hf : Strings.pyFind t s with
    | some i => rfl
    | none =>
      have hn := (Strings.pyFind_eq_none_iff t s).mp hf u.length (by simp [huv])
      have := (Strings.occAt_iff t s u.length (by simp [huv])).mpr ⟨u, v, huv, rfl⟩
      simp [hn] at this

/-- Headline: whenever `contains(s,t)`, `concat(substring-before(s,t), t, substring-after(s,t)) = s`. -/
theorem before_after_concat (s t : Str) (h : Strings.contains s t = true) :
    Strings.substringBefore s t ++ t ++ Strings.substringAfter s t = s := by
  unfold Strings.contains at h
  rw [Strings.pyIn_eq_find] at h
  unfold Strings.substringBefore Strings.substringAfter
  cases hf : Strings.pyFind t s with
  | none => simp [hf] at h
  | some i =>
    obtain ⟨h1, h2, _⟩ := (Strings.pyFind_eq_some_iff t s i).mp hf
    simp only
    unfold Strings.occAt at h1
    rw [List.isPrefixOf_iff_prefix, List.prefix_iff_eq_append] at h1
    rw [List.append_assoc, ← List.drop_drop, h1, List.take_append_drop]

/-- `substring-before(s,t)` ends at the *first* occurrence of `t`: `t` follows it in `s`, and no
occurrence of `t` starts earlier.  (When `t` does not occur the result is empty.) -/
theorem substring_before_first (s t : Str) (h : Strings.contains s t = true) :
    FOStrings.OccursAt s t (Strings.substringBefore s t).length ∧
    ∀ j, FOStrings.OccursAt s t j → (Strings.substringBefore s t).length ≤ j := by
  unfold Strings.contains at h
  rw [Strings.pyIn_eq_find] at h
  unfold Strings.substringBefore
  cases hf : Strings.pyFind t s with
  | none => simp [hf] at h
  | some i =>
    obtain ⟨h1, h2, h3⟩ := (Strings.pyFind_eq_some_iff t s i).mp hf
    have hl : (s.take i).length = i := by simp; omega
    simp only [hl]
    refine ⟨(Strings.occAt_iff t s i h2).mp h1, ?_⟩
    intro j hj
    apply Nat.le_of_not_lt
    intro hlt
    have hjs : j ≤ s.length := by omega
    have := (Strings.occAt_iff t s j hjs).mpr hj
    simp [h3 j hlt] at this

theorem substring_before_none (s t : Str) (h : Strings.contains s t = false) :
    Strings.substringBefore s t = [] ∧ Strings.substringAfter s t = [] := by
  unfold Strings.contains at h
  rw [Strings.pyIn_eq_find] at h
  unfold Strings.substringBefore Strings.substringAfter
  cases hf : Strings.pyFind t s with
  | none => exact ⟨rfl, rfl⟩
  | some i => simp [hf] at h

/-- the code's `substring-before` / `substring-after` / `contains` are the executable spec functions
(which try every offset in turn) -/
theorem substring_before_eq_spec (s t : Str) :
    Strings.substringBefore s t = FOStrings.substringBefore s t := by
  unfold Strings.substringBefore FOStrings.substringBefore
  rw [Strings.firstOcc_eq_pyFind]
  cases Strings.pyFind t s <;> rfl

theorem substring_after_eq_spec (s t : Str) :
    Strings.substringAfter s t = FOStrings.substringAfter s t := by
  unfold Strings.substringAfter FOStrings.substringAfter
  rw [Strings.firstOcc_eq_pyFind]
  cases Strings.pyFind t s <;> rfl

theorem contains_eq_spec (s t : Str) : Strings.contains s t = FOStrings.contains s t := by
  unfold Strings.contains FOStrings.contains
  rw [Strings.firstOcc_eq_pyFind, Strings.pyIn_eq_find]

/-- `starts-with(s,t)` is true exactly when `t` is a prefix of `s`. -/
theorem starts_with_iff_prefix (s t : Str) :
    Strings.startsWith s t = true ↔ FOStrings.StartsWith s t := by
  unfold Strings.startsWith Strings.pyStartsWith FOStrings.StartsWith
  rw [List.isPrefixOf_iff_prefix]
  constructor
  · rintro ⟨v, hv⟩; exact ⟨v, hv.symm⟩
  · rintro ⟨v, hv⟩; exact ⟨v, hv.symm⟩

theorem starts_with_eq_spec (s t : Str) : Strings.startsWith s t = FOStrings.startsWith s t := by
  unfold Strings.startsWith Strings.pyStartsWith FOStrings.startsWith
  rw [Bool.eq_iff_iff, List.isPrefixOf_iff_prefix, List.prefix_iff_eq_take, beq_iff_eq]
  exact eq_comm

/-- `ends-with(s,t)` is true exactly when `t` is a suffix of `s`. -/
theorem ends_with_iff_suffix (s t : Str) :
    Strings.endsWith s t = true ↔ FOStrings.EndsWith s t := by
  unfold Strings.endsWith Strings.pyEndsWith FOStrings.EndsWith
  rw [List.isPrefixOf_iff_prefix, List.reverse_prefix]
  constructor
  · rintro ⟨u, hu⟩; exact ⟨u, hu.symm⟩
  · rintro ⟨u, hu⟩; exact ⟨u, hu.symm⟩

theorem ends_with_eq_spec (s t : Str) : Strings.endsWith s t = FOStrings.endsWith s t := by
  rw [Bool.eq_iff_iff, ends_with_iff_suffix]
  unfold FOStrings.endsWith FOStrings.EndsWith
  simp only [Bool.and_eq_true, decide_eq_true_eq, beq_iff_eq]
  constructor
  · rintro ⟨u, rfl⟩
    refine ⟨by simp, ?_⟩
    simp
  · rintro ⟨hl, hd⟩
    have := List.take_append_drop (s.length - t.length) s
    rw [hd] at this
    exact ⟨s.take (s.length - t.length), this.symm⟩

/-! ## translate -/

/-- Headline: `translate` of the code is the F&O function: a character not in the map string is
kept; otherwise the *first* position M of the character in the map string decides — replaced by the
M-th character of the trans string, or dropped when the trans string is too short. -/
theorem translate_eq_spec (arg map trans : Str) :
    Strings.translate arg map trans = FOStrings.translate arg map trans :=
  Strings.translate_eq_spec arg map trans

/-- test (literals): the inputs on which the pinned tree failed (F09b) -/
example : Strings.translate [97, 98, 99, 97] [97, 97] [120, 121] = [120, 98, 99, 120] ∧
    Strings.translate [97, 98, 97] [97, 98, 97] [120] = [120, 120] := by decide


/-! ## normalize-space -/

/-- `normalize-space` of the code (replace TAB/LF/CR by space, split at spaces, drop empty pieces,
join with one space) is the F&O function: strip leading and trailing XML whitespace, then replace
every maximal run of whitespace by one #x20. -/
theorem normalize_space_eq_spec (s : Str) :
    Strings.normalizeSpace s = FOStrings.normalizeSpace s :=
  Strings.normalizeSpace_eq_spec s

/-- `normalize-space(normalize-space(s)) = normalize-space(s)`. -/
theorem normalize_space_idempotent (s : Str) :
    Strings.normalizeSpace (Strings.normalizeSpace s) = Strings.normalizeSpace s :=
  Strings.normalizeSpace_idempotent s

/-- test (literals): NBSP and U+3000 are not XML whitespace (F09c) -/
example : Strings.normalizeSpace [32, 97, 0xA0, 9, 10, 98, 0x3000, 32] = [97, 0xA0, 32, 98, 0x3000] := by
  decide

/-! ## codepoints-to-string / string-to-codepoints -/

/-- Headline: `codepoints-to-string(string-to-codepoints(s)) = s` for every string of XML characters … -/
theorem codepoints_roundtrip (s : Str) (h : ∀ c ∈ s, FOStrings.IsXmlChar (c : Int)) :
    Strings.codepointsToString (Strings.stringToCodepoints s) = .ok s :=
  Strings.codepoints_roundtrip s h

/-- … and FOCH0001 as soon as one code point is not an XML character (so the hypothesis above is
exactly the domain of the round trip, not a convenience). -/
theorem codepoints_roundtrip_error (s : Str) (h : ∃ c ∈ s, ¬ FOStrings.IsXmlChar (c : Int)) :
    Strings.codepointsToString (Strings.stringToCodepoints s) = .error .FOCH0001 :=
  Strings.codepoints_roundtrip_error s h

/-- the hypothesis is satisfiable on a non-trivial string (ASCII, astral, BMP edge) — and fails on NUL -/
example : (∀ c ∈ [65, 0x1F600, 0xFFFD, 9], FOStrings.IsXmlChar ((c : Nat) : Int)) ∧
    Strings.codepointsToString (Strings.stringToCodepoints [65, 0]) = .error .FOCH0001 :=
  ⟨by decide, rfl⟩

/-- the other direction: when `codepoints-to-string(l)` succeeds with `s`, then
`string-to-codepoints(s) = l` and every element of `l` is an XML character. -/
theorem codepoints_to_string_inverse (l : List Int) (s : Str)
    (h : Strings.codepointsToString l = .ok s) :
    Strings.stringToCodepoints s = l ∧ ∀ v ∈ l, FOStrings.IsXmlChar v :=
  Strings.codepointsToString_ok l s h

theorem codepoints_to_string_eq_spec (l : List Int) :
    Strings.codepointsToString l = FOStrings.codepointsToString l :=
  Strings.codepointsToString_eq_spec l

theorem string_to_codepoints_eq_spec (s : Str) :
    Strings.stringToCodepoints s = FOStrings.stringToCodepoints s :=
  Strings.stringToCodepoints_eq_spec s

/-! ## compare / codepoint-equal (Unicode code-point collation) -/

/-- `compare(a,b)` is −1 exactly when `a` sorts before `b` (first differing code point smaller, or
proper prefix), 0 exactly when `a = b`, and 1 exactly when `b` sorts before `a`. -/
theorem compare_iff (a b : Str) :
    (Strings.compare a b = -1 ↔ FOStrings.CpLt a b) ∧
    (Strings.compare a b = 0 ↔ a = b) ∧
    (Strings.compare a b = 1 ↔ FOStrings.CpLt b a) := by
  rw [Strings.compare_eq_spec]
  refine ⟨Strings.specCompare_lt_iff a b, Strings.specCompare_eq_iff a b, ?_⟩
  constructor
  · intro h
    rcases Strings.cpLt_trichotomy a b with h1 | h1 | h1
    · have := (Strings.specCompare_lt_iff a b).mpr h1; omega
    · have := (Strings.specCompare_eq_iff a b).mpr h1; omega
    · exact h1
  · intro h
    rcases Strings.specCompare_range a b with h1 | h1 | h1
    · exact absurd (Strings.cpLt_trans _ _ _ ((Strings.specCompare_lt_iff a b).mp h1) h)
        (Strings.cpLt_irrefl a)
    · have := (Strings.specCompare_eq_iff a b).mp h1
      subst this
      exact absurd h (Strings.cpLt_irrefl a)
    · exact h1

/-- the order behind `compare` is a strict total order on strings -/
theorem codepoint_order_strict_total :
    (∀ a, ¬ FOStrings.CpLt a a) ∧
    (∀ a b c, FOStrings.CpLt a b → FOStrings.CpLt b c → FOStrings.CpLt a c) ∧
    (∀ a b, FOStrings.CpLt a b ∨ a = b ∨ FOStrings.CpLt b a) :=
  ⟨Strings.cpLt_irrefl, Strings.cpLt_trans, Strings.cpLt_trichotomy⟩

theorem compare_eq_spec (a b : Str) : Strings.compare a b = FOStrings.compare a b :=
  Strings.compare_eq_spec a b

/-- `codepoint-equal(a,b)` is true exactly when the two strings are the same code-point sequence. -/
theorem codepoint_equal_iff (a b : Str) : Strings.codepointEqual a b = true ↔ a = b :=
  Strings.codepointEqual_iff a b

theorem codepoint_equal_eq_spec (a b : Str) :
    Strings.codepointEqual a b = FOStrings.codepointEqual a b := by
  rw [Bool.eq_iff_iff, codepoint_equal_iff]
  simp [FOStrings.codepointEqual]

/-! ## string-join -/

theorem string_join_eq_spec (items : List Str) (sep : Str) :
    Strings.stringJoin items sep = FOStrings.stringJoin items sep :=
  Strings.pyJoin_eq_intercalate sep items

/-! ## upper-case / lower-case (case tables are parameters: CPython's) -/

/-- `upper-case` maps every character independently (`str.upper()` is context free). -/
theorem upper_case_eq_spec (up : Nat → Str) (s : Str) :
    Strings.upperCase up s = FOStrings.upperCase up s := rfl

theorem upper_case_append (up : Nat → Str) (a b : Str) :
    Strings.upperCase up (a ++ b) = Strings.upperCase up a ++ Strings.upperCase up b := by
  simp [Strings.upperCase]

/-- `lower-case`: CPython's loop (`handle_capital_sigma` scanning backwards and forwards over
case-ignorable characters) computes the positional Final_Sigma rule, for any tables. -/
theorem lower_case_eq_spec (lo : Nat → Str) (cased ign : Nat → Bool) (s : Str) :
    Strings.lowerCase lo cased ign s = FOStrings.lowerCase lo cased ign s :=
  Strings.lowerCase_eq_spec lo cased ign s

/-! ## encode-for-uri / iri-to-uri / escape-html-uri -/

/-- `urllib.parse.quote` (encode the whole string to UTF-8, then quote byte by byte against the
safe set) is the F&O character-wise definition (a character outside the allowed set is replaced by
the `%HH` of each of its UTF-8 octets) — including the error for surrogate code points. -/
theorem encode_for_uri_eq_spec (s : Str) : Strings.encodeForUri s = FOStrings.encodeForUri s :=
  Strings.encodeForUri_eq_spec s

theorem iri_to_uri_eq_spec (s : Str) : Strings.iriToUri s = FOStrings.iriToUri s :=
  Strings.iriToUri_eq_spec s

theorem escape_html_uri_eq_spec (s : Str) : Strings.escapeHtmlUri s = FOStrings.escapeHtmlUri s :=
  Strings.escapeHtmlUri_eq_spec s

/-- CPython's shift-and-mask UTF-8 encoder is the RFC 3629 table. -/
theorem utf8_eq_rfc3629 (c : Nat) : Strings.utf8Char c = FOStrings.utf8 c :=
  Strings.utf8Char_eq_spec c

/-- `iri-to-uri` and `escape-html-uri` are idempotent (`%` and the hex digits are allowed
characters of both); `encode-for-uri` is not (`%` is escaped to `%25`). -/
theorem iri_to_uri_idempotent (s r : Str) (h : Strings.iriToUri s = .ok r) :
    Strings.iriToUri r = .ok r := by
  rw [iri_to_uri_eq_spec] at h ⊢
  exact Strings.escape_idempotent FOStrings.iriAllowed (by decide_pct) s r h

theorem escape_html_uri_idempotent (s r : Str) (h : Strings.escapeHtmlUri s = .ok r) :
    Strings.escapeHtmlUri r = .ok r := by
  rw [escape_html_uri_eq_spec] at h ⊢
  exact Strings.escape_idempotent FOStrings.htmlAllowed (by decide_pct) s r h

theorem encode_for_uri_not_idempotent :
    Strings.encodeForUri [0x20] = .ok [0x25, 0x32, 0x30] ∧
    Strings.encodeForUri [0x25, 0x32, 0x30] = .ok [0x25, 0x32, 0x35, 0x32, 0x30] := ⟨rfl, rfl⟩

/-- every character of an `encode-for-uri` result is unreserved or one of `%`, `0`–`9`, `A`–`F` -/
theorem encode_for_uri_output (s r : Str) (h : Strings.encodeForUri s = .ok r) :
    ∀ c ∈ r, FOStrings.unreserved c = true ∨ Strings.isPctChar c = true := by
  rw [encode_for_uri_eq_spec] at h
  exact Strings.escape_output FOStrings.unreserved s r h


/-! ## arguments that may be the empty sequence (`xs:string?`) -/

/-- the `default=''` of `get_argument` is the F&O "empty sequence is treated as the zero-length string" -/
theorem arg_default_eq_spec (a : Option Str) : Strings.argDefault a = FOStrings.orEmpty a := by
  cases a <;> rfl

/-- `compare` / `codepoint-equal` return the empty sequence exactly when an argument is one -/
theorem none_if_either_none_eq_spec {α : Type} (f g : Str → Str → α) (h : ∀ a b, f a b = g a b)
    (x y : Option Str) : Strings.noneIfEitherNone f x y = FOStrings.lift2 g x y := by
  cases x <;> cases y <;> simp [Strings.noneIfEitherNone, FOStrings.lift2, h]

/-- `translate` with possibly-empty arguments, XPath 2.0+ (no compatibility mode): XPTY0004 when the
map or trans string is the empty sequence, the F&O function on `orEmpty arg` otherwise. -/
theorem fn_translate_eq_spec (arg m t : Option Str) :
    Strings.fnTranslate false arg m t = FOStrings.fnTranslate arg m t := by
  cases m <;> cases t <;> cases arg <;>
    simp [Strings.fnTranslate, Strings.getArgument, FOStrings.fnTranslate, FOStrings.required,
      Strings.argDefault, FOStrings.orEmpty, Strings.translate_eq_spec, bind, Except.bind, pure, Except.pure]

/-- `translate` in XPath 1.0 (compatibility mode, the XPath1Parser): an empty node-set argument is
the empty string, never an error. -/
theorem fn_translate_xpath1_eq_spec (arg m t : Option Str) :
    Strings.fnTranslate true arg m t = .ok (FOStrings.fnTranslate10 arg m t) := by
  cases m <;> cases t <;> cases arg <;>
    simp [Strings.fnTranslate, Strings.getArgument, FOStrings.fnTranslate10,
      Strings.argDefault, FOStrings.orEmpty, Strings.translate_eq_spec]

theorem fn_string_join_eq_spec (items : List Str) (sep : Option Str) :
    Strings.fnStringJoin items sep = FOStrings.fnStringJoin items sep := by
  cases sep <;>
    simp [Strings.fnStringJoin, FOStrings.fnStringJoin, FOStrings.required, string_join_eq_spec,
      bind, Except.bind, pure, Except.pure]


/-! ## the collation-aware 2.0+ functions (`CollationManager`): code-point and HTML ASCII case-insensitive -/

open EPV.FOStrings (Collation) in
/-- `html_ascii_strxfrm` (a `str.translate` table for A–Z) is F&O 3.1 §5.3.4's
`fn:translate($s, 'ABC…Z', 'abc…z')`; for the code-point collation the key is the string itself. -/
theorem collation_key_eq_spec (col : Collation) (s : Str) :
    Strings.strxfrm col s = FOStrings.collKey col s :=
  Strings.strxfrm_eq_key col s

open EPV.FOStrings (Collation) in
/-- `compare`, `contains`, `starts-with`, `ends-with`, `substring-before`, `substring-after` with a
collation argument are the code-point functions on the collation keys, returning parts of the
*original* first argument. -/
theorem collation_functions_eq_spec (col : Collation) (s t : Str) :
    Strings.compareC col s t = FOStrings.compareC col s t ∧
    Strings.containsC col s t = FOStrings.containsC col s t ∧
    Strings.startsWithC col s t = FOStrings.startsWithC col s t ∧
    Strings.endsWithC col s t = FOStrings.endsWithC col s t ∧
    Strings.substringBeforeC col s t = FOStrings.substringBeforeC col s t ∧
    Strings.substringAfterC col s t = FOStrings.substringAfterC col s t := by
  refine ⟨Strings.compareC_eq_spec col s t, Strings.containsC_eq_spec col s t, ?_, ?_,
    Strings.substringBeforeC_eq_spec col s t, Strings.substringAfterC_eq_spec col s t⟩
  · unfold Strings.startsWithC FOStrings.startsWithC
    rw [Strings.strxfrm_eq_key, Strings.strxfrm_eq_key]
    exact starts_with_eq_spec _ _
  · unfold Strings.endsWithC FOStrings.endsWithC
    rw [Strings.strxfrm_eq_key, Strings.strxfrm_eq_key]
    exact ends_with_eq_spec _ _

open EPV.FOStrings (Collation) in
/-- `before_after_concat` under a collation: when `contains(s,t,col)`, `s` splits as
`substring-before ++ m ++ substring-after` where the matched factor `m` has the length of `t` and is
equal to `t` under the collation (for the code-point collation: `m = t`). -/
theorem before_after_concat_collation (col : Collation) (s t : Str)
    (h : Strings.containsC col s t = true) :
    ∃ m, m.length = t.length ∧ Strings.strxfrm col m = Strings.strxfrm col t ∧
      Strings.substringBeforeC col s t ++ m ++ Strings.substringAfterC col s t = s :=
  Strings.before_after_concat_C col s t h

/-- with the default (code-point) collation the 2.0+ functions are the 1.0 ones -/
theorem collation_codepoint_is_plain (s t : Str) :
    Strings.containsC .codepoint s t = Strings.contains s t ∧
    Strings.startsWithC .codepoint s t = Strings.startsWith s t ∧
    Strings.endsWithC .codepoint s t = Strings.endsWith s t ∧
    Strings.substringBeforeC .codepoint s t = Strings.substringBefore s t ∧
    Strings.substringAfterC .codepoint s t = Strings.substringAfter s t ∧
    Strings.compareC .codepoint s t = Strings.compare s t :=
  ⟨rfl, rfl, rfl, rfl, rfl, rfl⟩

/-- test (literals): only A–Z fold (F09f): `ß` ≠ `ss`, `é` ≠ `É`, and the offset found in the key is
valid in the original string -/
example : Strings.compareC .htmlAscii [0xDF] [115, 115] = 1 ∧ Strings.compareC .htmlAscii [97] [65] = 0 ∧
    Strings.compareC .htmlAscii [0xE9] [0xC9] = 1 ∧
    Strings.substringBeforeC .htmlAscii [0xDF, 120, 121] [89] = [0xDF, 120] := by decide


/-! ## contains-token (3.1) -/

open EPV.FOStrings (Collation) in
/-- `contains-token` of the code (`strip`, `re.split` at runs of XML whitespace, non-empty pieces
compared with `CollationManager.eq`) is the F&O definition
`some $t in $input ! tokenize(.) satisfies compare($t, trim($token), $collation) eq 0`, false for an
empty trimmed token — any number of input strings, both code-point based collations. -/
theorem contains_token_eq_spec (col : Collation) (input : List Str) (token : Str) :
    Strings.containsToken col input token = FOStrings.containsToken col input token :=
  Strings.containsToken_eq_spec col input token

/-! ## non-string arguments: `string_value` of booleans and numbers vs XPath 1.0 `string()` -/

/-- The conversion used by every caller reachable from the XPath 1.0 parser (`compat_string_value`,
fix-c09-4: `string`, `concat`, `string-length`, `normalize-space`, string arguments converted in
compatibility mode) is the XPath 1.0 §4.2 `string()` of every boolean, integer, decimal and double:
NaN, Infinity, -Infinity, 0 for both zeros, integers without point, otherwise digits.digits without
exponent, leading or trailing zeros — at full strength (F09g repaired through this sibling). -/
theorem string_value_xpath1_eq_spec (a : FOStrings.NumArg) (hw : Strings.NumArgWf a) :
    Strings.compatStringValue true a = FOStrings.xp1String a :=
  Strings.compatStringValue_eq_xp1 a hw

/-- test (literals): the F09g inputs through the sibling: +INF, 1e16, 1e-05, -0.0 -/
example : Strings.compatStringValue true (.finf false) = FOStrings.xp1String (.finf false) ∧
    Strings.compatStringValue true (.flt false [1] 17) = [49,48,48,48,48,48,48,48,48,48,48,48,48,48,48,48,48] ∧
    Strings.compatStringValue true (.flt false [1] (-4)) = [48,46,48,48,48,48,49] ∧
    Strings.compatStringValue true (.flt true [0] 1) = [48] := by decide

/-- outside the XPath 1.0 parser the sibling is the unchanged helper -/
theorem compat_string_value_other_versions (a : FOStrings.NumArg) :
    Strings.compatStringValue false a = Strings.stringValue a := by
  cases a with
  | finf neg => cases neg <;> rfl
  | flt neg ds p => rfl
  | bool b => rfl
  | int v => rfl
  | dec n d e => rfl
  | fnan => rfl

/-- About the *unchanged helper* `XPathToken.string_value` (its texts `1E99`, `1E-05`, `INF` are pinned
by the repository's tests; no caller of the XPath 1.0 parser reaches it any more).  Full statement:
for every boolean, integer, decimal and double
`string_value` returns the XPath 1.0 §4.2 `string()` text (NaN, Infinity, -Infinity, 0 for both
zeros, integers without point, otherwise digits.digits without exponent, leading or trailing zeros).
It is proved for all arguments outside `xp1Trigger` (infinite floats, negative zero, floats that
Python prints with an exponent: 0 < |x| < 1e-4 or |x| ≥ 1e16), where the code keeps `INF`, `-0`,
`1E16`; see the counter-examples below.  `NumArgWf`: the digit strings are decimal digits without a
leading zero (what `Decimal._int` and `dtoa` deliver). -/
theorem string_value_xpath1_partial (a : FOStrings.NumArg) (hw : Strings.NumArgWf a)
    (ht : Strings.xp1Trigger a = false) : Strings.stringValue a = FOStrings.xp1String a :=
  Strings.stringValue_eq_xp1 a hw ht

/-- the helper differs from XPath 1.0 `string()` inside the trigger: `+INF`, `1e16`, `1e-05`, `-0.0` -/
theorem string_value_xpath1_fails :
    Strings.stringValue (.finf false) ≠ FOStrings.xp1String (.finf false) ∧
    Strings.stringValue (.flt false [1] 17) ≠ FOStrings.xp1String (.flt false [1] 17) ∧
    Strings.stringValue (.flt false [1] (-4)) ≠ FOStrings.xp1String (.flt false [1] (-4)) ∧
    Strings.stringValue (.flt true [0] 1) ≠ FOStrings.xp1String (.flt true [0] 1) ∧
    Strings.xp1Trigger (.finf false) = true ∧ Strings.xp1Trigger (.flt false [1] 17) = true ∧
    Strings.xp1Trigger (.flt false [1] (-4)) = true ∧ Strings.xp1Trigger (.flt true [0] 1) = true := by
  decide

/-- the hypotheses of the partial theorem are satisfiable on non-trivial values: 12345.678, 1e15,
0.0001, the decimal -12.3400, 100 -/
example : (Strings.NumArgWf (.flt false [1,2,3,4,5,6,7,8] 5) ∧ Strings.xp1Trigger (.flt false [1,2,3,4,5,6,7,8] 5) = false ∧
      Strings.stringValue (.flt false [1,2,3,4,5,6,7,8] 5) = [49,50,51,52,53,46,54,55,56]) ∧
    (Strings.xp1Trigger (.flt false [1] 16) = false ∧ Strings.stringValue (.flt false [1] 16) =
      [49,48,48,48,48,48,48,48,48,48,48,48,48,48,48,48]) ∧
    (Strings.xp1Trigger (.flt false [1] (-3)) = false ∧ Strings.stringValue (.flt false [1] (-3)) = [48,46,48,48,48,49]) ∧
    Strings.stringValue (.dec true [1,2,3,4,0,0] (-4)) = [45,49,50,46,51,52] ∧
    Strings.stringValue (.flt false [1] 3) = [49,48,48] := by
  refine ⟨⟨?_, by decide, by decide⟩, by decide, by decide, by decide, by decide⟩
  exact ⟨⟨by decide, Or.inr ⟨1, [2,3,4,5,6,7,8], rfl, by decide⟩⟩, by decide⟩


/-! ## substring: position arguments that are nodes, untyped values or (XPath 1.0) strings -/

/-- PARTIAL (known finding F09j).  Full statement (XPath 1.0): whatever the kind of the position
arguments — number, node/untyped value, string — `substring` is the spec function on their `number()`
values.  Proved when no position argument that is read is a string; a string raises FORG0006 (pinned
by the repository's test-suite), see the counter-example. -/
theorem fn_substring_xpath1_partial (item : Option Str) (a b : Strings.PosArg)
    (ha : a.value.wf) (hb : b.value.wf) (hsa : a.isString = false) (hsb : b.isString = false) :
    Strings.fnSubstring2 item a = .ok (FOStrings.substring2 (FOStrings.orEmpty item) a.value) ∧
    Strings.fnSubstring3 item a b = .ok (FOStrings.substring3 (FOStrings.orEmpty item) a.value b.value) := by
  have hd := arg_default_eq_spec item
  constructor
  · cases a with
    | string n => simp [Strings.PosArg.isString] at hsa
    | num n => simp only [Strings.fnSubstring2, Strings.posValue, Strings.PosArg.value, hd, substring2_eq_spec _ n ha]
    | untyped n => simp only [Strings.fnSubstring2, Strings.posValue, Strings.PosArg.value, hd, substring2_eq_spec _ n ha]
  · have key : ∀ n m : Num, n.wf → m.wf →
        (match n with
          | .nan => (.ok [] : Except Strings.SubErr Str) | .pinf => .ok [] | .ninf => .ok []
          | .fin _ _ => .ok (Strings.substring3 (Strings.argDefault item) n m))
        = .ok (FOStrings.substring3 (FOStrings.orEmpty item) n m) := by
      intro n m hn hm
      rw [← substring_eq_spec _ n m hn hm, hd]
      cases n <;> simp [Strings.substring3]
    cases a with
    | string n => simp [Strings.PosArg.isString] at hsa
    | num n =>
      cases b with
      | string m => simp [Strings.PosArg.isString] at hsb
      | num m =>
        simp only [Strings.fnSubstring3, Strings.posValue, Strings.PosArg.value]
        have := key n m ha hb
        cases n <;> simpa using this
      | untyped m =>
        simp only [Strings.fnSubstring3, Strings.posValue, Strings.PosArg.value]
        have := key n m ha hb
        cases n <;> simpa using this
    | untyped n =>
      cases b with
      | string m => simp [Strings.PosArg.isString] at hsb
      | num m =>
        simp only [Strings.fnSubstring3, Strings.posValue, Strings.PosArg.value]
        have := key n m ha hb
        cases n <;> simpa using this
      | untyped m =>
        simp only [Strings.fnSubstring3, Strings.posValue, Strings.PosArg.value]
        have := key n m ha hb
        cases n <;> simpa using this

/-- F09j: `substring('12345', '2')` with the XPath 1.0 parser is an error, XPath 1.0 says `'2345'` -/
theorem fn_substring_xpath1_fails :
    Strings.fnSubstring2 (some [49, 50, 51, 52, 53]) (.string (.fin 2 1)) = .error .FORG0006 ∧
    FOStrings.substring2 [49, 50, 51, 52, 53] (.fin 2 1) = [50, 51, 52, 53] := ⟨rfl, by decide⟩


/-! ## parser option `default_collation`, repeated evaluation -/

open EPV.FOStrings (Collation) in
/-- The 2-argument forms use the parser's default collation, the 3-argument forms the given one: every
collation-sensitive function of the code is the spec function under `chosenCollation default arg`
(so with `default_collation` = HTML ASCII case-insensitive, `substring-before(s,t)` folds case exactly
like `contains(s,t)` does). -/
theorem default_collation_used_when_absent (d : Collation) (c : Option Collation) (a b : Option Str) :
    Strings.fnContains d c a b =
      FOStrings.containsC (FOStrings.chosenCollation d c) (FOStrings.orEmpty a) (FOStrings.orEmpty b) ∧
    Strings.fnStartsWith d c a b =
      FOStrings.startsWithC (FOStrings.chosenCollation d c) (FOStrings.orEmpty a) (FOStrings.orEmpty b) ∧
    Strings.fnEndsWith d c a b =
      FOStrings.endsWithC (FOStrings.chosenCollation d c) (FOStrings.orEmpty a) (FOStrings.orEmpty b) ∧
    Strings.fnSubstringBefore d c a b =
      FOStrings.substringBeforeC (FOStrings.chosenCollation d c) (FOStrings.orEmpty a) (FOStrings.orEmpty b) ∧
    Strings.fnSubstringAfter d c a b =
      FOStrings.substringAfterC (FOStrings.chosenCollation d c) (FOStrings.orEmpty a) (FOStrings.orEmpty b) ∧
    Strings.fnCompare d c a b = FOStrings.lift2 (FOStrings.compareC (FOStrings.chosenCollation d c)) a b := by
  have hc : Strings.callCollation d c = FOStrings.chosenCollation d c := by cases c <;> rfl
  have ha := arg_default_eq_spec a
  have hb := arg_default_eq_spec b
  obtain ⟨h1, h2, h3, h4, h5, h6⟩ :=
    collation_functions_eq_spec (FOStrings.chosenCollation d c) (FOStrings.orEmpty a) (FOStrings.orEmpty b)
  unfold Strings.fnContains Strings.fnStartsWith Strings.fnEndsWith Strings.fnSubstringBefore
    Strings.fnSubstringAfter Strings.fnCompare
  rw [hc, ha, hb]
  refine ⟨h2, h3, h4, h5, h6, ?_⟩
  exact none_if_either_none_eq_spec _ _ (fun x y => Strings.compareC_eq_spec _ x y) a b

open EPV.FOStrings (Collation) in
/-- `before ++ m ++ after = s` holds under whatever collation the call uses — default or explicit —
because `contains`, `substring-before` and `substring-after` choose it the same way. -/
theorem before_after_concat_default (d : Collation) (c : Option Collation) (s t : Str)
    (h : Strings.fnContains d c (some s) (some t) = true) :
    ∃ m, m.length = t.length ∧
      Strings.strxfrm (Strings.callCollation d c) m = Strings.strxfrm (Strings.callCollation d c) t ∧
      Strings.fnSubstringBefore d c (some s) (some t) ++ m ++ Strings.fnSubstringAfter d c (some s) (some t) = s :=
  Strings.before_after_concat_C (Strings.callCollation d c) s t h

/-- A history of evaluations of one parsed call is the list of the single-call results, and leaves no
state behind: the modelled evaluate methods write nothing (the harness checks the real token the
same way: one parsed expression re-evaluated with other variables and context items, `for` products). -/
theorem history_eq_map {α β : Type} (f : α → β) (calls : List α) :
    Strings.evalHistory f () calls = ((), calls.map f) := by
  induction calls with
  | nil => rfl
  | cons a as ih => simp [Strings.evalHistory, ih]

/-- `for $x in X, $y in Y return f($x,$y)` with a modelled function is the product of single calls;
in particular results do not depend on what was evaluated before (`translate` with the same map
string and another trans string included). -/
theorem for_product_eq_single_calls (xs ys zs : List Str) :
    FOStrings.forProduct3 Strings.translate xs ys zs =
      xs.flatMap (fun x => ys.flatMap fun y => zs.map fun z => FOStrings.translate x y z) ∧
    FOStrings.forProduct2 Strings.substringBefore xs ys =
      xs.flatMap (fun x => ys.map fun y => FOStrings.substringBefore x y) := by
  constructor
  · unfold FOStrings.forProduct3
    simp only [translate_eq_spec]
  · unfold FOStrings.forProduct2
    simp only [substring_before_eq_spec]


/-! ## Final_Sigma: the two readings; codepoints-to-string on arbitrary items -/

/-- For any tables in which no character is both Cased and Case_Ignorable, CPython's `lower()` is the
default lower-casing with Final_Sigma read literally (Unicode Table 3-17). -/
theorem lower_case_eq_literal (lo : Nat → Str) (cased ign : Nat → Bool)
    (h : ∀ c, ¬ (cased c = true ∧ ign c = true)) (s : Str) :
    Strings.lowerCase lo cased ign s = FOStrings.lowerCaseLiteral lo cased ign s :=
  Strings.lowerCase_eq_literal lo cased ign h s

/-- PARTIAL (known finding F09k).  Full statement: on any sequence of items `codepoints-to-string`
raises the error the function conversion rules prescribe for the first unacceptable item (FORG0001 for
an untyped value that is not an integer, XPTY0004 for any other non-integer, FOCH0001 for an integer
that is not an XML character) and otherwise returns the string.  Proved whenever that first
unacceptable item is not a non-integer *number*, for which the code answers FORG0006 (pinned by the
suite). -/
theorem codepoints_to_string_items_partial (l : List FOStrings.CpItem)
    (h : Strings.cpItemsTrigger l = false) :
    Strings.codepointsToStringItems l = FOStrings.codepointsToStringItems l :=
  Strings.codepointsToStringItems_eq_spec l h

/-- F09k witness: `codepoints-to-string((65, 2309.1))` -/
theorem codepoints_to_string_items_fails :
    Strings.codepointsToStringItems [.int 65, .other] = .error .FORG0006 ∧
    FOStrings.codepointsToStringItems [.int 65, .other] = .error .XPTY0004 ∧
    Strings.cpItemsTrigger [.int 65, .other] = true := ⟨rfl, rfl, rfl⟩

/-- the hypothesis is satisfiable on a non-trivial sequence: an integer, an untyped `66`, a string -/
example : Strings.cpItemsTrigger [.int 65, .untyped (some 66), .str] = false ∧
    Strings.codepointsToStringItems [.int 65, .untyped (some 66)] = .ok [65, 66] := ⟨rfl, rfl⟩


/-! ## F&O §5.5 with a collation, declaratively: collation-equal factors, first position, minimal match
(`collEq col m t` is `compare(m, t, col) eq 0` of the spec; `CollationManager.find` = the first such
factor; holds for the collation given as argument and for the parser's default alike) -/

open EPV.FOStrings (Collation) in
/-- Headline.  Whichever way the collation is chosen (3rd argument or the parser's
`default_collation`), for all strings:
* `contains(s,t)` iff some factor `m` of `s` satisfies `compare(m, t) eq 0`;
* if so, `s = substring-before(s,t) ++ m ++ substring-after(s,t)` for a factor `m` with
  `compare(m, t) eq 0` — the match is at the FIRST position (no such factor of `s` starts earlier) and
  it is MINIMAL (every such factor has exactly the length of `t`);
* if not, both functions return the empty string;
* `starts-with` / `ends-with` hold iff a prefix / suffix of `s` satisfies `compare(·, t) eq 0`. -/
theorem collation_match_first_minimal (d : Collation) (c : Option Collation) (s t : Str) :
    let col := FOStrings.chosenCollation d c
    (Strings.fnContains d c (some s) (some t) = true ↔
        ∃ b m a, s = b ++ m ++ a ∧ FOStrings.compareC col m t = 0) ∧
    (Strings.fnContains d c (some s) (some t) = true →
        (∃ m, FOStrings.compareC col m t = 0 ∧
          s = Strings.fnSubstringBefore d c (some s) (some t) ++ m ++ Strings.fnSubstringAfter d c (some s) (some t)) ∧
        ∀ b' m' a', s = b' ++ m' ++ a' → FOStrings.compareC col m' t = 0 →
          (Strings.fnSubstringBefore d c (some s) (some t)).length ≤ b'.length ∧ m'.length = t.length) ∧
    (Strings.fnContains d c (some s) (some t) = false →
        Strings.fnSubstringBefore d c (some s) (some t) = [] ∧ Strings.fnSubstringAfter d c (some s) (some t) = []) ∧
    (Strings.fnStartsWith d c (some s) (some t) = true ↔ ∃ m a, s = m ++ a ∧ FOStrings.compareC col m t = 0) ∧
    (Strings.fnEndsWith d c (some s) (some t) = true ↔ ∃ b m, s = b ++ m ∧ FOStrings.compareC col m t = 0) := by
  have hc : Strings.callCollation d c = FOStrings.chosenCollation d c := by cases c <;> rfl
  simp only [Strings.fnContains, Strings.fnSubstringBefore, Strings.fnSubstringAfter, Strings.fnStartsWith,
    Strings.fnEndsWith, Strings.argDefault, hc]
  generalize FOStrings.chosenCollation d c = col
  refine ⟨Strings.containsC_iff col s t, ?_, ?_, Strings.startsWithC_iff col s t, Strings.endsWithC_iff col s t⟩
  · intro h
    constructor
    · obtain ⟨m, _, hk, hcat⟩ := Strings.before_after_concat_C col s t h
      exact ⟨m, (Strings.collEq_iff col m t).mpr hk, hcat.symm⟩
    · intro b' m' a' hs hm
      exact Strings.match_first_minimal col s t h b' m' a' hs hm
  · intro h
    unfold Strings.containsC at h
    rw [Strings.pyIn_eq_find] at h
    unfold Strings.substringBeforeC Strings.substringAfterC Strings.findC
    cases hf : Strings.pyFind (Strings.strxfrm col t) (Strings.strxfrm col s) with
    | none => exact ⟨rfl, rfl⟩
    | some i => simp [hf] at h

/-- the hypotheses are satisfiable and the statement is not about the code-point collation only:
under the HTML ASCII case-insensitive collation (here as parser default, 2-argument call) `'Y'` is
found in `'aybY'` at its first, lower-case occurrence -/
example : Strings.fnContains .htmlAscii none (some [97, 121, 98, 89]) (some [89]) = true ∧
    Strings.fnSubstringBefore .htmlAscii none (some [97, 121, 98, 89]) (some [89]) = [97] ∧
    Strings.fnSubstringAfter .htmlAscii none (some [97, 121, 98, 89]) (some [89]) = [98, 89] ∧
    FOStrings.compareC .htmlAscii [121] [89] = 0 ∧
    Strings.fnContains .codepoint none (some [97, 121, 98]) (some [89]) = false := by decide

end EPV.C09

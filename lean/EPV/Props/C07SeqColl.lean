/-
C07 (phase 5) — property theorems: the SEQUENCE RULES of the value comparison and the existential
semantics of the general comparison under ANY default collation (Unicode codepoint and
html-ascii-case-insensitive) and implicit timezone.

* `valueCmpC c itz m op L R`, `generalCmpC c itz m op L R` : the Python evaluators under default collation
  `c` (EPV/Model/Compare.lean: `get_atomized_operand` + the value-comparison lattice, resp. the `any` loop
  over `iter_comparison_data`, both with `collation_operator` wrapped around the Python operator)
* `CmpSpec.seqRule`, `CmpSpec.valueSeqAllowedC` : XPath 3.1 §3.7.1 rules 1-4 through the pair rule `pairSpecC`
  (EPV/Spec/FOCompareSeqC.lean);  `CmpSpec.valueAllowedC` : the same rules through `valueOpC` (FOCompare.lean)
Helper lemmas: EPV/Lemmas/CompareSeqColl.lean.
-/
import EPV.Props.C07
import EPV.Lemmas.CompareSeqColl
namespace EPV.C07
open EPV.Cmp EPV.CmpSpec EPV.CmpFind

/-! ## value comparison of sequences under a collation -/

/-- SEQUENCE RULES, full strength (every collation, implicit timezone, parser mode, operator, operand
sequences of any length and content; no hypothesis): a left operand of two or more items raises XPTY0004;
so does a right operand of two or more items behind a left operand of at most one item; otherwise an
empty operand gives the empty sequence; and two single items are compared by the pair function on their
atoms, a node / untypedAtomic operand as a string. -/
theorem value_seq_rules_coll (c : Coll) (itz : Option Int) (m : Mode) (op : Op) (L Rr : List Item) :
    (2 ≤ L.length → valueCmpC c itz m op L Rr = .error .XPTY0004) ∧
    (L.length ≤ 1 → 2 ≤ Rr.length → valueCmpC c itz m op L Rr = .error .XPTY0004) ∧
    (L.length ≤ 1 → Rr.length ≤ 1 → (L = [] ∨ Rr = []) → valueCmpC c itz m op L Rr = .ok none) ∧
    (∀ x y, L = [x] → Rr = [y] →
      valueCmpC c itz m op L Rr =
        (valuePairC c itz m op (castUAStr (atomize m x)) (castUAStr (atomize m y))).map some) := by
  refine ⟨?_, ?_, ?_, ?_⟩
  · intro h
    match L, h with
    | x :: y :: T, _ => exact valueCmpC_long_left c itz m op x y T Rr
  · intro hL h
    match Rr, h with
    | x :: y :: T, _ => exact valueCmpC_long_right c itz m op x y L T hL
  · exact valueCmpC_empty c itz m op L Rr
  · rintro x y rfl rfl
    rw [valueCmpC_single, valuePairC_fill]

/-- tests (literals) of the four rules under html-ascii-case-insensitive: ('a','B') eq 'A' raises,
'a' eq ('A','B') raises, () eq 'A' is empty, <e>a</e> eq 'A' is true (false under the codepoint collation) -/
example :
    valueCmpC .asciiCI none .v2 .eq [.atom (.str [97]), .atom (.str [66])] [.atom (.str [65])] = .error .XPTY0004 ∧
    valueCmpC .asciiCI none .v2 .eq [.atom (.str [97])] [.atom (.str [65]), .atom (.str [66])] = .error .XPTY0004 ∧
    valueCmpC .asciiCI none .v2 .eq [] [.atom (.str [65])] = .ok none ∧
    valueCmpC .asciiCI none .v2 .eq [.node [97]] [.atom (.str [65])] = .ok (some true) ∧
    valueCmpC .codepoint none .v2 .eq [.node [97]] [.atom (.str [65])] = .ok (some false) := by decide +kernel

/-- SPEC COHERENCE: §3.7.1 transcribed through the value comparison of two atoms (`valueAllowedC`) and
through the pair rule of the general comparison (`valueSeqAllowedC`: `pairSpecC` on the two atoms after
the cast of rule 4) permit the same outcomes, on every input. -/
theorem value_seq_spec_coherent (c : Coll) (itz : Option Int) (m : Mode) (op : Op) (L Rr : List Item) :
    valueSeqAllowedC c itz m op L Rr = valueAllowedC c itz m op L Rr :=
  valueSeqAllowedC_eq c itz m op L Rr

/-- THE CODE'S RULES AGAINST THE SPECIFICATION'S CLASSIFICATION, full strength: where rule 2 alone applies
the code returns the empty sequence, where rule 3 alone applies XPTY0004, where both apply XPTY0004 (one
of the two permitted outcomes), and where rule 4 applies the pair function on exactly the two atoms the
specification names (atomized, given the implicit timezone, untypedAtomic cast to string). -/
theorem value_seq_by_rule_coll (c : Coll) (itz : Option Int) (m : Mode) (op : Op) (L Rr : List Item) :
    match seqRule itz m L Rr with
    | .empty => valueCmpC c itz m op L Rr = .ok none
    | .long => valueCmpC c itz m op L Rr = .error .XPTY0004
    | .emptyOrLong => valueCmpC c itz m op L Rr = .error .XPTY0004
    | .pair a b => valueCmpC c itz m op L Rr = (valuePairWith (pyOpC c m op) op a b).map some :=
  valueCmpC_by_rule c itz m op L Rr

/-- PARTIAL (findings F07, F07-promotion — both about xs:float only).  Value comparison of two operand
SEQUENCES under any default collation and implicit timezone (2.0, 2.0-compatibility and 3.1 parsers): the
outcome is one §3.7.1 permits.  Hypotheses only where rule 4 applies AND the two atoms are not both
string-like: the two trigger predicates off, timezones within ±14:00, lexical fragment.  For operands
decided by rules 2-3 and for string-like singletons (where the collation acts) there is no hypothesis.
The full statement (no trigger hypothesis) is false: `float_eq_and_lt_witness`, `float_promotion_witness`. -/
theorem value_seq_conforms_coll_partial (c : Coll) (itz : Option Int) (m : Mode) (op : Op) (L Rr : List Item)
    (hm : m ≠ .v1)
    (hpair : ∀ a b, seqRule itz m L Rr = .pair a b → (isStrLike3 a && isStrLike3 b) = false →
      trigTol op a b = false ∧ trigPromotion a b = false ∧ atomTzOK a = true ∧ atomTzOK b = true ∧
      valueOpC c (binOrdered m) op a b ≠ .error .unsupported) :
    ∃ allowed, valueAllowedC c itz m op L Rr = some allowed ∧
      outOfOR (valueCmpC c itz m op L Rr) ∈ allowed := by
  apply valueSeqC_conforms c itz m op L Rr hm
  intro a b hs
  obtain ⟨hua, hub⟩ := seqRule_pair_noUA itz m L Rr a b hs
  by_cases hstr : (isStrLike3 a && isStrLike3 b) = true
  · have hsa : isStrLike3 a = true := by simp at hstr; exact hstr.1
    have hsb : isStrLike3 b = true := by simp at hstr; exact hstr.2
    refine ⟨valuePairC_strlike c m op a b hsa hsb hua hub, ?_⟩
    obtain ⟨v, hv⟩ := valueOpC_strlike_ok c (binOrdered m) op a b hsa hsb hua hub
    rw [hv]; exact fun h => by cases h
  · have hn : (isStrLike3 a && isStrLike3 b) = false := by simpa using hstr
    obtain ⟨h1, h2, h3, h4, h5⟩ := hpair a b hs hn
    exact ⟨valuePairC_conforms c m op a b hua hub (value_cmp_conforms_partial m op a b hua hub h1 h2 h3 h4), h5⟩

/-- the hypothesis is satisfiable on a non-string singleton pair under the second collation and an
implicit timezone (a timezone-less dateTime against a zoned one: 2 = 1 + 60 min ... the comparison is
decided by the filled timezone), and the conclusion is not trivial there -/
example :
    let L := [Item.atom (.dtm ⟨3600, none⟩)]
    let Rr := [Item.atom (.dtm ⟨0, some (-60)⟩)]
    (∀ a b, seqRule (some 0) .v2 L Rr = .pair a b → (isStrLike3 a && isStrLike3 b) = false →
      trigTol .eq a b = false ∧ trigPromotion a b = false ∧ atomTzOK a = true ∧ atomTzOK b = true ∧
      valueOpC .asciiCI (binOrdered .v2) .eq a b ≠ .error .unsupported) ∧
    valueCmpC .asciiCI (some 0) .v2 .eq L Rr = .ok (some true) ∧
    valueCmpC .asciiCI none .v2 .eq L Rr = .ok (some true) ∧
    valueCmpC .asciiCI (some 60) .v2 .eq L Rr = .ok (some false) ∧
    valueAllowedC .asciiCI (some 60) .v2 .eq L Rr = some [.f] := by
  refine ⟨?_, by decide +kernel, by decide +kernel, by decide +kernel, by decide +kernel⟩
  intro a b hs _
  simp only [seqRule, SeqRule.pair.injEq] at hs
  obtain ⟨rfl, rfl⟩ := hs
  decide +kernel

/-- FULL STRENGTH where the collation acts.  Operand sequences of any length whose items are all
string-like (xs:string, xs:anyURI, xs:untypedAtomic, element nodes of an untyped document), any operator,
either modelled collation, any implicit timezone, every 2.0+ parser: the outcome of the code's value
comparison is one the specification permits — the empty sequence, XPTY0004, or the boolean of
`fn:compare(A, B) op 0` under the default collation.  No trigger hypothesis, no lexical hypothesis. -/
theorem value_seq_conforms_coll_strings (c : Coll) (itz : Option Int) (m : Mode) (op : Op) (L Rr : List Item)
    (hm : m ≠ .v1)
    (hL : ∀ x ∈ L, isStrLike3 (atomize m x) = true) (hR : ∀ y ∈ Rr, isStrLike3 (atomize m y) = true) :
    ∃ allowed, valueAllowedC c itz m op L Rr = some allowed ∧
      outOfOR (valueCmpC c itz m op L Rr) ∈ allowed := by
  apply value_seq_conforms_coll_partial c itz m op L Rr hm
  intro a b hs hn
  exfalso
  obtain ⟨x, y, rfl, rfl, rfl, rfl⟩ := seqRule_pair_inv itz m _ _ a b hs
  rw [specAtom_strlike itz m x (hL x (by simp)), specAtom_strlike itz m y (hR y (by simp))] at hn
  cases hn

/-- the hypotheses are satisfiable on sequences of every rule, and the outcome depends on the collation:
a node 'aBd' le the anyURI 'ABD' is true under html-ascii-case-insensitive, false under codepoint -/
example :
    (∀ x ∈ [Item.node [97, 66, 100]], isStrLike3 (atomize .v31 x) = true) ∧
    (∀ y ∈ [Item.atom (.uri [65, 66, 68])], isStrLike3 (atomize .v31 y) = true) ∧
    valueCmpC .asciiCI none .v31 .le [.node [97, 66, 100]] [.atom (.uri [65, 66, 68])] = .ok (some true) ∧
    valueAllowedC .asciiCI none .v31 .le [.node [97, 66, 100]] [.atom (.uri [65, 66, 68])] = some [.t] ∧
    valueCmpC .codepoint none .v31 .le [.node [97, 66, 100]] [.atom (.uri [65, 66, 68])] = .ok (some false) ∧
    valueAllowedC .asciiCI none .v31 .le [] [.atom (.ua [97]), .atom (.str [65])] = some [.empty, .err .XPTY0004] ∧
    valueCmpC .asciiCI none .v31 .le [] [.atom (.ua [97]), .atom (.str [65])] = .error .XPTY0004 := by
  refine ⟨by decide, by decide, by decide +kernel, by decide +kernel, by decide +kernel, by decide +kernel,
    by decide +kernel⟩

/-! ## general comparison under a collation = existential over the pairs -/

/-- Outside compatibility mode the general comparison under any default collation and implicit timezone
is the `any` loop over the cartesian product of the atomized operands (left operand outermost), with the
collation-aware pair function. -/
theorem general_is_any_coll (c : Coll) (itz : Option Int) (m : Mode) (op : Op) (L Rr : List Item)
    (hm : m.compat = false) :
    generalCmpC c itz m op L Rr =
      anyPairs (pairGeneralC c itz m op) (product (L.map (atomize m)) (Rr.map (atomize m))) := by
  simp [generalCmpC, generalCmpWith, hm]

/-- soundness half under a collation: true only if some pair compares true under that collation -/
theorem general_exists_sound_coll (c : Coll) (itz : Option Int) (m : Mode) (op : Op) (L Rr : List Item)
    (hm : m.compat = false) (h : generalCmpC c itz m op L Rr = .ok true) :
    ∃ x ∈ L, ∃ y ∈ Rr, pairGeneralC c itz m op (atomize m x) (atomize m y) = .ok true := by
  rw [general_is_any_coll c itz m op L Rr hm] at h
  obtain ⟨⟨a, b⟩, hp, hf⟩ := anyPairs_true h
  obtain ⟨ha, hb⟩ := mem_product.mp hp
  obtain ⟨x, hx, rfl⟩ := List.mem_map.mp ha
  obtain ⟨y, hy, rfl⟩ := List.mem_map.mp hb
  exact ⟨x, hx, y, hy, hf⟩

/-- completeness half under a collation: some pair true and no pair raising ⇒ true -/
theorem general_exists_complete_coll (c : Coll) (itz : Option Int) (m : Mode) (op : Op) (L Rr : List Item)
    (hm : m.compat = false)
    (ht : ∃ x ∈ L, ∃ y ∈ Rr, pairGeneralC c itz m op (atomize m x) (atomize m y) = .ok true)
    (hn : ∀ x ∈ L, ∀ y ∈ Rr, ∃ v, pairGeneralC c itz m op (atomize m x) (atomize m y) = .ok v) :
    generalCmpC c itz m op L Rr = .ok true := by
  rw [general_is_any_coll c itz m op L Rr hm]
  apply anyPairs_complete
  · obtain ⟨x, hx, y, hy, h⟩ := ht
    exact ⟨(atomize m x, atomize m y),
      mem_product.mpr ⟨List.mem_map.mpr ⟨x, hx, rfl⟩, List.mem_map.mpr ⟨y, hy, rfl⟩⟩, h⟩
  · intro ⟨a, b⟩ hp
    obtain ⟨ha, hb⟩ := mem_product.mp hp
    obtain ⟨x, hx, rfl⟩ := List.mem_map.mp ha
    obtain ⟨y, hy, rfl⟩ := List.mem_map.mp hb
    exact hn x hx y hy

/-- under a collation: false exactly when every pair compares false (no error anywhere) -/
theorem general_false_iff_all_false_coll (c : Coll) (itz : Option Int) (m : Mode) (op : Op) (L Rr : List Item)
    (hm : m.compat = false) :
    generalCmpC c itz m op L Rr = .ok false ↔
      ∀ x ∈ L, ∀ y ∈ Rr, pairGeneralC c itz m op (atomize m x) (atomize m y) = .ok false := by
  rw [general_is_any_coll c itz m op L Rr hm, anyPairs_false]
  constructor
  · intro h x hx y hy
    exact h (atomize m x, atomize m y)
      (mem_product.mpr ⟨List.mem_map.mpr ⟨x, hx, rfl⟩, List.mem_map.mpr ⟨y, hy, rfl⟩⟩)
  · intro h ⟨a, b⟩ hp
    obtain ⟨ha, hb⟩ := mem_product.mp hp
    obtain ⟨x, hx, rfl⟩ := List.mem_map.mp ha
    obtain ⟨y, hy, rfl⟩ := List.mem_map.mp hb
    exact h x hx y hy

/-- under a collation: an error code raised by a general comparison is the error of one of its pairs -/
theorem general_error_from_pair_coll (c : Coll) (itz : Option Int) (m : Mode) (op : Op) (L Rr : List Item)
    (hm : m.compat = false) (e : Err) (h : generalCmpC c itz m op L Rr = .error e) :
    ∃ x ∈ L, ∃ y ∈ Rr, pairGeneralC c itz m op (atomize m x) (atomize m y) = .error e := by
  rw [general_is_any_coll c itz m op L Rr hm] at h
  obtain ⟨⟨a, b⟩, hp, hf⟩ := anyPairs_error h
  obtain ⟨ha, hb⟩ := mem_product.mp hp
  obtain ⟨x, hx, rfl⟩ := List.mem_map.mp ha
  obtain ⟨y, hy, rfl⟩ := List.mem_map.mp hb
  exact ⟨x, hx, y, hy, hf⟩

/-- VALUE vs GENERAL on singletons of strings, any collation: where the value comparison of two single
string-like items yields a boolean, the general comparison of the same operands yields the same boolean
for the strings / anyURIs (both are the collation-key comparison) -/
theorem value_general_agree_strings_coll (c : Coll) (itz : Option Int) (m : Mode) (op : Op) (s t : Str)
    (hm : m = .v2 ∨ m = .v31) :
    valueCmpC c itz m op [.atom (.str s)] [.atom (.str t)] = .ok (some (six (collLtS c) (collEqS c) op s t)) ∧
    generalCmpC c itz m op [.atom (.str s)] [.atom (.str t)] = .ok (six (collLtS c) (collEqS c) op s t) := by
  have hv := (value_cmp_order_string_coll c).1 itz m op s t
  constructor
  · rw [(value_seq_rules_coll c itz m op _ _).2.2.2 _ _ rfl rfl]
    simp only [atomize, castUAStr, hv.1, Except.map]
  · have hcompat : m.compat = false := by rcases hm with rfl | rfl <;> rfl
    rw [general_is_any_coll c itz m op _ _ hcompat]
    have h6 : pairGeneral m op (.str s) (.str t) ≠ .error .unsupported := by
      rw [(pg_str_str m op s t).1]; simp [pairSpec, valueOp, numRank]
    have hg := pgC_str c m op (.str s) (.str t) rfl h6
    simp only [List.map, atomize, product, List.flatMap_cons, List.flatMap_nil, List.append_nil, anyPairs,
      pairGeneralC_fill, Atom.fillTz, hg, pairSpecC, valueOpC]
    cases six (collLtS c) (collEqS c) op s t <;> rfl

/-- tests (literals): ('x','A') = ('b','a') is true under html-ascii-case-insensitive through the pair
('A','a') and false under the codepoint collation, where every pair is false -/
example :
    generalCmpC .asciiCI none .v2 .eq [.atom (.str [120]), .atom (.str [65])] [.atom (.str [98]), .atom (.str [97])] = .ok true ∧
    pairGeneralC .asciiCI none .v2 .eq (.str [65]) (.str [97]) = .ok true ∧
    (∀ x ∈ [Item.atom (.str [120]), .atom (.str [65])], ∀ y ∈ [Item.atom (.str [98]), .atom (.str [97])],
      pairGeneralC .codepoint none .v2 .eq (atomize .v2 x) (atomize .v2 y) = .ok false) := by
  refine ⟨by decide +kernel, by decide +kernel, ?_⟩
  intro x hx y hy
  simp at hx hy
  rcases hx with rfl | rfl <;> rcases hy with rfl | rfl <;> decide +kernel

end EPV.C07

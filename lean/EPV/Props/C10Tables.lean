/-
C10 — theorems over the *generated* tables (EPV/Gen/C10Tables.lean is rewritten from the live
elementpath on every run: `_lower_bound/_higher_bound` and `__mro__` of the integer classes, the white
space sets of the live regexes, the source text of every `pattern`).  `decide +kernel` re-checks them
against what the code says now; no axioms.
-/
import EPV.Gen.C10Tables
import EPV.Lemmas.LexicalInt
namespace EPV.C10
open EPV.Gen.C10 EPV.LexLemmas

/-- the live table as (name, Bounds) -/
def liveBounds : List (String × Lex.Bounds) := intTable.map fun r => (r.1, ⟨r.2.1, r.2.2.1⟩)

/-- The bounds stored in the classes are the bounds the Lean model uses (every row, same number of rows). -/
theorem int_table_eq_model :
    liveBounds.length = Lex.intBounds.length ∧
    ∀ r ∈ liveBounds, Lex.boundsOf r.1 = some r.2 := by decide +kernel

/-- **int_bounds_spec** (table half).  Every integer class of the live code has exactly the
minInclusive / maxInclusive facets of XSD 1.1 Part 2 §3.4.13–3.4.25 (byte −128..127, short, int, long,
unsignedByte 0..255, …, positiveInteger ≥ 1, nonPositiveInteger ≤ 0, negativeInteger ≤ −1,
nonNegativeInteger ≥ 0; the stored higher bound is exclusive, hence `− 1`), and every XSD integer type is
present. -/
theorem int_bounds_spec :
    (∀ r ∈ intTable, (r.1, r.2.1, r.2.2.1.map (· - 1)) ∈ XSD.integerFacets) ∧
    (∀ f ∈ XSD.integerFacets, ∃ r ∈ intTable, r.1 = f.1) ∧
    intTable.length = XSD.integerFacets.length := by decide +kernel

/-- **int_bounds_spec** (for-all-integers half): for every live class and every integer `v`, the
constructor's range check accepts `v` iff `v` satisfies the XSD facets of that type. -/
theorem int_bounds_spec_all (r : String × Option Int × Option Int × List String) (hr : r ∈ intTable)
    (v : Int) :
    ∃ f ∈ XSD.integerFacets, f.1 = r.1 ∧
      Lex.Bounds.ok ⟨r.2.1, r.2.2.1⟩ v = XSD.inFacets f.2.1 f.2.2 v := by
  refine ⟨(r.1, r.2.1, r.2.2.1.map (· - 1)), int_bounds_spec.1 r hr, rfl, ?_⟩
  exact bounds_ok_iff_facets ⟨r.2.1, r.2.2.1⟩ v

def loLe : Option Int → Option Int → Bool
  | none, _ => true
  | some _, none => false
  | some a, some b => decide (a ≤ b)

def hiLe : Option Int → Option Int → Bool
  | _, none => true
  | none, some _ => false
  | some a, some b => decide (a ≤ b)

def rowOf (n : String) : Option (Option Int × Option Int) :=
  (intTable.find? (·.1 == n)).map fun r => (r.2.1, r.2.2.1)

def nestsIn (r : String × Option Int × Option Int × List String) (base : String) : Bool :=
  match rowOf base with
  | some (blo, bhi) => loLe blo r.2.1 && hiLe r.2.2.1 bhi
  | none => false

def xsdBaseOk (r : String × Option Int × Option Int × List String) : Bool :=
  match r.2.2.2.head? with
  | some b => XSD.integerBase.contains (r.1, b)
  | none => r.1 == "integer"

/-- **nesting along the generated MRO**: the range of every class lies inside the range of every
integer class it inherits from, and the first base in the MRO is the XSD base type (§3.4 derivation). -/
theorem int_mro_nests :
    (∀ r ∈ intTable, ∀ base ∈ r.2.2.2, nestsIn r base = true) ∧
    (∀ r ∈ intTable, xsdBaseOk r = true) := by decide +kernel

/-- consequence of `int_mro_nests`, for every integer: a value accepted by a class is accepted by each
of its bases -/
theorem loLe_hiLe_sound (blo bhi lo hi : Option Int) (h1 : loLe blo lo = true) (h2 : hiLe hi bhi = true)
    (v : Int) (hv : Lex.Bounds.ok ⟨lo, hi⟩ v = true) : Lex.Bounds.ok ⟨blo, bhi⟩ v = true := by
  cases blo <;> cases bhi <;> cases lo <;> cases hi <;>
    simp_all [Lex.Bounds.ok, loLe, hiLe] <;> omega

/-- The white-space set of the live regex `Patterns.whitespaces` is the set the model's `collapse` uses. -/
theorem whitespace_table : whitespaceCPs = Lex.pyWhiteCPs := by decide +kernel

/-- the live white-space regex matches exactly XML white space #x9 #xA #xD #x20 (fix-c10-2) -/
theorem whitespace_is_xml : whitespaceCPs = [9, 10, 13, 32] := by decide +kernel

/-- literal sets used by the constructors -/
theorem literal_sets : booleanValues = ["0", "1", "false", "true"] ∧ infOrNan = ["+INF", "-INF", "INF", "NaN"] := by
  decide +kernel

/-- the pattern texts the hand-written recognisers of `EPV.Lex` transcribe (Model/Lexical.lean) -/
def expectedPatterns : List (String × String) :=
  let int := "^[\\-+]?[0-9]+$"
  let dbl := "^(?:[+-]?(?:[0-9]+(?:\\.[0-9]*)?|\\.[0-9]+)(?:[Ee][+-]?[0-9]+)?|[+-]?INF|NaN)$"
  [("base64Binary", "((?:(?:[A-Za-z0-9+/] ?){4})*(?:(?:[A-Za-z0-9+/] ?){3}[A-Za-z0-9+/]|(?:[A-Za-z0-9+/] ?){2}[AEIMQUYcgkosw048] ?=|[A-Za-z0-9+/] ?[AQgw] ?= ?=))?"),
   ("boolean", "^(?:true|false|1|0)$"),
   ("byte", int),
   ("decimal", "^[+-]?(?:[0-9]+(?:\\.[0-9]*)?|\\.[0-9]+)$"),
   ("double", dbl), ("float", dbl),
   ("hexBinary", "^([0-9a-fA-F]{2})*$"),
   ("int", int), ("integer", int), ("long", int), ("negativeInteger", int), ("nonNegativeInteger", int),
   ("nonPositiveInteger", int), ("positiveInteger", int), ("short", int), ("unsignedByte", int),
   ("unsignedInt", int), ("unsignedLong", int), ("unsignedShort", int),
   ("Patterns.numeric_literal", "^[+-]?(?:[0-9]+(?:\\.[0-9]*)?|\\.[0-9]+)(?:[Ee][+-]?[0-9]+)?$"),
   ("Patterns.whitespaces", "[ \\t\\n\\r]+")]

/-- **patterns_pinned**: the source text of the `pattern` of every modelled type in the live code is
the text that the model's recognisers were transcribed from (in particular xs:float and xs:double have
the same pattern — F10a).  Any edit of a pattern breaks this theorem and triggers the failing-input search. -/
theorem patterns_pinned : ∀ e ∈ expectedPatterns, e ∈ patterns := by decide +kernel

/-- non-vacuity: the tables are not empty -/
example : intTable.length = 13 ∧ 40 < patterns.length ∧ whitespaceCPs.length = 4 := by decide +kernel

end EPV.C10

/-
C05 (phase 5): focus-dependent sub-expressions evaluated repeatedly by ONE token are repeatable.

Model `EPV.FocusCtor.feval` (Model/FocusCtor.lean): map / array constructors, `?k`, `?*`, `||`, `+`, `>` over
`.`, `position()`, `last()` inside `!`, `for` and predicates, with the slot a constructor token could keep its
built value in (`XPathMap._map`, `XPathArray._array`) threaded through every evaluation.
Specification `fsem` (Spec/FocusCtorSem.lean): a function of (expression, variables, focus).
-/
import EPV.Lemmas.FocusCtor
namespace EPV.C05
open EPV.FocusCtor

/-- FULL STRENGTH.  On the reference tree (no constructor fills its slot: `XPathMap.evaluate` /
`XPathArray.evaluate` build a new value whenever the token's slot is empty and never write it) every
evaluation of every expression of the focus fragment — at any focus, with any variables, after ANY earlier
evaluations (`st` = whatever they left in the token slots) — returns exactly the specification's value or
error, and leaves the slots as they were. -/
theorem focus_eval_eq_sem (q : FQuirks) (hq : q.constCache = false)
    (e : FExpr) (ρ : Env) (f : Option Focus) (st : Store) :
    feval q e ρ f st = (fsem e ρ f, st) :=
  feval_ref q hq e ρ f st

/-- test of the hypothesis on a non-trivial state: the reference quirks, a non-empty slot store, a map
constructor under `!` -/
example : feval FQuirks.reference (.bang (.seq (.int 1) (.int 2)) (.lookK (.mapC "n" .dot) "n")) [] none
      [(.mapC "n" .dot, [.atom (.int 7)])]
    = (fsem (.bang (.seq (.int 1) (.int 2)) (.lookK (.mapC "n" .dot) "n")) [] none,
       [(.mapC "n" .dot, [.atom (.int 7)])]) :=
  focus_eval_eq_sem _ rfl _ _ _ _

/-- The value of a sub-expression evaluated at focus `f` depends only on (expression, `f`, variables): two
evaluations from ANY two token-slot states give the same result. -/
theorem focus_eval_store_independent (q : FQuirks) (hq : q.constCache = false)
    (e : FExpr) (ρ : Env) (f : Option Focus) (st st' : Store) :
    (feval q e ρ f st).1 = (feval q e ρ f st').1 := by
  rw [feval_ref q hq, feval_ref q hq]

example : (feval FQuirks.reference (.arrSq .pos) [] (some ⟨.atom (.int 5), 2, 3⟩) []).1
    = (feval FQuirks.reference (.arrSq .pos) [] (some ⟨.atom (.int 5), 2, 3⟩) [(.arrSq .pos, [])]).1 :=
  focus_eval_store_independent _ rfl _ _ _ _ _

/-- Call-site reuse inside ONE evaluation: the k-th evaluation of the right operand `b` of `a ! b` by its one
token equals a FRESH evaluation of `b` (empty slots) at the focus (item k, position k, size n) — the earlier
iterations leave nothing behind.  Stated for the whole `!` expression. -/
theorem bang_each_item_fresh (q : FQuirks) (hq : q.constCache = false)
    (a b : FExpr) (ρ : Env) (f : Option Focus) (st : Store) :
    feval q (.bang a b) ρ f st =
      (bindE (feval q a ρ f []).1 fun xs =>
        sloop (fun it i => (feval q b ρ (some ⟨it, i, xs.length⟩) []).1) xs 1, st) := by
  rw [feval_ref q hq]
  simp only [fsem, feval_ref q hq]

/-- the same for predicates `a[b]` -/
theorem pred_each_item_fresh (q : FQuirks) (hq : q.constCache = false)
    (a b : FExpr) (ρ : Env) (f : Option Focus) (st : Store) :
    feval q (.pred a b) ρ f st =
      (bindE (feval q a ρ f []).1 fun xs =>
        sloop (fun it i => bindE (feval q b ρ (some ⟨it, i, xs.length⟩) []).1 fun r => keepVal it r i) xs 1, st) := by
  rw [feval_ref q hq]
  simp only [fsem, feval_ref q hq]

/-- the same for `for $x in a return b`: each iteration = a fresh evaluation of the body with `$x` bound -/
theorem for_each_item_fresh (q : FQuirks) (hq : q.constCache = false)
    (x : Nat) (a b : FExpr) (ρ : Env) (f : Option Focus) (st : Store) :
    feval q (.forE x a b) ρ f st =
      (bindE (feval q a ρ f []).1 fun xs =>
        sloop (fun it _ => (feval q b ((x, [it]) :: ρ) f []).1) xs 1, st) := by
  rw [feval_ref q hq]
  simp only [fsem, feval_ref q hq]

/-- Histories: ONE token evaluated for any list of variable maps, in any order, gives at every step what a
fresh evaluation of that step gives, and the token slots are the same at the end. -/
theorem focus_history_repeatable (q : FQuirks) (hq : q.constCache = false)
    (e : FExpr) (steps : List Env) (st : Store) :
    fhistory q e steps st = (steps.map fun ρ => (feval q e ρ none []).1, st) := by
  rw [fhistory_ref q hq]
  simp only [feval_ref q hq]

example : fhistory FQuirks.reference (.forE 1 (.var 0) (.mapC "k" (.var 1)))
      [[(0, [.atom (.int 1)])], [(0, [.atom (.int 2), .atom (.int 3)])]] [(.dot, [])]
    = ([[(0, [.atom (.int 1)])], [(0, [.atom (.int 2), .atom (.int 3)])]].map fun ρ =>
        (feval FQuirks.reference (.forE 1 (.var 0) (.mapC "k" (.var 1))) ρ none []).1, [(.dot, [])]) :=
  focus_history_repeatable _ rfl _ _ _

/-- the seeded regression's program: `(1, 2) ! map{"n": .} ! ?n` -/
def staleProgram : FExpr :=
  .bang (.bang (.seq (.int 1) (.int 2)) (.mapC "n" .dot)) (.lookK .dot "n")

/-- The hypothesis `constCache = false` is NECESSARY: with the seeded change (a `$`-free constructor keeps
the map it built first) the second iteration answers from the slot — `(1, 1)` where the specification
says `(1, 2)` — and the slot stays filled for every later evaluation. -/
theorem seeded_const_cache_is_stale :
    (feval FQuirks.seeded staleProgram [] none []).1.toOption = some [.atom (.int 1), .atom (.int 1)]
    ∧ (fsem staleProgram [] none).toOption = some [.atom (.int 1), .atom (.int 2)]
    ∧ (feval FQuirks.seeded staleProgram [] none []).2 ≠ [] := by
  decide

/-- Fixed F05h (branch `fix-c05-8`): `1 > (map{"n": 1, "n": 1} ! 3)`.  An error raised while an operand of a general
comparison is evaluated keeps its own code: specification and model raise XQDY0137 (the real comparison operator used to
relabel it FORG0001; the corpus program of `harness/c05_focus.py` ties the repaired behaviour on every run). -/
def f05hWitness : FExpr := .gt (.int 1) (.bang (.mapC2 "n" (.int 1) "n" (.int 1)) (.int 3))

theorem comparison_operand_error_kept :
    isErr (fsem f05hWitness [] none) .dup = true
    ∧ isErr (feval FQuirks.reference f05hWitness [] none []).1 .dup = true := by
  decide

end EPV.C05

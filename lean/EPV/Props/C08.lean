/-
C08 — property theorems.  "The sequence expressions and the sequence/aggregate functions of
elementpath return the value given by the definitional list model of XPath 3.1 / F&O 3.1."

Reading guide
* `EPV.Seq.*` (EPV/Model/SeqFuns.lean) transcribes the Python: loops with counters and flags,
  the odometer of `XPathContext.iter_product`, `select_with_focus`, the `select` methods of the
  operator tokens (`eval`), the parser's static check (`parseEval`).
* `EPV.Seq.Spec.*` (EPV/Spec/FOSeq.lean) is the W3C text on `List`: `take/drop/filter/reverse`,
  `⌊x + 1/2⌋`, nested comprehension for `for`, `∃/∀` over binding tuples for `some/every`.
* Every theorem quantifies over all item lists (any item type where the function is
  structural), all integer / double arguments (NaN, ±INF, any dyadic `m / 2^k`), all
  expressions and all dynamic contexts.  Helper lemmas: EPV/Lemmas/SeqFuns*.lean.
-/
import EPV.Lemmas.SeqFunsLaws
import EPV.Lemmas.SeqFunsLazy
import EPV.Lemmas.SeqFunsMinMax
import EPV.Lemmas.SeqFunsRnd
namespace EPV.C08
open EPV.Seq

/-! ## rounding of position arguments -/

/-- `round_number` (Decimal quantize, ROUND_HALF_UP for positive / ROUND_HALF_DOWN for the
rest) is `⌊x + 1/2⌋`, the rounding of fn:round — every finite double, NaN and ±INF. -/
theorem round_number_eq_spec (d : D) : roundNumber d = Spec.roundD d := roundNumber_eq d

/-! ## one `…_eq_spec` per function (all lists, all arguments) -/

/-- fn:insert-before: the `enumerate` loop with `max(0, pos-1)`, the `inserted` flag and the
trailing insertion equals "items before the effective position, the inserts, the rest". -/
theorem insert_before_eq_spec {α : Type} (xs : List α) (position : Int) (ins : List α) :
    insertBefore xs position ins = Spec.insertBefore xs position ins := insertBefore_eq xs position ins

/-- fn:remove: all items whose 1-based index differs from `position` (any integer). -/
theorem remove_eq_spec {α : Type} (xs : List α) (position : Int) :
    remove xs position = Spec.remove xs position := remove_eq xs position

/-- fn:subsequence/2 = `S[round(start) le position()]`, for every double `start`. -/
theorem subsequence2_eq_spec {α : Type} (xs : List α) (start : D) :
    subsequence2 xs start = Spec.subsequence2 xs start := subsequence2_eq xs start

/-- fn:subsequence/3 = `S[round(a) le position() and position() lt round(a) + round(b)]`,
for all doubles `a`, `b` including NaN, ±INF and the `.5` cases. -/
theorem subsequence_eq_spec {α : Type} (xs : List α) (start len : D) :
    subsequence3 xs start len = Spec.subsequence3 xs start len := subsequence3_eq xs start len

/-- fn:reverse -/
theorem reverse_eq_spec {α : Type} (xs : List α) : reverse xs = Spec.reverse xs := reverse_eq xs

/-- fn:head = `S[1]` -/
theorem head_eq_spec {α : Type} (xs : List α) : head xs = Spec.head xs := head_eq xs

/-- fn:tail = `subsequence(S, 2)` -/
theorem tail_eq_spec {α : Type} (xs : List α) : tail xs = Spec.tail xs := tail_eq xs

/-- fn:count -/
theorem count_eq_spec {α : Type} (xs : List α) : count xs = Spec.count xs := count_eq_length xs

/-- fn:empty / fn:exists -/
theorem empty_exists_eq_spec {α : Type} (xs : List α) :
    isEmpty xs = decide (xs.length = 0) ∧ isExists xs = decide (xs.length ≠ 0) :=
  ⟨isEmpty_eq xs, isExists_eq xs⟩

/-- fn:zero-or-one, fn:one-or-more, fn:exactly-one: value and error code (FORG0003/4/5). -/
theorem cardinality_eq_spec {α : Type} (xs : List α) :
    zeroOrOne xs = Spec.zeroOrOne xs ∧ oneOrMore xs = Spec.oneOrMore xs ∧ exactlyOne xs = Spec.exactlyOne xs :=
  ⟨zeroOrOne_eq xs, oneOrMore_eq xs, exactlyOne_eq xs⟩

/-- the range operator: `range(start, stop + 1)` is the list of the integers from `a` to `b`. -/
theorem range_eq_spec (a b : Int) : rangeTo a b = Spec.rangeTo a b := rangeTo_eq a b

/-- `select_with_focus`: positions 1…n in order, size n. -/
theorem select_with_focus_eq_spec {α : Type} (xs : List α) :
    selectWithFocus xs = (Spec.positions xs).map fun t => (t.2, xs.length, t.1) := selectWithFocus_eq xs

/-- fn:index-of on the atomized sequence, for every collation `cl` (the default collation of the static
context in the two-argument form, the named one in the three-argument form): the positions of the
items `eq` to the search value — strings and xs:untypedAtomic values by the collation,
numbers after promotion, xs:untypedAtomic as xs:string, non-comparable items (a boolean and a
number, a string and a number) distinct, NaN equal to nothing, -0 equal to +0. -/
theorem index_of_eq_spec (cl : Coll) (xs : Seq) (v : Atom) : indexOf cl xs v = Spec.indexOf cl xs v :=
  indexOf_eq cl xs v

/-- fn:distinct-values: the loop with its NaN flag and its list of keys keeps exactly the items
that are not equal to an item kept before (NaN equal to NaN, -0 equal to +0, xs:untypedAtomic as
xs:string, numbers after promotion). -/
theorem distinct_values_eq_spec (cl : Coll) (xs : Seq) : distinctValues cl xs = Spec.distinctValues cl xs :=
  distinctValues_eq cl xs

/-- fn:sum, one- and two-argument form, on arbitrary items: xs:untypedAtomic items are cast to
xs:double (FORG0001 for an invalid one), nodes through their string value, then type dispatch,
exact integer / decimal sum, xs:double additions in the order of the F&O definition
(`$c[1] + fn:sum(subsequence($c, 2))`, `Spec.foSum`), NaN, FORG0006.  Full strength since fix
F08q (the code no longer uses the compensated `sum()` of CPython). -/
theorem sum_eq_spec (doc : List String) (xs : Seq) (zero : Option Seq) :
    fnSum doc xs zero = Spec.fnSum Spec.foSum doc xs zero := fnSum_eq doc xs zero

/-- fn:avg on arbitrary items (atomization, cast of xs:untypedAtomic, booleans rejected):
exact decimal sum, 28-digit decimal division, integers promoted to xs:double before the
xs:double additions of F&O, double division. -/
theorem avg_eq_spec (doc : List String) (xs : Seq) : fnAvg doc xs = Spec.fnAvg Spec.foSum doc xs :=
  fnAvg_eq doc xs

/-- the loop `result = numbers[-1]; for number in reversed(numbers[:-1]): result = number + result`
is the right fold of the F&O definition, for every list of doubles -/
theorem sum_loop_eq_fo_fold (l : List D) : sumRight l = Spec.sumDoubles l := sumRight_eq l

set_option maxRecDepth 8000 in
set_option exponentiation.threshold 3000 in
/-- test (F08q, fixed): `sum((1e0, 1e0, 9007199254740992e0))` is `1 + (1 + 2^53)` = 2^53 with
every addition rounded, not the exact 2^53 + 2 of a compensated summation; and
`avg((9007199254740993, 1e0))` promotes the integer first. -/
example :
    fnSum [] [.dbl (.fin 1 0), .dbl (.fin 1 0), .dbl (.fin 9007199254740992 0)] none
      = .ok [.dbl (.fin 9007199254740992 0)] ∧
    fnAvg [] [.int 9007199254740993, .dbl (.fin 1 0)] = .ok [.dbl (.fin 4503599627370496 0)] :=
  ⟨by rfl, by rfl⟩

set_option maxRecDepth 100000 in
set_option exponentiation.threshold 3000 in
/-- test (F08v, F08u, both fixed): `sum((xs:untypedAtomic(' 1.5 '), 2))` = 3.5e0 (7881299347898368 / 2^51), an
invalid xs:untypedAtomic gives FORG0001, a node with a valid string value is cast, a node with an
invalid one gives FORG0001 as well. -/
example :
    fnSum [] [.untyped " 1.5 ", .int 2] none = .ok [.dbl (.fin 7881299347898368 51)] ∧
    fnSum [] [.untyped "x", .int 2] none = .error .FORG0001 ∧
    fnSum ["2", "abc"] [.node 0, .int 2] none = .ok [.dbl (.fin 4503599627370496 50)] ∧
    fnSum ["2", "abc"] [.node 1, .int 2] none = .error .FORG0001 := by decide +kernel

/-- fn:min / fn:max on arbitrary items (atomization, cast of xs:untypedAtomic): dispatch on
strings / booleans / integers / decimals / doubles, NaN, FORG0006 for mixed kinds; Python's
`min`/`max` pick the same element as the specification's fold. -/
theorem min_max_eq_spec (cl : Coll) (doc : List String) (isMax : Bool) (xs : Seq) :
    fnMinMax cl doc isMax xs = Spec.fnMinMax cl doc isMax xs := fnMinMax_eq cl doc isMax xs

/-- **Round-to-nearest-even is monotone.**  For all integers `n1 n2` and positive `d1 d2`: if
`n1 / d1 ≤ n2 / d2` then the binary64 value nearest to `n1 / d1` is not above the one nearest to
`n2 / d2` (gradual underflow, ±INF from 2^1024 on, signed zeros).  `rnd` is the kernel function that
model and specification use for `float(int)`, `float(Decimal)`, `+`, `*`, `/` on doubles. -/
theorem rnd_monotone (n1 n2 : Int) (d1 d2 : Nat) (hd1 : 0 < d1) (hd2 : 0 < d2)
    (h : n1 * (d2 : Int) ≤ n2 * (d1 : Int)) :
    XV.lt (rnd n2 d2).val (rnd n1 d1).val = false := rnd_mono n1 n2 d1 d2 hd1 hd2 h

/-- numbers with at most 53 significant bits are fixed points of the rounding: `m * 2^g * d / d` is
rounded to `m * 2^g` units of 2^-1074 -/
theorem rnd_exact_on_53_bits (m g d : Nat) (hm0 : 1 ≤ m) (hm : m < 2 ^ 53) (hd : 1 ≤ d) :
    sv (m * 2 ^ g * d) d = m * 2 ^ g := sv_exact m g d hm0 hm hd

/-- The promotion to xs:double preserves the order of the items: for integers of any size, decimals
and doubles that are binary64 values (`Spec.goodItem`), if the promoted `x` is below the promoted `y`
then the exact `x` is below the exact `y`. -/
theorem promotion_preserves_order (x y : Atom) (gx : Spec.goodItem x = true) (gy : Spec.goodItem y = true)
    (h : D.lt (Spec.toDouble x) (Spec.toDouble y) = true) : XV.lt (Spec.exact x) (Spec.exact y) = true :=
  promotion_mono_pair x y gx gy h

/-- fn:max / fn:min in the wording of F&O §14.4.3 / §14.4.4, **unconditional in the rounding** (phase 4):
for numeric values of which at least one is an xs:double and none is NaN the code compares the exact
values (Python compares int, Decimal and float exactly) and promotes the selected item; the result is
an item of the sequence *converted to xs:double* such that no other converted item is greater (less).
The only hypothesis about the items is the representation invariant `Spec.goodItem`: a `.dbl d` denotes
a binary64 value (the type `D` also contains dyadics with more than 53 bits; the `example` below shows
that the conclusion fails for such a pseudo-double).  The driver checks the invariant on every
fn:max / fn:min argument it evaluates (answer field `m`). -/
theorem min_max_fo_literal (cl : Coll) (isMax : Bool) (a : Atom) (rest : Seq)
    (hout : Spec.outsideAgg (a :: rest) = false) (hnum : Spec.allKind .num (a :: rest) = true)
    (hdbl : Spec.anyDouble (a :: rest) = true) (hnan : (a :: rest).any (· == Atom.dbl .nan) = false)
    (hgood : (a :: rest).all Spec.goodItem = true) :
    ∃ r, minMaxCore cl isMax (a :: rest) = .ok [.dbl r] ∧ Spec.IsExtremeOfConverted isMax (a :: rest) r := by
  rw [minMaxCore_eq cl isMax _ hout]
  exact minMaxCore_fo_literal cl isMax a rest hout hnum hdbl hnan (promotionMonotoneOn_of_good _ hgood)

/-- Where the promotion is exact (any `D` value, integers up to 2^53 in magnitude) not even the
representation invariant is needed. -/
theorem min_max_fo_literal_exact (cl : Coll) (isMax : Bool) (a : Atom) (rest : Seq)
    (hex : (a :: rest).all exactlyPromotable = true)
    (hdbl : Spec.anyDouble (a :: rest) = true) (hnan : (a :: rest).any (· == Atom.dbl .nan) = false) :
    ∃ r, minMaxCore cl isMax (a :: rest) = .ok [.dbl r] ∧ Spec.IsExtremeOfConverted isMax (a :: rest) r := by
  have hall := List.all_eq_true.mp hex
  have hout : Spec.outsideAgg (a :: rest) = false := by
    unfold Spec.outsideAgg; rw [List.any_eq_false]; intro x hx
    have := hall x hx
    cases x <;> simp_all [exactlyPromotable]
  have hnum : Spec.allKind .num (a :: rest) = true := by
    unfold Spec.allKind; rw [List.all_eq_true]; intro x hx
    have := hall x hx
    cases x <;> simp_all [exactlyPromotable, Spec.kind]
  rw [minMaxCore_eq cl isMax _ hout]
  exact minMaxCore_fo_literal cl isMax a rest hout hnum hdbl hnan (promotionMonotoneOn_of_exact _ hex)

set_option maxRecDepth 8000 in
set_option exponentiation.threshold 3000 in
/-- the invariant holds on real doubles — 2^53, 1.5, the least subnormal 2^-1074, the greatest finite
double, −0 — and the promotion is monotone on `(9007199254740993, 9007199254740992e0, 0.5)`, where the
integer 2^53 + 1 is rounded to 2^53 and ties with the double -/
example :
    [Atom.dbl (.fin 9007199254740992 0), .dbl (.fin 3 1), .dbl (.fin 1 1074), .dbl .nzero, .dbl .pinf,
      .dbl (.fin (9007199254740991 * 2 ^ 971) 0), .int (10 ^ 400), .dec 5 1].all Spec.goodItem = true ∧
    Spec.promotionMonotoneOn [.int 9007199254740993, .dbl (.fin 9007199254740992 0), .dec 5 1] = true := by
  decide +kernel

set_option maxRecDepth 8000 in
set_option exponentiation.threshold 3000 in
/-- the invariant cannot be dropped for the type `D` as it stands: `D.fin (2^60 + 1) 0` is not a
binary64 value (`goodItem` is false; the harness never produces one); with it the exact comparison and
the comparison after promotion select different values -/
example :
    let s : Seq := [.int 1152921504606846977, .dbl (.fin 1152921504606846977 0)]
    s.all Spec.goodItem = false ∧
    Spec.promotionMonotoneOn s = false ∧ minMaxCore .codepoint true s = .ok [.dbl (.fin 1152921504606846976 0)] ∧
      ¬ (∀ y ∈ s.map Spec.toDouble, D.lt (.fin 1152921504606846976 0) y = false) := by
  decide

/-- test (default collation): under html-ascii-case-insensitive `index-of(('a','A','b'), 'a')` = (1, 2),
`distinct-values(('a','A','b','é','É'))` = ('a','b','é','É') (only A–Z are folded) and `max(('a','B'))` = 'B';
under the code-point collation 1, all five values, and 'a'. -/
example :
    indexOf .asciiCI [.str "a", .str "A", .str "b"] (.str "a") = [.int 1, .int 2] ∧
    indexOf .codepoint [.str "a", .str "A", .str "b"] (.str "a") = [.int 1] ∧
    distinctValues .asciiCI [.str "a", .untyped "A", .str "b", .str "é", .str "É"]
      = [.str "a", .str "b", .str "é", .str "É"] ∧
    (distinctValues .codepoint [.str "a", .untyped "A", .str "b", .str "é", .str "É"]).length = 5 ∧
    fnMinMax .asciiCI [] true [.str "a", .str "B"] = .ok [.str "B"] ∧
    fnMinMax .codepoint [] true [.str "a", .str "B"] = .ok [.str "a"] := by decide

/-- fn:string-join -/
theorem string_join_eq_spec (doc : List String) (xs : Seq) (sep : Option Seq) :
    fnStringJoin doc xs sep = Spec.fnStringJoin doc xs sep := fnStringJoin_eq doc xs sep

/-- effective boolean value of a sequence of atomic items -/
theorem ebv_eq_spec (s : Seq) : ebv s = Spec.ebv s := ebv_eq s

/-- the predicate test of `E[p]`: a single numeric value is compared with the position, anything
else goes through the effective boolean value. -/
theorem predicate_eq_spec (pos : Nat) (v : Seq) : predicateKeeps pos v = Spec.predicateTruth pos v :=
  predicateKeeps_eq pos v

/-- all one-, two-, three-argument functions at once, including argument conversion errors -/
theorem apply_eq_spec :
    (∀ cl doc f v, applyFn1 cl doc f v = Spec.applyFn1 Spec.foSum cl doc f v) ∧
    (∀ cl doc f a b, applyFn2 cl doc f a b = Spec.applyFn2 Spec.foSum cl doc f a b) ∧
    (∀ f a b c, applyFn3 f a b c = Spec.applyFn3 f a b c) :=
  ⟨applyFn1_eq, applyFn2_eq, applyFn3_eq⟩

/-! ## the odometer -/

/-- `XPathContext.iter_product`: for any number of variables, any (dependent) range expressions,
any outer variable store and any consumer, the explicit-stack loop (`k += 1` / `k -= 1`) visits
exactly the binding tuples of the nested loops — the cartesian product in row-major order —
with the same variable bindings, stops when the consumer stops, raises what the nested loops
raise, and `subCost` passes suffice. -/
theorem iter_product_eq_cartesian {σ : Type} (pending : List (Nat × Sel)) (hne : pending ≠ [])
    (outer : Vars) (visit : Vars → σ → Except Err (σ × Bool)) (acc : σ) :
    iterProduct pending outer visit acc = (cartFold visit pending outer acc).map Prod.fst :=
  iterProduct_eq_cartFold pending hne outer visit acc

/-- test (literals): two variables, the second range depends on the first -/
example : iterProduct (σ := List (List (Nat × Seq)))
      [(0, fun _ => .ok [.int 1, .int 2]), (1, fun vars => .ok ((lookupVar 0 vars).getD [] ++ [.int 9]))] []
      (fun vars acc => .ok (acc ++ [vars], false)) []
    = .ok [[(1, [.int 1]), (0, [.int 1])], [(1, [.int 9]), (0, [.int 1])],
           [(1, [.int 2]), (0, [.int 2])], [(1, [.int 9]), (0, [.int 2])]] := by rfl

/-! ## expressions -/

/-- **Headline.**  For every expression built from literals, variables, `.`, `position()`,
`last()`, `,`, `to`, predicates, `!`, `for` / `some` / `every` with any number of variables,
the modelled functions, value comparisons, `and` / `or`, `+ - *`, `if`, over items that are
integers, decimals, doubles (NaN, ±INF, ±0), strings, booleans, untypedAtomic values and nodes,
and for every dynamic context: the evaluator transcribed from the token `select` methods returns
the value (or error) of the XPath semantics.  Nested compositions — predicate in `for` in
predicate — included.  `Spec.foSum` is the F&O definition of the sum of xs:double values (the
only summation in use since fix F08q). -/
theorem eval_eq_sem (e : Expr) (c : Ctx) : eval e c = Spec.sem Spec.foSum e c := EPV.Seq.eval_eq_sem e c

/-- PARTIAL (known finding F08b, narrowed in phase 4).  Parsing plus evaluation agrees with the semantics
when no clause variable's name occurs *free* in its own range expression (occurrences bound by an inner
for/some/every of the range expression or by a previous clause of the same expression are accepted since
the partial repair).  The full statement `parseEval e c = Spec.sem e c` is false: an outer binding of
the name is still not seen by the parser, see `loop_var_check_rejects_valid`. -/
theorem parse_eval_eq_sem_partial (e : Expr) (c : Ctx) (h : e.loopVarInRange = false) :
    parseEval e c = Spec.sem Spec.foSum e c := by
  simp [parseEval, h, EPV.Seq.eval_eq_sem]

/-- F08b witness: `for $v0 in $v0 return $v0` with `$v0 := (3, 1, 2)` in scope is rejected with
XPST0008 although its value is `(3, 1, 2)`. -/
theorem loop_var_check_rejects_valid :
    let e := Expr.forE (.one 0 (.var 0)) (.var 0)
    let c : Ctx := { item := some (.int 7), pos := 1, size := 1, vars := [(0, [.int 3, .int 1, .int 2])], doc := [] }
    e.loopVarInRange = true ∧ parseEval e c = .error .XPST0008 ∧
      Spec.sem Spec.foSum e c = .ok [.int 3, .int 1, .int 2] := ⟨by rfl, by rfl, by rfl⟩

/-- the expressions that the partial repair of F08b admits: `for $v5 in (for $v5 in (1, 2) return $v5) return $v5`
and `for $v5 in (1, 2), $v5 in ($v5, 9) return $v5` pass the check and have the value of the semantics -/
example :
    let c : Ctx := { item := none, pos := 1, size := 1, vars := [], doc := [] }
    let inner := Expr.forE (.one 5 (.forE (.one 5 (.comma (.lit (.int 1)) (.lit (.int 2)))) (.var 5))) (.var 5)
    let again := Expr.forE (.cons 5 (.comma (.lit (.int 1)) (.lit (.int 2)))
      (.one 5 (.comma (.var 5) (.lit (.int 9))))) (.var 5)
    inner.loopVarInRange = false ∧ parseEval inner c = .ok [.int 1, .int 2] ∧
    again.loopVarInRange = false ∧ parseEval again c = .ok [.int 1, .int 9, .int 2, .int 9] ∧
    (Expr.forE (.cons 5 (.comma (.var 5) (.lit (.int 1))) (.one 5 (.lit (.int 2)))) (.var 5)).loopVarInRange = true := by
  decide

/-- the hypothesis of the partial theorem holds on a non-trivial expression:
`for $v1 in $v0, $v2 in (1 to $v1) return $v2` -/
example : (Expr.forE (.cons 1 (.var 0) (.one 2 (.range (.lit (.int 1)) (.var 1)))) (.var 2)).loopVarInRange = false := by
  decide

/-! ## algebraic laws -/

/-- `reverse(reverse(S)) = S` -/
theorem reverse_reverse {α : Type} (xs : List α) : reverse (reverse xs) = xs := by
  simp [reverse_eq]

/-- `count((S, T)) = count(S) + count(T)` -/
theorem count_append {α : Type} (xs ys : List α) : count (commaSel xs ys) = count xs + count ys := by
  simp [count_eq_length, commaSel]

/-- `(head(S), tail(S)) = S` -/
theorem head_tail {α : Type} (xs : List α) : commaSel (head xs) (tail xs) = xs := by
  cases xs <;> simp [head_eq, tail_eq, commaSel, Spec.head, Spec.tail]

/-- `count(a to b) = max(0, b - a + 1)` -/
theorem range_length (a b : Int) : count (rangeTo a b) = (b + 1 - a).toNat := by
  simp [count_eq_length, rangeTo_eq, Spec.rangeTo]

/-- the members of `a to b` are exactly the integers between `a` and `b` -/
theorem range_mem (a b i : Int) : i ∈ rangeTo a b ↔ a ≤ i ∧ i ≤ b := by
  rw [rangeTo_eq]
  simp only [Spec.rangeTo, List.mem_map, List.mem_range]
  constructor
  · rintro ⟨k, hk, rfl⟩
    simp only [Int.ofNat_eq_natCast]
    omega
  · intro ⟨h1, h2⟩
    exact ⟨(i - a).toNat, by omega, by simp only [Int.ofNat_eq_natCast]; omega⟩

/-- `subsequence(S, a, b)` is the filter `S[round(a) le position() and position() lt round(a)
+ round(b)]` on the model side too (the loop of the implementation, not only the definition) -/
theorem subsequence_as_filter {α : Type} (xs : List α) (a b : D) :
    subsequence3 xs a b =
      Spec.filterPos (fun i => Spec.leD (Spec.roundD a) (Spec.ofPos i) &&
        Spec.ltD (Spec.ofPos i) (D.add (Spec.roundD a) (Spec.roundD b))) xs :=
  subsequence3_eq xs a b

/-- `every $x… satisfies P` = `not(some $x… satisfies not(P))`: for every clause (any number of
variables, dependent ranges), every test expression and every context — value and error alike —
as computed by the implementation's evaluator. -/
theorem every_not_some_not (bs : Binds) (t : Expr) (c : Ctx) :
    eval (.everyE bs t) c = eval (.fn1 .not_ (.someE bs (.fn1 .not_ t))) c := by
  rw [EPV.Seq.eval_eq_sem, EPV.Seq.eval_eq_sem]; exact sem_every_not_some_not Spec.foSum bs t c

/-- a clause with several variables is the nesting of single-variable clauses:
`for $x in E1, $y in E2… return R` = `for $x in E1 return (for $y in E2… return R)` -/
theorem for_multi_eq_nested (x : Nat) (e : Expr) (rest : Binds) (r : Expr) (c : Ctx) :
    eval (.forE (.cons x e rest) r) c = eval (.forE (.one x e) (.forE rest r)) c := by
  rw [EPV.Seq.eval_eq_sem, EPV.Seq.eval_eq_sem]
  simp only [Spec.sem, Spec.semFor]

/-- the same for `some` -/
theorem some_multi_eq_nested (x : Nat) (e : Expr) (rest : Binds) (t : Expr) (c : Ctx) :
    eval (.someE (.cons x e rest) t) c = eval (.someE (.one x e) (.someE rest t)) c := by
  rw [EPV.Seq.eval_eq_sem, EPV.Seq.eval_eq_sem]
  simp only [Spec.sem, Spec.semSome]
  cases Spec.sem Spec.foSum e c with
  | error err => rfl
  | ok s =>
    simp only [bind, Except.bind]
    congr 2
    funext v
    generalize Spec.semSome Spec.foSum rest (Spec.bind1 c x v) _ = r
    cases r with
    | error err => rfl
    | ok b => cases b <;> rfl

/-- `remove(insert-before(S, p, x), p) = S` for every position `1 ≤ p ≤ count(S) + 1` -/
theorem remove_insert {α : Type} (xs : List α) (x : α) (p : Int) (h1 : 1 ≤ p) (h2 : p ≤ xs.length + 1) :
    remove (insertBefore xs p [x]) p = xs := by
  rw [remove_eq, insertBefore_eq]
  unfold Spec.remove Spec.insertBefore Spec.filterPos Spec.positions
  have hp1 : ¬ p < 1 := by omega
  simp only [hp1, if_false]
  by_cases hgt : p > (xs.length : Int)
  · have hp : p = (xs.length : Int) + 1 := by omega
    subst hp
    simp only [hgt, if_true, Nat.add_sub_cancel, List.append_assoc, List.singleton_append]
    have := remove_insert_aux (fun i => decide ((i : Int) ≠ (xs.length : Int) + 1)) x xs xs.length 1 (Nat.le_refl _)
      (by simp; omega) (fun i hi => by simp; omega)
    exact this
  · simp only [hgt, if_false, List.append_assoc, List.singleton_append]
    have hk : p.toNat - 1 ≤ xs.length := by omega
    have := remove_insert_aux (fun i => decide ((i : Int) ≠ p)) x xs (p.toNat - 1) 1 hk
      (by simp; omega) (fun i hi => by simp; omega)
    exact this

/-- test: the hypotheses of `remove_insert` are satisfiable on a non-trivial list -/
example : remove (insertBefore [10, 20, 30] 2 [99]) 2 = [10, 20, 30] ∧ (1 : Int) ≤ 2 ∧ (2 : Int) ≤ 3 + 1 := by decide

/-- `E[n]` with an integer literal `n` = `E[position() eq n]`, for every `E`, `n`, context -/
theorem predicate_position (S : Expr) (n : Int) (c : Ctx) :
    eval (.filter S (.lit (.int n))) c = eval (.filter S (.cmp .eq .position (.lit (.int n)))) c := by
  rw [EPV.Seq.eval_eq_sem, EPV.Seq.eval_eq_sem]
  simp only [Spec.sem]
  cases Spec.sem Spec.foSum S c with
  | error e => rfl
  | ok s =>
    simp only [bind, Except.bind]
    congr 2

/-- `E[last()]` is the last item of `E` (empty for empty `E`) -/
theorem predicate_last (S : Expr) (c : Ctx) :
    eval (.filter S .last) c = (eval S c).map fun s => s.drop (s.length - 1) := by
  rw [EPV.Seq.eval_eq_sem, EPV.Seq.eval_eq_sem]
  simp only [Spec.sem]
  cases Spec.sem Spec.foSum S c with
  | error e => rfl
  | ok s =>
    simp only [bind, Except.bind, Spec.predicateTruth, Spec.kind, beq_self_eq_true, if_true, Spec.exact,
      Int.ofNat_eq_natCast]
    have : (fun t : Atom × Nat => (Except.ok (XV.eqv (.q (t.2 : Int) 1) (.q (s.length : Int) 1)) : Except Err Bool))
        = fun t => Except.ok ((fun t : Atom × Nat => decide (t.2 + 1 = 1 + s.length)) t) := by
      funext t
      congr 1
      simp only [XV.eqv]
      apply decide_eq_decide.mpr
      omega
    rw [this, keepWhere_pure]
    simp only [Except.map, pure, Except.pure]
    congr 1
    exact filter_last_idx s 1

/-- fn:distinct-values satisfies the constraints of F&O §14.2.1 on every atomized sequence —
also when `eq` is not transitive on it: the result is a subsequence of the input, (a) no two
result items are equal, (b) every input item is equal to some result item. -/
theorem distinct_values_constraints (cl : Coll) (xs : Seq) (hatom : ∀ z ∈ xs, Spec.kind z ≠ .node) :
    List.Sublist (distinctValues cl xs) xs ∧
    List.Pairwise (fun a b => Spec.sameValue cl a b = false) (distinctValues cl xs) ∧
    (∀ z ∈ xs, ∃ y ∈ distinctValues cl xs, Spec.sameValue cl y z = true) := by
  rw [distinctValues_eq]
  refine ⟨distinctFrom_sublist cl xs [], distinctFrom_pairwise cl xs [], ?_⟩
  intro z hz
  unfold Spec.distinctValues
  simpa using distinctFrom_covers cl xs hatom [] z hz

/-- fn:max on a non-empty sequence of integers returns an item of the sequence that is
greater than or equal to every item -/
theorem max_integers (n : Int) (ns : List Int) :
    ∃ m, fnMinMax .codepoint [] true ((n :: ns).map Atom.int) = .ok [.int m] ∧ m ∈ n :: ns ∧ ∀ y ∈ n :: ns, y ≤ m := by
  exact ⟨Spec.extremum (fun x y => decide (x < y)) true n ns, fnMinMax_ints .codepoint [] n ns, extremum_int_max n ns⟩

/-! ## the outcomes that XPath permits -/

/-- When the strict left-to-right semantics yields a value, the laziest evaluation that XPath
§2.3.4 permits yields the same value: on such inputs exactly one value is permitted. -/
theorem lazy_value_of_strict (sm : Spec.Summation) (e : Expr) (c : Ctx) (v : Seq)
    (h : Spec.sem sm e c = .ok v) : (Spec.lz sm e c).force = .ok v := by
  rw [Spec.lz_of_sem sm e c v h]; rfl

/-- The strict semantics is one of the permitted outcomes — for every expression and context. -/
theorem strict_outcome_permitted (sm : Spec.Summation) (e : Expr) (c : Ctx) :
    Spec.Permitted sm e c (Spec.sem sm e c) := by
  unfold Spec.Permitted
  cases h : Spec.sem sm e c with
  | ok v => exact lazy_value_of_strict sm e c v h
  | error x => exact Spec.sem_error_mem_codes sm e c x h

/-- The outcome of the evaluator (the transcribed implementation) is always a permitted one. -/
theorem model_outcome_permitted (e : Expr) (c : Ctx) : Spec.Permitted Spec.foSum e c (eval e c) := by
  rw [EPV.Seq.eval_eq_sem]; exact strict_outcome_permitted Spec.foSum e c

/-- If no subexpression can raise an error, the only permitted outcome is the value of the
list model. -/
theorem unique_outcome_when_error_free (sm : Spec.Summation) (e : Expr) (c : Ctx)
    (h : Spec.codes sm e c = []) :
    ∃ v, Spec.sem sm e c = .ok v ∧ ∀ r, Spec.Permitted sm e c r ↔ r = .ok v := by
  cases hs : Spec.sem sm e c with
  | error x =>
    have := Spec.sem_error_mem_codes sm e c x hs
    rw [h] at this; cases this
  | ok v =>
    refine ⟨v, rfl, fun r => ?_⟩
    have hl := lazy_value_of_strict sm e c v hs
    cases r with
    | ok w => simp only [Spec.Permitted, hl, Except.ok.injEq]; exact eq_comm
    | error x => simp [Spec.Permitted, h]

/-- test: `head((1, exactly-one(())))` — the strict semantics raises FORG0005, the lazy evaluation
delivers 1; both outcomes are permitted, `(2)` is not. -/
example :
    let e := Expr.fn1 .head (.comma (.lit (.int 1)) (.fn1 .exactlyOne .empty))
    let c : Ctx := { item := none, pos := 1, size := 1, vars := [], doc := [] }
    Spec.sem Spec.foSum e c = .error .FORG0005 ∧ Spec.Permitted Spec.foSum e c (.ok [.int 1]) ∧
      Spec.Permitted Spec.foSum e c (.error .FORG0005) ∧ ¬ Spec.Permitted Spec.foSum e c (.ok [.int 2]) ∧
      ¬ Spec.Permitted Spec.foSum e c (.error .XPTY0004) := by decide

/-- the predicate of the F&O definition of fn:subsequence as an expression:
`round(a) le position() and position() lt round(a) + round(b)` -/
def subsequencePredicate (a b : D) : Expr :=
  .andE (.cmp .le (.fn1 .round (.lit (.dbl a))) .position)
        (.cmp .lt .position (.arith .add (.fn1 .round (.lit (.dbl a))) (.fn1 .round (.lit (.dbl b)))))

theorem ofInt_small (p : Nat) (hp : p ≤ 2 ^ 53) : D.ofInt (Int.ofNat p) = Spec.ofPos p := by
  simp [D.ofInt, Spec.ofPos, hp]

theorem sem_subsequencePredicate (sm : Spec.Summation) (a b : D) (c : Ctx) (hp : c.pos ≤ 2 ^ 53) :
    Spec.sem sm (subsequencePredicate a b) c =
      .ok [.bool (Spec.leD (Spec.roundD a) (Spec.ofPos c.pos) &&
        Spec.ltD (Spec.ofPos c.pos) (D.add (Spec.roundD a) (Spec.roundD b)))] := by
  have h1 : D.ofInt (c.pos : Int) = Spec.ofPos c.pos := ofInt_small c.pos hp
  simp only [subsequencePredicate, Spec.sem, Spec.applyFn1, Spec.fnRound, Except.bind, bind, Spec.atMostOne,
    List.map, Spec.atomized, Spec.compareAtoms, Spec.eqAtom?, Spec.ltAtom?, Spec.kind, Spec.numEq, Spec.numLt,
    Spec.isDouble, Spec.toDouble, Bool.true_or, Bool.or_true, if_true, Spec.ebv, pure, Except.pure,
    Spec.numericOperand, Spec.arith, h1, beq_self_eq_true]
  simp only [Spec.leD]
  cases Spec.ltD (Spec.roundD a) (Spec.ofPos c.pos) <;> cases Spec.eqD (Spec.roundD a) (Spec.ofPos c.pos) <;>
    cases Spec.ltD (Spec.ofPos c.pos) ((Spec.roundD a).add (Spec.roundD b)) <;> simp

theorem keepWhere_congr {β : Type} (f g : β → Except Err Bool) (l : List β) (h : ∀ t ∈ l, f t = g t) :
    Spec.keepWhere f l = Spec.keepWhere g l := by
  induction l with
  | nil => rfl
  | cons b bs ih =>
    simp only [Spec.keepWhere, h b List.mem_cons_self, ih (fun t ht => h t (List.mem_cons_of_mem _ ht))]

theorem positions_le {α : Type} (s : List α) : ∀ t ∈ Spec.positions s, t.2 ≤ s.length := by
  intro t ht
  unfold Spec.positions at ht
  have := List.mem_zipIdx ht
  omega

/-- **The equivalence of the property statement, for the evaluator.**
`subsequence(S, a, b)` = `S[round(a) le position() and position() lt round(a) + round(b)]` for
every expression `S`, all doubles `a`, `b` and every context (for sequences of at most 2^53 items,
where positions are exact as xs:double). -/
theorem subsequence_equiv_filter_expr (S : Expr) (a b : D) (c : Ctx)
    (hlen : ∀ s, eval S c = .ok s → s.length ≤ 2 ^ 53) :
    eval (.fn3 .subseq S (.lit (.dbl a)) (.lit (.dbl b))) c = eval (.filter S (subsequencePredicate a b)) c := by
  rw [EPV.Seq.eval_eq_sem, EPV.Seq.eval_eq_sem]
  rw [EPV.Seq.eval_eq_sem] at hlen
  simp only [Spec.sem, bind, Except.bind]
  cases hs : Spec.sem Spec.foSum S c with
  | error e => rfl
  | ok s =>
    have hl := hlen s hs
    simp only [Spec.applyFn3, Spec.asRoundedDouble, Except.bind, Except.map]
    rw [keepWhere_congr _ (fun t : Atom × Nat => (Except.ok (Spec.leD (Spec.roundD a) (Spec.ofPos t.2) &&
            Spec.ltD (Spec.ofPos t.2) (D.add (Spec.roundD a) (Spec.roundD b))) : Except Err Bool)) (Spec.positions s)
        (by
          intro t ht
          have hp : t.2 ≤ 2 ^ 53 := Nat.le_trans (positions_le s t ht) hl
          rw [sem_subsequencePredicate Spec.foSum a b _ hp]
          simp [Spec.predicateTruth, Spec.kind, Spec.ebv])]
    rw [keepWhere_pure]
    rfl

end EPV.C08

/-
C08 — property theorems: the sequence functions / expressions of the model (transcribed Python)
equal the F&O list model.  Helper lemmas live in EPV/Lemmas/SeqFuns*.lean.
-/
import EPV.Spec.FOSeq
namespace EPV.C08
open EPV.Seq

/-- `fn:reverse` (accumulating loop) is list reversal. -/
theorem reverse_eq_spec {α : Type} (xs : List α) : reverse xs = Spec.reverse xs := by
  unfold reverse Spec.reverse
  have h : ∀ (acc : List α), xs.foldl (fun acc x => x :: acc) acc = xs.reverse ++ acc := by
    induction xs with
    | nil => intro acc; rfl
    | cons x xs ih => intro acc; simp [List.foldl, ih]
  simpa using h []

end EPV.C08

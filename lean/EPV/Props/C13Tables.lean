/-
C13 — theorems over the *generated* Unicode tables (EPV/Gen/C13Tables.lean is rewritten from the
live /repo on every run, so these `decide +kernel` proofs are re-checked against what the code
says now).  `decide +kernel` evaluates the decision procedure inside the kernel: no axioms.
-/
import EPV.Gen.C13Tables
import EPV.Lemmas.USetUnmerge
import EPV.Lemmas.USetDisjoint
namespace EPV.C13
open EPV.USet EPV.Gen.C13

/-- every installed category table is in canonical form (sorted, merged, singletons as ints) -/
theorem tables_canon : ∀ t ∈ implTables, Canon t.2 := by decide +kernel

/-- every installed category table is *equal* to the table computed from `unicodedata.category`
for all 0x110000 code points (list equality; hence equal membership for every code point) -/
theorem impl_eq_unicodedata : implTables = oracleTables := by decide +kernel

/-- the tables the package builds by itself from `unicodedata` when a Unicode version older than the
shipped data is installed (`categories_fallback`, here through `UnicodeData('12.1.0')`) are equal to
the oracle as well, and canonical -/
theorem fallback_eq_unicodedata : fallbackTables = oracleTables := by decide +kernel
theorem fallback_canon : ∀ t ∈ fallbackTables, Canon t.2 := by decide +kernel

theorem impl_mem_eq_unicodedata (k : String) (x : Nat) :
    ∀ a b, (k, a) ∈ implTables → (k, b) ∈ oracleTables → a = b → (memL x a ↔ memL x b) := by
  intro a b _ _ h; rw [h]

/-- all tables stay below maxunicode + 1 -/
theorem tables_bounded : ∀ t ∈ implTables, ∀ c ∈ t.2, c.hi ≤ maxCP1 := by decide +kernel

/-- the blocks of the installed version (superseded aliases excluded): kernel-evaluated pairwise
disjointness test … -/
theorem blocks_check : pairwiseDisjoint (blocks.map (·.2)) = true := by decide +kernel

/-- … hence any two distinct blocks are disjoint as sets of code points -/
theorem blocks_pairwise_disjoint :
    (blocks.map (·.2)).Pairwise (fun p q => ∀ x, ¬ (memL x p ∧ memL x q)) :=
  pairwiseDisjoint_sound _ blocks_check

/-- block tables of older versions built *after* newer ones in the same process (16.0.0, 6.0.0,
3.0.0, 2.1.9, then the default again) are still pairwise disjoint: the version machinery does not
leak blocks from one installation into the next -/
theorem hist_blocks_check : ∀ v ∈ histBlocks, pairwiseDisjoint v.2 = true := by decide +kernel

theorem hist_blocks_disjoint (v) (hv : v ∈ histBlocks) :
    v.2.Pairwise (fun p q => ∀ x, ¬ (memL x p ∧ memL x q)) :=
  pairwiseDisjoint_sound _ (hist_blocks_check v hv)

/-- kernel-evaluated certificate checks, for every major category `(M, flat, subcategories)`:
`flat` is an interleaving of the subcategory tables, it is sorted/disjoint, and merging its
touching entries gives literally the major table -/
theorem majors_check : ∀ p ∈ majors,
    unmerge p.2.1 p.2.2 = true ∧ WInv p.2.1 ∧ coalesce p.2.1 = p.1 := by decide +kernel

/-- **each major category is the union of its subcategories**, for every code point -/
theorem major_is_union (p : List CP × List CP × List (List CP)) (hp : p ∈ majors) (x : Nat) :
    memL x p.1 ↔ ∃ m ∈ p.2.2, memL x m := by
  obtain ⟨h1, h2, h3⟩ := majors_check p hp
  rw [← h3, coalesce_mem _ h2 x, unmerge_spec _ _ h1 x]

/-- **the subcategories of a major category are pairwise disjoint** (their interleaving is sorted
and non-overlapping, so no code point lies in two entries) -/
theorem subcats_flat_disjoint (p : List CP × List CP × List (List CP)) (hp : p ∈ majors) :
    WInv p.2.1 := (majors_check p hp).2.1

/-- non-vacuity: the tables are not empty -/
example : implTables.length = 37 ∧ 300 < blocks.length := by decide +kernel

end EPV.C13

/-
C13 — theorems over the *generated* Unicode tables (EPV/Gen/C13Tables.lean is rewritten from the
live /repo on every run, so these `decide +kernel` proofs are re-checked against what the code
says now).  `decide +kernel` evaluates the decision procedure inside the kernel: no axioms.
-/
import EPV.Gen.C13Tables
import EPV.Lemmas.USet
namespace EPV.C13
open EPV.USet EPV.Gen.C13

/-- every installed category table is in canonical form (sorted, merged, singletons as ints) -/
theorem tables_canon : ∀ t ∈ implTables, Canon t.2 := by decide +kernel

/-- every installed category table is *equal* to the table computed from `unicodedata.category`
for all 0x110000 code points (list equality; hence equal membership for every code point) -/
theorem impl_eq_unicodedata : implTables = oracleTables := by decide +kernel

theorem impl_mem_eq_unicodedata (k : String) (x : Nat) :
    ∀ a b, (k, a) ∈ implTables → (k, b) ∈ oracleTables → a = b → (memL x a ↔ memL x b) := by
  intro a b _ _ h; rw [h]

/-- all tables stay below maxunicode + 1 -/
theorem tables_bounded : ∀ t ∈ implTables, ∀ c ∈ t.2, c.hi ≤ maxCP1 := by decide +kernel

/-- the blocks of the installed version (superseded aliases excluded), ordered by first code point:
their concatenation is sorted and non-overlapping … -/
theorem blocks_flat_winv : WInv (blocks.map (·.2)).flatten := by decide +kernel

/-- … hence any two distinct blocks are disjoint as sets of code points -/
theorem blocks_pairwise_disjoint :
    (blocks.map (·.2)).Pairwise (fun p q => ∀ x, ¬ (memL x p ∧ memL x q)) :=
  winv_flatten_pairwise _ blocks_flat_winv

/-- non-vacuity: the tables are not empty -/
example : implTables.length = 37 ∧ 300 < blocks.length := by decide +kernel

end EPV.C13

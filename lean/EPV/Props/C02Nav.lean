/-
C02 (phase 5) — "mutually consistent parent/children links": theorems about the link-reading
navigation API (`EPV/Model/BuilderNav.lean`: `node.parent`, `node.children`, the `iter_ancestors`
walk, `node.root_node`) on EVERY successfully built tree (any input, any configuration — no dict
hypothesis).  A link is the position of the node it refers to; `navOf root` lists every node of the
tree (lazy namespace/attribute nodes included) with its links.
-/
import EPV.Lemmas.BuilderNav
import EPV.Lemmas.BuilderNavDesc
import EPV.Lemmas.Builder
import EPV.Spec.XDMNav
namespace EPV.C02
open EPV.Builder EPV.XDM

theorem nav_strict (i : Input) (root : PNode) (h : build i = .ok root) : NavStrict (navOf root) := by
  obtain ⟨_, hs⟩ := build_seg i root h
  unfold NavStrict navOf
  rw [navNode_poss]
  exact hs.1

/-- the link listing is `root.iter()` (kind, position and parent link of every node, same order): the
theorems below speak about the nodes of `iter_eq_spec` / `build_positions_strict` -/
theorem nav_eq_iter (root : PNode) :
    (navOf root).map (fun v => (v.kind, v.pos, v.parent)) = (iter root).map (fun r => (r.kind, r.pos, r.parent)) :=
  go root none
where
  go : ∀ (n : PNode) (par : Option Nat),
      (navNode par n).map (fun v => (v.kind, v.pos, v.parent)) = (iterNode par n).map (fun r => (r.kind, r.pos, r.parent))
    | .doc p kids, par => by simp [navNode, iterNode, goKids kids (some p)]
    | .elem p name m a sv kids, par => by
      simp [navNode, iterNode, goKids kids (some p), Nav.ofRec, Function.comp_def]
    | .text p s, par => by simp [navNode, iterNode]
    | .comment p s, par => by simp [navNode, iterNode]
    | .pi p t s, par => by simp [navNode, iterNode]
  goKids : ∀ (ns : List PNode) (par : Option Nat),
      (navKids par ns).map (fun v => (v.kind, v.pos, v.parent)) = (iterKids par ns).map (fun r => (r.kind, r.pos, r.parent))
    | [], par => by simp [navKids, iterKids]
    | n :: ns, par => by simp [navKids, iterKids, go n par, goKids ns par]

theorem pos_lt_of_sublist {l : List Nav} (hs : NavStrict l) {a b : Nav} (h : List.Sublist [a, b] l) : a.pos < b.pos := by
  have h2 : List.Sublist ([a, b].map (·.pos)) (l.map (·.pos)) := h.map _
  have := List.Pairwise.sublist h2 hs
  simpa using this

/-- LINKS ARE MUTUALLY CONSISTENT.  For every built tree and any two of its nodes `a`, `b`:
`b` is in `a.children` **iff** `b.parent is a` and `b` is not a namespace/attribute node. -/
theorem children_iff_parent (i : Input) (root : PNode) (h : build i = .ok root) :
    ∀ a ∈ navOf root, ∀ b ∈ navOf root,
      (b.pos ∈ navChildren (navOf root) a.pos ↔ (navParent (navOf root) b.pos = some a.pos ∧ b.isChild = true)) := by
  have hs := nav_strict i root h
  intro a ha b hb
  simp only [navChildren, navParent, navGet_mem hs ha, navGet_mem hs hb, Option.map_some, Option.getD_some,
    Option.bind_some]
  constructor
  · intro hc
    obtain ⟨b', hb', e1, e2, e3⟩ := navNode_down root none a ha b.pos hc
    have : b' = b := eq_of_pos_eq hs b' hb' b hb e1
    subst this; exact ⟨e2, e3⟩
  · rintro ⟨hp, hc⟩
    rcases navNode_up root none b hb with rfl | ⟨a', hsub, e1, _, e3⟩
    · simp at hp
    · have ha' : a' ∈ navOf root := hsub.subset (by simp)
      have : a' = a := eq_of_pos_eq hs a' ha' a ha (by rw [e1] at hp; injection hp)
      subst this; exact e3 hc

/-- every parent link points to a container (element/document) of the same tree that comes EARLIER in
document order (smaller position) -/
theorem parent_earlier_container (i : Input) (root : PNode) (h : build i = .ok root) :
    ∀ b ∈ navOf root, ∀ q, navParent (navOf root) b.pos = some q →
      q < b.pos ∧ ∃ a ∈ navOf root, a.pos = q ∧ a.isContainer = true := by
  have hs := nav_strict i root h
  intro b hb q hq
  simp only [navParent, navGet_mem hs hb, Option.bind_some] at hq
  rcases navNode_up root none b hb with rfl | ⟨a, hsub, e1, e2, _⟩
  · simp at hq
  · rw [e1] at hq; injection hq with hq; subst hq
    exact ⟨pos_lt_of_sublist hs hsub, a, hsub.subset (by simp), rfl, e2⟩

/-- exactly the root node has no parent -/
theorem parent_none_iff_root (i : Input) (root : PNode) (h : build i = .ok root) :
    ∀ b ∈ navOf root, (navParent (navOf root) b.pos = none ↔ b.pos = root.pos) := by
  have hs := nav_strict i root h
  intro b hb
  obtain ⟨tl, htl⟩ := navNode_head none root
  have hhead : navHead none root ∈ navOf root := by unfold navOf; rw [htl]; exact List.mem_cons_self
  simp only [navParent, navGet_mem hs hb, Option.bind_some]
  constructor
  · intro hn
    rcases navNode_up root none b hb with rfl | ⟨a, _, e1, _, _⟩
    · simp
    · rw [e1] at hn; cases hn
  · intro hp
    have : b = navHead none root := eq_of_pos_eq hs b hb _ hhead (by simp [hp])
    rw [this]; simp

/-- `node.root_node` is the root of the tree, for every node -/
theorem root_node_eq (i : Input) (root : PNode) (h : build i = .ok root) :
    ∀ b ∈ navOf root, navRootNode (navOf root) b.pos = root.pos := by
  intro b hb
  unfold navRootNode
  cases hp : navParent (navOf root) b.pos with
  | none => exact (parent_none_iff_root i root h b hb).1 hp
  | some q =>
    obtain ⟨tl, htl⟩ := navNode_head none root
    simp [navOf, htl]

/-- the `while parent is not None` loop does not depend on the fuel once the fuel exceeds the position:
it always ends by `parent is None` -/
theorem anc_fuel_indep (i : Input) (root : PNode) (h : build i = .ok root) :
    ∀ (f1 f2 : Nat), ∀ b ∈ navOf root, b.pos < f1 → b.pos < f2 →
      navAncLoop (navOf root) f1 b.pos = navAncLoop (navOf root) f2 b.pos
  | 0, _, b, _, h1, _ => by omega
  | _ + 1, 0, b, _, _, h2 => by omega
  | f1 + 1, f2 + 1, b, hb, h1, h2 => by
    simp only [navAncLoop]
    cases hp : navParent (navOf root) b.pos with
    | none => rfl
    | some q =>
      obtain ⟨hlt, a, ha, rfl, _⟩ := parent_earlier_container i root h b hb q hp
      simp only
      rw [anc_fuel_indep i root h f1 f2 a ha (by omega) (by omega)]

/-- ANCESTORS = THE CHAIN OF PARENTS UP TO THE ROOT, IN REVERSE DOCUMENT ORDER.  For every node `b` of a
built tree the list `ancestors` collected by `iter_ancestors` is: `b.parent`, then the ancestors of
`b.parent` (same walk started there); strictly decreasing positions, all below `b`'s; empty exactly for
the root; otherwise its last entry is the root. -/
theorem ancestors_chain (i : Input) (root : PNode) (h : build i = .ok root) :
    ∀ (fuel : Nat), ∀ b ∈ navOf root, b.pos < fuel →
      let L := navAncLoop (navOf root) fuel b.pos
      (L = match navParent (navOf root) b.pos with
            | none => []
            | some p => p :: navAncLoop (navOf root) (p + 1) p) ∧
      (∀ x ∈ L, x < b.pos) ∧ L.Pairwise (· > ·) ∧
      (b.pos = root.pos → L = []) ∧ (b.pos ≠ root.pos → L.getLast? = some root.pos)
  | 0, b, _, hf => by omega
  | fuel + 1, b, hb, hf => by
    simp only [navAncLoop]
    cases hp : navParent (navOf root) b.pos with
    | none =>
      have := (parent_none_iff_root i root h b hb).1 hp
      simp [this]
    | some q =>
      obtain ⟨hlt, a, ha, rfl, _⟩ := parent_earlier_container i root h b hb q hp
      have ih := ancestors_chain i root h fuel a ha (by omega)
      simp only at ih ⊢
      obtain ⟨_, i2, i3, i4, i5⟩ := ih
      have hne : b.pos ≠ root.pos := by
        intro e
        have := (parent_none_iff_root i root h b hb).2 e
        rw [this] at hp; cases hp
      refine ⟨by rw [anc_fuel_indep i root h fuel (a.pos + 1) a ha (by omega) (by omega)]; simp only [navAncLoop], ?_, ?_, ?_, ?_⟩
      · intro x hx
        rcases List.mem_cons.1 hx with rfl | hx
        · exact hlt
        · have := i2 x hx; omega
      · exact List.pairwise_cons.2 ⟨fun x hx => i2 x hx, i3⟩
      · intro e; exact absurd e hne
      · intro _
        rw [List.getLast?_cons]
        by_cases e : a.pos = root.pos
        · rw [i4 e]; simp [e]
        · rw [i5 e]; rfl

/-- what `iter_ancestors` yields (`reversed(ancestors)`) is in document order, starts at the root and
ends at the parent -/
theorem iter_ancestors_document_order (i : Input) (root : PNode) (h : build i = .ok root) :
    ∀ b ∈ navOf root,
      (navIterAncestors (navOf root) b.pos).Pairwise (· < ·) ∧
      (b.pos ≠ root.pos → (navIterAncestors (navOf root) b.pos).head? = some root.pos) ∧
      (navIterAncestors (navOf root) b.pos).getLast? = navParent (navOf root) b.pos := by
  intro b hb
  obtain ⟨c1, _, c3, _, c5⟩ := ancestors_chain i root h (b.pos + 1) b hb (by omega)
  unfold navIterAncestors
  refine ⟨?_, ?_, ?_⟩
  · rw [List.pairwise_reverse]; exact c3.imp (fun h => h)
  · intro e; rw [List.head?_reverse]; exact c5 e
  · rw [List.getLast?_reverse, c1]
    cases navParent (navOf root) b.pos <;> rfl

/-- DESCENDANTS = THE CONTIGUOUS PRE-ORDER BLOCK STARTING AT THE NODE.  For every node `b` of a built tree
the listing of the tree splits as `pre ++ sub ++ post` with `sub` starting at `b`, and descending through
the `children` lists from `b` (`iter_descendants`, descendant-or-self) yields exactly the positions of `sub`
without the namespace/attribute nodes, in the order of the listing (document order). -/
theorem descendants_block (i : Input) (root : PNode) (h : build i = .ok root) :
    ∀ b ∈ navOf root, ∃ pre sub post, navOf root = pre ++ sub ++ post ∧ sub.head? = some b ∧
      navDescendants (navOf root) b.pos = (sub.filter (fun x => x.isChild || x.pos == b.pos)).map (·.pos) := by
  have hs := nav_strict i root h
  intro b hb
  rcases navNode_block root none b hb with ⟨m, par', rfl, hin⟩ | ⟨hc, hk⟩
  · have hin' : navNode par' m <:+: navOf root := hin
    obtain ⟨pre, post, e⟩ := hin'
    refine ⟨pre, navNode par' m, post, e.symm, ?_, ?_⟩
    · obtain ⟨tl, htl⟩ := navNode_head par' m; rw [htl]; rfl
    · unfold navDescendants
      rw [navHead_pos, descLoop_node hs m par' _ hin (by have := hin.length_le; unfold navOf; omega),
        descNode_filter m par']
      congr 1
      apply List.filter_congr
      intro x hx
      by_cases e : x.pos = m.pos
      · have : x = navHead par' m :=
          eq_of_pos_eq hs x (hin.subset hx) _ (hin.subset (navHead_mem _ _)) (by simp [e])
        rw [this]; simp
      · simp [e]
  · obtain ⟨pre, post, e⟩ := List.append_of_mem hb
    refine ⟨pre, [b], post, by simp [e], rfl, ?_⟩
    have hg := navGet_mem hs hb
    simp [navDescendants, navDescLoop, navChildren, hg, hk]

theorem container_isChild (a : Nav) (h : a.isContainer = true) : a.isChild = true := by
  unfold Nav.isContainer at h; unfold Nav.isChild
  cases hk : a.kind <;> simp_all

/-- one step of the ancestor walk, fuel-free -/
theorem anc_unfold (i : Input) (root : PNode) (h : build i = .ok root) (x : Nav) (hx : x ∈ navOf root) :
    navAncLoop (navOf root) (x.pos + 1) x.pos =
      match x.parent with
      | none => []
      | some p => p :: navAncLoop (navOf root) (p + 1) p := by
  have := (ancestors_chain i root h (x.pos + 1) x hx (by omega)).1
  simp only [navParent, navGet_mem (nav_strict i root h) hx, Option.bind_some] at this
  exact this

/-- block form of the converse: for a subtree listing `navNode par' m` sitting in the tree's listing, the
node `m` is among the `iter_ancestors` of `x` iff `x` is inside that block and is not `m` itself -/
theorem anc_iff_in_block (i : Input) (root : PNode) (h : build i = .ok root) (m : PNode) (par' : Option Nat)
    (hin : navNode par' m <:+: navOf root) :
    ∀ (N : Nat), ∀ x ∈ navOf root, x.pos < N → x.isChild = true →
      (m.pos ∈ navAncLoop (navOf root) (x.pos + 1) x.pos ↔ (x ∈ navNode par' m ∧ x.pos ≠ m.pos))
  | 0, x, _, hN, _ => by omega
  | N + 1, x, hx, hN, hc => by
    have hs := nav_strict i root h
    have hhead : navHead par' m ∈ navOf root := hin.subset (navHead_mem _ _)
    rw [anc_unfold i root h x hx]
    constructor
    · intro hmem
      cases hp : x.parent with
      | none => rw [hp] at hmem; cases hmem
      | some p =>
        rw [hp] at hmem
        have hpp : navParent (navOf root) x.pos = some p := by
          simp [navParent, navGet_mem hs hx, hp]
        obtain ⟨hlt, a, ha, rfl, hcont⟩ := parent_earlier_container i root h x hx p hpp
        -- `a` is inside the block
        have ha_in : a ∈ navNode par' m := by
          rcases List.mem_cons.1 hmem with e | hmem
          · have : navHead par' m = a := eq_of_pos_eq hs _ hhead a ha (by simp [e])
            rw [← this]; exact navHead_mem _ _
          · exact ((anc_iff_in_block i root h m par' hin N a ha (by omega) (container_isChild a hcont)).1 hmem).1
        have hxc : x.pos ∈ a.children := by
          have := (children_iff_parent i root h a ha x hx).2 ⟨hpp, hc⟩
          simpa [navChildren, navGet_mem hs ha] using this
        obtain ⟨x', hx', e1, _, _⟩ := navNode_down m par' a ha_in x.pos hxc
        have : x' = x := eq_of_pos_eq hs x' (hin.subset hx') x hx e1
        subst this
        refine ⟨hx', ?_⟩
        intro e
        -- x at m's position would be the head, whose ancestors are all before it
        have hall := (ancestors_chain i root h (x'.pos + 1) x' hx (by omega)).2.1
        rw [anc_unfold i root h x' hx, hp] at hall
        have := hall m.pos hmem
        omega
    · rintro ⟨hxin, hne⟩
      rcases navNode_up m par' x hxin with rfl | ⟨a, hsub, e1, hcont, _⟩
      · simp at hne
      · have ha_in : a ∈ navNode par' m := hsub.subset (by simp)
        have ha : a ∈ navOf root := hin.subset ha_in
        have hlt : a.pos < x.pos := by
          have hsub' : List.Sublist [a, x] (navOf root) := hsub.trans hin.sublist
          exact pos_lt_of_sublist hs hsub'
        rw [e1]
        by_cases e : a.pos = m.pos
        · rw [e]; exact List.mem_cons_self
        · exact List.mem_cons_of_mem _
            ((anc_iff_in_block i root h m par' hin N a ha (by omega) (container_isChild a hcont)).2 ⟨ha_in, e⟩)

/-- ANCESTORS AND DESCENDANTS ARE CONVERSE RELATIONS.  For any two nodes `a`, `b` of a built tree that are not
namespace/attribute nodes: `a` is met by the `iter_ancestors` walk from `b` **iff** `b` is met by descending
through `children` from `a` and is not `a` itself. -/
theorem ancestors_descendants_converse (i : Input) (root : PNode) (h : build i = .ok root) :
    ∀ a ∈ navOf root, ∀ b ∈ navOf root, a.isChild = true → b.isChild = true →
      (a.pos ∈ navIterAncestors (navOf root) b.pos ↔
        (b.pos ∈ navDescendants (navOf root) a.pos ∧ b.pos ≠ a.pos)) := by
  have hs := nav_strict i root h
  intro a ha b hb hca hcb
  rcases navNode_block root none a ha with ⟨m, par', rfl, hin⟩ | ⟨hc, _⟩
  · have hin' : navNode par' m <:+: navOf root := hin
    unfold navIterAncestors navDescendants
    rw [List.mem_reverse, navHead_pos,
      descLoop_node hs m par' _ hin' (by have := hin'.length_le; omega), descNode_filter m par',
      anc_iff_in_block i root h m par' hin' (b.pos + 1) b hb (by omega) hcb]
    constructor
    · rintro ⟨h1, h2⟩
      exact ⟨List.mem_map.2 ⟨b, List.mem_filter.2 ⟨h1, by simpa using hcb⟩, rfl⟩, h2⟩
    · rintro ⟨h1, h2⟩
      obtain ⟨b', hb', e⟩ := List.mem_map.1 h1
      have hb'in := (List.mem_filter.1 hb').1
      have : b' = b := eq_of_pos_eq hs b' (hin'.subset hb'in) b hb e
      subst this; exact ⟨hb'in, h2⟩
  · rw [hc] at hca; cases hca

/-- what the literal test below reads off a tree -/
def navProbe (r : PNode) : List (List Nat) :=
  let navs := navOf r
  [navs.map (·.pos), navChildren navs 2, (navParent navs 8).toList, (navParent navs 4).toList,
   navIterAncestors navs 8, [navRootNode navs 9], (navParent navs 1).toList, navDescendants navs 2]

/-- test on a literal (the hypotheses are satisfiable on a non-trivial tree): `<x a="1">t<y><z/></y>u<!--c--></x>`
as an ElementTree — document 1, x 2, (xml ns 3, @a 4), text 5, y 6, (ns 7), z 8, (ns 9), text 10, comment 11:
children of x, parent of z, parent of @a, iter_ancestors(z), root_node of a namespace node, parent of the
document, descendant-or-self of x -/
example :
    ((build { cfg := { lxml := false, namespaces := [], fragment := none }, isTree := true, prolog := [],
              top := some (.elem "x" [] [("a", "1")] (some "t")
                [.elem "y" [] [] none [.elem "z" [] [] none [] none] (some "u"), .comment "c" none] none),
              epilog := [], path := [] }).toOption.map navProbe)
      = some [List.range' 1 11, [5, 6, 10, 11], [6], [2], [1, 2, 6], [1], [], [2, 5, 6, 8, 10, 11]] := by
  decide

end EPV.C02

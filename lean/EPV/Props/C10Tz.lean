/-
C10 — timezones of the date/time/gregorian types: the lexical space of timezoneFrag is finite (1683 literals),
so the theorems are kernel evaluations over the complete space (model: `Lex.matchTz`, `Lex.tzOfLex`,
`Lex.tzCanon` in EPV/Model/Lexical.lean; spec: `XSD.timezoneVal?`, `XSD.timezoneCanon`, `XSD.timezoneLiterals`).
-/
import EPV.Lemmas.LexicalTz
namespace EPV.C10
open EPV

/-- **tz_parse_canon_roundtrip**: for every offset of −14:00 … +14:00 (in minutes) the canonical rendering
(`Timezone.tzname`: 'Z' for 0, else ±hh:mm) is in the lexical space and re-parses — by the code's reading and
by the spec's — to the same number of minutes; negative offsets below one hour keep their sign.
(Kernel evaluation over the 1681 offsets, `LexLemmas.tzRound_all`.) -/
theorem tz_parse_canon_roundtrip (v : Int) (h1 : -840 ≤ v) (h2 : v ≤ 840) :
    Lex.tzParse (Lex.tzCanon v) = some v ∧ XSD.timezoneVal? (Lex.tzCanon v) = some v ∧
    Lex.tzCanon v = XSD.timezoneCanon v := LexLemmas.tz_parse_canon_roundtrip v h1 h2

/-- **tz_lexical_space_exhaustive** (kernel evaluation over the complete lexical space of timezoneFrag,
1683 literals generated from the numbers, `LexLemmas.tzCheck_all`): the `tzinfo` group of the patterns accepts
every literal, `Timezone.fromstring` gives it the XSD value in minutes — the sign applies to hours *and*
minutes, so '-00:30' is −30 —, the spec's own reading agrees, and `str(Timezone)` of that value re-parses to it. -/
theorem tz_lexical_space_exhaustive :
    ∀ p ∈ XSD.timezoneLiterals,
      Lex.tzParse p.1 = some p.2 ∧ XSD.timezoneVal? p.1 = some p.2 ∧
      Lex.tzParse (Lex.tzCanon p.2) = some p.2 ∧ Lex.tzCanon p.2 = XSD.timezoneCanon p.2 :=
  LexLemmas.tz_lexical_space_exhaustive

/-- **tz_rejects_non_literals**: the `tzinfo` group of the date/time patterns accepts *nothing* outside the
1683 literals of the spec's enumeration — for all strings (structural proof, not enumeration). -/
theorem tz_rejects_non_literals (s : List Char) (h : Lex.matchTz s = true) :
    ∃ p ∈ XSD.timezoneLiterals, p.1 = s := LexLemmas.matchTz_mem_literals s h

/-- hence the pattern accepts exactly the literal set … -/
theorem tz_pattern_iff_literal (s : List Char) :
    Lex.matchTz s = true ↔ ∃ p ∈ XSD.timezoneLiterals, p.1 = s := by
  constructor
  · exact tz_rejects_non_literals s
  · rintro ⟨p, hp, rfl⟩
    have := (tz_lexical_space_exhaustive p hp).1
    unfold Lex.tzParse at this
    split at this
    · assumption
    · cases this

/-- … and on everything it accepts, `Timezone.fromstring` computes the XSD value and its canonical string
re-parses to it (all strings). -/
theorem tz_parse_eq_spec (s : List Char) (h : Lex.matchTz s = true) :
    Lex.tzParse s = XSD.timezoneVal? s ∧
    ∃ v, Lex.tzParse s = some v ∧ Lex.tzParse (Lex.tzCanon v) = some v := by
  obtain ⟨p, hp, rfl⟩ := tz_rejects_non_literals s h
  have := tz_lexical_space_exhaustive p hp
  exact ⟨by rw [this.1, this.2.1], p.2, this.1, this.2.2.1⟩

/-- the seeded defect "minutes of a negative offset below one hour read as positive" contradicts these
(tests on literals): -00:30 is −30 and prints as -00:30; ±00:00 print as Z -/
example : Lex.tzParse "-00:30".toList = some (-30) ∧ Lex.tzCanon (-30) = "-00:30".toList ∧
    Lex.tzParse "-00:00".toList = some 0 ∧ Lex.tzCanon 0 = "Z".toList ∧
    Lex.tzParse "+14:01".toList = none ∧ Lex.tzParse "+5:30".toList = none ∧ Lex.tzParse "z".toList = none ∧
    XSD.timezoneLiterals.length = 1683 := by decide +kernel

end EPV.C10

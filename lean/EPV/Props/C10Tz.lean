/-
C10 — timezones of the date/time/gregorian types: the lexical space of timezoneFrag is finite (1683 literals),
so the theorems are kernel evaluations over the complete space (model: `Lex.matchTz`, `Lex.tzOfLex`,
`Lex.tzCanon` in EPV/Model/Lexical.lean; spec: `XSD.timezoneVal?`, `XSD.timezoneCanon`, `XSD.timezoneLiterals`).
-/
import EPV.Model.Lexical
import EPV.Spec.XSDLexical
namespace EPV.C10
open EPV

def tzCheck (p : List Char × Int) : Bool :=
  (Lex.tzParse p.1 == some p.2) && (XSD.timezoneVal? p.1 == some p.2) && decide (-840 ≤ p.2 ∧ p.2 ≤ 840)

theorem tzCheck_all : XSD.timezoneLiterals.all tzCheck = true := by decide +kernel

def tzRound (n : Nat) : Bool :=
  let v : Int := (n : Int) - 840
  (Lex.tzParse (Lex.tzCanon v) == some v) && (XSD.timezoneVal? (Lex.tzCanon v) == some v) &&
  (Lex.tzCanon v == XSD.timezoneCanon v)

theorem tzRound_all : (List.range 1681).all tzRound = true := by decide +kernel

theorem tz_roundtrip_fin (m : Nat) (hm : m < 1681) :
    Lex.tzParse (Lex.tzCanon ((m : Int) - 840)) = some ((m : Int) - 840) ∧
      XSD.timezoneVal? (Lex.tzCanon ((m : Int) - 840)) = some ((m : Int) - 840) ∧
      Lex.tzCanon ((m : Int) - 840) = XSD.timezoneCanon ((m : Int) - 840) := by
  have := List.all_eq_true.mp tzRound_all m (List.mem_range.mpr hm)
  simp only [tzRound, Bool.and_eq_true, beq_iff_eq] at this
  exact ⟨this.1.1, this.1.2, this.2⟩

/-- **tz_parse_canon_roundtrip**: for every offset of −14:00 … +14:00 (in minutes) the canonical rendering
(`Timezone.tzname`: 'Z' for 0, else ±hh:mm) is in the lexical space and re-parses — by the code's reading and
by the spec's — to the same number of minutes; negative offsets below one hour keep their sign. -/
theorem tz_parse_canon_roundtrip (v : Int) (h1 : -840 ≤ v) (h2 : v ≤ 840) :
    Lex.tzParse (Lex.tzCanon v) = some v ∧ XSD.timezoneVal? (Lex.tzCanon v) = some v ∧
    Lex.tzCanon v = XSD.timezoneCanon v := by
  have h := tz_roundtrip_fin (v + 840).toNat (by omega)
  have e : (((v + 840).toNat : Nat) : Int) - 840 = v := by omega
  rw [e] at h
  exact h

/-- **tz_lexical_space_exhaustive** (kernel evaluation over the complete lexical space of timezoneFrag,
1683 literals generated from the numbers): the `tzinfo` group of the patterns accepts every literal,
`Timezone.fromstring` gives it the XSD value in minutes — the sign applies to hours *and* minutes, so
'-00:30' is −30 —, the spec's own reading agrees, and `str(Timezone)` of that value re-parses to it. -/
theorem tz_lexical_space_exhaustive :
    ∀ p ∈ XSD.timezoneLiterals,
      Lex.tzParse p.1 = some p.2 ∧ XSD.timezoneVal? p.1 = some p.2 ∧
      Lex.tzParse (Lex.tzCanon p.2) = some p.2 ∧ Lex.tzCanon p.2 = XSD.timezoneCanon p.2 := by
  intro p hp
  have := List.all_eq_true.mp tzCheck_all p hp
  simp only [tzCheck, Bool.and_eq_true, beq_iff_eq, decide_eq_true_eq] at this
  have hr := tz_parse_canon_roundtrip p.2 this.2.1 this.2.2
  exact ⟨this.1.1, this.1.2, hr.1, hr.2.2⟩

/-- the seeded defect "minutes of a negative offset below one hour read as positive" contradicts these
(tests on literals): -00:30 is −30 and prints as -00:30; ±00:00 print as Z -/
example : Lex.tzParse "-00:30".toList = some (-30) ∧ Lex.tzCanon (-30) = "-00:30".toList ∧
    Lex.tzParse "-00:00".toList = some 0 ∧ Lex.tzCanon 0 = "Z".toList ∧
    Lex.tzParse "+14:01".toList = none ∧ Lex.tzParse "+5:30".toList = none ∧ Lex.tzParse "z".toList = none ∧
    XSD.timezoneLiterals.length = 1683 := by decide +kernel

end EPV.C10

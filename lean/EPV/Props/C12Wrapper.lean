/-
C12, phase 5 (second item): the XSD-flavour wrapper `^( body )$(?!\n\Z)` of `translate_pattern`
(`anchors=False`, patterns.py:281-284; the last line of `translateM`).

XSD pattern facets match the *whole* lexical value (XSD 1.1 part 2, 4.3.4 / appendix G: a string matches
a regular expression iff it belongs to its language), while the facet code runs Python's `search`.  The
wrapper is what turns one into the other, and its `(?!\n\Z)` is there because Python's bare `$` also
matches before a trailing newline.  The reading of the emitted `$(?!\n\Z)` is `PySem.eol` (= the end of
the string, nothing else) — the same assumption about CPython that `translate_eq_spec_partial` uses.
-/
import EPV.Lemmas.RegexWrapper
import EPV.Props.C12
namespace EPV.C12
open EPV.Regex

/-- **Core fact.**  Searching anywhere in `s` with `^ r $` (`$` strict: only at the very end) succeeds
iff `r` matches the whole of `s` — for every expression `r` (anchors, contexts and all) and every subject. -/
theorem wrapper_search_iff_full (r : RE) (s : List Ch) :
    Search (.cat (.anchor .bol) (.cat r (.anchor .eol))) s ↔ Full r s := by
  constructor
  · rintro ⟨pre, w, post, hs, hm⟩
    cases hm with
    | cat ha hb =>
      cases ha with
      | anchor hok =>
        cases hb with
        | cat hr he =>
          cases he with
          | anchor hok2 =>
            have hpre : pre = [] := by
              simp only [Anchor.ok, Option.isNone_iff_eq_none] at hok
              exact List.getLast?_eq_none_iff.1 hok
            have hpost : post = [] := by
              simp only [Anchor.ok, Option.isNone_iff_eq_none] at hok2
              exact List.head?_eq_none_iff.1 hok2
            subst hpre hpost
            simp only [List.nil_append, List.append_nil] at hs
            subst hs
            simpa [Full, ctxL, ctxR] using hr
  · intro h
    refine ⟨[], s, [], by simp, ?_⟩
    have h1 : Matches (.anchor .bol) none [] (ctxR (s ++ []) none) := .anchor (by simp [Anchor.ok])
    have h2 : Matches (.anchor .eol) (ctxL (ctxL none []) s) [] none := .anchor (by simp [Anchor.ok])
    have h3 : Matches r (ctxL none []) s (ctxR [] none) := by simpa [Full, ctxL, ctxR] using h
    have := Matches.cat h1 (Matches.cat h3 h2)
    simpa using this

/-- **The wrapper on token lists.**  Whatever expression Python reads the body as (`pyRE sem toks = some r`:
the emitted fragments under `PySem`, through the shared token grammar), it reads
`^(` body `)$(?!\n\Z)` as an expression too, and *searching* with it succeeds exactly on the strings the
body matches entirely.  Capturing or not (`c`) makes no difference.  In particular an alternation at
the top of the body stays inside the group: `a|b` becomes `^(a|b)$`, not `^a|b$`. -/
theorem xsd_wrapper_full {T : Tables} {fl : Flags} (sem : PySem T fl) (c : Bool) (toks : List (Tok PyAtom)) (r : RE)
    (h : pyRE sem toks = some r) :
    ∃ R, pyRE sem ([.atom .bol, .lpar c] ++ toks ++ [.rpar, .atom .eol]) = some R ∧
      ∀ s, Search R s ↔ Full r s := by
  unfold pyRE at h ⊢
  cases hp : parseT (toks.map (Tok.map sem.den)) with
  | none => simp [hp] at h
  | some ast =>
    rw [hp] at h
    simp only [Option.map_some, Option.some.injEq] at h
    have hw := parseT_wrap (sem.den .bol) (sem.den .eol) c _ ast hp
    have hmap : ([Tok.atom PyAtom.bol, Tok.lpar c] ++ toks ++ [Tok.rpar, Tok.atom PyAtom.eol]).map (Tok.map sem.den) =
        [Tok.atom (sem.den .bol), Tok.lpar c] ++ toks.map (Tok.map sem.den) ++ [Tok.rpar, Tok.atom (sem.den .eol)] := by
      simp [Tok.map]
    rw [hmap, hw]
    refine ⟨_, rfl, fun s => ?_⟩
    simp only [Ast.den, sem.bol, sem.eol, h]
    exact wrapper_search_iff_full r s

/-- **The wrapper as `translate_pattern` applies it** (`translateM` with `anchors = False`, any other
options, any pattern): the output is the scanned body between `^(` and `)$(?!\n\Z)`, and for every reading
`sem` of the fragments under which the body denotes `r`, the output denotes an expression whose `search`
succeeds exactly on the strings in the language of `r`. -/
theorem translate_xsd_wrapper {T : Tables} {fl : Flags} (sem : PySem T fl) (Tm : MTables) (o : ScanOpts)
    (ha : o.anchors = false) (P : List Ch) (out : List (Tok PyAtom)) (h : translateM Tm o P = some out) :
    ∃ body, scanLoop Tm o (P.length + 1) true 0 0 P = some body ∧
      out = [.atom .bol, .lpar o.backrefs] ++ body ++ [.rpar, .atom .eol] ∧
      ∀ r, pyRE sem body = some r → ∃ R, pyRE sem out = some R ∧ ∀ s, Search R s ↔ Full r s := by
  unfold translateM at h
  split at h
  · cases h
  · split at h
    · cases h
    · rename_i body hb
      simp only [ha, Bool.false_eq_true, if_false, Option.some.injEq] at h
      subst h
      exact ⟨body, hb, rfl, fun r hr => xsd_wrapper_full sem o.backrefs body r hr⟩

/-- **On the proved fragment.**  For a pattern `P` that meets the hypotheses of `translate_eq_spec_partial`
(lexes under the grammar, `RunOK`, no forbidden escape) and is a regExp with XSD language `r`
(`specRE … = some r`), the wrapper around its translation is read by Python as an expression whose
`search` accepts `s` iff `s` is in the XSD language of `P`.
(The body here is the one scanned with the XPath options of that theorem; under the XSD options
`^ $` are literals and `??`-style quantifiers are rejected — that scan is tied by PAT `x=0`, and
`translate_xsd_wrapper` applies to it as it stands.) -/
theorem xsd_wrapper_language_partial {T : Tables} {fl : Flags} (sem : PySem T fl) (Tm : MTables) (v10 c : Bool)
    (P : List Ch) (xtoks : List (Tok XAtom)) (u : Bool) (r : RE)
    (hfe : forbiddenEscape true none P = false)
    (hlex : specLex xo P = some (xtoks, u))
    (hrun : RunOK (T := T) Tm v10 (P.length + 1) true 0 P 0)
    (hr : specRE T fl xtoks = some r) :
    ∃ ptoks R, translateM Tm (soOf fl v10) P = some ptoks ∧
      pyRE sem ([.atom .bol, .lpar c] ++ ptoks ++ [.rpar, .atom .eol]) = some R ∧
      ∀ s, Search R s ↔ Full r s := by
  obtain ⟨ptoks, ht, _, hre⟩ := translate_eq_spec_partial sem Tm v10 P xtoks u hfe hlex hrun
  obtain ⟨R, hR, hs⟩ := xsd_wrapper_full sem c ptoks r (by rw [hre, hr])
  exact ⟨ptoks, R, ht, hR, hs⟩

/-! tests on literals -/

/-- why `(?!\n\Z)`: with an end anchor that also matches before a newline (Python's bare `$` on a trailing
newline, here the `m`-flag anchor `eolM`) the wrapped `a` finds a match in `a\n`, which `a` does not
match entirely; with the strict anchor it does not (kernel-evaluated through the derivative matcher) -/
theorem wrapper_needs_strict_eol :
    searchB (.cat (.anchor .bol) (.cat (.cls (· == 97)) (.anchor .eolM))) [97, 10] = true ∧
    fullB (.cls (· == 97)) [97, 10] = false ∧
    searchB (.cat (.anchor .bol) (.cat (.cls (· == 97)) (.anchor .eol))) [97, 10] = false := by decide

/-- the hypothesis of `xsd_wrapper_full` on a body with a top-level alternation, `a|b`, under the
canonical reading: it parses, and the wrapped list parses -/
example : (pyRE (PySem.canonical ⟨fun _ => none⟩ {}) [.atom (.chr 97), .bar, .atom (.chr 98)]).isSome = true ∧
    (pyRE (PySem.canonical ⟨fun _ => none⟩ {})
      ([.atom .bol, .lpar false] ++ [.atom (.chr 97), .bar, .atom (.chr 98)] ++ [.rpar, .atom .eol])).isSome = true := by
  decide

end EPV.C12

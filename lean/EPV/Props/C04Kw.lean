/-
C04, phase 5 — the keyword ExprSingle forms (`if`, `for`, `let`, `some`, `every`) as a layer over the Pratt model.
Model: EPV/Model/PrattKw.lean (`xsingle`, `xloop`, `xparse`  ↔  nud__if_expression, nud__for_expression,
nud__quantified_expressions, nud__let_expression, Parser.parse); specification: EPV/Spec/EBNFKw.lean (`xwf`, `xebnfParse`);
lemmas: EPV/Lemmas/PrattKw.lean.

Reading guide
* `xparse T lp comma toks` : model of `Parser.parse` on token lists with keyword tokens (`lp`, `comma` = rows of `(` and `,`)
* `XTree.yield x`          : the tokens of `x` in order
* `XInv T lp comma x`      : every operator-fragment leaf satisfies the Pratt invariant `WFr` and was closed by
                             `expression(5)`; binder variables are variable references; `,` nodes only at the top, in an
                             `if` condition or to the left of a `,` node (never under `then`/`else`/`in`/`return`/`satisfies`)
* `xwf false G lp comma false x` : `x` is a derivation of  Expr ::= ExprSingle ("," ExprSingle)*,  ExprSingle ::= IfExpr |
                             ForExpr | LetExpr | QuantifiedExpr | OrExpr  in the relaxed grammar (leaves: relaxed operator
                             grammar from level 1 = OrExpr — the only relaxation; the `if` condition is an Expr and the
                             binder variable a VarRef as in the EBNF, since the fixes of F04p and F04q)
-/
import EPV.Lemmas.PrattKw
import EPV.Props.C04Tables
namespace EPV.C04
open EPV.Syn EPV.Pratt EPV.Kw EPV.Gen.C04

/-- **tokens and invariant**: whatever the keyword layer returns contains exactly the input tokens, in order, and
all its operator-fragment leaves satisfy the binding-power invariant — any table, any token list. -/
theorem kw_yield (T : Tbl) (lp comma : Nat) (toks : List Tok) (x : XTree) (h : xparse T lp comma toks = .ok x) :
    x.yield = toks ∧ XInv T lp comma x := by
  unfold xparse at h
  split at h
  · rename_i l rest hl
    split at h
    · rename_i x' hx
      simp only [Except.ok.injEq] at h
      subst h
      obtain ⟨yl, ⟨il, -⟩, -⟩ := xsingle_inv T lp comma _ _ _ _ hl
      obtain ⟨y, i⟩ := xloop_inv T lp comma _ _ _ _ _ hx il
      refine ⟨?_, i⟩
      rw [yl] at y
      simpa using y
    · simp at h
    · simp at h
  · simp at h

/-- **soundness of the keyword layer** (`kw_derives`): if the operator table realises the level table whose level 0
is the comma level (`bp 0 ≤ 11`: binding power 5), every accepted token list is parsed into a derivation of the
ExprSingle grammar with that yield: `if` nodes with an Expr condition and ExprSingle branches, binder nodes with a
VarRef and ExprSingle operands, `,` only at the Expr level — all exactly as the EBNF says; the only relaxation is inside
the operator-fragment leaves (relaxed derivations from OrExpr, laxities L1–L4 of `pratt_derives`). -/
theorem kw_derives (T : Tbl) (G : Gram) (bp : Nat → Nat) (K : Nat) (hc : Consistent T G bp K)
    (htop : 0 < G.top) (hk : G.lkind 0 ≠ some .postfix) (hb : bp 0 ≤ 11) (lp comma : Nat)
    (toks : List Tok) (x : XTree) (h : xparse T lp comma toks = .ok x) :
    xwf false G lp comma false x = true ∧ x.yield = toks := by
  obtain ⟨y, i⟩ := kw_yield T lp comma toks x h
  exact ⟨xinv_relaxed hc htop hk hb lp comma x false i (by simp), y⟩

/-- re-parsing the tokens of a result gives the same tree (token-level `source` round trip of the layer) -/
theorem kw_yield_idem (T : Tbl) (lp comma : Nat) (toks : List Tok) (x : XTree) (h : xparse T lp comma toks = .ok x) :
    xparse T lp comma x.yield = .ok x := by
  rw [(kw_yield T lp comma toks x h).1]; exact h

/-! ### instances over the generated tables -/

abbrev lp31 := symIdx opTable_v31 "("
abbrev comma31 := symIdx opTable_v31 ","
abbrev lp20 := symIdx opTable_v20 "("
abbrev comma20 := symIdx opTable_v20 ","

/-- after an operand closed at rbp 5 the loop of `expression(0)` can only take `,` (what `xloop` assumes) -/
theorem comma_only : commaOnly opTable_v20 comma20 = true ∧ commaOnly opTable_v30 (symIdx opTable_v30 ",") = true ∧
    commaOnly opTable_v31 comma31 = true ∧ commaOnly opTable_v20c (symIdx opTable_v20c ",") = true ∧
    commaOnly opTable_v30c (symIdx opTable_v30c ",") = true ∧ commaOnly opTable_v31c (symIdx opTable_v31c ",") = true := by
  decide +kernel

theorem kw_derives_v31 (toks : List Tok) (x : XTree) (h : xparse (tableOf opTable_v31) lp31 comma31 toks = .ok x) :
    xwf false (gramOf levels31 true (syms opTable_v31)) lp31 comma31 false x = true ∧ x.yield = toks :=
  kw_derives _ _ _ _ (consistent_of_check _ _ _ consistent_v31) (by decide) (by decide) (by decide +kernel) _ _ toks x h

theorem kw_derives_v30 (toks : List Tok) (x : XTree)
    (h : xparse (tableOf opTable_v30) (symIdx opTable_v30 "(") (symIdx opTable_v30 ",") toks = .ok x) :
    xwf false (gramOf levels30 true (syms opTable_v30)) (symIdx opTable_v30 "(") (symIdx opTable_v30 ",") false x = true ∧
      x.yield = toks :=
  kw_derives _ _ _ _ (consistent_of_check _ _ _ consistent_v30) (by decide) (by decide) (by decide +kernel) _ _ toks x h

/-- PARTIAL in the sense of `consistent_v20_partial` (F04b): against `levels20impl` -/
theorem kw_derives_v20_partial (toks : List Tok) (x : XTree) (h : xparse (tableOf opTable_v20) lp20 comma20 toks = .ok x) :
    xwf false (gramOf levels20impl true (syms opTable_v20)) lp20 comma20 false x = true ∧ x.yield = toks :=
  kw_derives _ _ _ _ (consistent_of_check _ _ _ consistent_v20_partial) (by decide) (by decide) (by decide +kernel) _ _ toks x h

/-- the result of the model as an option (errors collapsed), for kernel-checked witnesses -/
def xok (T : Tbl) (lp comma : Nat) (toks : List Tok) : Option XTree := (xparse T lp comma toks).toOption
def xsyntaxError (T : Tbl) (lp comma : Nat) (toks : List Tok) : Bool :=
  match xparse T lp comma toks with | .error .syntax => true | _ => false

/-- test (literals): the hypothesis of `kw_derives_v31` is satisfiable on a non-trivial input —
`if ( n1 ) then for $v50 in n2 return n3 else n4 , n5` parses to `(, (if n1 (for $v50 n2 n3) n4) n5)` -/
example : xok (tableOf opTable_v31) lp31 comma31
    [.close 8, .op lp31, .atom 0 1, .close 0, .close 2, .close 9, .atom 2 50, .close 5, .atom 0 2, .close 4, .atom 0 3,
     .close 3, .atom 0 4, .op comma31, .atom 0 5] =
    some (.seq comma31 (.ite lp31 (.leaf (.atom 0 1)) (.bind 9 (.atom 2 50) (.leaf (.atom 0 2)) (.leaf (.atom 0 3)))
      (.leaf (.atom 0 4))) (.leaf (.atom 0 5))) := by decide +kernel

def f04pToks : List Tok :=
  [.close 8, .op lp20, .atom 0 1, .op comma20, .atom 0 2, .close 0, .close 2, .atom 0 2, .close 3, .atom 0 3]
def f04qToks : List Tok :=
  [.close 9, .atom 2 50, .op (symIdx opTable_v20 "+"), .atom 1 1, .close 5, .atom 0 1, .close 4, .atom 0 2]

/-- regression witness of the fixed F04p: `if ( n1 , n2 ) then n2 else n3` is an IfExpr whose condition is the comma
expression; the model of the repaired `nud__if_expression` (condition = `expression()`) returns exactly the reference
derivation (before the fix the condition was `expression(5)` and the input was rejected). -/
theorem kw_if_comma_condition :
    xebnfParse (gramOf levels20 true (syms opTable_v20)) lp20 comma20 f04pToks =
        some (.ite lp20 (.seq comma20 (.leaf (.atom 0 1)) (.leaf (.atom 0 2))) (.leaf (.atom 0 2)) (.leaf (.atom 0 3))) ∧
      xok (tableOf opTable_v20) lp20 comma20 f04pToks =
        some (.ite lp20 (.seq comma20 (.leaf (.atom 0 1)) (.leaf (.atom 0 2))) (.leaf (.atom 0 2)) (.leaf (.atom 0 3))) := by
  decide +kernel

/-- regression witness of the fixed F04q: `for $v50 + 1 in n1 return n2` is rejected by the model of the repaired
`nud__for_expression` (`if variable.symbol != '$': raise`) and by the reference parser (before the fix the model
accepted it with the binder variable `$v50 + 1`). -/
theorem kw_binder_variable_rejected :
    xsyntaxError (tableOf opTable_v20) lp20 comma20 f04qToks = true ∧
      xebnfParse (gramOf levels20 true (syms opTable_v20)) lp20 comma20 f04qToks = none := by decide +kernel

def f04rToks : List Tok :=
  [.close 8, .op lp31, .op (symIdx opTable_v31 "?"), .op (symIdx opTable_v31 "-"), .atom 0 6, .close 0, .close 2, .atom 0 1,
   .close 3, .atom 0 2]

/-- **F04r witness**: `if ( ? - n6 ) then n1 else n2` has the trigger `placeholderAt` (a `?` after the parenthesis of the
condition, followed by `-`), is rejected by the model (the unary lookup needs a key specifier) and has no derivation
according to the reference parser; the real 3.1 parser accepts it (placeholder token), observed by the correspondence. -/
theorem f04r_placeholder_outside_argument_list :
    placeholderAt (tableOf opTable_v31) (symIdx opTable_v31 "?") lp31 comma31 f04rToks = true ∧
      xsyntaxError (tableOf opTable_v31) lp31 comma31 f04rToks = true ∧
      xebnfParse (gramOf levels31 true (syms opTable_v31)) lp31 comma31 f04rToks = none := by decide +kernel

end EPV.C04

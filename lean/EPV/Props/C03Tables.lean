/-
C03 — theorems over the tables GENERATED from the live elementpath package on every run
(EPV/Gen/C03Tables.lean: symbol tables of the four parsers, class graph of exceptions.py,
XPATH_ERROR_CODES, AST shape of the two `parse` methods, writers of the cursor attributes).
`decide +kernel` evaluates the decision procedure in the kernel: no axioms.
-/
import EPV.Gen.C03Tables
import EPV.Props.C03
import EPV.Spec.HandlerCover
namespace EPV.C03
open EPV.PState EPV.Lexer EPV.XErr EPV.Gen.C03

/-! ### (b) lexer: the special token classes of every parser version -/

/-- `(string) (float) (decimal) (integer) (name) (unknown) (invalid) (end)` are registered in the
symbol table of each of the four parsers, and the three error-carrying ones are not labelled
`function` (so `wrong_syntax()` gives XPST0003). -/
theorem specials_registered : ∀ t ∈ tables, SpecialsOK t.2 = true := by decide +kernel

/-- the live tokenizers are the 5-alternative pattern the lexer model assumes: 4 capturing groups,
ending in `|(\S)|\s+` -/
theorem tokenizer_shape : tokenizerShapes.all (· == (4, true)) = true := by decide +kernel

/-- **`advance` of each live parser class** returns a registered look-ahead token or raises
XPST0003/XPST0017 — instance of `advance_total` for the four generated symbol tables. -/
theorem advance_total_live (o : Oracles) (symbols : List String) (c : Cursor Tok Match)
    (hm : ∀ m ∈ c.tokens, FromPattern m = true) : ∀ t ∈ tables,
    ((advance t.2 o symbols c).1 = .ok () ∧ t.2.has (advance t.2 o symbols c).2.nextToken.symbol = true) ∨
    (∃ e, (advance t.2 o symbols c).1 = .error e ∧ SyntaxErr e) :=
  fun t ht => advance_total t.2 o symbols c (specials_registered t ht) hm

/-- **comment-aware `advance` of each live parser class** terminates and raises coded errors only -/
theorem advance3_total_live (o : Oracles) (src : List Char) (tokFrom : Nat → List Match)
    (ho : OracleOK src tokFrom) (symbols : List String) (c : Cursor Tok Match)
    (hm : ∀ m ∈ c.tokens, FromPattern m = true) : ∀ t ∈ tables,
    (advance3 t.2 o src tokFrom symbols c).1 = .ok () ∨
    ∃ e, (advance3 t.2 o src tokFrom symbols c).1 = .error e ∧ LexErr e :=
  fun t ht => advance3_total t.2 o src tokFrom ho symbols c (specials_registered t ht) hm

/-- the comment delimiters are registered symbols of the 2.0+ parsers and FORG0006 (raised by
`advance_until` without stop symbols) is a coded `ElementPathTypeError` -/
theorem comment_symbols_registered :
    (tables.filter (·.1 != "1.0")).all (fun t => t.2.has "(:" && t.2.has ":)") = true ∧
    codeMap.cls? "FORG0006" = some "ElementPathTypeError" := by decide +kernel

/-- non-vacuity: four tables, the largest has several hundred registered classes -/
example : tables.length = 4 ∧ tables.all (fun t => 80 ≤ t.2.length) = true := by decide +kernel

/-! ### taxonomy: every code maps into the `ElementPathError` hierarchy -/

/-- **error_codes_closed**: every class named in `XPATH_ERROR_CODES`, the class `xpath_error` raises
itself and the fallback class derive from `ElementPathError` in the live class graph -/
theorem error_codes_closed : TableClosed classGraph codeMap = true := by decide +kernel

/-- all codes have the shape of an XPath error code (4 upper-case letters, 4 digits) — hence non-empty -/
theorem codes_well_formed : codeMap.all (fun p => wellFormedCode p.1) = true := by decide +kernel

/-- the codes used by `wrong_syntax / wrong_value / wrong_type / missing_context` are in the table -/
theorem helper_codes_registered : helperCodes.all (fun h => (codeMap.cls? h.2).isSome) = true := by
  decide +kernel

/-- a syntax error is an `ElementPathSyntaxError`, a missing context a `MissingContextError` -/
theorem helper_code_classes :
    codeMap.cls? "XPST0003" = some "ElementPathSyntaxError" ∧
    codeMap.cls? "XPST0017" = some "ElementPathTypeError" ∧
    codeMap.cls? "XPDY0002" = some "MissingContextError" ∧
    codeMap.cls? "FOCA0002" = some "ElementPathValueError" ∧
    codeMap.cls? "FORG0006" = some "ElementPathTypeError" := by decide +kernel

/-- **`xpath_error` on the live tables**: for every argument and prefix the produced exception is an
`ElementPathError` subclass -/
theorem xpath_error_total_live (pfx : String) (arg : CodeArg) :
    isEPE classGraph (xpathError codeMap pfx arg).cls = true :=
  xpath_error_total classGraph codeMap error_codes_closed pfx arg

theorem code_keys_nonempty : ∀ p ∈ codeMap, p.1 ≠ "" := by decide +kernel

theorem xpath_error_code_nonempty_live (pfx code : String) :
    (xpathError codeMap pfx (.str code)).code ≠ "" :=
  xpath_error_code_nonempty codeMap code_keys_nonempty pfx code

/-- non-vacuity: the graph and the map are the real ones -/
example : 90 ≤ codeMap.length ∧ 10 ≤ classGraph.length ∧
    isEPE classGraph "ValueError" = false ∧ isEPE classGraph "ElementPathLocaleError" = true := by
  decide +kernel

/-! ### static exception closure of the arithmetic handlers (supports the explored part (c)) -/

/-- PARTIAL (static over-approximation, baseline gaps = `EPV.C03Cover.knownGaps`): in every
`try … except` of the operator and function modules whose body divides, takes a power or converts with
`int()/float()/Decimal()/math.*`, each exception class the standard library can raise from that
operation is caught by a handler (directly or through a base class) — except the listed gaps of the
reference tree.  Dropping a class from such a handler breaks this theorem. -/
theorem arith_handlers_cover_partial : tryTable.all EPV.C03Cover.rowOK = true := by decide +kernel

/-- the `idiv` handlers catch ZeroDivisionError, decimal.InvalidOperation and OverflowError (the seeded
change that dropped InvalidOperation is the counter-example this guards against) -/
theorem idiv_handlers :
    (tryTable.filter (fun r => r.2.1 == "evaluate__idiv_operator" && r.2.2.1.contains "floordiv")).all
      (fun r => ["ZeroDivisionError", "InvalidOperation", "OverflowError"].all (EPV.C03Cover.covers r.2.2.2)) = true ∧
    (tryTable.filter (fun r => r.2.1 == "evaluate__idiv_operator" && r.2.2.1.contains "floordiv")).length = 1 := by
  decide +kernel

/-- the gap list is not vacuous padding: without it the table is NOT covered (test) -/
example : 15 ≤ tryTable.length ∧ EPV.C03Cover.covers ["TypeError"] "InvalidOperation" = false ∧
    EPV.C03Cover.covers ["ArithmeticError"] "DivisionByZero" = true := by decide +kernel

/-- PARTIAL (baseline = `EPV.C03Cover.unguardedBaseline`, reviewed by reading): every `int()/float()/
Decimal()` conversion, `.encode()/.decode()`/`codecs` call and per-call table look-up of an
`evaluate…/select…/cast…/nud…/led…` method of the operator, function and token modules that has NO
enclosing handler in its method is one of the listed sites.  A new unguarded conversion breaks this. -/
theorem unguarded_sites_baseline :
    unguardedSites.all (EPV.C03Cover.unguardedBaseline.contains ·) = true := by decide +kernel

/-- every look-up in a per-call table (namespaces, variables, documents, collections, text_resources,
symbol_table, decimal_formats, variable_types) of the operator / function / token modules, together with the
handler classes of its innermost enclosing `try`, is a row of the reviewed baseline: removing or narrowing an
`except KeyError` around such a look-up (e.g. in `cast_to_primitive_type`) breaks this theorem. -/
theorem lookup_sites_baseline :
    lookupSites.all (EPV.C03Cover.lookupBaseline.contains ·) = true := by decide +kernel

/-- hang part, tabulated: every `while` statement of the package (file, function, loop test) is listed in
`EPV.C03Cover.whileBaseline` with its termination argument — twelve of them `proved` by theorems of this
property (`advance_until`, the comment scan, the consecutive-comments loop, `expression` in part, and
`int_to_alphabetic`, `get_argument_tokens`, `ElementNode.iter_descendants` in EPV/Props/C03Loops.lean, five parent walks in EPV/Props/C03Loops2.lean; counted
by `EPV.C03Loops.while_baseline_counts`), the others `argued`.  A new
or edited `while` loop breaks this theorem until its argument is written down. -/
theorem while_loops_baseline : whileLoops.all EPV.C03Cover.whileListed = true := by decide +kernel

/-- non-vacuity -/
example : 40 ≤ whileLoops.length ∧ 15 ≤ unguardedSites.length := by decide +kernel

/-! ### (a) the shape of the two `parse` methods and the writers of the cursor -/

/-- the `finally` block of the live `Parser.parse` assigns exactly what `resetCursor` models (same
attributes, same values; the order of the assignments is irrelevant) -/
theorem finally_matches_model :
    parseFinally.all (resetFields.contains ·) = true ∧ resetFields.all (parseFinally.contains ·) = true := by
  decide +kernel

/-- nothing but the `assert` runs before the protected region of `Parser.parse`, and the tokenizer
call, `advance`, `expression` and the `(end)` check are inside it -/
theorem parse_body_protected :
    parseBeforeTry = ["Assert"] ∧
    ["self.advance", "self.expression", "self.next_token.expected", "self.tokenizer.finditer"].all
      (parseCallsInTry.contains ·) = true := by decide +kernel

/-- the live `XPath1Parser.parse` resets `parse_arguments` in a `finally` around `super().parse` -/
theorem xp1_parse_resets_flag :
    xp1ParseFinally = [("parse_arguments", "True")] ∧ xp1ParseCallsInTry.contains "super().parse" = true := by
  decide +kernel

def parseTimeFn (f : String) : Bool :=
  ["__init__", "parse", "advance", "advance_until", "expected_next"].contains f ||
  f.startsWith "nud" || f.startsWith "led"

/-- **frame**: in the whole package the cursor attributes are assigned only by parse-time code
(`__init__`, `parse`, `advance*`, `expected_next`, `nud…`/`led…` methods) — never by `evaluate…` /
`select…` / `cast…` code; in particular the static evaluation that `XPath1Parser.parse` runs
after the reset cannot dirty the cursor -/
theorem cursor_written_at_parse_time_only : cursorWriters.all (fun w => parseTimeFn w.2.1) = true := by
  decide +kernel

/-- **frame, all attributes**: outside `__init__`, the only attributes of a parser object that any code
of the package assigns or mutates (plain/augmented/subscript assignment, `for` target, mutating method
call) are the six modelled cursor attributes — plus `tokenizer` (lazily built from the class symbol
table by `XPath1Parser.parse`), and `schema` / `symbol_table` / `function_signatures` / `tokenizer`
written by the explicit registration API (`bind_parser`, `external_function`, `schema_constructor`),
which no `nud`/`led`/`advance` code calls.  So the cursor model carries ALL per-instance state a parse
can change: the frame assumption of `history_independent` is discharged on the live code. -/
theorem parser_state_frame :
    parserAttrWriters.all (fun w =>
      ["source", "tokens", "next_match", "token", "next_token", "parse_arguments"].contains w.2.2 ||
      (w.2.1 == "parse" && w.2.2 == "tokenizer") ||
      (["bind_parser", "external_function", "schema_constructor"].contains w.2.1 &&
        ["schema", "symbol_table", "function_signatures", "tokenizer"].contains w.2.2)) = true := by
  decide +kernel

/-- `source` is assigned by `Parser.__init__` and `Parser.parse` only -/
theorem source_written_by_parse_only :
    (cursorWriters.filter (·.2.2 == "source")).all
      (fun w => w.1 == "tdop.py" && (w.2.1 == "__init__" || w.2.1 == "parse")) = true := by decide +kernel

end EPV.C03

/-
C08 (phase 5) — fn:deep-equal on sequences of atomic items: the property theorems.

Model: `EPV.Seq.deepEqual` (`Model/SeqDeepEq.lean`, transcribed from `elementpath/compare.py::deep_equal`);
specification: `EPV.Seq.DSpec.deepEqual` (`Spec/FODeepEq.lean`, F&O 3.1 §15.3.1 + XPath 3.1 §3.7.1).
Items: xs:integer (unbounded), xs:decimal, xs:double (NaN, ±INF, −0, any dyadic), xs:string, xs:boolean,
xs:untypedAtomic, xs:anyURI; collations: code points and html-ascii-case-insensitive.
-/
import EPV.Lemmas.SeqDeepEq
namespace EPV.C08
open EPV.Seq

/-- **fn:deep-equal = F&O §15.3.1 on atomic sequences**, full strength (since the repairs F08ab, F08ac on branch
`fix-c08-6`).  For every collation and all sequences `xs`, `ys` of atomic items (any lengths, any mixture of kinds,
integers of any size, NaN, ±INF, −0) the Python loop returns exactly "same length and every pair is `eq` or both
NaN"; it never raises. -/
theorem deep_equal_eq_spec (cl : Coll) (xs ys : List DItem) (hx : DSpec.atomic xs = true)
    (hy : DSpec.atomic ys = true) :
    deepEqual cl xs ys = .ok (DSpec.deepEqual cl xs ys) :=
  deepEqual_eq_spec cl xs ys hx hy

/-- test: the hypotheses hold on a mixed pair of sequences (NaN = NaN, 1 = 1.0 = 1e0, 'a' = xs:anyURI('A') under the
case-insensitive collation, −0 = 0, 2^53+1 = 2^53e0 after promotion) and the result is `true` -/
example :
    let xs : List DItem := [.dbl .nan, .int 1, .dec 10 1, .str "a", .dbl .nzero, .int (2 ^ 53 + 1), .untyped "x", .bool true]
    let ys : List DItem := [.dbl .nan, .dec 10 1, .dbl (.fin 1 0), .uri "A", .int 0, .dbl (.fin (2 ^ 53) 0), .str "X", .bool true]
    DSpec.atomic xs = true ∧ DSpec.atomic ys = true ∧
      deepEqual .asciiCI xs ys = .ok true ∧ deepEqual .codepoint xs ys = .ok false := by decide +kernel

/-- the same statement for one pair of items: the branch structure of the `try:` block (booleans, string-likes,
xs:untypedAtomic, float first, float second, exact `!=`) computes `eq` or both-NaN -/
theorem deep_equal_pair_eq_spec (cl : Coll) (a b : DItem) (ha : a.isNode = false) (hb : b.isNode = false) :
    deepEqPair cl a b = .ok (DSpec.deepEqItems cl a b) :=
  deepEqPair_eq_spec cl a b ha hb

example : (DItem.dec 1 1).isNode = false ∧ (DItem.dbl (.fin 1 0)).isNode = false ∧
    deepEqPair .codepoint (.dec 1 1) (.dbl (.fin 1 0)) = .ok false := by decide +kernel

/-- the input of the former finding F08ab (kernel-checked, about the repaired code): NaN beside 2^1024 is `false`
in both orders, as F&O says; the old code raised a bare `OverflowError` for the first order -/
theorem deep_equal_nan_huge_false :
    deepEqual .codepoint [.dbl .nan] [.int (2 ^ 1024)] = .ok false ∧
    DSpec.deepEqual .codepoint [.dbl .nan] [.int (2 ^ 1024)] = false ∧
    nanVsHuge (.dbl .nan) (.int (2 ^ 1024)) = true ∧
    deepEqual .codepoint [.int (2 ^ 1024)] [.dbl .nan] = .ok false := by decide +kernel

/-- the input of the former finding F08ac (kernel-checked, about the repaired code): INF beside 2^1024 or a decimal
10^400 is deep-equal in both orders — `INF eq 2^1024` is true after promotion; −INF is not -/
theorem deep_equal_inf_huge_true :
    deepEqual .codepoint [.dbl .pinf] [.int (2 ^ 1024)] = .ok true ∧
    deepEqual .codepoint [.int (2 ^ 1024)] [.dbl .pinf] = .ok true ∧
    deepEqual .codepoint [.dec (10 ^ 400) 0] [.dbl .pinf] = .ok true ∧
    deepEqual .codepoint [.dbl .ninf] [.int (2 ^ 1024)] = .ok false ∧
    DSpec.deepEqual .codepoint [.dbl .pinf] [.int (2 ^ 1024)] = true ∧
    infVsHuge (.dbl .pinf) (.int (2 ^ 1024)) = true ∧ infVsHuge (.int (2 ^ 1024)) (.dbl .pinf) = true := by
  decide +kernel

/-- **reflexivity**, unconditional: every sequence of atomic items is deep-equal to itself — NaN, ±INF, −0,
integers of any size, every string under either collation (no trigger hypothesis: the defective branches need
two items of different types) -/
theorem deep_equal_refl (cl : Coll) (xs : List DItem) (hx : DSpec.atomic xs = true) :
    deepEqual cl xs xs = .ok true :=
  deepEqual_refl cl xs hx

example : DSpec.atomic [DItem.dbl .nan, .int (10 ^ 400), .dbl .pinf, .str "ß"] = true := by decide

/-- **symmetry of the specification**, unconditional -/
theorem deep_equal_spec_symm (cl : Coll) (xs ys : List DItem) :
    DSpec.deepEqual cl xs ys = DSpec.deepEqual cl ys xs :=
  DSpec.deepEqual_comm cl xs ys

/-- **symmetry of the code**, full strength: swapping the two arguments never changes the answer -/
theorem deep_equal_symm (cl : Coll) (xs ys : List DItem) (hx : DSpec.atomic xs = true)
    (hy : DSpec.atomic ys = true) :
    deepEqual cl xs ys = deepEqual cl ys xs := by
  rw [deepEqual_eq_spec cl xs ys hx hy, deepEqual_eq_spec cl ys xs hy hx, DSpec.deepEqual_comm]

example : DSpec.atomic [DItem.int 1, .str "a", .dbl .nan] = true ∧ DSpec.atomic [DItem.dbl (.fin 1 0), .untyped "a", .int (2 ^ 1024)] = true ∧
    deepEqual .codepoint [DItem.int 1, .str "a", .dbl .nan] [.dbl (.fin 1 0), .untyped "a", .int (2 ^ 1024)] = .ok false := by
  decide +kernel

/-- sequences of different lengths are never deep-equal (whatever the items: the loop
cannot end with `True` on a `None` filler) -/
theorem deep_equal_true_same_length (cl : Coll) : ∀ (xs ys : List DItem), deepEqual cl xs ys = .ok true →
    xs.length = ys.length
  | [], [], _ => rfl
  | [], _ :: _, h => by simp [deepEqual] at h
  | _ :: _, [], h => by simp [deepEqual] at h
  | a :: as, b :: bs, h => by
    rw [deepEqual] at h
    cases hp : deepEqPair cl a b with
    | error e => rw [hp] at h; cases h
    | ok v =>
      cases v with
      | false => rw [hp] at h; cases h
      | true =>
        rw [hp] at h
        simp only [List.length_cons, deep_equal_true_same_length cl as bs h]

example : deepEqual .codepoint [DItem.int 1, .int 2] [.int 1, .int 2, .int 3] = .ok false := by decide

/-- both NaN: deep-equal although `NaN eq NaN` is false (test on literals) -/
example : deepEqual .codepoint [DItem.dbl .nan] [.dbl .nan] = .ok true ∧
    DSpec.valueEq .codepoint (.dbl .nan) (.dbl .nan) = some false := by decide

/-- kinds without `eq` between them: `false`, never an error (tests on literals) -/
example : deepEqual .codepoint [DItem.untyped "1"] [.int 1] = .ok false ∧
    deepEqual .codepoint [DItem.bool true] [.int 1] = .ok false ∧
    deepEqual .codepoint [DItem.str "1"] [.dbl (.fin 1 0)] = .ok false ∧
    deepEqual .codepoint [DItem.dbl .nan] [.str "NaN"] = .ok false := by decide

end EPV.C08

/-
C15 (phase 5) — array:sort with a key function and with NaN, ±INF, −0, booleans: the property theorems.
Model `EPV/Model/MapArraySortKey.lean` (Python lines named there; mirrors the code after fix F15z,
branch `fix-c15-6`), spec `EPV/Spec/FOSort.lean` (F&O 3.1 §16.2.6 deep-less-than, §17.3.17 array:sort),
lemmas `EPV/Lemmas/MapArraySortKey.lean`, `EPV/Lemmas/MapArraySortRefine.lean`.
-/
import EPV.Lemmas.MapArraySortKey
import EPV.Lemmas.MapArraySortRefine
namespace EPV.C15
open EPV.MapArray

/-- **array_sort_key_sorted_stable** — full strength: for every key function of the modelled set (none
included) and every array whose members are sequences of integers, decimals, doubles (NaN, ±INF, −0
included), strings and booleans: whenever the code's array:sort returns a result `r`, then `r` is a
permutation of the members, each member is paired with the key sequence the key function returns for
it (the key function is applied to the whole member, whatever its length), the result is ordered by
the specification's order (no later key is deep-less-than an earlier one, F&O 3.1 §16.2.6), and it
is stable (two members whose keys are not out of order keep their relative position).  No trigger
predicate. -/
theorem array_sort_key_sorted_stable (kf : KFn) (ms r : List (List Key)) (h : arrSortPy kf ms = .ok r) :
    ∃ keyed sorted : List (List Key × List XKey),
      sortKeysOf kf ms = some keyed ∧ keyed.map (·.1) = ms ∧
      (∀ p ∈ keyed, (kf.apply p.1).mapM Key.xkey? = some p.2) ∧
      r = sorted.map (·.1) ∧ r.Perm ms ∧ sorted.Perm keyed ∧
      sorted.Pairwise (fun a b => Spec.deepLt b.2 a.2 = false) ∧
      (∀ a b, Spec.deepLt b.2 a.2 = false → [a, b].Sublist keyed → [a, b].Sublist sorted) := by
  simp only [arrSortPy] at h
  split at h
  · rename_i keyed hk
    obtain ⟨sorted, hr, hperm, hsorted, hstable⟩ := sortKeyed_spec_deepLt keyed r h
    have hks := sortKeysOf_spec kf ms keyed hk
    refine ⟨keyed, sorted, hk, hks.1, hks.2, hr, ?_, hperm, hsorted, hstable⟩
    rw [hr, ← hks.1]
    exact hperm.map _
  · cases h

/-- tests on literals (kernel-evaluated insertion sort): the hypothesis of the theorem is satisfiable on
non-trivial arrays — special doubles `[NaN, 1, -INF, INF, -0.0, 0, 0.0e0, NaN]` (NaN first, −0.0/0/0.0
tied and in input order), booleans, the key function `($m instance of xs:integer → first)`, and key
functions on members of zero or several items (`reverse($m)`: (1,2) and (0,2) tie on the first key
item and are ordered by the second) -/
example :
    arrSortPy .none [[.dnan], [.int 1], [.dinf true], [.dinf false], [.dbl 0 true], [.int 0], [.dbl 0 false], [.dnan]]
      = .ok [[.dnan], [.dnan], [.dinf true], [.dbl 0 true], [.int 0], [.dbl 0 false], [.int 1], [.dinf false]] ∧
    arrSortPy .none [[.bool true, .int 1], [.bool false, .dinf false], [.bool true, .dnan], [.bool true]]
      = .ok [[.bool false, .dinf false], [.bool true], [.bool true, .dnan], [.bool true, .int 1]] ∧
    arrSortPy .intFirst [[.dec (mkRat 1 2)], [.int 3], [.dnan], [.int 1]]
      = .ok [[.int 1], [.int 3], [.dnan], [.dec (mkRat 1 2)]] ∧
    arrSortPy .rev [[.int 1, .int 2], [.int 5], [], [.int 0, .int 2]]
      = .ok [[], [.int 0, .int 2], [.int 1, .int 2], [.int 5]] ∧
    arrSortPy .none [[.bool true], [.int 1]] = .error .XPTY0004 := by decide

/-- **the former F15z witness, now about the repaired behaviour** (kernel-checked):
`array:sort([(1,2), ()], (), function($m){count($m)})` — a key function with members that are not
single items (`keyOnSeqMember`) — is `[(), (1,2)]` for the code and for F&O (it was XPTY0004 before
`fix-c15-6`). -/
theorem array_sort_key_on_sequence_members :
    keyOnSeqMember .count [[.int 1, .int 2], []] = true ∧
    arrSortPy .count [[.int 1, .int 2], []] = .ok [[], [.int 1, .int 2]] ∧
    Spec.arrSort .count [[.int 1, .int 2], []] = .ok [[], [.int 1, .int 2]] := by decide

/-- **array_sort_order_total_preorder**: the comparison of key sequences used by the sort (`deep_compare ≤ 0`:
NaN below −INF below every finite number below +INF, −0 = 0, numbers by exact value, false below
true, strings by code points, sequences lexicographically with a proper prefix first) is total and
transitive on all key sequences, and on sequences that agree in class position by position it is
exactly "not deep-less-than with the operands swapped" of F&O 3.1 §16.2.6. -/
theorem array_sort_order_total_preorder :
    (∀ a b : List XKey, (xLe a b || xLe b a) = true) ∧
    (∀ a b c : List XKey, xLe a b = true → xLe b c = true → xLe a c = true) ∧
    (∀ a b : List XKey, clsCompat a b = true → Spec.deepLt a b = !xLe b a) :=
  ⟨xLe_total, fun _ _ _ => xLe_trans, deepLt_eq_not_xLe⟩

/-- **array_sort_special_values**: for every finite number `v`: NaN sorts before −INF, −INF before `v`,
`v` before +INF; NaN ties with NaN; false before true (the order of F&O's deep-less-than). -/
theorem array_sort_special_values (v : Rat) :
    Spec.deepLt [.nan] [.ninf] = true ∧ Spec.deepLt [.ninf] [.num v] = true ∧
    Spec.deepLt [.num v] [.pinf] = true ∧ Spec.deepLt [.nan] [.num v] = true ∧
    Spec.deepLt [.nan] [.nan] = false ∧ Spec.deepLt [.bool false] [.bool true] = true ∧
    xLe [.nan] [.ninf] = true ∧ xLe [.ninf] [.num v] = true ∧ xLe [.num v] [.pinf] = true ∧
    xLe [.pinf] [.num v] = false ∧ xLe [.num v] [.nan] = false ∧ xLe [.nan] [.nan] = true ∧
    xLe [.bool false] [.bool true] = true ∧ xLe [.bool true] [.bool false] = false := by
  simp [Spec.deepLt, Spec.opLt, xLe, XKey.lt, XKey.rank]

/-- **array_sort_refines_spec** — full strength: for every key function of the modelled set and every
array of the modelled kinds, array:sort of the code (stable insertion by `deep_compare` of the keys)
and array:sort of F&O 3.1 (repeated selection of the first member whose key no other key is
deep-less-than) give the same answer — the same array, or XPTY0004 for both. -/
theorem array_sort_refines_spec (kf : KFn) (ms : List (List Key)) :
    arrSortPy kf ms = Spec.arrSort kf ms :=
  arrSortPy_eq_spec kf ms

/-- test on literals: the spec algorithm on an array with a key function and sequence members -/
example :
    Spec.arrSort .intFirst [[.dec (mkRat 1 2)], [.int 3], [.dnan], [.int 1]]
      = .ok [[.int 1], [.int 3], [.dnan], [.dec (mkRat 1 2)]] ∧
    Spec.arrSort .parity [[.int 1, .int 2], [.int 0], [], [.int 7, .int 7, .int 7]]
      = .ok [[], [.int 1, .int 2], [.int 0], [.int 7, .int 7, .int 7]] := by decide

end EPV.C15

/-
C17, phase 5 — insignificant whitespace (RFC 8259 §2).

`parseJsonWs` (`Spec/RFC8259Ws.lean`) is the RFC 8259 reader with `ws` (space, TAB, LF, CR) around the six structural
characters and around the whole text.  `jsonTokens v` (`Model/JsonTokens.lean`) is the token sequence of
`serialize_to_json(v)`; `Pads toks X` says that the text `X` is `toks` with an ARBITRARY whitespace string before every
token and at the end (all texts that differ from the compact output by insignificant whitespace only: `indent` output,
pretty printers, hand-written layouts); `padWith ws toks` is the executable form the driver prints and the harness
compares with the live serializer's (indented / padded) text on every run.
-/
import EPV.Lemmas.JsonWs
import EPV.Lemmas.JsonDouble
namespace EPV.C17
open EPV.Json

/-- the tokens of `serialize_to_json(v)`, written one after the other, ARE its output (no padding = the compact text) -/
theorem json_tokens_concat (v : JValue) : (jsonTokens v).flatten = serializeJson v := by
  rw [serializeJson_eq, jsonTokens, tokensG_flatten, renderG_std, serCharT_eq]

/-- FULL STRENGTH: the RFC 8259 reader with insignificant whitespace reads EVERY whitespace-padded rendering of
`serialize_to_json(v)` back to `v` — for every JSON value (unbounded nesting, strings of Unicode scalar values, all
integers, all normal-form doubles) and every padding (any whitespace strings, of any length, before every token and
at the end). -/
theorem serialize_ws_parse_value (v : JValue) (hv : v.valid = true) (X : Str) (h : Pads (jsonTokens v) X) :
    parseJsonWs X = some v := by
  have := parseJsonWs_tokensG serChar renderInt reprDouble JValue.int JValue.dbl isScalar escOK_serChar wfDec
    (fun n => ⟨renderInt_head n, fun r hr => parseNum_renderInt n r hr⟩) numOK_reprDouble v hv X
    (by rw [← serCharT_eq]; exact h)
  rw [mapNum_id] at this
  exact this

/-- the same with the executable padding function: for every list of whitespace strings -/
theorem serialize_padded_parse_value (v : JValue) (hv : v.valid = true) (ws : List Str)
    (hws : ∀ w ∈ ws, w.all isWs = true) : parseJsonWs (padWith ws (jsonTokens v)) = some v :=
  serialize_ws_parse_value v hv _ (pads_padWith ws (jsonTokens v) hws)

/-- no padding: the reader with whitespace also reads the compact output -/
theorem serialize_parse_value_ws_compact (v : JValue) (hv : v.valid = true) : parseJsonWs (serializeJson v) = some v := by
  have := serialize_padded_parse_value v hv [] (by simp)
  rwa [show padWith [] (jsonTokens v) = (jsonTokens v).flatten from by
    generalize jsonTokens v = l; induction l with
    | nil => rfl
    | cons t l ih => simp [padWith, ih], json_tokens_concat] at this

/-- the hypotheses hold on a non-trivial value and layout (test on literals): `[ 1 ,LF TAB {"a/" CR : null } ] LF`,
all four whitespace characters, whitespace at both ends -/
example :
    let v : JValue := .arr [.int 1, .obj [([97, 47], .null)]]
    let ws : List Str := [[32], [32], [32], [10, 9], [], [13], [32], [32], [32], [10]]
    v.valid = true ∧ (∀ w ∈ ws, w.all isWs = true) ∧
    padWith ws (jsonTokens v) = [32, 91, 32, 49, 32, 44, 10, 9, 123, 34, 97, 92, 47, 34, 13, 58, 32, 110, 117, 108, 108,
      32, 125, 32, 93, 10] ∧ parseJsonWs (padWith ws (jsonTokens v)) = some v :=
  ⟨by decide, by decide, by rfl, by rfl⟩

/-- the reader is not over-liberal (tests on literals): whitespace inside a token or between two values, other
space characters (VT, NBSP) and a trailing comma are rejected — `1 2`, `tr ue`, `[1,VT 2]`, NBSP `1`, `[1 , ]`, `- 1` -/
example : parseJsonWs [49, 32, 50] = none ∧ parseJsonWs [116, 114, 32, 117, 101] = none ∧
    parseJsonWs [91, 49, 44, 11, 50, 93] = none ∧ parseJsonWs [160, 49] = none ∧
    parseJsonWs [91, 49, 32, 44, 32, 93] = none ∧ parseJsonWs [45, 32, 49] = none ∧ parseJsonWs [32] = none := by
  refine ⟨by rfl, by rfl, by rfl, by rfl, by rfl, by rfl, by rfl⟩

end EPV.C17

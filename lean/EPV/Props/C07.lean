/-
C07 — property theorems: comparisons, effective boolean value, logic.
Only statements a reader needs; helper lemmas are in EPV/Lemmas/Compare*.lean.

Reading guide
* `generalCmp m op L R`, `valueCmp m op L R` : transcriptions of the Python evaluators
  (EPV/Model/Compare.lean) for parser mode `m` (v1 = XPath1Parser, v2c = XPath2Parser in compatibility
  mode, v2 = XPath2Parser, v31 = XPath31Parser); `pairGeneral m op a b` is what the code does with one
  pair (isinstance dispatch of iter_comparison_data, then the Python operator)
* `ebvIter` / `ebvList` : `boolean_value` on an iterator / a list;  `andE orE notE ifE` : the logic operators
* `CmpSpec.*` : the W3C reading (EPV/Spec/FOCompare.lean); `Out` = T / F / empty / error
* `CmpFind.*` : trigger predicates of the recorded findings (EPV/Lemmas/CompareFindings.lean)
-/
import EPV.Lemmas.CompareBasic
import EPV.Lemmas.CompareFindings
import EPV.Lemmas.CompareOrder
import EPV.Lemmas.CompareGeneral
import EPV.Lemmas.CompareCompat
import EPV.Lemmas.CompareContext
import EPV.Lemmas.CompareCompat2
import EPV.Lemmas.CompareCollation
namespace EPV.C07
open EPV.Cmp EPV.CmpSpec EPV.CmpFind

/-! ## general comparison = existential over the pairs -/

/-- Outside compatibility mode the general comparison is the `any` loop over the cartesian product of
the atomized operands (left operand outermost). -/
theorem general_is_any (m : Mode) (op : Op) (L Rr : List Item) (hm : m.compat = false) :
    generalCmp m op L Rr =
      anyPairs (pairGeneral m op) (product (L.map (atomize m)) (Rr.map (atomize m))) := by
  simp [generalCmp, generalCmpWith, hm]

/-- HEADLINE (soundness half): a general comparison is true only if some pair (a, b), a from the left
and b from the right operand, satisfies the pair comparison. -/
theorem general_iff_exists_sound (m : Mode) (op : Op) (L Rr : List Item) (hm : m.compat = false)
    (h : generalCmp m op L Rr = .ok true) :
    ∃ x ∈ L, ∃ y ∈ Rr, pairGeneral m op (atomize m x) (atomize m y) = .ok true := by
  rw [general_is_any m op L Rr hm] at h
  obtain ⟨⟨a, b⟩, hp, hf⟩ := anyPairs_true h
  obtain ⟨ha, hb⟩ := mem_product.mp hp
  obtain ⟨x, hx, rfl⟩ := List.mem_map.mp ha
  obtain ⟨y, hy, rfl⟩ := List.mem_map.mp hb
  exact ⟨x, hx, y, hy, hf⟩

/-- HEADLINE (completeness half): if some pair satisfies the comparison and no pair raises an error,
the general comparison is true.  (When a pair raises, XPath §2.3.4 permits either outcome; the code
answers with whichever of "first true pair" / "first raising pair" comes first, see
`general_first_decides`.) -/
theorem general_iff_exists_complete (m : Mode) (op : Op) (L Rr : List Item) (hm : m.compat = false)
    (ht : ∃ x ∈ L, ∃ y ∈ Rr, pairGeneral m op (atomize m x) (atomize m y) = .ok true)
    (hn : ∀ x ∈ L, ∀ y ∈ Rr, ∃ v, pairGeneral m op (atomize m x) (atomize m y) = .ok v) :
    generalCmp m op L Rr = .ok true := by
  rw [general_is_any m op L Rr hm]
  apply anyPairs_complete
  · obtain ⟨x, hx, y, hy, h⟩ := ht
    exact ⟨(atomize m x, atomize m y),
      mem_product.mpr ⟨List.mem_map.mpr ⟨x, hx, rfl⟩, List.mem_map.mpr ⟨y, hy, rfl⟩⟩, h⟩
  · intro ⟨a, b⟩ hp
    obtain ⟨ha, hb⟩ := mem_product.mp hp
    obtain ⟨x, hx, rfl⟩ := List.mem_map.mp ha
    obtain ⟨y, hy, rfl⟩ := List.mem_map.mp hb
    exact hn x hx y hy

/-- A general comparison is false exactly when every pair compares false (no error anywhere). -/
theorem general_false_iff_all_false (m : Mode) (op : Op) (L Rr : List Item) (hm : m.compat = false) :
    generalCmp m op L Rr = .ok false ↔
      ∀ x ∈ L, ∀ y ∈ Rr, pairGeneral m op (atomize m x) (atomize m y) = .ok false := by
  rw [general_is_any m op L Rr hm, anyPairs_false]
  constructor
  · intro h x hx y hy
    exact h (atomize m x, atomize m y)
      (mem_product.mpr ⟨List.mem_map.mpr ⟨x, hx, rfl⟩, List.mem_map.mpr ⟨y, hy, rfl⟩⟩)
  · intro h ⟨a, b⟩ hp
    obtain ⟨ha, hb⟩ := mem_product.mp hp
    obtain ⟨x, hx, rfl⟩ := List.mem_map.mp ha
    obtain ⟨y, hy, rfl⟩ := List.mem_map.mp hb
    exact h x hx y hy

/-- An error code raised by a general comparison is the error of one of its pairs. -/
theorem general_error_from_pair (m : Mode) (op : Op) (L Rr : List Item) (hm : m.compat = false) (e : Err)
    (h : generalCmp m op L Rr = .error e) :
    ∃ x ∈ L, ∃ y ∈ Rr, pairGeneral m op (atomize m x) (atomize m y) = .error e := by
  rw [general_is_any m op L Rr hm] at h
  obtain ⟨⟨a, b⟩, hp, hf⟩ := anyPairs_error h
  obtain ⟨ha, hb⟩ := mem_product.mp hp
  obtain ⟨x, hx, rfl⟩ := List.mem_map.mp ha
  obtain ⟨y, hy, rfl⟩ := List.mem_map.mp hb
  exact ⟨x, hx, y, hy, hf⟩

/-- The first pair, in nested-loop order, that is not plainly false decides the outcome. -/
theorem general_first_decides (f : Atom → Atom → R) (pre post : List (Atom × Atom)) (p : Atom × Atom)
    (hpre : ∀ q ∈ pre, f q.1 q.2 = .ok false) (hp : f p.1 p.2 ≠ .ok false) :
    anyPairs f (pre ++ p :: post) = f p.1 p.2 :=
  anyPairs_prefix hpre hp

/-- test (literals): `(1, "a") = 1` is true although the pair ("a", 1) would raise XPTY0004,
`("a", 1) = 1` raises: both outcomes are permitted by XPath §2.3.4 -/
example : generalCmp .v2 .eq [.atom (.int 1), .atom (.str [97])] [.atom (.int 1)] = .ok true ∧
    generalCmp .v2 .eq [.atom (.str [97]), .atom (.int 1)] [.atom (.int 1)] = .error .XPTY0004 := by
  decide +kernel

/-- PARTIAL (findings F07, F07-promotion).  One pair of a general comparison, any two
atoms of the 17 types (untypedAtomic included), any operator: if the pair is `PairClean` (EPV/Lemmas/
CompareGeneral.lean: the two trigger predicates off, lexical fragment, timezones within ±14:00) the code — isinstance dispatch of iter_comparison_data, then the Python rich
comparison of the datatype classes, then the exception mapping — yields exactly the outcome of
XPath 3.1 §3.7.2 (a)-(c) (cast of the untypedAtomic operand as dictated by the other operand) followed
by the value comparison of §3.7.1: the same boolean, FORG0001 for a failed cast, XPTY0004 for
incomparable types.  The full statement is false: see the `*_witness` theorems below. -/
theorem general_pair_conforms_partial (m : Mode) (op : Op) (a b : Atom) (h : PairClean m op a b) :
    pairGeneral m op a b = pairSpec m op a b :=
  pairGeneral_conforms_clean m op a b h

/-- the hypothesis is satisfiable on non-trivial pairs: untyped "10" < 9 (cast to double), untyped
" true " = true() (cast to boolean), "abc" < anyURI "abd", hexBinary in 3.1, untyped "a" = QName a (3.1) -/
example : PairClean .v2 .lt (.ua [49, 48]) (.int 9) ∧ pairGeneral .v2 .lt (.ua [49, 48]) (.int 9) = .ok false ∧
    PairClean .v2 .eq (.ua [32, 116, 114, 117, 101, 32]) (.bool true) ∧
    PairClean .v31 .lt (.str [97, 98, 99]) (.uri [97, 98, 100]) ∧
    PairClean .v31 .lt (.hex [1, 2]) (.hex [1, 3]) ∧
    PairClean .v31 .eq (.ua [97]) (.qn [] [] [97]) ∧ pairGeneral .v31 .eq (.ua [97]) (.qn [] [] [97]) = .ok true := by
  unfold PairClean; decide +kernel

/-- HEADLINE, against the specification.  PARTIAL (same findings).  For XPath2Parser / XPath31Parser
without compatibility mode, any two sequences of items (nodes of an untyped document or atoms): if
every pair of the cartesian product is `PairClean`, the result of the code's general comparison is
one of the outcomes the specification permits — `true` only if some pair satisfies the value
comparison after the untypedAtomic conversion, `false` only if every pair compares false, an error
only if that very error is raised by some pair. -/
theorem general_cmp_conforms_partial (m : Mode) (op : Op) (L Rr : List Item) (hm : m = .v2 ∨ m = .v31)
    (hclean : ∀ x ∈ L, ∀ y ∈ Rr, PairClean m op (atomize m x) (atomize m y)) :
    ∃ allowed, generalAllowed m op L Rr = some allowed ∧ outOfR (generalCmp m op L Rr) ∈ allowed := by
  have hcompat : m.compat = false := by rcases hm with rfl | rfl <;> rfl
  have hat : atomizeS m = atomize m := by funext x; cases x <;> rfl
  have hprod : pairsOf = product := rfl
  have hps : ∀ p ∈ product (L.map (atomize m)) (Rr.map (atomize m)), PairClean m op p.1 p.2 := by
    intro ⟨a, b⟩ hp
    obtain ⟨ha, hb⟩ := mem_product.mp hp
    obtain ⟨x, hx, rfl⟩ := List.mem_map.mp ha
    obtain ⟨y, hy, rfl⟩ := List.mem_map.mp hb
    exact hclean x hx y hy
  have hmap : (product (L.map (atomize m)) (Rr.map (atomize m))).map (fun p => pairSpec m op p.1 p.2) =
      (product (L.map (atomize m)) (Rr.map (atomize m))).map (fun p => pairGeneral m op p.1 p.2) := by
    apply List.map_congr_left
    intro p hp
    exact (general_pair_conforms_partial m op p.1 p.2 (hps p hp)).symm
  have hga : generalAllowed m op L Rr =
      allowedOfPairs ((product (L.map (atomize m)) (Rr.map (atomize m))).map (fun p => pairSpec m op p.1 p.2)) := by
    rcases hm with rfl | rfl <;> simp [generalAllowed, hat, hprod]
  rw [hga, hmap, general_is_any m op L Rr hcompat]
  exact anyPairs_in_allowed (pairGeneral m op) _ (fun p hp => (hps p hp).2.2.2.1)

/-! ## the implicit timezone of the dynamic context; purity -/

/-- CONTEXT.  Under a dynamic context with implicit timezone `itz` the code (which fills the timezone
of timezone-less date/time operands pair by pair, on copies, just before the operator) computes what
the context-free evaluator computes on the operands in which *every* timezone-less date/time value has
been given the implicit timezone — the reading of XPath 3.1 §2.1.2.  Hence every theorem of this file
about `generalCmp` / `valueCmp` transfers to any context (`general_cmp_conforms_ctx_partial`). -/
theorem general_ctx_reduction (itz : Option Int) (m : Mode) (op : Op) (L Rr : List Item) (hm : m ≠ .v1) :
    generalCmpCtx itz m op L Rr = generalCmp m op (L.map (withImplicitTz itz)) (Rr.map (withImplicitTz itz)) := by
  cases m with
  | v1 => exact absurd rfl hm
  | v2c => exact generalCmpCtx_eq_filled_v2c itz op L Rr
  | v2 => exact generalCmpCtx_eq_filled itz .v2 op L Rr rfl
  | v31 => exact generalCmpCtx_eq_filled itz .v31 op L Rr rfl

/-- the XPath 1.0 parser is excluded for a reason: its `=`/`!=` path compares the raw pairs without
filling the timezone, so two dateTime values bound to variables are compared with the timezone-less
one read as UTC whatever the context's implicit timezone (the 1.0 data model has no date/time values;
not a finding) -/
example :
    let v : Item := .atom (.dtm ⟨63113907600, none⟩)
    let w : Item := .atom (.dtm ⟨63113907600, some (-300)⟩)
    generalCmpCtx (some (-300)) .v1 .eq [v] [w] = .ok false ∧
    generalCmp .v1 .eq ([v].map (withImplicitTz (some (-300)))) ([w].map (withImplicitTz (some (-300)))) = .ok true ∧
    generalCmpCtx (some (-300)) .v2c .eq [v] [w] = .ok true := by decide +kernel

theorem value_ctx_reduction (itz : Option Int) (m : Mode) (op : Op) (L Rr : List Item) :
    valueCmpCtx itz m op L Rr = valueCmp m op (L.map (withImplicitTz itz)) (Rr.map (withImplicitTz itz)) :=
  valueCmpCtx_eq_filled itz m op L Rr

/-- without an implicit timezone the context evaluators are the plain ones -/
theorem ctx_none (m : Mode) (op : Op) (L Rr : List Item) :
    generalCmpCtx none m op L Rr = generalCmp m op L Rr ∧ valueCmpCtx none m op L Rr = valueCmp m op L Rr :=
  ⟨generalCmpCtx_none m op L Rr, valueCmpCtx_none m op L Rr⟩

/-- HEADLINE under a context, against the specification.  PARTIAL (same findings). -/
theorem general_cmp_conforms_ctx_partial (itz : Option Int) (m : Mode) (op : Op) (L Rr : List Item)
    (hm : m = .v2 ∨ m = .v31)
    (hclean : ∀ x ∈ L.map (withImplicitTz itz), ∀ y ∈ Rr.map (withImplicitTz itz),
      PairClean m op (atomize m x) (atomize m y)) :
    ∃ allowed, generalAllowedCtx itz m op L Rr = some allowed ∧
      outOfR (generalCmpCtx itz m op L Rr) ∈ allowed := by
  rw [general_ctx_reduction itz m op L Rr (by rcases hm with rfl | rfl <;> simp)]
  exact general_cmp_conforms_partial m op _ _ hm hclean

/-- the year-boundary history case: 2001-01-01T01:00:00 (no timezone) against
2000-12-31T23:00:00-05:00 is `gt` without implicit timezone (01:00Z > 04:00Z is false … read as UTC it
is earlier) and changes with the context: under -05:00 it is later, under +14:00 earlier — the model is
a function of (context, values) only -/
example :
    let v : Item := .atom (.dtm ⟨63113907600, none⟩)           -- 2001-01-01T01:00:00
    let w : Item := .atom (.dtm ⟨63113900400, some (-300)⟩)    -- 2000-12-31T23:00:00-05:00
    valueCmpCtx none .v2 .lt [v] [w] = .ok (some true) ∧
    valueCmpCtx (some (-300)) .v2 .lt [v] [w] = .ok (some false) ∧
    valueCmpCtx (some 840) .v2 .lt [v] [w] = .ok (some true) ∧
    generalCmpCtx (some (-300)) .v31 .gt [v] [w] = .ok true := by decide +kernel

/-! ## XPath 1.0 parser against XPath 1.0 §3.4 -/

/-- PARTIAL (finding F07-compat).  XPath1Parser, any of the six operators, any two operands that are
XPath 1.0 objects — a node-set of any size (its nodes' string values), a number, a string, a boolean:
outside the F07-compat trigger (a decidable predicate of the operands: a boolean against an empty /
multi-item / node operand or under an ordering operator; an ordering operator with an item that
`float()` rejects or reads differently from `number()`; `=`/`!=` between a number and a string or
node; an integer that is not exactly a double) the code returns exactly the boolean XPath 1.0 §3.4
prescribes (`cmp1`: node-set rules, then boolean / number / string conversions).  Inside the trigger
the code deviates: `compat_witness`. -/
theorem compat_v1_conforms_partial (op : Op) (L Rr : List Item) (allowed : List Out)
    (hs : generalAllowed .v1 op L Rr = some allowed)
    (ht : CmpFind.trigCompat .v1 op (L.map (atomize .v1)) (Rr.map (atomize .v1))
      (L.any CmpFind.isNode) (Rr.any CmpFind.isNode) = false) :
    outOfR (generalCmp .v1 op L Rr) ∈ allowed := by
  simp only [generalAllowed] at hs
  cases hL : obj1 L with
  | none => simp [hL] at hs
  | some a =>
    cases hR : obj1 Rr with
    | none => simp [hL, hR] at hs
    | some b =>
      cases hv : cmp1 op a b with
      | none => simp [hL, hR, hv] at hs
      | some v =>
        simp [hL, hR, hv] at hs
        subst hs
        rw [compat_v1_conforms op L Rr a b v hL hR hv ht]
        cases v <;> simp [outOfR, Out.ofBool]

/-- the hypotheses are satisfiable on non-trivial operands: a node-set of three nodes `< 2.5`, two
node-sets under `=`, `true() = 'x'` -/
example :
    CmpFind.trigCompat .v1 .lt ([.node [49], .node [51], .node [50]].map (atomize .v1)) ([.atom (.dbl (.fin (5/2)))].map (atomize .v1)) true false = false ∧
    generalCmp .v1 .lt [.node [49], .node [51], .node [50]] [.atom (.dbl (.fin (5/2)))] = .ok true ∧
    generalAllowed .v1 .lt [.node [49], .node [51], .node [50]] [.atom (.dbl (.fin (5/2)))] = some [.t] ∧
    CmpFind.trigCompat .v1 .eq ([.node [97], .node [98]].map (atomize .v1)) ([.node [98]].map (atomize .v1)) true true = false ∧
    CmpFind.trigCompat .v1 .eq [.bool true] [.str [120]] false false = false := by decide +kernel

/-- PARTIAL (finding F07-compat).  XPath2Parser(compatibility_mode=True) against XPath 2.0 §3.5.2
rules 1-4 (single-boolean rule; fn:number under ordering operators; number / string conversions of
rule 4, then the ordinary rules), for any two operand sequences (atoms of the 17 types, nodes) and any
operator: outside the F07-compat trigger, and with every pair of the cartesian product `PairClean`, the
code's result is one of the outcomes the specification permits. -/
theorem compat_v2c_conforms_partial (op : Op) (L Rr : List Item)
    (ht : CmpFind.trigCompat .v2c op (L.map (atomize .v2c)) (Rr.map (atomize .v2c))
      (L.any CmpFind.isNode) (Rr.any CmpFind.isNode) = false)
    (hclean : ∀ a ∈ L.map (atomize .v2c), ∀ b ∈ Rr.map (atomize .v2c), PairClean .v2c op a b) :
    ∃ allowed, generalAllowed .v2c op L Rr = some allowed ∧ outOfR (generalCmp .v2c op L Rr) ∈ allowed :=
  compat_v2c_conforms op L Rr ht hclean

/-- PARTIAL (finding F07-compat).  The same under a dynamic context with implicit timezone `itz`, against
the specification evaluated on the operands in which every timezone-less date/time value has taken the
implicit timezone (XPath 2.0 §2.1.2): the hypotheses are those of `compat_v2c_conforms_partial` on the
filled operands. -/
theorem compat_v2c_conforms_ctx_partial (itz : Option Int) (op : Op) (L Rr : List Item)
    (ht : CmpFind.trigCompat .v2c op ((L.map (withImplicitTz itz)).map (atomize .v2c))
      ((Rr.map (withImplicitTz itz)).map (atomize .v2c))
      ((L.map (withImplicitTz itz)).any CmpFind.isNode) ((Rr.map (withImplicitTz itz)).any CmpFind.isNode) = false)
    (hclean : ∀ a ∈ (L.map (withImplicitTz itz)).map (atomize .v2c),
      ∀ b ∈ (Rr.map (withImplicitTz itz)).map (atomize .v2c), PairClean .v2c op a b) :
    ∃ allowed, generalAllowedCtx itz .v2c op L Rr = some allowed ∧
      outOfR (generalCmpCtx itz .v2c op L Rr) ∈ allowed := by
  rw [general_ctx_reduction itz .v2c op L Rr (by simp)]
  exact compat_v2c_conforms op _ _ ht hclean

/-- the hypotheses are satisfiable with a date that takes the implicit timezone: under -05:00,
`$d = $e` for 2001-01-01T01:00:00 (no timezone) and 2001-01-01T06:00:00Z -/
example :
    let v : Item := .atom (.dtm ⟨63113907600, none⟩)
    let w : Item := .atom (.dtm ⟨63113925600, some 0⟩)
    CmpFind.trigCompat .v2c .eq (([v].map (withImplicitTz (some (-300)))).map (atomize .v2c))
      (([w].map (withImplicitTz (some (-300)))).map (atomize .v2c)) false false = false ∧
    generalCmpCtx (some (-300)) .v2c .eq [v] [w] = .ok true ∧
    generalCmpCtx none .v2c .eq [v] [w] = .ok false ∧
    generalAllowedCtx (some (-300)) .v2c .eq [v] [w] = some [.t] := by decide +kernel

/-- the hypotheses are satisfiable: a node-set `< 2` (all items numeric strings), `true() >= $x` -/
example :
    CmpFind.trigCompat .v2c .lt ([.node [49], .node [51]].map (atomize .v2c)) ([.atom (.int 2)].map (atomize .v2c)) true false = false ∧
    generalCmp .v2c .lt [.node [49], .node [51]] [.atom (.int 2)] = .ok true ∧
    generalAllowed .v2c .lt [.node [49], .node [51]] [.atom (.int 2)] = some [.t] ∧
    CmpFind.trigCompat .v2c .ge [.bool true] [.str [120]] false false = false := by decide +kernel

/-! ## effective boolean value -/

/-- `boolean_value` on an iterator (used by fn:boolean, fn:not, and, or, if) and on a list (used by
the compatibility-mode comparison) are the same function. -/
theorem ebv_iter_eq_list (l : List Item) : ebvIter l = ebvList l := ebvIter_eq_ebvList l

/-- EBV TABLE: for every sequence of items (any length, nodes anywhere, atoms of every type) the
code's effective boolean value is the one of F&O §7.3.1: empty → false; first item a node → true;
singleton boolean / string-like / numeric by the table; everything else FORG0006. -/
theorem ebv_table (l : List Item) : outOfR (ebvIter l) = CmpSpec.ebv l := by
  rw [ebvIter_eq_ebvList]
  match l with
  | [] => rfl
  | .node _ :: _ => rfl
  | .atom a :: x :: xs => cases a <;> rfl
  | [.atom a] =>
    cases a with
    | dbl d =>
      cases d <;> simp [ebvList, ebvAtom, CmpSpec.ebv, outOfR, D.isNaN, D.isZero, D.rank, D.val, Out.ofBool]
      rename_i q
      by_cases h : q = 0 <;> simp [h]
    | flt d =>
      cases d <;> simp [ebvList, ebvAtom, CmpSpec.ebv, outOfR, D.isNaN, D.isZero, D.rank, D.val, Out.ofBool]
      rename_i q
      by_cases h : q = 0 <;> simp [h]
    | int v =>
      simp only [ebvList, ebvAtom, CmpSpec.ebv, Out.ofBool]
      by_cases h : v = 0 <;> simp [h, outOfR]
    | dec q =>
      simp only [ebvList, ebvAtom, CmpSpec.ebv, Out.ofBool]
      by_cases h : q = 0 <;> simp [h, outOfR]
    | bool b => cases b <;> rfl
    | str s => cases s <;> rfl
    | ua s => cases s <;> rfl
    | uri s => cases s <;> rfl
    | _ => rfl

/-- test (literals): two atoms → FORG0006, node first → true, NaN → false -/
example : ebvIter [.atom (.int 1), .atom (.int 2)] = .error .FORG0006 ∧
    ebvIter [.node [97], .atom (.int 1)] = .ok true ∧ ebvIter [.atom (.dbl .nan)] = .ok false := by decide

/-! ## and / or / not / if -/

theorem and_table (x y : Bool) : andE (.ok x) (.ok y) = .ok (x && y) := by cases x <;> rfl
theorem or_table (x y : Bool) : orE (.ok x) (.ok y) = .ok (x || y) := by cases x <;> rfl
theorem not_table (x : Bool) : notE (.ok x) = .ok (!x) := rfl

/-- De Morgan, exactly, including error propagation and the short-circuit order -/
theorem de_morgan_and (a b : R) : notE (andE a b) = orE (notE a) (notE b) := by
  rcases a with e | x
  · rfl
  · cases x <;> rfl

theorem de_morgan_or (a b : R) : notE (orE a b) = andE (notE a) (notE b) := by
  rcases a with e | x
  · rfl
  · cases x <;> rfl

theorem not_not (a : R) : notE (notE a) = a := by
  rcases a with e | x
  · rfl
  · cases x <;> rfl

/-- `and` / `or` are commutative whenever neither operand raises -/
theorem and_comm_ok (x y : Bool) : andE (.ok x) (.ok y) = andE (.ok y) (.ok x) := by
  cases x <;> cases y <;> rfl
theorem or_comm_ok (x y : Bool) : orE (.ok x) (.ok y) = orE (.ok y) (.ok x) := by
  cases x <;> cases y <;> rfl

/-- associativity, exactly (errors included) -/
theorem and_assoc (a b c : R) : andE (andE a b) c = andE a (andE b c) := by
  rcases a with e | x
  · rfl
  · cases x <;> rfl
theorem or_assoc (a b c : R) : orE (orE a b) c = orE a (orE b c) := by
  rcases a with e | x
  · rfl
  · cases x <;> rfl

/-- the code's `and` / `or` always produce an outcome that the table of XPath 3.1 §3.8 permits
(when the left operand is false/true the right one is not evaluated: "either false or an error") -/
theorem and_conforms (a b : R) : outOfR (andE a b) ∈ andS (outOfR a) (outOfR b) := by
  rcases a with e | x <;> rcases b with e' | y
  · by_cases h : e = e' <;> simp [andE, outOfR, andS, h]
  · cases y <;> simp [andE, outOfR, andS]
  · cases x <;> simp [andE, outOfR, andS]
  · cases x <;> cases y <;> simp [andE, outOfR, andS]

theorem or_conforms (a b : R) : outOfR (orE a b) ∈ orS (outOfR a) (outOfR b) := by
  rcases a with e | x <;> rcases b with e' | y
  · by_cases h : e = e' <;> simp [orE, outOfR, orS, h]
  · cases y <;> simp [orE, outOfR, orS]
  · cases x <;> simp [orE, outOfR, orS]
  · cases x <;> cases y <;> simp [orE, outOfR, orS]

/-- the permitted-outcome tables themselves are symmetric -/
theorem andS_symm (a b o : Out) : o ∈ andS a b ↔ o ∈ andS b a := by
  cases a <;> cases b <;> simp [andS] <;> (try split) <;> simp_all <;> grind
theorem orS_symm (a b o : Out) : o ∈ orS a b ↔ o ∈ orS b a := by
  cases a <;> cases b <;> simp [orS] <;> (try split) <;> simp_all <;> grind

/-- `S1 and S2` on sequences: effective boolean values by the F&O table, combined as §3.8 permits -/
theorem and_seq_conforms (L Rr : List Item) :
    outOfR (andE (ebvIter L) (ebvIter Rr)) ∈ andS (CmpSpec.ebv L) (CmpSpec.ebv Rr) := by
  rw [← ebv_table L, ← ebv_table Rr]; exact and_conforms _ _
theorem or_seq_conforms (L Rr : List Item) :
    outOfR (orE (ebvIter L) (ebvIter Rr)) ∈ orS (CmpSpec.ebv L) (CmpSpec.ebv Rr) := by
  rw [← ebv_table L, ← ebv_table Rr]; exact or_conforms _ _

/-- fn:not on a sequence is the negation of its effective boolean value, errors kept -/
theorem not_seq_conforms (L : List Item) : outOfR (notE (ebvIter L)) = notS (CmpSpec.ebv L) := by
  rw [← ebv_table L]
  rcases ebvIter L with e | x
  · rfl
  · cases x <;> rfl

/-- the `if` laws: the condition's EBV selects the branch, an EBV error is the result, and negating
the condition swaps the branches -/
theorem if_true {α} (t e : Except Err α) : ifE (.ok true) t e = t := rfl
theorem if_false {α} (t e : Except Err α) : ifE (.ok false) t e = e := rfl
theorem if_error {α} (x : Err) (t e : Except Err α) : ifE (.error x) t e = .error x := rfl
theorem if_not_swaps {α} (c : R) (t e : Except Err α) : ifE (notE c) t e = ifE c e t := by
  rcases c with x | b
  · rfl
  · cases b <;> rfl
theorem if_and {α} (a b : R) (t e : Except Err α) : ifE (andE a b) t e = ifE a (ifE b t e) e := by
  rcases a with x | v
  · rfl
  · cases v <;> rfl

/-! ## value comparison: the type lattice and the orders -/

/-- PARTIAL (findings F07, F07-promotion).  For every pair of atoms (any of the 17 types,
untypedAtomic already turned into a string as get_atomized_operand does), every operator and every
2.0+ parser mode: if the pair is outside the two trigger predicates — two xs:float values under eq/ne
that differ but are `isclose`; a mixed numeric pair whose xs:float promotion differs
between binary32 and binary64 — the code's value
comparison returns exactly what XPath 3.1 §3.7.1 + B.2 says: the same boolean, or XPTY0004 on
exactly the incomparable type pairs (ordering of yearMonthDurations, which the code computes through
four `months2days` calendar offsets, included: `durCmp4_ymd`).  The full statement (no trigger hypotheses) is false:
`float_eq_and_lt_witness`, `float_promotion_witness`.
(string/untyped against QName is covered at full strength since the `fix:` commit for F07-qname.) -/
theorem value_cmp_conforms_partial (m : Mode) (op : Op) (a b : Atom)
    (hua : isUA a = false) (hub : isUA b = false)
    (hTol : trigTol op a b = false) (hProm : trigPromotion a b = false)
    (hTa : atomTzOK a = true) (hTb : atomTzOK b = true) :
    valuePair m op a b = valueOp (binOrdered m) op a b :=
  valuePair_conforms m op a b hua hub hTol hProm (dtConsistent_of_tzOK a b hTa hTb)

/-- the hypotheses are satisfiable on non-trivial pairs: 2^53+1 against a double, a decimal against a
float, two different close-but-not-too-close doubles -/
example : trigTol .lt (.dbl (.fin 1)) (.dbl (.fin (1 + 1 / 8388608))) = false ∧
    trigPromotion (.int 9007199254740993) (.dbl (.fin 9007199254740992)) = false ∧
    valuePair .v2 .eq (.int 9007199254740993) (.dbl (.fin 9007199254740992)) = .ok true ∧
    trigPromotion (.dec (3 / 2)) (.flt (.fin (3 / 2))) = false := by decide +kernel

/-- INCOMPARABLE ⇒ XPTY0004 (and only then): corollary of the previous theorem. -/
theorem incomparable_XPTY0004 (m : Mode) (op : Op) (a b : Atom)
    (hua : isUA a = false) (hub : isUA b = false)
    (hTol : trigTol op a b = false) (hProm : trigPromotion a b = false)
    (hTa : atomTzOK a = true) (hTb : atomTzOK b = true) :
    valuePair m op a b = .error .XPTY0004 ↔ valueOp (binOrdered m) op a b = .error .XPTY0004 := by
  rw [valuePair_conforms m op a b hua hub hTol hProm (dtConsistent_of_tzOK a b hTa hTb)]

/-- one representative atom per type -/
def reps : List Atom :=
  [.int 1, .dec (3 / 2), .dbl (.fin 2), .flt (.fin 2), .str [97], .bool true, .uri [97], .qn [] [] [97],
   .date ⟨5, none⟩, .dtm ⟨5, some 60⟩, .time ⟨5, none⟩, .dur 1 1, .ymd 1, .dtd 1, .hex [65], .b64 [65]]

/-- INCOMPARABLE ⇒ XPTY0004, as a kernel-evaluated table: over the 16 × 16 ordered pairs of typed
representatives × 6 operators × 3 modes, the code raises XPTY0004 exactly where the specification's
table does. -/
theorem incomparable_matrix :
    ∀ m ∈ [Mode.v2c, Mode.v2, Mode.v31], ∀ op ∈ [Op.eq, Op.ne, Op.lt, Op.le, Op.gt, Op.ge],
    ∀ a ∈ reps, ∀ b ∈ reps,
      (decide (valuePair m op a b = .error .XPTY0004) = decide (valueOp (binOrdered m) op a b = .error .XPTY0004)) := by
  decide +kernel

/-- number of (ordered type pair, operator) cells of that table that are incomparable in 2.0 / 3.1 -/
theorem incomparable_cell_count :
    ((reps.flatMap fun a => reps.flatMap fun b => [Op.eq, Op.ne, Op.lt, Op.le, Op.gt, Op.ge].filter fun op =>
        decide (valueOp false op a b = .error .XPTY0004)).length,
     (reps.flatMap fun a => reps.flatMap fun b => [Op.eq, Op.ne, Op.lt, Op.le, Op.gt, Op.ge].filter fun op =>
        decide (valueOp true op a b = .error .XPTY0004)).length) = (1360, 1352) := by
  decide +kernel

/-- VALUE COMPARISON ON SEQUENCES (rules 1-4 of §3.7.1 around the pair rule): an empty operand
gives the empty sequence, an operand of two or more items XPTY0004, a node or untypedAtomic operand
is compared as a string; the outcome is always one the specification permits, provided the pair of
atoms is outside the triggers. -/
theorem value_seq_conforms_partial (m : Mode) (op : Op) (L Rr : List Item) (hm : m ≠ .v1)
    (hpair : ∀ x y, L = [x] → Rr = [y] →
      let a := castUAStr (atomize m x); let b := castUAStr (atomize m y)
      trigTol op a b = false ∧ trigPromotion a b = false ∧
      atomTzOK a = true ∧ atomTzOK b = true ∧ valueOp (binOrdered m) op a b ≠ .error .unsupported) :
    ∃ allowed, valueAllowed m op L Rr = some allowed ∧ outOfOR (valueCmp m op L Rr) ∈ allowed := by
  have hat : ∀ x, atomizeS m x = atomize m x := by intro x; cases x <;> rfl
  have hop : ∀ x, atomizedOperand m [x] = .ok (some (castUAStr (atomize m x))) := by
    intro x
    simp only [atomizedOperand]
    cases h : atomize m x <;> simp [castUAStr]
  have hcast : ∀ a, isUA (castUAStr a) = false := by intro a; cases a <;> rfl
  have hcs : ∀ a : Atom, untypedToString a = castUAStr a := by
    intro a; cases a <;> rfl
  match L, Rr with
  | [], [] => simp [valueAllowed, hm, valueCmp, valueCmpWith, atomizedOperand, outOfOR]
  | [], [y] => simp only [valueCmp, valueCmpWith, hop]; simp [valueAllowed, hm, atomizedOperand, outOfOR]
  | [], _ :: _ :: _ => simp [valueAllowed, hm, valueCmp, valueCmpWith, atomizedOperand, outOfOR]
  | [x], [] => simp only [valueCmp, valueCmpWith, hop]; simp [valueAllowed, hm, atomizedOperand, outOfOR]
  | [x], _ :: _ :: _ => simp only [valueCmp, valueCmpWith, hop]; simp [valueAllowed, hm, atomizedOperand, outOfOR]
  | _ :: _ :: _, [] => simp [valueAllowed, hm, valueCmp, valueCmpWith, atomizedOperand, outOfOR]
  | _ :: _ :: _, [y] => simp [valueAllowed, hm, valueCmp, valueCmpWith, atomizedOperand, outOfOR]
  | _ :: _ :: _, _ :: _ :: _ => simp [valueAllowed, hm, valueCmp, valueCmpWith, atomizedOperand, outOfOR]
  | [x], [y] =>
    obtain ⟨h1, h2, h8, h9, h7⟩ := hpair x y rfl rfl
    have hc := valuePair_conforms m op _ _ (hcast (atomize m x)) (hcast (atomize m y)) h1 h2
      (dtConsistent_of_tzOK _ _ h8 h9)
    simp only [valueAllowed, hm, valueCmp, valueCmpWith, hop, hat, hcs, hc, List.isEmpty_cons, List.length_cons,
      List.length_nil, Bool.or_self, Bool.false_eq_true]
    cases hv : valueOp (binOrdered m) op (castUAStr (atomize m x)) (castUAStr (atomize m y)) with
    | ok v => cases v <;> simp [outOfOR, Out.ofBool, Except.map]
    | error e =>
      cases e <;> simp_all [outOfOR, Except.map]

/-! ## value comparisons follow the order of the value space -/

def exactQ : Atom → Rat | .int v => v | .dec q => q | _ => 0

/-- xs:integer / xs:decimal: the six operators are the exact rational order — `eq` an equivalence,
`lt` a strict total order compatible with it (no rounding anywhere) -/
theorem value_cmp_order_decimal :
    (∀ (m : Mode) (op : Op) (a b : Atom), isIntDec a = true → isIntDec b = true →
      valuePair m op a b =
        .ok (six (fun p q => decide (p < q)) (fun p q => decide (p = q)) op (exactQ a) (exactQ b))) ∧
    OrderLawsOn (fun _ : Rat => True) (fun p q => decide (p < q)) (fun p q => decide (p = q)) := by
  refine ⟨?_, ratLaws⟩
  intro m op a b ha hb
  cases a <;> simp [isIntDec] at ha <;> cases b <;> simp [isIntDec] at hb <;> vpn_simp <;>
    cases op <;> simp [six, numLt, numEq, D.val, exactQ] <;> first | rfl | grind

/-- xs:double: the six operators are the IEEE order of the two values, which on non-NaN values is an
equivalence / strict total order (−0 = +0).  (The relative tolerance that made this false — finding F07
on doubles — is repaired on fix-c07-5: `double_eq_fixed`.) -/
theorem value_cmp_order_double :
    (∀ (m : Mode) (op : Op) (x y : D),
      valuePair m op (.dbl x) (.dbl y) = .ok (six numLt numEq op x y)) ∧
    OrderLawsOn (fun d : D => d.isNaN = false) numLt numEq := by
  refine ⟨?_, doubleLaws⟩
  intro m op x y
  have := valuePair_conforms m op (.dbl x) (.dbl y) rfl rfl (by simp [trigTol])
    (by simp [trigPromotion, numRank])
    rfl
  simpa [valueOp, numRank, castNum] using this

/-- PARTIAL (finding F07).  xs:float: the six operators are the IEEE order of the two values **outside
the tolerance trigger**, which only enters eq / ne.  The full statement is false:
`float_eq_and_lt_witness`, `float_eq_not_transitive`. -/
theorem value_cmp_order_float_partial (m : Mode) (op : Op) (x y : D)
    (h : (op.isEqNe && tolClose x y) = false) :
    valuePair m op (.flt x) (.flt y) = .ok (six numLt numEq op x y) := by
  have := valuePair_conforms m op (.flt x) (.flt y) rfl rfl (by simpa [trigTol] using h)
    (by simp [trigPromotion, numRank])
    rfl
  simpa [valueOp, numRank, castNum] using this

/-- the hypothesis is satisfiable with different values: 1 and 1 + 2^-22 are not close -/
example : tolClose (.fin 1) (.fin (1 + 1 / 4194304)) = false ∧
    valuePair .v2 .eq (.flt (.fin 1)) (.flt (.fin (1 + 1 / 4194304))) = .ok false := by decide +kernel

/-- NaN is unequal to, and unordered with, every numeric value — also across types (the tolerance
never applies to NaN) -/
theorem nan_unequal_to_everything (m : Mode) (op : Op) (b : Atom) (hb : isNumCls b = true) :
    valuePair m op (.dbl .nan) b = .ok (op == .ne) ∧ valuePair m op b (.dbl .nan) = .ok (op == .ne) := by
  have hc : ∀ y, isclose .nan y = false ∧ isclose y .nan = false := by
    intro y; cases y <;> simp [isclose, D.eq, D.isNaN, D.isInf]
  constructor
  · have := valuePair_conforms m op (.dbl .nan) b rfl (by cases b <;> simp_all [isNumCls, isUA])
      (by cases b <;> simp [trigTol, tolClose, (hc _).1])
      (by cases b <;> simp [trigPromotion, numRank, exactVal, castNum])
      (by cases b <;> rfl)
    rw [this]
    cases b <;> simp [isNumCls] at hb <;> simp [valueOp, numRank, castNum, (nan_six op _).1]
  · have := valuePair_conforms m op b (.dbl .nan) (by cases b <;> simp_all [isNumCls, isUA]) rfl
      (by cases b <;> simp [trigTol, tolClose, (hc _).2])
      (by cases b <;> simp [trigPromotion, numRank, exactVal, castNum])
      (by cases b <;> rfl)
    rw [this]
    cases b <;> simp [isNumCls] at hb <;> simp [valueOp, numRank, castNum, (nan_six op _).2]

/-- strings, untypedAtomic (as strings) and anyURI: code-point order -/
theorem value_cmp_order_string :
    (∀ (m : Mode) (op : Op) (s t : Str),
      valuePair m op (.str s) (.str t) = .ok (six strLtS strEqS op s t) ∧
      valuePair m op (.uri s) (.str t) = .ok (six strLtS strEqS op s t) ∧
      valuePair m op (.str s) (.uri t) = .ok (six strLtS strEqS op s t) ∧
      valuePair m op (.uri s) (.uri t) = .ok (six strLtS strEqS op s t)) ∧
    OrderLawsOn (fun _ : Str => True) strLtS strEqS := by
  refine ⟨?_, listLaws⟩
  intro m op s t
  refine ⟨?_, ?_, ?_, ?_⟩ <;>
  · rw [valuePair_conforms m op _ _ rfl rfl rfl (by simp [trigPromotion, numRank])
      rfl]
    simp [valueOp, numRank]

/-- booleans: false < true -/
theorem value_cmp_order_boolean :
    (∀ (m : Mode) (op : Op) (x y : Bool),
      valuePair m op (.bool x) (.bool y) = .ok (six (fun p q => !p && q) (fun p q => p == q) op x y)) ∧
    OrderLawsOn (fun _ : Bool => True) (fun p q => !p && q) (fun p q => p == q) := by
  refine ⟨?_, boolLaws⟩
  intro m op x y
  rw [valuePair_conforms m op _ _ rfl rfl rfl (by simp [trigPromotion, numRank])
    rfl]
  simp [valueOp, numRank]

/-- dates, dateTimes, times (same kind; each value carries its local clock reading and an optional
timezone, its `_year` is the calendar year of the local day): the six operators are the order of the
*instants* on the UTC timeline (a value without timezone is read in the implicit timezone UTC) — for
every pair of values with timezones within ±14:00, whatever the years and whichever of the two has a
timezone (the calendar fact behind the "compare year numbers" shortcut is proved: `dtFarOK_of_tzOK`);
dayTimeDurations: order of the seconds.  The order of instants is a strict total order with `eq` an
equivalence. -/
theorem value_cmp_order_temporal :
    (∀ (m : Mode) (op : Op) (x y : DT), x.tzOK = true → y.tzOK = true →
      valuePair m op (.date x) (.date y) =
        .ok (six (fun p q => decide (p < q)) (fun p q => decide (p = q)) op (instant x) (instant y)) ∧
      valuePair m op (.dtm x) (.dtm y) =
        .ok (six (fun p q => decide (p < q)) (fun p q => decide (p = q)) op (instant x) (instant y)) ∧
      valuePair m op (.time x) (.time y) =
        .ok (six (fun p q => decide (p < q)) (fun p q => decide (p = q)) op (instant x) (instant y))) ∧
    (∀ (m : Mode) (op : Op) (s t : Int),
      valuePair m op (.dtd s) (.dtd t) = .ok (six (fun p q => decide (p < q)) (fun p q => decide (p = q)) op s t)) ∧
    OrderLawsOn (fun _ : Int => True) (fun p q => decide (p < q)) (fun p q => decide (p = q)) := by
  refine ⟨?_, ?_, intLaws⟩
  · intro m op x y hx hy
    have h := dtFarOK_of_tzOK x y hx hy
    refine ⟨?_, ?_, ?_⟩ <;>
    · rw [valuePair_conforms m op _ _ rfl rfl rfl (by simp [trigPromotion, numRank])
        (by simpa [dtConsistent, Atom.isDT, Atom.dt] using h)]
      simp [valueOp, numRank]
  · intro m op s t
    rw [valuePair_conforms m op _ _ rfl rfl rfl (by simp [trigPromotion, numRank])
      rfl]
    simp [valueOp, numRank]

/-- the year-boundary case that a "compare the year numbers first" implementation gets wrong:
2000-12-31T23:00:00-05:00 (instant 2001-01-01T04:00Z) is *not* before 2001-01-01T01:00:00 (no
timezone, read as UTC), although its local year is smaller — with none, one or both timezones -/
example :
    let a : DT := ⟨63113900400, some (-300)⟩     -- 2000-12-31T23:00:00-05:00
    let b : DT := ⟨63113907600, none⟩            -- 2001-01-01T01:00:00
    let b' : DT := ⟨63113907600, some 0⟩         -- 2001-01-01T01:00:00Z
    a.year = 2000 ∧ b.year = 2001 ∧ valuePair .v2 .lt (.dtm a) (.dtm b) = .ok false ∧
    valuePair .v2 .gt (.dtm a) (.dtm b) = .ok true ∧ valuePair .v2 .lt (.dtm a) (.dtm b') = .ok false ∧
    pairGeneral .v31 .ge (.dtm b) (.dtm a) = .ok false := by decide +kernel

/-- DURATIONS.  `eq`/`ne` between any two durations (xs:duration, yearMonthDuration, dayTimeDuration,
in any combination) compare (months, seconds); `lt`/`le`/`gt`/`ge` are the order of the months between
two yearMonthDurations (the code's four-reference-date comparison through `months2days` is proved
strictly monotone) and of the seconds between two dayTimeDurations; every other ordering between
durations raises XPTY0004. -/
theorem value_cmp_order_duration (m : Mode) (op : Op) :
    (∀ a b : Int, valuePair m op (.ymd a) (.ymd b) =
      .ok (six (fun p q => decide (p < q)) (fun p q => decide (p = q)) op a b)) ∧
    (∀ a b : Atom, a.isDur = true → b.isDur = true → op.isEqNe = true →
      valuePair m op a b = .ok (six (fun _ _ => false) (fun (p q : Int × Int) => decide (p = q)) op a.durVal b.durVal)) ∧
    (∀ a b : Atom, a.isDur = true → b.isDur = true → op.isOrd = true →
      (match a, b with | .ymd _, .ymd _ => false | .dtd _, .dtd _ => false | _, _ => true) = true →
      valuePair m op a b = .error .XPTY0004) := by
  have hc : ∀ a b : Atom, a.isDur = true → b.isDur = true → valuePair m op a b = valueOp (binOrdered m) op a b := by
    intro a b ha hb
    exact valuePair_conforms m op a b (by cases a <;> simp_all [Atom.isDur, isUA])
      (by cases b <;> simp_all [Atom.isDur, isUA])
      (by cases a <;> cases b <;> simp_all [Atom.isDur, trigTol])
      (by cases a <;> cases b <;> simp_all [Atom.isDur, trigPromotion, numRank])
      (by cases a <;> cases b <;> simp_all [Atom.isDur, dtConsistent, Atom.isDT])
  refine ⟨?_, ?_, ?_⟩
  · intro a b
    rw [hc _ _ rfl rfl]; simp [valueOp, numRank]
  · intro a b ha hb ho
    rw [hc a b ha hb]
    cases a <;> simp [Atom.isDur] at ha <;> cases b <;> simp [Atom.isDur] at hb <;>
      cases op <;> simp [Op.isEqNe] at ho <;> simp [valueOp, numRank, isEqNe, Atom.isDur, six, Atom.durVal]
  · intro a b ha hb ho hk
    rw [hc a b ha hb]
    cases a <;> simp [Atom.isDur] at ha <;> cases b <;> simp [Atom.isDur] at hb <;> simp at hk <;>
      cases op <;> simp [Op.isOrd] at ho <;> simp [valueOp, numRank, isEqNe, Atom.isDur]

/-- binaries: equality of the octets everywhere; with a 3.1 parser the lexicographic octet order -/
theorem value_cmp_order_binary :
    (∀ (m : Mode) (op : Op) (x y : List Nat), (op.isEqNe = true ∨ m = .v31) →
      valuePair m op (.hex x) (.hex y) = .ok (six octLt (fun p q => decide (p = q)) op x y) ∧
      valuePair m op (.b64 x) (.b64 y) = .ok (six octLt (fun p q => decide (p = q)) op x y)) ∧
    OrderLawsOn (fun _ : List Nat => True) octLt (fun p q => decide (p = q)) := by
  refine ⟨?_, listLaws⟩
  intro m op x y h
  constructor <;>
  · rw [valuePair_conforms m op _ _ rfl rfl rfl (by simp [trigPromotion, numRank])
      rfl]
    rcases h with h | h
    · cases op <;> simp_all [valueOp, numRank, Op.isEqNe, isEqNe]
    · subst h; simp [valueOp, numRank, binOrdered]

/-! ## the default collation of the static context (XPath 3.1 §3.7.1 / F&O §5.3; fix-c07-6) -/

/-- pull-back of the order laws along a key function -/
theorem orderLaws_comap {α β} {lt eq : β → β → Bool} (f : α → β) (h : OrderLawsOn (fun _ : β => True) lt eq) :
    OrderLawsOn (fun _ : α => True) (fun a b => lt (f a) (f b)) (fun a b => eq (f a) (f b)) where
  eq_refl := fun a _ => h.eq_refl (f a) trivial
  eq_symm := fun a b => h.eq_symm (f a) (f b)
  eq_trans := fun a b c => h.eq_trans (f a) (f b) (f c)
  lt_irrefl := fun a => h.lt_irrefl (f a)
  lt_trans := fun a b c => h.lt_trans (f a) (f b) (f c)
  trichotomy := fun a b _ _ => h.trichotomy (f a) (f b) trivial trivial
  lt_congr := fun a b c => h.lt_congr (f a) (f b) (f c)

/-- COLLATION, base case.  With the Unicode codepoint collation (the default of every parser of the
harness unless `default_collation=` is given) the collation-aware evaluators and specifications are the
ones all other theorems of this file speak about. -/
theorem collation_codepoint (itz : Option Int) (m : Mode) (op : Op) (L Rr : List Item) :
    generalCmpC .codepoint itz m op L Rr = generalCmpCtx itz m op L Rr ∧
    valueCmpC .codepoint itz m op L Rr = valueCmpCtx itz m op L Rr ∧
    generalAllowedC .codepoint itz m op L Rr = generalAllowedCtx itz m op L Rr ∧
    valueAllowedC .codepoint itz m op L Rr = valueAllowedCtx itz m op L Rr := by
  refine ⟨generalCmpC_codepoint itz m op L Rr, valueCmpC_codepoint itz m op L Rr, ?_, ?_⟩
  · cases m <;> simp [generalAllowedC, generalAllowedCtx, generalAllowed, pairSpecC_codepoint]
  · simp only [valueAllowedC, valueAllowedCtx, valueAllowed, valueOpC_codepoint, List.isEmpty_map, List.length_map]
    match L, Rr with
    | [], _ => simp
    | _ :: _, [] => simp
    | [x], [y] => simp
    | [x], _ :: _ :: _ => simp
    | _ :: _ :: _, _ :: _ => simp

/-- PARTIAL (findings F07, F07-promotion).  One pair of a general comparison under ANY default collation
`c`: on a `PairClean` pair the code — `collation_operator` wrapped around the Python operator: two
string-like operands compared through `strcoll`, every other pair untouched — yields exactly the outcome
of XPath 3.1 §3.7.2 with the string comparisons of §3.7.1 taken under `c` (`fn:compare(A, B) op 0`). -/
theorem general_pair_conforms_coll_partial (c : Coll) (m : Mode) (op : Op) (a b : Atom) (h : PairClean m op a b) :
    pairGeneralWith (pyOpC c m op) m op a b = pairSpecC c m op a b :=
  pairGeneralC_conforms c m op a b (pairGeneral_conforms_clean m op a b h) h.2.2.2.1

/-- HEADLINE under a default collation and an implicit timezone.  PARTIAL (same findings). -/
theorem general_cmp_conforms_coll_partial (c : Coll) (itz : Option Int) (m : Mode) (op : Op) (L Rr : List Item)
    (hm : m = .v2 ∨ m = .v31)
    (hclean : ∀ x ∈ L.map (withImplicitTz itz), ∀ y ∈ Rr.map (withImplicitTz itz),
      PairClean m op (atomize m x) (atomize m y)) :
    ∃ allowed, generalAllowedC c itz m op L Rr = some allowed ∧
      outOfR (generalCmpC c itz m op L Rr) ∈ allowed := by
  have hcompat : m.compat = false := by rcases hm with rfl | rfl <;> rfl
  have hat : atomizeS m = atomize m := by funext x; cases x <;> rfl
  have hprod : pairsOf = product := rfl
  have hps : ∀ p ∈ product ((L.map (withImplicitTz itz)).map (atomize m)) ((Rr.map (withImplicitTz itz)).map (atomize m)),
      PairClean m op p.1 p.2 := by
    intro ⟨a, b⟩ hp
    obtain ⟨ha, hb⟩ := mem_product.mp hp
    obtain ⟨x, hx, rfl⟩ := List.mem_map.mp ha
    obtain ⟨y, hy, rfl⟩ := List.mem_map.mp hb
    exact hclean x hx y hy
  have hmap : (product ((L.map (withImplicitTz itz)).map (atomize m)) ((Rr.map (withImplicitTz itz)).map (atomize m))).map
        (fun p => pairSpecC c m op p.1 p.2) =
      (product ((L.map (withImplicitTz itz)).map (atomize m)) ((Rr.map (withImplicitTz itz)).map (atomize m))).map
        (fun p => pairGeneralWith (pyOpC c m op) m op p.1 p.2) := by
    apply List.map_congr_left
    intro p hp
    exact (general_pair_conforms_coll_partial c m op p.1 p.2 (hps p hp)).symm
  have hga : generalAllowedC c itz m op L Rr =
      allowedOfPairs ((product ((L.map (withImplicitTz itz)).map (atomize m))
        ((Rr.map (withImplicitTz itz)).map (atomize m))).map (fun p => pairSpecC c m op p.1 p.2)) := by
    rcases hm with rfl | rfl <;> simp [generalAllowedC, hat, hprod]
  rw [hga, hmap, generalCmpC_eq_any c itz m op L Rr hcompat]
  exact anyPairs_in_allowed (pairGeneralWith (pyOpC c m op) m op) _
    (fun p hp => pgC_ne_unsupported c m op p.1 p.2 (hps p hp).2.2.2.1)

/-- the hypothesis is satisfiable, and the collation matters: under html-ascii-case-insensitive the
sequences ('x','A') and ('b','a') have a pair in common -/
example :
    (∀ x ∈ [Item.atom (.str [120]), .atom (.str [65])], ∀ y ∈ [Item.atom (.str [98]), .atom (.str [97])],
      PairClean .v2 .eq (atomize .v2 x) (atomize .v2 y)) ∧
    generalCmpC .asciiCI none .v2 .eq [.atom (.str [120]), .atom (.str [65])] [.atom (.str [98]), .atom (.str [97])] = .ok true ∧
    generalCmpC .codepoint none .v2 .eq [.atom (.str [120]), .atom (.str [65])] [.atom (.str [98]), .atom (.str [97])] = .ok false := by
  refine ⟨?_, by decide +kernel, by decide +kernel⟩
  intro x hx y hy
  simp at hx hy
  rcases hx with rfl | rfl <;> rcases hy with rfl | rfl <;> (unfold PairClean; decide +kernel)

/-- PARTIAL (findings F07, F07-promotion).  Value comparison of two atoms under any default collation
and implicit timezone: outside the two triggers the code returns what §3.7.1 says with the string
comparisons under `c`, on the operands filled with the implicit timezone. -/
theorem value_pair_conforms_coll_partial (c : Coll) (itz : Option Int) (m : Mode) (op : Op) (a b : Atom)
    (hua : isUA a = false) (hub : isUA b = false)
    (hTol : trigTol op (a.fillTz itz) (b.fillTz itz) = false)
    (hProm : trigPromotion (a.fillTz itz) (b.fillTz itz) = false)
    (hTa : atomTzOK (a.fillTz itz) = true) (hTb : atomTzOK (b.fillTz itz) = true) :
    valuePairC c itz m op a b = valueOpC c (binOrdered m) op (a.fillTz itz) (b.fillTz itz) := by
  rw [valuePairC_fill]
  have hfa : isUA (a.fillTz itz) = false := by cases a <;> simp_all [isUA, Atom.fillTz]
  have hfb : isUA (b.fillTz itz) = false := by cases b <;> simp_all [isUA, Atom.fillTz]
  exact valuePairC_conforms c m op _ _ hfa hfb
    (value_cmp_conforms_partial m op _ _ hfa hfb hTol hProm hTa hTb)

/-- strings and anyURIs under a collation: the six operators are those of the order of the collation
keys — `eq` an equivalence (coarser than identity: 'a' eq 'A'), `lt` a strict total order compatible
with it -/
theorem value_cmp_order_string_coll (c : Coll) :
    (∀ (itz : Option Int) (m : Mode) (op : Op) (s t : Str),
      valuePairC c itz m op (.str s) (.str t) = .ok (six (collLtS c) (collEqS c) op s t) ∧
      valuePairC c itz m op (.uri s) (.str t) = .ok (six (collLtS c) (collEqS c) op s t) ∧
      valuePairC c itz m op (.str s) (.uri t) = .ok (six (collLtS c) (collEqS c) op s t) ∧
      valuePairC c itz m op (.uri s) (.uri t) = .ok (six (collLtS c) (collEqS c) op s t)) ∧
    OrderLawsOn (fun _ : Str => True) (collLtS c) (collEqS c) := by
  refine ⟨?_, orderLaws_comap (collFold c) listLaws⟩
  intro itz m op s t
  refine ⟨?_, ?_, ?_, ?_⟩ <;>
  · rw [value_pair_conforms_coll_partial c itz m op _ _ rfl rfl rfl (by simp [trigPromotion, numRank, Atom.fillTz]) rfl rfl]
    simp [valueOpC, Atom.fillTz]

/-- (fixed, F07-collation) with default collation html-ascii-case-insensitive `'a' eq 'A'`, `'a' = 'A'` and
`'a' lt 'B'` are true, as the specification says (`fn:compare('a', 'A')` is 0); with the codepoint
collation they are false -/
theorem collation_fixed :
    valueCmpC .asciiCI none .v2 .eq [.atom (.str [97])] [.atom (.str [65])] = .ok (some true) ∧
    valueAllowedC .asciiCI none .v2 .eq [.atom (.str [97])] [.atom (.str [65])] = some [.t] ∧
    generalCmpC .asciiCI none .v2 .eq [.atom (.str [97])] [.atom (.str [65])] = .ok true ∧
    generalAllowedC .asciiCI none .v2 .eq [.atom (.str [97])] [.atom (.str [65])] = some [.t] ∧
    valueCmpC .asciiCI none .v2 .lt [.atom (.str [97])] [.atom (.str [66])] = .ok (some true) ∧
    valueAllowedC .asciiCI none .v2 .lt [.atom (.str [97])] [.atom (.str [66])] = some [.t] ∧
    generalCmpC .asciiCI none .v31 .eq [.atom (.ua [32, 97, 32])] [.atom (.uri [65])] = .ok true ∧
    generalAllowedC .asciiCI none .v31 .eq [.atom (.ua [32, 97, 32])] [.atom (.uri [65])] = some [.t] ∧
    valueCmpC .codepoint none .v2 .eq [.atom (.str [97])] [.atom (.str [65])] = .ok (some false) ∧
    valueCmpC .codepoint none .v2 .lt [.atom (.str [97])] [.atom (.str [66])] = .ok (some false) := by decide +kernel

/-! ## kernel-checked counter-examples for the findings (model ≠ specification, trigger holds) -/

/-- the double nearest to 1.00000001 -/
def d1_00000001 : D := .fin (1125899918101623 / 1125899906842624)

/-- (fixed, F07 on xs:double) `1.0e0 eq 1.00000001e0` is false, `lt` true, `ge` false, as the
specification says, and like `=` -/
theorem double_eq_fixed :
    valueCmp .v2 .eq [.atom (.dbl (.fin 1))] [.atom (.dbl d1_00000001)] = .ok (some false) ∧
    generalCmp .v2 .eq [.atom (.dbl (.fin 1))] [.atom (.dbl d1_00000001)] = .ok false ∧
    valueCmp .v2 .lt [.atom (.dbl (.fin 1))] [.atom (.dbl d1_00000001)] = .ok (some true) ∧
    valueCmp .v2 .ge [.atom (.dbl (.fin 1))] [.atom (.dbl d1_00000001)] = .ok (some false) ∧
    valueAllowed .v2 .eq [.atom (.dbl (.fin 1))] [.atom (.dbl d1_00000001)] = some [.f] ∧
    valueAllowed .v2 .lt [.atom (.dbl (.fin 1))] [.atom (.dbl d1_00000001)] = some [.t] ∧
    trigValue .v2 .eq [.atom (.dbl (.fin 1))] [.atom (.dbl d1_00000001)] = [] := by decide +kernel

/-- F07: `eq` on xs:float is not transitive: with a = 2 - 3·2^-23, b = 2 - 2·2^-23, c = 2 - 2^-23 (three
consecutive binary32 values) a eq b, b eq c, but not a eq c; the specification (exact comparison) says
false, false, false -/
theorem float_eq_not_transitive :
    valuePair .v2 .eq (.flt (.fin (2 - 3 / 8388608))) (.flt (.fin (2 - 2 / 8388608))) = .ok true ∧
    valuePair .v2 .eq (.flt (.fin (2 - 2 / 8388608))) (.flt (.fin (2 - 1 / 8388608))) = .ok true ∧
    valuePair .v2 .eq (.flt (.fin (2 - 3 / 8388608))) (.flt (.fin (2 - 1 / 8388608))) = .ok false ∧
    valueOp false .eq (.flt (.fin (2 - 3 / 8388608))) (.flt (.fin (2 - 2 / 8388608))) = .ok false ∧
    trigTol .eq (.flt (.fin (2 - 3 / 8388608))) (.flt (.fin (2 - 2 / 8388608))) = true := by decide +kernel

/-- F07 on xs:float: two adjacent binary32 values just below 2 are `eq` *and* `lt`; the
specification says eq false -/
theorem float_eq_and_lt_witness :
    valuePair .v2 .eq (.flt (.fin (2 - 2 / 8388608))) (.flt (.fin (2 - 1 / 8388608))) = .ok true ∧
    valuePair .v2 .lt (.flt (.fin (2 - 2 / 8388608))) (.flt (.fin (2 - 1 / 8388608))) = .ok true ∧
    valueOp false .eq (.flt (.fin (2 - 2 / 8388608))) (.flt (.fin (2 - 1 / 8388608))) = .ok false ∧
    trigTol .eq (.flt (.fin (2 - 2 / 8388608))) (.flt (.fin (2 - 1 / 8388608))) = true := by
  decide +kernel

/-- (fixed, F07-qname) `'a' eq xs:QName('a')` raises XPTY0004 as the specification says -/
theorem string_qname_fixed :
    valuePair .v2 .eq (.str [97]) (.qn [] [] [97]) = .error .XPTY0004 ∧
    valueOp false .eq (.str [97]) (.qn [] [] [97]) = .error .XPTY0004 := by decide +kernel

/-- F07-promotion: `16777217 eq xs:float(16777216)` is false (the integer is converted to binary64), true
after promotion to xs:float (binary32).
(fixed) `xs:untypedAtomic('9007199254740992') = 9007199254740993` is true (the integer is promoted to
xs:double, the type the untyped operand is cast to), on either side, and
`9007199254740993 = 9007199254740992e0` is true, like `eq`. -/
theorem float_promotion_witness :
    valuePair .v2 .eq (.int 16777217) (.flt (.fin 16777216)) = .ok false ∧
    valueOp false .eq (.int 16777217) (.flt (.fin 16777216)) = .ok true ∧
    trigPromotion (.int 16777217) (.flt (.fin 16777216)) = true ∧
    pairGeneral .v2 .eq (.ua [57,48,48,55,49,57,57,50,53,52,55,52,48,57,57,50]) (.int 9007199254740993) = .ok true ∧
    pairGeneral .v2 .eq (.int 9007199254740993) (.ua [57,48,48,55,49,57,57,50,53,52,55,52,48,57,57,50]) = .ok true ∧
    pairSpec .v2 .eq (.ua [57,48,48,55,49,57,57,50,53,52,55,52,48,57,57,50]) (.int 9007199254740993) = .ok true ∧
    pairGeneral .v2 .eq (.int 9007199254740993) (.dbl (.fin 9007199254740992)) = .ok true ∧
    pairSpec .v2 .eq (.int 9007199254740993) (.dbl (.fin 9007199254740992)) = .ok true := by
  decide +kernel

/-- (fixed, F07-lenient) incomparable types raise XPTY0004 in general comparisons as the specification
says: a date against a number, a boolean against a double, and the ordering of two xs:duration values -/
theorem lenient_fixed :
    pairGeneral .v2 .eq (.date ⟨5, none⟩) (.int 1) = .error .XPTY0004 ∧
    pairSpec .v2 .eq (.date ⟨5, none⟩) (.int 1) = .error .XPTY0004 ∧
    pairGeneral .v2 .eq (.bool true) (.dbl (.fin 1)) = .error .XPTY0004 ∧
    pairGeneral .v2 .lt (.dur 12 0) (.dur 13 0) = .error .XPTY0004 ∧
    pairSpec .v2 .lt (.dur 12 0) (.dur 13 0) = .error .XPTY0004 ∧
    pairGeneral .v2 .le (.dur 12 0) (.ymd 12) = .error .XPTY0004 := by decide +kernel

/-- (fixed) `xs:untypedAtomic('10') < xs:untypedAtomic('9')` is true: both are compared as strings -/
theorem untyped_order_fixed :
    pairGeneral .v2 .lt (.ua [49, 48]) (.ua [57]) = .ok true ∧
    pairSpec .v2 .lt (.ua [49, 48]) (.ua [57]) = .ok true := by decide +kernel

/-- (fixed, F07-untyped) `xs:untypedAtomic('abc') = 1.5` raises FORG0001;
`xs:QName('a') = xs:untypedAtomic(' a ')` is true in 3.1 (the untyped value is cast, on either side) and
raises XPTY0004 with a 2.0 parser (XPath 2.0 does not permit that cast), on either side;
`xs:anyURI('a') = xs:untypedAtomic(' a ')` is true (cast to xs:anyURI: white space collapsed) -/
theorem untyped_fixed :
    pairGeneral .v2 .eq (.ua [97, 98, 99]) (.dec (3 / 2)) = .error .FORG0001 ∧
    pairSpec .v2 .eq (.ua [97, 98, 99]) (.dec (3 / 2)) = .error .FORG0001 ∧
    pairGeneral .v31 .eq (.qn [] [] [97]) (.ua [32, 97, 32]) = .ok true ∧
    pairSpec .v31 .eq (.qn [] [] [97]) (.ua [32, 97, 32]) = .ok true ∧
    pairGeneral .v31 .eq (.ua [32, 97, 32]) (.qn [] [] [97]) = .ok true ∧
    pairGeneral .v2 .eq (.qn [] [] [97]) (.ua [97]) = .error .XPTY0004 ∧
    pairGeneral .v2 .eq (.ua [97]) (.qn [] [] [97]) = .error .XPTY0004 ∧
    pairSpec .v2 .eq (.ua [97]) (.qn [] [] [97]) = .error .XPTY0004 ∧
    pairGeneral .v2 .eq (.uri [97]) (.ua [32, 97, 32]) = .ok true ∧
    pairSpec .v2 .eq (.uri [97]) (.ua [32, 97, 32]) = .ok true := by decide +kernel

/-- F07-compat: with the XPath 1.0 parser `'1' = 1` is false and `'abc' < 1` raises FORG0001;
XPath 1.0 §3.4 says true resp. false -/
theorem compat_witness :
    generalCmp .v1 .eq [.atom (.str [49])] [.atom (.int 1)] = .ok false ∧
    generalAllowed .v1 .eq [.atom (.str [49])] [.atom (.int 1)] = some [.t] ∧
    generalCmp .v1 .lt [.atom (.str [97, 98, 99])] [.atom (.int 1)] = .error .FORG0001 ∧
    generalAllowed .v1 .lt [.atom (.str [97, 98, 99])] [.atom (.int 1)] = some [.f] ∧
    trigGeneral .v1 .eq [.atom (.str [49])] [.atom (.int 1)] = ["F07-compat"] ∧
    trigGeneral .v1 .lt [.atom (.str [97, 98, 99])] [.atom (.int 1)] = ["F07-compat"] := by decide +kernel

end EPV.C07

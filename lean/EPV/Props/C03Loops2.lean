/-
C03, phase 5 (second batch) — the five parent walks terminate on every well-founded store, from
every state, with a value (no escape is possible: only `.parent` is read, `None` ends the loop).
-/
import EPV.Model.C03Loops2
namespace EPV.C03Loops

theorem opt_measure_step {st : Store} (h : st.WF) {p f : Nat} (hf : p + 1 < f + 1) :
    optMeasure (st.parent p) < f := by
  cases hp : st.parent p with
  | none => simp [optMeasure]; omega
  | some q => have := h p q hp; simp [optMeasure]; omega

/-- **`iter_ancestors`**: the loop terminates with a list from every state, for every context root and
both document modes, when the fuel exceeds `parent + 1` -/
theorem anc_loop_terminates (st : Store) (h : st.WF) (root : Nat) (doc : Bool) :
    ∀ (f : Nat) (s : AncSt), optMeasure s.parent < f → ∃ l, ancLoop st root doc f s = .val l := by
  intro f
  induction f with
  | zero => intro s hs; omega
  | succ f ih =>
    intro s hs
    obtain ⟨par, anc⟩ := s
    cases par with
    | none => exact ⟨_, rfl⟩
    | some p =>
      simp only [ancLoop]
      split
      · exact ⟨_, rfl⟩
      · exact ih _ (opt_measure_step h hs)

/-- lines 575-588 as a whole: always a list of nodes -/
theorem iter_ancestors_total (st : Store) (h : st.WF) (root : Nat) (doc : Bool) (item : Nat) (orSelf : Bool) :
    ∃ l, iterAncestors st root doc item orSelf = .val l := by
  have hm : optMeasure (st.parent item) < item + 2 := by
    cases hp : st.parent item with
    | none => simp [optMeasure]
    | some q => have := h item q hp; simp [optMeasure]; omega
  obtain ⟨l, hl⟩ := anc_loop_terminates st h root doc (item + 2)
    ⟨st.parent item, if orSelf then [item] else []⟩ hm
  simp only [iterAncestors]
  by_cases hc : (doc || item != root) = true
  · rw [if_pos hc, hl]
    exact ⟨_, rfl⟩
  · rw [if_neg hc]
    exact ⟨_, rfl⟩

/-- **`iter_preceding`**: the walk to the top terminates when the fuel exceeds the node number -/
theorem prec_loop_terminates (st : Store) (h : st.WF) (ctxRoot : Nat) (doc : Bool) :
    ∀ (f : Nat) (s : PrecSt), s.root < f → ∃ r, precLoop st ctxRoot doc f s = .val r := by
  intro f
  induction f with
  | zero => intro s hs; omega
  | succ f ih =>
    intro s hs
    unfold precLoop
    split
    · exact ⟨_, rfl⟩
    · rename_i p hp
      split
      · exact ⟨_, rfl⟩
      · apply ih
        have := h _ _ hp
        show p < f
        omega

/-- **`iter_followings`**: the walk to the top terminates when the fuel exceeds the node number -/
theorem foll_loop_terminates (st : Store) (h : st.WF) (ctxRoot : Nat) :
    ∀ (f : Nat) (r : Nat), r < f → ∃ t, follLoop st ctxRoot f r = .val t := by
  intro f
  induction f with
  | zero => intro r hr; omega
  | succ f ih =>
    intro r hr
    unfold follLoop
    split
    · exact ⟨_, rfl⟩
    · rename_i p hp
      split
      · exact ⟨_, rfl⟩
      · apply ih
        have := h _ _ hp
        omega

/-- **`evaluate__lang`** (1.0 and 2.0): the search for the nearest `xml:lang` terminates; the answer is
a node that is an element with the attribute, or `none` (the `else: return False` branch) -/
theorem lang_loop_terminates (st : Store) (h : st.WF) :
    ∀ (f : Nat) (node : Option Nat), optMeasure node < f →
      langLoop st f node = .val none ∨
      ∃ n, langLoop st f node = .val (some n) ∧ st.elem n = true ∧ st.lang n = true := by
  intro f
  induction f with
  | zero => intro node hn; omega
  | succ f ih =>
    intro node hn
    cases node with
    | none => left; rfl
    | some n =>
      simp only [langLoop]
      split
      · rename_i hc
        right
        exact ⟨n, rfl, by simpa using hc⟩
      · exact ih _ (opt_measure_step h hn)

/-! examples: a document (0) with root element 1, children 2 (lang) and 3, grandchild 4 under 2 -/
def exStore : Store where
  parent := fun n => match n with | 1 => some 0 | 2 => some 1 | 3 => some 1 | 4 => some 2 | _ => none
  elem := fun n => n != 0
  lang := fun n => n == 2

example : iterAncestors exStore 0 true 4 false = .val [0, 1, 2] := by decide +kernel
example : iterAncestors exStore 1 false 4 true = .val [1, 2, 4] := by decide +kernel
example : precLoop exStore 1 false 9 ⟨2, [2]⟩ = .val (1, [2, 1]) := by decide +kernel
example : follLoop exStore 2 9 4 = .val 2 := by decide +kernel
example : langLoop exStore 9 (some 4) = .val (some 2) ∧ langLoop exStore 9 (some 3) = .val none := by
  decide +kernel

/-- the hypothesis is needed: on a cyclic parent chain (0 ↔ 1) the loops run out of any fuel — here 50 -/
def cycStore : Store := ⟨fun n => some (1 - n), fun _ => false, fun _ => false⟩
example : langLoop cycStore 50 (some 0) = .outOfFuel ∧ follLoop cycStore 7 50 0 = .outOfFuel := by
  decide +kernel

end EPV.C03Loops

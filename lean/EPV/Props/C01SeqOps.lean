/-
C01 (phase 5) — the sequence operator `,` (XPath 2.0+) and the simple map operator `!` (XPath 3.0+):
model `seval` (EPV/Model/AxesSeqOps.lean) = specification `ssem` (EPV/Spec/AxesSeqOps.lean), and the ordering
facts (`,` / `!` neither sort nor remove duplicates; a path step applied to their result does both again).
-/
import EPV.Props.C01
import EPV.Lemmas.AxesSeqOps
namespace EPV.C01
open EPV.XP EPV.XP.Spec

/-- **comma_bang_eq_spec.**  For every well-formed array, root form, typed sequence expression built from
the path fragment with `(l, r)`, `l ! r`, `(l)/step`, `(l)[predicate]` and `l/number-valued`, and every valid
context node: `select` yields exactly the sequence the specification defines (same items, same order, same
multiplicities).  No side condition (since fix F01r the inner focus of `!` and of the right operand of `/` is
numbered in sequence order for every left operand). -/
theorem comma_bang_eq_spec (m : Mode) (a : Arr) (hw : wfArr m a = true) (e : SExpr) (b : Bool)
    (f : Focus) (ht : sty e = some b) (hf : f.item < a.length) :
    seval m a e f = ssem m a e f :=
  (seval_eq_ssem_aux (wf_of_wfArr hw) e b f ht hf).1

/-- test: the hypotheses hold on a non-trivial state — `(descendant::*, .) ! (., position())` on `w1` from `a`:
duplicates stay, no sort, positions 1..4 in sequence order -/
example :
    wfArr .frag w1 = true ∧
    sty (.bang (.comma (.base (.step .descendant .any false)) (.base .ctxItem))
               (.comma (.base .ctxItem) (.base .position))) = some false ∧
    seval .frag w1 (.bang (.comma (.base (.step .descendant .any false)) (.base .ctxItem))
               (.comma (.base .ctxItem) (.base .position))) ⟨0, 1, 1⟩
      = some [.node 2, .num 1, .node 5, .num 2, .node 7, .num 3, .node 0, .num 4] := by decide +kernel

/-- **reverse_step_focus_in_sequence_order** (former finding F01r, now equal to the specification; kernel-checked).
`ancestor-or-self::* ! position()` and `ancestor-or-self::*/position()` from `c` (node 5 of `w1`) number the three
nodes 1, 2, 3 in document order (before the fix: 3, 2, 1), like the parenthesised form; the predicates of the
step itself still count in reverse (`ancestor-or-self::*[1]` = `c`, the nearest). -/
theorem reverse_step_focus_in_sequence_order :
    wfArr .frag w1 = true ∧
    seval .frag w1 (.bang (.base (.step .ancestorOrSelf .any false)) (.base .position)) ⟨5, 1, 1⟩
      = some [.num 1, .num 2, .num 3] ∧
    ssem .frag w1 (.bang (.base (.step .ancestorOrSelf .any false)) (.base .position)) ⟨5, 1, 1⟩
      = some [.num 1, .num 2, .num 3] ∧
    seval .frag w1 (.slashNum (.base (.step .ancestorOrSelf .any false)) .position) ⟨5, 1, 1⟩
      = some [.num 1, .num 2, .num 3] ∧
    ssem .frag w1 (.slashNum (.base (.step .ancestorOrSelf .any false)) .position) ⟨5, 1, 1⟩
      = some [.num 1, .num 2, .num 3] ∧
    seval .frag w1 (.bang (.base (.paren (.step .ancestorOrSelf .any false))) (.base .position)) ⟨5, 1, 1⟩
      = some [.num 1, .num 2, .num 3] ∧
    seval .frag w1 (.base (.pred (.step .ancestorOrSelf .any false) (.num 1))) ⟨5, 1, 1⟩ = some [.node 5] := by
  decide +kernel

/-- **bang_focus_forward.**  For *every* left operand (a bare reverse-axis step included) the `i`-th item of E1's
node sequence is the focus of E2 with position `i` (1-based) and size `n` (any array, any operands). -/
theorem bang_focus_forward (m : Mode) (a : Arr) (l r : SExpr) (f : Focus) (ls : List Item) (ns : List Nat)
    (hl : seval m a l f = some ls) (hn : nodesOnly ls = some ns) :
    seval m a (.bang l r) f = catOpt ((ns.zipIdx 1).map fun q => seval m a r ⟨q.1, q.2, ns.length⟩) := by
  simp only [seval, hl, hn]
  unfold focusFwd
  rw [numberFrom_zipIdx, List.map_map]
  rfl

/-- **comma_bang_nodes_in_tree.**  Under the hypotheses of `comma_bang_eq_spec` every node item of the result is a node of the tree. -/
theorem comma_bang_nodes_in_tree (m : Mode) (a : Arr) (hw : wfArr m a = true) (e : SExpr) (b : Bool)
    (f : Focus) (ht : sty e = some b) (hf : f.item < a.length)
    (s : List Item) (hs : seval m a e f = some s) (n : Nat) (hn : Item.node n ∈ s) : n < a.length :=
  (seval_eq_ssem_aux (wf_of_wfArr hw) e b f ht hf).2 s hs n hn

/-- **comma_concatenates.**  `(l, r)` is the result of `l` followed by the result of `r`, both from the focus of
the whole expression: nothing is sorted, nothing removed (any array, any operands). -/
theorem comma_concatenates (m : Mode) (a : Arr) (l r : SExpr) (f : Focus) (x y : List Item)
    (hl : seval m a l f = some x) (hr : seval m a r f = some y) :
    seval m a (.comma l r) f = some (x ++ y) := by
  simp only [seval, hl, hr]

/-- **step_on_sequence_ordered.**  Whatever order and multiplicities the sequence `l` has, `(l)/r` yields nodes
only, in document order and without duplicates (any array, any operands, no hypothesis): the seen-set and the
sort of `select__child_path` are applied again. -/
theorem step_on_sequence_ordered (m : Mode) (a : Arr) (l : SExpr) (r : Expr) (f : Focus) (s : List Item)
    (h : seval m a (.slash l r) f = some s) :
    ∃ ns : List Nat, s = ns.map .node ∧ ns.Pairwise (· < ·) ∧ ns.Nodup := by
  simp only [seval] at h
  split at h
  · split at h
    · cases hc : collect (List.map (fun f' => eval m a r f') (focusFwd ‹List Nat›)) with
      | none => rw [hc] at h; simp [sortVal, itemsOf] at h
      | some rs =>
        rw [hc] at h
        simp only [sortVal, itemsOf, Option.some.injEq] at h
        have key : (docOrder rs).Pairwise (· < ·) := sorted_isort _ (nodup_dedup rs [])
        exact ⟨docOrder rs, h.symm, key, nodup_of_sorted key⟩
    · cases h
  · cases h

/-- **filter_on_sequence_sublist.**  `(l)[p]` yields a sub-sequence of the node sequence of `l`: order and
multiplicities of the kept items are those of `l` — no sort, no duplicate removal (any array, any operands). -/
theorem filter_on_sequence_sublist (m : Mode) (a : Arr) (l : SExpr) (p : Expr) (f : Focus) (s : List Item)
    (h : seval m a (.filter l p) f = some s) :
    ∃ (ls : List Item) (ns r : List Nat), seval m a l f = some ls ∧ nodesOnly ls = some ns ∧ s = r.map .node ∧ r.Sublist ns := by
  simp only [seval] at h
  split at h
  · rename_i ls hls
    split at h
    · rename_i ns hns
      rw [Option.map_eq_some_iff] at h
      obtain ⟨r, hr, rfl⟩ := h
      rw [filterFlags_eq_selectBy] at hr
      have hsub := selectBy_sublist _ _ r hr
      unfold focusFwd at hsub
      rw [numberFrom_items] at hsub
      exact ⟨ls, ns, r, hls, hns, rfl, hsub⟩
    · cases h
  · cases h

/-- test (`w1`, from `a`): the position under `(…)[…]` is the index in the sequence, duplicates counted:
`(descendant::*, descendant::*)[position() > 2]` = `d, b, c, d`; `(descendant::* ! ..)[2]` = `b`; `[last()]` of it = `a` -/
example :
    seval .frag w1 (.filter (.comma (.base (.step .descendant .any false)) (.base (.step .descendant .any false)))
        (.cmp .gt .position (.num 2))) ⟨0, 1, 1⟩ = some [.node 7, .node 2, .node 5, .node 7] ∧
    seval .frag w1 (.filter (.bang (.base (.step .descendant .any false)) (.base .parentAbbr)) (.num 2)) ⟨0, 1, 1⟩
      = some [.node 2] ∧
    ssem .frag w1 (.filter (.bang (.base (.step .descendant .any false)) (.base .parentAbbr)) .last) ⟨0, 1, 1⟩
      = some [.node 0] := by decide +kernel

/-- test (`w1`, from `a`): `(descendant::*, descendant::*)` keeps duplicates, `(descendant::* ! ..)` repeats and does
not sort (`a, b, a`), and a step on top of them sorts and de-duplicates: `(descendant::* ! ..)/*` = `b, c, d` -/
example :
    seval .frag w1 (.comma (.base (.step .descendant .any false)) (.base (.step .descendant .any false))) ⟨0, 1, 1⟩
      = some [.node 2, .node 5, .node 7, .node 2, .node 5, .node 7] ∧
    seval .frag w1 (.bang (.base (.step .descendant .any false)) (.base .parentAbbr)) ⟨0, 1, 1⟩
      = some [.node 0, .node 2, .node 0] ∧
    seval .frag w1 (.slash (.bang (.base (.step .descendant .any false)) (.base .parentAbbr)) (.step .child .any true)) ⟨0, 1, 1⟩
      = some [.node 2, .node 5, .node 7] ∧
    ssem .frag w1 (.slash (.bang (.base (.step .descendant .any false)) (.base .parentAbbr)) (.step .child .any true)) ⟨0, 1, 1⟩
      = some [.node 2, .node 5, .node 7] := by decide +kernel

end EPV.C01

/-
C18 — the function conversion rules (XPath 3.1 §3.1.5.2): the modelled `convertParam` / `convertArg`
(`_InlineFunction.convert_argument` + `XPathToken.cast_to_primitive_type`) refine the specification
`specConvert` (Spec/FuncConv.lean), at full strength since the repairs of F18y / F18z.
-/
import EPV.Lemmas.FuncConv
import EPV.Gen.C18Tables
import EPV.Props.C18
namespace EPV.C18
open EPV.SeqType EPV.Gen.C18

/-- **The function conversion rules.**  For every expected type `T` that is an atomic type with any occurrence
indicator and EVERY value `v` (atomic values, nodes, arrays nested to any depth, function items, maps) whose atomic items
have classes with values, `convertParam T v` is the value that the function conversion rules of XPath 3.1 §3.1.5.2 give
(atomization of arrays and nodes, cast of xs:untypedAtomic items, numeric and URI promotion, then SequenceType
matching), and a type error exactly when they give one.  Full strength since the repairs of F18y / F18z (branch
fix-c18-8): no trigger is left.  Generic in the tables: `SpecAgree` (the isinstance table is derives-from of XSD) and
`NoCastDeviation` (the cast table is rules 2-4), both proved for the live tables on every run.  Error CODES are not
compared (the model has one "type error" code). -/
theorem function_conversion_refines_spec (tb : Tables) (st : SpecTables) (xsd11 : Bool)
    (ha : SpecAgree tb st xsd11) (clsOf : XsdT → Nat)
    (live : Nat → Bool) (hk : NoCastDeviation tb st (convCfg tb clsOf) live)
    (t : Nat) (o : Occ) (v : List Item) (hv : atomsLive live (atomizedValue tb v) = true) :
    (convertParam tb xsd11 (.leaf (.atomic t) o) v).toOption
      = specConvert st (isRestriction tb) (convCfg tb clsOf) (.leaf (.atomic t) o) v := by
  have hp : convertParam tb xsd11 (.leaf (.atomic t) o) v = convertArg tb xsd11 (.leaf (.atomic t) o) v := by
    unfold convertParam; split <;> simp_all
  rw [hp, convertArg_eq_flat tb st xsd11 ha (isRestriction tb), specConvert_eq_flat]
  unfold atomizedValue at hv ⊢
  apply flat_refines tb st (isRestriction tb) (convCfg tb clsOf) rfl t o (atomizedSeq v)
  intro _
  apply Bool.eq_false_iff.2
  intro hany
  rw [List.any_eq_true] at hany
  obtain ⟨x, hx, hdev⟩ := hany
  cases x with
  | atom c =>
    have hl : live c = true := by simpa using (List.all_eq_true.1 hv) _ hx
    rw [hk c t hl] at hdev; cases hdev
  | _ => simp [castDeviates] at hdev

/-- for every other expected type that is no typed function test and no `xs:` name (kind tests, item(), map / array
tests, function(*) …) no conversion applies: the value is bound unchanged iff it matches (full strength, on the domain
of `match_eq_spec`) -/
theorem function_conversion_is_matching_for_other_types (tb : Tables) (st : SpecTables) (xsd11 : Bool)
    (ha : SpecAgree tb st xsd11) (cfg : ConvCfg) (T : Ty) (v : List Item)
    (hx : T.isXsName = false) (hf : ∀ a r, T ≠ .func a r) (hd : domT T v = true) :
    (convertParam tb xsd11 T v).toOption = specConvert st (isRestriction tb) cfg T v := by
  have hm := match_eq_spec tb st xsd11 ha T v hd
  have hp : convertParam tb xsd11 T v = convertArg tb xsd11 T v := by
    unfold convertParam; split
    · exact absurd rfl (hf _ _)
    · rfl
  have hs : specConvert st (isRestriction tb) cfg T v = if specMatch st (isRestriction tb) T v then some v else none := by
    unfold specConvert; split
    · simp [Ty.isXsName] at hx
    · rfl
  have hcast : castFor tb T v = v := by
    unfold castFor; split <;> simp_all [Ty.isXsName]
  rw [hp, hs]
  unfold convertArg
  simp only [hm, hx, Bool.false_and]
  cases hsm : specMatch st (isRestriction tb) T v
  · simp only [Bool.false_eq_true, if_false, hcast, hm, hsm]; simp [Except.toOption]
  · simp [Except.toOption]

/-- the first value class whose XSD type is the given one (`float` for xs:double, `Float` for xs:float, `str` for xs:string) -/
def clsOfLive (e : XsdT) : Nat := clsXsd.idxOf e

/-- the value classes that have a sample (= a row in the cast table) -/
def liveCls (c : Nat) : Bool := sampledCls.contains c

def liveCfg : ConvCfg := convCfg tables clsOfLive

end EPV.C18

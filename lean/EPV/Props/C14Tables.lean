/-
C14 — translator-generated table: the string literals in the bodies of the anchored Python
functions (read from the live sources by `harness/c14.py::translate`, file
`EPV/Gen/C14Literals.lean`, regenerated on every run) are exactly the literals of the Lean renderer
(`litText`, `litComment`, `litPI`, `litNs`, `litRoot`, `emptyNamePathC`, `fnNamespaceC`, the
brackets) — so editing a literal of an f-string breaks this proof, not only the correspondence.
A refactoring that keeps the literals (f-string → concatenation, local variables) keeps it.
-/
import EPV.Model.NodePath
import EPV.Gen.C14Literals
namespace EPV.C14
open EPV.NodePath

/-- the literals the model's renderer is built from, per Python function (sorted as the
translator sorts them) -/
def modelLiterals : List (String × List (List Char)) := [
  ("NamespaceNode.path", ['/' :: litNs]),
  ("AttributeNode.path", [['/', '@']]),
  ("AttributeNode.uri_qualified_name", [['Q'], ['{']]),
  ("TextNode.path", ['/' :: litText, '/' :: (litText ++ ['1', ']']), [']']]),
  ("CommentNode.path", ['/' :: litComment, '/' :: (litComment ++ ['1', ']']), [']']]),
  ("ProcessingInstructionNode.path", [[')', '['], [')', '[', '1', ']'], '/' :: litPI, [']']]),
  ("ElementNode.path", [['/'], ['['], ['[', '1', ']'], [']']]),
  ("ElementNode.uri_qualified_name", [['Q'], ['Q', '{', '}'], ['{']]),
  ("DocumentNode.path", [['/']]),
  ("XPathNode.get_child_position", []),
  ("evaluate__path", [['Q', '{'], ['}', 'r', 'o', 'o', 't', '(', ')']]),
  ("etree_iter_paths", [[], [' '], [')', '['], ['/'], ['C', 'o', 'm', 'm', 'e', 'n', 't'], ['Q'], ['Q', '{', '}'],
    ['['], [']'], litComment, litPI, ['{']]),
  ("_EMPTY_NAME_PATH", [emptyNamePathC]),
  ("XPATH_FUNCTIONS_NAMESPACE", [fnNamespaceC])]

/-- The literals of the code are the literals of the model (whole generated table, kernel-checked). -/
theorem literals_as_modelled : EPV.Gen.C14.implLiterals = modelLiterals := by decide

/-- `litRoot` and the `Q{…}root()` of `evaluate__path`: `Q{` ++ namespace ++ `}root()` -/
theorem root_literal : litRoot = ['Q', '{'] ++ fnNamespaceC ++ ['}', 'r', 'o', 'o', 't', '(', ')'] := rfl

end EPV.C14

/-
C20, phase 5: the value-level theorems WITHOUT the one-token hypothesis.  `get_atomic_sequence`
(decoder.py) yields the value of the XSD lexical mapping (Spec.decode) for EVERY text: a text of two or
more tokens is rejected by the decoder's constructor of every non-string builtin (`strip` keeps an inner
white-space character) and by the lexical mapping (`collapse` keeps an inner space).
-/
import EPV.Props.C20
import EPV.Lemmas.SchemaTypingLexAll
namespace EPV.C20
open EPV.Xsd EPV.Xsd.Spec EPV.Xsd.Sel

theorem isStrFam_eq_strFamily (b : B) : isStrFam b = strFamily b := by cases b <;> rfl

/-- **the decoder's constructors = the XSD lexical mappings, every builtin, every text** (restated in
the property namespace; proof in `Lemmas/SchemaTypingLexAll.lean`) -/
theorem decoder_eq_lexical_mapping_all (b : B) (s : String) : pyDecode b s = xsdLex b (normalize b s) :=
  pyDecode_eq_xsdLex_all b s

/-- **typed value = specification value, atomic types, EVERY text.**  For every atomic type `T` (a
builtin or any chain of restrictions, facets included) and every text: if the text is a valid literal
with value `vs` by the XSD lexical mapping, `get_atomic_sequence` yields exactly `vs`. -/
theorem typed_value_eq_spec_all (valid : SType → String → Bool) (T : SType) (b : B)
    (hT : atomicBase? T = some b) (s : String)
    (vs : List Atom) (h : decode T s = some vs) : atomicSequence valid T s = .ok vs := by
  obtain ⟨a, rfl, ha⟩ := decode_atomic hT h
  have hpy : pyDecode b s = some a := by rw [pyDecode_eq_xsdLex_all b s]; exact ha
  simp [atomicSequence, memberProtos_atomic hT, isList_atomic hT, atomicLoop, decodeAll, firstMember, tryMember, hpy]

/-- **builtin types, EVERY text, both directions**: `get_atomic_sequence` on a builtin type yields the
value of the lexical mapping when the text is a valid literal and raises exactly when it is not —
in particular on every multi-token text of a non-string builtin. -/
theorem typed_value_eq_spec_builtin_all (valid : SType → String → Bool) (b : B) (s : String) :
    atomicSequence valid (.builtin b) s =
      match decode (.builtin b) s with
      | some vs => .ok vs
      | none => .err := by
  have hT : atomicBase? (.builtin b) = some b := rfl
  simp only [atomicSequence, memberProtos_atomic hT, isList_atomic hT, atomicLoop, decodeAll, firstMember,
    tryMember, decode, pyDecode_eq_xsdLex_all b s, Bool.false_eq_true, if_false]
  cases xsdLex b (normalize b s) <;> rfl

/-- a multi-token text is a valid literal of no atomic type over a non-string builtin, and the decoder
raises on it (builtin case) -/
theorem multi_token_rejected (valid : SType → String → Bool) (b : B) (hb : strFamily b = false)
    (s : String) (h : ¬ (splitWs s).length ≤ 1) :
    decode (.builtin b) s = none ∧ atomicSequence valid (.builtin b) s = .err := by
  have hb' : isStrFam b = false := by rw [isStrFam_eq_strFamily]; exact hb
  have hd : decode (.builtin b) s = none := by
    have : xsdLex b (normalize b s) = none := by
      rw [← pyDecode_eq_xsdLex_all b s]; exact pyDecode_multi_none b hb' s h
    simp [decode, this]
  refine ⟨hd, ?_⟩
  rw [typed_value_eq_spec_builtin_all valid b s, hd]

/-- the hypotheses are met on multi-token texts; valid one-token texts are accepted -/
example : ¬ (splitWs "1 2").length ≤ 1 ∧ strFamily .int = false ∧ strFamily .date = false
    ∧ atomicSequence (fun _ _ => true) (.builtin .int) "1 2" = .err
    ∧ atomicSequence (fun _ _ => true) (.builtin .date) "2001-01-01 Z" = .err
    ∧ atomicSequence (fun _ _ => true) (.builtin .double) "1e5\t1" = .err
    ∧ atomicSequence (fun _ _ => true) (.builtin .boolean) "true\nfalse" = .err
    ∧ atomicSequence (fun _ _ => true) (.builtin .int) " 12 " = .ok [⟨.int, "12"⟩]
    ∧ decode (.restr (some "d") (.builtin .decimal) {}) "\n+01.50 " = some [⟨.decimal, "1.5"⟩] := by
  decide

/-- the member loop on one literal = "the first member type, in declaration order, in which the
literal is valid" (XSD 1.1 Part 2 §2.4.1.3) — atomic members with their facets, EVERY text -/
theorem firstMember_eq_decodeFirst_all : ∀ {ms : List SType} {mb : List (SType × B)}, atomicMembers ms = some mb →
    ∀ (s : String), firstMember isValid (mb.map fun p => (some p.1, p.2)) s = decodeFirst ms s
  | [], mb, h, s => by simp [atomicMembers] at h; subst h; rfl
  | m :: ms, mb, h, s => by
    simp only [atomicMembers] at h
    cases hm : atomicBase? m with
    | none => rw [hm] at h; simp at h
    | some b =>
      cases hr : atomicMembers ms with
      | none => rw [hm, hr] at h; simp at h
      | some r =>
        rw [hm, hr] at h
        simp only [Option.some.injEq] at h
        subst h
        simp only [List.map_cons, firstMember, tryMember, isValid, decodeFirst, isList_atomic hm]
        cases hd : decode m s with
        | none => simpa using firstMember_eq_decodeFirst_all hr s
        | some vs =>
          obtain ⟨a, rfl, ha⟩ := decode_atomic hm hd
          have hpy : pyDecode b s = some a := by rw [pyDecode_eq_xsdLex_all b s]; exact ha
          simp [hpy]

/-- **typed value = specification value, unions, EVERY text**: for a union (named or not) with at
least one member whose members are atomic types — builtins or restrictions WITH facets —
`get_atomic_sequence` yields the value in the FIRST member type, in declaration order, in which the
literal is valid, and raises exactly when no member accepts it (multi-token texts included: they are
values of string-family members only). -/
theorem typed_value_eq_spec_union_all (n : Option String) (ms : List SType) (p : SType × B) (mb : List (SType × B))
    (hm : atomicMembers ms = some (p :: mb)) (s : String) :
    atomicSequence isValid (.union n ms) s =
      match decode (.union n ms) s with
      | some vs => .ok vs
      | none => .err := by
  have hprotos : (SType.union n ms).memberProtos = (p :: mb).map fun q => (some q.1, q.2) := by
    simp [SType.memberProtos, SType.iterMembers, iterMembersL_atomic hm]
  have hf := firstMember_eq_decodeFirst_all hm s
  simp only [decode, atomicSequence, hprotos, SType.isList, atomicLoop, Bool.false_eq_true, if_false,
    List.map_cons, decodeAll] at hf ⊢
  rw [hf]
  cases decodeFirst ms s <;> simp

/-- TEST: a multi-token text under a union falls through the numeric members to the token member, and
is rejected when there is none -/
example :
    (atomicMembers [.restr none (.builtin .byte) { maxInc := some 100 }, .builtin .boolean, .builtin .token]).isSome = true ∧
    decode (.union none [.restr none (.builtin .byte) { maxInc := some 100 }, .builtin .boolean, .builtin .token]) " 1 \t 2 " =
      some [⟨.token, "1 2"⟩] ∧
    atomicSequence isValid (.union none [.restr none (.builtin .byte) { maxInc := some 100 }, .builtin .boolean, .builtin .token]) " 1 \t 2 " =
      .ok [⟨.token, "1 2"⟩] ∧
    atomicSequence isValid (.union none [.builtin .byte, .builtin .boolean]) "1 2" = .err ∧
    decode (.union none [.builtin .byte, .builtin .boolean]) "1 2" = none := by
  decide

end EPV.C20

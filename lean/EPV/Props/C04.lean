/-
C04 — property theorems for the Pratt-parser model (generic: any operator table, any token list).
Helper lemmas: EPV/Lemmas/Pratt*.lean.  Table instances (`decide` over the generated tables):
EPV/Props/C04Tables.lean.

Reading guide
* `parse T toks`        : the model of `Parser.parse` (tdop.py) with operator table `T`
* `Tree.yield t`        : the tokens of a tree, in order
* `WFr T t`             : the binding-power invariant of the Pratt loop
* `Consistent T G bp K` : table `T` realises the level table `G` of the grammar (EPV/Lemmas/PrattDerive.lean)
* `wf true G t`         : every node of `t` is an instance of an EBNF production (strict)
* `wf false G t`        : the same with the relaxations L1–L4 (see `EPV.Syn.wf`)
* `derivable G k t`     : `t` is a derivation from the level-`k` nonterminal
* `guardsPass T t`      : no `led`/`nud` of the table rejects a node of `t` (kinds, closers, `deny`, `rhs`)
-/
import EPV.Lemmas.PrattDerive
import EPV.Lemmas.PrattComplete
import EPV.Lemmas.PrattFuel
import EPV.Lemmas.PrattEbnf
import EPV.Lemmas.PrattEbnfComplete
import EPV.Lemmas.PrattSource
namespace EPV.C04
open EPV.Syn EPV.Pratt

/-- what `parse` returns comes from `expr` with the full fuel and no rest -/
theorem parse_ok {T : Tbl} {toks : List Tok} {t : Tree} (h : parse T toks = .ok t) :
    expr T (2 * toks.length + 2) 0 toks = .ok (t, []) := by
  unfold parse at h
  split at h
  · rename_i t' heq; simp at h; subst h; exact heq
  · simp at h
  · simp at h

/-- **the tree contains exactly the tokens of the input, in order** — any table, any token list. -/
theorem pratt_yield (T : Tbl) (toks : List Tok) (t : Tree) (h : parse T toks = .ok t) :
    t.yield = toks := by
  have := ((pratt_inv T _).1 0 toks t [] (parse_ok h)).yld
  simpa using this

/-- every tree returned by the parser satisfies the binding-power invariant: at each binary node the
right operand was admitted with `lbp > led-rbp`, the left operand was closed by an `expression(rbp)`
call with `rbp ≥ lbp` of the operator, guards (`deny`) and next-token checks passed. -/
theorem pratt_wfr (T : Tbl) (toks : List Tok) (t : Tree) (h : parse T toks = .ok t) : WFr T t :=
  ((pratt_inv T _).1 0 toks t [] (parse_ok h)).wf

/-- **headline**: if the operator table realises the level table of the grammar, every accepted token
list is parsed into a derivation of the (relaxed) grammar from the start symbol, whose yield is the
input — token lists of any length. -/
theorem pratt_derives (T : Tbl) (G : Gram) (bp : Nat → Nat) (K : Nat) (hc : Consistent T G bp K)
    (toks : List Tok) (t : Tree) (h : parse T toks = .ok t) :
    derivableR G 0 t = true ∧ t.yield = toks := by
  refine ⟨?_, pratt_yield T toks t h⟩
  simp [derivableR, wfr_relaxed hc t (pratt_wfr T toks t h)]

/-- the relaxed and the strict grammar differ exactly by the laxities: a relaxed derivation that
uses none of L1–L4 is an EBNF derivation, and conversely. -/
theorem strict_iff_relaxed_laxFree (G : Gram) : ∀ t, wf true G t = (wf false G t && laxFree G t) := by
  intro t
  induction t with
  | nil => simp [wf]
  | atom => simp [wf, laxFree]
  | group g c e ih =>
    simp only [wf, laxFree]
    cases G.grp g with
    | none => simp
    | some p =>
      obtain ⟨c', eo⟩ := p
      simp only [ih]
      cases e <;> simp [Tree.isNil, wf, laxFree] <;> grind
  | pre p x ih =>
    simp only [wf, laxFree]
    cases hu : G.ulk p with
    | true => simp only [ih]; grind
    | false =>
      cases G.pre p with
      | none => simp
      | some j => simp only [ih]; grind
  | bin o l r ihl ihr =>
    simp only [wf, laxFree]
    cases hg : G.led o with
    | none => simp
    | some p =>
      obtain ⟨j, k⟩ := p
      cases k <;> simp only [ihl, ihr] <;> grind
  | typed o l n ih =>
    simp only [wf, laxFree]
    cases hg : G.led o with
    | none => simp
    | some p =>
      obtain ⟨j, k⟩ := p
      cases k <;> simp only [ih] <;> grind
  | post o c l e ihl ihe =>
    simp only [wf, laxFree]
    cases hg : G.led o with
    | none => simp
    | some p =>
      obtain ⟨j, k⟩ := p
      cases k <;> simp only [ihl, ihe] <;> cases e <;> simp [Tree.isNil, wf, laxFree] <;> grind
  | arrow o l f a ihl ihf iha =>
    simp only [wf, laxFree]
    cases hg : G.led o with
    | none => simp
    | some p =>
      obtain ⟨j, k⟩ := p
      cases k <;> simp only [ihl, ihf, iha] <;> grind

/-- corollary: an accepted input whose tree uses none of the laxities is parsed into an EBNF derivation -/
theorem pratt_derives_strict (T : Tbl) (G : Gram) (bp : Nat → Nat) (K : Nat) (hc : Consistent T G bp K)
    (toks : List Tok) (t : Tree) (h : parse T toks = .ok t) (hl : laxFree G t = true) :
    derivable G 0 t = true := by
  have := (pratt_derives T G bp K hc toks t h).1
  simp only [derivableR, Bool.and_eq_true, decide_eq_true_eq] at this
  simp [derivable, strict_iff_relaxed_laxFree, this.2, hl]

theorem need_le_yield : ∀ t : Tree, need t ≤ t.yield.length := by
  intro t
  induction t with
  | nil => simp [need]
  | atom => simp [need, Tree.yield]
  | group g c e ih => simp [need, Tree.yield]; omega
  | pre p x ih => simp [need, Tree.yield]; omega
  | bin o l r ihl ihr => simp [need, Tree.yield]; omega
  | typed o l n ih => simp [need, Tree.yield]; omega
  | post o c l e ihl ihe => simp [need, Tree.yield]; omega
  | arrow o l f a ihl ihf iha => simp [need, Tree.yield]; omega

/-- **completeness** (`pratt_complete`): if the table realises the level table, every EBNF derivation `t`
from the start symbol whose nodes pass the table's guards is returned by the parser on the tokens of `t` —
the parser groups every EBNF-valid input exactly as the grammar prescribes.  Any tree size; the fuel that
`parse` supplies is enough. -/
theorem pratt_complete (T : Tbl) (G : Gram) (bp : Nat → Nat) (K : Nat) (hc : Consistent T G bp K)
    (hpos : 0 < bp 0) (t : Tree) (hd : derivable G 0 t = true) (hg : guardsPass T t = true) :
    parse T t.yield = .ok t := by
  simp only [derivable, Bool.and_eq_true, decide_eq_true_eq] at hd
  have h := complete_all hc hpos (need t) t (Nat.le_refl _) hd.2 hg 0 0 (Nat.zero_le _)
    (adm_zero hc hpos) (Nat.zero_le _) [] (by simp [headLe]) (2 * t.yield.length + 2) (by have := need_le_yield t; omega)
  simp only [List.append_nil] at h
  simp [parse, h]

/-- consequence: the operator fragment of the EBNF is unambiguous — two derivations (that the table's guards
let pass) with the same token sequence are the same tree. -/
theorem ebnf_unambiguous (T : Tbl) (G : Gram) (bp : Nat → Nat) (K : Nat) (hc : Consistent T G bp K)
    (hpos : 0 < bp 0) (t₁ t₂ : Tree) (h₁ : derivable G 0 t₁ = true) (h₂ : derivable G 0 t₂ = true)
    (g₁ : guardsPass T t₁ = true) (g₂ : guardsPass T t₂ = true) (hy : t₁.yield = t₂.yield) : t₁ = t₂ := by
  have e₁ := pratt_complete T G bp K hc hpos t₁ h₁ g₁
  have e₂ := pratt_complete T G bp K hc hpos t₂ h₂ g₂
  rw [hy, e₂] at e₁
  simpa using e₁.symm

/-- consequence (`source` round trip on the operator fragment): re-parsing the tokens of a parse result
gives the same tree. -/
theorem parse_yield_idem (T : Tbl) (toks : List Tok) (t : Tree) (h : parse T toks = .ok t) :
    parse T t.yield = .ok t := by
  rw [pratt_yield T toks t h]; exact h

/-- the model never runs out of fuel: an error of `parse` is a syntax error of the modelled parser (or the use
of an unmodelled symbol), for token lists of any length. -/
theorem parse_fuel_enough (T : Tbl) (toks : List Tok) : parse T toks ≠ .error .fuel := by
  have h := (no_fuel_error T (2 * toks.length + 2)).1 0 toks (by omega)
  unfold parse
  split
  · simp
  · simp
  · rename_i e he
    intro hh
    simp only [Except.error.injEq] at hh
    subst hh
    exact h he

/-- **soundness of the reference parser** (`ebnf_sound`): whatever the executable EBNF parser of the spec returns
is an EBNF derivation from the start symbol with the input as its tokens — for every level list. -/
theorem ebnf_sound (levels : List Level) (ep : Bool) (syms : List String) (toks : List Tok) (t : Tree)
    (h : ebnfParse (gramOf levels ep syms) toks = some t) :
    derivable (gramOf levels ep syms) 0 t = true ∧ t.yield = toks :=
  ebnfParse_sound _ (gramOf_ok levels ep syms) toks t h

/-- hence the driver's cross-check is a theorem: when the reference parser accepts an input and no guard of the
table rejects a node of its tree, the parser model returns exactly the reference tree. -/
theorem model_eq_reference (T : Tbl) (levels : List Level) (ep : Bool) (syms : List String) (bp : Nat → Nat) (K : Nat)
    (hc : Consistent T (gramOf levels ep syms) bp K) (hpos : 0 < bp 0) (toks : List Tok) (t : Tree)
    (h : ebnfParse (gramOf levels ep syms) toks = some t) (hg : guardsPass T t = true) :
    parse T toks = .ok t := by
  obtain ⟨hd, hy⟩ := ebnf_sound levels ep syms toks t h
  rw [← hy]
  exact pratt_complete T _ bp K hc hpos t hd hg

open EPV.Source in
/-- **textual `source` round trip** (certified check): if the pieces of the rendered `source` text of a parse
result are separable (`chainOK`, a decidable condition the driver evaluates for every case), then the lexeme
model of the tokenizer splits the text into exactly the lexemes of the tokens the tree was parsed from — hence
(`parse_yield_idem`) re-parsing the text gives the same tree.  Any table, any input. -/
theorem source_text_roundtrip (T : Tbl) (X : TextTbl) (toks : List Tok) (t : Tree) (h : parse T toks = .ok t)
    (hc : chainOK X (render X t) = true) :
    lexAll X (textOf (render X t)).length (textOf (render X t)) = some (toks.flatMap (tokLex X)) ∧
      parse T t.yield = .ok t := by
  refine ⟨?_, parse_yield_idem T toks t h⟩
  rw [lex_render X t hc _ (Nat.le_refl _), pratt_yield T toks t h]

/-- **completeness of the reference parser** (`ebnf_complete`): every EBNF derivation from the start symbol is
returned by the executable reference parser on its own tokens — for every level list that does not use `(` as a
prefix operator.  With `ebnf_sound`: the reference parser *decides* whether a token list has a derivation. -/
theorem ebnf_complete (levels : List Level) (ep : Bool) (syms : List String)
    (hp : findLevel true "(" levels 0 = none) (t : Tree)
    (hd : derivable (gramOf levels ep syms) 0 t = true) :
    ebnfParse (gramOf levels ep syms) t.yield = some t :=
  ebnfParse_complete (gramOf_ok levels ep syms) (gramOf_okc levels ep syms hp) t hd

/-- hence: when the reference parser rejects a token list, no EBNF derivation has these tokens -/
theorem ebnf_reject_no_derivation (levels : List Level) (ep : Bool) (syms : List String)
    (hp : findLevel true "(" levels 0 = none) (toks : List Tok)
    (h : ebnfParse (gramOf levels ep syms) toks = none) :
    ¬ ∃ t, derivable (gramOf levels ep syms) 0 t = true ∧ t.yield = toks := by
  rintro ⟨t, hd, rfl⟩
  rw [ebnf_complete levels ep syms hp t hd] at h
  simp at h

end EPV.C04

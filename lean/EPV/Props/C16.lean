/-
C16 — function items are first-class values: closures, partial application, higher-order
functions.  Property theorems only; helper lemmas are in EPV/Lemmas/Closures*.lean.

Reading guide
* `Expr`                 the expression fragment (EPV/Spec/ClosureSem.lean)
* `specEval fuel p`      the specification: lexical closures, a new function item per evaluation of a
                         function expression, F&O definitions of the HOFs
* `implEval cfg fuel p`  the model of the code on a tree described by `cfg`
                         (`cfg.share`: F16 present — closure stored on the syntax token;
                          `cfg.leak`: F05 present — calls bind in the caller's variables dict),
                         returning the result and the trigger flags raised during the run
* `fuel`                 bound on the nesting depth of the evaluation (the fragment has general
                         recursion through self-application); every theorem holds for every fuel
-/
import EPV.Lemmas.ClosuresStep
namespace EPV.C16
open EPV.Clo

/-! ## closures -/

/-- PARTIAL (findings F16, F05, F16e, F16f, F16m are the five flags): on **every** tree configuration,
for every program and fuel, a run of the model that raises no trigger flag returns exactly what
the lexical-closure specification returns.  The full statement `(implEval cfg fuel p).result =
specEval fuel p` is false when `cfg.share` (see `closure_counterexample`) or `cfg.leak`
(`leak_counterexample`).  -/
theorem closure_eq_spec_partial (cfg : Cfg) (fuel : Nat) (p : Expr)
    (h : (implEval cfg fuel p).flags = Flags.none) :
    (implEval cfg fuel p).result = specEval fuel p := by
  have hs := eval_sim cfg fuel p { item := some (.int 1), lex := [], litem := some (.int 1) } []
    { heap := [], slots := [] } h
  simp only [eraseCtx, eraseHeap, List.map_nil] at hs
  show Except.map (fun x => x.1.1)
    (eval cfg fuel p { item := some (.int 1), lex := [], litem := some (.int 1) } []
      { heap := [], slots := [] }).2 = _
  unfold specEval
  rw [hs]
  generalize (eval cfg fuel p _ [] _).2 = r
  cases r <;> rfl

/-- the canonical witness of F16: `(for $i in (1,2) return function(){$i}) ! .()` -/
def witnessF16 : Expr :=
  .smap (.par (.forE 0 (.par (.cat (.lit 1) (.lit 2))) (.fnE 0 [] (.var 0)))) (.call .dot [])

/-- F16, kernel-checked: on a tree where the closure lives on the syntax token (F05 already
repaired) the program returns `(2,2)`, the specification `(1,2)`, and the `stale` trigger is
raised; on the repaired tree the model returns `(1,2)` without any flag. -/
theorem closure_counterexample :
    (implEval { share := true, leak := false } 20 witnessF16).result = .ok [.int 2, .int 2] ∧
    specEval 20 witnessF16 = .ok [.int 1, .int 2] ∧
    (implEval { share := true, leak := false } 20 witnessF16).flags.stale = true ∧
    implEval Cfg.fixed 20 witnessF16 = { result := .ok [.int 1, .int 2], flags := Flags.none } := by
  decide

/-- the canonical witness of F05: `let $x := 10 return (function($x){$x+1}(1), $x)` -/
def witnessF05 : Expr :=
  .letE 0 (.lit 10) (.cat (.call (.fnE 0 [0] (.add (.var 0) (.lit 1))) [some (.lit 1)]) (.var 0))

/-- F05, kernel-checked: with calls binding in the caller's dict the program returns `(2,1)`
(specification `(2,10)`) and the `scope` trigger is raised. -/
theorem leak_counterexample :
    (implEval { share := false, leak := true } 20 witnessF05).result = .ok [.int 2, .int 1] ∧
    specEval 20 witnessF05 = .ok [.int 2, .int 10] ∧
    (implEval { share := false, leak := true } 20 witnessF05).flags.scope = true ∧
    implEval Cfg.fixed 20 witnessF05 = { result := .ok [.int 2, .int 10], flags := Flags.none } := by
  decide

/-- the hypotheses of `closure_eq_spec_partial` are satisfiable on a non-trivial program even on
the pinned tree: closures created in a loop and called *before* the function expression is
evaluated again — `for $i in (1,2) return (function($x){$x + $i})(10)` (test on literals) -/
example :
    implEval Cfg.pinned 20 (.forE 0 (.par (.cat (.lit 1) (.lit 2)))
      (.call (.fnE 0 [1] (.add (.var 1) (.var 0))) [some (.lit 10)])) =
      { result := .ok [.int 11, .int 12], flags := { scope := false } } := by decide

/-! ## calls are repeatable -/

/-- `call_repeatable`: the result of calling a function item depends on the function objects
only — not on the token slots, not on the caller's variables dict, not on the caller's dynamic
focus: two calls of the same item with the same arguments from *any* two states that hold the
same function objects, both raising no flag, return the same value.  (Whatever was evaluated in
between, and however often the call is repeated.) -/
theorem call_repeatable (cfg : Cfg) (n : Nat) (a : Nat) (args : List Seq)
    (c₁ c₂ : ICtx) (D₁ D₂ : Env) (st₁ st₂ : St)
    (hheap : eraseHeap st₁.heap = eraseHeap st₂.heap)
    (h₁ : (callFn cfg (eval cfg n) c₁ D₁ a args st₁).1 = Flags.none)
    (h₂ : (callFn cfg (eval cfg n) c₂ D₂ a args st₂).1 = Flags.none) :
    (callFn cfg (eval cfg n) c₁ D₁ a args st₁).2.map (·.1.1) =
    (callFn cfg (eval cfg n) c₂ D₂ a args st₂).2.map (·.1.1) := by
  have s₁ := callFn_sim cfg (eval cfg n) (sem n) (eval_sim cfg n) c₁ D₁ a args st₁ h₁
  have s₂ := callFn_sim cfg (eval cfg n) (sem n) (eval_sim cfg n) c₂ D₂ a args st₂ h₂
  rw [hheap, s₂] at s₁
  generalize (callFn cfg (eval cfg n) c₁ D₁ a args st₁).2 = r₁ at s₁ ⊢
  generalize (callFn cfg (eval cfg n) c₂ D₂ a args st₂).2 = r₂ at s₁ ⊢
  cases r₁ <;> cases r₂ <;> simp [Except.map] at s₁ ⊢
  · exact s₁.symm
  · exact s₁.1.symm

end EPV.C16

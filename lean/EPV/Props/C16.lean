/-
C16 — function items are first-class values: closures, partial application, higher-order
functions.  Property theorems only; helper lemmas are in EPV/Lemmas/Closures*.lean.

Reading guide
* `Expr`                 the expression fragment (EPV/Spec/ClosureSem.lean)
* `specEval fuel p`      the specification: lexical closures, a new function item per evaluation of a
                         function expression, F&O definitions of the HOFs
* `implEval cfg fuel p`  the model of the code on a tree described by `cfg`
                         (`cfg.share`: F16 present — closure stored on the syntax token;
                          `cfg.leak`: F05 present — calls bind in the caller's variables dict),
                         returning the result and the trigger flags raised during the run
* `fuel`                 bound on the nesting depth of the evaluation (the fragment has general
                         recursion through self-application); every theorem holds for every fuel
-/
import EPV.Lemmas.ClosuresStep
import EPV.Lemmas.ClosuresHof
import EPV.Lemmas.ClosuresFlags
import EPV.Lemmas.ClosuresHeap
import EPV.Lemmas.ClosuresInv
namespace EPV.C16
open EPV.Clo

/-! ## closures -/

/-- PARTIAL (the flags are the triggers of F16 `stale`, F05/F05c `scope`, and `arity`): on **every** tree configuration,
for every program and fuel, a run of the model that raises no trigger flag returns exactly what
the lexical-closure specification returns.  The full statement `(implEval cfg fuel p).result =
specEval fuel p` is false when `cfg.share` (see `closure_counterexample`) or `cfg.leak`
(`leak_counterexample`).  -/
theorem closure_eq_spec_partial (cfg : Cfg) (fuel : Nat) (p : Expr)
    (h : (implEval cfg fuel p).flags = Flags.none) :
    (implEval cfg fuel p).result = specEval fuel p := by
  have hs := eval_sim cfg fuel p { item := some (.int 1), lex := [] } []
    { heap := [], slots := [] } h
  simp only [eraseCtx, eraseHeap, List.map_nil, eraseFocus, Option.isSome_some, if_true] at hs
  show Except.map (fun x => x.1.1)
    (eval cfg fuel p { item := some (.int 1), lex := [] } []
      { heap := [], slots := [] }).2 = _
  unfold specEval
  rw [hs]
  generalize (eval cfg fuel p _ [] _).2 = r
  cases r <;> rfl

/-- on a tree with the F16 repair (every evaluation of a function expression yields a new function
item) the `stale` trigger is never raised: no program, no call history can make a function item
see the bindings of another evaluation of its function expression. -/
theorem no_stale_when_repaired (cfg : Cfg) (hs : cfg.share = false) (fuel : Nat) (p : Expr) :
    (implEval cfg fuel p).flags.stale = false :=
  ns_eval cfg hs fuel p _ _ _

/-- on the reference tree (F16, F05, F05c repaired) the `scope` and `arity` triggers are never raised,
for any program (closed or not) and fuel: the variables dict of every context agrees with the lexical
environment, every closure holds variables that agree with its lexical bindings, every partial
application has a pattern of the function's arity (`ClosuresInv.lean`: invariant `HeapOK` + `EnvEq`,
preserved by every construct). -/
theorem no_scope_arity_on_reference_tree (fuel : Nat) (p : Expr) :
    (implEval Cfg.fixed fuel p).flags.scope = false ∧ (implEval Cfg.fixed fuel p).flags.arity = false := by
  have h := g_eval Cfg.fixed rfl rfl rfl fuel p
    { item := some (.int 1), lex := [] } [] (fun _ => rfl)
    { heap := [], slots := [] } (fun o ho => by simp at ho)
  exact ⟨h.1, h.2.1⟩

/-- an evaluation returns the variables dict it was given (no construct leaks a binding into the
caller's variables), on the reference tree, from any state whose closures are well formed -/
theorem eval_dict_unchanged (fuel : Nat) (e : Expr) (c : ICtx) (D : Env) (st st' : St) (r : Seq × Env)
    (hD : EnvEq D c.lex) (hh : HeapOK st.heap)
    (h : (eval Cfg.fixed fuel e c D st).2 = .ok (r, st')) : r.2 = D ∧ HeapOK st'.heap := by
  have := (g_eval Cfg.fixed rfl rfl rfl fuel e c D hD st hh).2.2 r st' h
  exact ⟨this.2, this.1⟩

/-- `closure_eq_spec` — on the reference tree (F16, F05, F05c, F16e, F16f … repaired) the model of the
code **equals** the lexical-closure specification for every program and every fuel, unconditionally:
function items are closures over the bindings and the focus of the place where they are created, a
new one per evaluation, and the body of an inline function has no focus.  (`stale`, `scope`, `arity`
are proved never to be raised: `no_stale_when_repaired`, `no_scope_arity_on_reference_tree`.) -/
theorem closure_eq_spec (fuel : Nat) (p : Expr) :
    (implEval Cfg.fixed fuel p).result = specEval fuel p := by
  apply closure_eq_spec_partial
  have h₀ := no_stale_when_repaired Cfg.fixed rfl fuel p
  obtain ⟨h₁, h₂⟩ := no_scope_arity_on_reference_tree fuel p
  generalize (implEval Cfg.fixed fuel p).flags = fl at *
  cases fl
  simp only at h₀ h₁ h₂
  simp [Flags.none, h₀, h₁, h₂]

/-- the focus is absent in the body of an inline function (XPath 3.1 §3.1.7), kernel-checked on the
former witness of F16f: `(7,8) ! function(){.}()` raises XPDY0002 in the model of the repaired code
and in the specification, while the argument position still sees the focus:
`(7,8) ! function($x){$x}(.)` = `(7,8)` -/
theorem focus_absent_in_function_body :
    implEval Cfg.fixed 20 (.smap (.par (.cat (.lit 7) (.lit 8))) (.call (.fnE 0 [] .dot) [])) =
      { result := .error .XPDY0002, flags := Flags.none } ∧
    specEval 20 (.smap (.par (.cat (.lit 7) (.lit 8))) (.call (.fnE 0 [] .dot) [])) = .error .XPDY0002 ∧
    implEval Cfg.fixed 20 (.smap (.par (.cat (.lit 7) (.lit 8))) (.call (.fnE 0 [1] (.var 1)) [some .dot])) =
      { result := .ok [.int 7, .int 8], flags := Flags.none } := by decide

/-- the canonical witness of F16: `(for $i in (1,2) return function(){$i}) ! .()` -/
def witnessF16 : Expr :=
  .smap (.par (.forE 0 (.par (.cat (.lit 1) (.lit 2))) (.fnE 0 [] (.var 0)))) (.call .dot [])

/-- F16, kernel-checked: on a tree where the closure lives on the syntax token (F05 already
repaired) the program returns `(2,2)`, the specification `(1,2)`, and the `stale` trigger is
raised; on the repaired tree the model returns `(1,2)` without any flag. -/
theorem closure_counterexample :
    (implEval { share := true, leak := false } 20 witnessF16).result = .ok [.int 2, .int 2] ∧
    specEval 20 witnessF16 = .ok [.int 1, .int 2] ∧
    (implEval { share := true, leak := false } 20 witnessF16).flags.stale = true ∧
    implEval Cfg.fixed 20 witnessF16 = { result := .ok [.int 1, .int 2], flags := Flags.none } := by
  decide

/-- the canonical witness of F05: `let $x := 10 return (function($x){$x+1}(1), $x)` -/
def witnessF05 : Expr :=
  .letE 0 (.lit 10) (.cat (.call (.fnE 0 [0] (.add (.var 0) (.lit 1))) [some (.lit 1)]) (.var 0))

/-- F05, kernel-checked: with calls binding in the caller's dict the program returns `(2,1)`
(specification `(2,10)`) and the `scope` trigger is raised. -/
theorem leak_counterexample :
    (implEval { share := false, leak := true } 20 witnessF05).result = .ok [.int 2, .int 1] ∧
    specEval 20 witnessF05 = .ok [.int 2, .int 10] ∧
    (implEval { share := false, leak := true } 20 witnessF05).flags.scope = true ∧
    implEval Cfg.fixed 20 witnessF05 = { result := .ok [.int 2, .int 10], flags := Flags.none } := by
  decide

/-- F05c, kernel-checked (the one program shape with a free variable): `let $f := function(){$y}
return let $y := 5 return $f()` — while the callee still sees the caller's variables the model
returns 5 and raises `scope`; on the reference tree it raises XPST0008 like the specification,
without any flag. -/
theorem dynamic_scope_counterexample :
    let p : Expr := .letE 0 (.fnE 0 [] (.var 1)) (.letE 1 (.lit 5) (.call (.var 0) []))
    implEval { share := false, leak := false, lexical := false } 20 p
      = { result := .ok [.int 5], flags := { scope := true } } ∧
    implEval Cfg.fixed 20 p = { result := .error .XPST0008, flags := Flags.none } ∧
    specEval 20 p = .error .XPST0008 := by decide

/-- the hypotheses of `closure_eq_spec_partial` are satisfiable on a non-trivial program even on
the pinned tree: closures created in a loop and called *before* the function expression is
evaluated again — `for $i in (1,2) return (function($x){$x + $i})(10)` (test on literals) -/
example :
    implEval Cfg.pinned 20 (.forE 0 (.par (.cat (.lit 1) (.lit 2)))
      (.call (.fnE 0 [1] (.add (.var 1) (.var 0))) [some (.lit 10)])) =
      { result := .ok [.int 11, .int 12], flags := { scope := false } } := by decide

/-! ## calls are repeatable -/

/-- `call_repeatable`: the result of calling a function item depends on the function objects
only — not on the token slots, not on the caller's variables dict, not on the caller's dynamic
focus: two calls of the same item with the same arguments from *any* two states that hold the
same function objects, both raising no flag, return the same value.  (Whatever was evaluated in
between, and however often the call is repeated.) -/
theorem call_repeatable (cfg : Cfg) (n : Nat) (a : Nat) (args : List Seq)
    (c₁ c₂ : ICtx) (D₁ D₂ : Env) (st₁ st₂ : St)
    (hheap : eraseHeap st₁.heap = eraseHeap st₂.heap)
    (h₁ : (callFn cfg (eval cfg n) c₁ D₁ a args st₁).1 = Flags.none)
    (h₂ : (callFn cfg (eval cfg n) c₂ D₂ a args st₂).1 = Flags.none) :
    (callFn cfg (eval cfg n) c₁ D₁ a args st₁).2.map (·.1.1) =
    (callFn cfg (eval cfg n) c₂ D₂ a args st₂).2.map (·.1.1) := by
  have s₁ := callFn_sim cfg (eval cfg n) (sem n) (eval_sim cfg n) c₁ D₁ a args st₁ h₁
  have s₂ := callFn_sim cfg (eval cfg n) (sem n) (eval_sim cfg n) c₂ D₂ a args st₂ h₂
  rw [hheap, s₂] at s₁
  generalize (callFn cfg (eval cfg n) c₁ D₁ a args st₁).2 = r₁ at s₁ ⊢
  generalize (callFn cfg (eval cfg n) c₂ D₂ a args st₂).2 = r₂ at s₁ ⊢
  cases r₁ <;> cases r₂ <;> simp [Except.map] at s₁ ⊢
  · exact s₁.symm
  · exact s₁.1.symm

/-! ## function objects are immutable -/

/-- `heap_append_only`: whatever is evaluated, on whatever tree configuration, the function objects
that exist before the evaluation exist afterwards, unchanged, at the same addresses (evaluation
only allocates).  The only mutable state of the model is the token slot (F16) and the variables
dict (F05). -/
theorem heap_append_only (cfg : Cfg) (n : Nat) (e : Expr) (c : ICtx) (D : Env) (st st' : St) (r : Seq × Env)
    (h : (eval cfg n e c D st).2 = .ok (r, st')) :
    ∀ i, i < st.heap.length → st'.heap[i]? = st.heap[i]? := by
  obtain ⟨t, ht⟩ := hp_eval cfg trivial n e c D st r st' h
  intro i hi
  rw [← ht, List.getElem?_append_left hi]

/-- `partial_apply_heap_unchanged`: a partial application — of a plain function, of a named
reference, or of an already partial function (placeholders refilled) — creates a new function
object and never changes an existing one: the argument list of the function it was derived from
stays what it was, however many partials are derived from it and in whatever order they are used. -/
theorem partial_apply_heap_unchanged (cfg : Cfg) (n : Nat) (c : ICtx) (D : Env) (a : Nat)
    (args : List (Option Expr)) (st st' : St) (r : Seq × Env)
    (h : (partialApply cfg (eval cfg n) c D a args st).2 = .ok (r, st')) :
    ∀ i, i < st.heap.length → st'.heap[i]? = st.heap[i]? := by
  obtain ⟨t, ht⟩ := hp_partialApply cfg trivial (eval cfg n) (hp_eval cfg trivial n) c D a args st r st' h
  intro i hi
  rw [← ht, List.getElem?_append_left hi]

/-- test on literals: two partials derived from one partial, the first-level partial used again
afterwards — `let $f := function($a,$b,$c){($a,$b,$c)}, $g := $f(?,2,?), $h := $g(1,?) return
($h(3), $g(5,6), $g(?,9)(8))` -/
example : specEval 30
    (.letE 0 (.fnE 0 [1, 2, 3] (.cat (.cat (.var 1) (.var 2)) (.var 3)))
      (.letE 4 (.call (.var 0) [none, some (.lit 2), none])
        (.letE 5 (.call (.var 4) [some (.lit 1), none])
          (.cat (.cat (.call (.var 5) [some (.lit 3)]) (.call (.var 4) [some (.lit 5), some (.lit 6)]))
            (.call (.call (.var 4) [none, some (.lit 9)]) [some (.lit 8)]))))) =
    .ok [.int 1, .int 2, .int 3, .int 5, .int 2, .int 6, .int 8, .int 2, .int 9] := by decide

/-! ## named function references capture the focus -/

/-- `funcref_captures_focus`: (1) evaluating `f#n` allocates a **new** function object that holds the
focus (context item, position, size) of the place of evaluation, and changes nothing else;
(2) calling a reference to a focus-dependent function (`position#0`, `last#0`, `data#0`) returns
what the function computes from the focus stored in the object — from any calling context `c'`,
any variables, any state holding the object: the focus of the caller, and whatever other
references the same expression produced before or after, play no part.  (With
`heap_append_only`: no later evaluation can re-target an existing reference.) -/
theorem funcref_captures_focus (cfg : Cfg) (ev : Expr → ICtx → Env → IM (Seq × Env)) :
    (∀ (b : Builtin) (c : ICtx) (D : Env) (st : St),
      step cfg ev (.named b) c D st =
        (Flags.none, .ok (([.fn st.heap.length], D),
          { st with heap := st.heap ++ [{ tok := none, code := .builtin b, env := none, lex := [], fixed := none,
                                          fitem := c.item, fpos := c.pos, fsize := c.size }] }))) ∧
    (∀ (b : Builtin) (a : Nat) (o : FObj) (c' : ICtx) (D' : Env) (st : St),
      st.heap[a]? = some o → o.code = .builtin b → o.fixed = none → b.arity = 0 →
      callFn cfg ev c' D' a [] st =
        (Flags.none, (b.apF (o.fitem, o.fpos, o.fsize) []).map fun r => ((r, D'), st))) := by
  refine ⟨fun b c D st => rfl, fun b a o c' D' st ho hc hf hb => ?_⟩
  obtain ⟨tok, code, env, lex, fixed, fi, fp, fs, sg⟩ := o
  simp only at hc hf
  subst hc hf
  unfold callFn
  simp only [IM.bind_def, IM.getObj, ho, FObj.nargsOk, FObj.arity, hb, List.length_nil, BEq.rfl,
    if_true, Flags.none_or]
  have hb' : (b.arity == 0) = true := by simp [hb]
  cases Builtin.apF b (fi, fp, fs) [] <;>
    simp [hb', IM.lift, IM.throw, IM.pure_def, IM.bind_def, Functor.map, Except.map, Flags.or, Flags.none]

/-- test on literals (the seeded change that stored the reference on the `#` token):
`((5,6,7) ! position#0) ! .()` = `(1,2,3)`, and called in reverse order `reverse((5,6,7) ! data#0) ! .()`
= `(7,6,5)` — in the model (reference tree, no flag) and in the specification -/
example :
    implEval Cfg.fixed 20 (.smap (.par (.smap (.par (.cat (.cat (.lit 5) (.lit 6)) (.lit 7))) (.named .position0)))
      (.call .dot [])) = { result := .ok [.int 1, .int 2, .int 3], flags := Flags.none } ∧
    specEval 20 (.smap (.call (.named .reverse)
        [some (.smap (.par (.cat (.cat (.lit 5) (.lit 6)) (.lit 7))) (.named .data0))])
      (.call .dot [])) = .ok [.int 7, .int 6, .int 5] := by decide

/-- static partial applications bind their fixed arguments where they are evaluated (test on
literals; the general statement is `closure_eq_spec_partial`, whose specification evaluates the fixed
arguments of `name(?, v, …)` at creation): `for $f in ((1,2) ! insert-before(?, 1, .)) return $f(7)` =
`(1,7,2,7)` and `for $f in ((1,2,3) ! remove(?, position())) return $f((10,20,30))` =
`(20,30,10,30,10,20)`, model (reference tree + repair F16n, no flag) and specification -/
example :
    implEval Cfg.fixed 20 (.forE 0 (.par (.smap (.par (.cat (.lit 1) (.lit 2)))
        (.spart .insertBefore [none, some (.lit 1), some .dot]))) (.call (.var 0) [some (.lit 7)])) =
      { result := .ok [.int 1, .int 7, .int 2, .int 7], flags := Flags.none } ∧
    specEval 20 (.forE 0 (.par (.smap (.par (.cat (.cat (.lit 1) (.lit 2)) (.lit 3)))
        (.spart .remove [none, some .posE]))) (.call (.var 0) [some (.par (.cat (.cat (.lit 10) (.lit 20)) (.lit 30)))])) =
      .ok [.int 20, .int 30, .int 10, .int 30, .int 10, .int 20] := by decide

/-! ## typed inline functions: function conversion rules -/

/-- the function conversion rules of the fragment are idempotent: converting a converted value
changes nothing.  (The code converts the fixed arguments of a partial application when it is
evaluated and the supplied arguments at the call; the model hands the whole filled argument list to
the conversion at the call — equal by this theorem.) -/
theorem conversion_idempotent (t : STy) (s s' : Seq) (h : convSeq t s = .ok s') : convSeq t s' = .ok s' :=
  convSeq_idem t s s' h

/-- test on literals (model on the reference tree = specification, no flag):
`function($a as xs:integer, $b as xs:double){($a,$b)}(?, 2)(1)` = `(1, 2e0)` (the fixed argument is
promoted when the partial application is evaluated); `…(?, true())` is a type error at the
application; a function item for an `xs:anyAtomicType` parameter is FOTY0013; a single function item
matches `function(*)?` -/
example :
    let f : Expr := .tfnE 0 [1, 2] [⟨.integer, .one⟩, ⟨.double, .one⟩] ⟨.item, .star⟩ (.cat (.var 1) (.var 2))
    implEval Cfg.fixed 20 (.call (.call f [none, some (.lit 2)]) [some (.lit 1)]) =
      { result := .ok [.int 1, .dbl 2], flags := Flags.none } ∧
    specEval 20 (.call (.call f [none, some (.lit 2)]) [some (.lit 1)]) = .ok [.int 1, .dbl 2] ∧
    specEval 20 (.call f [none, some .tt]) = .error .XPTY0004 ∧
    specEval 20 (.call (.tfnE 0 [1] [⟨.atomic, .one⟩] ⟨.item, .star⟩ (.var 1)) [some (.named .abs)]) = .error .FOTY0013 ∧
    specEval 20 (.call (.tfnE 0 [1] [⟨.func, .opt⟩] ⟨.integer, .one⟩ (.call (.named .count) [some (.var 1)]))
      [some (.named .abs)]) = .ok [.int 1] := by decide

/-! ## higher-order functions -/

/-- `hof_eq_expansion`, part 1 (model = F&O definition): the loops of the implementation
(`for item in …: func(item)`, accumulator loops, `reversed`, `zip`) compute, for **every** function
item, sequence and state, what the definitional recursions of F&O 3.1 §16.2 compute (head/tail
recursion `fold-left(tail($seq), $f($zero, head($seq)), $f)` etc.) — in every run that raises no
trigger flag. -/
theorem hof_eq_expansion (cfg : Cfg) (n : Nat) (c : ICtx) (a : Nat) :
    (∀ xs D, Sim Prod.fst (hofForEach cfg (eval cfg n) c a D [] xs) (specForEach (specCall (sem n)) a xs)) ∧
    (∀ xs D, Sim Prod.fst (hofFilter cfg (eval cfg n) c a D [] xs) (specFilter (specCall (sem n)) a xs)) ∧
    (∀ xs zero D, Sim Prod.fst (hofFoldLeft cfg (eval cfg n) c a D zero xs)
        (specFoldLeft (specCall (sem n)) a zero xs)) ∧
    (∀ xs zero D, Sim Prod.fst (hofFoldRightRev cfg (eval cfg n) c a D zero xs.reverse)
        (specFoldRight (specCall (sem n)) a zero xs)) ∧
    (∀ xs ys D, Sim Prod.fst (hofPairs cfg (eval cfg n) c a D [] (xs.zip ys))
        (specForEachPair (specCall (sem n)) a xs ys)) := by
  have hev := eval_sim cfg n
  refine ⟨fun xs D => ?_, fun xs D => ?_, fun xs zero D => ?_, fun xs zero D => ?_, fun xs ys D => ?_⟩
  · simpa only [List.nil_append, bind_pure] using hofForEach_sim cfg _ _ hev c a xs D []
  · simpa only [List.nil_append, bind_pure] using hofFilter_sim cfg _ _ hev c a xs D []
  · exact hofFoldLeft_sim cfg _ _ hev c a xs D zero
  · simpa only [List.reverse_reverse] using hofFoldRightRev_sim cfg _ _ hev c a xs.reverse D zero
  · simpa only [List.nil_append, bind_pure] using hofPairs_sim cfg _ _ hev c a xs ys D []

/-- `hof_eq_expansion`, part 2 (F&O definition = list combinator): for a function item that
behaves as a pure total function `g`, for-each is `flatMap`, filter is `filter`, fold-left is
`foldl`, fold-right is `foldr`, for-each-pair is `zipWith` (flattened). -/
theorem hof_eq_list (callf : Nat → List Seq → SM Seq) (a : Nat) :
    (∀ g : Item → Seq, (∀ x, callf a [[x]] = pure (g x)) →
        ∀ xs, specForEach callf a xs = pure (xs.flatMap g)) ∧
    (∀ p : Item → Bool, (∀ x, callf a [[x]] = pure [.bool (p x)]) →
        ∀ xs, specFilter callf a xs = pure (xs.filter p)) ∧
    (∀ g : Seq → Item → Seq, (∀ z x, callf a [z, [x]] = pure (g z x)) →
        ∀ xs zero, specFoldLeft callf a zero xs = pure (xs.foldl g zero)) ∧
    (∀ g : Item → Seq → Seq, (∀ x r, callf a [[x], r] = pure (g x r)) →
        ∀ xs zero, specFoldRight callf a zero xs = pure (xs.foldr g zero)) ∧
    (∀ g : Item → Item → Seq, (∀ x y, callf a [[x], [y]] = pure (g x y)) →
        ∀ xs ys, specForEachPair callf a xs ys = pure (List.zipWith g xs ys).flatten) :=
  ⟨fun g hg xs => specForEach_pure callf a g hg xs, fun p hp xs => specFilter_pure callf a p hp xs,
   fun g hg xs zero => specFoldLeft_pure callf a g hg xs zero,
   fun g hg xs zero => specFoldRight_pure callf a g hg zero xs,
   fun g hg xs ys => specForEachPair_pure callf a g hg xs ys⟩

/-- test on literals: the expansions are not vacuous — `fold-right((1,2,3), (), function($x,$r){($r,$x)})` -/
example : specEval 20 (.foldR (.par (.cat (.cat (.lit 1) (.lit 2)) (.lit 3))) .emp
    (.fnE 0 [0, 1] (.cat (.var 1) (.var 0)))) = .ok [.int 3, .int 2, .int 1] := by decide

/-! ## sort -/

/-- `sort_perm_sorted_stable`: the model's `fn:sort` (keys computed once per item, then a stable
sort — `List.mergeSort`, standing for CPython's `sorted`) returns a permutation of its input,
ordered by key (lexicographic order on integer key sequences, a proper prefix first), keeps the
input order of items whose keys compare equal-or-smaller (stability: every ordered pair of the
input stays in that order), and is the specification's reference insertion sort. -/
theorem sort_perm_sorted_stable (ks : List (Item × List Int)) :
    (sortByKey ks).Perm (ks.map (·.1)) ∧
    (ks.mergeSort kle).Pairwise (fun p q => keyLe p.2 q.2 = true) ∧
    (∀ p q, keyLe p.2 q.2 = true → [p, q].Sublist ks → [p, q].Sublist (ks.mergeSort kle)) ∧
    sortByKey ks = (sortSpec ks).map (·.1) := by
  refine ⟨?_, ?_, ?_, sortByKey_eq ks⟩
  · exact (List.mergeSort_perm ks _).map _
  · exact List.pairwise_mergeSort kle_trans kle_total ks
  · intro p q hpq hsub
    exact List.pair_sublist_mergeSort kle_trans kle_total hpq hsub

/-- `key_called_per_occurrence`: the key list the sort works on has one entry per **occurrence** of
an item of the input, in input order, and entry `i` is the key function applied to occurrence `i`
(model: `hofKeys` simulates the specification's `specKeys`; specification: for a key function that
behaves as the pure function `k`, the decorated list is `xs.map (x ↦ (x, key (k x)))`).  In
particular two items that are equal as values but differ in type (`1`, `1.0`, `1e0`), or a boolean
and the integer of the same truth value, are each sorted by their own key. -/
theorem key_called_per_occurrence (cfg : Cfg) (n : Nat) (ci : Bool) (c : ICtx) (a : Nat) :
    (∀ xs D, Sim Prod.fst (hofKeys cfg (eval cfg n) ci c a D [] xs) (specKeys (specCall (sem n)) ci a xs)) ∧
    (∀ (callf : Nat → List Seq → SM Seq) (k : Item → Seq) (g : Item → List Int),
      (∀ x, callf a [[x]] = pure (k x)) → (∀ x, keyOf ci (k x) = .ok (g x)) →
      ∀ xs, specKeys callf ci a xs = pure (xs.map fun x => (x, g x)) ∧
            (keysUniform (xs.map g) = true →
              specSort callf ci a xs = pure ((sortSpec (xs.map fun x => (x, g x))).map (·.1)))) := by
  refine ⟨fun xs D => ?_, fun callf k g hk hg xs =>
    ⟨specKeys_pure callf a ci k g hk hg xs, specSort_pure callf a ci k g hk hg xs⟩⟩
  simpa only [List.nil_append, bind_pure] using hofKeys_sim cfg _ _ (eval_sim cfg n) ci c a xs D []

/-- the order on key components (tests on the encoding, all by `decide`): NaN ≤ -INF ≤ finite ≤ +INF,
`-0` and `0` have the same key, false < true; strings by code point with a proper prefix first
(`"B" < "a" < "ab" < "b"`), and under html-ascii-case-insensitive `"a"` and `"A"` have the same key -/
example :
    keyOf false [.nan] = .ok [0, 0, 0] ∧ keyOf false [.inf false] = .ok [0, 1, 0] ∧
    keyOf false [.dbl (-7)] = .ok [0, 2, -7] ∧ keyOf false [.inf true] = .ok [0, 3, 0] ∧
    keyOf false [.negz] = keyOf false [.int 0] ∧
    keyLe [0, 0, 0] [0, 1, 0] = true ∧ keyLe [0, 1, 0] [0, 2, -7] = true ∧ keyLe [0, 2, 9] [0, 3, 0] = true ∧
    keyLe [0, 2, -7] [0, 0, 0] = false ∧
    keyOf false [.str [66]] = .ok [2, 67, 0] ∧ keyOf true [.str [66]] = .ok [2, 99, 0] ∧
    keyOf true [.str [97]] = keyOf true [.str [65]] ∧
    keyLe [2, 67, 0] [2, 98, 0] = true ∧ keyLe [2, 98, 0] [2, 98, 99, 0] = true ∧
    keyLe [2, 98, 99, 0] [2, 99, 0] = true ∧ keyLe [2, 99, 0] [2, 98, 99, 0] = false := by decide

/-- test on literals: `sort((1e0, NaN, 2, -INF, -0e0, INF, 0), (), function($x){$x})` puts NaN first
and keeps `-0e0` before `0` (equal keys, input order); `sort(("b","a","B","A"), C, function($x){$x})`
is `("A","B","a","b")` by code points and `("a","A","b","B")` case-insensitively -/
example :
    specEval 30 (.sortK false (.par (.cat (.cat (.cat (.cat (.cat (.cat (.elit 1) .nanlit) (.lit 2))
        (.inflit false)) .negzlit) (.inflit true)) (.lit 0))) (.fnE 0 [0] (.var 0))) =
      .ok [.nan, .inf false, .negz, .int 0, .dbl 1, .int 2, .inf true] ∧
    specEval 30 (.sortK false (.par (.cat (.cat (.cat (.slit [98]) (.slit [97])) (.slit [66])) (.slit [65])))
        (.fnE 0 [0] (.var 0))) = .ok [.str [65], .str [66], .str [97], .str [98]] ∧
    specEval 30 (.sortK true (.par (.cat (.cat (.cat (.slit [98]) (.slit [97])) (.slit [66])) (.slit [65])))
        (.fnE 0 [0] (.var 0))) = .ok [.str [97], .str [65], .str [98], .str [66]] := by decide

/-- test on literals: `sort((1, true(), 1.0, 1e0), (), function($x){ type code of $x })` — equal values,
four types, sorted by type code boolean < double < decimal < integer -/
example : specEval 30 (.sortK false
    (.par (.cat (.cat (.cat (.lit 1) .tt) (.dlit 1)) (.elit 1)))
    (.fnE 0 [0] (.ite (.inst .boolean (.var 0)) (.lit 0) (.ite (.inst .double (.var 0)) (.lit 1)
      (.ite (.inst .integer (.var 0)) (.lit 3) (.lit 2)))))) =
    .ok [.bool true, .dbl 1, .dec 1, .int 1] := by decide

/-- the key order is a total preorder (needed for "ordered" to mean anything) -/
theorem key_order_total_preorder :
    (∀ a, keyLe a a = true) ∧ (∀ a b, (keyLe a b || keyLe b a) = true) ∧
    (∀ a b c, keyLe a b = true → keyLe b c = true → keyLe a c = true) :=
  ⟨keyLe_refl, keyLe_total, keyLe_trans⟩

/-- test on literals: stability is observable through a secondary component — sort by `x mod 2` -/
example : sortByKey [(.int 3, [1]), (.int 1, [1]), (.int 2, [0]), (.int 4, [0])] =
    [.int 2, .int 4, .int 3, .int 1] := by rw [sortByKey_eq]; decide

/-! ## partial application -/

/-- `partial_apply_eq_direct` (specification): calling the partial application `f(?, v, ?)` with
arguments `(a, b)` is the direct call `f(a, v, b)`. -/
theorem partial_apply_eq_direct_spec (sev : Expr → SCtx → SM Seq) (h : SHeap) (a b : Nat) (o : SObj)
    (pat : List (Option Seq)) (args : List Seq)
    (ha : h[a]? = some { o with fixed := some pat }) (hb : h[b]? = some { o with fixed := none })
    (hn : args.length = holes pat) :
    specCall sev a args h = specCall sev b (fill pat args) h :=
  specCall_partial sev h a b o pat args ha hb hn

/-- `partial_apply_eq_direct` (model): the binding loop of `'inline partial function'`
(`for varname, tk in zip(self.varnames, self): … args[k]; k += 1`) binds exactly what the direct
call binds for the filled argument list … -/
theorem partial_binding_eq_direct (ps : List Nat) (pat : List (Option Seq)) (args : List Seq) :
    zipFill ps pat args = ps.zip (fill pat args) := zipFill_eq ps pat args

/-- … hence, in the model, calling a partially applied inline function is calling a function
item with the same code and variables on the filled argument list (same state, same flags, same
result), whenever the pattern has the function's arity. -/
theorem partial_apply_eq_direct (cfg : Cfg) (ev : Expr → ICtx → Env → IM (Seq × Env)) (c : ICtx) (D : Env)
    (st : St) (a b : Nat) (ps : List Nat) (body : Expr) (env : Option Env) (lex : Env)
    (pat : List (Option Seq)) (args : List Seq)
    (ha : st.heap[a]? = some { tok := none, code := .inline ps body, env := env, lex := lex, fixed := some pat })
    (hb : st.heap[b]? = some { tok := none, code := .inline ps body, env := env, lex := lex, fixed := none })
    (hn : args.length = holes pat) (hp : pat.length = ps.length) :
    callFn cfg ev c D a args st = callFn cfg ev c D b (fill pat args) st := by
  have hl : (fill pat args).length = ps.length := by rw [fill_length pat args hn, hp]
  unfold callFn
  simp only [IM.bind_def, IM.getObj, ha, hb, FObj.nargsOk, FObj.arity, hn, BEq.rfl, if_true,
    currentVars, IM.flag, hp, ne_eq, not_true_eq_false, decide_false, hl, zipFill_eq,
    Flags.none_or]
  cases cfg.share <;> simp [Flags.or]

end EPV.C16

/-
C16 — property theorems (function items: closures, partial application, HOFs).
-/
import EPV.Model.Closures
namespace EPV.C16
open EPV.Clo

/-- the canonical witness of F16: `(for $i in (1,2) return function(){$i}) ! .()` -/
def witnessF16 : Expr :=
  .smap (.par (.forE 0 (.par (.cat (.lit 1) (.lit 2))) (.fnE 0 [] (.var 0)))) (.call .dot [])

/-- F16, kernel-checked: on a tree where the closure lives on the syntax token (and F05 is already
repaired) the program returns `(2,2)`, the specification `(1,2)`; the `stale` trigger is raised. -/
theorem closure_counterexample :
    (implEval { share := true, leak := false } 20 witnessF16).result = .ok [.int 2, .int 2] ∧
    specEval 20 witnessF16 = .ok [.int 1, .int 2] ∧
    (implEval { share := true, leak := false } 20 witnessF16).flags.stale = true := by decide

end EPV.C16

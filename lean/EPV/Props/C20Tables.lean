/-
C20 — theorems over the GENERATED prototype tables of `elementpath/decoder.py`
(`EPV/Gen/C20Protos.lean`, written by harness/c20.py from the live `_ATOMIC_VALUES` on every run).
The decoder model (`pyDecode`, `B.protoClass`) assumes a class for the prototype of every builtin
and XSD version; these theorems tie that assumption to the table that exists today.
-/
import EPV.Model.SchemaTyping
import EPV.Gen.C20Protos
namespace EPV.C20
open EPV.Xsd

def lookupProto (tbl : List (String × String)) (b : B) : Option String :=
  (tbl.find? (·.1 == b.lname)).map (·.2)

/-- every modelled builtin has, in the XSD 1.0 table, the prototype class the model assumes -/
theorem proto_table_10 :
    (B.all.all fun b => lookupProto EPV.Gen.C20.protos10 b == some (B.protoClass false b)) = true := by
  decide +kernel

/-- … and in the XSD 1.1 table -/
theorem proto_table_11 :
    (B.all.all fun b => lookupProto EPV.Gen.C20.protos11 b == some (B.protoClass true b)) = true := by
  decide +kernel

/-- **date-like types are decoded by the classes of the schema's XSD version**: under an XSD 1.1
schema the prototype of `xs:date`, `xs:dateTime`, `xs:gYear`, `xs:gYearMonth` is the XSD 1.1 class,
it differs from the XSD 1.0 class, and the 1.0 table holds the `…10` class (year 0000 illegal,
years before 1 shifted by one) -/
theorem date_like_classes_by_version :
    ([B.date, B.dateTime, B.gYear, B.gYearMonth].all fun b =>
      lookupProto EPV.Gen.C20.protos11 b != lookupProto EPV.Gen.C20.protos10 b &&
      lookupProto EPV.Gen.C20.protos11 b == some (B.protoClass true b) &&
      lookupProto EPV.Gen.C20.protos10 b == some (B.protoClass true b ++ "10")) = true := by
  decide +kernel

/-- all other builtins share one prototype class in both versions -/
theorem other_classes_version_independent :
    (B.all.all fun b => b.isDateLike ||
      lookupProto EPV.Gen.C20.protos11 b == lookupProto EPV.Gen.C20.protos10 b) = true := by
  decide +kernel

end EPV.C20

/-
C09 — table-level theorems over CPython's case mapping data, regenerated on every run from the live
`str.upper()` / `str.lower()` for all 0x110000 code points (EPV/Gen/C09Case.lean, translator
harness/c09.py::translate_case_tables), and the string-level consequences for the model of
`upper-case` / `lower-case` instantiated with these tables.  All table facts are `decide +kernel`.
-/
import EPV.Gen.C09Case
import EPV.Lemmas.StringsCase
import EPV.Lemmas.StringsCase2
namespace EPV.C09
open EPV.FOStrings (Str)
open EPV.Strings (tableFun inRanges)
open EPV.Gen.C09

/-- `upper-case` / `lower-case` with the tables of the running CPython -/
def upperCaseG (s : Str) : Str := Strings.upperCase (tableFun upperTable) s
def lowerCaseG (s : Str) : Str :=
  Strings.lowerCase (tableFun lowerTable) (inRanges casedRanges) (inRanges ignorableRanges) s

def keysIncreasing (t : List (Nat × List Nat)) : Bool :=
  (t.zip t.tail).all fun p => p.1.1 < p.2.1

def rangesIncreasing (t : List (Nat × Nat)) : Bool :=
  t.all (fun r => r.1 ≤ r.2) && (t.zip t.tail).all fun p => p.1.2 + 1 < p.2.1

def isScalar (c : Nat) : Bool := c < 0x110000 && !(0xD800 ≤ c && c ≤ 0xDFFF)

/-- The generated tables are well formed: keys strictly increasing (so `lookup` is a function of the
code point, each code point listed once), ranges non-empty, increasing and non-adjacent, every row
differs from the identity, every mapped character is a Unicode scalar value. -/
theorem case_tables_wf :
    keysIncreasing upperTable = true ∧ keysIncreasing lowerTable = true ∧
    rangesIncreasing casedRanges = true ∧ rangesIncreasing ignorableRanges = true ∧
    (upperTable.all fun e => e.2 != [e.1] && e.2.all isScalar && isScalar e.1) = true ∧
    (lowerTable.all fun e => e.2 != [e.1] && e.2.all isScalar && isScalar e.1) = true := by
  decide +kernel

/-- SpecialCasing, lower: the only code point whose lower-case mapping is not a single character is
U+0130 (→ U+0069 U+0307). -/
theorem lower_rows_single_except_0130 :
    (lowerTable.all fun e => e.2.length == 1 || (e.1 == 0x130 && e.2 == [0x69, 0x307])) = true := by
  decide +kernel

/-- SpecialCasing, upper: every upper-case mapping has one, two or three characters. -/
theorem upper_rows_len_le_3 :
    (upperTable.all fun e => 1 ≤ e.2.length && e.2.length ≤ 3) = true := by
  decide +kernel

/-- The rows the Final_Sigma rule relies on: Σ lower-cases to σ out of context, σ and ς upper-case
to Σ; Σ, σ, ς are Cased and not Case_Ignorable (so a sigma is never skipped when the context of
another sigma is scanned). -/
theorem sigma_rows :
    tableFun lowerTable 0x3A3 = [0x3C3] ∧ tableFun upperTable 0x3C3 = [0x3A3] ∧
    tableFun upperTable 0x3C2 = [0x3A3] ∧ tableFun lowerTable 0x3C2 = [0x3C2] ∧
    inRanges casedRanges 0x3A3 = true ∧ inRanges casedRanges 0x3C3 = true ∧
    inRanges casedRanges 0x3C2 = true ∧ inRanges ignorableRanges 0x3A3 = false ∧
    inRanges ignorableRanges 0x3C3 = false ∧ inRanges ignorableRanges 0x3C2 = false := by
  decide +kernel

/-! ASCII rows.  The kernel visits a list element in about 0.1 ms, so the 128 × 2 look-ups are done in
the ASCII prefix of the tables (26 rows) and the rest of each table is shown to start at 128. -/

def asciiRows (t : List (Nat × List Nat)) : List (Nat × List Nat) := t.takeWhile fun e => e.1 < 128
def asciiRanges (t : List (Nat × Nat)) : List (Nat × Nat) := t.takeWhile fun r => r.1 < 128

theorem ascii_prefix_facts :
    ((List.range 128).all fun c =>
      tableFun (asciiRows upperTable) c == [if 97 ≤ c ∧ c ≤ 122 then c - 32 else c] &&
      tableFun (asciiRows lowerTable) c == [if 65 ≤ c ∧ c ≤ 90 then c + 32 else c] &&
      inRanges (asciiRanges casedRanges) c == ((65 ≤ c && c ≤ 90) || (97 ≤ c && c ≤ 122)) &&
      inRanges (asciiRanges ignorableRanges) c == [0x27, 0x2E, 0x3A, 0x5E, 0x60].contains c) = true ∧
    ((upperTable.dropWhile fun e => e.1 < 128).all fun e => 128 ≤ e.1) = true ∧
    ((lowerTable.dropWhile fun e => e.1 < 128).all fun e => 128 ≤ e.1) = true ∧
    ((casedRanges.dropWhile fun r => r.1 < 128).all fun r => 128 ≤ r.1) = true ∧
    ((ignorableRanges.dropWhile fun r => r.1 < 128).all fun r => 128 ≤ r.1) = true := by
  decide +kernel

theorem lookupNat_append (c : Nat) (a b : List (Nat × List Nat)) :
    Strings.lookupNat c (a ++ b) =
      match Strings.lookupNat c a with
      | some v => some v
      | none => Strings.lookupNat c b := by
  induction a with
  | nil => simp [Strings.lookupNat]
  | cons e es ih =>
    obtain ⟨k, v⟩ := e
    simp only [List.cons_append, Strings.lookupNat]
    cases Nat.beq k c <;> simp [ih]

theorem lookupNat_none_of_ge (c : Nat) (b : List (Nat × List Nat)) (hc : c < 128)
    (hb : (b.all fun e => 128 ≤ e.1) = true) : Strings.lookupNat c b = none := by
  induction b with
  | nil => rfl
  | cons e es ih =>
    obtain ⟨k, v⟩ := e
    simp only [List.all_cons, Bool.and_eq_true, decide_eq_true_eq] at hb
    simp only [Strings.lookupNat]
    have : Nat.beq k c = false := by
      cases h : Nat.beq k c
      · rfl
      · have := Nat.eq_of_beq_eq_true h; omega
    simp only [this]
    exact ih hb.2

theorem tableFun_ascii (t : List (Nat × List Nat)) (c : Nat) (hc : c < 128)
    (hb : ((t.dropWhile fun e => e.1 < 128).all fun e => 128 ≤ e.1) = true) :
    tableFun t c = tableFun (asciiRows t) c := by
  unfold tableFun asciiRows
  conv => lhs; rw [← List.takeWhile_append_dropWhile (p := fun e => e.1 < 128) (l := t)]
  rw [lookupNat_append, lookupNat_none_of_ge c _ hc hb]
  cases Strings.lookupNat c (List.takeWhile (fun e => decide (e.1 < 128)) t) <;> rfl

theorem inRanges_ascii (t : List (Nat × Nat)) (c : Nat) (hc : c < 128)
    (hb : ((t.dropWhile fun r => r.1 < 128).all fun r => 128 ≤ r.1) = true) :
    inRanges t c = inRanges (asciiRanges t) c := by
  unfold inRanges asciiRanges
  conv => lhs; rw [← List.takeWhile_append_dropWhile (p := fun r => r.1 < 128) (l := t)]
  rw [List.any_append]
  have : (List.dropWhile (fun r => decide (r.1 < 128)) t).any (fun r => decide (r.1 ≤ c) && decide (c ≤ r.2)) = false := by
    rw [List.any_eq_false]
    intro r hr
    rw [List.all_eq_true] at hb
    have := hb r hr
    simp only [decide_eq_true_eq] at this
    simp only [Bool.and_eq_true, decide_eq_true_eq, not_and]
    intro h; omega
  rw [this, Bool.or_false]

/-- ASCII: the case mappings restricted to ASCII are exactly a–z ↔ A–Z; the Cased ASCII characters
are the letters, the Case_Ignorable ones are `'` `.` `:` `^` and the grave accent. -/
theorem ascii_rows (c : Nat) (hc : c < 128) :
    tableFun upperTable c = [if 97 ≤ c ∧ c ≤ 122 then c - 32 else c] ∧
    tableFun lowerTable c = [if 65 ≤ c ∧ c ≤ 90 then c + 32 else c] ∧
    inRanges casedRanges c = ((65 ≤ c && c ≤ 90) || (97 ≤ c && c ≤ 122)) ∧
    inRanges ignorableRanges c = [0x27, 0x2E, 0x3A, 0x5E, 0x60].contains c := by
  obtain ⟨h0, h1, h2, h3, h4⟩ := ascii_prefix_facts
  rw [List.all_eq_true] at h0
  have := h0 c (by simp [hc])
  simp only [Bool.and_eq_true, beq_iff_eq] at this
  obtain ⟨⟨⟨a1, a2⟩, a3⟩, a4⟩ := this
  rw [tableFun_ascii upperTable c hc h1, tableFun_ascii lowerTable c hc h2,
    inRanges_ascii casedRanges c hc h3, inRanges_ascii ignorableRanges c hc h4]
  exact ⟨a1, a2, a3, a4⟩

/-! ### consequences for strings -/

theorem tableFun_length_one (t : List (Nat × List Nat)) (bad : Nat)
    (h : (t.all fun e => e.2.length == 1 || e.1 == bad) = true) (c : Nat) (hc : c ≠ bad) :
    (tableFun t c).length = 1 := by
  unfold tableFun
  induction t with
  | nil => simp [Strings.lookupNat]
  | cons e es ih =>
    obtain ⟨k, v⟩ := e
    simp only [List.all_cons, Bool.and_eq_true] at h
    simp only [Strings.lookupNat]
    cases hk : Nat.beq k c with
    | true =>
      simp only
      have := h.1
      simp only [Bool.or_eq_true, beq_iff_eq] at this
      rcases this with h1 | h1
      · exact h1
      · have : k = c := Nat.eq_of_beq_eq_true hk
        exact absurd (by rw [← this]; exact h1) hc
    | false =>
      simp only
      exact ih h.2

theorem lowerTable_single : (lowerTable.all fun e => e.2.length == 1 || e.1 == 0x130) = true := by
  have := lower_rows_single_except_0130
  rw [List.all_eq_true] at this ⊢
  intro e he
  have := this e he
  simp only [Bool.or_eq_true, Bool.and_eq_true, beq_iff_eq] at this ⊢
  rcases this with h | h
  · exact Or.inl h
  · exact Or.inr h.1

theorem lowerAux_length (lo : Nat → Str) (cased ign : Nat → Bool) (rb s : Str)
    (h : ∀ c ∈ s, c ≠ 0x3A3 → (lo c).length = 1) :
    (Strings.lowerAux lo cased ign rb s).length = s.length := by
  induction s generalizing rb with
  | nil => rfl
  | cons c cs ih =>
    simp only [Strings.lowerAux, List.length_append, List.length_cons]
    rw [ih (c :: rb) (fun x hx => h x (List.mem_cons_of_mem _ hx))]
    by_cases hc : c = 0x3A3
    · simp [hc]; omega
    · simp only [hc, if_false]
      rw [h c (by simp) hc]; omega

/-- With CPython's tables `lower-case` preserves the length (in code points) of every string that
does not contain U+0130 — and U+0130 is the only exception: it becomes two characters. -/
theorem lower_case_length (s : Str) (h : 0x130 ∉ s) : (lowerCaseG s).length = s.length := by
  unfold lowerCaseG Strings.lowerCase
  apply lowerAux_length
  intro c hc _
  exact tableFun_length_one lowerTable 0x130 lowerTable_single c (fun e => h (e ▸ hc))

theorem lower_case_0130 : lowerCaseG [0x130] = [0x69, 0x307] := by decide +kernel

/-- With CPython's tables, on ASCII strings `upper-case` is a–z → A–Z and `lower-case` is A–Z → a–z
(no context dependence: Σ is not ASCII). -/
theorem case_ascii (s : Str) (h : ∀ c ∈ s, c < 128) :
    upperCaseG s = s.map (fun c => if 97 ≤ c ∧ c ≤ 122 then c - 32 else c) ∧
    lowerCaseG s = s.map (fun c => if 65 ≤ c ∧ c ≤ 90 then c + 32 else c) := by
  have hrow : ∀ c, c < 128 →
      tableFun upperTable c = [if 97 ≤ c ∧ c ≤ 122 then c - 32 else c] ∧
      tableFun lowerTable c = [if 65 ≤ c ∧ c ≤ 90 then c + 32 else c] := by
    intro c hc
    exact ⟨(ascii_rows c hc).1, (ascii_rows c hc).2.1⟩
  constructor
  · unfold upperCaseG Strings.upperCase
    induction s with
    | nil => rfl
    | cons c cs ih =>
      simp only [List.flatMap_cons, List.map_cons]
      rw [(hrow c (h c (by simp))).1, ih (fun x hx => h x (List.mem_cons_of_mem _ hx))]
      rfl
  · unfold lowerCaseG Strings.lowerCase
    have : ∀ rb, Strings.lowerAux (tableFun lowerTable) (inRanges casedRanges) (inRanges ignorableRanges) rb s
        = s.map (fun c => if 65 ≤ c ∧ c ≤ 90 then c + 32 else c) := by
      induction s with
      | nil => intro rb; rfl
      | cons c cs ih =>
        intro rb
        have hc := h c (by simp)
        have hns : c ≠ 0x3A3 := by omega
        simp only [Strings.lowerAux, hns, if_false, List.map_cons]
        rw [(hrow c hc).2, ih (fun x hx => h x (List.mem_cons_of_mem _ hx))]
        rfl
    exact this []


/-! ### the two readings of Final_Sigma over CPython's classes; `lower-case` / `upper-case` for ALL strings -/

/-- no range of the observed Cased class meets a range of the Case_Ignorable class -/
theorem cased_ignorable_ranges_disjoint :
    (casedRanges.all fun r => ignorableRanges.all fun q => r.2 < q.1 || q.2 < r.1) = true := by
  decide +kernel

theorem cased_ignorable_disjoint (c : Nat) :
    ¬ (inRanges casedRanges c = true ∧ inRanges ignorableRanges c = true) := by
  intro ⟨h1, h2⟩
  unfold inRanges at h1 h2
  rw [List.any_eq_true] at h1 h2
  obtain ⟨r, hr, hrc⟩ := h1
  obtain ⟨q, hq, hqc⟩ := h2
  have h := cased_ignorable_ranges_disjoint
  rw [List.all_eq_true] at h
  have h' := h r hr
  rw [List.all_eq_true] at h'
  have h'' := h' q hq
  simp only [Bool.and_eq_true, Bool.or_eq_true, decide_eq_true_eq] at hrc hqc h''
  omega

/-- `lower-case` with CPython's tables, for ALL strings: the code (CPython's `handle_capital_sigma`
loop around the full lower-case mapping) computes the default lower-casing of Unicode §3.13 with the
Final_Sigma condition *read literally* (Table 3-17, existential reading) over the classes "Cased and
not Case_Ignorable" / Case_Ignorable — and the same with the skip reading. -/
theorem lower_case_all_strings (s : Str) :
    lowerCaseG s = FOStrings.lowerCaseLiteral (tableFun lowerTable) (inRanges casedRanges)
        (inRanges ignorableRanges) s ∧
    lowerCaseG s = FOStrings.lowerCase (tableFun lowerTable) (inRanges casedRanges)
        (inRanges ignorableRanges) s :=
  ⟨Strings.lowerCase_eq_literal _ _ _ cased_ignorable_disjoint s, Strings.lowerCase_eq_spec _ _ _ s⟩

/-- The hypothesis "no character is both Cased and Case_Ignorable" of the agreement of the two
readings is necessary: with the full Unicode property Cased (Lowercase ∪ Uppercase ∪ Lt, regenerated
from `str.islower/isupper/category`), U+02B0 MODIFIER LETTER SMALL H is both, and after `1ʰ` a Σ is in
Final_Sigma context by the literal reading but not by the reading of CPython/ICU (which `lower-case`
follows: `lower-case('1ʰΣ')` ends in σ). -/
theorem final_sigma_readings_differ_with_full_cased :
    inRanges casedPropertyRanges 0x2B0 = true ∧ inRanges ignorableRanges 0x2B0 = true ∧
    FOStrings.finalSigmaLiteral (inRanges casedPropertyRanges) (inRanges ignorableRanges) [0x2B0, 0x31] [] = true ∧
    FOStrings.finalSigma (inRanges casedPropertyRanges) (inRanges ignorableRanges) [0x2B0, 0x31] [] = false ∧
    lowerCaseG [0x31, 0x2B0, 0x3A3] = [0x31, 0x2B0, 0x3C3] := by
  decide +kernel

/-- `upper-case` with CPython's tables, for ALL strings: character-wise full mapping (context free),
between one and three characters per character. -/
theorem upper_case_all_strings (s : Str) :
    upperCaseG s = FOStrings.upperCase (tableFun upperTable) s ∧
    s.length ≤ (upperCaseG s).length ∧ (upperCaseG s).length ≤ 3 * s.length := by
  refine ⟨rfl, ?_⟩
  have hrow : ∀ c, 1 ≤ (tableFun upperTable c).length ∧ (tableFun upperTable c).length ≤ 3 := by
    intro c
    unfold tableFun
    have h := upper_rows_len_le_3
    generalize upperTable = t at h
    induction t with
    | nil => simp [Strings.lookupNat]
    | cons e es ih =>
      obtain ⟨k, v⟩ := e
      simp only [List.all_cons, Bool.and_eq_true, decide_eq_true_eq] at h
      simp only [Strings.lookupNat]
      cases Nat.beq k c with
      | true => exact h.1
      | false => exact ih h.2
  unfold upperCaseG Strings.upperCase
  induction s with
  | nil => simp
  | cons c cs ih =>
    simp only [List.flatMap_cons, List.length_append, List.length_cons]
    have := hrow c
    omega

end EPV.C09

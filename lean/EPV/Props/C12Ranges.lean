/-
C12, phase 5: the class scanner *decides* the XSD group grammar on range bodies.

Fragment: bracket expressions `[` `^`? body `]` whose body is a non-empty list of units — a plain
character (not `\ - [ ]`) or a range `a-b` between plain characters, in **any** order of the end
points (`LUnit.Shape`; Phase 4's `LUnit.OK` additionally required `a ≤ b`).  On this fragment the
grammar has a parse iff every range is ordered (XSD 1.1 part 2, G.4.2.3 / production [81]: "it is an
error if s > e"), and the theorem below says that the transcription of `parse_character_class`
(`parseClassM`, down to `iterparse_character_subset`) and the specification's recogniser (`pClass`)
both follow that dichotomy, with the XSD set on the accepted side and `None` (RegexError) on the
rejected side — no other hypothesis (the translator's `--` / `x-y-z` checks are *proved* not to fire).
The decision procedure `rangeClassVerdict` (printed by the driver as `rb=`) is proved to compute the
dichotomy from the text, so the harness compares it with the real code on every run.
-/
import EPV.Lemmas.RegexClassRanges
namespace EPV.C12
open EPV.Regex
open EPV.USet (memL)

/-- **Range bodies: accepted with the XSD set exactly when the grammar has a parse, rejected otherwise.**
For every table set, XSD version, negation flag, non-empty list of units (plain characters and ranges
between plain characters, end points in any order), and every text after the closing `]`:
* if every range is ordered, `parse_character_class` returns a class and the text after `]` (any fuel ≥ 1),
  the grammar `pClass` reads the same text as a class expression leaving the same rest, and the class
  contains `x` iff the XSD set does (`specClass`), which is the union of the units, complemented under `^`;
* if some range is reversed, `parse_character_class` raises and `pClass` has no parse (for every fuel);
* `rangeClassVerdict` on the text says which of the two holds (`ok` / `reversed`) and whether `^` was read. -/
theorem charclass_scan_ranges_decides (Tm : MTables) (T : Tables) (v10 ng : Bool) (us : List LUnit)
    (hne : us ≠ []) (hs : ∀ u ∈ us, u.Shape) (h0 : ng = false → (renderUnits us).head? ≠ some 94)
    (tail : List Ch) :
    let txt := caret ng ++ renderUnits us ++ 93 :: tail
    (us.all LUnit.ordered = true →
      ∃ cc C E, (∀ F, 1 ≤ F → parseClassM Tm v10 F txt = some (cc, tail)) ∧
        (∀ F st, 2 * txt.length + 3 ≤ F → pClass xo F txt st = some (C, tail, st)) ∧
        C.toClassE T = some E ∧
        ∀ x, x < maxCP1 → (cc.contains x = specClass E x ∧
          (cc.contains x = true ↔ if ng then ¬ memL x (us.map LUnit.cp) else memL x (us.map LUnit.cp)))) ∧
    (us.all LUnit.ordered = false →
      (∀ F, parseClassM Tm v10 F txt = none) ∧ (∀ F st, pClass xo F txt st = none)) ∧
    rangeClassVerdict (caret ng ++ renderUnits us ++ [93]) =
      (if us.all LUnit.ordered then RBVerdict.ok else RBVerdict.reversed, ng) := by
  intro txt
  refine ⟨fun hord => ?_, fun hrev => ⟨fun F => ?_, fun F st => ?_⟩, rangeClassVerdict_units ng us hne hs h0⟩
  · -- accepted side: Phase 4's theorems, the hyphen side condition discharged by `units_translatorChecks`
    let uc : UClass := .plain ng [.lit us]
    have hok : uc.OK :=
      ⟨by simp, ⟨hne, units_ok_of us hs hord, trivial, trivial⟩,
        by simpa [usegText, renderSegs, USeg.toSeg, Seg.text] using h0⟩
    have hchk : uc.checks v10 = true := by
      simpa [uc, UClass.checks, usegText, renderSegs, USeg.toSeg, Seg.text] using units_translatorChecks v10 us hs
    have hre : uc.toG.render ++ tail = txt := by
      simp [uc, txt, UClass.toG, GClass.render, renderSegs, USeg.toSeg, Seg.text]
    have hlen : uc.toG.render.length ≤ txt.length := by rw [← hre]; simp
    let segs : List Seg := [.lit (renderUnits us) (us.map LUnit.cp)]
    have hwf : GroupWF v10 ng segs := uclass_wf v10 uc hok hchk
    obtain ⟨cc, _, hden, hparse, _⟩ := parse_group Tm v10 ng segs hwf
    have hre' : caret ng ++ renderSegs segs ++ 93 :: tail = txt := by simp [segs, txt, renderSegs, Seg.text]
    refine ⟨cc, uc.toC, uc.toE, fun F hF => ?_, fun F st hF => ?_, toClassE_uclass T uc, fun x hx => ?_⟩
    · obtain ⟨f, rfl⟩ : ∃ f, F = f + 1 := ⟨F - 1, by omega⟩
      have := hparse f tail
      rwa [hre'] at this
    · obtain ⟨f, rfl⟩ : ∃ f, F = f + 1 := ⟨F - 1, by omega⟩
      have := pClass_uclass uc hok f tail st (by omega)
      rwa [hre] at this
    · have h1 := hden x hx
      have h2 := uclass_den uc x
      have hsd : SegsDen segs x ↔ memL x (us.map LUnit.cp) := by simp [segs, SegsDen]
      have hD : uc.toG.Den x ↔ (if ng then ¬ SegsDen segs x else SegsDen segs x) := Iff.rfl
      refine ⟨?_, ?_⟩
      · rw [hD, ← h1] at h2
        cases hc : cc.contains x <;> cases hsp : specClass uc.toE x <;> simp_all
      · rw [h1]; cases ng <;> simp [hsd]
  · exact parseClassM_units_rev Tm v10 ng us hs hrev h0 tail F
  · exact pClass_units_rev ng us hs hrev h0 (93 :: tail) st F

/-- the same dichotomy for the whole-pattern entry point the driver runs (`parseClassText`: forbidden-escape
pre-check, `[`, the class, nothing after `]`), for both flavours -/
theorem charclass_text_ranges_decides (Tm : MTables) (v10 xp ng : Bool) (us : List LUnit)
    (hne : us ≠ []) (hs : ∀ u ∈ us, u.Shape) (h0 : ng = false → (renderUnits us).head? ≠ some 94) :
    (us.all LUnit.ordered = true →
      ∃ cc, parseClassText Tm v10 xp (91 :: (caret ng ++ renderUnits us ++ [93])) = some cc ∧
        ∀ x, x < maxCP1 →
          (cc.contains x = true ↔ if ng then ¬ memL x (us.map LUnit.cp) else memL x (us.map LUnit.cp))) ∧
    (us.all LUnit.ordered = false →
      parseClassText Tm v10 xp (91 :: (caret ng ++ renderUnits us ++ [93])) = none) := by
  have h92 : ∀ c ∈ 91 :: (caret ng ++ renderUnits us ++ [93]), c ≠ 92 := by
    intro c hc
    simp only [List.mem_cons, List.mem_append, List.not_mem_nil, or_false] at hc
    rcases hc with rfl | (hc | hc) | rfl
    · decide
    · cases ng <;> simp [caret] at hc
      subst hc; decide
    · exact (units_nobr us hs c hc).1
    · decide
  have hfe := forbidden_none xp _ h92 none
  obtain ⟨hacc, hrej, _⟩ := charclass_scan_ranges_decides Tm ⟨fun _ => none⟩ v10 ng us hne hs h0 []
  generalize caret ng ++ renderUnits us ++ [93] = rest at *
  refine ⟨fun hord => ?_, fun hrev => ?_⟩
  · obtain ⟨cc, _, _, hp, _, _, hx⟩ := hacc hord
    refine ⟨cc, ?_, fun x hx' => (hx x hx').2⟩
    have := hp (rest.length + 1) (by omega)
    simp only [parseClassText, hfe, Bool.false_eq_true, if_false, this]
  · have := (hrej hrev).1 (rest.length + 1)
    simp only [parseClassText, hfe, Bool.false_eq_true, if_false, this]

/-! tests on literals (non-vacuity of the hypotheses, both sides of the dichotomy) -/

/-- `a-z_0-9` and `^a-z_0-9`: shapes hold, every range ordered, the text is the expected one -/
example : (∀ u ∈ [LUnit.rng 97 122, .chr 95, .rng 48 57], u.Shape) ∧
    ([LUnit.rng 97 122, .chr 95, .rng 48 57].all LUnit.ordered = true) ∧
    caret true ++ renderUnits [.rng 97 122, .chr 95, .rng 48 57] ++ [93] = [94, 97, 45, 122, 95, 48, 45, 57, 93] ∧
    (false = false → (renderUnits [.rng 97 122, .chr 95, .rng 48 57]).head? ≠ some 94) := by
  refine ⟨?_, by decide, by decide, by decide⟩
  intro u hu
  simp only [List.mem_cons, List.not_mem_nil, or_false] at hu
  rcases hu with rfl | rfl | rfl <;> simp [LUnit.Shape, Plain]

/-- `xz-a`: shapes hold, one range reversed; scanner model, recogniser and verdict on this text (kernel) -/
example : (∀ u ∈ [LUnit.chr 120, .rng 122 97], u.Shape) ∧ ([LUnit.chr 120, .rng 122 97].all LUnit.ordered = false) := by
  refine ⟨?_, by decide⟩
  intro u hu
  simp only [List.mem_cons, List.not_mem_nil, or_false] at hu
  rcases hu with rfl | rfl <;> simp [LUnit.Shape, Plain]
example : rangeClassVerdict [120, 122, 45, 97, 93] = (.reversed, false) ∧
    (pClass xo 40 [120, 122, 45, 97, 93] {}).isNone = true := by decide

end EPV.C12

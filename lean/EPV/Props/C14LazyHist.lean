/-
C14, phase 5 (second item): HISTORIES of walks on one lazily built tree.

`reachMany (lazyRoot src) ws` = the `LazyElementNode` tree after the walks `ws` (any number, any order, each
`for c in node:` down some child indices, every `__iter__` building a level at most once, in place).
Theorems: every ElementTree object `src`, every history `ws`, every node that exists in the tree as it then
stands (`Valid (view t) r`); axioms propext / Quot.sound at most.
-/
import EPV.Props.C14Lazy
import EPV.Lemmas.LazyHist
import EPV.Lemmas.LazyHistMono
namespace EPV.C14
open EPV.NodePath

/-- INVARIANT, by induction over the history: after any sequence of walks every `children` list is either
still empty or the complete list the eager builder makes (each child completed), recursively; and the
tree still wraps the same ElementTree object. -/
theorem lazy_hist_invariant (src : ETree) (ws : List (List Nat)) :
    Good (reachMany (lazyRoot src) ws) ∧ fin (reachMany (lazyRoot src) ws) = eager src :=
  ⟨good_reachMany ws _ (by simp [lazyRoot, Good]), by rw [fin_reachMany]; rfl⟩

/-- HEADLINE (histories).  After any history of walks, the `path` of every node of the tree as it stands
(element, text, comment, PI, attribute, namespace) is its `path` in the eagerly built tree. -/
theorem lazy_hist_path_eq_eager (src : ETree) (ws : List (List Nat)) (r : Ref)
    (hv : Valid (view (reachMany (lazyRoot src) ws)) r) :
    pathOf (view (reachMany (lazyRoot src) ws)) r = pathOf (eager src) r := by
  have h := lazy_hist_invariant src ws
  rw [good_pathOf _ r h.1 hv, h.2]

/-- The tree as it stands is a prefix of the eagerly built tree: each of its nodes is a node there. -/
theorem lazy_hist_nodes_in_eager (src : ETree) (ws : List (List Nat)) (r : Ref)
    (hv : Valid (view (reachMany (lazyRoot src) ws)) r) : Valid (eager src) r := by
  rw [← path_defined_iff_valid, ← lazy_hist_path_eq_eager src ws r hv, path_defined_iff_valid]
  exact hv

/-- Building never removes or moves a node: what exists after the history `ws` exists, at the same place,
after any continuation `ws ++ more`. -/
theorem lazy_hist_nodes_persist (src : ETree) (ws more : List (List Nat)) (r : Ref)
    (hv : Valid (view (reachMany (lazyRoot src) ws)) r) :
    Valid (view (reachMany (lazyRoot src) (ws ++ more))) r := by
  rw [reachMany_append]; exact valid_reachMany_mono more _ r hv

/-- Paths do not change when more of the tree is built: a node's path after the history `ws` is its path
after any continuation `ws ++ more`. -/
theorem lazy_hist_path_stable (src : ETree) (ws more : List (List Nat)) (r : Ref)
    (hv : Valid (view (reachMany (lazyRoot src) ws)) r) :
    pathOf (view (reachMany (lazyRoot src) (ws ++ more))) r = pathOf (view (reachMany (lazyRoot src) ws)) r := by
  rw [lazy_hist_path_eq_eager src ws r hv,
    lazy_hist_path_eq_eager src (ws ++ more) r (lazy_hist_nodes_persist src ws more r hv)]

/-- After any history, the path of every element / text / comment / PI node of the tree as it stands selects
exactly that node — in the tree as it stands, and in the completely built tree (what the evaluator, which
builds what it visits, ends up with). -/
theorem lazy_hist_path_selects_self (src : ETree) (ws : List (List Nat)) (is : List Nat) (steps : List Step)
    (hp : pathOf (view (reachMany (lazyRoot src) ws)) ⟨is, .self⟩ = some steps) :
    evalSteps (view (reachMany (lazyRoot src) ws)) steps = [⟨is, .self⟩] ∧
    evalSteps (eager src) steps = [⟨is, .self⟩] := by
  refine ⟨path_selects_self_node _ is steps hp, path_selects_self_node _ is steps ?_⟩
  rw [← lazy_hist_path_eq_eager src ws ⟨is, .self⟩]
  · exact hp
  · rw [← path_defined_iff_valid, hp]; rfl

/-- the same for every node kind (attribute and namespace nodes need `wf`, as in the headline of C14) -/
theorem lazy_hist_path_selects_self_all (src : ETree) (ws : List (List Nat)) (r : Ref) (steps : List Step)
    (hw : (eager src).wf = true)
    (hp : pathOf (view (reachMany (lazyRoot src) ws)) r = some steps) : evalSteps (eager src) steps = [r] := by
  apply path_selects_self (eager src) r steps hw
  rw [← lazy_hist_path_eq_eager src ws r]
  · exact hp
  · rw [← path_defined_iff_valid, hp]; rfl

/-- distinct nodes of the tree as it stands have distinct paths -/
theorem lazy_hist_path_injective (src : ETree) (ws : List (List Nat)) (r₁ r₂ : Ref) (steps : List Step)
    (hw : (eager src).wf = true)
    (h₁ : pathOf (view (reachMany (lazyRoot src) ws)) r₁ = some steps)
    (h₂ : pathOf (view (reachMany (lazyRoot src) ws)) r₂ = some steps) : r₁ = r₂ := by
  have e₁ := lazy_hist_path_selects_self_all src ws r₁ steps hw h₁
  have e₂ := lazy_hist_path_selects_self_all src ws r₂ steps hw h₂
  rw [e₁] at e₂
  exact List.singleton_inj.mp e₂

/-- the hypotheses are satisfiable on a non-trivial history: `<r>t<a k=""><!--c--></a>u<?x?>v<a>w</a></r>`, three
walks (into the second `a`, a stop at the root, into the first `a`): 9 nodes built, the PI's children never
asked for; paths with positions 2 and 3, an attribute selector (test) -/
example :
    let src := ETree.elem ⟨"", "r"⟩ [] [] true false
      [.elem ⟨"", "a"⟩ [] [(⟨"", "k"⟩, "")] false true [.comment false], .pi "x" true, .elem ⟨"", "a"⟩ [] [] true false []]
    let t := reachMany (lazyRoot src) [[5, 0], [9], [1, 0, 3]]
    (eager src).wf = true ∧
    iterLazy (reachMany (lazyRoot src) [[5, 0]]) [] = [[], [0], [1], [2], [3], [4], [5], [5, 0]] ∧
    iterLazy t [] = [[], [0], [1], [1, 0], [2], [3], [4], [5], [5, 0]] ∧
    pathOf (view t) ⟨[5, 0], .self⟩ = some [.child ⟨"", "a"⟩ 2, .text 1] ∧
    pathOf (view t) ⟨[4], .self⟩ = some [.text 3] ∧
    pathOf (view t) ⟨[1], .attr 0⟩ = some [.child ⟨"", "a"⟩ 1, .attr ⟨"", "k"⟩] := by decide

end EPV.C14

/-
C10 — xs:time and the year-free gregorian types (xs:gDay, xs:gMonth, xs:gMonthDay): the implementation's
`[0-9]{2}` fields with the range checks of `datetime.datetime` and the end-of-day rule accept exactly the
literals of the XSD character-class productions (XSD 1.1 Part 2 §3.3.8, §3.3.12–14), with the same field values
and the same timezone.  Model: `Lex.parseTime`, `Lex.parseGDay`, `Lex.parseGMonth`, `Lex.parseGMonthDay`,
`Lex.gCtor`; spec: `XSD.timeLex`, `XSD.gDayLex`, `XSD.gMonthLex`, `XSD.gMonthDayLex`.
-/
import EPV.Lemmas.LexicalGreg
namespace EPV.C10
open EPV EPV.LexLemmas

/-- **ctor_iff_lexical (xs:time, xs:gDay, xs:gMonth, xs:gMonthDay)** — for every string: the pattern match, the
`int()` of the fields and the range checks of `datetime.datetime(2000, month, day, hour, minute, second, µs)`
(with the end-of-day form `24:00:00(.0+)?`) succeed exactly on the literals of the XSD productions
(dayFrag `0[1-9]|[12][0-9]|3[01]`, monthFrag, hourFrag, minuteFrag, secondFrag, the day-of-month constraint of
gMonthDay, the timezone looked up in the enumerated lexical space), and produce the XSD field values; the
fraction of the seconds is cut to microseconds (`toDT`). -/
theorem greg_parse_eq_spec (k : Lex.GKind) (s : List Char) :
    Lex.gParse k s = (specOf k s).map toDT := gParse_eq k s

/-- the constructor trims XML white space first (fix-c10-2) -/
theorem greg_ctor_iff_lexical (k : Lex.GKind) (s : List Char) :
    Lex.gCtor k s = (specOf k (Lex.pyStrip s)).map toDT := gParse_eq k (Lex.pyStrip s)

/-- acceptance only -/
theorem greg_ctor_accepts_iff (k : Lex.GKind) (s : List Char) :
    (Lex.gCtor k s).isSome = (specOf k (Lex.pyStrip s)).isSome := by
  rw [greg_ctor_iff_lexical]; cases specOf k (Lex.pyStrip s) <;> rfl

/-- tests on literals: end of day, fraction, day-of-month, timezones incl. the sign of −00:30 -/
example :
    (Lex.gCtor .time "24:00:00.000-00:30".toList).map (·.tz) = some (some (-30)) ∧
    Lex.gCtor .time "24:00:00.0000001".toList = none ∧ Lex.gCtor .time "24:00:01".toList = none ∧
    Lex.gCtor .time "23:59:60".toList = none ∧ Lex.gCtor .time "12:00:00.".toList = none ∧
    (Lex.gCtor .time " 23:59:59.1234567Z\n".toList).map (·.micro) = some 123456 ∧
    Lex.gCtor .gMonthDay "--02-30".toList = none ∧ (Lex.gCtor .gMonthDay "--02-29+14:00".toList).isSome = true ∧
    Lex.gCtor .gMonthDay "--04-31".toList = none ∧ Lex.gCtor .gDay "---00".toList = none ∧
    Lex.gCtor .gDay "---32".toList = none ∧ Lex.gCtor .gMonth "--13".toList = none ∧
    Lex.gCtor .gMonth "--12+14:01".toList = none := by decide +kernel

end EPV.C10

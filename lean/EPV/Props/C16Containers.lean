/-
C16, phase 5 — arrays and maps as containers of function items.  Property theorems only; the
lemmas are in `EPV/Lemmas/ContainersSim.lean`.

Reading guide
* `CProg`                    `let … return let $c := [m…] | map{k: m…} return let … return (use, …)`
                             (`EPV/Spec/ContainerSem.lean`); uses: `$c?k`, `$c?k(args)` / `$c(k)(args)`
                             (also with `?` placeholders), `for $f in $c?k return $f(args)`,
                             `array:for-each($c, f)?*` / `map:for-each($c, f)`
* `specContEval fuel p`      the specification: members are values, `array:get` / `map:get`, then the
                             dynamic function call of the closure specification
* `implContEval cfg fuel p`  the model of the code (`EPV/Model/Containers.lean`) on the tree `cfg`
-/
import EPV.Lemmas.ContainersSim
import EPV.Props.C16
namespace EPV.C16
open EPV.Clo

/-- PARTIAL (flags = the triggers of F16 `stale`, F05/F05c `scope`, and `arity`; all repaired in `/repo`): on
**every** tree configuration, for every container program and fuel, a run of the model that raises no
trigger flag returns what the specification returns.  The full statement is false when `cfg.share`
(`container_stale_counterexample`). -/
theorem container_model_eq_spec_partial (cfg : Cfg) (fuel : Nat) (p : CProg)
    (h : (implContEval cfg fuel p).flags = Flags.none) :
    (implContEval cfg fuel p).result = specContEval fuel p := by
  have hs := runCont_sim cfg (eval cfg fuel) (sem fuel) (eval_sim cfg fuel) p
    { item := some (.int 1), lex := [] } [] { heap := [], slots := [] } h
  simp only [eraseCtx, eraseHeap, List.map_nil, eraseFocus, Option.isSome_some, if_true] at hs
  show Except.map (fun x => x.1.1)
    (runCont cfg (eval cfg fuel) p { item := some (.int 1), lex := [] } []
      { heap := [], slots := [] }).2 = _
  unfold specContEval
  rw [hs]
  generalize (runCont cfg (eval cfg fuel) p _ [] _).2 = r
  cases r <;> rfl

/-- on the reference tree no container program raises a trigger flag -/
theorem container_no_flags_on_reference_tree (fuel : Nat) (p : CProg) :
    (implContEval Cfg.fixed fuel p).flags = Flags.none := by
  have h₀ : (implContEval Cfg.fixed fuel p).flags.stale = false :=
    ns_runCont Cfg.fixed rfl (eval Cfg.fixed fuel) (ns_eval Cfg.fixed rfl fuel) p _ _ _
  have hg := g_runCont Cfg.fixed rfl rfl rfl (eval Cfg.fixed fuel) (g_eval Cfg.fixed rfl rfl rfl fuel) p
    { item := some (.int 1), lex := [] } [] (fun _ => rfl)
    { heap := [], slots := [] } (fun o ho => by simp at ho)
  have h₁ : (implContEval Cfg.fixed fuel p).flags.scope = false := hg.1
  have h₂ : (implContEval Cfg.fixed fuel p).flags.arity = false := hg.2.1
  generalize (implContEval Cfg.fixed fuel p).flags = fl at *
  cases fl
  simp only at h₀ h₁ h₂
  simp [Flags.none, h₀, h₁, h₂]

/-- `container_closure_eq_spec` — FULL STRENGTH: on the reference tree (F16x repaired) the model of the code
**equals** the specification for **every** container program — member uses `$c?k`, `$c(k)`, `$c?k(args)`,
`$c(k)(args)` also with `?` placeholders, `for $f in $c?k return $f(args)`, and `array:for-each($c, F)?*` /
`map:for-each($c, F)` over any (also empty) container — and every fuel, unconditionally: a function item
stored in a square array or a map and fetched with `?k` or `$c(k)` or handed to `$action` by for-each is the
closure that was created when the constructor was evaluated — calling it evaluates its body in the bindings
captured at creation, whatever bindings of the same names were made between the creation of the container
and the call; lookups outside the array raise FOAY0001, absent map keys give `()`, a duplicate key raises
XQDY0137, `$action` must be one function item of arity 1 (array) / 2 (map), XPTY0004 otherwise. -/
theorem container_closure_eq_spec (fuel : Nat) (p : CProg) :
    (implContEval Cfg.fixed fuel p).result = specContEval fuel p :=
  container_model_eq_spec_partial Cfg.fixed fuel p (container_no_flags_on_reference_tree fuel p)

/-- the former witnesses of F16x (repaired): `let $c := [] return array:for-each($c, function($a, $b){$a})?*`
and `let $c := map{} return map:for-each($c, function($a){$a})` -/
def foreachEmptyWitness (isMap : Bool) : CProg :=
  ⟨[], isMap, [], [], [.forEach (if isMap then .fnE 0 [0] (.var 0) else .fnE 0 [0, 1] (.var 0))]⟩

/-- the arity of `$action` is checked although there is no member to call it with: model of the repaired
code and specification both raise XPTY0004, no flag (kernel-checked; before the repair the code returned `()`) -/
theorem foreach_empty_arity_checked :
    (implContEval Cfg.fixed 5 (foreachEmptyWitness false)).result = .error .XPTY0004
    ∧ specContEval 5 (foreachEmptyWitness false) = .error .XPTY0004
    ∧ (implContEval Cfg.fixed 5 (foreachEmptyWitness true)).result = .error .XPTY0004
    ∧ specContEval 5 (foreachEmptyWitness true) = .error .XPTY0004
    ∧ (implContEval Cfg.fixed 5 (foreachEmptyWitness true)).flags = Flags.none := by
  decide

/-- test: for-each over stored closures — `let $x := 3 return let $c := [function($y){$y + $x},
function($y){$y * $x}] return let $x := 100 return array:for-each($c, function($f){$f($x)})?*` = `(103, 300)`
(the members keep `$x = 3`, the action sees `$x = 100`); as a map with `$f($x + $k)`-style action `(k, v)`. -/
def foreachWitness (isMap : Bool) (action : Expr) : CProg :=
  { pre := [(0, .lit 3)], isMap := isMap,
    entries := [(1, .fnE 0 [1] (.add (.var 1) (.var 0))), (2, .fnE 1 [1] (.mul (.var 1) (.var 0)))],
    post := [(0, .lit 100)],
    uses := [.forEach action] }

example :
    specContEval 9 (foreachWitness false (.fnE 2 [2] (.call (.var 2) [some (.var 0)])))
      = .ok (.ok [.int 103, .int 300])
    ∧ (implContEval Cfg.fixed 9
        (foreachWitness true (.fnE 2 [3, 2] (.call (.var 2) [some (.add (.var 0) (.var 3))])))).result
      = .ok (.ok [.int 104, .int 306]) := by
  decide +kernel

/-- a stored closure IS the closure (specification side, any heap): `$c?k(args)` on a member that is
the single function item `a` is the dynamic call `a(args)` of the closure specification, and `$c?k`
gives back the member unchanged. -/
theorem stored_closure_is_closure (sev : Expr → SCtx → SM Seq) (c : SCtx) (a : Nat) (k : Int)
    (args : List Expr) :
    specUse sev c [.fn a] (.call k (args.map some)) =
      (specList sev c args >>= fun vals => specCall sev a vals) ∧
    specUse sev c [.fn a] (.get k) = pure [.fn a] := by
  constructor
  · have h1 : (args.map some).any Option.isNone = false := by
      induction args with
      | nil => rfl
      | cons x xs ih => simp [ih]
    have h2 : (args.map some).filterMap id = args := by
      induction args with
      | nil => rfl
      | cons x xs ih => simp [ih]
    simp only [specUse, SM.single, h1, h2, Bool.false_eq_true, if_false]
    exact SM.pure_bind _ _
  · rfl

/-! ### kernel-checked tests (literals; these are tests, not the property) -/

/-- `let $x := 1 return let $c := [function(){$x}, function($y){$y + $x}] return let $x := 2 return
($c(1)(), $c?2(10), $c?2)` -/
def containerWitness (isMap : Bool) : CProg :=
  { pre := [(0, .lit 1)], isMap := isMap,
    entries := [(1, .fnE 0 [] (.var 0)), (2, .fnE 1 [1] (.add (.var 1) (.var 0)))],
    post := [(0, .lit 2)],
    uses := [.use (.call 1 []), .use (.call 2 [some (.lit 10)]), .use (.get 2)] }

/-- test: the captured `$x = 1` is used, not the later `$x = 2` — array and map, model and spec -/
example : (implContEval Cfg.fixed 8 (containerWitness false)).result = .ok (.ok [.int 1, .int 11, .fn 1])
    ∧ specContEval 8 (containerWitness false) = .ok (.ok [.int 1, .int 11, .fn 1])
    ∧ (implContEval Cfg.fixed 8 (containerWitness true)).result = .ok (.ok [.int 1, .int 11, .fn 1]) := by
  decide

/-- `let $c := (for-less) [function(){$i}]`-style sharing: with the closure kept on the syntax token
(F16 present, `cfg.share`) two evaluations of one function expression stored in one array see the
bindings of the last evaluation: `let $c := [for $i in (1,2) return function(){$i}] return
for $f in $c?1 return $f()` → model `(2,2)`, spec `(1,2)`, `stale` raised; on the reference tree `(1,2)`. -/
def containerStaleWitness : CProg :=
  { pre := [], isMap := false,
    entries := [(1, .forE 0 (.par (.cat (.lit 1) (.lit 2))) (.fnE 0 [] (.var 0)))],
    post := [], uses := [.use (.each 5 1 [])] }

theorem container_stale_counterexample :
    (implContEval Cfg.pinned 8 containerStaleWitness).result = .ok (.ok [.int 2, .int 2])
    ∧ (implContEval Cfg.pinned 8 containerStaleWitness).flags.stale = true
    ∧ specContEval 8 containerStaleWitness = .ok (.ok [.int 1, .int 2])
    ∧ (implContEval Cfg.fixed 8 containerStaleWitness).result = .ok (.ok [.int 1, .int 2]) := by
  decide

/-- test programs for the lookup errors -/
def lookupTest (isMap : Bool) (entries : List (Int × Expr)) (uses : List CUse) : CProg :=
  { pre := [], isMap := isMap, entries := entries, post := [], uses := uses.map .use }

/-- tests of the lookup errors: `[f](2)` → FOAY0001, `[f](0)` → FOAY0001, `map{1: f}(3)()` → XPTY0004
(the absent key gives `()`, which is not a function), `map{1: f, 1: g}` → XQDY0137 -/
example :
    specContEval 5 (lookupTest false [(1, .named .abs)] [.get 2]) = .ok (.error .FOAY0001)
    ∧ specContEval 5 (lookupTest false [(1, .named .abs)] [.get 0]) = .ok (.error .FOAY0001)
    ∧ specContEval 5 (lookupTest true [(1, .named .abs)] [.call 3 []]) = .error .XPTY0004
    ∧ specContEval 5 (lookupTest true [(1, .named .abs), (1, .named .count)] []) = .ok (.error .XQDY0137) := by
  decide

end EPV.C16

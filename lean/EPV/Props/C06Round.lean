/-
C06 (phase 5) — fn:round / fn:round-half-to-even are EXACT for every ordinary operand, and why.

The rounding functions quantize in a local decimal context of `roundCtxDigits` = 2000 digits and fall back to
integer / float rounding only when `quantize` raises (finding F06p).  `EPV.Props.C06` states the equality
with F&O under the hypothesis `trigF06p … = false` (a predicate on the *rounded* coefficient).  Here that
hypothesis is discharged from the operand alone: for an xs:integer with ANY precision ≤ 0 (all negative
precisions) and for an xs:decimal n·10^-s with any precision p ≤ s, the rounded coefficient is never longer
than the operand's own coefficient — so whenever the operand has at most 2000 digits (in particular on the
28/29-digit boundary of Python's default context) the result is the F&O value, with no exception left.
This is what a change that moves `quantize` back under the 28-digit default context breaks
(`round_29_digit_operands` lists kernel-checked operands).
-/
import EPV.Props.C06
import EPV.Lemmas.ArithRoundBound
namespace EPV.C06
open EPV.Arith EPV.FOArith
set_option exponentiation.threshold 2100

/-- `numDigits c ≤ k` says what it should: `c < 10^k` (k ≥ 1) — so the trigger of F06p, `numDigits c > 2000`,
is exactly "the rounded coefficient is at least 10^2000". -/
theorem numDigits_le_iff (c k : Nat) (hk : 1 ≤ k) : numDigits c ≤ k ↔ c < 10 ^ k :=
  ⟨lt_pow_of_numDigits_le c k, numDigits_le_of_lt_pow c k hk⟩

/-- the coefficient that `quantize` produces (any rounding mode, any precision, any exact operand) is at
most one half above the scaled magnitude: if |x|·10^p ≤ B for a natural number B, the coefficient is ≤ B. -/
theorem quantize_coefficient_bound (m : Mode) (x : Rat) (p : Int) (B : Nat)
    (h : (if x < 0 then -x else x) * pow10 p ≤ (B : Rat)) : quantMag m x p ≤ B :=
  quantMag_le_of_bound m x p B h

/-- test (literals): the hypothesis is satisfiable with a tie that rounds up to the bound: |−2.5|·10^0 ≤ 3 -/
example : quantMag .halfUp (-5 / 2) 0 ≤ 3 := quantize_coefficient_bound .halfUp (-5 / 2) 0 3 (by decide +kernel)

/-- rounding n·10^-s to p ≤ s fractional digits never needs more digits than the operand has -/
theorem rounded_coefficient_le_operand (m : Mode) (n : Int) (s : Nat) (p : Int) (hp : p ≤ (s : Int)) :
    quantMag m (decVal n s) p ≤ n.natAbs := quantMag_decVal_le m n s p hp

example : quantMag .halfEven (decVal 12345 2) 1 ≤ 12345 := rounded_coefficient_le_operand _ _ _ _ (by decide)

/-- inside `roundSafe` (input-only, decidable; driver flag `safe`) the finding F06p cannot occur -/
theorem roundSafe_excludes_F06p (a : Num) (p : Int) (h : roundSafe a p = true) :
    trigF06p (.round p) a = false ∧ trigF06p (.rhe p) a = false := roundSafe_not_F06p a p h

/-- fn:round and fn:round-half-to-even on an xs:integer with zero or NEGATIVE precision: the F&O value for
every integer below 10^2000 in magnitude — no trigger hypothesis. -/
theorem round_integer_nonpos_precision (R : Rounding) (n : Int) (p : Int)
    (hp : p ≤ 0) (hn : n.natAbs < 10 ^ 2000) :
    absNum (fnRound R (.int n) p) = specUn R (.round p) (.integer n) ∧
    absNum (fnRhe R (.int n) p) = specUn R (.rhe p) (.integer n) := by
  have hs : roundSafe (.int n) p = true := by
    simp only [roundSafe, Bool.and_eq_true, decide_eq_true_eq]; exact ⟨hp, hn⟩
  exact ⟨round_integer_partial R n p (roundSafe_not_F06p _ p hs).1, round_half_even_integer R n p⟩

/-- test: the hypotheses hold for round(25, -1); the theorem gives the F&O value 30 -/
example : absNum (fnRound ieee (.int 25) (-1)) = specUn ieee (.round (-1)) (.integer 25) :=
  (round_integer_nonpos_precision ieee 25 (-1) (by decide) (by decide +kernel)).1

/-- fn:round and fn:round-half-to-even on an xs:decimal n·10^-s with precision p ≤ s (no more fractional
digits asked than the operand has; every negative precision): the F&O value for every coefficient below
10^2000 in magnitude — no trigger hypothesis, nothing special at 28/29 digits. -/
theorem round_decimal_le_scale (R : Rounding) (n : Int) (s : Nat) (p : Int)
    (hp : p ≤ (s : Int)) (hn : n.natAbs < 10 ^ 2000) :
    absNum (fnRound R (.dec n s) p) = specUn R (.round p) (.decimal (decVal n s)) ∧
    absNum (fnRhe R (.dec n s) p) = specUn R (.rhe p) (.decimal (decVal n s)) := by
  have hs : roundSafe (.dec n s) p = true := by
    simp only [roundSafe, Bool.and_eq_true, decide_eq_true_eq]; exact ⟨hp, hn⟩
  have h := roundSafe_not_F06p _ p hs
  exact ⟨round_decimal_partial R n s p h.1, round_half_even_decimal_partial R n s p h.2⟩

/-- test: the hypotheses hold for a 30-digit coefficient, round(12345678901234567890123456788.5, 0) -/
example : absNum (fnRound ieee (.dec 123456789012345678901234567885 1) 0) =
    specUn ieee (.round 0) (.decimal (decVal 123456789012345678901234567885 1)) :=
  (round_decimal_le_scale ieee 123456789012345678901234567885 1 0 (by decide) (by decide +kernel)).1

/-- the bound of `roundSafe` is tight in the precision: one more fractional digit than the operand has, on a
2000-digit coefficient, does leave the local context (kernel-checked): round(xs:decimal(10^1999), 1). -/
theorem roundSafe_precision_tight :
    roundSafe (.dec (10 ^ 1999) 0) 0 = true ∧ roundSafe (.dec (10 ^ 1999) 0) 1 = false ∧
    trigF06p (.round 1) (.dec (10 ^ 1999) 0) = true := by
  refine ⟨by decide +kernel, by decide +kernel, by decide +kernel⟩

/-- tests (literals, kernel-checked) on the 28/29-digit boundary of Python's default context, the operands a
28-digit `quantize` gets wrong: 29-digit integer parts keep every digit; negative precision on 29/30 digits -/
theorem round_29_digit_operands :
    fnRound ieee (.dec 123456789012345678901234567885 1) 0 = .dec 12345678901234567890123456789 0 ∧
    fnRound ieee (.dec (-123456789012345678901234567885) 1) 0 = .dec (-12345678901234567890123456788) 0 ∧
    fnRhe ieee (.dec 123456789012345678901234567885 1) 0 = .dec 12345678901234567890123456788 0 ∧
    fnRound ieee (.int 123456789012345678901234567850) (-2) = .int 123456789012345678901234567900 ∧
    fnRound ieee (.int (-123456789012345678901234567850)) (-2) = .int (-123456789012345678901234567800) ∧
    fnRhe ieee (.int 123456789012345678901234567850) (-2) = .int 123456789012345678901234567800 ∧
    fnRound ieee (.dec 99999999999999999999999999995 1) (-1) = .dec 10000000000000000000000000000 0 := by
  refine ⟨by decide +kernel, by decide +kernel, by decide +kernel, by decide +kernel, by decide +kernel,
    by decide +kernel, by decide +kernel⟩

end EPV.C06

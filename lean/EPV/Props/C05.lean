/-
C05 — evaluation is pure and repeatable; variable bindings are lexically scoped.
Only the property theorems; helper lemmas are in EPV/Lemmas/Scope*.lean.

Reading guide
* `eval c n e ρ h`   : the model of the Python evaluator (EPV/Model/Scope.lean).  `ρ` is the
                       `context.variables` dict of the caller, `h` the caller's xs:dateTime
                       objects, `c.tz` the implicit timezone, `n` a bound on the nesting depth.
                       The answer carries the dict and the objects *as they are afterwards*.
* `c.q = Quirks.lexical` : the REFERENCE tree /repo: all four repairs are in (F05 `callCopies`, F05b
                       `operandCopied`, F05c `calleeLexical`; `adjustCopied` holds on every real tree);
  `Quirks.fixed`        : the tree without the F05c repair (callee also sees the caller's variables);
  `Quirks.pinned`       : the pinned tree 05acc20.
  Every theorem names the repairs it needs as hypotheses on the flags and each hypothesis is shown
  necessary by a `decide`d witness about the flag switched off; the harness probes the live code for
  `calleeLexical` and ties the matching model.
* a failure of the model is `.error (err, ρ', h')`: the exception together with the caller's dict
                       and objects as the partial evaluation left them.
* `sem tz h n e ρ`   : the lexical, side-effect free semantics of XPath 3.1 (EPV/Spec/LexicalSem.lean).
* `runHistory q n e steps h` : one parsed expression evaluated once per step (own variables, own
                       implicit timezone), the caller's objects persisting from step to step.
-/
import EPV.Lemmas.ScopeMain
import EPV.Lemmas.ScopeFuel
import EPV.Lemmas.ScopeStatic
namespace EPV.C05
open EPV.Scope

/-- No construct leaks a binding or overwrites an outer variable: after ANY successful
evaluation the caller's variables dict is exactly the dict that was passed in (all expressions,
all dicts, all depths).  Needs only the F05 repair (`callCopies`). -/
theorem eval_env_unchanged (c : Cfg) (hq : c.q.callCopies = true) (n : Nat) (e : Expr) (ρ : Env) (h : Heap)
    (v : Val) (ρ' : Env) (h' : Heap) (he : eval c n e ρ h = .ok (v, ρ', h')) : ρ' = ρ :=
  (eval_frame c n e ρ h v ρ' h' he).1 hq

/-- The caller's xs:dateTime objects are not modified (`tzinfo` included) — neither by arithmetic
with the implicit timezone (`get_operands`, needs the F05b repair `operandCopied`) nor by
`fn:adjust-dateTime-to-timezone` (`adjust_datetime` works on `copy(item)`: `adjustCopied`). -/
theorem eval_heap_unchanged (c : Cfg) (hq : c.q.operandCopied = true) (hq' : c.q.adjustCopied = true)
    (n : Nat) (e : Expr) (ρ : Env) (h : Heap)
    (v : Val) (ρ' : Env) (h' : Heap) (he : eval c n e ρ h = .ok (v, ρ', h')) : h' = h :=
  (eval_frame c n e ρ h v ρ' h' he).2 ((Quirks.heapSafe_iff _).2 ⟨hq, hq'⟩)

/-- FAILING evaluations are pure too: when an evaluation raises — in the middle of a `for`, a
`let`, a function body, after any number of successful sub-evaluations — the caller's variables
dict and the caller's objects are exactly as they were before the evaluation started. -/
theorem failing_eval_state_unchanged (c : Cfg) (hq1 : c.q.callCopies = true) (hq2 : c.q.operandCopied = true)
    (hq3 : c.q.adjustCopied = true) (n : Nat) (e : Expr) (ρ : Env) (h : Heap)
    (er : Err) (ρ' : Env) (h' : Heap) (he : eval c n e ρ h = .error (er, ρ', h')) : ρ' = ρ ∧ h' = h :=
  ⟨(eval_frameE c n e ρ h er ρ' h' he).1 hq1,
   (eval_frameE c n e ρ h er ρ' h' he).2 ((Quirks.heapSafe_iff _).2 ⟨hq2, hq3⟩)⟩

/-- what a fresh evaluation of step `s` shows, on the objects as the caller created them -/
def fresh (q : Quirks) (n : Nat) (e : Expr) (h : Heap) (s : Step) : Out :=
  outOf (eval ⟨q, s.tz⟩ n e s.ρ h)

/-- REPEATABLE: in every history of evaluations of one expression — any number of steps, any
variables and implicit timezones, in any order — each step returns what a fresh evaluation of
that step returns, and the caller's objects are the same at the end. -/
theorem repeatable (q : Quirks) (hq : q.heapSafe = true) (n : Nat) (e : Expr) :
    ∀ (steps : List Step) (h : Heap),
      runHistory q n e steps h = (steps.map (fresh q n e h), h) := by
  intro steps
  induction steps with
  | nil => intro h; rfl
  | cons s ss ih =>
    intro h
    unfold runHistory
    split
    · rename_i v ρ' h' he
      have hh : h' = h := (eval_frame ⟨q, s.tz⟩ n e s.ρ h v ρ' h' he).2 hq
      subst hh
      simp [ih, fresh, he, outOf]
    · rename_i er ρ' h' he
      have hh : h' = h := (eval_frameE ⟨q, s.tz⟩ n e s.ρ h er ρ' h' he).2 hq
      subst hh
      simp [ih, fresh, he, outOf]

/-- the order of the steps does not matter: step `s` gives the same answer wherever it stands -/
theorem history_order_irrelevant (q : Quirks) (hq : q.heapSafe = true) (n : Nat) (e : Expr)
    (pre pre' post post' : List Step) (s : Step) (h : Heap) :
    (runHistory q n e (pre ++ s :: post) h).1[pre.length]? =
    (runHistory q n e (pre' ++ s :: post') h).1[pre'.length]? := by
  simp [repeatable q hq]

/-- A variable bound by `let`/`for`/`some`/`every` is not visible after the binding expression:
`(B, $x)` raises XPST0008 whenever `$x` is not a variable of the caller, whatever the binder `B`
binds and whatever its value was. -/
theorem binder_not_visible_outside (c : Cfg) (hq : c.q.callCopies = true) (n : Nat) (B : Expr) (x : Name)
    (ρ : Env) (h : Heap) (hx : ρ.lookup x = none) (v : Val) (ρ' : Env) (h' : Heap)
    (hB : eval c (n + 1) B ρ h = .ok (v, ρ', h')) :
    eval c (n + 2) (.seq B (.var x)) ρ h = .error (.unbound, ρ, h') := by
  have := eval_env_unchanged c hq _ _ _ _ _ _ _ hB
  subst this
  rw [eval]
  simp only [hB]
  simp [eval, hx]

/-- … and an outer variable of the same name has its old value again: `(B, $x)` ends with the
caller's value of `$x` for every expression `B` (binders and inline function calls included). -/
theorem outer_variable_restored (c : Cfg) (hq : c.q.callCopies = true) (n : Nat) (B : Expr) (x : Name)
    (ρ : Env) (h : Heap) (w : Val) (hx : ρ.lookup x = some w) (v : Val) (ρ' : Env) (h' : Heap)
    (hB : eval c (n + 1) B ρ h = .ok (v, ρ', h')) :
    eval c (n + 2) (.seq B (.var x)) ρ h = .ok (v ++ w, ρ, h') := by
  have := eval_env_unchanged c hq _ _ _ _ _ _ _ hB
  subst this
  rw [eval]
  simp only [hB]
  simp [eval, hx]

/-- The depth bound `n` is harmless: a successful evaluation gives the same result, the same
dict and the same objects at every larger bound; hence any two bounds that succeed agree. -/
theorem eval_fuel_independent (c : Cfg) (n m : Nat) (e : Expr) (ρ : Env) (h : Heap)
    (r r' : Val × Env × Heap) (hn : eval c n e ρ h = .ok r) (hm : eval c m e ρ h = .ok r') : r = r' := by
  rcases Nat.le_total n m with hle | hle
  · have := eval_fuel_le c hle e ρ h r hn
    rw [hm] at this; cases this; rfl
  · have := eval_fuel_le c hle e ρ h r' hm
    rw [hn] at this; cases this; rfl

/-- FULL STRENGTH (tree with F05c repaired, `calleeLexical`): on EVERY program, started from atomic
caller variables, the model returns exactly what the lexical specification returns — the same error,
or the same observable items — and hands the caller's dict and objects back unchanged. -/
theorem eval_eq_sem (c : Cfg) (hq1 : c.q.callCopies = true) (hq2 : c.q.operandCopied = true)
    (hq4 : c.q.adjustCopied = true) (hq3 : c.q.calleeLexical = true)
    (n : Nat) (e : Expr) (ρ : Env) (h : Heap) (hg : groundEnv ρ = true) :
    outOf (eval c n e ρ h) = semOut c.tz h n e ρ := by
  have hr := eval_sem_related c hq1 hq2 hq4 hq3 h n e true (dom ρ) ρ ρ (ws_lexical e (dom ρ)) (Inv.top hg)
  unfold semOut
  rcases hr.cases with ⟨er, _, _, h1, h2⟩ | ⟨v1, v2, h1, h2, hv⟩
  · rw [h1, h2]; rfl
  · rw [h1, h2]; simp only [outOf]; rw [obs_rel h hv]

/-- … and so does every step of every history (REPEATABLE against the specification, full strength) -/
theorem history_eq_sem (n : Nat) (e : Expr) (steps : List Step) (h : Heap)
    (hs : ∀ s, s ∈ steps → groundEnv s.ρ = true) :
    runHistory .lexical n e steps h = (steps.map fun s => semOut s.tz h n e s.ρ, h) := by
  rw [repeatable .lexical rfl]
  congr 1
  apply List.map_congr_left
  intro s hm
  exact eval_eq_sem ⟨.lexical, s.tz⟩ rfl rfl rfl rfl n e s.ρ h (hs s hm)

/-- PARTIAL (tree WITHOUT the F05c repair, kept for the record): on every program whose inline function bodies are closed in the
scope where they are DEFINED (`WS false true (dom ρ) e`; references outside function bodies are not
restricted, so `(let $x := 1 return $x, $x)` is covered), started from atomic caller variables,
the model returns exactly what the lexical specification returns: the same error, or the same
observable items — and hands the caller's dict and objects back unchanged.
The full statement (no `WS` hypothesis) is false for the Python code: `f05c_dynamic_scope`. -/
theorem eval_eq_sem_partial (c : Cfg) (hq1 : c.q.callCopies = true) (hq2 : c.q.operandCopied = true)
    (hq4 : c.q.adjustCopied = true) (n : Nat) (e : Expr) (ρ : Env) (h : Heap) (hg : groundEnv ρ = true) (hw : WS c.q.calleeLexical true (dom ρ) e = true) :
    outOf (eval c n e ρ h) = semOut c.tz h n e ρ := by
  have hr := eval_sem_related c hq1 hq2 hq4 rfl h n e true (dom ρ) ρ ρ hw (Inv.top hg)
  unfold semOut
  rcases hr.cases with ⟨er, _, _, h1, h2⟩ | ⟨v1, v2, h1, h2, hv⟩
  · rw [h1, h2]; rfl
  · rw [h1, h2]; simp only [outOf]; rw [obs_rel h hv]

/-- FULL STRENGTH on the binder fragment: for every program built from `for`, `let`, `some`,
`every` (any nesting and shadowing), sequences, arithmetic, comparisons and dateTime operations —
no inline function expression — the model equals the lexical specification, no hypothesis on
scoping at all. -/
theorem eval_eq_sem_binders (c : Cfg) (hq1 : c.q.callCopies = true) (hq2 : c.q.operandCopied = true)
    (hq4 : c.q.adjustCopied = true) (n : Nat) (e : Expr) (ρ : Env) (h : Heap) (hg : groundEnv ρ = true) (hf : noFn e = true) :
    outOf (eval c n e ρ h) = semOut c.tz h n e ρ :=
  eval_eq_sem_partial c hq1 hq2 hq4 n e ρ h hg (ws_of_noFn _ e (dom ρ) hf)

/-- the same, keeping the function items: results are related by `VRel` (equal atomic items;
function items with the same parameters and body whose closures agree on the scope of the body) -/
theorem eval_rel_sem_partial (c : Cfg) (hq1 : c.q.callCopies = true) (hq2 : c.q.operandCopied = true)
    (hq4 : c.q.adjustCopied = true) (n : Nat) (e : Expr) (ρ : Env) (h : Heap) (hg : groundEnv ρ = true) (hw : WS c.q.calleeLexical true (dom ρ) e = true) :
    RRel c.q.calleeLexical ρ h (eval c n e ρ h) (sem c.tz h n e ρ) :=
  eval_sem_related c hq1 hq2 hq4 rfl h n e true (dom ρ) ρ ρ hw (Inv.top hg)

/-- REPEATABLE, against the specification: every step of every history of one expression returns
what the lexical semantics assigns to that step's variables and implicit timezone on the
caller's ORIGINAL objects — nothing of the earlier steps is visible. -/
theorem history_eq_sem_partial (n : Nat) (e : Expr) (steps : List Step) (h : Heap)
    (hs : ∀ s, s ∈ steps → groundEnv s.ρ = true ∧ WS false true (dom s.ρ) e = true) :
    runHistory .fixed n e steps h = (steps.map fun s => semOut s.tz h n e s.ρ, h) := by
  rw [repeatable .fixed rfl]
  congr 1
  apply List.map_congr_left
  intro s hm
  exact eval_eq_sem_partial ⟨.fixed, s.tz⟩ rfl rfl rfl n e s.ρ h (hs s hm).1 (hs s hm).2

/-- STATIC SCOPING IS SOUND: if every variable reference of `e` is statically bound
(`WS false false (dom ρ) e`: by a binder or parameter around it, by the scope where the enclosing inline
function is defined, or by a caller's variable), then no evaluation of `e` raises XPST0008 — neither
in the lexical specification nor in the model of the Python code, at any depth bound. -/
theorem well_scoped_never_unbound (c : Cfg) (hq1 : c.q.callCopies = true) (hq2 : c.q.operandCopied = true)
    (hq4 : c.q.adjustCopied = true) (n : Nat) (e : Expr) (ρ : Env) (h : Heap) (hg : groundEnv ρ = true) (hw : WS false false (dom ρ) e = true) :
    sem c.tz h n e ρ ≠ .error .unbound ∧ ∀ ρ' h', eval c n e ρ h ≠ .error (.unbound, ρ', h') := by
  have hi : ∀ lex, Inv lex none false (dom ρ) ρ ρ := by
    intro lex
    have := Inv.top (lex := lex) hg
    exact ⟨this.1, this.2.1, fun hf => by cases hf⟩
  have hs : sem c.tz h n e ρ ≠ .error .unbound := by
    intro he
    have := sem_sound c.tz h n e (dom ρ) ρ hw (hi false)
    rw [he] at this
    exact this rfl
  refine ⟨hs, ?_⟩
  intro ρ' h' hu
  have hr := eval_sem_related c hq1 hq2 hq4 rfl h n e false (dom ρ) ρ ρ (by rw [ws_false_lex]; exact hw) (hi _)
  rcases hr.cases with ⟨er, _, _, h1, h2⟩ | ⟨v1, v2, h1, _, _⟩
  · rw [h1] at hu; cases hu; exact hs h2
  · rw [h1] at hu; cases hu

/-- `let $f := function(){ $y } return let $y := 9 return $f()` -/
def f05cWitness : Expr := .letE 1 (.fn [] (.var 5)) (.letE 5 (.int 9) (.call0 (.var 1)))

/-- F05c: without its repair (`Quirks.fixed`), outside the hypothesis `WS` the model of the Python code
and the lexical semantics differ — the function body sees the `$y` of its CALLER (9 instead of
XPST0008); with the repair (`Quirks.lexical`) they agree. -/
theorem f05c_dynamic_scope :
    WS false true (dom []) f05cWitness = false ∧
    outOf (eval ⟨.fixed, none⟩ 10 f05cWitness [] []) = .ok [.int 9] ∧
    semOut none [] 10 f05cWitness [] = .err .unbound ∧
    outOf (eval ⟨.lexical, none⟩ 10 f05cWitness [] []) = .err .unbound := by decide

/-! ### the defects of the pinned tree, as checked facts about `Quirks.pinned` -/

/-- `let $x := 10 return (function($x){$x+1}(1), $x)` -/
def f05Witness : Expr :=
  .letE 0 (.int 10) (.seq (.call (.fn [0] (.add (.var 0) (.int 1))) (.int 1)) (.var 0))

/-- F05 on the pinned tree: the call overwrites the outer `$x` → `(2, 1)`; repaired → `(2, 10)`.
So `eval_env_unchanged` is false without its hypothesis. -/
theorem f05_pinned_leaks :
    outOf (eval ⟨.pinned, none⟩ 10 f05Witness [] []) = .ok [.int 2, .int 1] ∧
    outOf (eval ⟨.fixed, none⟩ 10 f05Witness [] []) = .ok [.int 2, .int 10] ∧
    semOut none [] 10 f05Witness [] = .ok [.int 2, .int 10] := by decide

/-- `function($x){$x}(1) + $x` at top level: the parameter stays in the caller's dict. -/
theorem f05_pinned_env_changed :
    (match eval ⟨.pinned, none⟩ 10 (.call (.fn [0] (.var 0)) (.int 1)) [] [] with
     | .ok (_, ρ', _) => obsEnv [] ρ' | .error _ => []) = [(0, [.int 1])] := by decide

/-- `$d - xs:dateTime('2000-01-01T00:00:00Z')` -/
def f05bWitness : Expr := .sub (.var 0) (.dt 0 (some 0))

/-- F05b on the pinned tree: a history of two evaluations with implicit timezones +05:00 and
−03:00 on the caller's `$d` (no timezone) gives −PT5H twice and leaves `tzinfo = +05:00` in the
caller's object; repaired: −PT5H then PT3H, object untouched.  So `eval_heap_unchanged` and
`repeatable` are false without their hypothesis. -/
theorem f05b_pinned_history :
    runHistory .pinned 5 f05bWitness [⟨some 300, [(0, [.dtref 0])]⟩, ⟨some (-180), [(0, [.dtref 0])]⟩] [(0, none)]
      = ([.ok [.dur (-18000)], .ok [.dur (-18000)]], [(0, some 300)]) ∧
    runHistory .fixed 5 f05bWitness [⟨some 300, [(0, [.dtref 0])]⟩, ⟨some (-180), [(0, [.dtref 0])]⟩] [(0, none)]
      = ([.ok [.dur (-18000)], .ok [.dur 10800]], [(0, none)]) := by decide

/-- `for $i in (1, 2) return ($d - xs:dateTime('2000-01-01T00:00:00Z'), $undefined)`: raises in the
middle of a `for`, after the subtraction -/
def failingWitness : Expr :=
  .forE 1 (.paren (.seq (.int 1) (.int 2))) (.seq (.sub (.var 0) (.dt 0 (some 0))) (.var 9))

/-- on the pinned tree the partial effect of the failing evaluation stays in the caller's object
(`tzinfo = +05:00`) and the next evaluation, under −03:00, sees it; on the repaired trees the
failing step leaves nothing behind.  So the hypotheses of `failing_eval_state_unchanged` are
necessary. -/
theorem failing_eval_pinned_keeps_partial_effect :
    runHistory .pinned 8 failingWitness [⟨some 300, [(0, [.dtref 0])]⟩] [(0, none)]
      = ([.err .unbound], [(0, some 300)]) ∧
    runHistory .lexical 8 failingWitness [⟨some 300, [(0, [.dtref 0])]⟩] [(0, none)]
      = ([.err .unbound], [(0, none)]) := by decide

/-- `adjust-dateTime-to-timezone($d)` -/
def adjustWitness : Expr := .adjust1 (.var 0)

/-- the seeded change "`_item = item` in `adjust_datetime`" (`adjustCopied = false`): a history of two
evaluations with implicit timezones +05:00 and −03:00 on the caller's `$d` (no timezone) writes
+05:00 into the caller's object and the second step answers with the stale +05:00 adjusted to
−03:00; on the real trees the object is untouched and the second step gives −03:00 on the original
local time.  So `adjustCopied` is necessary in `eval_heap_unchanged` and `repeatable`. -/
theorem adjust_in_place_history :
    runHistory ⟨true, true, false, false⟩ 5 adjustWitness
        [⟨some 300, [(0, [.dtref 0])]⟩, ⟨some (-180), [(0, [.dtref 0])]⟩] [(0, none)]
      = ([.ok [.dt 0 (some 300)], .ok [.dt (-28800) (some (-180))]], [(0, some 300)]) ∧
    runHistory .fixed 5 adjustWitness
        [⟨some 300, [(0, [.dtref 0])]⟩, ⟨some (-180), [(0, [.dtref 0])]⟩] [(0, none)]
      = ([.ok [.dt 0 (some 300)], .ok [.dt 0 (some (-180))]], [(0, none)]) := by decide

/-- TEST (literals): the hypotheses of `binder_not_visible_outside` are satisfiable —
`(let $x := 1 return $x, $x)` with no `$x` in the caller's variables. -/
example : eval ⟨.fixed, none⟩ 3 (.letE 0 (.int 1) (.var 0)) [] [] = .ok ([.int 1], [], []) ∧
    eval ⟨.fixed, none⟩ 4 (.seq (.letE 0 (.int 1) (.var 0)) (.var 0)) [] [] = .error (.unbound, [], []) := by
  constructor <;> rfl

/-- TEST (literals): the hypotheses of `eval_eq_sem_partial` hold on a non-trivial program with
shadowing and a reference after the scope — `let $x := 10 return (function($x){$x+1}(1), $x)`
with a caller's `$x = 7` — and on `(let $x := 1 return $x, $x)` without caller variables. -/
example : groundEnv [(0, [.int 7])] = true ∧ WS false true (dom [(0, [.int 7])]) f05Witness = true ∧
    semOut none [] 10 f05Witness [(0, [.int 7])] = .ok [.int 2, .int 10] ∧
    WS false true (dom []) (.seq (.letE 0 (.int 1) (.var 0)) (.var 0)) = true := by decide

end EPV.C05

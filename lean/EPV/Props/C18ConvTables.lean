/-
C18 — the function conversion rules over the tables GENERATED from the live elementpath on this run: the cast table
deviates from rules 2-4 in the known cells only, the refinement theorem for the live tables, and the kernel-checked
witnesses of the findings F18y / F18z.  (Separate from Props/C18Conv.lean, which the driver imports: a changed cast
table breaks THIS file, while the driver keeps running and the correspondence finds the failing input.)
-/
import EPV.Props.C18Conv
import EPV.Props.C18Tables
namespace EPV.C18
open EPV.SeqType EPV.Gen.C18

theorem cast_table_check :
    [true, false].all (fun x =>
      sampledCls.all (fun c =>
        (List.range atomNames.length).all (fun t =>
          !castDeviates tables (specTables x) liveCfg t (.atom c)))) = true := by
  decide +kernel

/-- shape: cast rows no longer than the type table -/
theorem cast_table_shape :
    sampledCls.all (fun c => (tables.castRows.getD c []).length ≤ atomNames.length) = true ∧
    atomXsd.length = atomNames.length := by
  decide +kernel

theorem getD_of_le {α : Type} (l : List α) (i : Nat) (d : α) (h : l.length ≤ i) : l.getD i d = d := by
  simp [List.getD, List.getElem?_eq_none h]

/-- **the live `cast_to_primitive_type` is rules 2-4 of §3.1.5.2** (every value class that has values × every atomic
type, both XSD versions; beyond the type table nothing is cast): an item is cast exactly when it is an xs:untypedAtomic
(not to a namespace-sensitive type), promoted exactly from xs:float / xs:decimal to xs:double, from xs:decimal to xs:float
and from xs:anyURI to xs:string, with a result of exactly the expected type -/
theorem cast_table_is_rules_2_to_4 (xsd11 : Bool) :
    NoCastDeviation tables (specTables xsd11) liveCfg liveCls := by
  intro c t hl
  have hx : xsd11 ∈ [true, false] := by cases xsd11 <;> simp
  have hchk := cast_table_check
  simp only [List.all_eq_true, List.mem_range] at hchk
  obtain ⟨hs4, hs2⟩ := cast_table_shape
  simp only [List.all_eq_true, decide_eq_true_eq] at hs4
  have hmem : c ∈ sampledCls := by simpa [liveCls] using hl
  by_cases ht : t < atomNames.length
  · have := hchk xsd11 hx c hmem t ht
    simpa using this
  · have hcast : tables.castCls c t = c := by
      unfold Tables.castCls
      exact getD_of_le _ _ _ (by have := hs4 c hmem; omega)
    have hat : (specTables xsd11).atomTy t = none := by
      simp only [specTables]
      split
      · rfl
      · exact List.getElem?_eq_none (by omega)
    have hsp : specConvCls (specTables xsd11) liveCfg t c = some c := by
      unfold specConvCls; rw [hat]; cases (specTables xsd11).clsTy c <;> rfl
    simp [castDeviates, hcast, hsp]

/-- the same for the tables generated from the live code on this run -/
theorem function_conversion_refines_spec_live (xsd11 : Bool) (t : Nat) (o : Occ) (v : List Item)
    (hv : atomsLive liveCls (atomizedValue tables v) = true) :
    (convertParam tables xsd11 (.leaf (.atomic t) o) v).toOption
      = specConvert (specTables xsd11) (isRestriction tables) liveCfg (.leaf (.atomic t) o) v :=
  function_conversion_refines_spec tables (specTables xsd11) xsd11 (spec_agree xsd11) clsOfLive liveCls
    (cast_table_is_rules_2_to_4 xsd11) t o v hv

def tyIdx (n : String) : Nat := atomNames.idxOf n
def clsIdx (n : String) : Nat := clsNames.idxOf n

/-- classes of a converted value (`Item` has no decidable equality: nested inductive); 0 = not atomic -/
def codes : Option (List Item) → Option (List Nat)
  | none => none
  | some w => some (w.map fun x => match x with | .atom c => c + 1 | _ => 0)

def exV : List Item := [Item.array [[.atom tables.untypedCls], [.atom (clsIdx "int"), .array [[.atom (clsIdx "Decimal")]]]]]
def exT : Ty := Ty.leaf (.atomic (tyIdx "xs:double")) .star

/-- test on literals: the hypotheses hold on a non-trivial state — `[xs:untypedAtomic("5"), [1, [1.5]]]` (an array
nested in an array) passed to `xs:double*`: atomized, the untyped item cast, the integer and the decimal promoted -/
example :
    atomsLive liveCls (atomizedValue tables exV) = true
    ∧ codes (convertParam tables true exT exV).toOption
        = some [clsIdx "float" + 1, clsIdx "float" + 1, clsIdx "float" + 1] := by
  decide +kernel

def zV : List Item := [Item.atom (clsIdx "float")]
def zT : Ty := Ty.leaf (.atomic (tyIdx "xs:float")) .one

/-- regression of the former finding F18z (kernel-checked): `function($x as xs:float) {$x}(1e0)` — an xs:double is a type
error for xs:float in the code and in the rules (no demotion) -/
theorem f18z_repaired :
    codes (convertParam tables true zT zV).toOption = none
    ∧ codes (specConvert (specTables true) (isRestriction tables) liveCfg zT zV) = none := by
  decide +kernel

def yV : List Item := [Item.array [[Item.node .attribute 1 [] false, Item.node .comment 0 [] false]]]
def yT : Ty := Ty.leaf (.atomic (tyIdx "xs:string")) .plus

/-- regression of the former finding F18y (kernel-checked): `function($x as xs:string+) {$x}([(@a, comment())])` — the
nodes inside the array are atomized: the xs:untypedAtomic typed value of the attribute is cast to xs:string, the comment's
typed value is an xs:string -/
theorem f18y_repaired :
    atomsLive liveCls (atomizedValue tables yV) = true
    ∧ codes (convertParam tables true yT yV).toOption = some [clsIdx "str" + 1, clsIdx "str" + 1]
    ∧ codes (specConvert (specTables true) (isRestriction tables) liveCfg yT yV) = some [clsIdx "str" + 1, clsIdx "str" + 1] := by
  decide +kernel

def oT : Ty := Ty.leaf (.kind .element .wild) .star
def oV : List Item := [Item.node .element 1 [] false, Item.node .element 2 [3] false]

/-- test on literals: the hypotheses of `function_conversion_is_matching_for_other_types` hold on a non-trivial state —
two element nodes against `element(*)*` are bound unchanged; against `element(*)` (one) they are rejected -/
example :
    oT.isXsName = false ∧ (∀ a r, oT ≠ .func a r) ∧ domT oT oV = true
    ∧ codes (convertParam tables true oT oV).toOption = some [0, 0]
    ∧ codes (convertParam tables true (Ty.leaf (.kind .element .wild) .one) oV).toOption = none := by
  refine ⟨by decide, ?_, by decide +kernel, by decide +kernel, by decide +kernel⟩
  intro a r h; cases h

end EPV.C18

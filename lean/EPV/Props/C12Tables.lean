/-
C12 — theorems over the tables regenerated from the live implementation on every run
(`EPV/Gen/C12Tables.lean`, written by harness/c12.py::translate_tables): the subsets the
implementation uses for `\s \i \c \d` are, code point for code point, the sets the specification
names (XSD 1.1 part 2 G.4.2.5, XML 1.0 NameStartChar / NameChar, category Nd), and no table
behind a negated escape is empty (the side condition of `charclass_denote_partial`).
`\w` (806 ranges against the complement of P ∪ Z ∪ C) is proved through a translator-emitted
tiling certificate (`impl_esc_w_eq_spec`).
-/
import EPV.Lemmas.RegexClass
import EPV.Gen.C12Tables
namespace EPV.C12
open EPV.Regex

def symDiff (a b : SetE) : SetE := .union (.diff a b) (.diff b a)

theorem symDiff_empty_iff (a b : SetE) : (symDiff a b).isEmpty = true ↔ ∀ x, a.mem x = b.mem x := by
  rw [isEmpty_iff]
  constructor
  · intro h x
    have := h x
    simp only [symDiff, SetE.mem] at this
    cases ha : a.mem x <;> cases hb : b.mem x <;> simp_all
  · intro h x
    simp [symDiff, SetE.mem, h x]

def catSet (name : String) : SetE :=
  .ranges (((EPV.Gen.C12.cats.find? (·.1 == name)).map (·.2)).getD [])

/-- the implementation's `\s` subset is `[#x20\t\n\r]`, on every code point -/
theorem impl_esc_s_eq_spec : ∀ x, (SetE.ranges EPV.Gen.C12.escS).mem x = tblS.mem x :=
  (symDiff_empty_iff _ _).1 (by decide +kernel)

/-- the implementation's `\i` subset is XML NameStartChar (incl. `[#x10000-#xEFFFF]`), on every code point -/
theorem impl_esc_i_eq_spec : ∀ x, (SetE.ranges EPV.Gen.C12.escI).mem x = tblI.mem x :=
  (symDiff_empty_iff _ _).1 (by decide +kernel)

/-- the implementation's `\c` subset is XML NameChar, on every code point -/
theorem impl_esc_c_eq_spec : ∀ x, (SetE.ranges EPV.Gen.C12.escC).mem x = tblC.mem x :=
  (symDiff_empty_iff _ _).1 (by decide +kernel)

/-- the implementation's `\d` subset is its `Nd` category table, on every code point -/
theorem impl_esc_d_eq_spec : ∀ x, (SetE.ranges EPV.Gen.C12.escD).mem x = (catSet "Nd").mem x :=
  (symDiff_empty_iff _ _).1 (by decide +kernel)

/-- no category, block or escape table is empty: `negTablesNonempty` holds for every class built
from them -/
theorem tables_nonempty :
    (EPV.Gen.C12.cats.all fun t => !(SetE.ranges t.2).isEmpty) = true ∧
    (EPV.Gen.C12.blocks.all fun t => !(SetE.ranges t.2).isEmpty) = true ∧
    ([EPV.Gen.C12.escS, EPV.Gen.C12.escD, EPV.Gen.C12.escW, EPV.Gen.C12.escI, EPV.Gen.C12.escC].all
      fun t => !(SetE.ranges t).isEmpty) = true := by decide +kernel

/-! ### `\w`: certificate-based equality (the symmetric-difference evaluation is too slow in the kernel)

The translator emits `wTiling`: the ranges of `escW` (tag 0) and of the categories P, Z, C (tags 1-3)
interleaved by start.  The kernel checks (all linear) that the list tiles `[0, maxunicode]` without gap
or overlap and projects back onto the four tables; `tiles_partition` then gives the complement. -/

abbrev TEntry := Nat × Nat × Nat

/-- consecutive entries tile `[a, b)`: each starts where the previous one ended and is non-empty -/
def tilesB : Nat → List TEntry → Nat → Bool
  | a, [], b => a == b
  | a, (lo, hi, _) :: rest, b => lo == a && decide (lo < hi) && tilesB hi rest b

def inEntry (x : Nat) (e : TEntry) : Bool := decide (e.1 ≤ x) && decide (x < e.2.1)

/-- `x` lies in an entry tagged `0` / in an entry with another tag -/
def memTag0 (x : Nat) (l : List TEntry) : Bool := l.any fun e => e.2.2 == 0 && inEntry x e
def memOther (x : Nat) (l : List TEntry) : Bool := l.any fun e => e.2.2 != 0 && inEntry x e

theorem tiles_lo_ge : ∀ (l : List TEntry) (a b : Nat), tilesB a l b = true → ∀ e ∈ l, a ≤ e.1 := by
  intro l
  induction l with
  | nil => intro a b _ e he; cases he
  | cons h t ih =>
    intro a b ht e he
    obtain ⟨lo, hi, tg⟩ := h
    simp only [tilesB, Bool.and_eq_true, beq_iff_eq, decide_eq_true_eq] at ht
    obtain ⟨⟨rfl, hlt⟩, hrest⟩ := ht
    rcases List.mem_cons.1 he with rfl | he
    · exact Nat.le_refl _
    · have := ih hi b hrest e he
      omega

/-- inside a tiling every point of `[a, b)` is in an entry tagged 0 or in one tagged otherwise, never both -/
theorem tiles_partition : ∀ (l : List TEntry) (a b : Nat), tilesB a l b = true → ∀ x, a ≤ x → x < b →
    memTag0 x l = !memOther x l := by
  intro l
  induction l with
  | nil =>
    intro a b ht x h1 h2
    simp only [tilesB, beq_iff_eq] at ht
    omega
  | cons h t ih =>
    intro a b ht x h1 h2
    obtain ⟨lo, hi, tg⟩ := h
    have ht' := ht
    simp only [tilesB, Bool.and_eq_true, beq_iff_eq, decide_eq_true_eq] at ht
    obtain ⟨⟨rfl, hlt⟩, hrest⟩ := ht
    simp only [memTag0, memOther, List.any_cons]
    by_cases hx : x < hi
    · -- in the head entry; no later entry contains x
      have hin : inEntry x (lo, hi, tg) = true := by simp [inEntry, h1, hx]
      have hnone : ∀ (f : TEntry → Bool), (t.any fun e => f e && inEntry x e) = false := by
        intro f
        apply Bool.eq_false_iff.2
        intro hh
        obtain ⟨e, he, hh⟩ := List.any_eq_true.1 hh
        have := tiles_lo_ge t hi b hrest e he
        simp only [Bool.and_eq_true, inEntry, decide_eq_true_eq] at hh
        omega
      rw [hnone (fun e => e.2.2 == 0), hnone (fun e => e.2.2 != 0), hin]
      cases htg : (tg == 0) <;> simp [htg, bne]
    · have hout : inEntry x (lo, hi, tg) = false := by simp [inEntry]; omega
      have := ih hi b hrest x (by omega) h2
      simp only [memTag0, memOther] at this
      rw [hout, this]
      simp

def proj (t : Nat) (l : List TEntry) : List (Nat × Nat) := (l.filter fun e => e.2.2 == t).map fun e => (e.1, e.2.1)

theorem memR_proj (t : Nat) (l : List TEntry) (x : Nat) :
    memR x (proj t l) = l.any fun e => e.2.2 == t && inEntry x e := by
  induction l with
  | nil => rfl
  | cons e l ih =>
    simp only [proj, List.filter_cons, List.any_cons]
    cases h : (e.2.2 == t)
    · simp only [Bool.false_eq_true, if_false, Bool.false_and, Bool.false_or]
      exact ih
    · simp only [if_true, List.map_cons, Bool.true_and]
      unfold memR at ih ⊢
      simp only [List.any_cons]
      rw [← ih]
      rfl

def catTbl (name : String) : List (Nat × Nat) :=
  ((EPV.Gen.C12.cats.find? (·.1 == name)).map (·.2)).getD []

/-- the certificate checks, by kernel evaluation over the regenerated tables (all linear) -/
theorem w_certificate :
    tilesB 0 EPV.Gen.C12.wTiling maxCP1 = true ∧
    (EPV.Gen.C12.wTiling.all fun e => e.2.2 ≤ 3) = true ∧
    proj 0 EPV.Gen.C12.wTiling = EPV.Gen.C12.escW ∧
    proj 1 EPV.Gen.C12.wTiling = catTbl "P" ∧
    proj 2 EPV.Gen.C12.wTiling = catTbl "Z" ∧
    proj 3 EPV.Gen.C12.wTiling = catTbl "C" := by decide +kernel


theorem memOther_split (l : List TEntry) (x : Nat) (h : (l.all fun e => e.2.2 ≤ 3) = true) :
    memOther x l = ((l.any fun e => e.2.2 == 1 && inEntry x e) || (l.any fun e => e.2.2 == 2 && inEntry x e)
      || (l.any fun e => e.2.2 == 3 && inEntry x e)) := by
  induction l with
  | nil => rfl
  | cons e l ih =>
    simp only [List.all_cons, Bool.and_eq_true, decide_eq_true_eq] at h
    have ih' := ih h.2
    simp only [memOther] at ih' ⊢
    simp only [List.any_cons, ih']
    obtain ⟨lo, hi, tg⟩ := e
    have : tg = 0 ∨ tg = 1 ∨ tg = 2 ∨ tg = 3 := by
      have := h.1; simp at this; omega
    rcases this with rfl | rfl | rfl | rfl <;> simp [bne] <;> cases inEntry x (lo, hi, _) <;> simp [Bool.or_comm, Bool.or_assoc]

/-- the implementation's `\w` subset (`w_shortcut` = L ∪ M ∪ N ∪ S tables merged) is, on every
code point, the XSD definition `[#x0-#x10FFFF]-[\p{P}\p{Z}\p{C}]` over the installed category tables -/
theorem impl_esc_w_eq_spec (x : Nat) (hx : x < maxCP1) :
    (SetE.ranges EPV.Gen.C12.escW).mem x =
      (SetE.diff .all (.union (.ranges (catTbl "P")) (.union (.ranges (catTbl "Z")) (.ranges (catTbl "C"))))).mem x := by
  obtain ⟨ht, htag, h0, h1, h2, h3⟩ := w_certificate
  have hp := tiles_partition _ 0 maxCP1 ht x (Nat.zero_le _) hx
  simp only [SetE.mem, all_mem, hx, decide_true, Bool.true_and]
  rw [← h0, ← h1, ← h2, ← h3, memR_proj, memR_proj, memR_proj, memR_proj]
  have hs := memOther_split _ x htag
  simp only [memTag0] at hp
  rw [hp, hs, Bool.or_assoc]


end EPV.C12

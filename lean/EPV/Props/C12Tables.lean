/-
C12 — theorems over the tables regenerated from the live implementation on every run
(`EPV/Gen/C12Tables.lean`, written by harness/c12.py::translate_tables): the subsets the
implementation uses for `\s \i \c \d` are, code point for code point, the sets the specification
names (XSD 1.1 part 2 G.4.2.5, XML 1.0 NameStartChar / NameChar, category Nd), and no table
behind a negated escape is empty (the side condition of `charclass_denote_partial`).
`\w` (806 ranges against the complement of P ∪ Z ∪ C) exceeds what the kernel evaluates in
reasonable time; it is compared on all range boundaries by the harness instead (not a theorem).
-/
import EPV.Lemmas.RegexClass
import EPV.Gen.C12Tables
namespace EPV.C12
open EPV.Regex

def symDiff (a b : SetE) : SetE := .union (.diff a b) (.diff b a)

theorem symDiff_empty_iff (a b : SetE) : (symDiff a b).isEmpty = true ↔ ∀ x, a.mem x = b.mem x := by
  rw [isEmpty_iff]
  constructor
  · intro h x
    have := h x
    simp only [symDiff, SetE.mem] at this
    cases ha : a.mem x <;> cases hb : b.mem x <;> simp_all
  · intro h x
    simp [symDiff, SetE.mem, h x]

def catSet (name : String) : SetE :=
  .ranges (((EPV.Gen.C12.cats.find? (·.1 == name)).map (·.2)).getD [])

/-- the implementation's `\s` subset is `[#x20\t\n\r]`, on every code point -/
theorem impl_esc_s_eq_spec : ∀ x, (SetE.ranges EPV.Gen.C12.escS).mem x = tblS.mem x :=
  (symDiff_empty_iff _ _).1 (by decide +kernel)

/-- the implementation's `\i` subset is XML NameStartChar (incl. `[#x10000-#xEFFFF]`), on every code point -/
theorem impl_esc_i_eq_spec : ∀ x, (SetE.ranges EPV.Gen.C12.escI).mem x = tblI.mem x :=
  (symDiff_empty_iff _ _).1 (by decide +kernel)

/-- the implementation's `\c` subset is XML NameChar, on every code point -/
theorem impl_esc_c_eq_spec : ∀ x, (SetE.ranges EPV.Gen.C12.escC).mem x = tblC.mem x :=
  (symDiff_empty_iff _ _).1 (by decide +kernel)

/-- the implementation's `\d` subset is its `Nd` category table, on every code point -/
theorem impl_esc_d_eq_spec : ∀ x, (SetE.ranges EPV.Gen.C12.escD).mem x = (catSet "Nd").mem x :=
  (symDiff_empty_iff _ _).1 (by decide +kernel)

/-- no category, block or escape table is empty: `negTablesNonempty` holds for every class built
from them -/
theorem tables_nonempty :
    (EPV.Gen.C12.cats.all fun t => !(SetE.ranges t.2).isEmpty) = true ∧
    (EPV.Gen.C12.blocks.all fun t => !(SetE.ranges t.2).isEmpty) = true ∧
    ([EPV.Gen.C12.escS, EPV.Gen.C12.escD, EPV.Gen.C12.escW, EPV.Gen.C12.escI, EPV.Gen.C12.escC].all
      fun t => !(SetE.ranges t).isEmpty) = true := by decide +kernel

end EPV.C12

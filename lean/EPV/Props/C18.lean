/-
C18 — property theorems about the model of the sequence-type judgements (namespace EPV.C18).

The generated tables are a parameter `tb`; the hypotheses `tb.Trans` (issubclass is transitive) and
`tb.InstUp` (isinstance is closed under issubclass) are proved for the live tables in
`EPV.Props.C18Tables` by `decide +kernel`, where the theorems are also instantiated.
Every theorem quantifies over all sequence types (`Ty`: unbounded nesting of function / map / array
tests) and all values (`List Item`: unbounded sequences, maps, arrays).
-/
import EPV.Lemmas.SeqTypeInst
import EPV.Lemmas.SeqTypeSpec
import EPV.Lemmas.SeqTypeHist
import EPV.Lemmas.SeqTypeText
import EPV.Lemmas.SeqTypeErr
namespace EPV.C18
open EPV.SeqType

/-! ## the subtype relation of function tests (`is_sequence_type_restriction`) -/

/-- The subtype relation used for function tests is reflexive: every sequence type is a restriction of itself. -/
theorem restriction_refl (tb : Tables) (t : Ty) : isRestriction tb t t = true :=
  isRestriction_refl tb t

/-- The subtype relation used for function tests is transitive (given that `issubclass` on the atomic
and list types is, which `atomic_sub_trans` proves for the live tables). -/
theorem restriction_trans (tb : Tables) (ht : tb.Trans) (t1 t2 t3 : Ty)
    (h1 : isRestriction tb t1 t2 = true) (h2 : isRestriction tb t2 t3 = true) :
    isRestriction tb t1 t3 = true :=
  isRestriction_trans tb ht t1 t2 t3 h1 h2

/-- test (not a theorem about all inputs): the hypotheses of `restriction_trans` are satisfiable on a
non-trivial chain  item()* ⊒ function(*)* ⊒ function(*)  -/
example (tb : Tables) : isRestriction tb (.leaf .item .star) (.leaf .funcAny .star) = true ∧
    isRestriction tb (.leaf .funcAny .star) (.leaf .funcAny .one) = true := by
  constructor <;> rfl

/-- **The restriction relation is sound for matching**: if `v` matches `S` (by `match_sequence_type`) and `S` is a
restriction of `T` then `v` matches `T` — for every value (atomic values, nodes, function items, maps, arrays,
sequences) and all sequence types; contravariant in the parameter types and covariant in the return type of
function items; maps and arrays against typed function tests by subtyping (with the `fix:` of branch fix-c18-4,
which removed finding F18i; before it this theorem needed the hypothesis "no map / array item against a typed
function test" and had a kernel-checked counter-example). -/
theorem restriction_sound (tb : Tables) (ht : tb.Trans) (hu : tb.InstUp) (xsd11 : Bool)
    (T S : Ty) (v : List Item)
    (hm : matchSt tb xsd11 true S v = .ok true) (hR : isRestriction tb T S = true) :
    matchSt tb xsd11 true T v = .ok true :=
  match_sound tb ht hu xsd11 T S v hm hR

/-- corollary for function items (what `match_function_test` relies on): a function item whose signature
passes the test `function(a) as r` also passes every test `function(a') as r'` of which the first is a
restriction -/
theorem function_item_test_mono (tb : Tables) (ht : tb.Trans) (hu : tb.InstUp) (xsd11 : Bool)
    (sa : Tys) (sr : Ty) (a a' : Tys) (r r' : Ty)
    (hm : matchSt tb xsd11 true (.func a r) [.func sa sr] = .ok true)
    (hR : isRestriction tb (.func a' r') (.func a r) = true) :
    matchSt tb xsd11 true (.func a' r') [.func sa sr] = .ok true :=
  match_sound tb ht hu xsd11 _ _ _ hm hR

/-! ## `match_sequence_type` against XPath 3.1 -/

/-- `match_sequence_type(v, T)` IS SequenceType matching of XPath 3.1 §2.5.5 (item type by the atomic
type hierarchy of XSD and by the node kind tests, occurrence by cardinality, map / array tests member
by member, function items by the subtype relation) for every type and value in the domain `domT`:
atomic type names only (xs:anyType, xs:anySimpleType and list type names are static errors for XPath,
raised only dynamically by the code), no kind test with a type argument (F18k), documents with at most one
element child.  `SpecAgree` — the isinstance table is derives-from on the XSD
hierarchy written by hand in the spec — is proved for the live tables by `decide` (`spec_agree`). -/
theorem match_eq_spec (tb : Tables) (st : SpecTables) (xsd11 : Bool) (ha : SpecAgree tb st xsd11)
    (t : Ty) (v : List Item) (hd : domT t v = true) :
    matchSt tb xsd11 true t v = .ok (specMatch st (isRestriction tb) t v) :=
  matchSt_eq_spec tb st xsd11 ha t v hd

/-- hence the restriction relation is sound for the *specification's* matching as well: on the domain,
whatever matches a restriction `S` of `T` according to XPath 3.1 matches `T` according to XPath 3.1 -/
theorem restriction_sound_spec (tb : Tables) (st : SpecTables) (xsd11 : Bool) (ha : SpecAgree tb st xsd11)
    (ht : tb.Trans) (hu : tb.InstUp) (T S : Ty) (v : List Item)
    (hdS : domT S v = true) (hdT : domT T v = true)
    (hm : specMatch st (isRestriction tb) S v = true) (hR : isRestriction tb T S = true) :
    specMatch st (isRestriction tb) T v = true := by
  have h1 := matchSt_eq_spec tb st xsd11 ha S v hdS
  rw [hm] at h1
  have h2 := match_sound tb ht hu xsd11 T S v h1 hR
  rw [matchSt_eq_spec tb st xsd11 ha T v hdT] at h2
  simpa using h2

/-! ## occurrence indicators -/

/-- `match_sequence_type`: a value matches a non-empty sequence type exactly when the number of its items
fits the occurrence indicator (one: 1, `?`: ≤ 1, `*`: any, `+`: ≥ 1) and every item passes the item test
of the type. -/
theorem occurrence_cardinality_match (tb : Tables) (xsd11 : Bool) (t : Ty) (v : List Item) (h : t ≠ .empty) :
    matchSt tb xsd11 true t v = .ok true ↔
      (cardOK t.ownOcc v.length = true ∧ ∀ x ∈ v, itemFn tb xsd11 true t x = .ok true) := by
  rw [matchSt_eq_seqMatch _ _ _ _ _ h, seqMatch_true]

/-- `instance of`: the `for … else` loop with its early exits answers true exactly when every item passes
the item test and the number of items fits the occurrence indicator. -/
theorem occurrence_cardinality (tb : Tables) (xsd11 : Bool) (t : Ty) (v : List Item) (h : t ≠ .empty) :
    instanceOf tb xsd11 t v = .ok true ↔
      (cardOK t.ownOcc v.length = true ∧ ∀ x ∈ v, instItem tb xsd11 t x = .ok true) := by
  cases t with
  | empty => exact absurd rfl h
  | _ => simp only [instanceOf, Ty.tokOcc]; exact instLoop_true _ _ _

/-- `empty-sequence()` is matched by the empty sequence only, by all three judgements -/
theorem empty_sequence_type (tb : Tables) (xsd11 : Bool) (v : List Item) :
    matchSt tb xsd11 true .empty v = .ok v.isEmpty ∧ instanceOf tb xsd11 .empty v = .ok v.isEmpty := by
  constructor <;> simp [matchSt, instanceOf]

/-! ## `instance of` and `treat as` -/

theorem any_false_mem {α : Type} (p : α → Bool) : ∀ (l : List α), l.any p = false → ∀ x ∈ l, p x = false := by
  intro l h x hx
  simp only [List.any_eq_false] at h
  simpa using h x hx

theorem docsWellFormed_mem : ∀ (v : List Item), docsWellFormed v = true → ∀ x ∈ v, itemDocOK x = true
  | [], _, x, hx => by simp at hx
  | y :: ys, h, x, hx => by
    rcases List.mem_cons.1 hx with rfl | hx'
    · cases x with
      | node k n kids root => cases k <;> simp_all [docsWellFormed, itemDocOK]
      | _ => rfl
    · apply docsWellFormed_mem ys _ x hx'
      cases y with
      | node k n kids root => cases k <;> simp_all [docsWellFormed]
      | _ => simpa [docsWellFormed] using h

/-- `v instance of T` is true exactly when `match_sequence_type(v, T)` is (two separately written
implementations: the kind-test tokens evaluated on each item, and the string-driven matcher) — with the `fix:` of
branch fix-c18-4 also for attribute(), namespace-node() and node() tests (former finding F18d).  **Partial** only
in: types without a kind test that carries a type argument (`element(N, T)`: finding F18k, counter-example
`instance_of_type_argument_counterexample`), and documents with at most one element child (the token requires
exactly one element child matching, the matcher any: not observable on documents built from well-formed XML). -/
theorem instance_of_eq_match_partial (tb : Tables) (xsd11 : Bool) (t : Ty) (v : List Item)
    (hd : docsWellFormed v = true) (hk : t.hasTypeArg = false) :
    instanceOf tb xsd11 t v = .ok true ↔ matchSt tb xsd11 true t v = .ok true := by
  by_cases h : t = .empty
  · subst h; simp [matchSt, instanceOf]
  · rw [occurrence_cardinality tb xsd11 t v h, occurrence_cardinality_match tb xsd11 t v h]
    constructor
    · rintro ⟨hc, hi⟩
      refine ⟨hc, fun x hx => ?_⟩
      exact (instItem_iff tb xsd11 t x (docsWellFormed_mem v hd x hx) hk).1 (hi x hx)
    · rintro ⟨hc, hi⟩
      refine ⟨hc, fun x hx => ?_⟩
      exact (instItem_iff tb xsd11 t x (docsWellFormed_mem v hd x hx) hk).2 (hi x hx)

/-- `V treat as T` returns `V` unchanged exactly when `V instance of T` is true, raises XPDY0050 exactly
when it is false, and raises the same error otherwise (two separately transcribed loops). -/
theorem treat_as_identity_or_XPDY0050 (tb : Tables) (xsd11 : Bool) (t : Ty) (v : List Item) :
    treatAs tb xsd11 t v =
      (match instanceOf tb xsd11 t v with
       | .ok true => .ok v
       | .ok false => .error .XPDY0050
       | .error e => .error e) := by
  cases t with
  | empty => cases v <;> simp [treatAs, instanceOf]
  | _ => simp only [treatAs, instanceOf]; rw [treatLoop_eq]; simp only [List.nil_append]; rfl

/-- hence: if `treat as` returns a value it is the operand itself -/
theorem treat_as_returns_operand (tb : Tables) (xsd11 : Bool) (t : Ty) (v w : List Item)
    (h : treatAs tb xsd11 t v = .ok w) : w = v ∧ instanceOf tb xsd11 t v = .ok true := by
  rw [treat_as_identity_or_XPDY0050] at h
  cases hi : instanceOf tb xsd11 t v with
  | error e => simp [hi] at h
  | ok b => cases b <;> simp [hi] at h; exact ⟨h.symm, rfl⟩

/-! ## error codes of the judgements -/

/-- An error raised by the operand expression (the XPDY0050 of a nested `treat as`, an XPTY0004, a FORG0001 …)
leaves `instance of` and `treat as` unchanged, whatever the sequence type is. -/
theorem operand_error_propagates (tb : Tables) (xsd11 : Bool) (t : Ty) (c : Nat) :
    instanceOfOp tb xsd11 t (.error c) = .operandErr c ∧ treatAsOp tb xsd11 t (.error c) = .operandErr c :=
  ⟨rfl, rfl⟩

/-- `instance of` itself never raises a dynamic error: the only error it can raise is the static XPST0051 (the
type name is no atomic type of the static context) -/
theorem instance_of_raises_only_static (tb : Tables) (xsd11 : Bool) (t : Ty) (v : List Item) (e : Err)
    (h : instanceOf tb xsd11 t v = .error e) : e = .XPST0051 :=
  instanceOf_error tb xsd11 t v e h

/-- `treat as` raises XPDY0050 (exactly when `instance of` is false) or the same static XPST0051 -/
theorem treat_as_raises_XPDY0050_or_static (tb : Tables) (xsd11 : Bool) (t : Ty) (v : List Item) (e : Err)
    (h : treatAs tb xsd11 t v = .error e) : e = .XPDY0050 ∨ e = .XPST0051 := by
  rw [treat_as_identity_or_XPDY0050] at h
  cases hi : instanceOf tb xsd11 t v with
  | error e' =>
    rw [hi] at h; simp at h
    right; rw [← h]; exact instanceOf_error tb xsd11 t v e' hi
  | ok b => cases b <;> rw [hi] at h <;> simp at h; left; exact h.symm

/-- `match_sequence_type` raises only the static XPST0051 -/
theorem match_raises_only_static (tb : Tables) (xsd11 : Bool) (t : Ty) (strict : Bool) (v : List Item) (e : Err)
    (h : matchSt tb xsd11 strict t v = .error e) : e = .XPST0051 :=
  matchSt_error tb xsd11 t strict v e h

/-! ## names and namespaces -/

/-- the expansion of the lexical names of kind tests that the code performs (`get_expanded_name` with the parser's
namespaces for element tests, no default namespace for attribute tests) is the one XPath 3.1 prescribes -/
theorem resolve_name_eq_spec (cfg : NsCfg) (isAttr : Bool) (lex : Nat) :
    resolveName cfg isAttr lex = specResolveName cfg.dflt cfg.p cfg.q isAttr lex := by
  unfold resolveName specResolveName
  rcases h : lex / 100 with _ | _ | k <;> simp
  cases isAttr <;> simp

/-- an unprefixed attribute name never takes the default element namespace; an unprefixed element name does -/
theorem resolve_unprefixed (cfg : NsCfg) (l : Nat) (h : l < 100) :
    resolveName cfg true l = l ∧ resolveName cfg false l = 100 * cfg.dflt + l := by
  have h0 : l / 100 = 0 := Nat.div_eq_of_lt h
  have h1 : l % 100 = l := Nat.mod_eq_of_lt h
  simp [resolveName, h0, h1]

/-- without statically known namespaces unprefixed types are left as they are (the judgements without
namespaces are the special case `NsCfg.none`) -/
theorem resolve_none_id (n : Nat) (h : n < 100) (isAttr : Bool) : resolveName NsCfg.none isAttr n = n := by
  have h0 : n / 100 = 0 := Nat.div_eq_of_lt h
  have h1 : n % 100 = n := Nat.mod_eq_of_lt h
  cases isAttr <;> simp [resolveName, NsCfg.none, h0, h1]

/-- resolving names changes neither the occurrence indicator nor the kind of a type: the theorems above
(`occurrence_cardinality`, `match_eq_spec`, `restriction_sound_partial` …) apply to the resolved type as they are -/
theorem resolve_shape (cfg : NsCfg) (t : Ty) :
    (t.resolve cfg).ownOcc = t.ownOcc ∧ ((t.resolve cfg = .empty) ↔ t = .empty) := by
  cases t <;> simp [Ty.resolve, Ty.ownOcc]

/-- with statically known namespaces `match_sequence_type` is XPath matching of the resolved type (instance of
`match_eq_spec`) -/
theorem match_eq_spec_ns (tb : Tables) (st : SpecTables) (xsd11 : Bool) (ha : SpecAgree tb st xsd11)
    (cfg : NsCfg) (t : Ty) (v : List Item) (hd : domT (t.resolve cfg) v = true) :
    matchSt tb xsd11 true (t.resolve cfg) v = .ok (specMatch st (isRestriction tb) (t.resolve cfg) v) :=
  matchSt_eq_spec tb st xsd11 ha _ v hd

/-! ## the string-driven code against the AST -/

/-- a type is `simple` (no typed function test, no typed map test inside) exactly when its normalised text
contains neither `', '` nor `') as '` -/
theorem simple_iff_text_has_no_separator (nm ln : Nat → String) (t : Ty) :
    t.simple = true ↔ noSep (t.render nm ln) = true := simple_iff_noSep nm ln t

/-- **`helpers.split_function_test` agrees with the grammar for every typed function test.**  The scan by nesting
depth (`sequence_types.py` l.113-126 and `match_function_test` cut the normalised text with it) applied
to the text of `function(a) as r` returns the texts of the parameters — none for `function() as r` — and the text
of the return type, for all parameter lists `a` (typed function tests, map tests, array tests and kind tests with
type arguments nested to any depth) and all `r`.  So the AST model of `is_sequence_type_restriction` /
`match_function_test` (`coreCls`, `funcItemTest`) speaks about the string-driven code for every type. -/
theorem string_split_eq_ast (nm ln : Nat → String) (a : Tys) (r : Ty) :
    pySplit ((Ty.func a r).render nm ln) = (a.argTexts nm ln, r.render nm ln) :=
  pySplit_eq nm ln a r

/-- the number of pieces is the arity -/
theorem string_split_arity (nm ln : Nat → String) (a : Tys) (r : Ty) :
    (pySplit ((Ty.func a r).render nm ln)).1.length = a.toList.length := by
  rw [pySplit_eq, argTexts_length]

/-- the text of a type is balanced: scanned at any depth, behind any prefix, it does not split (the lemma behind
`string_split_eq_ast`) -/
theorem text_is_balanced (nm ln : Nat → String) (t : Ty) (d : Nat) (rest cur : List Tok) :
    splitScan d (t.render nm ln ++ rest) cur = splitScan d rest (cur ++ t.render nm ln) :=
  scan_render nm ln t d rest cur

/-- three types that the splitting at every `', '` / first `') as '` (before the `fix:` 1a95d7d) cut wrongly, split as the grammar says: `function(map(K, V)) as R` has one
parameter, `function(function(A) as B, C) as R` two, `function() as R` none, and the return type is `R` (one token) -/
example :
    let nm : Nat → String := fun _ => "xs:x"
    let m : Ty := .map 0 (.leaf (.atomic 1) .one) .one
    let f : Ty := .func (.cons (.leaf (.atomic 0) .one) .nil) (.leaf (.atomic 1) .one)
    let r : Ty := .leaf (.atomic 2) .one
    (pySplit ((Ty.func (.cons m .nil) r).render nm nm)).1.length = 1 ∧
    (pySplit ((Ty.func (.cons f (.cons r .nil)) r).render nm nm)).1.length = 2 ∧
    (pySplit ((Ty.func (.cons f (.cons r .nil)) r).render nm nm)).2.length = 1 ∧
    (pySplit ((Ty.func .nil r).render nm nm)) = ([], [.atom "xs:x"]) := by decide

/-! ## a typed function test with an occurrence indicator of its own -/

/-- `v instance of (function(a) as r)o` (parenthesised item type, the indicator `o` is the function test's own): true
exactly when the number of items fits `o` and every single item is an instance of the plain `function(a) as r` — for
every indicator, parameter list, return type and value. -/
theorem own_occurrence_instance_of (tb : Tables) (xsd11 : Bool) (o : Occ) (a : Tys) (r : Ty) (v : List Item) :
    instanceOfOwnOcc tb xsd11 o a r v = .ok true ↔
      (cardOK o v.length = true ∧ ∀ x ∈ v, instanceOf tb xsd11 (.func a r) [x] = .ok true) := by
  have h1 : ∀ x : Item, instanceOf tb xsd11 (.func a r) [x] = .ok true ↔ instItem tb xsd11 (.func a r) x = .ok true := by
    intro x
    have := instLoop_true (Ty.func a r).tokOcc (instItem tb xsd11 (.func a r)) [x]
    simp only [instanceOf]
    rw [this]
    simp [Ty.tokOcc, Ty.ownOcc, cardOK]
  simp only [instanceOfOwnOcc, instLoop_true, h1]

/-- with the indicator `one` (no indicator) the parentheses change nothing -/
theorem own_occurrence_one (tb : Tables) (xsd11 : Bool) (a : Tys) (r : Ty) (v : List Item) :
    instanceOfOwnOcc tb xsd11 .one a r v = instanceOf tb xsd11 (.func a r) v ∧
    treatAsOwnOcc tb xsd11 .one a r v = treatAs tb xsd11 (.func a r) v := ⟨rfl, rfl⟩

/-- `treat as` with an own indicator is the same judgement: the operand unchanged or XPDY0050 -/
theorem own_occurrence_treat_as (tb : Tables) (xsd11 : Bool) (o : Occ) (a : Tys) (r : Ty) (v : List Item) :
    treatAsOwnOcc tb xsd11 o a r v =
      (match instanceOfOwnOcc tb xsd11 o a r v with
       | .ok true => .ok v
       | .ok false => .error .XPDY0050
       | .error e => .error e) := by
  simp only [treatAsOwnOcc, instanceOfOwnOcc, treatLoop_eq, List.nil_append]
  rfl

/-! ## partial application and judgement histories -/

/-- The function item `f(mask)` produced by a partial application has the parameter types of `f` at the
placeholder positions (XPath 3.1 §3.1.6), for every mask — placeholders first, last or interleaved — and
every function item (with the `fix:` of branch fix-c18-2; before it the code took the first k parameters,
right only for `prefixMask`, see `take_eq_pick_of_prefix`). -/
theorem partial_application_sig (x : Item) (mask : List Bool) :
    x.partialApply mask = x.partialApplySpec mask := by
  cases x <;> rfl

/-- matching a partial application is matching the function item whose signature is `partialSig`
(all three judgements, all masks) -/
theorem match_partial_application (tb : Tables) (xsd11 : Bool) (t : Ty) (a : Tys) (r : Ty) (mask : List Bool) :
    matchSt tb xsd11 true t [(Item.func a r).partialApply mask] = matchSt tb xsd11 true t [.func (partialSig a mask) r] ∧
    instanceOf tb xsd11 t [(Item.func a r).partialApply mask] = instanceOf tb xsd11 t [.func (partialSig a mask) r] ∧
    treatAs tb xsd11 t [(Item.func a r).partialApply mask] = treatAs tb xsd11 t [.func (partialSig a mask) r] :=
  ⟨rfl, rfl, rfl⟩

/-- the arity of a partial application is the number of its placeholders -/
theorem partial_application_arity (a : Tys) (mask : List Bool) (h : mask.length = a.length) :
    (partialSig a mask).length = mask.count true := Tys.pick_length a mask h

/-- a partial application of a partial application is typed by composing the two selections: applying
`m2` to `f(m1)` selects among the parameters that `m1` left open -/
theorem partial_of_partial (a : Tys) (r : Ty) (m1 m2 : List Bool) :
    ((Item.func a r).partialApply m1).partialApply m2 = .func ((a.pick m1).pick m2) r := rfl

/-- **Judgements are history independent.**  In any history (judgements by `match_sequence_type`,
`instance of`, `treat as`, and partial applications, on a pool of items) the answer of every operation is
the answer of that single operation on the pool obtained from the *partial applications* that precede it
alone: no earlier judgement changes any later answer, a judgement is a function of (value, type). -/
theorem judgement_history_independent (tb : Tables) (xsd11 : Bool) (pool : List (List Item))
    (pre post : List HOp) (op : HOp) :
    (hRun tb xsd11 pool (pre ++ op :: post))[pre.length]? =
      some (hStep tb xsd11 (hPool tb xsd11 pool (pre.filter HOp.isPartial)) op).2 := by
  rw [hRun_append, List.getElem?_append_right (by rw [hRun_length]; exact Nat.le_refl _), hRun_length,
    Nat.sub_self, ← hPool_filter]
  rfl

/-- a judgement leaves the pool as it was -/
theorem judgement_does_not_change_items (tb : Tables) (xsd11 : Bool) (pool : List (List Item)) (op : HOp)
    (h : op.isPartial = false) : (hStep tb xsd11 pool op).1 = pool :=
  hStep_judgement_pool tb xsd11 pool op h

/-- **Function conversion does not change its argument.**  Passing a stored value (a sequence, an array member, a
map entry) through a function whose parameter or result type promotes it (integer / decimal → double / float,
untypedAtomic → the declared type, anyURI → string) appends a NEW value to the pool; every value that was there,
in particular the array or map the member was fetched from, is afterwards exactly what it was — so it is judged
as before, member by member. -/
theorem coercion_does_not_change_argument (tb : Tables) (xsd11 : Bool) (pool : List (List Item))
    (i k : Nat) (t r : Ty) (j : Nat) (hj : j < pool.length) :
    (hStep tb xsd11 pool (.coerce i k t r)).1.getD j [] = pool.getD j [] := by
  obtain ⟨e, h⟩ := hStep_prefix tb xsd11 pool (.coerce i k t r)
  rw [h, List.getD_eq_getElem?_getD, List.getD_eq_getElem?_getD, List.getElem?_append_left hj]

/-- the same over whole histories: a value in the pool is never changed by later operations, hence
(`judgement_history_independent`) every later judgement of it answers as the first one did -/
theorem history_items_persist (tb : Tables) (xsd11 : Bool) (ops : List HOp) (pool : List (List Item)) (j : Nat)
    (hj : j < pool.length) : (hPool tb xsd11 pool ops).getD j [] = pool.getD j [] :=
  hPool_getD tb xsd11 ops pool j hj

/-- a promoted sequence has the length of the argument (promotion is item by item) -/
theorem conversion_keeps_length (tb : Tables) (t : Nat) (v : List Item) : (castSeq tb t v).length = v.length :=
  castSeq_length tb t v

end EPV.C18

/-
C18 — property theorems about the model of the sequence-type judgements (namespace EPV.C18).
The tables are a parameter `tb`; `EPV.Props.C18Tables` proves the hypotheses for the generated tables.
-/
import EPV.Lemmas.SeqTypeRestr
import EPV.Spec.XPathTypes
namespace EPV.C18
open EPV.SeqType

/-- The subtype relation used for function tests is reflexive: every sequence type is a restriction of itself. -/
theorem restriction_refl (tb : Tables) (t : Ty) : isRestriction tb t t = true :=
  isRestriction_refl tb t

/-- The subtype relation used for function tests is transitive (given that `issubclass` on the atomic
and list types is, which `atomic_sub_trans` proves for the live tables). -/
theorem restriction_trans (tb : Tables) (ht : tb.Trans) (t1 t2 t3 : Ty)
    (h1 : isRestriction tb t1 t2 = true) (h2 : isRestriction tb t2 t3 = true) :
    isRestriction tb t1 t3 = true :=
  isRestriction_trans tb ht t1 t2 t3 h1 h2

end EPV.C18

/-
C10 — property theorems for the lexical layer of the atomic datatypes (model: EPV/Model/Lexical.lean,
spec: EPV/Spec/XSDLexical.lean).  Only statements a reader needs; helper lemmas are in
EPV/Lemmas/Lexical*.lean.  Theorems over the generated tables are in EPV/Props/C10Tables.lean.

Reading guide
* `Lex.collapse`        : `collapse_white_spaces` of the implementation (Python regex `[^\S\xa0]+` and strip)
* `XSD.wsCollapse`      : whiteSpace = collapse of XSD 1.1 Part 2 §4.3.6
* `noPyOnlyWhite s`     : no character of `s` is white for Python's regex but not for XSD
                          (the trigger of known finding F10w is its negation)
* `Lex.intCtor b s`     : `T(s)` for a class of the integer family with bounds `b`
* `XSD.integerLex` etc. : the lexical spaces, by the grammar productions of the recommendation
-/
import EPV.Lemmas.LexicalDbl
import EPV.Lemmas.LexicalHex
namespace EPV.C10
open EPV EPV.LexLemmas

/-! ## integer family -/

/-- what XSD prescribes for constructing an integer type with facets `lo..hi` from a string -/
def specIntCtor (lo hi : Option Int) (s : List Char) : Except Lex.Err Int :=
  let t := XSD.wsCollapse s
  if XSD.integerLex t && XSD.inFacets lo hi (XSD.integerVal t) then .ok (XSD.integerVal t) else .error .value

/-- **ctor_iff_lexical (integer family), in terms of the implementation's own collapse** — for every
string and every bounds pair: the constructor succeeds exactly when the collapsed string is in the XSD
lexical space of xs:integer and its value satisfies minInclusive/maxInclusive (`hi − 1`: the stored
higher bound is exclusive); the value produced is the XSD value of the numeral. -/
theorem int_ctor_iff_lexical (b : Lex.Bounds) (s : List Char) :
    Lex.intCtor b s =
      (let t := Lex.collapse s
       if XSD.integerLex t && XSD.inFacets b.lo (b.hi.map (· - 1)) (XSD.integerVal t)
       then .ok (XSD.integerVal t) else .error .value) := by
  unfold Lex.intCtor
  simp only
  rw [matchInteger_eq _ (collapse_no_nl s), intOfLex_eq, bounds_ok_iff_facets]
  cases XSD.integerLex (Lex.collapse s) <;> simp

/-- PARTIAL (known finding F10w): with the XSD definition of white space the statement holds for strings
without Python-only white characters.  Full statement (false, see `int_ctor_fails_unicode_space`):
`∀ s, Lex.intCtor b s = specIntCtor b.lo (b.hi.map (· - 1)) s`. -/
theorem int_ctor_iff_lexical_partial (b : Lex.Bounds) (s : List Char) (h : noPyOnlyWhite s = true) :
    Lex.intCtor b s = specIntCtor b.lo (b.hi.map (· - 1)) s := by
  rw [int_ctor_iff_lexical, collapse_eq_wsCollapse s h]; rfl

/-- F10w witness: U+2003 (EM SPACE) after the digits is collapsed away by the implementation, but is
not XSD white space: `xs:integer('1 ')` = 1 although the literal is not in the lexical space. -/
theorem int_ctor_fails_unicode_space :
    noPyOnlyWhite ['1', ' '] = false ∧
    Lex.intCtor ⟨none, none⟩ ['1', ' '] = .ok 1 ∧
    specIntCtor none none ['1', ' '] = .error .value := by decide

/-- the hypotheses are satisfiable on a non-trivial input (test on literals) -/
example : noPyOnlyWhite " \t+0127\n".toList = true ∧
    Lex.intCtor ⟨some (-128), some 128⟩ " \t+0127\n".toList = .ok 127 ∧
    Lex.intCtor ⟨some (-128), some 128⟩ "128".toList = .error .value := by decide

/-- PARTIAL (known finding F10v): `T.is_valid(s)` agrees with the constructor on strings that are already
in whitespace-normal form (`is_valid` matches the pattern on the raw string, the constructor collapses
first).  Full statement (false, see `int_is_valid_fails_padded`): `∀ s, intIsValid b s = (intCtor b s).toBool`. -/
theorem int_is_valid_iff_ctor_partial (b : Lex.Bounds) (s : List Char) (hn : Lex.collapse s = s) :
    Lex.intIsValid b s = (Lex.intCtor b s).toBool := by
  unfold Lex.intIsValid Lex.intCtor
  simp only [hn]
  cases Lex.matchInteger s <;> simp [Except.toBool]
  split <;> simp_all

/-- F10v witness: `Integer.is_valid(' 12 ')` is False while `Integer(' 12 ')` succeeds; and the `$` of
the pattern lets `is_valid('12\n')` be True on a string that is not whitespace-normal. -/
theorem int_is_valid_fails_padded :
    Lex.intIsValid ⟨none, none⟩ " 12 ".toList = false ∧ (Lex.intCtor ⟨none, none⟩ " 12 ".toList).toBool = true ∧
    Lex.collapse " 12 ".toList ≠ " 12 ".toList ∧ Lex.intIsValid ⟨none, none⟩ "12\n".toList = true := by decide

/-- bounds are enforced by `is_valid` too (after the fix of F10i): test on literals -/
example : Lex.intIsValid ⟨some (-128), some 128⟩ "128".toList = false ∧
    Lex.intIsValid ⟨some (-128), some 128⟩ "-128".toList = true := by decide

/-- **canonical form of integers**: `str(int)` is the XSD canonical representation … -/
theorem int_canon_eq_spec (v : Int) : Lex.intCanon v = XSD.integerCanon v := intCanon_eq v

/-- **canon_fixed_point (integer)**: the canonical string re-parses to the same value, hence is a fixed
point: `parse (canon v) = v ∧ canon (parse (canon v)) = canon v`. -/
theorem int_canon_fixed_point (v : Int) :
    Lex.intCtor ⟨none, none⟩ (Lex.intCanon v) = .ok v ∧
    (match Lex.intCtor ⟨none, none⟩ (Lex.intCanon v) with
      | .ok w => Lex.intCanon w = Lex.intCanon v
      | .error _ => False) := by
  rw [intCtor_intCanon]; exact ⟨rfl, rfl⟩

/-! ## decimal -/

/-- **ctor_iff_lexical (xs:decimal)**: the constructor succeeds exactly when the collapsed string is a
decimalLexicalRep (XSD 1.1 Part 2 §3.3.3.1 [54]); … -/
theorem dec_ctor_iff_lexical (s : List Char) :
    Lex.decCtor s =
      (if XSD.decimalLex (Lex.collapse s) then .ok (Lex.decOfLex (Lex.collapse s)) else .error .value) := by
  unfold Lex.decCtor
  simp only
  rw [matchDecimal_eq _ (collapse_no_nl s)]

/-- … and the Decimal it builds denotes the XSD value of the literal, with the same scale
(`decimalLexicalMap`): numerator `±int(ip ++ fp)`, scale `len(fp)`. -/
theorem dec_ctor_value (s : List Char) (d : Lex.PyDec) (h : Lex.decCtor s = .ok d) :
    pyDecVal d = XSD.decimalVal (Lex.collapse s) := by
  rw [dec_ctor_iff_lexical] at h
  split at h
  · rename_i hl
    cases h
    exact decOfLex_val _ hl
  · cases h

/-- PARTIAL (F10w): the same with XSD white space, for strings without Python-only white characters. -/
theorem dec_ctor_iff_lexical_partial (s : List Char) (h : noPyOnlyWhite s = true) :
    (Lex.decCtor s).toBool = XSD.decimalLex (XSD.wsCollapse s) := by
  rw [dec_ctor_iff_lexical, collapse_eq_wsCollapse s h]
  cases XSD.decimalLex (XSD.wsCollapse s) <;> rfl

/-- F10w witness for xs:decimal (U+3000 IDEOGRAPHIC SPACE) -/
theorem dec_ctor_fails_unicode_space :
    (Lex.decCtor ['　', '1', '.', '5']).toBool = true ∧ XSD.decimalLex (XSD.wsCollapse ['　', '1', '.', '5']) = false := by
  decide

/-- PARTIAL (F10v): `is_valid` agrees with the constructor on whitespace-normal strings. -/
theorem dec_is_valid_iff_ctor_partial (s : List Char) (hn : Lex.collapse s = s) :
    Lex.decIsValid s = (Lex.decCtor s).toBool := by
  unfold Lex.decIsValid Lex.decCtor
  simp only [hn]
  cases Lex.matchDecimal s <;> rfl

/-- the fixes of F10d are visible in the model: inner spaces are not removed (tests on literals) -/
example : (Lex.decCtor "1 2".toList).toBool = false ∧ (Lex.decCtor " +.50\t".toList).toBool = true ∧
    (Lex.decCtor ".".toList).toBool = false ∧ (Lex.decCtor "5.".toList).toBool = true := by decide

/-! ## double / float -/

/-- class of the value denoted by a literal of the double lexical space (the finite value itself is the
correctly rounded `float(literal)` of CPython — trusted) -/
def specDblClass (t : List Char) : Lex.DblClass :=
  if t == "NaN".toList then .nan
  else if t == "INF".toList || t == "+INF".toList then .pinf
  else if t == "-INF".toList then .ninf
  else .num

/-- **ctor_iff_lexical (xs:double, xs:float)**, for each XSD version: the constructor succeeds exactly when
the collapsed string is a doubleRep (XSD 1.1 §3.3.5.2 [57]; under XSD 1.0 without `+INF`), and classifies
the special values correctly. -/
theorem dbl_ctor_iff_lexical (v : Lex.Ver) (s : List Char) :
    Lex.dblCtor v s =
      (if XSD.doubleLex (v != .v10) (Lex.collapse s) then .ok (specDblClass (Lex.collapse s))
       else .error .value) := by
  unfold Lex.dblCtor specDblClass XSD.doubleLex
  simp only
  rw [matchNumericLiteral_eq _ (collapse_no_nl s)]
  generalize Lex.collapse s = t
  by_cases h1 : t = ['N', 'a', 'N']
  · subst h1; cases v <;> decide
  by_cases h2 : t = ['I', 'N', 'F']
  · subst h2; cases v <;> decide
  by_cases h3 : t = ['-', 'I', 'N', 'F']
  · subst h3; cases v <;> decide
  by_cases h4 : t = ['+', 'I', 'N', 'F']
  · subst h4; cases v <;> decide
  have hs : XSD.specialRep (v != .v10) t = false := by
    simp [XSD.specialRep, h1, h2, h3, h4]
  simp only [hs, Bool.or_false]
  simp [h1, h2, h3, h4]

/-- PARTIAL (F10w): with XSD white space. -/
theorem dbl_ctor_iff_lexical_partial (v : Lex.Ver) (s : List Char) (h : noPyOnlyWhite s = true) :
    (Lex.dblCtor v s).toBool = XSD.doubleLex (v != .v10) (XSD.wsCollapse s) := by
  rw [dbl_ctor_iff_lexical, collapse_eq_wsCollapse s h]
  cases XSD.doubleLex (v != .v10) (XSD.wsCollapse s) <;> rfl

/-- the pattern of `DoubleProxy` / `Float` (after the fix of F10a) is the XSD 1.1 lexical space on
newline-free strings … -/
theorem dbl_pattern_eq_lexical (s : List Char) (h : '\n' ∉ s) :
    Lex.matchDouble s = XSD.doubleLex true s := by
  unfold Lex.matchDouble XSD.doubleLex
  rw [matchNumericLiteral_eq s h]
  congr 1
  unfold Lex.matchInfNaN XSD.specialRep
  by_cases h1 : s = ['N', 'a', 'N']
  · subst h1; decide
  by_cases h2 : s = ['I', 'N', 'F']
  · subst h2; decide
  by_cases h3 : s = ['-', 'I', 'N', 'F']
  · subst h3; decide
  by_cases h4 : s = ['+', 'I', 'N', 'F']
  · subst h4; decide
  have hr : (s == "INF".toList || s == "-INF".toList || s == "NaN".toList || (true && s == "+INF".toList)) = false := by
    simp [h1, h2, h3, h4]
  rw [hr]
  split
  · rename_i r
    have hr' : '\n' ∉ r := fun hm => h (by simp [hm])
    rw [atEnd_of_no_nl r hr']
    cases r with
    | nil => exact absurd rfl h1
    | cons _ _ => rfl
  · split
    · rename_i r heq
      have hr' : '\n' ∉ r := by
        intro hm
        have : '\n' ∈ Lex.optSign s := by rw [heq]; simp [hm]
        exact optSign_nl h this
      rw [atEnd_of_no_nl r hr']
      cases r with
      | cons _ _ => rfl
      | nil =>
        exfalso
        unfold Lex.optSign at heq
        split at heq
        · rename_i r2; cases heq; exact h4 rfl
        · rename_i r2; cases heq; exact h3 rfl
        · exact h2 heq
    · rfl

/-- … hence PARTIAL (F10v): `is_valid` agrees with the (version-less) constructor on whitespace-normal
strings.  (`is_valid` knows no XSD version: under XSD 1.0 it still accepts '+INF'.) -/
theorem dbl_is_valid_iff_ctor_partial (s : List Char) (hn : Lex.collapse s = s) :
    Lex.dblIsValid s = (Lex.dblCtor .none s).toBool := by
  have hnl : '\n' ∉ s := by rw [← hn]; exact collapse_no_nl s
  rw [dbl_ctor_iff_lexical, hn]
  unfold Lex.dblIsValid
  rw [dbl_pattern_eq_lexical s hnl]
  have : (Lex.Ver.none != Lex.Ver.v10) = true := by decide
  rw [this]
  cases XSD.doubleLex true s <;> rfl

/-- version dependence and the fixed defects F10a / F10e (tests on literals) -/
example : (Lex.dblCtor .v10 "+INF".toList).toBool = false ∧ Lex.dblCtor .v11 "+INF".toList = .ok .pinf ∧
    (Lex.dblCtor .none "1_0".toList).toBool = false ∧ (Lex.dblCtor .none "-nan".toList).toBool = false ∧
    Lex.dblCtor .none " -1.5E-7 ".toList = .ok .num ∧ Lex.dblIsValid "1.0".toList = true ∧
    (Lex.dblCtor .none "1e".toList).toBool = false ∧ (Lex.dblCtor .none ".e1".toList).toBool = false := by decide

/-! ## boolean -/

/-- **ctor_iff_lexical (xs:boolean)** with the value: 'true' and '1' denote true (XSD 1.1 §3.3.2). -/
theorem bool_ctor_iff_lexical (s : List Char) :
    Lex.boolCtor s =
      (if XSD.booleanLex (Lex.collapse s) then .ok (XSD.booleanVal (Lex.collapse s)) else .error .value) :=
  boolCtor_eq s

/-- PARTIAL (F10w) -/
theorem bool_ctor_iff_lexical_partial (s : List Char) (h : noPyOnlyWhite s = true) :
    Lex.boolCtor s =
      (if XSD.booleanLex (XSD.wsCollapse s) then .ok (XSD.booleanVal (XSD.wsCollapse s)) else .error .value) := by
  rw [boolCtor_eq, collapse_eq_wsCollapse s h]

/-- PARTIAL (F10v) -/
theorem bool_is_valid_iff_ctor_partial (s : List Char) (hn : Lex.collapse s = s) :
    Lex.boolIsValid s = (Lex.boolCtor s).toBool := by
  have hnl : '\n' ∉ s := by rw [← hn]; exact collapse_no_nl s
  unfold Lex.boolIsValid
  rw [matchBoolean_eq s hnl, boolCtor_eq, hn]
  cases XSD.booleanLex s <;> rfl

/-- **canon_fixed_point (boolean)** -/
theorem bool_canon_fixed_point (b : Bool) :
    Lex.boolCtor (if b then "true".toList else "false".toList) = .ok b := by
  cases b <;> decide

/-! ## hexBinary / base64Binary -/

/-- the hexBinary pattern is the XSD lexical space hexOctet* (newline-free strings) -/
theorem hex_pattern_eq_lexical (s : List Char) (h : '\n' ∉ s) : Lex.matchHex s = XSD.hexLex s :=
  matchHex_eq s h

/-- **hex codec**: decode ∘ encode = id over all octet lists (lower- and upper-case rendering). -/
theorem hex_roundtrip (bs : List Lex.Byte) :
    Lex.hexDecode (Lex.hexEncode bs) = some bs ∧ Lex.hexDecode (Lex.hexEncodeUpper bs) = some bs :=
  ⟨hexDecode_hexEncode bs, hexDecode_hexEncodeUpper bs⟩

/-- **base64 codec**: decode ∘ encode = id over all octet lists (RFC 4648 §4 with padding). -/
theorem base64_roundtrip (bs : List Lex.Byte) : Lex.b64Decode (Lex.b64Encode bs) = some bs :=
  b64Decode_b64Encode bs

/-- **hex_base64_value_preserved**: casting xs:hexBinary → xs:base64Binary → xs:hexBinary (and the other way
round) preserves the octets, for every octet list: the casts are `encoder(value.decode())`. -/
theorem hex_base64_value_preserved (bs : List Lex.Byte) :
    (Lex.castHexToB64 (Lex.hexEncode bs)).bind Lex.b64Decode = some bs ∧
    (Lex.castB64ToHex (Lex.b64Encode bs)).bind Lex.hexDecode = some bs ∧
    ((Lex.castHexToB64 (Lex.hexEncode bs)).bind Lex.castB64ToHex) = some (Lex.hexEncode bs) := by
  simp [Lex.castHexToB64, Lex.castB64ToHex, hexDecode_hexEncode, b64Decode_b64Encode]

/-- non-trivial instance (test on literals) -/
example : Lex.b64Encode [65, 66, 67, 68] = "QUJDRA==".toList ∧ Lex.hexEncodeUpper [0, 255, 16] = "00FF10".toList := by
  decide

end EPV.C10

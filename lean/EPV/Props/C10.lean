/-
C10 — property theorems for the lexical layer of the atomic datatypes (model: EPV/Model/Lexical.lean,
spec: EPV/Spec/XSDLexical.lean).  Only statements a reader needs; helper lemmas are in
EPV/Lemmas/Lexical*.lean.  Theorems over the generated tables are in EPV/Props/C10Tables.lean.

Reading guide
* `Lex.collapse`        : `collapse_white_spaces` of the implementation (Python regex `[^\S\xa0]+` and strip)
* `XSD.wsCollapse`      : whiteSpace = collapse of XSD 1.1 Part 2 §4.3.6
* `collapse_eq_wsCollapse_all` : after fix-c10-2 the two coincide on every string (F10w is fixed)
* `Lex.intCtor b s`     : `T(s)` for a class of the integer family with bounds `b`
* `XSD.integerLex` etc. : the lexical spaces, by the grammar productions of the recommendation
-/
import EPV.Lemmas.LexicalCast
import EPV.Lemmas.LexicalRepr
import EPV.Lemmas.LexicalBinStr
import EPV.Lemmas.LexicalLang
import EPV.Lemmas.LexicalStrip
namespace EPV.C10
open EPV EPV.LexLemmas

/-! ## integer family -/

/-- what XSD prescribes for constructing an integer type with facets `lo..hi` from a string -/
def specIntCtor (lo hi : Option Int) (s : List Char) : Except Lex.Err Int :=
  let t := XSD.wsCollapse s
  if XSD.integerLex t && XSD.inFacets lo hi (XSD.integerVal t) then .ok (XSD.integerVal t) else .error .value

/-- **ctor_iff_lexical (integer family), in terms of the implementation's own collapse** — for every
string and every bounds pair: the constructor succeeds exactly when the collapsed string is in the XSD
lexical space of xs:integer and its value satisfies minInclusive/maxInclusive (`hi − 1`: the stored
higher bound is exclusive); the value produced is the XSD value of the numeral. -/
theorem int_ctor_iff_lexical (b : Lex.Bounds) (s : List Char) :
    Lex.intCtor b s =
      (let t := Lex.collapse s
       if XSD.integerLex t && XSD.inFacets b.lo (b.hi.map (· - 1)) (XSD.integerVal t)
       then .ok (XSD.integerVal t) else .error .value) := by
  unfold Lex.intCtor
  simp only
  rw [matchInteger_eq _ (collapse_no_nl s), intOfLex_eq, bounds_ok_iff_facets]
  cases XSD.integerLex (Lex.collapse s) <;> simp

/-- **ctor_iff_lexical (integer family) with the XSD definition of white space** — full strength since
fix-c10-2 (F10w fixed): for every string and bounds pair the constructor does exactly what XSD prescribes. -/
theorem int_ctor_iff_lexical_spec (b : Lex.Bounds) (s : List Char) :
    Lex.intCtor b s = specIntCtor b.lo (b.hi.map (· - 1)) s := by
  rw [int_ctor_iff_lexical, collapse_eq_wsCollapse_all s]; rfl

/-- U+2003 (EM SPACE) is not white space any more: the literal is rejected (the F10w witness of phase 1) -/
theorem int_ctor_rejects_unicode_space :
    Lex.intCtor ⟨none, none⟩ ['1', Char.ofNat 8195] = .error .value ∧
    specIntCtor none none ['1', Char.ofNat 8195] = .error .value ∧
    Lex.intCtor ⟨none, none⟩ ['1', '\t'] = .ok 1 := by
  decide

/-- non-trivial inputs (test on literals) -/
example :
    Lex.intCtor ⟨some (-128), some 128⟩ " \t+0127\n".toList = .ok 127 ∧
    Lex.intCtor ⟨some (-128), some 128⟩ "128".toList = .error .value := by decide

/-- **is_valid_iff_ctor (integer family)** — full strength since fix-c10-2 (F10v fixed): `T.is_valid(s)` and the
constructor agree on every string (both collapse, match the pattern, check the bounds). -/
theorem int_is_valid_iff_ctor (b : Lex.Bounds) (s : List Char) :
    Lex.intIsValid b s = (Lex.intCtor b s).toBool := by
  unfold Lex.intIsValid Lex.intCtor
  simp only
  cases Lex.matchInteger (Lex.collapse s) <;> simp [Except.toBool]
  split <;> simp_all

/-- the F10v witnesses of phase 1 now agree (tests on literals) -/
example : Lex.intIsValid ⟨none, none⟩ " 12 ".toList = true ∧ Lex.intIsValid ⟨none, none⟩ "12\n".toList = true ∧
    (Lex.intCtor ⟨none, none⟩ "12\n".toList).toBool = true ∧ Lex.intIsValid ⟨none, none⟩ "1 2".toList = false := by decide

/-- bounds are enforced by `is_valid` too (after the fix of F10i): test on literals -/
example : Lex.intIsValid ⟨some (-128), some 128⟩ "128".toList = false ∧
    Lex.intIsValid ⟨some (-128), some 128⟩ "-128".toList = true := by decide

/-- **canonical form of integers**: `str(int)` is the XSD canonical representation … -/
theorem int_canon_eq_spec (v : Int) : Lex.intCanon v = XSD.integerCanon v := intCanon_eq v

/-- **canon_fixed_point (integer)**: the canonical string re-parses to the same value, hence is a fixed
point: `parse (canon v) = v ∧ canon (parse (canon v)) = canon v`. -/
theorem int_canon_fixed_point (v : Int) :
    Lex.intCtor ⟨none, none⟩ (Lex.intCanon v) = .ok v ∧
    (match Lex.intCtor ⟨none, none⟩ (Lex.intCanon v) with
      | .ok w => Lex.intCanon w = Lex.intCanon v
      | .error _ => False) := by
  rw [intCtor_intCanon]; exact ⟨rfl, rfl⟩

/-! ## decimal -/

/-- **ctor_iff_lexical (xs:decimal)**: the constructor succeeds exactly when the collapsed string is a
decimalLexicalRep (XSD 1.1 Part 2 §3.3.3.1 [54]); … -/
theorem dec_ctor_iff_lexical (s : List Char) :
    Lex.decCtor s =
      (if XSD.decimalLex (Lex.collapse s) then .ok (Lex.decOfLex (Lex.collapse s)) else .error .value) := by
  unfold Lex.decCtor
  simp only
  rw [matchDecimal_eq _ (collapse_no_nl s)]

/-- … and the Decimal it builds denotes the XSD value of the literal, with the same scale
(`decimalLexicalMap`): numerator `±int(ip ++ fp)`, scale `len(fp)`. -/
theorem dec_ctor_value (s : List Char) (d : Lex.PyDec) (h : Lex.decCtor s = .ok d) :
    pyDecVal d = XSD.decimalVal (Lex.collapse s) := by
  rw [dec_ctor_iff_lexical] at h
  split at h
  · rename_i hl
    cases h
    exact decOfLex_val _ hl
  · cases h

/-- the same with the XSD definition of white space (full strength since fix-c10-2) -/
theorem dec_ctor_iff_lexical_spec (s : List Char) :
    (Lex.decCtor s).toBool = XSD.decimalLex (XSD.wsCollapse s) := by
  rw [dec_ctor_iff_lexical, collapse_eq_wsCollapse_all s]
  cases XSD.decimalLex (XSD.wsCollapse s) <;> rfl

/-- **is_valid_iff_ctor (xs:decimal)**, every string -/
theorem dec_is_valid_iff_ctor (s : List Char) : Lex.decIsValid s = (Lex.decCtor s).toBool := by
  unfold Lex.decIsValid Lex.decCtor
  simp only
  cases Lex.matchDecimal (Lex.collapse s) <;> rfl

/-- the fixes of F10d are visible in the model: inner spaces are not removed (tests on literals) -/
example : (Lex.decCtor "1 2".toList).toBool = false ∧ (Lex.decCtor " +.50\t".toList).toBool = true ∧
    (Lex.decCtor ".".toList).toBool = false ∧ (Lex.decCtor "5.".toList).toBool = true := by decide

/-- **canon_fixed_point (xs:decimal)**: for every Decimal `d` built from digit strings, the canonical
string `string_value(d)` re-parses (through the constructor, no white-space surprises) to a Decimal `d'`
that denotes the same number, and printing `d'` gives the same string again:
`parse (canon d) ≈ d ∧ canon (parse (canon d)) = canon d`. -/
theorem dec_canon_fixed_point (d : Lex.PyDec) (h : WFDec d) :
    ∃ d', Lex.decCtor (Lex.decCanon d) = .ok d' ∧ (pyDecVal d').same (pyDecVal d) ∧
      Lex.decCanon d' = Lex.decCanon d :=
  ⟨reparsed d, decCtor_decCanon d h, reparsed_same d, decCanon_reparsed d⟩

/-- … in particular for every Decimal the constructor itself produces from a string. -/
theorem dec_canon_fixed_point_of_ctor (s : List Char) (d : Lex.PyDec) (h : Lex.decCtor s = .ok d) :
    ∃ d', Lex.decCtor (Lex.decCanon d) = .ok d' ∧ (pyDecVal d').same (pyDecVal d) ∧
      Lex.decCanon d' = Lex.decCanon d := by
  rw [dec_ctor_iff_lexical] at h
  split at h
  · rename_i hl
    cases h
    exact dec_canon_fixed_point _ (decOfLex_wf _ hl)
  · cases h

/-- the canonical string is *syntactically* canonical (XSD 1.1 §3.3.3.2 / F&O 19.1.1): no '+', a single
leading zero only directly before the point, no trailing fractional zero, no point for an integral value,
no "-0". -/
theorem dec_canon_is_canonical (d : Lex.PyDec) (h : WFDec d) :
    XSD.isCanonicalDecimal (Lex.decCanon d) = true := decCanon_isCanonical d h

/-- the fix of F10z is visible in the model (tests on literals): negative zero prints as "0" -/
example : Lex.decCanon ⟨true, "0".toList, "00".toList⟩ = "0".toList ∧
    Lex.decCanon ⟨true, "007".toList, "500".toList⟩ = "-7.5".toList ∧
    Lex.decCanon ⟨false, [], "5".toList⟩ = "0.5".toList := by decide

/-! ## double / float -/

/-- class of the value denoted by a literal of the double lexical space (the finite value itself is the
correctly rounded `float(literal)` of CPython — trusted) -/
def specDblClass (t : List Char) : Lex.DblClass :=
  if t == "NaN".toList then .nan
  else if t == "INF".toList || t == "+INF".toList then .pinf
  else if t == "-INF".toList then .ninf
  else .num

/-- **ctor_iff_lexical (xs:double, xs:float)**, for each XSD version: the constructor succeeds exactly when
the collapsed string is a doubleRep (XSD 1.1 §3.3.5.2 [57]; under XSD 1.0 without `+INF`), and classifies
the special values correctly. -/
theorem dbl_ctor_iff_lexical (v : Lex.Ver) (s : List Char) :
    Lex.dblCtor v s =
      (if XSD.doubleLex (v != .v10) (Lex.collapse s) then .ok (specDblClass (Lex.collapse s))
       else .error .value) := by
  unfold Lex.dblCtor specDblClass XSD.doubleLex
  simp only
  rw [matchNumericLiteral_eq _ (collapse_no_nl s)]
  generalize Lex.collapse s = t
  by_cases h1 : t = ['N', 'a', 'N']
  · subst h1; cases v <;> decide
  by_cases h2 : t = ['I', 'N', 'F']
  · subst h2; cases v <;> decide
  by_cases h3 : t = ['-', 'I', 'N', 'F']
  · subst h3; cases v <;> decide
  by_cases h4 : t = ['+', 'I', 'N', 'F']
  · subst h4; cases v <;> decide
  have hs : XSD.specialRep (v != .v10) t = false := by
    simp [XSD.specialRep, h1, h2, h3, h4]
  simp only [hs, Bool.or_false]
  simp [h1, h2, h3, h4]

/-- with the XSD definition of white space (full strength since fix-c10-2) -/
theorem dbl_ctor_iff_lexical_spec (v : Lex.Ver) (s : List Char) :
    (Lex.dblCtor v s).toBool = XSD.doubleLex (v != .v10) (XSD.wsCollapse s) := by
  rw [dbl_ctor_iff_lexical, collapse_eq_wsCollapse_all s]
  cases XSD.doubleLex (v != .v10) (XSD.wsCollapse s) <;> rfl

/-- the pattern of `DoubleProxy` / `Float` (after the fix of F10a) is the XSD 1.1 lexical space on
newline-free strings … -/
theorem dbl_pattern_eq_lexical (s : List Char) (h : '\n' ∉ s) :
    Lex.matchDouble s = XSD.doubleLex true s := by
  unfold Lex.matchDouble XSD.doubleLex
  rw [matchNumericLiteral_eq s h]
  congr 1
  unfold Lex.matchInfNaN XSD.specialRep
  by_cases h1 : s = ['N', 'a', 'N']
  · subst h1; decide
  by_cases h2 : s = ['I', 'N', 'F']
  · subst h2; decide
  by_cases h3 : s = ['-', 'I', 'N', 'F']
  · subst h3; decide
  by_cases h4 : s = ['+', 'I', 'N', 'F']
  · subst h4; decide
  have hr : (s == "INF".toList || s == "-INF".toList || s == "NaN".toList || (true && s == "+INF".toList)) = false := by
    simp [h1, h2, h3, h4]
  rw [hr]
  split
  · rename_i r
    have hr' : '\n' ∉ r := fun hm => h (by simp [hm])
    rw [atEnd_of_no_nl r hr']
    cases r with
    | nil => exact absurd rfl h1
    | cons _ _ => rfl
  · split
    · rename_i r heq
      have hr' : '\n' ∉ r := by
        intro hm
        have : '\n' ∈ Lex.optSign s := by rw [heq]; simp [hm]
        exact optSign_nl h this
      rw [atEnd_of_no_nl r hr']
      cases r with
      | cons _ _ => rfl
      | nil =>
        exfalso
        unfold Lex.optSign at heq
        split at heq
        · rename_i r2; cases heq; exact h4 rfl
        · rename_i r2; cases heq; exact h3 rfl
        · exact h2 heq
    · rfl

/-- … hence **is_valid_iff_ctor (xs:double, xs:float)** on every string, for the version-less constructor.
(`is_valid` knows no XSD version: under XSD 1.0 it still accepts '+INF'.) -/
theorem dbl_is_valid_iff_ctor (s : List Char) : Lex.dblIsValid s = (Lex.dblCtor .none s).toBool := by
  rw [dbl_ctor_iff_lexical]
  unfold Lex.dblIsValid
  rw [dbl_pattern_eq_lexical _ (collapse_no_nl s)]
  have : (Lex.Ver.none != Lex.Ver.v10) = true := by decide
  rw [this]
  cases XSD.doubleLex true (Lex.collapse s) <;> rfl

/-- version dependence and the fixed defects F10a / F10e (tests on literals) -/
example : (Lex.dblCtor .v10 "+INF".toList).toBool = false ∧ Lex.dblCtor .v11 "+INF".toList = .ok .pinf ∧
    (Lex.dblCtor .none "1_0".toList).toBool = false ∧ (Lex.dblCtor .none "-nan".toList).toBool = false ∧
    Lex.dblCtor .none " -1.5E-7 ".toList = .ok .num ∧ Lex.dblIsValid "1.0".toList = true ∧
    (Lex.dblCtor .none "1e".toList).toBool = false ∧ (Lex.dblCtor .none ".e1".toList).toBool = false := by decide

/-! ## boolean -/

/-- **ctor_iff_lexical (xs:boolean)** with the value: 'true' and '1' denote true (XSD 1.1 §3.3.2). -/
theorem bool_ctor_iff_lexical (s : List Char) :
    Lex.boolCtor s =
      (if XSD.booleanLex (Lex.collapse s) then .ok (XSD.booleanVal (Lex.collapse s)) else .error .value) :=
  boolCtor_eq s

/-- with the XSD definition of white space (full strength since fix-c10-2) -/
theorem bool_ctor_iff_lexical_spec (s : List Char) :
    Lex.boolCtor s =
      (if XSD.booleanLex (XSD.wsCollapse s) then .ok (XSD.booleanVal (XSD.wsCollapse s)) else .error .value) := by
  rw [boolCtor_eq, collapse_eq_wsCollapse_all s]

/-- **is_valid_iff_ctor (xs:boolean)**, every string -/
theorem bool_is_valid_iff_ctor (s : List Char) : Lex.boolIsValid s = (Lex.boolCtor s).toBool := by
  unfold Lex.boolIsValid
  rw [matchBoolean_eq _ (collapse_no_nl s), boolCtor_eq]
  cases XSD.booleanLex (Lex.collapse s) <;> rfl

/-- **canon_fixed_point (boolean)** -/
theorem bool_canon_fixed_point (b : Bool) :
    Lex.boolCtor (if b then "true".toList else "false".toList) = .ok b := by
  cases b <;> decide

/-! ## language -/

/-- **ctor_iff_lexical (xs:language)**: `Language(s)` succeeds exactly when the collapsed string is one to eight
letters followed by hyphen-separated sub-tags of one to eight letters or digits (XSD 1.1 Part 2 §3.4.3), and the
value is the collapsed string — every string. -/
theorem language_ctor_iff_lexical (s : List Char) :
    Lex.langCtor s = if XSD.languageLex (XSD.wsCollapse s) then some (XSD.wsCollapse s) else none := by
  unfold Lex.langCtor
  rw [matchLanguage_eq, collapse_eq_wsCollapse_all]

/-- tests on literals -/
example : Lex.langCtor " en-US\n".toList = some "en-US".toList ∧ Lex.langCtor "abcdefghi".toList = none ∧
    Lex.langCtor "en-".toList = none ∧ Lex.langCtor "e1".toList = none ∧ (Lex.langCtor "x-klingon-12345678".toList).isSome ∧
    Lex.langCtor "en--US".toList = none ∧ Lex.langCtor "".toList = none := by
  simp only [language_ctor_iff_lexical]; decide

/-! ## hexBinary / base64Binary -/

/-- the hexBinary pattern is the XSD lexical space hexOctet* (newline-free strings) -/
theorem hex_pattern_eq_lexical (s : List Char) (h : '\n' ∉ s) : Lex.matchHex s = XSD.hexLex s :=
  matchHex_eq s h

/-- **ctor_iff_lexical (xs:hexBinary)**: the constructor succeeds exactly when the collapsed string is
hexOctet* (XSD 1.1 §3.3.15), and stores that string (`str.strip()` inside `validate` and the ASCII
encoding step change nothing on accepted input, and reject U+00A0-padded input). -/
theorem hex_ctor_iff_lexical (s : List Char) :
    Lex.hexCtor s = if XSD.hexLex (Lex.collapse s) then .ok (Lex.collapse s) else .error .value :=
  hexCtor_eq s

/-- with the XSD definition of white space (full strength since fix-c10-2) -/
theorem hex_ctor_iff_lexical_spec (s : List Char) :
    (Lex.hexCtor s).toBool = XSD.hexLex (XSD.wsCollapse s) := by
  rw [hexCtor_eq, collapse_eq_wsCollapse_all s]
  cases XSD.hexLex (XSD.wsCollapse s) <;> rfl

/-- **is_valid_iff_ctor (xs:hexBinary)**, every string (full strength since phase 3): `HexBinary.validate` trims with
`strip(' \\t\\n\\r')` where the constructor collapses; the two normalisations agree or both leave white space inside
(`LexLemmas.pyStrip_or_white`), which the pattern rejects either way. -/
theorem hex_is_valid_iff_ctor (s : List Char) :
    Lex.hexIsValid s = (Lex.hexCtor s).toBool := by
  rw [hexIsValid_eq, hexCtor_eq]
  cases XSD.hexLex (Lex.collapse s) <;> rfl

/-- **ctor_iff_lexical (xs:base64Binary)**: the constructor succeeds exactly when the collapsed string is in
the lexical space of XSD 1.1 §3.3.16 (quads of Base64 characters, optional single spaces, `=` padding only
after a B16 / `==` only after a B04 character), and stores it without the spaces. -/
theorem base64_ctor_iff_lexical (s : List Char) :
    Lex.b64Ctor s =
      if XSD.base64Lex (Lex.collapse s) then .ok ((Lex.collapse s).filter (· != ' ')) else .error .value :=
  b64Ctor_eq s

/-- with the XSD definition of white space (full strength since fix-c10-2) -/
theorem base64_ctor_iff_lexical_spec (s : List Char) :
    (Lex.b64Ctor s).toBool = XSD.base64Lex (XSD.wsCollapse s) := by
  rw [b64Ctor_eq, collapse_eq_wsCollapse_all s]
  cases XSD.base64Lex (XSD.wsCollapse s) <;> rfl

/-- **is_valid_iff_ctor (xs:base64Binary)**, every string -/
theorem base64_is_valid_iff_ctor (s : List Char) : Lex.b64IsValid s = (Lex.b64Ctor s).toBool := by
  rw [b64Ctor_eq]
  unfold Lex.b64IsValid
  rw [matchB64_eq, ← base64Lex_eq]
  cases XSD.base64Lex (Lex.collapse s) <;> rfl

/-- tests on literals: padding rules -/
example : (Lex.b64Ctor "AA= =".toList).toBool = true ∧ (Lex.b64Ctor "AB==".toList).toBool = false ∧
    (Lex.b64Ctor " QU JD ".toList) = .ok "QUJD".toList ∧ (Lex.hexCtor "0F 0F".toList).toBool = false ∧
    Lex.hexCtor " 0f\n".toList = .ok "0f".toList ∧ (Lex.hexCtor [Char.ofNat 160, '0', 'F']).toBool = false ∧
    (Lex.hexCtor [Char.ofNat 8195, '0', 'F']).toBool = false := by decide

/-- **hex codec**: decode ∘ encode = id over all octet lists (lower- and upper-case rendering). -/
theorem hex_roundtrip (bs : List Lex.Byte) :
    Lex.hexDecode (Lex.hexEncode bs) = some bs ∧ Lex.hexDecode (Lex.hexEncodeUpper bs) = some bs :=
  ⟨hexDecode_hexEncode bs, hexDecode_hexEncodeUpper bs⟩

/-- **base64 codec**: decode ∘ encode = id over all octet lists (RFC 4648 §4 with padding). -/
theorem base64_roundtrip (bs : List Lex.Byte) : Lex.b64Decode (Lex.b64Encode bs) = some bs :=
  b64Decode_b64Encode bs

/-- **hex_base64_value_preserved**: casting xs:hexBinary → xs:base64Binary → xs:hexBinary (and the other way
round) preserves the octets, for every octet list: the casts are `encoder(value.decode())`. -/
theorem hex_base64_value_preserved (bs : List Lex.Byte) :
    (Lex.castHexToB64 (Lex.hexEncode bs)).bind Lex.b64Decode = some bs ∧
    (Lex.castB64ToHex (Lex.b64Encode bs)).bind Lex.hexDecode = some bs ∧
    ((Lex.castHexToB64 (Lex.hexEncode bs)).bind Lex.castB64ToHex) = some (Lex.hexEncode bs) := by
  simp [Lex.castHexToB64, Lex.castB64ToHex, hexDecode_hexEncode, b64Decode_b64Encode]

/-- **binary ↔ string casts**: for every octet list, the string of an xs:hexBinary value (upper-case hex,
`HexBinary.__str__`) and of an xs:base64Binary value (the encoder's text) are literals of the lexical spaces:
the constructors accept them, store them unchanged, and decode the same octets —
`xs:hexBinary(xs:string(h)) = h`, `xs:base64Binary(xs:string(b)) = b`. -/
theorem binary_string_roundtrip (bs : List Lex.Byte) :
    (Lex.hexCtor (Lex.hexEncodeUpper bs) = .ok (Lex.hexEncodeUpper bs) ∧
      Lex.hexDecode (Lex.hexEncodeUpper bs) = some bs) ∧
    (Lex.b64Ctor (Lex.b64Encode bs) = .ok (Lex.b64Encode bs) ∧ Lex.b64Decode (Lex.b64Encode bs) = some bs) :=
  ⟨hexCtor_hexEncodeUpper bs, b64Ctor_b64Encode bs⟩

/-- non-trivial instance (test on literals) -/
example : Lex.b64Encode [65, 66, 67, 68] = "QUJDRA==".toList ∧ Lex.hexEncodeUpper [0, 255, 16] = "00FF10".toList := by
  decide

/-! ## casting: numeric / string / boolean / untypedAtomic corner -/

/-- **castable_iff_cast_ok**: `E castable as T` is true exactly when `E cast as T` succeeds.  (In the
implementation `castable` *is* "run the cast, catch the error"; the model transcribes that, so this holds
by construction — the agreement of the three real code paths is what the correspondence checks.) -/
theorem castable_iff_cast_ok (ver : Lex.Ver) (a : Lex.Atom) (t : Lex.Target) :
    Lex.castable ver a t = true ↔ ∃ v, Lex.cast ver a t = .ok v := by
  unfold Lex.castable
  cases Lex.cast ver a t <;> simp [Except.toBool]

/-- the same on operand *sequences*: `castable` is true exactly when the cast succeeds (possibly with the empty
sequence, for `?`), the constructor function is the cast with `?`, and anything but a single item is decided
without looking at the target type -/
theorem castable_seq_iff_cast_ok (ver : Lex.Ver) (items : List Lex.Atom) (opt : Bool) (t : Lex.Target) :
    (Lex.castableSeq ver items opt t = true ↔ ∃ r, Lex.castSeq ver items opt t = .ok r) ∧
    Lex.ctorFn ver items t = Lex.castSeq ver items true t ∧
    (items = [] → Lex.castSeq ver items opt t = if opt then .ok none else .error .XPTY0004) ∧
    (2 ≤ items.length → Lex.castSeq ver items opt t = .error .XPTY0004) := by
  refine ⟨?_, rfl, ?_, ?_⟩
  · unfold Lex.castableSeq
    cases Lex.castSeq ver items opt t <;> simp [Except.toBool]
  · intro h; subst h; rfl
  · intro h
    match items, h with
    | _ :: _ :: _, _ => rfl

/-- **cast_eq_constructor**: casting a string (or an xs:untypedAtomic) is running the datatypes
constructor on it and mapping `ValueError` to FORG0001 — for each modelled target. -/
theorem cast_eq_constructor (ver : Lex.Ver) (s : List Char) :
    (∀ b, Lex.cast ver (.str s) (.integer b) =
      match Lex.intCtor b s with | .ok v => .ok (.int v) | .error _ => .error .FORG0001) ∧
    (Lex.cast ver (.str s) .decimal =
      match Lex.decCtor s with | .ok d => .ok (.dec d.neg d.coef d.scale) | .error _ => .error .FORG0001) ∧
    (Lex.cast ver (.str s) .double =
      match Lex.dblCtor ver s with | .ok c => .ok (.dbl c) | .error _ => .error .FORG0001) ∧
    (Lex.cast ver (.str s) .boolean =
      match Lex.boolCtor s with | .ok b => .ok (.bool b) | .error _ => .error .FORG0001) ∧
    (∀ t, Lex.cast ver (.untyped s) t = match t, Lex.cast ver (.str s) t with
      | .untypedAtomic, r => r
      | _, r => r) := by
  refine ⟨fun _ => rfl, rfl, rfl, rfl, ?_⟩
  intro t; cases t <;> rfl

/-- which (operand, target) pairs `cast_eq_spec_partial` speaks about -/
def castInScope (a : Lex.Atom) (t : Lex.Target) : Prop :=
  match a, t with
  | .dbl _ _, .string => False                  -- stated separately: `double_string`
  | .dbl _ _, .untypedAtomic => False
  | .dec _, .string => False                    -- canonical decimal strings: see `dec_canon_fixed_point`
  | .dec _, .untypedAtomic => False
  | _, _ => True

/-- PARTIAL: **the casts of the corner follow F&O 3.1 §19** — success and value (error codes forgotten):
strings/untypedAtomic through the lexical spaces (XSD white space), boolean ↔ numeric, truncation toward zero for
decimal/double → integer with the facets of the derived types, exact double → decimal, exact
integer → decimal, integer → double always succeeds.  Out of scope (`castInScope`): double → string (`double_string`) and
decimal → string (stated separately as `dec_canon_fixed_point`, `dec_canon_is_canonical`). -/
theorem cast_eq_spec_partial (ver : Lex.Ver) (a : Lex.Atom) (t : Lex.Target) (h : castInScope a t) :
    toSRes (Lex.cast ver a t) = XSD.castSpec (toSAtom a) (toSType ver t) := by
  have hs := h
  have hwAll := noPyOnlyWhite_all
  cases t with
  | string =>
    cases a <;> simp_all [castInScope, Lex.cast, toSRes, toSVal, toSType, XSD.castSpec, toSAtom, Lex.stringValue,
      XSD.castToString, intCanon_eq]
  | untypedAtomic =>
    cases a <;> simp_all [castInScope, Lex.cast, toSRes, toSVal, toSType, XSD.castSpec, toSAtom, Lex.stringValue,
      XSD.castToString, intCanon_eq]
  | boolean =>
    cases a with
    | str s =>
      simp only [Lex.cast, toSType, XSD.castSpec, toSAtom]
      rw [boolCtor_eq, collapse_eq_wsCollapse s (hwAll s)]
      cases XSD.booleanLex (XSD.wsCollapse s) <;> rfl
    | untyped s =>
      simp only [Lex.cast, toSType, XSD.castSpec, toSAtom]
      rw [boolCtor_eq, collapse_eq_wsCollapse s (hwAll s)]
      cases XSD.booleanLex (XSD.wsCollapse s) <;> rfl
    | bool b => rfl
    | int v => rfl
    | dec d =>
      simp only [Lex.cast, toSType, XSD.castSpec, toSAtom, toSRes, toSVal, pyDecVal]
      congr 2
      exact coef_ne_zero d.neg d.coef
    | dbl x r => cases x <;> rfl
  | integer b =>
    cases a with
    | str s =>
      simp only [Lex.cast, toSType, XSD.castSpec, toSAtom]
      rw [int_ctor_iff_lexical_spec b s]
      unfold specIntCtor
      simp only
      cases XSD.integerLex (XSD.wsCollapse s) <;> simp [toSRes, toSVal]
      cases XSD.inFacets b.lo (Option.map (fun x => x - 1) b.hi) (XSD.integerVal (XSD.wsCollapse s)) <;> simp [toSRes, toSVal]
    | untyped s =>
      simp only [Lex.cast, toSType, XSD.castSpec, toSAtom]
      rw [int_ctor_iff_lexical_spec b s]
      unfold specIntCtor
      simp only
      cases XSD.integerLex (XSD.wsCollapse s) <;> simp [toSRes, toSVal]
      cases XSD.inFacets b.lo (Option.map (fun x => x - 1) b.hi) (XSD.integerVal (XSD.wsCollapse s)) <;> simp [toSRes, toSVal]
    | bool x =>
      simp only [Lex.cast, toSType, XSD.castSpec, toSAtom, bounds_ok_iff_facets]
      exact toSRes_check _ _ _
    | int v =>
      simp only [Lex.cast, toSType, XSD.castSpec, toSAtom, bounds_ok_iff_facets]
      exact toSRes_check _ _ _
    | dec d =>
      simp only [Lex.cast, toSType, XSD.castSpec, toSAtom, bounds_ok_iff_facets, truncQuot_eq, pyDecVal]
      exact toSRes_check _ _ _
    | dbl x r =>
      cases x with
      | fin neg n k =>
        simp only [Lex.cast, toSType, XSD.castSpec, toSAtom, bounds_ok_iff_facets, truncQuot_eq]
        exact toSRes_check _ _ _
      | _ => rfl
  | decimal =>
    cases a with
    | str s =>
      simp only [Lex.cast, toSType, XSD.castSpec, toSAtom]
      rw [dec_ctor_iff_lexical, collapse_eq_wsCollapse s (hwAll s)]
      cases hl : XSD.decimalLex (XSD.wsCollapse s)
      · simp [toSRes]
      · have := decOfLex_val _ hl
        simp only [pyDecVal] at this
        simp only [↓reduceIte, toSRes, toSVal, this]
    | untyped s =>
      simp only [Lex.cast, toSType, XSD.castSpec, toSAtom]
      rw [dec_ctor_iff_lexical, collapse_eq_wsCollapse s (hwAll s)]
      cases hl : XSD.decimalLex (XSD.wsCollapse s)
      · simp [toSRes]
      · have := decOfLex_val _ hl
        simp only [pyDecVal] at this
        simp only [↓reduceIte, toSRes, toSVal, this]
    | bool x => cases x <;> rfl
    | int v =>
      simp only [Lex.cast, toSType, XSD.castSpec, toSAtom, toSRes, toSVal, natAbs_signed]
    | dec d => rfl
    | dbl x r =>
      cases x with
      | fin neg n k =>
        simp only [Lex.cast, toSType, XSD.castSpec, toSAtom, toSRes, toSVal]
        congr 3
        cases neg <;> simp [Int.neg_mul]
      | _ => rfl
  | double =>
    cases a with
    | str s =>
      simp only [Lex.cast, toSType, XSD.castSpec, toSAtom]
      rw [dbl_ctor_iff_lexical, collapse_eq_wsCollapse s (hwAll s)]
      cases XSD.doubleLex (ver != .v10) (XSD.wsCollapse s)
      · rfl
      · simp only [↓reduceIte, toSRes, toSVal, specDblClass]
        rw [specDblClass_eq]
    | untyped s =>
      simp only [Lex.cast, toSType, XSD.castSpec, toSAtom]
      rw [dbl_ctor_iff_lexical, collapse_eq_wsCollapse s (hwAll s)]
      cases XSD.doubleLex (ver != .v10) (XSD.wsCollapse s)
      · rfl
      · simp only [↓reduceIte, toSRes, toSVal, specDblClass]
        rw [specDblClass_eq]
    | bool x => rfl
    | int v =>
      simp only [Lex.cast, toSType, XSD.castSpec, toSAtom, toSRes, toSVal, Lex.intDblClass, XSD.integerDoubleClass]
      split
      · rfl
      · split <;> rfl
    | dec d => rfl
    | dbl x r => cases x <;> rfl
  | float =>
    cases a with
    | str s =>
      simp only [Lex.cast, toSType, XSD.castSpec, toSAtom]
      rw [dbl_ctor_iff_lexical, collapse_eq_wsCollapse s (hwAll s)]
      cases XSD.doubleLex (ver != .v10) (XSD.wsCollapse s)
      · rfl
      · simp only [↓reduceIte, toSRes, toSVal, specDblClass]
        rw [specDblClass_eq]
    | untyped s =>
      simp only [Lex.cast, toSType, XSD.castSpec, toSAtom]
      rw [dbl_ctor_iff_lexical, collapse_eq_wsCollapse s (hwAll s)]
      cases XSD.doubleLex (ver != .v10) (XSD.wsCollapse s)
      · rfl
      · simp only [↓reduceIte, toSRes, toSVal, specDblClass]
        rw [specDblClass_eq]
    | bool x => rfl
    | int v =>
      simp only [Lex.cast, toSType, XSD.castSpec, toSAtom, toSRes, toSVal, Lex.intDblClass, XSD.integerDoubleClass]
      split
      · rfl
      · split <;> rfl
    | dec d => rfl
    | dbl x r => cases x <;> rfl

/-- **int_dec_string_roundtrip**: for every integer `v`
* integer → string → integer is the identity (`str(v)` is in the lexical space and re-parses to `v`),
* integer → decimal → integer is the identity (exact conversion, truncation of an integral value),
* the canonical string of `v` read as xs:decimal has value `v` (scale 0) and prints as the same string. -/
theorem int_dec_string_roundtrip (ver : Lex.Ver) (v : Int) :
    Lex.cast ver (.int v) .string = .ok (.str (Lex.intCanon v)) ∧
    Lex.cast ver (.str (Lex.intCanon v)) (.integer ⟨none, none⟩) = .ok (.int v) ∧
    Lex.cast ver (.int v) .decimal = .ok (.dec (decide (v < 0)) v.natAbs 0) ∧
    Lex.truncQuot (decide (v < 0)) v.natAbs (10 ^ 0) = v ∧
    (∃ d, Lex.decCtor (Lex.intCanon v) = .ok d ∧ pyDecVal d = ⟨v, 0⟩ ∧ Lex.decCanon d = Lex.intCanon v) := by
  refine ⟨rfl, ?_, rfl, ?_, ?_⟩
  · simp only [Lex.cast, intCtor_intCanon]
  · unfold Lex.truncQuot
    by_cases h : v < 0
    · simp only [h, decide_true, ↓reduceIte, Nat.pow_zero, Nat.div_one]; omega
    · simp only [h, decide_false, Bool.false_eq_true, ↓reduceIte, Nat.pow_zero, Nat.div_one]; omega
  · have hlex : XSD.decimalLex (Lex.intCanon v) = true := by
      have hnl : '\n' ∉ Lex.intCanon v := by
        intro hm; have := intCanon_no_white v _ hm; exact absurd this (by decide)
      have hm : Lex.matchInteger (Lex.intCanon v) = true := by
        have := matchInteger_digits _ (Nat.toDigits_ne_nil (b := 10) (n := v.natAbs)) (toDigits_all_digit v.natAbs)
        unfold Lex.intCanon; split
        · exact this.2
        · exact this.1
      rw [matchInteger_eq _ hnl] at hm
      unfold XSD.decimalLex; unfold XSD.integerLex at hm; simp [hm]
    refine ⟨Lex.decOfLex (Lex.intCanon v), ?_, ?_, ?_⟩
    · rw [dec_ctor_iff_lexical, collapse_of_no_white _ (intCanon_no_white v), hlex]; rfl
    · rw [decOfLex_intCanon]
      simp only [pyDecVal, Lex.PyDec.coef, Lex.PyDec.scale, List.append_nil, List.length_nil, Lex.digitsVal,
        Nat.ofDigitChars_ten_toDigits, natAbs_signed]
    · rw [decOfLex_intCanon, decCanon_of_int]

/-- **double → string is the canonical form** (full strength since fix-c10-7; former finding F10b): for every sign, every
digit string and every exponent of `Decimal(repr(x)).as_tuple()`, `atomic_string_value` produces the F&O / XSD canonical
representation of the double whose shortest digits are the coefficient without its trailing zeros and whose decimal exponent is
`exponent + len(digits) − 1`: decimal notation for 1e-6 ≤ |x| < 1e6, otherwise `d.dddE<exponent>` with at least one fraction
digit and an exponent without sign or leading zeros.  (The digits are CPython's `repr`; `decTupleOfRepr` reads them off.) -/
theorem double_string (neg : Bool) (digits : List Char) (exp : Int) :
    Lex.dblOfTuple neg digits exp =
      XSD.doubleCanon neg (Lex.rstrip '0' digits) (exp + (digits.length : Int) - 1) := by
  unfold Lex.dblOfTuple XSD.doubleCanon
  simp only []
  generalize Lex.rstrip '0' digits = text
  generalize exp + (digits.length : Int) - 1 = e
  have hbody : ∀ a b : List Char, a = b →
      (if neg then ['-'] else []) ++ a = if neg then '-' :: b else b := by
    intro a b h; subst h; cases neg <;> rfl
  apply hbody
  by_cases hr : -6 ≤ e ∧ e < 6
  · have hb : (decide (-6 ≤ e) && decide (e < 6)) = true := by simp [hr.1, hr.2]
    rw [if_pos hr, if_pos hb]
    by_cases hneg : e < 0
    · have h0 : ¬ (0 ≤ e) := by omega
      rw [if_pos hneg, if_neg h0]
    · have h0 : 0 ≤ e := by omega
      rw [if_neg hneg, if_pos h0]
      by_cases hl : text.length ≤ e.toNat + 1
      · rw [if_pos hl, List.take_of_length_le hl, List.drop_of_length_le hl]
        rfl
      · have hz : e.toNat + 1 - text.length = 0 := by omega
        have hd : (text.drop (e.toNat + 1)).isEmpty = false := by
          cases hx : text.drop (e.toNat + 1) with
          | nil => have := List.drop_eq_nil_iff.1 hx; omega
          | cons _ _ => rfl
        rw [if_neg hl, hz, hd]
        simp
  · have hb : ¬ (decide (-6 ≤ e) && decide (e < 6)) = true := by
      intro hc
      simp only [Bool.and_eq_true, decide_eq_true_eq] at hc
      exact hr hc
    rw [if_neg hr, if_neg hb, intCanon_eq]
    congr 1
    match text with
    | [] => rfl
    | [d] => rfl
    | d :: x :: r => rfl

/-- reading the tuple off the repr, and the whole path, on literals (kernel evaluation): the values on both sides of every
border of the former finding -/
example :
    Lex.decTupleOfRepr "1e-07".toList = (false, "1".toList, -7) ∧ Lex.decTupleOfRepr "-1.5e+20".toList = (true, "15".toList, 19) ∧
    Lex.decTupleOfRepr "100000.0".toList = (false, "1000000".toList, -1) ∧
    Lex.decTupleOfRepr "0.00015".toList = (false, "15".toList, -5) ∧
    Lex.dblString (.fin false 1 0) "1e-07".toList = "1.0E-7".toList ∧ Lex.dblString (.fin false 1 0) "1000000.0".toList = "1.0E6".toList ∧
    Lex.dblString (.fin false 1 0) "1e-05".toList = "0.00001".toList ∧ Lex.dblString (.fin false 1 0) "1e+16".toList = "1.0E16".toList ∧
    Lex.dblString (.fin false 1 0) "999999.9".toList = "999999.9".toList ∧ Lex.dblString (.fin true 1 0) "-1.5e-06".toList = "-0.0000015".toList ∧
    Lex.dblString (.fin false 1 0) "123456.789".toList = "123456.789".toList ∧ Lex.dblString (.fin false 1 0) "1.5e+20".toList = "1.5E20".toList ∧
    Lex.dblString (.fin false 1 0) "100000.0".toList = "100000".toList ∧ Lex.dblString (.fin false 1 0) "5e-324".toList = "5.0E-324".toList ∧
    Lex.dblString (.fin true 0 0) "-0.0".toList = "-0".toList ∧ Lex.dblString (.fin false 0 0) "0.0".toList = "0".toList := by decide

/-- the pinned helper `string_value` (kept byte-identical for the suite, still the XPath 1.0 rendering) is *not* canonical:
1e-7 → '1E-07', 1e6 → '1000000', 1e-5 → '1E-05', 1e16 → '1E16' (kernel-checked; the region of the former finding F10b, before
fix-c10-7) -/
theorem pinned_string_value_deviates :
    (Lex.pinnedFloatStr "1e-07".toList = "1E-07".toList ∧ XSD.doubleCanon false ['1'] (-7) = "1.0E-7".toList ∧ pinnedDeviationRegion 1 (-7) = true) ∧
    (Lex.pinnedFloatStr "1000000.0".toList = "1000000".toList ∧ XSD.doubleCanon false ['1'] 6 = "1.0E6".toList ∧ pinnedDeviationRegion 1 6 = true) ∧
    (Lex.pinnedFloatStr "1e-05".toList = "1E-05".toList ∧ XSD.doubleCanon false ['1'] (-5) = "0.00001".toList ∧ pinnedDeviationRegion 1 (-5) = true) ∧
    (Lex.pinnedFloatStr "1e+16".toList = "1E16".toList ∧ XSD.doubleCanon false ['1'] 16 = "1.0E16".toList ∧ pinnedDeviationRegion 1 16 = true) := by
  decide

/-- the scope is inhabited by non-trivial pairs (tests on literals): -1.50 → integer truncates toward
zero; 300 does not fit xs:byte; the double −3/2 becomes the decimal −1.5 exactly -/
example :
    Lex.cast .v11 (.dec ⟨true, "1".toList, "50".toList⟩) (.integer ⟨none, none⟩) = .ok (.int (-1)) ∧
    Lex.cast .v11 (.int 300) (.integer ⟨some (-128), some 128⟩) = .error .FORG0001 ∧
    Lex.cast .v11 (.dbl (.fin true 3 1) "-1.5".toList) .decimal = .ok (.dec true 15 1) ∧
    Lex.cast .v10 (.untyped "+INF".toList) .double = .error .FORG0001 ∧
    Lex.cast .v11 (.dbl .nan "nan".toList) (.integer ⟨none, none⟩) = .error .FOCA0002 := by decide

end EPV.C10

/-
C10 — property theorems for the lexical layer of the atomic datatypes (model: EPV/Model/Lexical.lean,
spec: EPV/Spec/XSDLexical.lean).  Only statements a reader needs; helper lemmas are in
EPV/Lemmas/Lexical*.lean.  Theorems over the generated tables are in EPV/Props/C10Tables.lean.

Reading guide
* `Lex.collapse`        : `collapse_white_spaces` of the implementation (Python regex `[^\S\xa0]+` and strip)
* `XSD.wsCollapse`      : whiteSpace = collapse of XSD 1.1 Part 2 §4.3.6
* `noPyOnlyWhite s`     : no character of `s` is white for Python's regex but not for XSD
                          (the trigger of known finding F10w is its negation)
* `Lex.intCtor b s`     : `T(s)` for a class of the integer family with bounds `b`
* `XSD.integerLex` etc. : the lexical spaces, by the grammar productions of the recommendation
-/
import EPV.Lemmas.LexicalInt
namespace EPV.C10
open EPV EPV.LexLemmas

/-! ## integer family -/

/-- what XSD prescribes for constructing an integer type with facets `lo..hi` from a string -/
def specIntCtor (lo hi : Option Int) (s : List Char) : Except Lex.Err Int :=
  let t := XSD.wsCollapse s
  if XSD.integerLex t && XSD.inFacets lo hi (XSD.integerVal t) then .ok (XSD.integerVal t) else .error .value

/-- **ctor_iff_lexical (integer family), in terms of the implementation's own collapse** — for every
string and every bounds pair: the constructor succeeds exactly when the collapsed string is in the XSD
lexical space of xs:integer and its value satisfies minInclusive/maxInclusive (`hi − 1`: the stored
higher bound is exclusive); the value produced is the XSD value of the numeral. -/
theorem int_ctor_iff_lexical (b : Lex.Bounds) (s : List Char) :
    Lex.intCtor b s =
      (let t := Lex.collapse s
       if XSD.integerLex t && XSD.inFacets b.lo (b.hi.map (· - 1)) (XSD.integerVal t)
       then .ok (XSD.integerVal t) else .error .value) := by
  unfold Lex.intCtor
  simp only
  rw [matchInteger_eq _ (collapse_no_nl s), intOfLex_eq, bounds_ok_iff_facets]
  cases XSD.integerLex (Lex.collapse s) <;> simp

/-- PARTIAL (known finding F10w): with the XSD definition of white space the statement holds for strings
without Python-only white characters.  Full statement (false, see `int_ctor_fails_unicode_space`):
`∀ s, Lex.intCtor b s = specIntCtor b.lo (b.hi.map (· - 1)) s`. -/
theorem int_ctor_iff_lexical_partial (b : Lex.Bounds) (s : List Char) (h : noPyOnlyWhite s = true) :
    Lex.intCtor b s = specIntCtor b.lo (b.hi.map (· - 1)) s := by
  rw [int_ctor_iff_lexical, collapse_eq_wsCollapse s h]; rfl

/-- F10w witness: U+2003 (EM SPACE) after the digits is collapsed away by the implementation, but is
not XSD white space: `xs:integer('1 ')` = 1 although the literal is not in the lexical space. -/
theorem int_ctor_fails_unicode_space :
    noPyOnlyWhite ['1', ' '] = false ∧
    Lex.intCtor ⟨none, none⟩ ['1', ' '] = .ok 1 ∧
    specIntCtor none none ['1', ' '] = .error .value := by decide

/-- the hypotheses are satisfiable on a non-trivial input (test on literals) -/
example : noPyOnlyWhite " \t+0127\n".toList = true ∧
    Lex.intCtor ⟨some (-128), some 128⟩ " \t+0127\n".toList = .ok 127 ∧
    Lex.intCtor ⟨some (-128), some 128⟩ "128".toList = .error .value := by decide

/-- PARTIAL (known finding F10v): `T.is_valid(s)` agrees with the constructor on strings that are already
in whitespace-normal form (`is_valid` matches the pattern on the raw string, the constructor collapses
first).  Full statement (false, see `int_is_valid_fails_padded`): `∀ s, intIsValid b s = (intCtor b s).toBool`. -/
theorem int_is_valid_iff_ctor_partial (b : Lex.Bounds) (s : List Char) (hn : Lex.collapse s = s) :
    Lex.intIsValid b s = (Lex.intCtor b s).toBool := by
  unfold Lex.intIsValid Lex.intCtor
  simp only [hn]
  cases Lex.matchInteger s <;> simp [Except.toBool]
  split <;> simp_all

/-- F10v witness: `Integer.is_valid(' 12 ')` is False while `Integer(' 12 ')` succeeds; and the `$` of
the pattern lets `is_valid('12\n')` be True on a string that is not whitespace-normal. -/
theorem int_is_valid_fails_padded :
    Lex.intIsValid ⟨none, none⟩ " 12 ".toList = false ∧ (Lex.intCtor ⟨none, none⟩ " 12 ".toList).toBool = true ∧
    Lex.collapse " 12 ".toList ≠ " 12 ".toList ∧ Lex.intIsValid ⟨none, none⟩ "12\n".toList = true := by decide

/-- bounds are enforced by `is_valid` too (after the fix of F10i): test on literals -/
example : Lex.intIsValid ⟨some (-128), some 128⟩ "128".toList = false ∧
    Lex.intIsValid ⟨some (-128), some 128⟩ "-128".toList = true := by decide

/-- **canonical form of integers**: `str(int)` is the XSD canonical representation … -/
theorem int_canon_eq_spec (v : Int) : Lex.intCanon v = XSD.integerCanon v := intCanon_eq v

end EPV.C10

/-
C14 — the path generated for a node selects exactly that node; distinct nodes have distinct
paths; the two generators (`node.path`, `etree_iter_paths`) agree; the generated path is the one
F&O 3.1 §14.6 prescribes.  Only the property theorems; helper lemmas are in EPV/Lemmas/NodePath*.lean.

Reading guide
* `Node`, `Ref`            : tree and node reference (child indices + attribute/namespace selector)
* `pathOf top r`           : transcription of the `path` properties of `xpath_nodes.py` (steps
                             relative to the root `top`; `none` iff `r` is not a node of `top`)
* `evalSteps top steps`    : XPath 3.1 value of `/step/…/step` in the tree rooted at `top`
* `specPath top r`         : the path F&O 3.1 §14.6 prescribes for `fn:path`
* `top.wf`                 : attribute names of an element pairwise distinct, namespace prefixes of
                             an element pairwise distinct (XML well-formedness)
* `etreeIterPaths e`       : transcription of `etree.py :: etree_iter_paths`
-/
import EPV.Lemmas.NodePath
import EPV.Lemmas.NodePathEtree
import EPV.Lemmas.NodePathRefs
import EPV.Lemmas.NodePathText
namespace EPV.C14
open EPV.NodePath

/-- A reference has a path exactly when it denotes a node of the tree. -/
theorem path_defined_iff_valid (top : Node) (r : Ref) : (pathOf top r).isSome ↔ Valid top r :=
  pathOf_isSome_iff top r

/-- HEADLINE.  For every tree, every root form (`top` is any node: a document pseudo element or a
parent-less element) and every node `r` of it — element, text, comment, processing instruction,
attribute, namespace — evaluating the generated path from the root selects exactly `[r]`. -/
theorem path_selects_self (top : Node) (r : Ref) (steps : List Step) (hw : top.wf = true)
    (hp : pathOf top r = some steps) : evalSteps top steps = [r] :=
  evalSteps_pathOfWith sameKind top r steps hw (pathSafe_of_agree sameKind sameKind_eq_test r.path top) hp

/-- The hypothesis `wf` is necessary: with two attributes of the same name the path of one
selects both (kernel-checked); such a tree cannot come out of an XML parser. -/
theorem wf_necessary :
    let t := docNode [.elem ⟨"", "r"⟩ [] [(⟨"", "a"⟩, "1"), (⟨"", "a"⟩, "2")] []]
    t.wf = false ∧ pathOf t ⟨[0], .attr 1⟩ = some [.child ⟨"", "r"⟩ 1, .attr ⟨"", "a"⟩] ∧
    evalSteps t [.child ⟨"", "r"⟩ 1, .attr ⟨"", "a"⟩] = [⟨[0], .attr 0⟩, ⟨[0], .attr 1⟩] := by decide

/-- For element, text, comment and PI nodes the well-formedness hypothesis is not needed. -/
theorem path_selects_self_node (top : Node) (is : List Nat) (steps : List Step)
    (hp : pathOf top ⟨is, .self⟩ = some steps) : evalSteps top steps = [⟨is, .self⟩] :=
  evalSteps_pathOfWith_self sameKind top is steps (pathSafe_of_agree sameKind sameKind_eq_test is top) hp

/-- Distinct nodes have distinct paths (corollary of `path_selects_self`). -/
theorem path_injective (top : Node) (r₁ r₂ : Ref) (steps : List Step) (hw : top.wf = true)
    (h₁ : pathOf top r₁ = some steps) (h₂ : pathOf top r₂ = some steps) : r₁ = r₂ := by
  have e₁ := path_selects_self top r₁ steps hw h₁
  have e₂ := path_selects_self top r₂ steps hw h₂
  rw [e₁] at e₂
  exact List.head_eq_of_cons_eq e₂

/-- The document-order enumeration used to number nodes (node, its namespace nodes, its
attributes, its children, recursively) lists exactly the nodes of the tree, each once. -/
theorem all_refs_exact (top : Node) : (∀ r, r ∈ allRefs top ↔ Valid top r) ∧ (allRefs top).Nodup :=
  ⟨mem_allRefs_iff top, allRefs_nodup top⟩

/-- The paths of all nodes of a tree are pairwise distinct. -/
theorem paths_pairwise_distinct (top : Node) (hw : top.wf = true) :
    ((allRefs top).map (pathOf top)).Nodup := by
  rw [List.Nodup, List.pairwise_map]
  refine List.Pairwise.imp_of_mem ?_ (allRefs_nodup top)
  intro a b ha _ hne heq
  have hva := (path_defined_iff_valid top a).2 ((mem_allRefs_iff top a).1 ha)
  cases hpa : pathOf top a with
  | none => rw [hpa] at hva; simp at hva
  | some st => exact hne (path_injective top a b st hw hpa (by rw [← heq]; exact hpa))

/-- the hypotheses are satisfiable on a non-trivial tree (test on literals):
`<r xmlns:p="u" a="1"><?x?>t<a/><?y?><!----><p:a/>t<?x?><a/></r>`, second `<?x?>` -/
example :
    let t := docNode [.elem ⟨"", "r"⟩ [("xml", "x"), ("p", "u")] [(⟨"", "a"⟩, "1")]
      [.pi "x", .text, .elem ⟨"", "a"⟩ [] [] [], .pi "y", .comment, .elem ⟨"u", "a"⟩ [] [] [], .text,
       .pi "x", .elem ⟨"", "a"⟩ [] [] []]]
    t.wf = true ∧ pathOf t ⟨[0, 7], .self⟩ = some [.child ⟨"", "r"⟩ 1, .pi "x" 2] ∧
    evalSteps t [.child ⟨"", "r"⟩ 1, .pi "x" 2] = [⟨[0, 7], .self⟩] ∧
    pathOf t ⟨[0], .ns 1⟩ = some [.child ⟨"", "r"⟩ 1, .ns "p"] := by decide

/-- The generated path is literally the one F&O 3.1 §14.6 prescribes for `fn:path` (element
position among like-named element siblings, PI position among like-named PI siblings, text /
comment position among text / comment siblings, `@name`, `namespace::prefix`). -/
theorem path_eq_spec (top : Node) (r : Ref) : pathOf top r = specPath top r :=
  pathOf_eq_spec top r

/-- Hence the path prescribed by F&O selects exactly the node, too (consistency of the two
halves of the specification). -/
theorem spec_path_selects_self (top : Node) (r : Ref) (steps : List Step) (hw : top.wf = true)
    (hp : specPath top r = some steps) : evalSteps top steps = [r] :=
  path_selects_self top r steps hw (by rw [path_eq_spec]; exact hp)

/-- The recursion of the Python properties: the path of a child is the path of its parent plus
one step whose position is `parent.get_child_position(child)`. -/
theorem path_parent_step (top n c : Node) (is : List Nat) (i : Nat) (st : List Step)
    (hd : descend top is = some n) (hc : n.kids[i]? = some c) (hp : pathOf top ⟨is, .self⟩ = some st) :
    pathOf top ⟨is ++ [i], .self⟩ = some (st ++ [childStep c (getChildPosition n.kids i c)]) := by
  have hpt : pathTo top is = some st := by
    simp only [pathOf, pathOfWith, hd] at hp
    cases h : pathToWith sameKind top is with
    | none => simp [h] at hp
    | some s => simp only [h, Option.some.injEq] at hp; subst hp; exact h
  have h2 := pathTo_snoc is top n c i st hd hc hpt
  simp only [pathTo] at h2
  simp only [pathOf, pathOfWith, h2, descend_snoc top is i n c hd hc]

/-- `fn:path` on a tree whose root is a parent-less element (`Q{…}root()` + `item.path` with the
root's own path cut off): the absolute path in the dummy document is the root element's step
followed by the relative path, so cutting the prefix yields `pathOf e`, to which
`path_selects_self` applies with `top := e` (evaluation starts at `root()`). -/
theorem fn_path_fragment (e : Node) (is : List Nat) (sel : Sel) :
    pathOf (docNode [e]) ⟨0 :: is, sel⟩ = (pathOf e ⟨is, sel⟩).map (childStep e 1 :: ·) :=
  pathOf_dummy_doc e is sel

/-- `etree_iter_paths` and `node.path` give the same steps: every pair `(node, path)` yielded for
the tree rooted at `e` is the node's `path` relative to `e`. -/
theorem etree_paths_agree (e : Node) (ip : List Nat) (steps : List Step)
    (h : (ip, steps) ∈ etreeIterPaths e) : pathOf e ⟨ip, .self⟩ = some steps := by
  obtain ⟨rest, srest, h1, h2, h3⟩ := iterPaths_sound e [] [] (ip, steps) h
  simp only [List.nil_append] at h1 h3
  have h1' : rest = ip := h1.symm
  have h3' : srest = steps := h3.symm
  subst h1' h3'
  have hs := pathToWith_isSome sameKind rest e
  simp only [pathTo] at h2
  rw [h2] at hs
  cases hd : descend e rest with
  | none => rw [hd] at hs; simp at hs
  | some n => simp only [pathOf, pathOfWith, h2, hd]

/-- membership in `etreeIterPaths` is satisfiable on a non-trivial tree, and the agreement is
visible there (test on literals): `<r><?x?><a/><?y?><a/><?x?></r>` -/
example :
    let e := Node.elem ⟨"", "r"⟩ [] [] [.pi "x", .elem ⟨"", "a"⟩ [] [] [], .pi "y", .elem ⟨"", "a"⟩ [] [] [], .pi "x"]
    ([4], [Step.pi "x" 2]) ∈ etreeIterPaths e ∧ pathOf e ⟨[4], .self⟩ = some [.pi "x" 2] ∧
    ([3], [Step.child ⟨"", "a"⟩ 2]) ∈ etreeIterPaths e ∧ pathOf e ⟨[3], .self⟩ = some [.child ⟨"", "a"⟩ 2] := by decide

/-- `etree_iter_paths` reaches every element, comment and processing instruction of the tree
(text is not an ElementTree node). -/
theorem etree_paths_complete (e : Node) (ip : List Nat) (m : Node)
    (hd : descend e ip = some m) (hm : m ≠ .text) : ∃ steps, (ip, steps) ∈ etreeIterPaths e := by
  obtain ⟨st, h⟩ := iterPaths_complete e [] [] ip m hd hm
  exact ⟨st, by simpa [etreeIterPaths] using h⟩

/-- every path yielded by `etree_iter_paths`, evaluated from the element, selects its node -/
theorem etree_paths_select_self (e : Node) (ip : List Nat) (steps : List Step)
    (h : (ip, steps) ∈ etreeIterPaths e) : evalSteps e steps = [⟨ip, .self⟩] := by
  have hp := etree_paths_agree e ip steps h
  exact path_selects_self_node e ip steps hp

/-! ### the string level

`renderAbs` / `renderFnPath` (Model) produce the text of `node.path` / `fn:path`, character by
character; `parsePath` (Spec) is a recogniser of the output language of F&O 3.1 §14.6 written
independently of the renderer.  `Step.ok` / `Node.namesOK`: names contain none of `/ [ ) { } *`
(every NCName qualifies) and namespace URIs no `}` (XPath 3.1 BracedURILiteral). -/

/-- Reading the generated text back gives the steps: absolute form. -/
theorem parse_render_abs (steps : List Step) (hok : steps.all Step.ok = true) :
    parsePath (renderAbs steps).toList = some (.abs, steps) := by
  simp only [renderAbs, String.toList_ofList]; exact parsePath_renderAbs steps hok

/-- Reading the generated text back gives the steps: `Q{…}root()` form of `fn:path`. -/
theorem parse_render_fn (steps : List Step) (hok : steps.all Step.ok = true) :
    parsePath (renderFnPath steps).toList = some (.fromRoot, steps) := by
  simp only [renderFnPath, String.toList_ofList]; exact parsePath_renderFn steps hok

/-- The token tree the recogniser reads from the generated text is the tree of the steps
(`tokenTree`): left-nested `/`, each predicate bound to its step, kind tests with their argument.
The harness compares this tree with `parser.parse(text).tree` of the real 3.0 / 3.1 parser for
both texts of every node (agreement of the real parser with the recogniser: observed, structural). -/
theorem text_tree_of_render (steps : List Step) (hok : steps.all Step.ok = true) :
    textTree (renderAbs steps) = tokenTree .abs steps ∧
    textTree (renderFnPath steps) = tokenTree .fromRoot steps := by
  simp only [textTree, parse_render_abs steps hok, parse_render_fn steps hok, and_self]

/-- The rendering is injective: two step lists with the same text are equal. -/
theorem render_injective (s₁ s₂ : List Step) (h₁ : s₁.all Step.ok = true) (h₂ : s₂.all Step.ok = true)
    (h : renderAbs s₁ = renderAbs s₂) : s₁ = s₂ := by
  have e₁ := parse_render_abs s₁ h₁
  have e₂ := parse_render_abs s₂ h₂
  rw [h, e₂] at e₁
  simp only [Option.some.injEq, Prod.mk.injEq, true_and] at e₁
  exact e₁.symm

theorem render_fn_injective (s₁ s₂ : List Step) (h₁ : s₁.all Step.ok = true) (h₂ : s₂.all Step.ok = true)
    (h : renderFnPath s₁ = renderFnPath s₂) : s₁ = s₂ := by
  have e₁ := parse_render_fn s₁ h₁
  have e₂ := parse_render_fn s₂ h₂
  rw [h, e₂] at e₁
  simp only [Option.some.injEq, Prod.mk.injEq, true_and] at e₁
  exact e₁.symm

/-- The hypothesis `Step.ok` is necessary: with a `}` inside a namespace URI two different step
lists have the same text `/Q{a}b[1]/Q{}c[1]` (kernel-checked). -/
theorem render_not_injective_without_ok :
    let s₁ : List Step := [.child ⟨"a}b[1]/Q{", "c"⟩ 1]
    let s₂ : List Step := [.child ⟨"a", "b"⟩ 1, .child ⟨"", "c"⟩ 1]
    renderAbsC s₁ = renderAbsC s₂ ∧ s₁ ≠ s₂ ∧ s₁.all Step.ok = false ∧ s₂.all Step.ok = true := by decide

/-- The steps generated for a tree whose names are NCName-like are `ok`. -/
theorem path_steps_ok (top : Node) (r : Ref) (steps : List Step) (hn : top.namesOK = true)
    (hp : pathOf top r = some steps) : steps.all Step.ok = true :=
  pathOfWith_ok sameKind top r steps hn hp

/-- STRING LEVEL of the headline: the *text* of `node.path`, read by the recogniser and evaluated
per XPath 3.1 from the root, selects exactly the node. -/
theorem path_text_selects_self (top : Node) (r : Ref) (steps : List Step) (hw : top.wf = true)
    (hn : top.namesOK = true) (hp : pathOf top r = some steps) : evalText top (renderAbs steps) = [r] := by
  simp only [evalText, parse_render_abs steps (path_steps_ok top r steps hn hp)]
  exact path_selects_self top r steps hw hp

/-- the same for the `root()` form that `fn:path` returns on a tree without document node -/
theorem fn_path_text_selects_self (e : Node) (r : Ref) (steps : List Step) (hw : e.wf = true)
    (hn : e.namesOK = true) (hp : pathOf e r = some steps) : evalText e (renderFnPath steps) = [r] := by
  simp only [evalText, parse_render_fn steps (path_steps_ok e r steps hn hp)]
  exact path_selects_self e r steps hw hp

/-- STRING LEVEL of injectivity: two nodes of a tree whose `path` texts are equal are the same node. -/
theorem path_text_injective (top : Node) (r₁ r₂ : Ref) (s₁ s₂ : List Step) (hw : top.wf = true)
    (hn : top.namesOK = true) (h₁ : pathOf top r₁ = some s₁) (h₂ : pathOf top r₂ = some s₂)
    (h : renderAbs s₁ = renderAbs s₂) : r₁ = r₂ := by
  have e := render_injective s₁ s₂ (path_steps_ok top r₁ s₁ hn h₁) (path_steps_ok top r₂ s₂ hn h₂) h
  subst e
  exact path_injective top r₁ r₂ s₁ hw h₁ h₂

/-- the hypotheses are satisfiable and the recogniser really reads the text (test on literals) -/
example :
    let t := docNode [.elem ⟨"urn:p", "r"⟩ [("xml", "x"), ("", "urn:p")] [(⟨"urn:q", "a"⟩, "1"), (⟨"", "b"⟩, "2")]
      [.pi "x", .text, .pi "x"]]
    t.namesOK = true ∧ t.wf = true ∧
    parsePath ("/Q{urn:p}r[1]/processing-instruction(x)[12]".toList)
      = some (.abs, [.child ⟨"urn:p", "r"⟩ 1, .pi "x" 12]) ∧
    parsePath ("/Q{urn:p}r[1]/@Q{urn:q}a".toList) = some (.abs, [.child ⟨"urn:p", "r"⟩ 1, .attr ⟨"urn:q", "a"⟩]) ∧
    parsePath ("/Q{urn:p}r[1]/text()[01]".toList) = none := by decide

/-- the three forms of the `path` argument of `etree_iter_paths`: `'.'` gives `./step/…`, `''` the
bare relative path, `'/'` the absolute text -/
theorem etree_render_forms (s : Step) (ss : List Step) :
    renderEtreeC ['.'] (s :: ss) = '.' :: renderSteps (s :: ss) ∧
    '/' :: renderEtreeC [] (s :: ss) = renderSteps (s :: ss) ∧
    renderEtreeC ['/'] (s :: ss) = renderAbsC (s :: ss) := by
  refine ⟨?_, ?_, ?_⟩ <;> simp [renderEtreeC, etreeSep, renderSteps, renderAbsC]

/-- STRING LEVEL for `etree_iter_paths(e, '/')`: the text yielded for a node below `e`, read by the
recogniser and evaluated from `e` (what a leading `/` means in a fragment context), selects the node. -/
theorem etree_abs_text_selects_self (e : Node) (ip : List Nat) (s : Step) (ss : List Step)
    (hn : e.namesOK = true) (h : (ip, s :: ss) ∈ etreeIterPaths e) :
    evalText e (renderEtree "/" (s :: ss)) = [⟨ip, .self⟩] := by
  have hp := etree_paths_agree e ip (s :: ss) h
  have hok := path_steps_ok e ⟨ip, .self⟩ (s :: ss) hn hp
  have e1 : renderEtree "/" (s :: ss) = renderAbs (s :: ss) := by
    have : "/".toList = ['/'] := by decide
    simp only [renderEtree, renderAbs, this, (etree_render_forms s ss).2.2]
  rw [e1]
  simp only [evalText, parse_render_abs (s :: ss) hok]
  exact etree_paths_select_self e ip (s :: ss) h

/-! ### documents produced by `get_document_node(replace=True)` (`fn:parse-xml-fragment`) -/

/-- After the dummy `<document>` element `w` has been replaced by a document node, the path of
every node below it is computed against the new root: it is the path it had *relative to* `w`
(the children list is taken over unchanged), now read from the document node — no step for the
dummy element, positions unchanged. -/
theorem replace_dummy_paths (w : Node) (i : Nat) (is : List Nat) (sel : Sel) :
    pathOf (replaceDummy w) ⟨i :: is, sel⟩ = pathOf w ⟨i :: is, sel⟩ :=
  pathOfWith_kids sameKind (replaceDummy w) w (replaceDummy_kids w) i is sel

/-- … and it selects exactly the node in the new document (several top-level elements and
top-level text included: `replaceDummy w` is an arbitrary children list under a document node). -/
theorem replace_dummy_selects_self (w : Node) (r : Ref) (steps : List Step) (hw : w.wf = true)
    (hp : pathOf (replaceDummy w) r = some steps) : evalSteps (replaceDummy w) steps = [r] :=
  path_selects_self (replaceDummy w) r steps (replaceDummy_wf w hw) hp

/-- test on literals: `parse-xml-fragment('top<a/><a>u</a>')` -/
example :
    let w := Node.elem ⟨"", "document"⟩ [] [] [.text, .elem ⟨"", "a"⟩ [] [] [], .elem ⟨"", "a"⟩ [] [] [.text]]
    pathOf (replaceDummy w) ⟨[2, 0], .self⟩ = some [.child ⟨"", "a"⟩ 2, .text 1] ∧
    renderAbsC [.child ⟨"", "a"⟩ 2, .text 1] = "/Q{}a[2]/text()[1]".toList ∧
    pathOf (replaceDummy w) ⟨[0], .self⟩ = some [.text 1] ∧
    evalSteps (replaceDummy w) [.text 1] = [⟨[0], .self⟩] := by decide

/-! ### several trees in one evaluation

One evaluation can touch several trees: the context root, documents from `fn:doc`, nodes bound to
variables, documents built by `fn:parse-xml` / `fn:parse-xml-fragment` / `fn:json-to-xml`.
`fnPathForest F ctx t r` is `fn:path` of node `r` of tree `t` while tree `ctx` is the context root. -/

/-- `fn:path` does not depend on which tree is the context root (since b4af310). -/
theorem forest_path_ignores_context (F : Forest) (ctx ctx' t : Nat) (r : Ref) :
    fnPathForest F ctx t r = fnPathForest F ctx' t r := rfl

/-- `fn:path` is defined for exactly the nodes of the trees of the evaluation, whatever the context root. -/
theorem forest_path_defined_iff (F : Forest) (ctx : Nat) (n : FNode) :
    (fnPathForest F ctx n.tree n.ref).isSome ↔ n.valid F := by
  unfold fnPathForest FNode.valid
  cases F[n.tree]? with
  | none => simp
  | some top => exact path_defined_iff_valid top n.ref

/-- PER-TREE statement of the headline: the path returned for a node, evaluated from the root of
the node's OWN tree, selects exactly that node. -/
theorem forest_path_selects_self (F : Forest) (ctx : Nat) (n : FNode) (steps : List Step)
    (hw : ∀ top ∈ F, top.wf = true) (h : fnPathForest F ctx n.tree n.ref = some steps) :
    evalInTree F n.tree steps = [n] := by
  unfold fnPathForest at h
  unfold evalInTree
  cases ht : F[n.tree]? with
  | none => simp [ht] at h
  | some top =>
    simp only [ht] at h ⊢
    have hmem : top ∈ F := List.mem_of_getElem? ht
    rw [path_selects_self top n.ref steps (hw top hmem) h]
    cases n; rfl

/-- PER-TREE uniqueness: two nodes of the SAME tree with the same path are the same node. -/
theorem forest_path_injective_per_tree (F : Forest) (ctx : Nat) (n₁ n₂ : FNode) (steps : List Step)
    (hw : ∀ top ∈ F, top.wf = true) (ht : n₁.tree = n₂.tree)
    (h₁ : fnPathForest F ctx n₁.tree n₁.ref = some steps) (h₂ : fnPathForest F ctx n₂.tree n₂.ref = some steps) :
    n₁ = n₂ := by
  have e₁ := forest_path_selects_self F ctx n₁ steps hw h₁
  have e₂ := forest_path_selects_self F ctx n₂ steps hw h₂
  rw [ht, e₂] at e₁
  exact (List.head_eq_of_cons_eq e₁).symm

/-- Across trees paths are NOT unique, and cannot be: two trees of the same shape (e.g. one string
parsed twice) give every pair of corresponding nodes the same path; the path evaluated in tree 0
selects the node of tree 0.  What identifies a node of a forest is (tree, path).  Kernel-checked. -/
theorem forest_paths_not_unique_across_trees :
    let t := docNode [.elem ⟨"", "r"⟩ [] [] [.elem ⟨"", "a"⟩ [] [] [], .text]]
    let F : Forest := [t, t]
    let n₀ : FNode := ⟨0, ⟨[0, 1], .self⟩⟩
    let n₁ : FNode := ⟨1, ⟨[0, 1], .self⟩⟩
    n₀ ≠ n₁ ∧ fnPathForest F 0 n₀.tree n₀.ref = fnPathForest F 0 n₁.tree n₁.ref ∧
    fnPathForest F 0 n₁.tree n₁.ref = some [.child ⟨"", "r"⟩ 1, .text 1] ∧
    evalInTree F 0 [.child ⟨"", "r"⟩ 1, .text 1] = [n₀] ∧
    evalInTree F 1 [.child ⟨"", "r"⟩ 1, .text 1] = [n₁] := by decide

/-- F14h (repaired by b4af310), kernel-checked: the old `evaluate__path` returned the empty
sequence for every node of a tree other than the context root's. -/
theorem forest_old_loses_foreign_nodes :
    let t := docNode [.elem ⟨"", "r"⟩ [] [] []]
    let F : Forest := [t, t]
    fnPathForestOld F 0 1 ⟨[0], .self⟩ = none ∧ fnPathForest F 0 1 ⟨[0], .self⟩ = some [.child ⟨"", "r"⟩ 1] := by
  decide

/-! ### known finding F14f: `node.path` in a fragment context

For a tree rooted at a parent-less element `node.path` is `/Q{ns}root[1]/…` (pinned by
tests/test_xpath_nodes.py).  It selects the node through the dummy document of the default context
(`path_selects_self` with `top := docNode [e]`) and `fn:path` avoids the problem with `root()`
(`fn_path_text_selects_self`), but evaluated with `XPathContext(fragment=True)` it is evaluated
inside the root element (`evalAbsInFragment`). -/

/-- F14f, all trees: in a fragment context the root element's own `path` never selects it. -/
theorem fragment_root_path_fails (e : Node) :
    evalAbsInFragment e [childStep e 1] ≠ [⟨[], .self⟩] := by
  intro h
  have hs := stepFrom_childStep e e 1 [] e rfl
  simp only [evalAbsInFragment, evalSteps, evalFrom, List.flatMap_cons, List.flatMap_nil, List.append_nil, hs] at h
  have hm : (⟨[], .self⟩ : Ref) ∈ List.map (fun i => (⟨[] ++ [i], .self⟩ : Ref))
      (nth1 1 (idxWhere (stepShape e).test e.kids 0)) := by rw [h]; simp
  obtain ⟨i, _, hi⟩ := List.mem_map.1 hm
  simp at hi

/-- F14f, exact extent: in a fragment context the absolute `node.path` selects its node for NO node
of NO tree — the text always has one child step more than the node is deep below the root element,
and it is evaluated from the root element.  So the trigger of the finding is exactly "the path is
evaluated in a fragment context"; nothing else matters. -/
theorem fragment_abs_path_never_selects (e : Node) (is : List Nat) (sel : Sel) (abs : List Step)
    (hp : pathOf (docNode [e]) ⟨0 :: is, sel⟩ = some abs) : evalAbsInFragment e abs ≠ [⟨is, sel⟩] := by
  rw [fn_path_fragment] at hp
  cases hrel : pathOf e ⟨is, sel⟩ with
  | none => simp [hrel] at hp
  | some rel =>
    simp only [hrel, Option.map_some, Option.some.injEq] at hp
    subst hp
    intro h
    have hm : (⟨is, sel⟩ : Ref) ∈ evalFrom e [⟨[], .self⟩] (childStep e 1 :: rel) := by
      have : evalFrom e [⟨[], .self⟩] (childStep e 1 :: rel) = [⟨is, sel⟩] := h
      rw [this]; simp
    obtain ⟨c, hc, hlen⟩ := evalFrom_len e _ _ _ hm
    simp only [List.mem_singleton] at hc
    subst hc
    have hn := nChild_pathOfWith sameKind e ⟨is, sel⟩ rel hrel
    simp only [nChild, List.filter_cons, childStep_isChild, if_true, List.length_cons] at hlen hn
    simp only [List.length_nil] at hlen
    omega

/-- F14f, kernel-checked on `<r><r><a/></r><a/></r>` as a fragment: the path `/Q{}r[1]/Q{}a[1]` of
the outer `a` selects the inner `a` (a wrong node); through the dummy document it selects the
right one. -/
theorem fragment_abs_path_wrong_node :
    let a := Node.elem ⟨"", "a"⟩ [] [] []
    let e := Node.elem ⟨"", "r"⟩ [] [] [.elem ⟨"", "r"⟩ [] [] [a], a]
    pathOf (docNode [e]) ⟨[0, 1], .self⟩ = some [.child ⟨"", "r"⟩ 1, .child ⟨"", "a"⟩ 1] ∧
    evalAbsInFragment e [.child ⟨"", "r"⟩ 1, .child ⟨"", "a"⟩ 1] = [⟨[0, 0], .self⟩] ∧
    evalSteps (docNode [e]) [.child ⟨"", "r"⟩ 1, .child ⟨"", "a"⟩ 1] = [⟨[0, 1], .self⟩] := by decide

/-! ### the pinned tree (05acc20) — defects F14a / F14e, repaired by `fix:` commits of branch fix-c14

`pathOfPinned` is the transcription of the pinned `get_child_position`.  The full statement
(`path_selects_self` for `pathOfPinned`) is false; it holds where `pinnedSafe` holds. -/

/-- PARTIAL (pinned tree only): the pinned generator is correct for every node on whose path no
PI has a sibling PI with another target and no no-namespace element has a sibling PI named like
it (`pinnedSafe`).  Full statement: the same without `hs` — false, see the counter-examples. -/
theorem path_selects_self_pinned_partial (top : Node) (r : Ref) (steps : List Step) (hw : top.wf = true)
    (hs : pinnedSafe top r = true) (hp : pathOfPinned top r = some steps) : evalSteps top steps = [r] :=
  evalSteps_pathOfWith pinnedKind top r steps hw hs hp

/-- the hypotheses of the partial theorem are satisfiable on a non-trivial tree (test) -/
example :
    let t := docNode [.elem ⟨"", "r"⟩ [] [(⟨"", "a"⟩, "1")] [.pi "x", .elem ⟨"", "a"⟩ [] [] [], .pi "x", .text, .elem ⟨"", "a"⟩ [] [] []]]
    t.wf = true ∧ pinnedSafe t ⟨[0, 2], .self⟩ = true ∧
    pathOfPinned t ⟨[0, 2], .self⟩ = some [.child ⟨"", "r"⟩ 1, .pi "x" 2] := by decide

/-- F14a, kernel-checked on `<r><?x?><?y?><?x?></r>`: the pinned generator numbers the PIs 1, 2, 3
whatever their target; the paths of the second and third PI select nothing; the repaired
generator gives (x)[1], (y)[1], (x)[2]. -/
theorem pinned_fails_pi_targets :
    let t := docNode [.elem ⟨"", "r"⟩ [] [] [.pi "x", .pi "y", .pi "x"]]
    pathOfPinned t ⟨[0, 1], .self⟩ = some [.child ⟨"", "r"⟩ 1, .pi "y" 2] ∧
    evalSteps t [.child ⟨"", "r"⟩ 1, .pi "y" 2] = [] ∧
    pathOfPinned t ⟨[0, 2], .self⟩ = some [.child ⟨"", "r"⟩ 1, .pi "x" 3] ∧
    evalSteps t [.child ⟨"", "r"⟩ 1, .pi "x" 3] = [] ∧
    pinnedSafe t ⟨[0, 1], .self⟩ = false ∧
    pathOf t ⟨[0, 1], .self⟩ = some [.child ⟨"", "r"⟩ 1, .pi "y" 1] ∧
    pathOf t ⟨[0, 2], .self⟩ = some [.child ⟨"", "r"⟩ 1, .pi "x" 2] := by decide

/-- F14a, wrong node: on `<r><?x?><?y?><?y?><?x?></r>` … with three like-named PIs the pinned
path of one PI selects another one. -/
theorem pinned_fails_wrong_node :
    let t := docNode [.elem ⟨"", "r"⟩ [] [] [.pi "y", .pi "x", .pi "x", .pi "x"]]
    pathOfPinned t ⟨[0, 1], .self⟩ = some [.child ⟨"", "r"⟩ 1, .pi "x" 2] ∧
    evalSteps t [.child ⟨"", "r"⟩ 1, .pi "x" 2] = [⟨[0, 2], .self⟩] := by decide

/-- F14e, kernel-checked on `<r><?a?><a/></r>`: the pinned generator counts the PI named `a` as a
like-named sibling of the element `a`; the path `/Q{}r[1]/Q{}a[2]` selects nothing. -/
theorem pinned_fails_pi_named_like_element :
    let t := docNode [.elem ⟨"", "r"⟩ [] [] [.pi "a", .elem ⟨"", "a"⟩ [] [] []]]
    pathOfPinned t ⟨[0, 1], .self⟩ = some [.child ⟨"", "r"⟩ 1, .child ⟨"", "a"⟩ 2] ∧
    evalSteps t [.child ⟨"", "r"⟩ 1, .child ⟨"", "a"⟩ 2] = [] ∧
    pinnedSafe t ⟨[0, 1], .self⟩ = false ∧
    pathOf t ⟨[0, 1], .self⟩ = some [.child ⟨"", "r"⟩ 1, .child ⟨"", "a"⟩ 1] := by decide

/-- on the pinned tree the two generators disagree (F14a): `etree_iter_paths` already counted per
target -/
theorem pinned_generators_disagree :
    let e := Node.elem ⟨"", "r"⟩ [] [] [.pi "x", .pi "y", .pi "x"]
    ([2], [Step.pi "x" 2]) ∈ etreeIterPaths e ∧ pathOfPinned e ⟨[2], .self⟩ = some [.pi "x" 3] := by decide

end EPV.C14

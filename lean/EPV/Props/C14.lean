/-
C14 — the path generated for a node selects exactly that node; distinct nodes have distinct
paths; the two generators (`node.path`, `etree_iter_paths`) agree; the generated path is the one
F&O 3.1 §14.6 prescribes.  Only the property theorems; helper lemmas are in EPV/Lemmas/NodePath*.lean.

Reading guide
* `Node`, `Ref`            : tree and node reference (child indices + attribute/namespace selector)
* `pathOf top r`           : transcription of the `path` properties of `xpath_nodes.py` (steps
                             relative to the root `top`; `none` iff `r` is not a node of `top`)
* `evalSteps top steps`    : XPath 3.1 value of `/step/…/step` in the tree rooted at `top`
* `specPath top r`         : the path F&O 3.1 §14.6 prescribes for `fn:path`
* `top.wf`                 : attribute names of an element pairwise distinct, namespace prefixes of
                             an element pairwise distinct (XML well-formedness)
* `etreeIterPaths e`       : transcription of `etree.py :: etree_iter_paths`
-/
import EPV.Lemmas.NodePath
namespace EPV.C14
open EPV.NodePath

/-- A reference has a path exactly when it denotes a node of the tree. -/
theorem path_defined_iff_valid (top : Node) (r : Ref) : (pathOf top r).isSome ↔ Valid top r :=
  pathOf_isSome_iff top r

/-- HEADLINE.  For every tree, every root form (`top` is any node: a document pseudo element or a
parent-less element) and every node `r` of it — element, text, comment, processing instruction,
attribute, namespace — evaluating the generated path from the root selects exactly `[r]`. -/
theorem path_selects_self (top : Node) (r : Ref) (steps : List Step) (hw : top.wf = true)
    (hp : pathOf top r = some steps) : evalSteps top steps = [r] :=
  evalSteps_pathOfWith sameKind sameKind_eq_test top r steps hw hp

/-- Distinct nodes have distinct paths (corollary of `path_selects_self`). -/
theorem path_injective (top : Node) (r₁ r₂ : Ref) (steps : List Step) (hw : top.wf = true)
    (h₁ : pathOf top r₁ = some steps) (h₂ : pathOf top r₂ = some steps) : r₁ = r₂ := by
  have e₁ := path_selects_self top r₁ steps hw h₁
  have e₂ := path_selects_self top r₂ steps hw h₂
  rw [e₁] at e₂
  exact List.head_eq_of_cons_eq e₂

/-- the hypotheses are satisfiable on a non-trivial tree (test on literals):
`<r xmlns:p="u" a="1"><?x?>t<a/><?y?><!----><p:a/>t<?x?><a/></r>`, second `<?x?>` -/
example :
    let t := docNode [.elem ⟨"", "r"⟩ [("xml", "x"), ("p", "u")] [(⟨"", "a"⟩, "1")]
      [.pi "x", .text, .elem ⟨"", "a"⟩ [] [] [], .pi "y", .comment, .elem ⟨"u", "a"⟩ [] [] [], .text,
       .pi "x", .elem ⟨"", "a"⟩ [] [] []]]
    t.wf = true ∧ pathOf t ⟨[0, 7], .self⟩ = some [.child ⟨"", "r"⟩ 1, .pi "x" 2] ∧
    evalSteps t [.child ⟨"", "r"⟩ 1, .pi "x" 2] = [⟨[0, 7], .self⟩] ∧
    pathOf t ⟨[0], .ns 1⟩ = some [.child ⟨"", "r"⟩ 1, .ns "p"] := by decide

end EPV.C14

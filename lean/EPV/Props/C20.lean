/-
C20 — schema-aware evaluation: property theorems (model: EPV/Model/SchemaTyping.lean, a REDUCTION
of XSD; spec: EPV/Spec/XsdTyping.lean).  Helper lemmas are in EPV/Lemmas/SchemaTyping*.lean.

Reading guide
* `applySchema s t`        : `root.apply_schema(schema)` — the lock-step walk WITH the match cache
* `applyF s none t`        : the same walk without the cache
* `Spec.Typing s none t a` : `a` is the declarative type assignment of `t` (governing declaration /
                             governing type definition of XSD 1.1 Part 1, `xsi:type` overrides)
* `atomicSequence T txt`   : `get_atomic_sequence(xsd_type, text)` — the decoder with its prototypes
* `Sel.select cfg fromDoc t e` : indices of the nodes selected by path expression `e`
* `Sel.Cfg.typed s dummy`  : evaluation with a schema-bound parser (`dummy`: tree given as element)
* `Sel.Cfg.plain`          : schema-less evaluation
-/
import EPV.Lemmas.SchemaTypingDrop
import EPV.Lemmas.SchemaTypingValue
import EPV.Lemmas.SchemaTypingLex
import EPV.Lemmas.SchemaTypingContent
namespace EPV.C20
open EPV.Xsd EPV.Xsd.Spec EPV.Xsd.Sel

/-! ## type assignment -/

/-- **The match cache never changes an answer**: the walk with the per-content-model cache
(`element_match_cache[id(content)][name]`) assigns exactly the annotations of the walk that runs the
particle loop for every element — for every schema, every tree. -/
theorem cache_transparent (s : Schema) (t : Forest Unit) : applySchema s t = applyF s none t :=
  (applyFC_spec s t none [] (cacheOK_nil s)).1

/-- the same from any reachable cache state, and the invariant is kept (so the statement composes
over the whole document-order walk) -/
theorem cache_transparent_inv (s : Schema) (t : Forest Unit) (ctx : Option Ty) (c : Cache)
    (hc : CacheOK s c) :
    (applyFC s ctx c t).1 = applyF s ctx t ∧ CacheOK s (applyFC s ctx c t).2 :=
  applyFC_spec s t ctx c hc

/-- every element carries a type (executable) -/
def allTypedB : Forest Ann → Bool
  | .nil => true
  | .leaf _ _ r => allTypedB r
  | .elem a _ _ _ k r => a.xsdType.isSome && allTypedB k && allTypedB r

/-- **`apply_schema` computes the declarative typing**: for a consistent schema (unique global
names, Element Declarations Consistent) the annotated tree is the unique one satisfying the typing
relation: each element's type is the declared type of the declaration its name is attributed to by
its parent's content model, `xsi:type` overrides, and nothing below an unassessed element is typed. -/
theorem apply_schema_eq_typing (s : Schema) (hs : Consistent s) (t : Forest Unit) (a : Forest Ann) :
    Typing s none t a ↔ a = applySchema s t := by
  rw [cache_transparent]
  exact ⟨typing_unique hs, fun h => h ▸ applyF_typing hs t none⟩

/-- **the same with a proxy constructed on a base element** (`XMLSchemaProxy(schema, base_element=d)`;
`d` a global element, a local element, or — `assertion` — an `xs:assert` of a complex type): the
node the schema is applied to is governed by the stipulated declaration (`xs:anyType` itself under
an assertion proxy), and its children are typed by the declarative relation IN THE CONTENT MODEL OF
THE BASE ELEMENT'S TYPE.  `base = none` is `apply_schema_eq_typing`. -/
theorem apply_schema_eq_typing_base (s : Schema) (hs : Consistent s) (base : Option BaseElem)
    (n : String) (ats : List (String × String)) (x : Xsi) (kids rest : Forest Unit) (a : Forest Ann) :
    TypingB s base (.elem () n ats x kids rest) a ↔ a = applySchemaB s base (.elem () n ats x kids rest) := by
  cases base with
  | none =>
    constructor
    · intro h
      cases h with
      | default _ _ h => exact (apply_schema_eq_typing s hs _ a).mp h
    · intro h
      exact .default _ _ ((apply_schema_eq_typing s hs _ a).mpr h)
  | some b =>
    have hk : (applyFC s (some b.decl.type) [] kids).1 = applyF s (some b.decl.type) kids :=
      (applyFC_spec s kids (some b.decl.type) [] (cacheOK_nil s)).1
    constructor
    · intro h
      cases h with
      | stipulated _ _ _ _ _ _ kids' hkids =>
        simp only [applySchemaB, hk, typing_unique hs hkids, clearF_eq]
    · intro h
      subst h
      simp only [applySchemaB, hk, clearF_eq]
      exact .stipulated b n ats x kids rest _ (applyF_typing hs kids (some b.decl.type))

/-- a proxy on the GLOBAL declaration of the root element types the document exactly like the
default proxy -/
theorem apply_schema_base_global (s : Schema) (hs : Consistent s) (d : ElemDecl) (hd : d ∈ s.elements)
    (ats : List (String × String)) (kids : Forest Unit) :
    applySchemaB s (some ⟨d, false⟩) (.elem () d.name ats .absent kids .nil) =
      applySchema s (.elem () d.name ats .absent kids .nil) := by
  rw [cache_transparent]
  have hk : (applyFC s (some d.type) [] kids).1 = applyF s (some d.type) kids :=
    (applyFC_spec s kids (some d.type) [] (cacheOK_nil s)).1
  have hdecl : declFor s none d.name = some d := getElement_of_mem hs hd rfl
  simp [applySchemaB, hk, applyF, assign, hdecl, clearF, Forest.map]

/-- on (reduced-)valid instances every element receives a type -/
theorem valid_all_typed (s : Schema) (hs : Consistent s) (t : Forest Unit) (h : Assessed s none t) :
    allTyped (applySchema s t) := by
  rw [cache_transparent]; exact assessed_allTyped hs h

/-- typing only annotates: forgetting the annotations gives the input tree back -/
theorem apply_schema_keeps_tree (s : Schema) (t : Forest Unit) : (applySchema s t).erase = t := by
  rw [cache_transparent]; exact applyF_erase s t none

/-- TEST (not a theorem about all inputs): the hypotheses of `apply_schema_eq_typing` are
satisfiable on a schema with a local declaration, a wildcard, a global declaration and `xsi:type`,
and the walk types a tree with a cache hit (second `a`) -/
def exSchema : Schema :=
  { ctypes := [⟨none, .elementOnly,
                [.elem ⟨"a", .simple (.builtin .int), false, none⟩ [], .any none false], []⟩],
    elements := [⟨"r", .complex 0, false, none⟩, ⟨"g", .simple (.builtin .boolean), false, none⟩],
    types := [] }
def exTree : Forest Unit :=
  .elem () "r" [] .absent
    (.elem () "a" [] .absent (.leaf .text "1" .nil)
      (.elem () "a" [] (.name B.decimal.name) (.leaf .text "2" .nil)
        (.elem () "g" [] .absent (.leaf .text "true" .nil)
          (.elem () "zz" [] .absent .nil .nil)))) .nil

example : (applyFC exSchema none [] exTree).2.length = 3 := by decide

/-- the seeded defect, kernel-checked on the model: if the children of the root were resolved in the
content model of the ROOT'S OWN ANNOTATION (`xs:anyType` under an assertion proxy) instead of the
base element's type, the locally declared child `a` would stay untyped -/
theorem assertion_children_need_base_type :
    let b : BaseElem := ⟨⟨"r", .complex 0, false, none⟩, true⟩
    let kids : Forest Unit := .elem () "a" [] .absent (.leaf .text "9" .nil) .nil
    allTypedB (applyFC exSchema (some b.decl.type) [] kids).1 = true ∧
    allTypedB (applyFC exSchema (some (.simple (.builtin .anyType))) [] kids).1 = false := by decide


/-! ## the flat content-model view -/

/-- **occurrence constraints and sequence/choice structure do not matter for typing**: for any model
group term (leaf particles with minOccurs/maxOccurs, nested sequences and choices), every child name
of a sequence of children that is valid against it is accepted by a particle of the flat list
`iter_elements()` that `apply_schema` scans — so the particle loop finds a particle for every child
of a content-valid element, however often it repeats. -/
theorem content_model_flat_view (s : Schema) (g : Group) (names : List String) (h : Accepts g names) :
    ∀ n ∈ names, (∃ p ∈ flat g, p.matches n = true) ∧ findParticle s n (flat g) ≠ none :=
  fun n hn => ⟨accepts_flat g names h n hn, valid_child_found s g names h n hn⟩

/-- TEST: `(a{1,2}, (b | c)*)` accepts `a a c b` -/
example :
    let pa := Particle.elem ⟨"a", .simple (.builtin .int), false, none⟩ []
    let pb := Particle.elem ⟨"b", .simple (.builtin .int), false, none⟩ []
    let pc := Particle.elem ⟨"c", .simple (.builtin .int), false, none⟩ []
    Accepts (.seq [.leaf pa 1 (some 2), .choice [.leaf pb 1 (some 1), .leaf pc 1 (some 1)] 0 none] 1 (some 1))
      ["a", "a", "c", "b"] := by
  intro pa pb pc
  have hA : Accepts (.leaf pa 1 (some 2)) ["a", "a"] :=
    .leaf _ _ _ _ ⟨by decide, by intro m hm; cases hm; decide⟩ (by intro n hn; simp at hn; subst hn; decide)
  have hC : Accepts (.choice [.leaf pb 1 (some 1), .leaf pc 1 (some 1)] 0 none) [["c"], ["b"]].flatten :=
    .choice _ _ _ [["c"], ["b"]] ⟨by decide, by intro m hm; cases hm⟩ (by
      intro part hp
      simp at hp
      rcases hp with rfl | rfl
      · exact .there _ _ _ (.here _ _ _ (.leaf _ _ _ _ ⟨by decide, by intro m hm; cases hm; decide⟩
          (by intro n hn; simp at hn; subst hn; decide)))
      · exact .here _ _ _ (.leaf _ _ _ _ ⟨by decide, by intro m hm; cases hm; decide⟩
          (by intro n hn; simp at hn; subst hn; decide)))
  have hS := AcceptsSeq.cons _ _ _ _ hA (AcceptsSeq.cons _ _ _ _ hC AcceptsSeq.nil)
  exact .seq _ 1 (some 1) [["a", "a", "c", "b"]] ⟨by decide, by intro m hm; cases hm; decide⟩
    (by intro part hp; simp at hp; subst hp; simpa using hS)

/-! ## the proxy carries no typing state of its own -/

/-- the schema only ever goes from "not (fully) valid" to "valid" (`schema.build()`); `seen` = it
has already been valid -/
def MonotoneFrom (seen : Bool) : List (Bool × Forest Unit) → Prop
  | [] => True
  | (v, _) :: rest => (seen = true → v = true) ∧ MonotoneFrom (seen || v) rest

theorem runHistory_eq_fresh (s : Schema) : ∀ (hist : List (Bool × Forest Unit)) (p : Proxy) (seen : Bool),
    (p.flag = true → seen = true) → MonotoneFrom seen hist →
    runHistory s p hist = hist.map fun vt => (evalStep s Proxy.fresh vt.1 vt.2).1
  | [], _, _, _, _ => rfl
  | (v, t) :: rest, p, seen, hp, hm => by
    obtain ⟨hv, hrest⟩ := hm
    simp only [runHistory, evalStep, List.map_cons, Proxy.isFullyValid, Proxy.fresh]
    cases hf : p.flag with
    | true =>
      have hvt : v = true := hv (hp hf)
      subst hvt
      simp only [if_true, Bool.false_eq_true, if_false]
      congr 1
      exact runHistory_eq_fresh s rest p (seen || true) (fun _ => by simp) hrest
    | false =>
      simp only [Bool.false_eq_true, if_false]
      congr 1
      exact runHistory_eq_fresh s rest ⟨v⟩ (seen || v) (fun h => by simp at h; simp [h]) hrest

/-- **typing is a function of (schema state, instance), not of the proxy's history**: any sequence
of evaluations through one long-lived proxy — over different instances, before and after the schema
is built — annotates every instance exactly as a fresh proxy would at that moment.  (As the code is:
`is_fully_valid()` caches only a positive answer and recomputes otherwise.) -/
theorem proxy_history_eq_fresh (s : Schema) (hist : List (Bool × Forest Unit))
    (hm : MonotoneFrom false hist) :
    runHistory s Proxy.fresh hist = hist.map fun vt => applySchemaV vt.1 s vt.2 := by
  rw [runHistory_eq_fresh s hist Proxy.fresh false (fun h => by simp [Proxy.fresh] at h) hm]
  apply List.map_congr_left
  intro vt _
  simp [evalStep, Proxy.isFullyValid, Proxy.fresh]

/-- TEST: unbuilt → built → built on the example schema: the first answer is all-`xs:anyType`, the
later ones are the typed trees -/
example : MonotoneFrom false [(false, exTree), (true, exTree), (true, exTree)] ∧
    runHistory exSchema Proxy.fresh [(false, exTree), (true, exTree)] =
      [anyTypeAll exTree, applySchema exSchema exTree] := by
  refine ⟨by simp [MonotoneFrom], ?_⟩
  rw [proxy_history_eq_fresh _ _ (by simp [MonotoneFrom])]
  rfl

/-- what a proxy that cached a NEGATIVE answer would do (the defect this theorem excludes):
after `[(false, t), (true, t)]` the second tree would still be all-`xs:anyType` -/
example : anyTypeAll exTree ≠ applySchema exSchema exTree := by
  intro h
  have := congrArg (fun f => match f with
    | Forest.elem a _ _ _ _ _ => a.xsdElem.isSome
    | _ => false) h
  revert this
  decide

/-! ## repeated application on one node tree -/

theorem erase_clearF (t : Forest Unit) : (clearF t).erase = t := by
  simp only [clearF, Forest.erase, map_map]; exact map_unit_id t

theorem erase_applySchemaV (fv : Bool) (s : Schema) (t : Forest Unit) : (applySchemaV fv s t).erase = t := by
  unfold applySchemaV
  split
  · exact apply_schema_keeps_tree s t
  · simp only [anyTypeAll, Forest.erase, map_map]; exact map_unit_id t

theorem erase_erase (a : Forest Ann) : (a.erase).erase = a.erase := map_unit_id _

theorem rootTyped_clearF (t : Forest Unit) : rootTyped (clearF t) = false := by
  cases t <;> rfl

/-- **`apply_schema` is idempotent**: applying the same proxy again to an already processed node
tree changes nothing — whether the early return fires (root typed) or the walk runs again (root
without declaration). -/
theorem apply_schema_idempotent (pid : Nat) (fv : Bool) (s : Schema) (st : TreeState) :
    applySchemaOp pid fv s (applySchemaOp pid fv s st) = applySchemaOp pid fv s st := by
  unfold applySchemaOp
  by_cases h : (st.schema == some pid && rootTyped st.ann) = true
  · simp [h]
  · simp only [h, Bool.false_eq_true, if_false, beq_self_eq_true, Bool.true_and, erase_applySchemaV]
    split <;> rfl

/-- **a new context over an existing node tree types it exactly like a fresh tree** (fix F20l):
the `schema` setter (`clear_types(); apply_schema(proxy)`) yields the typing of the plain tree, from
ANY previous state of the node tree — typed by the same proxy, by another one, or cleared. -/
theorem context_reuse_eq_fresh (pid : Nat) (fv : Bool) (s : Schema) (st : TreeState) :
    setSchema pid fv s st = ⟨some pid, applySchemaV fv s st.ann.erase⟩ := by
  simp [setSchema, applySchemaOp, clearTypes, rootTyped_clearF, erase_clearF, erase_erase]

/-- corollary: a second context over the same tree with the same proxy keeps all types -/
theorem context_reuse_idempotent (pid : Nat) (fv : Bool) (s : Schema) (st : TreeState) :
    setSchema pid fv s (setSchema pid fv s st) = setSchema pid fv s st := by
  rw [context_reuse_eq_fresh, context_reuse_eq_fresh]
  simp [erase_applySchemaV]

/-- F20l on the pinned tree, kernel-checked: with the early return that does not look at the root's
type, the second context over the same tree and proxy leaves the root untyped -/
theorem context_reuse_pinned_untypes :
    let st1 := applySchemaOpPinned 7 true exSchema (clearTypes (TreeState.init exTree))
    let st2 := applySchemaOpPinned 7 true exSchema (clearTypes st1)
    rootTyped st1.ann = true ∧ rootTyped st2.ann = false := by decide

/-! ## attribute typing -/

/-- what the lazily built attribute list must carry for an instance attribute named `n` of an
element with governing type `ty`: the declared type of the attribute use; `xsi:*` attributes of a
complex-typed element are `xs:anyAtomicType`; otherwise untyped -/
def expectedAttrType (s : Schema) (ty : Ty) (n : String) : Option SType :=
  match specAttrType s ty n with
  | some t => some t
  | none => match ty with
    | .complex id => if (s.ctype? id).isSome && startsWithXsi n then some (.builtin .anyAtomicType) else none
    | .simple _ => none

/-- **lazy attribute typing = declared attribute types**: for an element typed by the walk
(`assign` returned a type), the attribute nodes are the instance attributes in order, each with the
declared type of the attribute use of the element's governing type, followed only by defaulted
attributes (nodes flagged `defaulted`). -/
theorem attr_types_eq_declared (s : Schema) (ctx : Option Ty) (n : String) (x : Xsi) (ty : Ty)
    (d : Option ElemDecl) (ats : List (String × String)) (h : assign s ctx n x = (some ty, d)) :
    ∃ dflt, attrNodes s ⟨some ty, d⟩ ats =
        (ats.map fun nv => (⟨nv.1, nv.2, expectedAttrType s ty nv.1, false⟩ : AttrNode)) ++ dflt ∧
      ∀ a ∈ dflt, a.defaulted = true := by
  -- the type used by `attributes` is the governing type
  have hty : attrOwnerType ⟨some ty, d⟩ ats ty = ty := by
    unfold attrOwnerType
    cases d with
    | none => rfl
    | some dd =>
      have : dd.type = ty := by
        unfold assign at h
        cases x with
        | unresolvable => simp at h
        | name t => simp at h
        | absent =>
          simp only [Prod.mk.injEq] at h
          obtain ⟨h1, h2⟩ := h
          rw [h2] at h1
          simpa using h1
      simp [this]
  simp only [attrNodes, hty]
  unfold attrNodesFor
  cases ty with
  | simple t =>
    refine ⟨[], ?_, by simp⟩
    simp [expectedAttrType, specAttrType]
  | complex id =>
    simp only
    cases hct : s.ctype? id with
    | none =>
      refine ⟨[], ?_, by simp⟩
      have : s.ctypes[id]? = none := hct
      simp [expectedAttrType, specAttrType, this, hct]
    | some ct =>
      simp only
      refine ⟨ct.attrs.filterMap fun d =>
        match d.default with
        | some v => if (attrGet ats d.name).isNone then
            some (⟨d.name, v, some d.type, true⟩ : AttrNode) else none
        | none => none, ?_, ?_⟩
      · congr 1
        apply List.map_congr_left
        intro nv _
        have : s.ctypes[id]? = some ct := hct
        simp only [expectedAttrType, specAttrType, this, hct, Option.bind_some, Option.isSome_some,
          Bool.true_and]
        cases ct.attrs.find? (fun d => d.name == nv.1) <;> simp
      · intro a ha
        simp only [List.mem_filterMap] at ha
        obtain ⟨dd, _, hdd⟩ := ha
        cases hdf : dd.default with
        | none => simp [hdf] at hdd
        | some v =>
          simp only [hdf] at hdd
          split at hdd
          · cases hdd; rfl
          · cases hdd

/-! ## typed values -/

/-- **every atom of a typed value is an instance of the class of one of the decoder's prototypes**
(`iter_atomic_values`): nothing else can come out of `get_atomic_sequence`. -/
theorem typed_value_class (valid : SType → String → Bool) (T : SType) (txt : String) (vs : List Atom)
    (h : atomicSequence valid T txt = .ok vs) : ∀ a ∈ vs, ∃ b ∈ T.protos, a.cls = classOf b :=
  atomicSequence_cls h

/-- **typed values of an atomic type are instances of the declared type's nearest builtin and of
all its base types** — for every builtin and every chain of restrictions over a builtin `b`
(named or anonymous), every text.  (Full strength since fix F20c; on the pinned tree the value
was an instance of the primitive only.) -/
theorem typed_value_instance_of (valid : SType → String → Bool) (T : SType) (b : B)
    (hT : atomicBase? T = some b) (hb : b.isSpecial = false) (txt : String) (vs : List Atom)
    (h : atomicSequence valid T txt = .ok vs) :
    ∀ a ∈ vs, a.cls = b ∧ ∀ B' ∈ builtinAncestors T, a.instanceOf B' = true := by
  intro a ha
  obtain ⟨p, hp, hc⟩ := atomicSequence_cls h a ha
  rw [protos_atomic hT] at hp
  simp only [List.mem_singleton] at hp; subst hp
  have hcls : a.cls = p := by rw [hc, classOf, hb]; rfl
  refine ⟨hcls, ?_⟩
  intro B' hB'
  unfold Atom.instanceOf
  rw [hcls]
  simp only [builtinAncestors, nearestB_atomic hT] at hB'
  simpa [B.derives] using hB'

/-- the same for a list (named or not) of an atomic item type: every item is an instance of the
item type's nearest builtin and of its base types -/
theorem typed_value_list_instance_of (valid : SType → String → Bool) (n : Option String) (item : SType)
    (b : B) (hT : atomicBase? item = some b) (hb : b.isSpecial = false) (txt : String) (vs : List Atom)
    (h : atomicSequence valid (.list n item) txt = .ok vs) :
    ∀ a ∈ vs, a.cls = b ∧ ∀ B' ∈ builtinAncestors item, a.instanceOf B' = true := by
  intro a ha
  obtain ⟨p, hp, hc⟩ := atomicSequence_cls h a ha
  rw [protos_list_atomic hT] at hp
  simp only [List.mem_singleton] at hp; subst hp
  have hcls : a.cls = p := by rw [hc, classOf, hb]; rfl
  refine ⟨hcls, ?_⟩
  intro B' hB'
  unfold Atom.instanceOf
  rw [hcls]
  simp only [builtinAncestors, nearestB_atomic hT] at hB'
  simpa [B.derives] using hB'

/-! ### kernel-checked instances of the repaired decoder (all former decoder findings are fixed) -/

/-- the fixed F20g: a list of a union is decoded item by item (`1 true zz` → three atoms; the pinned
tree yielded six) and agrees with the specification -/
theorem list_of_union_decoded_per_item :
    let u : SType := .union none [.builtin .int, .builtin .boolean, .builtin .string]
    atomicSequence isValid (.list none u) "1 true zz" = .ok [⟨.int, "1"⟩, ⟨.boolean, "true"⟩, ⟨.string, "zz"⟩] ∧
    decode (.list none u) "1 true zz" = some [⟨.int, "1"⟩, ⟨.boolean, "true"⟩, ⟨.string, "zz"⟩] := by decide

/-- the fixed F20i: `1e5`, `inf`, `nan` in `union(xs:decimal, xs:double, xs:string)` -/
theorem python_lexicals_rejected :
    let u : SType := .union none [.builtin .decimal, .builtin .double, .builtin .string]
    ["1e5", "inf", "nan", "Infinity", "INF"].map (atomicSequence isValid u) =
      [.ok [⟨.double, "1e5"⟩], .ok [⟨.string, "inf"⟩], .ok [⟨.string, "nan"⟩], .ok [⟨.string, "Infinity"⟩],
       .ok [⟨.double, "INF"⟩]] := by decide

/-- the fixed F20h: a LIST member of a union decodes its items (`1 2` in
`union(list of xs:int, xs:string)` was the string `1 2`) -/
theorem union_list_member_decoded :
    let u : SType := .union none [.list none (.builtin .int), .builtin .string]
    atomicSequence isValid u "1 2" = .ok [⟨.int, "1"⟩, ⟨.int, "2"⟩] ∧ decode u "1 2" = some [⟨.int, "1"⟩, ⟨.int, "2"⟩] ∧
    atomicSequence isValid u "x y" = .ok [⟨.string, "x y"⟩] := by decide

/-- the fixed F20j: the facets of a restricted member decide (`300` in
`union(xs:int with maxInclusive 100, xs:string)` was the `xs:int` 300) -/
theorem union_member_facets_respected :
    let m : SType := .restr (some "{urn:t}myint") (.builtin .int) { maxInc := some 100 }
    let u : SType := .union none [m, .builtin .string]
    atomicSequence isValid u "300" = .ok [⟨.string, "300"⟩] ∧ decode u "300" = some [⟨.string, "300"⟩] ∧
    atomicSequence isValid u "7" = .ok [⟨.int, "7"⟩] := by decide

/-- the fixed F20c: `myint` = restriction of `xs:int`, `ilist` = list of `xs:int` -/
theorem derived_types_decoded_by_nearest_builtin :
    let myint : SType := .restr (some "{urn:t}myint") (.builtin .int) {}
    atomicSequence isValid myint "5" = .ok [⟨.int, "5"⟩] ∧ decode myint "5" = some [⟨.int, "5"⟩] ∧
    atomicSequence isValid (.list (some "{urn:t}ilist") myint) "1 2" = .ok [⟨.int, "1"⟩, ⟨.int, "2"⟩] := by decide

/-- the fixed F20a -/
theorem boolean_decoding :
    ["true", "false", "1", "0", " false "].map (fun t => atomicSequence isValid (.builtin .boolean) t) =
      ["true", "false", "1", "0", " false "].map (fun t => match decode (.builtin .boolean) t with
        | some v => TV.ok v | none => .err) := by decide

/-! ### value level: the decoder against the XSD lexical mappings -/

theorem decode_atomic : ∀ {T : SType} {b : B} {s : String} {vs : List Atom},
    atomicBase? T = some b → decode T s = some vs →
    ∃ a, vs = [a] ∧ xsdLex b (normalize b s) = some a
  | .builtin b', b, s, vs, hT, h => by
    simp [atomicBase?] at hT; subst hT
    simp only [decode, Option.map_eq_some_iff] at h
    obtain ⟨a, ha, rfl⟩ := h
    exact ⟨a, rfl, ha⟩
  | .restr n base f, b, s, vs, hT, h => by
    simp only [atomicBase?] at hT
    simp only [decode] at h
    cases hb : decode base s with
    | none => rw [hb] at h; simp at h
    | some ws =>
      obtain ⟨a, rfl, ha⟩ := decode_atomic hT hb
      rw [hb] at h
      simp only at h
      split at h
      · cases h; exact ⟨a, rfl, ha⟩
      · cases h
  | .list _ _, _, _, _, hT, _ => by simp [atomicBase?] at hT
  | .union _ _, _, _, _, hT, _ => by simp [atomicBase?] at hT

theorem isList_atomic : ∀ {T : SType} {b : B}, atomicBase? T = some b → T.isList = false
  | .builtin _, _, _ => rfl
  | .restr _ base _, _, h => by
    simp only [atomicBase?] at h; simp only [SType.isList]; exact isList_atomic h
  | .list _ _, _, h => by simp [atomicBase?] at h
  | .union _ _, _, h => by simp [atomicBase?] at h

/-- **typed value = specification value, atomic types.**  For every atomic type `T` (a builtin or any
chain of restrictions, facets included) and every text that is at most one token with optional
surrounding white space: if the text is a valid literal with value `vs` by the XSD lexical mapping
(`Spec.decode`), `get_atomic_sequence` yields exactly `vs` — same class, same value. -/
theorem typed_value_eq_spec (valid : SType → String → Bool) (T : SType) (b : B) (hT : atomicBase? T = some b)
    (s : String) (h1 : (splitWs s).length ≤ 1)
    (vs : List Atom) (h : decode T s = some vs) : atomicSequence valid T s = .ok vs := by
  obtain ⟨a, rfl, ha⟩ := decode_atomic hT h
  have hpy := pyDecode_of_xsdLex b s h1 a ha
  simp [atomicSequence, memberProtos_atomic hT, isList_atomic hT, atomicLoop, decodeAll, firstMember, tryMember, hpy]

/-- builtins whose constructor applies its white-space facet itself (no `strip`) -/
def strFamily : B → Bool
  | .anyType | .anySimpleType | .anyAtomicType | .untypedAtomic
  | .string | .normalizedString | .token | .anyURI => true
  | _ => false

theorem pyDecode_eq_xsdLex_strFamily (b : B) (hb : strFamily b = true) (s : String) :
    pyDecode b s = xsdLex b (normalize b s) := by
  cases b <;> first | (simp [strFamily] at hb; done) | rfl

/-- **typed value = specification value, string family, EVERY text** (multi-word literals included):
for an atomic type whose primitive base is xs:string / normalizedString / token / anyURI or one of the
ur-types, `get_atomic_sequence` yields the value of the XSD lexical mapping for every text, with no
one-token hypothesis. -/
theorem typed_value_eq_spec_strFamily (valid : SType → String → Bool) (T : SType) (b : B)
    (hT : atomicBase? T = some b) (hb : strFamily b = true) (s : String)
    (vs : List Atom) (h : decode T s = some vs) : atomicSequence valid T s = .ok vs := by
  obtain ⟨a, rfl, ha⟩ := decode_atomic hT h
  have hpy : pyDecode b s = some a := by rw [pyDecode_eq_xsdLex_strFamily b hb s]; exact ha
  simp [atomicSequence, memberProtos_atomic hT, isList_atomic hT, atomicLoop, decodeAll, firstMember, tryMember, hpy]

/-- the hypotheses are met by a multi-word literal, and the value keeps the inner white space as the
facet of each type says -/
example : (splitWs " a \t b ").length = 2
    ∧ atomicSequence (fun _ _ => true) (.builtin .token) " a \t b " = .ok [⟨.token, "a b"⟩]
    ∧ atomicSequence (fun _ _ => true) (.builtin .normalizedString) " a \t b " = .ok [⟨.normalizedString, " a   b "⟩]
    ∧ atomicSequence (fun _ _ => true) (.builtin .string) " a \t b " = .ok [⟨.string, " a \t b "⟩] := by
  decide

/-- every member is an atomic type (a builtin or a chain of restrictions, WITH facets) -/
def atomicMembers : List SType → Option (List (SType × B))
  | [] => some []
  | m :: ms => match atomicBase? m, atomicMembers ms with
    | some b, some r => some ((m, b) :: r)
    | _, _ => none

theorem iterMembers_atomic_depth : ∀ {t : SType} {b : B} (d : Nat), d ≤ 15 → atomicBase? t = some b →
    SType.iterMembers d t = [(none, b)]
  | .builtin b', b, d, hd, h => by
    simp [atomicBase?] at h; subst h
    have : ¬ d > 15 := by omega
    simp [SType.iterMembers, this]
  | .restr n base f, b, d, hd, h => by
    simp only [atomicBase?] at h; simp only [SType.iterMembers]; exact iterMembers_atomic_depth d hd h
  | .list n i, b, _, _, h => by simp [atomicBase?] at h
  | .union n ms, b, _, _, h => by simp [atomicBase?] at h

theorem iterMembersL_atomic : ∀ {ms : List SType} {mb : List (SType × B)}, atomicMembers ms = some mb →
    SType.iterMembersL 2 ms = mb.map fun p => (some p.1, p.2)
  | [], mb, h => by simp [atomicMembers] at h; subst h; rfl
  | m :: ms, mb, h => by
    simp only [atomicMembers] at h
    cases hm : atomicBase? m with
    | none => rw [hm] at h; simp at h
    | some b =>
      cases hr : atomicMembers ms with
      | none => rw [hm, hr] at h; simp at h
      | some r =>
        rw [hm, hr] at h
        simp only [Option.some.injEq] at h
        subst h
        simp [SType.iterMembersL, iterMembers_atomic_depth 2 (by omega) hm, iterMembersL_atomic hr]

/-- the member loop on one literal = "the first member type, in declaration order, in which the
literal is valid" (XSD 1.1 Part 2 §2.4.1.3) — for atomic members with their facets, a one-token
literal, and the schema processor's `is_valid` -/
theorem firstMember_eq_decodeFirst : ∀ {ms : List SType} {mb : List (SType × B)}, atomicMembers ms = some mb →
    ∀ (s : String), (splitWs s).length ≤ 1 →
      firstMember isValid (mb.map fun p => (some p.1, p.2)) s = decodeFirst ms s
  | [], mb, h, s, _ => by simp [atomicMembers] at h; subst h; rfl
  | m :: ms, mb, h, s, h1 => by
    simp only [atomicMembers] at h
    cases hm : atomicBase? m with
    | none => rw [hm] at h; simp at h
    | some b =>
      cases hr : atomicMembers ms with
      | none => rw [hm, hr] at h; simp at h
      | some r =>
        rw [hm, hr] at h
        simp only [Option.some.injEq] at h
        subst h
        simp only [List.map_cons, firstMember, tryMember, isValid, decodeFirst, isList_atomic hm]
        cases hd : decode m s with
        | none => simpa using firstMember_eq_decodeFirst hr s h1
        | some vs =>
          obtain ⟨a, rfl, ha⟩ := decode_atomic hm hd
          simp [pyDecode_of_xsdLex b s h1 a ha]

theorem decodeAll_eq_decodeItems {ms : List SType} {mb : List (SType × B)} (hm : atomicMembers ms = some mb) :
    ∀ (toks : List String), (∀ w ∈ toks, (splitWs w).length ≤ 1) →
      decodeAll isValid (mb.map fun p => (some p.1, p.2)) toks = decodeItems (decodeFirst ms) toks
  | [], _ => rfl
  | w :: ws, htok => by
    simp only [decodeItems, decodeAll, firstMember_eq_decodeFirst hm w (htok w List.mem_cons_self),
      decodeAll_eq_decodeItems hm ws (fun x hx => htok x (List.mem_cons_of_mem _ hx))]
    cases decodeFirst ms w <;> cases decodeItems (decodeFirst ms) ws <;> rfl

/-- **typed value = specification value, unions** — FULL (fixes F20a, F20i, F20j): for a union (named
or not) with at least one member whose members are atomic types — builtins or restrictions WITH
facets — and every one-token text: `get_atomic_sequence` yields the value in the FIRST member type,
in declaration order, in which the literal is valid, and raises exactly when no member accepts it. -/
theorem typed_value_eq_spec_union (n : Option String) (ms : List SType) (p : SType × B) (mb : List (SType × B))
    (hm : atomicMembers ms = some (p :: mb)) (s : String) (h1 : (splitWs s).length ≤ 1) :
    atomicSequence isValid (.union n ms) s =
      match decode (.union n ms) s with
      | some vs => .ok vs
      | none => .err := by
  have hprotos : (SType.union n ms).memberProtos = (p :: mb).map fun q => (some q.1, q.2) := by
    simp [SType.memberProtos, SType.iterMembers, iterMembersL_atomic hm]
  have hf := firstMember_eq_decodeFirst hm s h1
  simp only [decode, atomicSequence, hprotos, SType.isList, atomicLoop, Bool.false_eq_true, if_false,
    List.map_cons, decodeAll] at hf ⊢
  rw [hf]
  cases decodeFirst ms s <;> simp

/-- **typed value = specification value, lists of a union** — FULL (fix F20g): EVERY text is decoded
item by item, each item by the first member (atomic, with facets) that accepts it; the decoder
raises exactly when some item is valid for no member. -/
theorem typed_value_eq_spec_list_of_union (n m : Option String) (ms : List SType) (p : SType × B)
    (mb : List (SType × B)) (hm : atomicMembers ms = some (p :: mb)) (s : String) :
    atomicSequence isValid (.list n (.union m ms)) s =
      match decode (.list n (.union m ms)) s with
      | some vs => .ok vs
      | none => .err := by
  have hprotos : (SType.list n (.union m ms)).memberProtos = (p :: mb).map fun q => (some q.1, q.2) := by
    simp [SType.memberProtos, SType.iterMembers, iterMembersL_atomic hm]
  have := decodeAll_eq_decodeItems hm (splitWs s) (fun w hw => token_single s w hw)
  simp only [List.map_cons] at this hprotos
  simp only [decode, atomicSequence, hprotos, SType.isList, atomicLoop, if_true]
  rw [this]
  show _ = match decodeItems (decodeFirst ms) (splitWs s) with | some vs => TV.ok vs | none => TV.err
  cases decodeItems (decodeFirst ms) (splitWs s) <;> rfl

/-- the item loop of `get_atomic_sequence` on a list of an atomic item type whose items are all valid -/
theorem decodeAll_valid (valid : SType → String → Bool) (item : SType) (b : B) (hT : atomicBase? item = some b) :
    ∀ (toks : List String), (∀ w ∈ toks, (splitWs w).length ≤ 1) →
    ∀ (vs : List Atom), decodeItems (decode item) toks = some vs → decodeAll valid [(none, b)] toks = some vs
  | [], _, vs, h => by simp [decodeItems] at h; subst h; rfl
  | w :: ws, htok, vs, h => by
    simp only [decodeItems] at h
    cases hw : decode item w with
    | none => rw [hw] at h; simp at h
    | some aw =>
      cases hr : decodeItems (decode item) ws with
      | none => rw [hw, hr] at h; simp at h
      | some r =>
        rw [hw, hr] at h
        simp only [Option.some.injEq] at h
        subst h
        obtain ⟨a, rfl, ha⟩ := decode_atomic hT hw
        have hpy := pyDecode_of_xsdLex b w (htok w List.mem_cons_self) a ha
        have ih := decodeAll_valid valid item b hT ws (fun x hx => htok x (List.mem_cons_of_mem _ hx)) r hr
        simp [decodeAll, firstMember, tryMember, hpy, ih]

/-- **typed value = specification value, list types.**  For every list (named or not) of an atomic
item type and EVERY text: if all items are valid literals of the item type with values `vs`,
`get_atomic_sequence` yields exactly `vs`. -/
theorem typed_value_eq_spec_list (valid : SType → String → Bool) (n : Option String) (item : SType) (b : B)
    (hT : atomicBase? item = some b) (s : String) (vs : List Atom)
    (h : decode (.list n item) s = some vs) : atomicSequence valid (.list n item) s = .ok vs := by
  simp only [decode] at h
  have hitems := decodeAll_valid valid item b hT (splitWs s) (fun w hw => token_single s w hw) vs h
  simp [atomicSequence, memberProtos_list_atomic hT, SType.isList, atomicLoop, hitems]

/-- TEST: the hypotheses of the value-level theorems hold on non-trivial inputs -/
example : decode (.restr (some "d") (.builtin .decimal) {}) " +01.50 " = some [⟨.decimal, "1.5"⟩] ∧
    (splitWs " +01.50 ").length ≤ 1 ∧
    (atomicMembers [.restr none (.builtin .byte) { maxInc := some 100 }, .builtin .boolean, .builtin .token]).isSome = true ∧
    decode (.union none [.restr none (.builtin .byte) { maxInc := some 100 }, .builtin .boolean, .builtin .token]) " 120 " =
      some [⟨.token, "120"⟩] ∧
    atomicSequence isValid (.union none [.builtin .byte, .builtin .boolean]) "300" = .err := by
  decide

/-- **`instance of` is closed under base types** (`element(*, T)` / `attribute(*, T)` for the
declared type and all its base types): an atom that is an instance of `b` is an instance of every
type `b` is derived from. -/
theorem base_types_match (a : Atom) (b c : B) (h : a.instanceOf b = true) (hd : b.derives c = true) :
    a.instanceOf c = true :=
  derives_trans a.cls b c h hd

/-! ## node selection -/

/-- the schema declares no attribute value constraint (no PSVI attribute defaults) -/
def NoAttrDefaults (s : Schema) : Prop := ∀ ct ∈ s.ctypes, ∀ d ∈ ct.attrs, d.default = none

theorem attrNodes_shape (s : Schema) (h : NoAttrDefaults s) (a : Ann) (ats : List (String × String)) :
    ∃ g : String × String → Option SType,
      attrNodes s a ats = ats.map fun nv => (⟨nv.1, nv.2, g nv, false⟩ : AttrNode) := by
  unfold attrNodes
  split
  · exact ⟨fun _ => none, rfl⟩
  · unfold attrNodesFor
    simp only []
    split
    · exact ⟨fun _ => none, rfl⟩
    · rename_i id
      split
      · exact ⟨fun _ => none, rfl⟩
      · rename_i ct hct
        have hmem : ct ∈ s.ctypes := List.mem_of_getElem? hct
        rw [List.filterMap_eq_nil_iff.mpr (by intro d hd; rw [h ct hmem d hd]), List.append_nil]
        exact ⟨_, rfl⟩

theorem typedAttrs_plain (s : Schema) (h : NoAttrDefaults s) (a : Ann) (ats : List (String × String)) :
    typedAttrs s a ats = plainAttrs ats := by
  obtain ⟨g, hg⟩ := attrNodes_shape s h a ats
  unfold typedAttrs plainAttrs
  rw [hg, List.zipIdx_map, List.map_map]
  apply List.map_congr_left
  intro x _
  rfl

/-- core of the erasure proof: a typed configuration whose attribute lists ignore the annotation -/
theorem erasure_core (s : Schema) (ao : Ann → List (String × String) → List (String × String × Nat))
    (hao : ∀ a ats, ao a ats = plainAttrs ats) (t : Forest Unit)
    (ht : t ≠ .nil) (dummyDoc : Bool) (e : E) (hb : (dummyDoc && starAtDoc false e) = false) :
    select (⟨dummyDoc, dummyDoc, ao⟩ : Cfg Ann) (!dummyDoc) (applySchema s t) e =
      select (Cfg.plain dummyDoc) (!dummyDoc) t e := by
  -- step 1: the dropRoot flag is irrelevant for this expression
  have h1 : select (⟨dummyDoc, dummyDoc, ao⟩ : Cfg Ann) (!dummyDoc) (applySchema s t) e =
      select ((⟨dummyDoc, dummyDoc, ao⟩ : Cfg Ann).withDrop false) (!dummyDoc) (applySchema s t) e := by
    cases dummyDoc with
    | false => rfl
    | true =>
      simp only [Bool.true_and] at hb
      unfold select
      have hstart : isDoc (startItem (!true) (applySchema s t)) = true → false = true := by
        intro h
        unfold startItem at h
        simp only [Bool.not_true, Bool.false_eq_true, if_false] at h
        cases hs : sibs 0 (applySchema s t) with
        | nil =>
          -- an empty forest is excluded by `ht`
          have hnil : applySchema s t = .nil := by
            cases hf : applySchema s t with
            | nil => rfl
            | leaf k txt r => rw [hf] at hs; simp [sibs] at hs
            | elem a n ats x k r => rw [hf] at hs; simp [sibs] at hs
          have := apply_schema_keeps_tree s t
          rw [hnil] at this
          exact absurd this.symm ht
        | cons x xs =>
          rw [hs] at h
          have := sibs_noDoc _ 0 x (by rw [hs]; exact List.mem_cons_self)
          simp only at h
          rw [this] at h; cases h
      have := (eval_withDrop (⟨true, true, ao⟩ : Cfg Ann) rfl (.doc (applySchema s t)) e false
        (startItem (!true) (applySchema s t)) 1 1 hstart hb).1
      show sortIdx (List.filterMap Item.idx? (eval ((⟨true, true, ao⟩ : Cfg Ann).withDrop true) _ e _ 1 1).1) = _
      rw [this]
  -- step 2: relabelling by `erase`
  have hag : Agree (fun _ : Ann => ()) ((⟨dummyDoc, dummyDoc, ao⟩ : Cfg Ann).withDrop false) (Cfg.plain dummyDoc) :=
    ⟨rfl, rfl, fun a ats => (hao a ats).symm⟩
  rw [h1, ← select_map hag (!dummyDoc) (applySchema s t) e]
  have := apply_schema_keeps_tree s t
  unfold Forest.erase at this
  rw [this]

/-- **Selection type erasure** — PARTIAL (known findings F20b, F20d).
Full statement: "for every path expression without type tests and value comparisons, evaluation with
a schema-bound parser on the schema-typed tree selects exactly the nodes that schema-less evaluation
selects on the plain tree".  It is false on the real code in two ways (`selection_fails_star_root`,
`selection_fails_default_attribute`); it holds for every schema without attribute value
constraints, every tree, every expression of the path language `E`, i.e. EXACTLY these forms:
* steps on the axes child, descendant, descendant-or-self, self, attribute, parent (`..`), ancestor,
  following-sibling, preceding-sibling, with a name test, `*`, `node()` or `schema-element(N)`;
* predicates: `[n]`, `[last()]`, `[position() <= n]`, existence `[path]` (so `[a]`, `[@x]`, `[..]`),
  `[count(path) > n]`, and `not` / `and` / `or` over these, nested to any depth, up to two per step —
unless the tree is passed as an element (`dummyDoc`) and the expression applies an abbreviated `*`
step to the document node (`starAtDoc`).  Predicates that READ a node's value do not erase
(`value_comparison_does_not_erase`). -/
theorem selection_type_erasure_partial (s : Schema) (hd : NoAttrDefaults s) (t : Forest Unit)
    (ht : t ≠ .nil) (dummyDoc : Bool) (e : E) (hb : (dummyDoc && starAtDoc false e) = false) :
    select (Cfg.typed s dummyDoc) (!dummyDoc) (applySchema s t) e = select (Cfg.plain dummyDoc) (!dummyDoc) t e :=
  erasure_core s (typedAttrs s) (typedAttrs_plain s hd) t ht dummyDoc e hb

/-- **… and for EVERY schema, attribute value constraints included (the F20d hypothesis dropped)**, the
same holds for the expressions that use neither the attribute axis nor an upward / sideways axis
(`usesAttrOrUp e = false`: child, descendant, descendant-or-self and self steps with all the
predicate forms above over such steps): defaulted attribute nodes are reachable through the
attribute axis only, so they cannot change what these expressions select. -/
theorem selection_type_erasure_defaults_partial (s : Schema) (t : Forest Unit) (ht : t ≠ .nil)
    (dummyDoc : Bool) (e : E) (hu : usesAttrOrUp e = false)
    (hb : (dummyDoc && starAtDoc false e) = false) :
    select (Cfg.typed s dummyDoc) (!dummyDoc) (applySchema s t) e = select (Cfg.plain dummyDoc) (!dummyDoc) t e := by
  rw [select_attrs_irrelevant (Cfg.typed s dummyDoc) (⟨dummyDoc, dummyDoc, fun _ ats => plainAttrs ats⟩ : Cfg Ann)
    rfl (!dummyDoc) (applySchema s t) e hu]
  exact erasure_core s (fun _ ats => plainAttrs ats) (fun _ _ => rfl) t ht dummyDoc e hb

/-- the hypothesis `usesAttrOrUp e = false` of `selection_type_erasure_defaults_partial` is needed:
see `selection_fails_default_attribute` (`//*[@d]` under a schema with a defaulted attribute).
TEST: its hypotheses are satisfiable under a schema WITH a defaulted attribute -/
example :
    let s : Schema := { ctypes := [⟨none, .elementOnly, [.elem ⟨"a", .simple (.builtin .int), false, none⟩ []],
                                    [⟨"d", .builtin .int, some "3"⟩]⟩],
                        elements := [⟨"r", .complex 0, false, none⟩], types := [] }
    let t : Forest Unit := .elem () "r" [] .absent (.elem () "a" [] .absent (.leaf .text "1" .nil) .nil) .nil
    let e : E := .step (.step .root .descOrSelf .node .ptrue .ptrue) .child (.name "a") (.pos 1) .ptrue
    usesAttrOrUp e = false ∧ select (Cfg.typed s true) false (applySchema s t) e = [1] ∧
    select (Cfg.plain true) false t e = [1] := by decide

/-- **a predicate that reads the typed value does NOT erase** (why value comparisons are outside `E`):
`//*[not(*)][. = 'a b']` on `<r><k> a  b </k><n>7</n></r>`: with `k : xs:token` the leaf `k` is selected
under the schema (typed value `a b`, white space collapsed) and not without it (string value
` a  b `); and with a numeric leaf (`n : xs:int`) the expression RAISES under the schema (XPTY0004:
`xs:int` against a string) while it answers without it. -/
theorem value_comparison_does_not_erase :
    let s : Schema := { ctypes := [⟨none, .elementOnly, [.elem ⟨"k", .simple (.builtin .token), false, none⟩ [],
                                     .elem ⟨"n", .simple (.builtin .int), false, none⟩ []], []⟩],
                        elements := [⟨"r", .complex 0, false, none⟩], types := [] }
    let k : Forest Unit := .elem () "k" [] .absent (.leaf .text " a  b " .nil) .nil
    let t : Forest Unit := .elem () "r" [] .absent k .nil
    let t2 : Forest Unit := .elem () "r" [] .absent (.elem () "n" [] .absent (.leaf .text "7" .nil) k) .nil
    selectValEq isValid s "a b" 0 (applySchema s t) = some [1] ∧
    selectValEq isValid s "a b" 0 (clearF t) = some [] ∧
    selectValEq isValid s "a b" 0 (applySchema s t2) = none ∧
    selectValEq isValid s "a b" 0 (clearF t2) = some [] := by decide

/-- corollary: when the tree is passed as a document (no dummy document node), the schema never
changes the selection of any expression of `E` (schemas without attribute value constraints) -/
theorem selection_type_erasure_document (s : Schema) (hd : NoAttrDefaults s) (t : Forest Unit)
    (ht : t ≠ .nil) (e : E) :
    select (Cfg.typed s false) true (applySchema s t) e = select (Cfg.plain false) true t e :=
  selection_type_erasure_partial s hd t ht false e rfl

/-- F20b, kernel-checked on the model: `//*` on `<r><a/></r>` given as an element selects `r` and
`a` without schema and only `a` with a schema-bound parser -/
theorem selection_fails_star_root :
    let t : Forest Unit := .elem () "r" [] .absent (.elem () "a" [] .absent .nil .nil) .nil
    let e : E := .step (.step .root .descOrSelf .node .ptrue .ptrue) .child .star .ptrue .ptrue
    select (Cfg.plain true) false t e = [0, 1] ∧
    select (Cfg.typed exSchema true) false (applySchema exSchema t) e = [1] ∧
    starAtDoc false e = true := by decide

/-- F20d, kernel-checked on the model: a defaulted attribute makes `//*[@d]` select an element that
has no such attribute in the document -/
theorem selection_fails_default_attribute :
    let s : Schema := { ctypes := [⟨none, .empty, [], [⟨"d", .builtin .int, some "3"⟩]⟩],
                        elements := [⟨"r", .complex 0, false, none⟩], types := [] }
    let t : Forest Unit := .elem () "r" [] .absent .nil .nil
    let e : E := .step (.step .root .descOrSelf .node .ptrue .ptrue) .descOrSelf .star
                   (.exist (.step .here .attrib (.name "d") .ptrue .ptrue)) .ptrue
    select (Cfg.plain false) true t e = [] ∧ select (Cfg.typed s false) true (applySchema s t) e = [0] := by
  decide

/-- TEST: the hypotheses of `selection_type_erasure_partial` are satisfiable with a dummy document
and a `*` step that is not at the document (`/r/*[last()]`) -/
example : NoAttrDefaults exSchema ∧
    starAtDoc false (.step (.step .root .child (.name "r") .ptrue .ptrue) .child .star .last .ptrue) = false ∧
    select (Cfg.typed exSchema true) false (applySchema exSchema exTree)
      (.step (.step .root .child (.name "r") .ptrue .ptrue) .child .star .last .ptrue) = [7] := by
  refine ⟨?_, by decide, by decide⟩
  intro ct hct d hd
  simp [exSchema] at hct
  subst hct
  cases hd

end EPV.C20

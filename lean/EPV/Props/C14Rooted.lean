/-
C14, phase 5: rooted sub-trees.  Model: `EPV/Model/RootedPath.lean`.
In a context whose root is an element WITH an element parent:
* `fn:path(node)` (after fix-c14-6: `root()` + the steps from the context root) selects exactly the node, for every
  tree and every node under the context root — `rooted_fn_path_selects_self`, full strength;
* `node.path`, a property of the node that does not know the context, never does (finding F14l, narrowed) —
  `rooted_abs_path_never_selects`; evaluated against the root of the whole tree it does (`path_selects_self`).
-/
import EPV.Props.C14
import EPV.Model.RootedPath
namespace EPV.C14
open EPV.NodePath

/-- whatever a generated path selects, from whatever tree it is evaluated, lies exactly as deep below the
starting point as the node lies below the root of the tree the path was generated in -/
theorem eval_path_depth (top T : Node) (r x : Ref) (steps : List Step) (hp : pathOf top r = some steps)
    (hx : x ∈ evalSteps T steps) : x.path.length = r.path.length := by
  obtain ⟨c, hc, hlen⟩ := evalFrom_len T steps [⟨[], .self⟩] x hx
  simp only [List.mem_singleton] at hc
  subst hc
  have hn := nChild_pathOfWith sameKind top r steps hp
  simp only [List.length_nil] at hlen
  omega

/-- F14l, exact extent, absolute form (`node.path`, and `fn:path` when the whole tree is a document): `atop` is the
whole tree seen from its document node (a real one, or the one `/` stands for above an element root), `apre` the
position of the context root in it — at least 2 deep, because its parent is an element.  The text never selects
the node (which is `⟨0 :: is, sel⟩` under the dummy document of the context), whatever `sub` is. -/
theorem rooted_abs_path_never_selects (atop sub : Node) (apre is : List Nat) (sel : Sel) (steps : List Step)
    (hpre : apre.length ≥ 2) (hp : pathOf atop ⟨apre ++ is, sel⟩ = some steps) :
    evalAbsRooted sub steps ≠ [⟨0 :: is, sel⟩] := by
  intro h
  have hx : (⟨0 :: is, sel⟩ : Ref) ∈ evalSteps (docNode [sub]) steps := by
    unfold evalAbsRooted at h; rw [h]; simp
  have := eval_path_depth atop (docNode [sub]) _ _ steps hp hx
  simp only [List.length_cons, List.length_append] at this
  omega

/-- REPAIRED (fix-c14-6), kept as documentation of the old behaviour `fnPathRootedOld`: the steps were those from the
root `e` of the whole tree, but `root()` is the context root, `pre` (≥ 1) levels deeper — the old text never
selected its node. -/
theorem rooted_fn_path_old_never_selects (e sub : Node) (pre : List Nat) (r : Ref) (steps : List Step)
    (hpre : pre.length ≥ 1) (hp : fnPathRootedOld e pre r = some steps) :
    evalRootFnRooted sub steps ≠ [r] := by
  intro h
  have hx : r ∈ evalSteps sub steps := by
    unfold evalRootFnRooted at h; rw [h]; simp
  have := eval_path_depth e sub _ _ steps hp hx
  simp only [List.length_append] at this
  omega

/-- the trigger is what the two theorems need: a rooted context root lies ≥ 1 below an element root, ≥ 2 below
a document node -/
theorem rootedCtx_depth (isDoc : Bool) (top : Node) (pre : List Nat) (h : rootedCtx isDoc top pre = true) :
    pre.length ≥ (if isDoc then 2 else 1) := by
  simp only [rootedCtx, Bool.and_eq_true, decide_eq_true_eq] at h
  exact h.1

/-- F14l witness, kernel-checked, `<a><a><a/></a></a>` with the context on the middle `a`: its own
`path` `/Q{}a[1]/Q{}a[1]` selects the innermost `a` (a WRONG node); so did its `fn:path` before fix-c14-6,
`root()/Q{}a[1]`; evaluated against the whole tree both select the right node. -/
theorem rooted_path_wrong_node :
    let inner := Node.elem ⟨"", "a"⟩ [] [] []
    let sub := Node.elem ⟨"", "a"⟩ [] [] [inner]
    let e := Node.elem ⟨"", "a"⟩ [] [] [sub]
    rootedCtx false e [0] = true ∧
    pathOf (docNode [e]) ⟨[0, 0], .self⟩ = some [.child ⟨"", "a"⟩ 1, .child ⟨"", "a"⟩ 1] ∧
    evalAbsRooted sub [.child ⟨"", "a"⟩ 1, .child ⟨"", "a"⟩ 1] = [⟨[0, 0], .self⟩] ∧     -- `inner`, under the dummy
    evalSteps (docNode [e]) [.child ⟨"", "a"⟩ 1, .child ⟨"", "a"⟩ 1] = [⟨[0, 0], .self⟩] ∧  -- `sub`, in the whole tree
    pathOf e ⟨[0], .self⟩ = some [.child ⟨"", "a"⟩ 1] ∧
    evalRootFnRooted sub [.child ⟨"", "a"⟩ 1] = [⟨[0], .self⟩] ∧                             -- `inner` again
    evalSteps e [.child ⟨"", "a"⟩ 1] = [⟨[0], .self⟩] := by decide                            -- `sub`, from `e`

/-- HEADLINE (rooted sub-trees), full strength.  For every whole tree `top`, every context root at `pre` (any
depth), every node `r` under it (all seven kinds): the text `fn:path` returns in that context — `root()` + the steps
`fnPathRooted top pre r` — evaluated in the same context (where `root()` is the context root) selects exactly `[r]`. -/
theorem rooted_fn_path_selects_self (top sub : Node) (pre : List Nat) (r : Ref) (steps : List Step)
    (hs : descend top pre = some sub) (hw : sub.wf = true) (hp : fnPathRooted top pre r = some steps) :
    evalRootFnRooted sub steps = [r] := by
  simp only [fnPathRooted, hs] at hp
  exact path_selects_self sub r steps hw hp

/-- `fn:path` in a rooted context is defined exactly on the nodes under the context root, and is injective there. -/
theorem rooted_fn_path_defined_iff (top sub : Node) (pre : List Nat) (r : Ref) (hs : descend top pre = some sub) :
    (fnPathRooted top pre r).isSome ↔ Valid sub r := by
  simp only [fnPathRooted, hs]; exact path_defined_iff_valid sub r

theorem rooted_fn_path_injective (top sub : Node) (pre : List Nat) (r₁ r₂ : Ref) (steps : List Step)
    (hs : descend top pre = some sub) (hw : sub.wf = true)
    (h₁ : fnPathRooted top pre r₁ = some steps) (h₂ : fnPathRooted top pre r₂ = some steps) : r₁ = r₂ := by
  simp only [fnPathRooted, hs] at h₁ h₂
  exact path_injective sub r₁ r₂ steps hw h₁ h₂

theorem pathToWith_append (cnt : Node → Node → Bool) : ∀ (pre : List Nat) (top : Node) (is : List Nat),
    pathToWith cnt top (pre ++ is) =
      match pathToWith cnt top pre, descend top pre with
      | some p0, some s => (pathToWith cnt s is).map (p0 ++ ·)
      | _, _ => none := by
  intro pre
  induction pre with
  | nil => intro top is; simp [pathToWith, descend]
  | cons i pre ih =>
    intro top is
    simp only [List.cons_append, pathToWith, descend]
    cases top.kids[i]? with
    | none => rfl
    | some c =>
      simp only [ih c is]
      cases pathToWith cnt c pre <;> cases descend c pre <;> simp
      cases pathToWith cnt _ is <;> simp

/-- the string slicing of the repair, `item.path[len(context.root.path):]`: the whole-tree path of a node under the
context root is the whole-tree path of the context root followed by exactly the steps `fnPathRooted` gives. -/
theorem rooted_fn_path_slicing (top sub : Node) (pre : List Nat) (r : Ref) (hs : descend top pre = some sub) :
    pathOf top ⟨pre ++ r.path, r.sel⟩ =
      (pathOf top ⟨pre, .self⟩).bind fun p0 => (fnPathRooted top pre r).map (p0 ++ ·) := by
  simp only [fnPathRooted, hs, pathOf, pathOfWith, pathToWith_append, descend_append, Option.bind_some]
  cases pathToWith sameKind top pre with
  | none => simp
  | some p0 =>
    simp only [Option.bind_some]
    cases pathToWith sameKind sub r.path with
    | none => simp
    | some rel =>
      cases descend sub r.path with
      | none => simp
      | some n => cases r.sel <;> simp [Option.map_map, Function.comp_def]

/-- the hypotheses of the theorems are satisfiable (test): `<r><a><b/><b/></a></r>`, context on `a` -/
example :
    let sub := Node.elem ⟨"", "a"⟩ [] [] [.elem ⟨"", "b"⟩ [] [] [], .elem ⟨"", "b"⟩ [] [] []]
    let e := Node.elem ⟨"", "r"⟩ [] [] [sub]
    rootedCtx false e [0] = true ∧ rootedCtx true (docNode [e]) [0, 0] = true ∧ rootedCtx true (docNode [e]) [0] = false ∧
    pathOf (docNode [e]) ⟨[0, 0] ++ [1], .self⟩ = some [.child ⟨"", "r"⟩ 1, .child ⟨"", "a"⟩ 1, .child ⟨"", "b"⟩ 2] ∧
    pathOf e ⟨[0] ++ [1], .self⟩ = some [.child ⟨"", "a"⟩ 1, .child ⟨"", "b"⟩ 2] ∧
    evalAbsRooted sub [.child ⟨"", "r"⟩ 1, .child ⟨"", "a"⟩ 1, .child ⟨"", "b"⟩ 2] = [] ∧
    fnPathRootedOld e [0] ⟨[1], .self⟩ = some [.child ⟨"", "a"⟩ 1, .child ⟨"", "b"⟩ 2] ∧
    evalRootFnRooted sub [.child ⟨"", "a"⟩ 1, .child ⟨"", "b"⟩ 2] = [] ∧
    sub.wf = true ∧ fnPathRooted e [0] ⟨[1], .self⟩ = some [.child ⟨"", "b"⟩ 2] ∧
    evalRootFnRooted sub [.child ⟨"", "b"⟩ 2] = [⟨[1], .self⟩] := by decide

end EPV.C14

/-
C17 — the carriage-return mark of `serialize_to_xml` on the WHOLE serialized element (`Model/XmlCrMark.lean`).

`Piece`: the strings an element is serialized from (markup, namespace URIs, text/tails, attribute values, comment/PI data);
`chooseMark`: the first private-use code point U+E000…U+F8FE outside the scanned strings; `serializeMarked sc`: CR of
text/tails ↦ mark, ElementTree's escaping of every piece, `.replace(mark, '&#13;')` on the whole output.
`Scan.all` is the repository's scan (fixed tree: every string of the subtree), `Scan.values` the tree before the F17x fix
(tags / attribute names not read), `Scan.textTail` the scan restricted to text and tails (seeded regression).
-/
import EPV.Lemmas.XmlCrMark
namespace EPV.C17
open EPV.Json

/-- FRESHNESS ⇒ the replace is exact, whatever was scanned: if the chosen mark occurs in NONE of the source strings the
serializer emits (markup, namespace URIs, text, tails, attribute values, comment and PI data), then replacing it in the
whole output gives exactly the wanted output (every piece as ElementTree escapes it, U+000D of text/tails as `&#13;`). -/
theorem serialize_cr_mark_exact (sc : Scan) (ps : List Piece) (k : Nat) (hk : chooseMark (usedChars sc ps) = some k)
    (hfresh : ∀ p ∈ ps, ∀ x ∈ p.src, x ≠ k) : serializeMarked sc ps = some (wantedOutput ps) := by
  obtain ⟨hlo, _, _⟩ := chooseMark_spec _ k hk
  have e : serializeMarked sc ps = some (replaceAll [k] [38, 35, 49, 51, 59] (ps.flatMap (Piece.emitMarked k))) := by
    unfold serializeMarked; rw [hk]
  rw [e, replaceAll_flatMap_pieces, wantedOutput,
    flatMap_congr_pieces ps (fun p hp => piece_exact k hlo p (hfresh p hp))]

/-- FULL STRENGTH for the repository's scan (fixed tree: every string of the serialized subtree is read — text, tails,
attribute values and names, tags / namespace URIs, comment and PI data): whenever a mark exists (`chooseMark … = some k`:
fewer than 6399 distinct private-use characters in the subtree), the output is exactly the wanted one.  No assumption on
namespace URIs or any other string is left. -/
theorem serialize_cr_mark_roundtrip (ps : List Piece) (k : Nat) (hk : chooseMark (usedChars .all ps) = some k) :
    serializeMarked .all ps = some (wantedOutput ps) := by
  obtain ⟨_, _, hused⟩ := chooseMark_spec _ k hk
  refine serialize_cr_mark_exact .all ps k hk (fun p hp x hx hxk => ?_)
  have hs : p.scanned .all = true := by cases p <;> rfl
  exact hused x (List.mem_flatMap.mpr ⟨p, List.mem_filter.mpr ⟨hp, hs⟩, hx⟩) hxk

/-- the hypotheses hold on a non-trivial element (test on literals): attribute value U+E000, text `U+E001 CR`, comment
U+E002 — the mark is U+E003 and the output is the wanted one -/
example :
    let ps : List Piece := [.markup [60, 97, 32, 107, 61, 34], .attr [0xE000], .markup [34, 62], .chars [0xE001, 13],
      .markup [60, 33, 45, 45], .raw [0xE002], .markup [45, 45, 62, 60, 47, 97, 62]]
    chooseMark (usedChars .all ps) = some 0xE003 ∧ serializeMarked .all ps = some (wantedOutput ps) := by
  decide +kernel

/-- the scan restricted to text and tails (seeded regression) fails exactly when the mark collides (test on literals):
`<a k="U+E000">x CR</a>` — the attribute value comes out as `&#13;` -/
theorem cr_mark_text_tail_scan_fails :
    let ps : List Piece := [.markup [60, 97, 32, 107, 61, 34], .attr [0xE000], .markup [34, 62], .chars [120, 13],
      .markup [60, 47, 97, 62]]
    markCollides .textTail ps = true ∧ serializeMarked .textTail ps ≠ some (wantedOutput ps) ∧
    markCollides .all ps = false ∧ serializeMarked .all ps = some (wantedOutput ps) := by
  decide +kernel

/-- F17x (tree before `fix: fn:serialize chooses the U+000D placeholder outside every string …`; `Scan.values`): the scan did
not read namespace URIs; `<ns0:a xmlns:ns0="uU+E000">CR</ns0:a>`: the URI came out as `u&#13;`.  The repaired scan (`Scan.all`)
is exact on the same element (regression test on the literal). -/
theorem cr_mark_nsuri_fails :
    let ps : List Piece := [.markup [60, 110, 115, 48, 58, 97, 32, 120, 109, 108, 110, 115, 58, 110, 115, 48, 61, 34],
      .nsuri [117, 0xE000], .markup [34, 62], .chars [13], .markup [60, 47, 110, 115, 48, 58, 97, 62]]
    markCollides .values ps = true ∧ serializeMarked .values ps ≠ some (wantedOutput ps) ∧
    markCollides .all ps = false ∧ chooseMark (usedChars .all ps) = some 0xE001 ∧
    serializeMarked .all ps = some (wantedOutput ps) := by
  decide +kernel

end EPV.C17

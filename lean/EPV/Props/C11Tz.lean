/-
C11 (extension, phase 5) — the timezone LEXICAL forms: `Timezone.fromstring` and `Timezone.__str__`
(elementpath/datatypes/datetime.py:57-70, 93-115) against XSD 1.1 Part 2 §3.3.7.2 production [43]
`timezoneFrag ::= 'Z' | ('+' | '-') (('0' digit | '1' [0-3]) ':' minuteFrag | '14:00')`, ·timezoneFragValue· and
·timezoneCanonicalFragmentMap· (offsets −14:00 … +14:00 = −840 … 840 minutes).

* `TzLex.fromString` / `TzLex.toStr` : the model (EPV/Model/TzLex.lean) of the code after `fix-c11-5`, line by line, on
  ARBITRARY text, including the primitives the method is made of (`strip(' \\t\\n\\r')`, the three zero forms, the full
  match of `_TIMEZONE_PATTERN`, `split(':')`, `int()`, `timedelta` overflow, constructor range check).
* `TzLexSpec.parse` / `canon` : the specification (EPV/Spec/TzLex.lean): lexical mapping defined exactly on the 1683
  strings of [43], canonical mapping.
* `TzLex.pinnedZero` : trigger of what is left of finding F11z (`00:00` and `-0:0`, pinned by the library's test suite, read as `Z`).
All theorems quantify over every offset / every list of characters.
-/
import EPV.Lemmas.TzLex
namespace EPV.C11
open EPV.TzLex EPV.TzLexSpec

/-- **parse ∘ print = id**: for every offset of −14:00 … +14:00, `Timezone.fromstring(str(tz))` is the same offset. -/
theorem tz_fromstring_str_roundtrip (v : Int) (h1 : -840 ≤ v) (h2 : v ≤ 840) : fromString (toStr v) = .ok v :=
  (offset_facts v h1 h2).1

example : toStr (-30) = "-00:30".toList ∧ fromString "-00:30".toList = .ok (-30) := by decide +kernel

/-- **print = the XSD canonical mapping**: for every offset in range `str(tz)` is ·timezoneCanonicalFragmentMap· of the
offset, a string of production [43] whose ·timezoneFragValue· is that offset (`Z` for zero, else sign `hh:mm`). -/
theorem tz_str_is_xsd_canonical (v : Int) (h1 : -840 ≤ v) (h2 : v ≤ 840) :
    toStr v = canon v ∧ parse (toStr v) = some v := by
  have h := (offset_facts v h1 h2).2
  exact ⟨h, by rw [h]; exact parse_canon v h1 h2⟩

example : toStr 0 = ['Z'] ∧ toStr 840 = "+14:00".toList ∧ toStr (-1) = "-00:01".toList := by decide +kernel

/-- **every XSD timezone literal is accepted with its XSD value**: if the text is a string of production [43] then
`Timezone.fromstring` returns ·timezoneFragValue· of it — in particular `-00:MM` is −MM minutes (the sign is read from
the text, not from the integer value of the hour field). -/
theorem tz_fromstring_accepts_lexical_space (s : List Char) (m : Int) (h : parse s = some m) :
    fromString s = .ok m :=
  parse_accepted s m h

/-- test on literals: the hypothesis holds for `-00:30` (value −30), `+00:00`, `-00:00` (value 0), `+14:00` -/
example : parse "-00:30".toList = some (-30) ∧ parse "-00:00".toList = some 0 ∧ parse "+00:00".toList = some 0 ∧
    parse "+14:00".toList = some 840 ∧ parse "+14:01".toList = none ∧ parse "+5:30".toList = none := by decide +kernel

/-- the same for a literal surrounded by XML white space (`whiteSpace = collapse`): Python's `strip()` removes it -/
theorem tz_fromstring_accepts_lexical_space_ws (text : List Char) (m : Int) (h : parseWs text = some m) :
    fromString text = .ok m :=
  parseWs_accepted text m h

example : parseWs " \t-00:30\r\n".toList = some (-30) := by decide +kernel

/-- **print ∘ parse = canonical form**, for *every* text `Timezone.fromstring` accepts (no hypothesis on the text): the
offset is within −14:00 … +14:00, `str()` of it is the XSD canonical form of that offset, which is a literal of [43]
denoting the offset, and reading it again gives the same offset. -/
theorem tz_str_fromstring_canonical (text : List Char) (m : Int) (h : fromString text = .ok m) :
    (-840 ≤ m ∧ m ≤ 840) ∧ toStr m = canon m ∧ parse (toStr m) = some m ∧ fromString (toStr m) = .ok m := by
  have hr := accepted_range text m h
  have h2 := tz_str_is_xsd_canonical m hr.1 hr.2
  exact ⟨hr, h2.1, h2.2, tz_fromstring_str_roundtrip m hr.1 hr.2⟩

/-- tests on literals: `+00:00` and `-00:00` print as `Z`, the pinned `-0:0` too -/
example : fromString "+00:00".toList = .ok 0 ∧ fromString "-00:00".toList = .ok 0 ∧ toStr 0 = ['Z'] ∧
    fromString " -0:0".toList = .ok 0 := by decide +kernel

/-- for a literal of the XSD lexical space: accepted, and `str(fromstring(s))` is the canonical form of its value -/
theorem tz_literal_to_canonical (s : List Char) (m : Int) (h : parse s = some m) :
    fromString s = .ok m ∧ toStr m = canon m :=
  ⟨parse_accepted s m h, (tz_str_fromstring_canonical s m (parse_accepted s m h)).2.1⟩

/-- **acceptance is exactly the XSD lexical space — every text, no hypothesis** (F11z repaired by `fix-c11-5`, up to the
two zero forms the library's tests pin): `Timezone.fromstring(text)` returns offset `m` iff the text, after white-space
collapse, is a literal of production [43] whose ·timezoneFragValue· is `m`, or it is `00:00` / `-0:0` and `m = 0`. -/
theorem tz_fromstring_exact (text : List Char) (m : Int) :
    fromString text = .ok m ↔ (parseWs text = some m ∨ (pinnedZero text = true ∧ m = 0)) :=
  fromString_ok_iff text m

/-- outside the two pinned forms: accepted with `m` ⇔ XSD literal with value `m` (both directions, every text) -/
theorem tz_fromstring_exact_xsd (text : List Char) (hz : pinnedZero text = false) (m : Int) :
    fromString text = .ok m ↔ parseWs text = some m := by
  rw [tz_fromstring_exact, hz]
  simp

example : pinnedZero "5:3".toList = false ∧ pinnedZero " -00:30 ".toList = false ∧
    parseWs " -00:30 ".toList = some (-30) := by decide +kernel

/-- **rejection outside the grammar** — full statement except for the two pinned forms (PARTIAL only in that sense,
remaining finding F11z): a text that is not an XSD timezone literal after white-space collapse and is not `00:00` / `-0:0`
raises ValueError — never OverflowError, never a value. -/
theorem tz_fromstring_rejects (text : List Char) (hz : pinnedZero text = false) (h : parseWs text = none) :
    fromString text = .valueError := by
  cases hf : fromString text with
  | ok m =>
    have := (tz_fromstring_exact_xsd text hz m).mp hf
    rw [h] at this
    cases this
  | valueError => rfl
  | overflowError => exact absurd hf (fromString_not_overflow text)

/-- no text at all makes `Timezone.fromstring` raise OverflowError (former behaviour of `99999999999999:0`) -/
theorem tz_fromstring_never_overflows (text : List Char) : fromString text ≠ .overflowError :=
  fromString_not_overflow text

/-- the remaining leniency is exactly the pinned forms: `lenient` (outside the lexical space, yet accepted) = `pinnedZero` -/
theorem tz_lenient_is_pinned (text : List Char) : lenient text = pinnedZero text :=
  lenient_iff_pinned text

/-- **former F11z witnesses, now rejected** (kernel-checked on the model of the repaired code): missing sign and digits,
minutes ≥ 60, negative minutes field, `_` separators and inner white space, Unicode digits, non-XML white space around `Z`,
a field beyond the `timedelta` range; none of them is a pinned form, all are outside [43]. -/
theorem tz_former_lenient_rejected :
    fromString "5:3".toList = .valueError ∧ fromString "+13:60".toList = .valueError ∧
    fromString "-1:-30".toList = .valueError ∧ fromString "+0_5 : 3_0".toList = .valueError ∧
    fromString [Char.ofNat 0x665, ':', Char.ofNat 0x663] = .valueError ∧
    fromString ['Z', Char.ofNat 0xa0] = .valueError ∧
    fromString "99999999999999:0".toList = .valueError ∧ fromString "+14:01".toList = .valueError := by decide +kernel

/-- **F11z witness (what is left)**: `00:00` and `-0:0` are outside production [43] and are read as `Z` -/
theorem tz_pinned_witness :
    pinnedZero "00:00".toList = true ∧ parseWs "00:00".toList = none ∧ fromString "00:00".toList = .ok 0 ∧
    pinnedZero "-0:0".toList = true ∧ parseWs "-0:0".toList = none ∧ fromString "-0:0".toList = .ok 0 := by decide +kernel

end EPV.C11

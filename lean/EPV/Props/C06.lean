/-
C06 — property theorems: numeric operators and rounding functions follow XPath F&O arithmetic.
Only statements a reader needs; proofs are in EPV/Lemmas/Arith*.lean.

Reading guide
* `Num`        a Python object of the implementation: `int n`, `dec n s` (Decimal n·10^-s), `dbl d`
               (float), `flt d` (elementpath `Float`);  `absNum : Num → XVal` is its XDM value
* `opAdd … opIdiv`, `fnRound …`  transcriptions of the Python operators (EPV/Model/Arith.lean,
               tree with the `fix:` commits of branch fix-c06)
* `specBin`, `specUn`, `trunc`, `roundHalfUp`, `roundHalfEven`  F&O 3.1 §4.2 / §4.4 (EPV/Spec/FOArith.lean)
* `R : Rounding`  IEEE-754 rounding to binary64 / binary32: an uninterpreted parameter (trusted
               hardware); every theorem holds for all `R`
* `trigF06c/t/x/p`, `trigIdef_bin`  decidable trigger predicates of the known findings / of the
               implementation-defined region (more than 28 decimal digits)
-/
import EPV.Lemmas.ArithOps
namespace EPV.C06
open EPV.Arith EPV.FOArith

/-! ## xs:integer: unbounded `Int` -/

/-- `idiv` on integers (Python floor division + the exactness-guarded `+1`) is truncation toward zero,
for all integers (for `b = 0` both sides are 0; the operator raises FOAR0001 before, see `div_zero_table`). -/
theorem idiv_eq_spec (a b : Int) : idivInt a b = Int.tdiv a b := idivInt_eq_tdiv a b

/-- `mod` on integers takes the sign of the dividend: it is the remainder of the truncating division. -/
theorem mod_eq_spec (a b : Int) : modInt a b = Int.tmod a b := modInt_eq_tmod a b

/-- F&O 4.2.7: `a = (a idiv b) * b + (a mod b)` for all integers. -/
theorem div_mod_identity (a b : Int) : a = idivInt a b * b + modInt a b := idiv_mod_identity_int a b

/-- The whole operator on two xs:integer operands: result value, result type and FOAR0001 for `b = 0`
agree with F&O (`idiv`, `mod`; `+ - *` below). -/
theorem idiv_int_op_eq_spec (R : Rounding) (a b : Int) :
    (opIdiv R (.int a) (.int b)).map absNum = specBin R .idiv (.integer a) (.integer b) :=
  idiv_int_int_eq_spec R a b

theorem mod_int_op_eq_spec (R : Rounding) (v : Ver) (a b : Int) :
    (opMod R v (.int a) (.int b)).map absNum = specBin R .mod (.integer a) (.integer b) :=
  mod_int_int_eq_spec R v a b

/-- the truncation used by the specification is `Int.tdiv` on integers -/
theorem spec_trunc_is_tdiv (a b : Int) (hb : b ≠ 0) : trunc ((a : Rat) / (b : Rat)) = Int.tdiv a b :=
  trunc_div_int a b hb

/-- test (literals): the four sign combinations, exact and inexact -/
example : idivInt (-6) 2 = -3 ∧ idivInt 6 (-2) = -3 ∧ idivInt (-7) 2 = -3 ∧ idivInt 7 (-2) = -3 ∧
    idivInt (-7) (-2) = 3 ∧ modInt 5 (-3) = 2 ∧ modInt (-5) 3 = -2 ∧ modInt (-5) (-3) = -2 := by decide

/-! ## xs:decimal (and mixed integer/decimal): coefficient and scale, exact -/

/-- `+` on any combination of xs:integer / xs:decimal operands is exact and of the promoted type, as
long as the exact result has at most 28 significant digits (`trigIdef_bin`: beyond that F&O leaves
the result implementation-defined and Python rounds it). -/
theorem add_exact (R : Rounding) (a b : Num) (x : Int) (sx : Nat) (y : Int) (sy : Nat)
    (ha : asDec a = some (x, sx)) (hb : asDec b = some (y, sy)) (hfit : trigIdef_bin .add a b = false) :
    (opAdd R a b).map absNum = specBin R .add (absNum a) (absNum b) :=
  add_exact_eq_spec R a b x sx y sy ha hb hfit

theorem sub_exact (R : Rounding) (a b : Num) (x : Int) (sx : Nat) (y : Int) (sy : Nat)
    (ha : asDec a = some (x, sx)) (hb : asDec b = some (y, sy)) (hfit : trigIdef_bin .sub a b = false) :
    (opSub R a b).map absNum = specBin R .sub (absNum a) (absNum b) :=
  sub_exact_eq_spec R a b x sx y sy ha hb hfit

theorem mul_exact (R : Rounding) (a b : Num) (x : Int) (sx : Nat) (y : Int) (sy : Nat)
    (ha : asDec a = some (x, sx)) (hb : asDec b = some (y, sy)) (hfit : trigIdef_bin .mul a b = false) :
    (opMul R a b).map absNum = specBin R .mul (absNum a) (absNum b) :=
  mul_exact_eq_spec R a b x sx y sy ha hb hfit

/-- `idiv` on integer/decimal operands: truncated exact quotient as an xs:integer, FOAR0001 for a
zero divisor (quotients of more than 28 digits excluded: FOAR0002 is raised there). -/
theorem idiv_dec_eq_spec (R : Rounding) (a b : Num) (x : Int) (sx : Nat) (y : Int) (sy : Nat)
    (ha : asDec a = some (x, sx)) (hb : asDec b = some (y, sy)) (hfit : trigIdef_bin .idiv a b = false) :
    (opIdiv R a b).map absNum = specBin R .idiv (absNum a) (absNum b) :=
  idiv_exact_eq_spec R a b x sx y sy ha hb hfit

/-- `mod` on integer/decimal operands: `a - b * trunc(a/b)` exactly (sign of the dividend). -/
theorem mod_dec_eq_spec (R : Rounding) (v : Ver) (a b : Num) (x : Int) (sx : Nat) (y : Int) (sy : Nat)
    (ha : asDec a = some (x, sx)) (hb : asDec b = some (y, sy)) (hfit : trigIdef_bin .mod a b = false) :
    (opMod R v a b).map absNum = specBin R .mod (absNum a) (absNum b) :=
  mod_exact_eq_spec R v a b x sx y sy ha hb hfit

/-- `a = (a idiv b) * b + (a mod b)` on decimals, as exact rationals. -/
theorem div_mod_identity_dec (a : Int) (sa : Nat) (b : Int) (sb : Nat) (hb : b ≠ 0) (q : Int) (r : Int × Nat)
    (hq : decIdiv a sa b sb = some q) (hr : decMod a sa b sb = some r)
    (hfit : numDigits ((a.natAbs * p10 (max sa sb - sa)) % (b.natAbs * p10 (max sa sb - sb))) ≤ 28) :
    decVal a sa = (q : Rat) * decVal b sb + decVal r.1 r.2 := by
  rw [decMod_eq_spec a sa b sb hb r hr hfit, decIdiv_eq_trunc a sa b sb hb q hq]
  ring

/-- the hypotheses are satisfiable on non-trivial values: -7.5 idiv 2 = -3, -7.5 mod 2 = -1.5 -/
example : decIdiv (-75) 1 2 0 = some (-3) ∧ decMod (-75) 1 2 0 = some (-15, 1) ∧
    trigIdef_bin .mod (.dec (-75) 1) (.int 2) = false ∧ decAdd 15 1 25 2 = (175, 2) := by decide

/-! ## Division by zero -/

/-- XPath 2.0+: a zero xs:integer / xs:decimal divisor with an integer/decimal dividend raises
FOAR0001 for `div`, `idiv` and `mod`. -/
theorem div_zero_table (R : Rounding) (v : Ver) (hv : v ≠ .v10) (a b : Num)
    (ha : isFloat a = false) (hb : isFloat b = false) (hz : isZero b = true) :
    opDiv R v a b = .error .FOAR0001 ∧ opIdiv R a b = .error .FOAR0001 ∧ opMod R v a b = .error .FOAR0001 :=
  div_zero_exact R v hv a b ha hb hz

/-- xs:double `div`: the complete IEEE table — x div ±0 = ±INF by the signs, 0 div 0 = NaN, NaN
propagates, INF div INF = NaN, finite div finite = the rounded exact quotient — for all operands. -/
theorem div_double_eq_spec (R : Rounding) (v : Ver) (x y : Dbl) (hx : x.wf) :
    (opDiv R v (.dbl x) (.dbl y)).map absNum = specBin R .div (.double x) (.double y) :=
  div_dbl_eq_spec R v x y hx

/-- xs:double `idiv`: FOAR0001 for a ±0 divisor, FOAR0002 for NaN operands / infinite dividend, 0 for
an infinite divisor, otherwise the truncated exact quotient (model assumption: Python's float `//`
is the exact floor, true for |quotient| < 2^51). -/
theorem idiv_double_eq_spec (R : Rounding) (x y : Dbl) :
    (opIdiv R (.dbl x) (.dbl y)).map absNum = specBin R .idiv (.double x) (.double y) :=
  idiv_dbl_eq_spec R x y

/-- PARTIAL (known finding F06x): xs:double `mod` = F&O / IEEE fmod (exact remainder of the truncating
division, NaN for an infinite dividend or zero divisor, the dividend for an infinite divisor, signed
zeros) — except that the XPath 1.0 parser returns NaN for `finite mod ±INF`.
Full statement (false on the tree): the same without `hk`. -/
theorem mod_double_eq_spec_partial (R : Rounding) (v : Ver) (x y : Dbl)
    (hk : trigF06x R v .mod (.dbl x) (.dbl y) = false) :
    (opMod R v (.dbl x) (.dbl y)).map absNum = specBin R .mod (.double x) (.double y) :=
  mod_dbl_eq_spec_partial R v x y hk

/-- F06x witness (kernel-checked, any rounding): XPath 1.0, 5 mod INF is NaN, the specification says 5. -/
theorem mod_double_fails_v10 (R : Rounding) :
    trigF06x R .v10 .mod (.dbl (.fin 5)) (.dbl (.inf false)) = true ∧
    (opMod R .v10 (.dbl (.fin 5)) (.dbl (.inf false))).map absNum = .ok (.double .nan) ∧
    specBin R .mod (.double (.fin 5)) (.double (.inf false)) = .ok (.double (.fin 5)) := by
  refine ⟨rfl, rfl, rfl⟩

/-- the hypothesis of the partial theorem is satisfiable: -6.5 mod 4 = -2.5 in every version -/
example : trigF06x ieee .v10 .mod (.dbl (.fin (-13/2))) (.dbl (.fin 4)) = false ∧
    opMod ieee .v10 (.dbl (.fin (-13/2))) (.dbl (.fin 4)) = .ok (.dbl (.fin (-5/2))) := by
  refine ⟨by decide +kernel, by decide +kernel⟩

/-! ## Result types -/

/-- `+ - *` return a value of the promoted type (integer ⊂ decimal → float → double) for every
combination of operand classes. -/
theorem type_promotion_table (R : Rounding) (a b r : Num) :
    (opAdd R a b = .ok r → numTy r = promote (numTy a) (numTy b)) ∧
    (opSub R a b = .ok r → numTy r = promote (numTy a) (numTy b)) ∧
    (opMul R a b = .ok r → numTy r = promote (numTy a) (numTy b)) :=
  type_promotion_addsubmul R a b r

/-- `idiv` always returns an xs:integer. -/
theorem idiv_type (R : Rounding) (a b r : Num) (h : opIdiv R a b = .ok r) : numTy r = .integer :=
  type_idiv R a b r h

/-- PARTIAL (known finding F06t): `div` returns the type of XPath 3.1 B.2 (xs:decimal for two integers,
else the promoted type) — except in the zero-divisor branch with xs:float operands, which returns an
xs:double.  Full statement (false): without `hk`. -/
theorem div_type_partial (R : Rounding) (v : Ver) (hv : v ≠ .v10) (a b r : Num) (h : opDiv R v a b = .ok r)
    (hk : trigF06t R v .div a b = false) : numTy r = resultTy .div (numTy a) (numTy b) :=
  type_div_partial R v hv a b r h hk

/-- PARTIAL (known finding F06t): `mod` returns the promoted type — except for a zero divisor with
xs:float operands (xs:double NaN) and for `a mod ±INF`, which returns `a` unpromoted. -/
theorem mod_type_partial (R : Rounding) (v : Ver) (hv : v ≠ .v10) (a b r : Num) (h : opMod R v a b = .ok r)
    (hk : trigF06t R v .mod a b = false) : numTy r = resultTy .mod (numTy a) (numTy b) :=
  type_mod_partial R v hv a b r h hk

/-- F06t witnesses (kernel-checked, any rounding): `5 mod xs:double('INF')` is the xs:integer 5,
`xs:float('1') div 0` is an xs:double. -/
theorem type_fails_mod_inf (R : Rounding) :
    trigF06t R .v20 .mod (.int 5) (.dbl (.inf false)) = true ∧
    opMod R .v20 (.int 5) (.dbl (.inf false)) = .ok (.int 5) ∧
    resultTy .mod (numTy (.int 5)) (numTy (.dbl (.inf false))) = .double := by
  refine ⟨rfl, rfl, rfl⟩

theorem type_fails_float_div_zero (R : Rounding) :
    trigF06t R .v20 .div (.flt (.fin 1)) (.int 0) = true ∧
    opDiv R .v20 (.flt (.fin 1)) (.int 0) = .ok (.dbl (.inf false)) ∧
    resultTy .div (numTy (.flt (.fin 1))) (numTy (.int 0)) = .float := by
  refine ⟨rfl, rfl, rfl⟩

/-- the hypothesis of the partial type theorems is satisfiable on a non-trivial state -/
example (R : Rounding) : trigF06t R .v20 .mod (.dbl (.fin 7)) (.dbl (.inf true)) = false ∧
    opMod R .v20 (.dbl (.fin 7)) (.dbl (.inf true)) = .ok (.dbl (.fin 7)) := by
  refine ⟨rfl, rfl⟩

/-! ## Rounding functions -/

/-- fn:round as the code computes it — `Decimal.quantize` on sign and magnitude, ROUND_HALF_UP for
positive numbers and ROUND_HALF_DOWN otherwise — is ⌊x·10^p + 1/2⌋ / 10^p for every rational `x` and
every precision `p` (positive, zero or negative). -/
theorem round_eq_floor_half (x : Rat) (p : Int) :
    unscale (decide (x < 0)) (quantMag (if x > 0 then .halfUp else .halfDown) x p) p = roundHalfUp x p :=
  quantize_round_eq x p

/-- round-half-to-even as the code computes it (ROUND_HALF_EVEN on sign and magnitude) is the F&O
definition (nearest multiple of 10^-p, ties to the even one), any precision. -/
theorem round_half_even_spec (x : Rat) (p : Int) :
    unscale (decide (x < 0)) (quantMag .halfEven x p) p = roundHalfEven x p :=
  quantize_rhe_eq x p

/-- PARTIAL (known finding F06p): fn:round on an xs:decimal returns the F&O value — unless the rounded
coefficient needs more than 28 digits (then `quantize` raises and the code rounds to an integer). -/
theorem round_decimal_partial (R : Rounding) (n : Int) (s : Nat) (p : Int)
    (hk : trigF06p (.round p) (.dec n s) = false) :
    absNum (fnRound R (.dec n s) p) = specUn R (.round p) (.decimal (decVal n s)) :=
  round_dec_eq_spec R n s p hk

theorem round_integer_partial (R : Rounding) (n : Int) (p : Int)
    (hk : trigF06p (.round p) (.int n) = false) :
    absNum (fnRound R (.int n) p) = specUn R (.round p) (.integer n) :=
  round_int_eq_spec R n p hk

/-- fn:round on an xs:double: NaN, ±INF, ±0 unchanged; otherwise the rounded exact value converted
back, a zero result keeping the sign of the argument (round(-0.4e0) = -0). -/
theorem round_double_partial (R : Rounding) (d : Dbl) (p : Int)
    (hk : trigF06p (.round p) (.dbl d) = false) :
    absNum (fnRound R (.dbl d) p) = specUn R (.round p) (.double d) := by
  show absNum (roundCore R (.dbl d) p) = _
  rw [round_dbl_eq_spec R d p hk]; rfl

/-- F06p witness (kernel-checked): round(1234.5, 26) = 1234, the specification says 1234.5. -/
theorem round_fails_large_precision (R : Rounding) :
    trigF06p (.round 26) (.dec 12345 1) = true ∧
    fnRound R (.dec 12345 1) 26 = .dec 1234 0 ∧
    specUn R (.round 26) (.decimal (12345 / 10)) = .decimal (12345 / 10) := by
  refine ⟨by decide +kernel, ?_, ?_⟩
  · have : fnRound ieee (.dec 12345 1) 26 = .dec 1234 0 := by decide +kernel
    exact this
  · have : specUn ieee (.round 26) (.decimal (12345 / 10)) = .decimal (12345 / 10) := by decide +kernel
    exact this

/-- round-half-to-even on xs:decimal (PARTIAL, F06p: 28-digit limit), xs:integer and xs:double. -/
theorem round_half_even_decimal_partial (R : Rounding) (n : Int) (s : Nat) (p : Int)
    (hk : trigF06p (.rhe p) (.dec n s) = false) :
    absNum (fnRhe R (.dec n s) p) = specUn R (.rhe p) (.decimal (decVal n s)) :=
  rhe_dec_eq_spec R n s p hk

theorem round_half_even_integer (R : Rounding) (n : Int) (p : Int) :
    absNum (fnRhe R (.int n) p) = specUn R (.rhe p) (.integer n) :=
  rhe_int_eq_spec R n p

theorem round_half_even_double (R : Rounding) (d : Dbl) (p : Int) :
    absNum (fnRhe R (.dbl d) p) = specUn R (.rhe p) (.double d) := by
  rw [rhe_dbl_eq_spec R d p]; rfl

/-- floor / ceiling on xs:double: special values unchanged, ⌊x⌋ / ⌈x⌉ converted back, and a zero
result takes the sign of the argument (ceiling(-0.4e0) = -0, floor(-0e0) = -0). -/
theorem floor_ceiling_double (R : Rounding) (d : Dbl) :
    absNum (fnFloorCeil R false (.dbl d)) = specUn R .floor (.double d) ∧
    absNum (fnFloorCeil R true (.dbl d)) = specUn R .ceiling (.double d) := by
  constructor
  · show XVal.double (fnFloorCeil.go R false d) = _
    rw [floorceil_dbl_eq_spec]; rfl
  · show XVal.double (fnFloorCeil.go R true d) = _
    rw [floorceil_dbl_eq_spec]; rfl

/-- unary minus and fn:abs on xs:double / xs:integer are exact, with the IEEE sign rules
(-(0e0) = -0, abs(-0e0) = 0, abs(-INF) = INF, NaN unchanged). -/
theorem neg_abs_double (R : Rounding) (d : Dbl) (n : Int) :
    absNum (opNeg (.dbl d)) = specUn R .neg (.double d) ∧
    absNum (fnAbs (.dbl d)) = specUn R .abs (.double d) ∧
    absNum (opNeg (.int n)) = specUn R .neg (.integer n) := by
  refine ⟨rfl, rfl, ?_⟩
  simp [opNeg, absNum, specUn, exactUn]
  rw [← Int.cast_neg, floor_intCast']

/-- tests (literals): round(2.5)=3, round(-2.5)=-2, round(25,-1)=30, round(-235,-1)=-230,
round-half-to-even(2.5)=2, (3.5)=4, (35612.25,-2)=35600 -/
example : fnRound ieee (.dec 25 1) 0 = .dec 3 0 ∧ fnRound ieee (.dec (-25) 1) 0 = .dec (-2) 0 ∧
    fnRound ieee (.int 25) (-1) = .int 30 ∧ fnRound ieee (.int (-235)) (-1) = .int (-230) ∧
    fnRhe ieee (.dec 25 1) 0 = .dec 2 0 ∧ fnRhe ieee (.dec 35 1) 0 = .dec 4 0 ∧
    fnRhe ieee (.dec 3561225 2) (-2) = .dec 35600 0 := by
  have h : fnRound ieee (.dec 25 1) 0 = .dec 3 0 ∧ fnRound ieee (.dec (-25) 1) 0 = .dec (-2) 0 ∧
      fnRound ieee (.int 25) (-1) = .int 30 ∧ fnRound ieee (.int (-235)) (-1) = .int (-230) ∧
      fnRhe ieee (.dec 25 1) 0 = .dec 2 0 ∧ fnRhe ieee (.dec 35 1) 0 = .dec 4 0 ∧
      fnRhe ieee (.dec 3561225 2) (-2) = .dec 35600 0 := by
    refine ⟨by decide +kernel, by decide +kernel, by decide +kernel, by decide +kernel, by decide +kernel,
      by decide +kernel, by decide +kernel⟩
  exact h

/-! ## xs:float (known finding F06c) -/

/-- F06c witness (kernel-checked, with the concrete round-to-nearest-even `ieee`):
xs:float(16777216) + xs:float(1) is 16777217 in the code (binary64 arithmetic), 16777216 in binary32. -/
theorem float_add_not_binary32 :
    trigF06c_bin .add (.flt (.fin 16777216)) (.flt (.fin 1)) = true ∧
    (opAdd ieee (.flt (.fin 16777216)) (.flt (.fin 1))).map absNum = .ok (.float (.fin 16777217)) ∧
    specBin ieee .add (.float (.fin 16777216)) (.float (.fin 1)) = .ok (.float (.fin 16777216)) := by
  refine ⟨by decide +kernel, by decide +kernel, by decide +kernel⟩

/-- outside F06c (binary32-safe operands and result) the xs:float sum is the specified one -/
example : trigF06c_bin .add (.flt (.fin (5/2))) (.flt (.fin (3/4))) = false ∧
    (opAdd ieee (.flt (.fin (5/2))) (.flt (.fin (3/4)))).map absNum =
      specBin ieee .add (.float (.fin (5/2))) (.float (.fin (3/4))) := by
  refine ⟨by decide +kernel, by decide +kernel⟩

end EPV.C06

/-
C06 — property theorems: numeric operators and rounding functions follow XPath F&O arithmetic.
Only statements a reader needs; proofs are in EPV/Lemmas/Arith*.lean.

Reading guide
* `Num`        a Python object of the implementation: `int n`, `dec n s` (Decimal n·10^-s), `dbl d`
               (float), `flt d` (elementpath `Float`);  `absNum : Num → XVal` is its XDM value
* `opAdd … opIdiv`, `fnRound …`  transcriptions of the Python operators (EPV/Model/Arith.lean,
               tree with the `fix:` commits of branch fix-c06)
* `specBin`, `specUn`, `trunc`, `roundHalfUp`, `roundHalfEven`  F&O 3.1 §4.2 / §4.4 (EPV/Spec/FOArith.lean)
* `R : Rounding`  IEEE-754 rounding to binary64 / binary32: an uninterpreted parameter (trusted
               hardware); every theorem holds for all `R`
* `trigF06c/t/x/p`, `trigIdef_bin`  decidable trigger predicates of the known findings / of the
               implementation-defined region (more than 28 decimal digits)
-/
import EPV.Lemmas.ArithFloat
import EPV.Lemmas.ArithCtx
import EPV.Lemmas.ArithV10
import EPV.Lemmas.ArithIeee
namespace EPV.C06
open EPV.Arith EPV.FOArith

/-! ## xs:integer: unbounded `Int` -/

/-- `idiv` on integers (Python floor division + the exactness-guarded `+1`) is truncation toward zero,
for all integers (for `b = 0` both sides are 0; the operator raises FOAR0001 before, see `div_zero_table`). -/
theorem idiv_eq_spec (a b : Int) : idivInt a b = Int.tdiv a b := idivInt_eq_tdiv a b

/-- `mod` on integers takes the sign of the dividend: it is the remainder of the truncating division. -/
theorem mod_eq_spec (a b : Int) : modInt a b = Int.tmod a b := modInt_eq_tmod a b

/-- F&O 4.2.7: `a = (a idiv b) * b + (a mod b)` for all integers. -/
theorem div_mod_identity (a b : Int) : a = idivInt a b * b + modInt a b := idiv_mod_identity_int a b

/-- The whole operator on two xs:integer operands: result value, result type and FOAR0001 for `b = 0`
agree with F&O (`idiv`, `mod`; `+ - *` below). -/
theorem idiv_int_op_eq_spec (R : Rounding) (a b : Int) :
    (opIdiv R (.int a) (.int b)).map absNum = specBin R .idiv (.integer a) (.integer b) :=
  idiv_int_int_eq_spec R a b

theorem mod_int_op_eq_spec (R : Rounding) (v : Ver) (a b : Int) :
    (opMod R v (.int a) (.int b)).map absNum = specBin R .mod (.integer a) (.integer b) :=
  mod_int_int_eq_spec R v a b

/-- the truncation used by the specification is `Int.tdiv` on integers -/
theorem spec_trunc_is_tdiv (a b : Int) (hb : b ≠ 0) : trunc ((a : Rat) / (b : Rat)) = Int.tdiv a b :=
  trunc_div_int a b hb

/-- test (literals): the four sign combinations, exact and inexact -/
example : idivInt (-6) 2 = -3 ∧ idivInt 6 (-2) = -3 ∧ idivInt (-7) 2 = -3 ∧ idivInt 7 (-2) = -3 ∧
    idivInt (-7) (-2) = 3 ∧ modInt 5 (-3) = 2 ∧ modInt (-5) 3 = -2 ∧ modInt (-5) (-3) = -2 := by decide

/-! ## xs:decimal (and mixed integer/decimal): coefficient and scale, exact -/

/-- `+` on any combination of xs:integer / xs:decimal operands is exact and of the promoted type, as
long as the exact result has at most 28 significant digits (`trigIdef_bin`: beyond that F&O leaves
the result implementation-defined and Python rounds it). -/
theorem add_exact (R : Rounding) (a b : Num) (x : Int) (sx : Nat) (y : Int) (sy : Nat)
    (ha : asDec a = some (x, sx)) (hb : asDec b = some (y, sy)) (hfit : trigIdef_bin .add a b = false) :
    (opAdd R a b).map absNum = specBin R .add (absNum a) (absNum b) :=
  add_exact_eq_spec R a b x sx y sy ha hb hfit

theorem sub_exact (R : Rounding) (a b : Num) (x : Int) (sx : Nat) (y : Int) (sy : Nat)
    (ha : asDec a = some (x, sx)) (hb : asDec b = some (y, sy)) (hfit : trigIdef_bin .sub a b = false) :
    (opSub R a b).map absNum = specBin R .sub (absNum a) (absNum b) :=
  sub_exact_eq_spec R a b x sx y sy ha hb hfit

theorem mul_exact (R : Rounding) (a b : Num) (x : Int) (sx : Nat) (y : Int) (sy : Nat)
    (ha : asDec a = some (x, sx)) (hb : asDec b = some (y, sy)) (hfit : trigIdef_bin .mul a b = false) :
    (opMul R a b).map absNum = specBin R .mul (absNum a) (absNum b) :=
  mul_exact_eq_spec R a b x sx y sy ha hb hfit

/-- `idiv` on integer/decimal operands: truncated exact quotient as an xs:integer, FOAR0001 for a
zero divisor (quotients of more than 28 digits excluded: FOAR0002 is raised there). -/
theorem idiv_dec_eq_spec (R : Rounding) (a b : Num) (x : Int) (sx : Nat) (y : Int) (sy : Nat)
    (ha : asDec a = some (x, sx)) (hb : asDec b = some (y, sy)) (hfit : trigIdef_bin .idiv a b = false) :
    (opIdiv R a b).map absNum = specBin R .idiv (absNum a) (absNum b) :=
  idiv_exact_eq_spec R a b x sx y sy ha hb hfit

/-- `mod` on integer/decimal operands: `a - b * trunc(a/b)` exactly (sign of the dividend). -/
theorem mod_dec_eq_spec (R : Rounding) (v : Ver) (a b : Num) (x : Int) (sx : Nat) (y : Int) (sy : Nat)
    (ha : asDec a = some (x, sx)) (hb : asDec b = some (y, sy)) (hfit : trigIdef_bin .mod a b = false) :
    (opMod R v a b).map absNum = specBin R .mod (absNum a) (absNum b) :=
  mod_exact_eq_spec R v a b x sx y sy ha hb hfit

/-- `a = (a idiv b) * b + (a mod b)` on decimals, as exact rationals. -/
theorem div_mod_identity_dec (a : Int) (sa : Nat) (b : Int) (sb : Nat) (hb : b ≠ 0) (q : Int) (r : Int × Nat)
    (hq : decIdiv a sa b sb = some q) (hr : decMod a sa b sb = some r)
    (hfit : numDigits ((a.natAbs * p10 (max sa sb - sa)) % (b.natAbs * p10 (max sa sb - sb))) ≤ 28) :
    decVal a sa = (q : Rat) * decVal b sb + decVal r.1 r.2 := by
  rw [decMod_eq_spec a sa b sb hb r hr hfit, decIdiv_eq_trunc a sa b sb hb q hq]
  ring

/-- the hypotheses are satisfiable on non-trivial values: -7.5 idiv 2 = -3, -7.5 mod 2 = -1.5 -/
example : decIdiv (-75) 1 2 0 = some (-3) ∧ decMod (-75) 1 2 0 = some (-15, 1) ∧
    trigIdef_bin .mod (.dec (-75) 1) (.int 2) = false ∧ decAdd 15 1 25 2 = (175, 2) := by decide

/-! ## Division by zero -/

/-- XPath 2.0+: a zero xs:integer / xs:decimal divisor with an integer/decimal dividend raises
FOAR0001 for `div`, `idiv` and `mod`. -/
theorem div_zero_table (R : Rounding) (v : Ver) (hv : v ≠ .v10) (a b : Num)
    (ha : isFloat a = false) (hb : isFloat b = false) (hz : isZero b = true) :
    opDiv R v a b = .error .FOAR0001 ∧ opIdiv R a b = .error .FOAR0001 ∧ opMod R v a b = .error .FOAR0001 :=
  div_zero_exact R v hv a b ha hb hz

/-- xs:double `div`: the complete IEEE table — x div ±0 = ±INF by the signs, 0 div 0 = NaN, NaN
propagates, INF div INF = NaN, finite div finite = the rounded exact quotient — for all operands. -/
theorem div_double_eq_spec (R : Rounding) (v : Ver) (x y : Dbl) (hx : x.wf) :
    (opDiv R v (.dbl x) (.dbl y)).map absNum = specBin R .div (.double x) (.double y) :=
  div_dbl_eq_spec R v x y hx

/-- xs:double `idiv`: FOAR0001 for a ±0 divisor, FOAR0002 for NaN operands / infinite dividend, 0 for
an infinite divisor, otherwise the truncated exact quotient of the two doubles, whatever its size (the code
computes it with exact fractions since fix-c06-3). -/
theorem idiv_double_eq_spec (R : Rounding) (x y : Dbl) :
    (opIdiv R (.dbl x) (.dbl y)).map absNum = specBin R .idiv (.double x) (.double y) :=
  idiv_dbl_eq_spec R x y

/-- xs:double `mod` = F&O / IEEE fmod (exact remainder of the truncating division, NaN for an infinite
dividend or zero divisor, the dividend for an infinite divisor, signed zeros), every parser version, all
operands. -/
theorem mod_double_eq_spec (R : Rounding) (v : Ver) (x y : Dbl) :
    (opMod R v (.dbl x) (.dbl y)).map absNum = specBin R .mod (.double x) (.double y) :=
  mod_dbl_eq_spec R v x y

/-- test (literals): -6.5 mod 4 = -2.5, 5 mod INF = 5 also with the XPath 1.0 parser -/
example : opMod ieee .v10 (.dbl (.fin (-13/2))) (.dbl (.fin 4)) = .ok (.dbl (.fin (-5/2))) ∧
    opMod ieee .v10 (.dbl (.fin 5)) (.dbl (.inf false)) = .ok (.dbl (.fin 5)) := by
  refine ⟨by decide +kernel, by decide +kernel⟩

/-! ## Result types -/

/-- `+ - *` return a value of the promoted type (integer ⊂ decimal → float → double) for every
combination of operand classes. -/
theorem type_promotion_table (R : Rounding) (a b r : Num) :
    (opAdd R a b = .ok r → numTy r = promote (numTy a) (numTy b)) ∧
    (opSub R a b = .ok r → numTy r = promote (numTy a) (numTy b)) ∧
    (opMul R a b = .ok r → numTy r = promote (numTy a) (numTy b)) :=
  type_promotion_addsubmul R a b r

/-- `idiv` always returns an xs:integer. -/
theorem idiv_type (R : Rounding) (a b r : Num) (h : opIdiv R a b = .ok r) : numTy r = .integer :=
  type_idiv R a b r h

/-- `div` returns the type of XPath 3.1 B.2 (xs:decimal for two integers, else the promoted type), the
zero-divisor results (±INF, NaN) included. -/
theorem div_type (R : Rounding) (v : Ver) (hv : v ≠ .v10) (a b r : Num) (h : opDiv R v a b = .ok r) :
    numTy r = resultTy .div (numTy a) (numTy b) :=
  type_div R v hv a b r h

/-- `mod` returns the promoted type, the NaN of a zero divisor and `a mod ±INF` included. -/
theorem mod_type (R : Rounding) (v : Ver) (a b r : Num) (h : opMod R v a b = .ok r) :
    numTy r = resultTy .mod (numTy a) (numTy b) :=
  type_mod R v a b r h

/-- tests (literals): `5 mod xs:double('INF')` is the xs:double 5, `xs:float('1') div 0` an xs:float INF -/
example : opMod ieee .v20 (.int 5) (.dbl (.inf false)) = .ok (.dbl (.fin 5)) ∧
    opDiv ieee .v20 (.flt (.fin 1)) (.int 0) = .ok (.flt (.inf false)) := by
  refine ⟨by decide +kernel, by decide +kernel⟩

/-! ## Rounding functions -/

/-- fn:round as the code computes it — `Decimal.quantize` on sign and magnitude, ROUND_HALF_UP for
positive numbers and ROUND_HALF_DOWN otherwise — is ⌊x·10^p + 1/2⌋ / 10^p for every rational `x` and
every precision `p` (positive, zero or negative). -/
theorem round_eq_floor_half (x : Rat) (p : Int) :
    unscale (decide (x < 0)) (quantMag (if x > 0 then .halfUp else .halfDown) x p) p = roundHalfUp x p :=
  quantize_round_eq x p

/-- round-half-to-even as the code computes it (ROUND_HALF_EVEN on sign and magnitude) is the F&O
definition (nearest multiple of 10^-p, ties to the even one), any precision. -/
theorem round_half_even_spec (x : Rat) (p : Int) :
    unscale (decide (x < 0)) (quantMag .halfEven x p) p = roundHalfEven x p :=
  quantize_rhe_eq x p

/-- PARTIAL (known finding F06p): fn:round on an xs:decimal returns the F&O value — unless the rounded
coefficient needs more than 2000 digits (the local decimal context since fix-c06-3; then `quantize` raises and the code rounds to an integer). -/
theorem round_decimal_partial (R : Rounding) (n : Int) (s : Nat) (p : Int)
    (hk : trigF06p (.round p) (.dec n s) = false) :
    absNum (fnRound R (.dec n s) p) = specUn R (.round p) (.decimal (decVal n s)) :=
  round_dec_eq_spec R n s p hk

theorem round_integer_partial (R : Rounding) (n : Int) (p : Int)
    (hk : trigF06p (.round p) (.int n) = false) :
    absNum (fnRound R (.int n) p) = specUn R (.round p) (.integer n) :=
  round_int_eq_spec R n p hk

/-- fn:round on an xs:double: NaN, ±INF, ±0 unchanged; otherwise the rounded exact value converted
back, a zero result keeping the sign of the argument (round(-0.4e0) = -0). -/
theorem round_double_partial (R : Rounding) (d : Dbl) (p : Int)
    (hk : trigF06p (.round p) (.dbl d) = false) :
    absNum (fnRound R (.dbl d) p) = specUn R (.round p) (.double d) := by
  show absNum (roundCore R (.dbl d) p) = _
  rw [round_dbl_eq_spec R d p hk]; rfl

/-- F06p witness (kernel-checked): beyond the 2000 digits of the local context the code still falls back to
round-to-integer: round(1.5, 2001) = 2, the specification says 1.5; round(1234.5, 26) is now right. -/
theorem round_fails_beyond_2000_digits :
    trigF06p (.round 2001) (.dec 15 1) = true ∧
    fnRound ieee (.dec 15 1) 2001 = .dec 2 0 ∧
    trigF06p (.round 26) (.dec 12345 1) = false ∧
    absNum (fnRound ieee (.dec 12345 1) 26) = .decimal (12345 / 10) := by
  refine ⟨by decide +kernel, by decide +kernel, by decide +kernel, by decide +kernel⟩

/-- round-half-to-even on xs:decimal (PARTIAL, F06p: 2000-digit local context), xs:integer and xs:double. -/
theorem round_half_even_decimal_partial (R : Rounding) (n : Int) (s : Nat) (p : Int)
    (hk : trigF06p (.rhe p) (.dec n s) = false) :
    absNum (fnRhe R (.dec n s) p) = specUn R (.rhe p) (.decimal (decVal n s)) :=
  rhe_dec_eq_spec R n s p hk

theorem round_half_even_integer (R : Rounding) (n : Int) (p : Int) :
    absNum (fnRhe R (.int n) p) = specUn R (.rhe p) (.integer n) :=
  rhe_int_eq_spec R n p

theorem round_half_even_double (R : Rounding) (d : Dbl) (p : Int) :
    absNum (fnRhe R (.dbl d) p) = specUn R (.rhe p) (.double d) := by
  rw [rhe_dbl_eq_spec R d p]; rfl

/-- floor / ceiling on xs:double: special values unchanged, ⌊x⌋ / ⌈x⌉ converted back, and a zero
result takes the sign of the argument (ceiling(-0.4e0) = -0, floor(-0e0) = -0). -/
theorem floor_ceiling_double (R : Rounding) (d : Dbl) :
    absNum (fnFloorCeil R false (.dbl d)) = specUn R .floor (.double d) ∧
    absNum (fnFloorCeil R true (.dbl d)) = specUn R .ceiling (.double d) := by
  constructor
  · show XVal.double (fnFloorCeil.go R false d) = _
    rw [floorceil_dbl_eq_spec]; rfl
  · show XVal.double (fnFloorCeil.go R true d) = _
    rw [floorceil_dbl_eq_spec]; rfl

/-- unary minus and fn:abs on xs:double / xs:integer are exact, with the IEEE sign rules
(-(0e0) = -0, abs(-0e0) = 0, abs(-INF) = INF, NaN unchanged). -/
theorem neg_abs_double (R : Rounding) (d : Dbl) (n : Int) :
    absNum (opNeg (.dbl d)) = specUn R .neg (.double d) ∧
    absNum (fnAbs (.dbl d)) = specUn R .abs (.double d) ∧
    absNum (opNeg (.int n)) = specUn R .neg (.integer n) := by
  refine ⟨rfl, rfl, ?_⟩
  simp [opNeg, absNum, specUn, exactUn]
  rw [← Int.cast_neg, floor_intCast']

/-- tests (literals): round(2.5)=3, round(-2.5)=-2, round(25,-1)=30, round(-235,-1)=-230,
round-half-to-even(2.5)=2, (3.5)=4, (35612.25,-2)=35600 -/
example : fnRound ieee (.dec 25 1) 0 = .dec 3 0 ∧ fnRound ieee (.dec (-25) 1) 0 = .dec (-2) 0 ∧
    fnRound ieee (.int 25) (-1) = .int 30 ∧ fnRound ieee (.int (-235)) (-1) = .int (-230) ∧
    fnRhe ieee (.dec 25 1) 0 = .dec 2 0 ∧ fnRhe ieee (.dec 35 1) 0 = .dec 4 0 ∧
    fnRhe ieee (.dec 3561225 2) (-2) = .dec 35600 0 := by
  have h : fnRound ieee (.dec 25 1) 0 = .dec 3 0 ∧ fnRound ieee (.dec (-25) 1) 0 = .dec (-2) 0 ∧
      fnRound ieee (.int 25) (-1) = .int 30 ∧ fnRound ieee (.int (-235)) (-1) = .int (-230) ∧
      fnRhe ieee (.dec 25 1) 0 = .dec 2 0 ∧ fnRhe ieee (.dec 35 1) 0 = .dec 4 0 ∧
      fnRhe ieee (.dec 3561225 2) (-2) = .dec 35600 0 := by
    refine ⟨by decide +kernel, by decide +kernel, by decide +kernel, by decide +kernel, by decide +kernel,
      by decide +kernel, by decide +kernel⟩
  exact h

/-! ## xs:float (known finding F06c) -/

/-- F06c witness (kernel-checked, with the concrete round-to-nearest-even `ieee`):
xs:float(16777216) + xs:float(1) is 16777217 in the code (binary64 arithmetic), 16777216 in binary32. -/
theorem float_add_not_binary32 :
    trigF06c_bin .add (.flt (.fin 16777216)) (.flt (.fin 1)) = true ∧
    (opAdd ieee (.flt (.fin 16777216)) (.flt (.fin 1))).map absNum = .ok (.float (.fin 16777217)) ∧
    specBin ieee .add (.float (.fin 16777216)) (.float (.fin 1)) = .ok (.float (.fin 16777216)) := by
  refine ⟨by decide +kernel, by decide +kernel, by decide +kernel⟩

/-- outside F06c (binary32-safe operands and result) the xs:float sum is the specified one -/
example : trigF06c_bin .add (.flt (.fin (5/2))) (.flt (.fin (3/4))) = false ∧
    (opAdd ieee (.flt (.fin (5/2))) (.flt (.fin (3/4)))).map absNum =
      specBin ieee .add (.float (.fin (5/2))) (.float (.fin (3/4))) := by
  refine ⟨by decide +kernel, by decide +kernel⟩

/-! ## Phase 2: mixed operands, xs:float dispatch, the decimal context, XPath 1.0 -/

/-- operands of mixed classes whose promoted type is xs:double (an xs:double with an
xs:integer, xs:decimal, xs:float or xs:double): every operator returns what F&O specifies for the promoted
operands — integer→double and decimal→double conversions are the `R`-rounded values, then the IEEE/F&O
dispatch.  `Faithful R`: rounding keeps the sign, never yields NaN and never rounds a non-zero integer to 0;
`intsFinite`: no integer operand overflows binary64 (Python raises there). -/
theorem mixed_double_ops_eq_spec (R : Rounding) (hF : Faithful R) (v : Ver) (op : BinOp) (a b : Num)
    (h : isDbl a = true ∨ isDbl b = true) (hi : intsFinite R a b) (hwa : numWf a) (hwb : numWf b) :
    (modelBin R v op a b).map absNum = specBin R op (absNum a) (absNum b) :=
  double_ops_eq_spec R hF v op a b h hi hwa hwb

/-- the concrete round-to-nearest-even run by the driver is `Faithful`: never NaN, sign kept, finite results
well-formed, a non-zero integer never rounds to zero -/
theorem ieee_rounding_faithful : Faithful ieee := ieee_faithful

/-- hence the mixed-operand theorem holds for the very values the harness compares -/
theorem mixed_double_ops_eq_spec_ieee (v : Ver) (op : BinOp) (a b : Num)
    (h : isDbl a = true ∨ isDbl b = true) (hi : intsFinite ieee a b) (hwa : numWf a) (hwb : numWf b) :
    (modelBin ieee v op a b).map absNum = specBin ieee op (absNum a) (absNum b) :=
  double_ops_eq_spec ieee ieee_faithful v op a b h hi hwa hwb

/-- the hypotheses are satisfiable on a mixed pair: 7 (xs:integer) mod 2.5e0 = 2.0e0 -/
example : isDbl (.dbl (.fin (5/2))) = true ∧
    (modelBin ieee .v20 .mod (.int 7) (.dbl (.fin (5/2)))).map absNum = .ok (.double (.fin 2)) := by
  refine ⟨rfl, by decide +kernel⟩

/-- operands whose promoted type is xs:float (xs:float with xs:float / xs:integer / xs:decimal): every
operator is the F&O operator computed with the rounding `implR R` (binary64 rounding followed by the `Float`
clamp) where F&O rounds to binary32 — promotion, special values (zero divisors included), signs of zero,
error codes and the xs:float result class are as specified; the precision itself is finding F06c.
`hm`: the exact remainder is not below the flush threshold 1e-37 (else `Float` flushes it to zero). -/
theorem float_ops_eq_spec_up_to_rounding (R : Rounding) (hF : Faithful R) (v : Ver) (op : BinOp)
    (a b : Num) (h : floatTyped a b = true) (hi : intsFinite R a b) (hs : intsStable R a b)
    (ha : numStable a) (hb : numStable b) (hwa : numWf a)
    (hm : op = .mod → stable (fmod (asF R a) (asF R b))) :
    (modelBin R v op a b).map absNum = specBin (implR R) op (absNum a) (absNum b) :=
  float_ops_eq_spec R hF v op a b h hi hs ha hb hwa hm

/-- unary minus/plus, abs, floor, ceiling, round, round-half-to-even on xs:float: the F&O function computed
with `implR R`; the result is an xs:float -/
theorem float_unops_eq_spec_up_to_rounding (R : Rounding) (v : Ver) (op : UnOp) (d : Dbl) (hs : stable d)
    (hv : ∀ p, op = .round p → (v = .v30 ∨ v = .v31 ∨ p = 0))
    (hk : trigF06p op (.flt d) = false) :
    absNum (modelUn R v op (.flt d)) = specUn (implR R) op (.float d) :=
  float_unops_eq_spec R v op d hs hv hk

/-- the decimal context of the implementation (`ctx28`: coefficient digits, ROUND_HALF_EVEN) is `round28`
of the exact value — 28 significant digits, ties to even — for every coefficient and scale -/
theorem decimal_context_eq_round28 (n : Int) (s : Nat) :
    decVal (ctx28 n s).1 (ctx28 n s).2 = round28 (decVal n s) :=
  ctx28_eq_round28 n s

/-- decimal division is the exact quotient rounded to 28 significant digits, ties to even -/
theorem div_dec_eq_spec (a : Int) (sa : Nat) (b : Int) (sb : Nat) (hb : b ≠ 0) :
    decVal (decDiv a sa b sb).1 (decDiv a sa b sb).2 = round28 (decVal a sa / decVal b sb) :=
  decDiv_eq_round28 a sa b sb hb

/-- `+ - * div` on xs:integer / xs:decimal operands, ALL operands, no digit bound (XPath 2.0+): the exact
F&O result with the decimal context applied to an xs:decimal result (integer results exact, unbounded),
FOAR0001 for a zero divisor -/
theorem exact_ops_eq_spec_ctx (R : Rounding) (v : Ver) (hv : v ≠ .v10) (a b : Num) (x : Int) (sx : Nat) (y : Int)
    (sy : Nat) (ha : asDec a = some (x, sx)) (hb : asDec b = some (y, sy)) :
    (opAdd R a b).map absNum = (specBin R .add (absNum a) (absNum b)).map ctxDec ∧
    (opSub R a b).map absNum = (specBin R .sub (absNum a) (absNum b)).map ctxDec ∧
    (opMul R a b).map absNum = (specBin R .mul (absNum a) (absNum b)).map ctxDec ∧
    (opDiv R v a b).map absNum = (specBin R .div (absNum a) (absNum b)).map ctxDec :=
  addsubmuldiv_exact_ctx R v hv a b x sx y sy ha hb

/-- `mod` on integer/decimal operands with the context applied (quotient of at most 28 digits) -/
theorem mod_exact_eq_spec_ctx (R : Rounding) (v : Ver) (a b : Num) (x : Int) (sx : Nat) (y : Int) (sy : Nat)
    (ha : asDec a = some (x, sx)) (hb : asDec b = some (y, sy)) (hq : numDigits (decQuotMag x sx y sy) ≤ 28) :
    (opMod R v a b).map absNum = (specBin R .mod (absNum a) (absNum b)).map ctxDec :=
  mod_exact_ctx R v a b x sx y sy ha hb hq

/-- unary minus, unary plus and fn:abs on an xs:decimal: exact, then the decimal context (all coefficients) -/
theorem neg_pos_abs_decimal_ctx (R : Rounding) (n : Int) (s : Nat) :
    absNum (opNeg (.dec n s)) = ctxDec (specUn R .neg (.decimal (decVal n s))) ∧
    absNum (opPos (.dec n s)) = ctxDec (specUn R .pos (.decimal (decVal n s))) ∧
    absNum (fnAbs (.dec n s)) = ctxDec (specUn R .abs (.decimal (decVal n s))) :=
  neg_pos_abs_dec_ctx R n s

/-- the decimal exponent used by `round28` is the right one: 10^e ≤ a < 10^(e+1) -/
theorem ilog10_correct (a : Rat) (ha : 0 < a) :
    (10 : Rat) ^ (ilog10 a) ≤ a ∧ a < (10 : Rat) ^ (ilog10 a + 1) := ilog10_spec a ha

/-- test (literals): 1 div 3 and a 40-digit product are rounded to 28 digits, ties to even -/
example : decDiv 1 0 3 0 = (3333333333333333333333333333, 28) ∧
    ctx28 12345678901234567890123456785 0 = (12345678901234567890123456780, 0) ∧
    ctx28 12345678901234567890123456775 1 = (1234567890123456789012345678, 0) := by
  refine ⟨by decide +kernel, by decide +kernel, by decide +kernel⟩

/-- the string→number conversion of the 1.0 parser (`XPATH1_NUMBER_PATTERN`, then `get_double`) IS XPath 1.0
number() — optional white space, optional '-', `Digits ('.' Digits?)? | '.' Digits`, nearest double, NaN
otherwise — for EVERY string -/
theorem xpath10_number_eq_spec (R : Rounding) (cs : List Char) : pyNumber R cs = number10 R cs :=
  pyNumber_eq_number10 R cs

/-- the XPath 1.0 parser on double and string operands: a string is converted with number(), then IEEE
arithmetic — `+ - * div mod`, all doubles and all strings -/
theorem xpath10_ops_eq_spec (R : Rounding) (op : BinOp) (hop : op ≠ .idiv) (a b : Opnd)
    (ha : isDblOpnd a = true) (hb : isDblOpnd b = true) (hw : (opndDbl R a).wf) :
    (model10Bin R op a b).map absNum = spec10Bin R op (absOpnd a) (absOpnd b) :=
  v10_ops_eq_spec10 R op hop a b ha hb hw

theorem xpath10_unops_eq_spec (R : Rounding) (op : UnOp)
    (hop : op = .neg ∨ op = .floor ∨ op = .ceiling ∨ op = .round 0) (a : Opnd) (ha : isDblOpnd a = true)
    (hk : trigF06p op (.dbl (opndDbl R a)) = false) :
    absNum (model10Un R op a) = spec10Un R op (absOpnd a) :=
  v10_unops_eq_spec10 R op hop a ha hk

/-- F06v witnesses (kernel-checked): integer literals of the 1.0 parser are computed exactly -/
theorem xpath10_exact_literals_fail :
    trigF06v_bin ieee .add (.num (.int 10000000000000000000001)) (.num (.int 0)) = true ∧
    model10Bin ieee .add (.num (.int 10000000000000000000001)) (.num (.int 0)) = .ok (.int 10000000000000000000001) ∧
    spec10Bin ieee .add (.int 10000000000000000000001) (.int 0) = .ok (.double (.fin 10000000000000000000000)) ∧
    trigF06v_bin ieee .mod (.num (.int 5)) (.num (.int 0)) = true ∧
    model10Bin ieee .mod (.num (.int 5)) (.num (.int 0)) = .error .FOAR0001 ∧
    spec10Bin ieee .mod (.int 5) (.int 0) = .ok (.double .nan) := v10_exact_literals_fail

/-! ## Call sites evaluated more than once -/

/-- a call site evaluated repeatedly returns the list of the single-call results, in order: the result of
the k-th evaluation depends on the k-th arguments only (what the correspondence check compares the
implementation's `for`/variables/function-item forms with, element-wise) -/
theorem call_site_reuse_eq_map (R : Rounding) (v : Ver) (op : BinOp) (args : List (Num × Num)) :
    evalCallSiteBin R v op args = args.map (fun p => modelBin R v op p.1 p.2) := by
  induction args with
  | nil => rfl
  | cons p rest ih => cases p; simp [evalCallSiteBin, ih]

theorem call_site_reuse_eq_map_unary (R : Rounding) (v : Ver) (args : List (UnOp × Num)) :
    evalCallSiteUn R v args = args.map (fun p => modelUn R v p.1 p.2) := by
  induction args with
  | nil => rfl
  | cons p rest ih => cases p; simp [evalCallSiteUn, ih]

/-- in particular `for $p in ps return round(x, $p)` is the list of `round(x, p)`: the precision of an
earlier evaluation is never reused -/
theorem round_call_site_reuse (R : Rounding) (x : Num) (ps : List Int) :
    evalCallSiteUn R .v31 (ps.map fun p => (UnOp.round p, x)) = ps.map (fun p => fnRound R x p) := by
  rw [call_site_reuse_eq_map_unary, List.map_map]
  apply List.map_congr_left
  intro p _
  simp [modelUn]

/-- `for $a in as, $b in bs return $a op $b` has |as|·|bs| results -/
theorem for_pairs_length (R : Rounding) (v : Ver) (op : BinOp) (as bs : List Num) :
    (evalCallSiteBin R v op (forPairs as bs)).length = as.length * bs.length := by
  rw [call_site_reuse_eq_map, List.length_map]
  induction as with
  | nil => simp [forPairs]
  | cons a rest ih =>
    simp only [forPairs, List.flatMap_cons, List.length_append, List.length_map, List.length_cons] at ih ⊢
    rw [ih]; rw [Nat.add_mul, Nat.one_mul, Nat.add_comm]

/-! ## Empty-sequence operands and the decimal zero -/

/-- on non-empty operands the sequence-level operators are the item-level ones (every theorem above lifts) -/
theorem nonempty_operands_lift (R : Rounding) (v : Ver) (op : BinOp) (x y : Num) :
    modelBinE R v op (some x) (some y) = (modelBin R v op x y).map some ∧
    specBinE R op (some (absNum x)) (some (absNum y)) = (specBin R op (absNum x) (absNum y)).map some :=
  ⟨rfl, rfl⟩

/-- `+ - * div mod` with an empty-sequence operand (either side, or both) return the empty sequence, as
XPath 3.1 §3.5 requires, whatever the other operand is -/
theorem empty_operand_eq_spec (R : Rounding) (v : Ver) (op : BinOp) (hop : op ≠ .idiv) (a b : Option Num)
    (he : a = none ∨ b = none) :
    (modelBinE R v op a b).map (Option.map absNum) = specBinE R op (a.map absNum) (b.map absNum) := by
  rcases he with rfl | rfl
  · cases b <;> simp [modelBinE, specBinE, hop, Except.map, pure, Except.pure]
  · cases a <;> simp [modelBinE, specBinE, hop, Except.map, pure, Except.pure]

/-- PARTIAL: `idiv` with an empty operand raises the static-typing error XPST0005 where XPath 3.1 §3.5 gives
the empty sequence.  (XPath 3.1 §2.3.1 lets an implementation raise XPST0005 for an expression whose static
type is empty-sequence(), and the repository's test suite pins it: `-3.5 idiv ()`.)  Full statement, false on
the tree: `empty_operand_eq_spec` without `hop`. -/
theorem idiv_empty_operand_partial (R : Rounding) (v : Ver) (a b : Option Num) (he : a = none ∨ b = none) :
    modelBinE R v .idiv a b = .error .XPST0005 ∧ specBinE R .idiv (a.map absNum) (b.map absNum) = .ok none := by
  rcases he with rfl | rfl
  · cases b <;> simp [modelBinE, specBinE, throw, throwThe, MonadExceptOf.throw, pure, Except.pure]
  · cases a <;> simp [modelBinE, specBinE, throw, throwThe, MonadExceptOf.throw, pure, Except.pure]

/-- unary minus/plus, abs, floor, ceiling, round, round-half-to-even of the empty sequence are the empty
sequence; of an item, the item-level result -/
theorem unary_empty_eq_spec (R : Rounding) (v : Ver) (op : UnOp) :
    (modelUnE R v op none).map absNum = specUnE R op none ∧
    ∀ x, modelUnE R v op (some x) = some (modelUn R v op x) :=
  ⟨rfl, fun _ => rfl⟩

/-- tests (literals): `() + 1`, `2 div ()` are empty; `() idiv 2` raises XPST0005 -/
example : modelBinE ieee .v20 .add none (some (.int 1)) = .ok none ∧
    modelBinE ieee .v31 .div (some (.int 2)) none = .ok none ∧
    modelBinE ieee .v20 .idiv none (some (.int 2)) = .error .XPST0005 := by
  refine ⟨rfl, rfl, rfl⟩

/-- xs:decimal has no negative zero: a decimal zero — whatever the sign of the Python `Decimal` that carries
it, the model has none since `get_operands` converts `op or 0` — is promoted to +0, exactly as F&O casts
the xs:decimal 0 to xs:double / xs:float; so `1e0 div round(-0.4)` is +INF -/
theorem decimal_zero_promotes_to_positive_zero (R : Rounding) (s : Nat) (x : Dbl) :
    coerce R (.dbl x) (.dec 0 s) = (.dbl x, .dbl (.zero false)) ∧
    coerce R (.flt x) (.dec 0 s) = (.flt x, .flt (.zero false)) ∧
    XVal.toDbl R.r64 (absNum (.dec 0 s)) = .zero false := by
  refine ⟨?_, ?_, ?_⟩ <;> simp [coerce, ofDec, rnd, absNum, XVal.toDbl, mkFloat]

/-- test (literals): 1e0 div (decimal zero) = +INF; 1e0 div -0e0 = -INF -/
example : opDiv ieee .v20 (.dbl (.fin 1)) (.dec 0 1) = .ok (.dbl (.inf false)) ∧
    opDiv ieee .v20 (.dbl (.fin 1)) (.dbl (.zero true)) = .ok (.dbl (.inf true)) := by
  refine ⟨by decide +kernel, by decide +kernel⟩

end EPV.C06

/-
C06 — property theorems for the numeric operators and rounding functions.
-/
import EPV.Lemmas.ArithInt
namespace EPV.C06
open EPV.Arith EPV.FOArith

/-- `idiv` on two integers is truncating division, for all (unbounded) integers. -/
theorem idiv_int_eq_tdiv (a b : Int) : idivInt a b = Int.tdiv a b := idivInt_eq_tdiv a b

end EPV.C06

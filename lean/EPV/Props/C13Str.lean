/-
C13 — string arguments of `UnicodeSubset.update` / `difference_update` / the constructor:
the parser `iterparse_character_subset` against the XSD character-group grammar
(Spec/CharGroupStrict.lean), for EVERY text (no bound on length).

* `iterparse_list_form`  : the index-arithmetic transcription of the Python loop equals an
                           automaton over the remaining text (refinement used by the proofs);
* `subset_string_accepted` / `subset_string_rejected` : where the grammar gives the text a meaning
  the parser accepts it and yields exactly that set; where the grammar demands an error it raises;
* `update_string_refines` : `update(str)` is union with, `difference_update(str)` difference from,
  the set the grammar assigns to the text, and both keep the representation invariant.

Outside the grammar fragment (`unspec`: unknown escapes, hyphens in the middle, a lone bracket, a
dangling backslash) the library is lenient on purpose (its suite pins such outputs); there only the
model-vs-code correspondence applies, and `lenient_examples` records what the model does.
-/
import EPV.Lemmas.CharSubsetStrict
import EPV.Props.C13
namespace EPV.C13
open EPV.USet

/-- the transcription of the Python generator (array + indices) equals its list form -/
theorem iterparse_list_form (s : Array Nat) : iterparse s = parseTopL s.toList :=
  iterparse_eq_parseTopL s

/-- **Accepted texts.** If the XSD grammar reads `s` as the set `S`, then
`iterparse_character_subset(s)` succeeds, all the entries it yields are non-empty, and they denote
exactly `S`. -/
theorem subset_string_accepted (s : Array Nat) (S : List CP) (h : strictGroup s.toList = .ok S) :
    ∃ l, iterparse s = some l ∧ AllValid l ∧ ∀ x, memL x l ↔ memL x S := by
  obtain ⟨l, hl, hm⟩ := parseTopL_strict_ok s.toList S h
  rw [← iterparse_list_form] at hl
  exact ⟨l, hl, parseTopL_allValid s.toList l (by rw [← iterparse_list_form]; exact hl), hm⟩

/-- **Rejected texts.** If the grammar makes `s` an error (a reversed range `b-a`, an unescaped
bracket between other characters), the parser raises `RegexError`. -/
theorem subset_string_rejected (s : Array Nat) (h : strictGroup s.toList = .error) :
    iterparse s = none := by
  rw [iterparse_list_form]; exact parseTopL_strict_error s.toList h

/-- **`update(str)` is union, `difference_update(str)` is difference** with the set the grammar
assigns to the text, from any representation satisfying the invariant; the invariant is kept. -/
theorem update_string_refines (l : List CP) (s : Array Nat) (S : List CP) (hw : WInv l)
    (h : strictGroup s.toList = .ok S) :
    (∃ l', updateStr l s = some l' ∧ WInv l' ∧ ∀ x, memL x l' ↔ (memL x l ∨ memL x S)) ∧
    (∃ l', differenceUpdateStr l s = some l' ∧ WInv l' ∧ ∀ x, memL x l' ↔ (memL x l ∧ ¬ memL x S)) := by
  obtain ⟨o, ho, hv, hm⟩ := subset_string_accepted s S h
  obtain ⟨⟨u1, u2⟩, ⟨d1, d2⟩⟩ := update_refines l o hw hv
  refine ⟨⟨update l o, by simp [updateStr, ho], u1, fun x => ?_⟩,
          ⟨differenceUpdate l o, by simp [differenceUpdateStr, ho], d1, fun x => ?_⟩⟩
  · rw [u2 x, hm x]
  · rw [d2 x, hm x]

/-- a rejected text leaves no result (the Python raises before the set is touched) -/
theorem update_string_rejected (l : List CP) (s : Array Nat) (h : strictGroup s.toList = .error) :
    updateStr l s = none ∧ differenceUpdateStr l s = none := by
  simp [updateStr, differenceUpdateStr, subset_string_rejected s h]

/- non-vacuity: texts on which the hypotheses hold (kernel-evaluated) -/

/-- `0-9a-f\--` : two ranges, an escaped hyphen, a hyphen at the end -/
example : strictGroup [48, 45, 57, 97, 45, 102, 92, 45, 45] =
    .ok [.rng 48 58, .rng 97 103, .one 45, .one 45] := by decide
/-- `-+*\[-\]` : hyphen first, specials unescaped, a range between escaped brackets -/
example : strictGroup [45, 43, 42, 92, 91, 45, 92, 93] =
    .ok [.one 45, .one 43, .one 42, .rng 91 94] := by decide
/-- `0-\\\[` : a range ending with an escaped backslash, then an escaped bracket (the F13g witness) -/
example : strictGroup [48, 45, 92, 92, 92, 91] = .ok [.rng 48 93, .one 91] := by decide
example : iterparse #[48, 45, 92, 92, 92, 91] = some [.rng 48 93, .one 92, .one 91] := by decide +kernel
/-- `z-a` and `a[b` are errors -/
example : strictGroup [122, 45, 97] = .error ∧ strictGroup [97, 91, 98] = .error := by decide

/-- Lenient zone (`unspec`), for the record: `a-b--c` (hyphen in the middle starts a range from the
hyphen), `\a` (unknown escape = backslash and `a`, pinned by `test_backslash_escapes`), `[` alone
(pinned by `test_square_brackets`), `2-\` (range up to a dangling backslash, pinned by
`test_backslash_character`). -/
theorem lenient_examples :
    strictGroup [97, 45, 98, 45, 45, 99] = .unspec ∧
      iterparse #[97, 45, 98, 45, 45, 99] = some [.rng 97 99, .one 45, .rng 45 100] ∧
    strictGroup [92, 97] = .unspec ∧ iterparse #[92, 97] = some [.one 92, .one 97] ∧
    strictGroup [91] = .unspec ∧ iterparse #[91] = some [.one 91] ∧
    strictGroup [50, 45, 92] = .unspec ∧ iterparse #[50, 45, 92] = some [.rng 50 93] := by decide +kernel

end EPV.C13

/-
C19 (phase 5) — property theorems about the XML declaration in the text scanner.

Reading guide
* `XmlDecl.parse body`      : the scanner on the characters between `<?xml` and `?>` (transcribes expat's
                              `doParseXmlDecl`); returns the derivation `Tree` (every `S`, quote, value)
* `XmlDecl.scanPrologX s`   : the prolog scan of a whole text with the declaration read by `parse`
* `render t`, `renderDecl t rest` : the text a derivation denotes (grammar [23]–[26], [32], [80], [81])
* `grammatical t`           : the XML 1.0 grammar;  `expatAccepts t` : the same with `VersionNum` relaxed
                              to `[A-Za-z0-9._-]*` (what expat, hence `fn:parse-xml`, really accepts)
-/
import EPV.Lemmas.GlobalsXmlDecl
namespace EPV.C19
open EPV.Globals EPV.Globals.XmlText EPV.Globals.XmlDecl EPV.GlobalsSpec.XmlDeclGrammar

/-- a derivation used by the examples: `<?xml version = '1.1'⏎encoding="Utf-8"⇥standalone= "no" ?>` -/
def exTree : Tree :=
  ⟨⟨[' '], ⟨[' '], [' ']⟩, false, "1.1".toList⟩,
   some ⟨['\n'], ⟨[], []⟩, true, "Utf-8".toList⟩,
   some ⟨['\t'], ⟨[], [' ']⟩, true, "no".toList⟩, [' ']⟩

/-- **The scanner accepts exactly the derivable declarations** (all character sequences): `parse`
succeeds on a body iff some derivation of expat's declaration language renders to it. -/
theorem xmldecl_scanner_accepts_iff (body : List Char) :
    (XmlDecl.parse body).isSome = true ↔ ∃ t, expatAccepts t = true ∧ render t = body := by
  constructor
  · intro h
    cases hp : XmlDecl.parse body with
    | none => rw [hp] at h; cases h
    | some t => exact ⟨t, (parse_sound body t hp).2, (parse_sound body t hp).1⟩
  · rintro ⟨t, ht, rfl⟩
    rw [parse_render t ht]; rfl

/-- **… and extracts the same values**: on the text of a derivation the scanner returns that very
derivation — version, encoding name, standalone flag, every white-space run and quote. -/
theorem xmldecl_scanner_returns_derivation (t : Tree) (h : expatAccepts t = true) :
    XmlDecl.parse (render t) = some t := parse_render t h

example : expatAccepts exTree = true ∧ String.ofList (render exTree) = " version = '1.1'\nencoding=\"Utf-8\"\tstandalone= \"no\" " ∧
    (XmlDecl.parse (render exTree)).map (fun t => (String.ofList t.version, t.encoding.map String.ofList, t.standalone))
      = some ("1.1", some "Utf-8", some false) := by decide

/-- conversely whatever the scanner returns is a derivation of the text it was given -/
theorem xmldecl_scanner_sound (body : List Char) (t : Tree) (h : XmlDecl.parse body = some t) :
    render t = body ∧ expatAccepts t = true := parse_sound body t h

example : XmlDecl.parse " version=\"1.0\" standalone='yes'".toList ≠ none := by decide

/-- a declaration text has at most one derivation (the grammar is unambiguous) -/
theorem xmldecl_derivation_unique (t t' : Tree) (h : expatAccepts t = true) (h' : expatAccepts t' = true)
    (e : render t = render t') : t = t' := by
  have a := parse_render t h
  rw [e, parse_render t' h'] at a
  exact (Option.some.inj a).symm

/-- **Whole texts.**  The prolog scan reads an XML declaration with derivation `t` iff the text is
`<?xml` + rendering of `t` + `?>` + anything, `t` in expat's language. -/
theorem xmldecl_text_iff (s : List Char) (t : Tree) :
    (scanPrologX s).2 = some t ↔ ∃ rest, expatAccepts t = true ∧ s = renderDecl t rest := by
  constructor
  · intro h
    unfold scanPrologX at h
    split at h
    · next decl r' hd =>
      split at h
      · cases h
      · next t' ht =>
        simp only [Option.some.injEq] at h
        subst h
        have hs := parse_sound decl t' ht
        refine ⟨r', hs.2, ?_⟩
        rw [declOf_sound s decl r' hd, ← hs.1]
        rfl
    · split at h <;> cases h
  · rintro ⟨rest, ht, rfl⟩
    unfold scanPrologX
    simp only [declOf_render t rest ht, parse_render t ht]

/-- … and then the rest of the prolog is scanned from the character after `?>`, with the document
standalone exactly when the derivation says `standalone = yes` (this is what decides whether an
external DOCTYPE identifier makes `SafeExpatParser` raise). -/
theorem xmldecl_text_values (t : Tree) (rest : List Char) (h : expatAccepts t = true) :
    scanPrologX (renderDecl t rest) =
      ({ misc (rest.length + 1) rest 0 none false true with standalone := t.standalone == some true }, some t) := by
  unfold scanPrologX
  simp only [declOf_render t rest h, parse_render t h]

example : expatAccepts exTree = true ∧
    ((scanPrologX (renderDecl exTree "<!DOCTYPE r SYSTEM \"x\"><r>t</r>".toList)).1.forbidden = true) := by decide

/-- every declaration of the XML 1.0 grammar is in expat's language, hence accepted … -/
theorem xmldecl_grammatical_accepted (t : Tree) (h : grammatical t = true) :
    XmlDecl.parse (render t) = some t := by
  apply parse_render
  simp only [grammatical, Bool.and_eq_true] at h
  obtain ⟨⟨⟨⟨h1, h2⟩, h3⟩, h4⟩, h5⟩ := h
  have hv : t.ver.val.all nameTailChar = true := by
    unfold versionNum at h2
    split at h2
    · next d ds heq =>
      rw [heq]
      simp only [List.all_cons, Bool.and_eq_true] at h2 ⊢
      refine ⟨by decide, by decide, ?_, ?_⟩
      · simp [nameTailChar, Char.isAlphanum, h2.1]
      · exact all_imp _ _ (fun c hc => by simp [nameTailChar, Char.isAlphanum, hc]) _ h2.2
    · cases h2
  simp only [expatAccepts, Bool.and_eq_true]
  exact ⟨⟨⟨⟨h1, hv⟩, h3⟩, h4⟩, h5⟩

example : grammatical exTree = true := by decide

/-- … and, outside the one decidable difference (`laxVersion`: the version number is not
`'1.' [0-9]+`), the accepted declarations are exactly the grammatical ones.

Full statement (false for expat, hence for `fn:parse-xml`): `(parse body).isSome ↔ ∃ t, grammatical t ∧
render t = body`; counter-example `xmldecl_lax_version_witness`. -/
theorem xmldecl_accepts_grammatical_only_partial (body : List Char) (t : Tree)
    (h : XmlDecl.parse body = some t) (hv : laxVersion t = false) : grammatical t = true := by
  have hs := (parse_sound body t h).2
  simp only [laxVersion, Bool.not_eq_false'] at hv
  simp only [expatAccepts, Bool.and_eq_true] at hs
  obtain ⟨⟨⟨⟨h1, _⟩, h3⟩, h4⟩, h5⟩ := hs
  simp only [grammatical, Bool.and_eq_true]
  exact ⟨⟨⟨⟨h1, hv⟩, h3⟩, h4⟩, h5⟩

example : XmlDecl.parse (render exTree) = some exTree ∧ laxVersion exTree = false := by decide

/-- kernel-checked: `version="2.x"` is accepted though not grammatical -/
theorem xmldecl_lax_version_witness :
    (XmlDecl.parse " version=\"2.x\"".toList).map (fun t => (grammatical t, laxVersion t)) = some (false, true) := by
  decide

/-- near misses the scanner refuses (kernel-checked): no white space between two pseudo-attributes,
`standalone` before `encoding`, `encoding` without `version`, `standalone="maybe"`, an encoding name
starting with a digit, mismatched quotes, junk after the last pseudo-attribute -/
theorem xmldecl_near_misses :
    XmlDecl.parse " version=\"1.0\"encoding=\"utf-8\"".toList = none ∧
    XmlDecl.parse " version=\"1.0\" standalone=\"yes\" encoding=\"utf-8\"".toList = none ∧
    XmlDecl.parse " encoding=\"utf-8\"".toList = none ∧
    XmlDecl.parse " version=\"1.0\" standalone=\"maybe\"".toList = none ∧
    XmlDecl.parse " version=\"1.0\" encoding=\"8bit\"".toList = none ∧
    XmlDecl.parse " version=\"1.0'".toList = none ∧
    XmlDecl.parse " version=\"1.0\" ?".toList = none := by decide

/-- the phase-2 scanner looked for the substrings `standalone` … `yes`; this text defeated it
(`encoding="standalone-yes"`): the exact reader says *not* standalone -/
theorem xmldecl_standalone_exact_witness :
    (scanPrologX "<?xml version=\"1.0\" encoding=\"standalone-yes\"?><r>t</r>".toList).1.standalone = false ∧
    (scanProlog "<?xml version=\"1.0\" encoding=\"standalone-yes\"?><r>t</r>".toList).standalone = true := by
  decide

/-- **Entity gate with the exact declaration reader** (every string): when `fn:parse-xml` with
`defuse_xml` on returns a document, the prolog scan met no entity declaration and no completed
external identifier of a non-standalone document. -/
theorem xmldecl_gate (o : EncClass) (s : String) (x : String) (h : parseXmlTextX o true s = .ok x) :
    (scanPrologX s.toList).1.forbidden = false := by
  unfold parseXmlTextX at h
  dsimp only at h
  split at h
  · cases h
  · cases h
  · cases h
  · split at h
    · cases h
    · next hf =>
      simp only [Bool.true_and, Bool.not_eq_true] at hf
      exact hf

example : parseXmlTextX .unknown true "<?xml version=\"1.0\" standalone=\"yes\"?><!DOCTYPE r SYSTEM \"x\"><r>t</r>" = .ok "t" := by
  rfl

/-- **F19e repaired (fix-c19-5), every string**: a text whose well-formed declaration names an
encoding the byte parser cannot use is an ordinary ill-formed document — FODC0006, with and without
defusing, whatever follows the declaration (so never a bare Python exception, never an expansion). -/
theorem unusable_encoding_is_FODC0006 (o : EncClass) (df : Bool) (s : String) (h : rawEncoding o s.toList = true) :
    parseXmlTextX o df s = .error .FODC0006 := by
  unfold rawEncoding at h
  unfold parseXmlTextX
  dsimp only
  split at h
  · next t ht =>
    split at h
    · next n hn =>
      simp only [Bool.or_eq_true, beq_iff_eq] at h
      rcases h with h | h <;> rw [h]
    · cases h
  · cases h

/-- record of F19e on its former witnesses (kernel-checked) -/
theorem F19e_witness :
    rawEncoding .ok "<?xml version=\"1.0\" encoding=\"x-foo\"?><r>t</r>".toList = true ∧
    parseXmlTextX .ok false "<?xml version=\"1.0\" encoding=\"x-foo\"?><r>t</r>" = .error .FODC0006 ∧
    parseXmlTextX .ok true "<?xml version=\"1.0\" encoding=\"big5\"?><!DOCTYPE r [<!ENTITY e \"X\">]><r>&e;</r>" = .error .FODC0006 ∧
    rawEncoding .unknown "<?xml version=\"1.0\" encoding=\"utf-8\"?><r>t</r>".toList = false ∧
    parseXmlTextX .unknown false "<?xml version=\"1.0\" encoding=\"utf-8\"?><r>t</r>" = .ok "t" ∧
    -- a name outside the table follows the oracle (`Utf-` is an alias of UTF-8 in CPython: class ok)
    tableClass "Utf-".toList = none ∧
    parseXmlTextX .ok true "<?xml version=\"1.1\" encoding='Utf-'?><!DOCTYPE r SYSTEM \"x\"><r>t</r>" = .error .forbidden ∧
    parseXmlTextX .unknown true "<?xml version=\"1.1\" encoding='Utf-'?><!DOCTYPE r SYSTEM \"x\"><r>t</r>" = .error .FODC0006 := by
  refine ⟨by rfl, by rfl, by rfl, by rfl, by rfl, by rfl, by rfl, by rfl⟩

end EPV.C19

/-
C03 — property theorems: parser reuse after failure (a), totality of the lexer (b), closure of the
error taxonomy under `xpath_error` (taxonomy part of (c)).  Helper lemmas live in
EPV/Lemmas/ParserState*.lean; theorems over the tables generated from the live code are in
EPV/Props/C03Tables.lean.

PARTIAL — what is NOT proved here (and cannot be, short of verifying the whole evaluator and the
Python runtime): "no exception other than ElementPathError escapes from ANY parse/evaluate call".
That half of the property is only *explored* by the malformed-input stream of harness/c03.py.

Reading guide
* `Cursor`      : the per-instance attributes `source, tokens, next_match, token, next_token,
                  parse_arguments` of a parser object
* `Config.body` : the parse proper (`advance(); expression(); expected('(end)')`) as an ARBITRARY
                  function of the cursor — it may fail anywhere and leave any cursor behind
* `xpParse`     : `XPath1Parser.parse` (= `Parser.parse` with its `finally` + the `parse_arguments` reset)
* `Clean`       : all cursor attributes except `source` as in a new instance
-/
import EPV.Lemmas.ParserState
import EPV.Lemmas.ParserStateLexer
import EPV.Lemmas.ParserStateXErr
import EPV.Lemmas.ParserStateComments2
namespace EPV.C03
open EPV.PState EPV.Lexer EPV.XErr

section reuse
variable {τ μ ε ρ : Type}

/-- **parse resets the cursor** — for every previous cursor (clean or not), every source and every
parse body, whether the body returns or fails and whatever cursor it leaves: after `parse` the
attributes `tokens, next_match, token, next_token, parse_arguments` are those of a new instance. -/
theorem parse_resets (cfg : Config τ μ ε ρ) (c : Cursor τ μ) (src : Src) :
    (xpParse cfg c src).2.tokens = [] ∧ (xpParse cfg c src).2.nextMatch = none ∧
    (xpParse cfg c src).2.token = cfg.start ∧ (xpParse cfg c src).2.nextToken = cfg.start ∧
    (xpParse cfg c src).2.parseArgs = true :=
  xpParse_clean cfg c src

/-- … and when the source is a string accepted by the tokenizer, the *whole* cursor (including
`source`) equals the one a new instance has after the same call. -/
theorem parse_state_as_fresh (cfg : Config τ μ ε ρ) (c : Cursor τ μ) (hc : Clean cfg.start c) (s : String)
    (ht : cfg.tokenize (.str s) ≠ none) :
    xpParse cfg c (.str s) = xpParse cfg (Cursor.init cfg.start) (.str s) :=
  xpParse_state_clean_str cfg hc s ht

/-- The only attribute in which a reused instance can differ from a new one: after a call whose
source was rejected by the tokenizer (not a string), `source` still holds the previous text. -/
theorem rejected_source_keeps_text (cfg : Config τ μ ε ρ) (c : Cursor τ μ) (src : Src)
    (ht : cfg.tokenize src = none) : (xpParse cfg c src).2.source = c.source :=
  xpParse_rejected_source cfg c src ht

/-- **history independence** — for every list of calls (failing and succeeding, in any order, any
length) on ONE instance, the result of each call equals the result of the same call on a new
instance. -/
theorem history_independent (cfg : Config τ μ ε ρ) (srcs : List Src) :
    (runHistory cfg (Cursor.init cfg.start) srcs).map (·.1) = (freshRuns cfg srcs).map (·.1) :=
  runHistory_results cfg srcs _ (init_clean cfg.start)

/-- the same from any clean cursor, e.g. an instance that already served other histories -/
theorem history_independent_from_clean (cfg : Config τ μ ε ρ) (srcs : List Src) (c : Cursor τ μ)
    (hc : Clean cfg.start c) :
    (runHistory cfg c srcs).map (·.1) = (freshRuns cfg srcs).map (·.1) :=
  runHistory_results cfg srcs c hc

/-- between any two calls of a history the instance is clean -/
theorem history_always_clean (cfg : Config τ μ ε ρ) (srcs : List Src) (c : Cursor τ μ) :
    ∀ rc ∈ runHistory cfg c srcs, Clean cfg.start rc.2 :=
  runHistory_clean cfg srcs c

/-! ### the pinned tree (before the `fix:` commit for F03c) violates history independence -/

/-- a two-token toy instance of the configuration: the source "arrow-fails" makes the body switch
`parse_arguments` off and fail (what `led__arrow_operator` does when the expression after `=>` is
malformed); the source "call" parses a function call, which needs `parse_arguments = True`. -/
def toyCfg : Config String String String String where
  start := "(start)"
  tokenize := fun s => match s with | .str t => some [t] | .other _ => none
  invalidSource := fun _ => "XPST0003:invalid source type"
  body := fun c =>
    if c.tokens == ["arrow-fails"] then (.error "XPST0003", { c with parseArgs := false, token := "=>" })
    else if c.parseArgs then (.ok ("tree:" ++ c.source), { c with token := "x", nextToken := "(end)" })
    else (.error "XPTY0004", c)
  post := .ok

def showRes : Except String String → String
  | .ok s => "ok " ++ s
  | .error e => "err " ++ e

/-- F03c, kernel-checked: on the pinned `XPath1Parser.parse` (no reset of `parse_arguments`) the
second call of the history fails although the same call succeeds on a new instance … -/
theorem pinned_not_history_independent :
    ((runHistoryPinned toyCfg (Cursor.init "(start)") [.str "arrow-fails", .str "call"]).map (showRes ·.1))
      = ["err XPST0003", "err XPTY0004"] ∧
    ((freshRuns toyCfg [.str "arrow-fails", .str "call"]).map (showRes ·.1))
      = ["err XPST0003", "ok tree:call"] := by decide

/-- … while the repaired `parse` gives the fresh results on the same history (a test of
`history_independent` on a non-trivial configuration: the body fails, succeeds, reads and writes
the cursor). -/
example :
    ((runHistory toyCfg (Cursor.init "(start)") [.str "arrow-fails", .str "call", .other 0, .str "call"]).map
      (showRes ·.1)) = ["err XPST0003", "ok tree:call", "err XPST0003:invalid source type", "ok tree:call"] := by
  decide

end reuse

section lexer

/-- **every lexical branch** (`Parser.advance`, tdop.py:530-569): for every symbol table in which the
eight special classes are registered, every match object of the 5-alternative tokenizer pattern that
is not white space, and whatever `float()/Decimal()/int()/name_pattern` answer: a token of a
registered class is assigned to `next_token`, and either nothing is raised or the XPST0003 error of
a registered `(invalid)`/`(unknown)` token.  `KeyError` and `RuntimeError("incompatible tokenizer")`
are unreachable. -/
theorem classify_total (tb : Table) (o : Oracles) (m : Match) (hs : SpecialsOK tb = true)
    (hm : FromPattern m = true) (hsp : isSpace m = false) :
    Cls.Good tb (classify tb o m) ∨ Cls.Syntax tb (classify tb o m) :=
  classify_total' tb o m (specials_of_ok hs) hm hsp

/-- **`advance` is total up to coded syntax errors**: on any cursor whose pending matches come from
the tokenizer pattern, with any expected-symbols argument: it returns with a look-ahead token of a
registered class or raises XPST0003 / XPST0017. -/
theorem advance_total (tb : Table) (o : Oracles) (symbols : List String) (c : Cursor Tok Match)
    (hs : SpecialsOK tb = true) (hm : ∀ m ∈ c.tokens, FromPattern m = true) :
    ((advance tb o symbols c).1 = .ok () ∧ tb.has (advance tb o symbols c).2.nextToken.symbol = true) ∨
    (∃ e, (advance tb o symbols c).1 = .error e ∧ SyntaxErr e) :=
  advance_total' tb o symbols c (specials_of_ok hs) hm

/-- `advance` only consumes matches (so repeated `advance` reaches `(end)`: the parse loop cannot
spin on the tokenizer) -/
theorem advance_consumes (tb : Table) (o : Oracles) (symbols : List String) (c : Cursor Tok Match) :
    ∃ pre, c.tokens = pre ++ (advance tb o symbols c).2.tokens :=
  EPV.Lexer.advance_consumes tb o symbols c

/-- **comment skipping terminates and fails only with coded errors** (the live `XPath2Parser.advance`,
xpath2_parser.py, since commit 1bbf01f: the comment body is scanned on the raw source and the rest is
re-tokenized): for every source text, every cursor whose pending matches come from the tokenizer pattern,
every expected-symbols argument and every re-tokenization oracle that returns pattern matches lying after
the requested offset inside the source (`OracleOK`): the model never runs out of fuel — neither in the
`while comment_level` scan (nested, unterminated, unbalanced comments) nor in the outer
`while next_token.symbol == '(:'` loop (consecutive comments) — the `assert next_match is not None` cannot
fail, and the outcome is a normal return or XPST0003 / XPST0017. -/
theorem advance3_total (tb : Table) (o : Oracles) (src : List Char) (tokFrom : Nat → List Match)
    (ho : OracleOK src tokFrom) (symbols : List String) (c : Cursor Tok Match)
    (hs : SpecialsOK tb = true) (hm : ∀ m ∈ c.tokens, FromPattern m = true) :
    (advance3 tb o src tokFrom symbols c).1 = .ok () ∨
    ∃ e, (advance3 tb o src tokFrom symbols c).1 = .error e ∧ LexErr e :=
  advance3_spec tb o (specials_of_ok hs) src tokFrom ho symbols c hm

/-- the raw-source scanner alone: with `len + 1` fuel it always answers, and an offset it returns for a
positive nesting level lies at least two characters further and inside the source -/
theorem comment_scan_terminates (src : List Char) (level pos : Nat) :
    commentScan src (src.length + 1) level pos ≠ none ∧
    ∀ p, commentScan src (src.length + 1) level pos = some (some p) →
      (level = 0 ∧ p = pos) ∨ (pos + 2 ≤ p ∧ p ≤ src.length) :=
  commentScan_spec src (src.length + 1) level pos (by omega)

/-- `advance_until` (still used by the `Q{…}` literal): it raises a coded error or returns having
consumed matches only -/
theorem advance_until_total (tb : Table) (stops : List String) (c : Cursor Tok Match) (hs : SpecialsOK tb = true) :
    (advanceUntil tb stops c).1 = .ok () ∨ ∃ e, (advanceUntil tb stops c).1 = .error e ∧ LexErr e := by
  rcases advanceUntil_spec tb stops (specials_of_ok hs) c with ⟨h, _⟩ | ⟨e, h, he, _⟩
  · exact .inl h
  · exact .inr ⟨e, h, he⟩

/-- test on literals: `1(: a (: b :) c :)2`, `(:::)3`, an unterminated comment -/
example :
    commentScan "1(: a (: b :) c :)2".toList 20 1 3 = some (some 18) ∧
    commentScan "(:::)3".toList 7 1 2 = some (some 5) ∧
    commentScan "(: (: :)".toList 9 1 2 = some none ∧
    commentScan "(: ':) x".toList 9 1 2 = some (some 6) := by decide

/-- the hypotheses are satisfiable and all branches are live (test on literals) -/
example :
    let tb : Table := [("(string)", "literal"), ("(float)", "literal"), ("(decimal)", "literal"),
      ("(integer)", "literal"), ("(name)", "name"), ("(unknown)", "symbol"), ("(invalid)", "symbol"),
      ("(end)", "symbol"), ("+", "operator")]
    let o := pyOracles (fun _ => false)
    SpecialsOK tb = true ∧
    (classify tb o ⟨"12", some "12", none, none, none, 0⟩).tok.map (·.symbol) = some "(integer)" ∧
    (classify tb o ⟨"+", none, some "+", none, none, 0⟩).tok.map (·.symbol) = some "+" ∧
    (classify tb o ⟨"#", none, none, none, some "#", 0⟩).tok.map (·.symbol) = some "(unknown)" ∧
    (classify tb o ⟨"f", none, some "f", none, none, 0⟩).err = some (.coded "XPST0003") := by decide

/-- F03d, kernel-checked on the model of the pinned integer branch: when `int(literal)` fails, a bare
`ValueError` escaped (the repaired branch raises XPST0003, see `classify_total`). -/
theorem pinned_int_literal_escapes :
    let tb : Table := [("(integer)", "literal"), ("(invalid)", "symbol")]
    let o : Oracles := ⟨fun _ => false, fun _ => true, fun _ => true, fun _ => false⟩
    (classifyPinned tb o ⟨"1", some "1", none, none, none, 0⟩).err = some (.other "ValueError") ∧
    (classify tb o ⟨"1", some "1", none, none, none, 0⟩).err = some (.coded "XPST0003") := by decide

end lexer

section taxonomy

/-- **closed taxonomy**: if every class in the code table derives from `ElementPathError` (a decidable
condition, discharged on the generated tables in C03Tables), then for every `code` argument — plain,
prefixed, braced, unknown, or an `xs:QName` with any namespace — what `xpath_error` returns or raises
is an instance of a subclass of `ElementPathError`. -/
theorem xpath_error_total (g : Graph) (m : CodeMap) (hc : TableClosed g m = true) (pfx : String)
    (arg : CodeArg) : isEPE g (xpathError m pfx arg).cls = true :=
  xpathError_cls g m hc pfx arg

/-- … and it carries a non-empty error code (string arguments; keys of the table non-empty). -/
theorem xpath_error_code_nonempty (m : CodeMap) (hk : ∀ p ∈ m, p.1 ≠ "") (pfx code : String) :
    (xpathError m pfx (.str code)).code ≠ "" :=
  xpathError_code_str m hk pfx code

end taxonomy

end EPV.C03

/-
C03 — property theorems: parser reuse after failure (a), totality of the lexer (b), closure of the
error taxonomy under `xpath_error` (taxonomy part of (c)).  Helper lemmas live in
EPV/Lemmas/ParserState*.lean; theorems over the tables generated from the live code are in
EPV/Props/C03Tables.lean.

PARTIAL — what is NOT proved here (and cannot be, short of verifying the whole evaluator and the
Python runtime): "no exception other than ElementPathError escapes from ANY parse/evaluate call".
That half of the property is only *explored* by the malformed-input stream of harness/c03.py.

Reading guide
* `Cursor`      : the per-instance attributes `source, tokens, next_match, token, next_token,
                  parse_arguments` of a parser object
* `Config.body` : the parse proper (`advance(); expression(); expected('(end)')`) as an ARBITRARY
                  function of the cursor — it may fail anywhere and leave any cursor behind
* `xpParse`     : `XPath1Parser.parse` (= `Parser.parse` with its `finally` + the `parse_arguments` reset)
* `Clean`       : all cursor attributes except `source` as in a new instance
-/
import EPV.Lemmas.ParserState
import EPV.Lemmas.ParserStateLexer
import EPV.Lemmas.ParserStateXErr
import EPV.Lemmas.ParserStateComments
namespace EPV.C03
open EPV.PState EPV.Lexer EPV.XErr

section reuse
variable {τ μ ε ρ : Type}

/-- **parse resets the cursor** — for every previous cursor (clean or not), every source and every
parse body, whether the body returns or fails and whatever cursor it leaves: after `parse` the
attributes `tokens, next_match, token, next_token, parse_arguments` are those of a new instance. -/
theorem parse_resets (cfg : Config τ μ ε ρ) (c : Cursor τ μ) (src : Src) :
    (xpParse cfg c src).2.tokens = [] ∧ (xpParse cfg c src).2.nextMatch = none ∧
    (xpParse cfg c src).2.token = cfg.start ∧ (xpParse cfg c src).2.nextToken = cfg.start ∧
    (xpParse cfg c src).2.parseArgs = true :=
  xpParse_clean cfg c src

/-- … and when the source is a string accepted by the tokenizer, the *whole* cursor (including
`source`) equals the one a new instance has after the same call. -/
theorem parse_state_as_fresh (cfg : Config τ μ ε ρ) (c : Cursor τ μ) (hc : Clean cfg.start c) (s : String)
    (ht : cfg.tokenize (.str s) ≠ none) :
    xpParse cfg c (.str s) = xpParse cfg (Cursor.init cfg.start) (.str s) :=
  xpParse_state_clean_str cfg hc s ht

/-- The only attribute in which a reused instance can differ from a new one: after a call whose
source was rejected by the tokenizer (not a string), `source` still holds the previous text. -/
theorem rejected_source_keeps_text (cfg : Config τ μ ε ρ) (c : Cursor τ μ) (src : Src)
    (ht : cfg.tokenize src = none) : (xpParse cfg c src).2.source = c.source :=
  xpParse_rejected_source cfg c src ht

/-- **history independence** — for every list of calls (failing and succeeding, in any order, any
length) on ONE instance, the result of each call equals the result of the same call on a new
instance. -/
theorem history_independent (cfg : Config τ μ ε ρ) (srcs : List Src) :
    (runHistory cfg (Cursor.init cfg.start) srcs).map (·.1) = (freshRuns cfg srcs).map (·.1) :=
  runHistory_results cfg srcs _ (init_clean cfg.start)

/-- the same from any clean cursor, e.g. an instance that already served other histories -/
theorem history_independent_from_clean (cfg : Config τ μ ε ρ) (srcs : List Src) (c : Cursor τ μ)
    (hc : Clean cfg.start c) :
    (runHistory cfg c srcs).map (·.1) = (freshRuns cfg srcs).map (·.1) :=
  runHistory_results cfg srcs c hc

/-- between any two calls of a history the instance is clean -/
theorem history_always_clean (cfg : Config τ μ ε ρ) (srcs : List Src) (c : Cursor τ μ) :
    ∀ rc ∈ runHistory cfg c srcs, Clean cfg.start rc.2 :=
  runHistory_clean cfg srcs c

/-! ### the pinned tree (before the `fix:` commit for F03c) violates history independence -/

/-- a two-token toy instance of the configuration: the source "arrow-fails" makes the body switch
`parse_arguments` off and fail (what `led__arrow_operator` does when the expression after `=>` is
malformed); the source "call" parses a function call, which needs `parse_arguments = True`. -/
def toyCfg : Config String String String String where
  start := "(start)"
  tokenize := fun s => match s with | .str t => some [t] | .other _ => none
  invalidSource := fun _ => "XPST0003:invalid source type"
  body := fun c =>
    if c.tokens == ["arrow-fails"] then (.error "XPST0003", { c with parseArgs := false, token := "=>" })
    else if c.parseArgs then (.ok ("tree:" ++ c.source), { c with token := "x", nextToken := "(end)" })
    else (.error "XPTY0004", c)
  post := .ok

def showRes : Except String String → String
  | .ok s => "ok " ++ s
  | .error e => "err " ++ e

/-- F03c, kernel-checked: on the pinned `XPath1Parser.parse` (no reset of `parse_arguments`) the
second call of the history fails although the same call succeeds on a new instance … -/
theorem pinned_not_history_independent :
    ((runHistoryPinned toyCfg (Cursor.init "(start)") [.str "arrow-fails", .str "call"]).map (showRes ·.1))
      = ["err XPST0003", "err XPTY0004"] ∧
    ((freshRuns toyCfg [.str "arrow-fails", .str "call"]).map (showRes ·.1))
      = ["err XPST0003", "ok tree:call"] := by decide

/-- … while the repaired `parse` gives the fresh results on the same history (a test of
`history_independent` on a non-trivial configuration: the body fails, succeeds, reads and writes
the cursor). -/
example :
    ((runHistory toyCfg (Cursor.init "(start)") [.str "arrow-fails", .str "call", .other 0, .str "call"]).map
      (showRes ·.1)) = ["err XPST0003", "ok tree:call", "err XPST0003:invalid source type", "ok tree:call"] := by
  decide

end reuse

section lexer

/-- **every lexical branch** (`Parser.advance`, tdop.py:530-569): for every symbol table in which the
eight special classes are registered, every match object of the 5-alternative tokenizer pattern that
is not white space, and whatever `float()/Decimal()/int()/name_pattern` answer: a token of a
registered class is assigned to `next_token`, and either nothing is raised or the XPST0003 error of
a registered `(invalid)`/`(unknown)` token.  `KeyError` and `RuntimeError("incompatible tokenizer")`
are unreachable. -/
theorem classify_total (tb : Table) (o : Oracles) (m : Match) (hs : SpecialsOK tb = true)
    (hm : FromPattern m = true) (hsp : isSpace m = false) :
    Cls.Good tb (classify tb o m) ∨ Cls.Syntax tb (classify tb o m) :=
  classify_total' tb o m (specials_of_ok hs) hm hsp

/-- **`advance` is total up to coded syntax errors**: on any cursor whose pending matches come from
the tokenizer pattern, with any expected-symbols argument: it returns with a look-ahead token of a
registered class or raises XPST0003 / XPST0017. -/
theorem advance_total (tb : Table) (o : Oracles) (symbols : List String) (c : Cursor Tok Match)
    (hs : SpecialsOK tb = true) (hm : ∀ m ∈ c.tokens, FromPattern m = true) :
    ((advance tb o symbols c).1 = .ok () ∧ tb.has (advance tb o symbols c).2.nextToken.symbol = true) ∨
    (∃ e, (advance tb o symbols c).1 = .error e ∧ SyntaxErr e) :=
  advance_total' tb o symbols c (specials_of_ok hs) hm

/-- `advance` only consumes matches (so repeated `advance` reaches `(end)`: the parse loop cannot
spin on the tokenizer) -/
theorem advance_consumes (tb : Table) (o : Oracles) (symbols : List String) (c : Cursor Tok Match) :
    ∃ pre, c.tokens = pre ++ (advance tb o symbols c).2.tokens :=
  EPV.Lexer.advance_consumes tb o symbols c

/-- **comment skipping terminates and fails only with coded errors** (`XPath2Parser.advance`,
xpath2_parser.py:220-243, with `Parser.advance_until`, tdop.py:573-611): for every cursor whose
pending matches come from the tokenizer pattern and every expected-symbols argument, with fuel above
the number of pending matches the model never runs out of fuel — neither in the `while comment_level`
loop (arbitrarily nested, unterminated or unbalanced comments) nor in the recursive `advance(':)')` —
and the outcome is a normal return or XPST0003 / XPST0017 / FORG0006. -/
theorem advance2_total (tb : Table) (o : Oracles) (symbols : List String) (c : Cursor Tok Match)
    (hs : SpecialsOK tb = true) (hm : ∀ m ∈ c.tokens, FromPattern m = true) :
    (advance2 tb o (c.tokens.length + 1) symbols c).1 = .ok () ∨
    ∃ e, (advance2 tb o (c.tokens.length + 1) symbols c).1 = .error e ∧ LexErr e :=
  (advance2_spec tb o (specials_of_ok hs) (c.tokens.length + 1) symbols c hm (Nat.lt_succ_self _)).1

/-- the comment loop alone: at most `pending matches + 2` iterations, whatever the nesting level -/
theorem comment_loop_terminates (tb : Table) (level : Nat) (c : Cursor Tok Match) (hs : SpecialsOK tb = true) :
    (commentLoop tb (c.tokens.length + 2) level c).1 = .ok () ∨
    ∃ e, (commentLoop tb (c.tokens.length + 2) level c).1 = .error e ∧ LexErr e :=
  (commentLoop_spec tb (specials_of_ok hs) (c.tokens.length + 2) level c
    (by unfold mu; split <;> omega)).1

/-- test on literals: `1 (: a (: b :) c :) 2`, an unterminated comment, and `:(:` -/
example :
    let tb : Table := [("(string)", "literal"), ("(float)", "literal"), ("(decimal)", "literal"),
      ("(integer)", "literal"), ("(name)", "name"), ("(unknown)", "symbol"), ("(invalid)", "symbol"),
      ("(end)", "symbol"), ("(:", "symbol"), (":)", "symbol"), (":", "symbol")]
    let o := pyOracles (fun _ => true)
    let start : Tok := ⟨"(start)", "symbol", "(start)"⟩
    let sym (s : String) : Match := ⟨s, none, some s, none, none⟩
    let lit (s : String) : Match := ⟨s, some s, none, none, none⟩
    let nm (s : String) : Match := ⟨s, none, none, some s, none⟩
    let run (ms : List Match) := lexAll2 tb o (ms.length + 2) { Cursor.init start with tokens := ms }
    run [lit "1", sym "(:", nm "a", sym "(:", nm "b", sym ":)", nm "c", sym ":)", lit "2"]
      = (["(integer)", "(integer)", "(end)"], none, "(end)") ∧
    run [lit "1", sym "(:", nm "a"] = (["(integer)"], some (.coded "XPST0003"), "(end)") ∧
    run [sym ":", sym "(:", sym ":)"] = ([":"], some (.coded "XPST0003"), "(:") := by decide

/-- the hypotheses are satisfiable and all branches are live (test on literals) -/
example :
    let tb : Table := [("(string)", "literal"), ("(float)", "literal"), ("(decimal)", "literal"),
      ("(integer)", "literal"), ("(name)", "name"), ("(unknown)", "symbol"), ("(invalid)", "symbol"),
      ("(end)", "symbol"), ("+", "operator")]
    let o := pyOracles (fun _ => false)
    SpecialsOK tb = true ∧
    (classify tb o ⟨"12", some "12", none, none, none⟩).tok.map (·.symbol) = some "(integer)" ∧
    (classify tb o ⟨"+", none, some "+", none, none⟩).tok.map (·.symbol) = some "+" ∧
    (classify tb o ⟨"#", none, none, none, some "#"⟩).tok.map (·.symbol) = some "(unknown)" ∧
    (classify tb o ⟨"f", none, some "f", none, none⟩).err = some (.coded "XPST0003") := by decide

/-- F03d, kernel-checked on the model of the pinned integer branch: when `int(literal)` fails, a bare
`ValueError` escaped (the repaired branch raises XPST0003, see `classify_total`). -/
theorem pinned_int_literal_escapes :
    let tb : Table := [("(integer)", "literal"), ("(invalid)", "symbol")]
    let o : Oracles := ⟨fun _ => false, fun _ => true, fun _ => true, fun _ => false⟩
    (classifyPinned tb o ⟨"1", some "1", none, none, none⟩).err = some (.other "ValueError") ∧
    (classify tb o ⟨"1", some "1", none, none, none⟩).err = some (.coded "XPST0003") := by decide

end lexer

section taxonomy

/-- **closed taxonomy**: if every class in the code table derives from `ElementPathError` (a decidable
condition, discharged on the generated tables in C03Tables), then for every `code` argument — plain,
prefixed, braced, unknown, or an `xs:QName` with any namespace — what `xpath_error` returns or raises
is an instance of a subclass of `ElementPathError`. -/
theorem xpath_error_total (g : Graph) (m : CodeMap) (hc : TableClosed g m = true) (pfx : String)
    (arg : CodeArg) : isEPE g (xpathError m pfx arg).cls = true :=
  xpathError_cls g m hc pfx arg

/-- … and it carries a non-empty error code (string arguments; keys of the table non-empty). -/
theorem xpath_error_code_nonempty (m : CodeMap) (hk : ∀ p ∈ m, p.1 ≠ "") (pfx code : String) :
    (xpathError m pfx (.str code)).code ≠ "" :=
  xpathError_code_str m hk pfx code

end taxonomy

end EPV.C03

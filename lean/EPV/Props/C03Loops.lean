/-
C03, phase 5 — termination and totality of three more `while` loops of the package
(model: EPV/Model/C03Loops.lean).  For each loop: the stated measure strictly decreases, so the fuel
`measure + 1` is never exhausted (for ALL inputs), and the outcome is a value or one named escape
whose exact condition is given.
-/
import EPV.Model.C03Loops
import EPV.Spec.HandlerCover
namespace EPV.C03Loops

/-! ## 1. `int_to_alphabetic` -/

/-- `while num >= 0` terminates for every alphabet and every start state: fuel above the measure
`num + 1` is never exhausted -/
theorem alpha_loop_terminates (alphabet : List Char) :
    ∀ (f : Nat) (s : AlphaSt), alphaMeasure s < f → alphaLoop alphabet f s ≠ .outOfFuel := by
  intro f
  induction f with
  | zero => intro s h; omega
  | succ f ih =>
    intro s h
    unfold alphaLoop
    split
    · split
      · simp
      · rename_i hn hb
        apply ih
        have h1 : s.num / (alphabet.length : Int) ≤ s.num := Int.ediv_le_self _ hn
        simp only [alphaMeasure, alphaStep] at *
        omega
    · simp

/-- with a non-empty alphabet the loop returns a value (no escape) -/
theorem alpha_loop_value (alphabet : List Char) (hne : alphabet ≠ []) :
    ∀ (f : Nat) (s : AlphaSt), alphaMeasure s < f → ∃ cs, alphaLoop alphabet f s = .val cs := by
  have hl : alphabet.length ≠ 0 := by
    intro h; exact hne (List.eq_nil_of_length_eq_zero h)
  intro f
  induction f with
  | zero => intro s h; omega
  | succ f ih =>
    intro s h
    unfold alphaLoop
    split
    · rename_i hn
      apply ih
      have h1 : s.num / (alphabet.length : Int) ≤ s.num := Int.ediv_le_self _ hn
      simp only [alphaMeasure, alphaStep] at *
      omega
    · exact ⟨_, rfl⟩

/-- **`int_to_alphabetic` (lines 102-115) is total**: for every number and every alphabet the function
returns a string, or — only for an EMPTY alphabet and `num ≠ 0` — escapes with `ZeroDivisionError`;
the fuel never runs out.  (The live alphabets are all non-empty: checked on every run.) -/
theorem int_to_alphabetic_total (alphabet : List Char) (num : Int) :
    (∃ s, intToAlphabetic alphabet num = .val s) ∨
    (alphabet = [] ∧ num ≠ 0 ∧ intToAlphabetic alphabet num = .escape "ZeroDivisionError") := by
  unfold intToAlphabetic
  by_cases h0 : num = 0
  · left; simp [h0]
  · rw [if_neg h0]
    by_cases hne : alphabet = []
    · right
      refine ⟨hne, h0, ?_⟩
      subst hne
      have : (1 : Int) ≤ (num.natAbs : Int) := by omega
      simp [alphaLoop, this]
    · left
      obtain ⟨cs, hcs⟩ := alpha_loop_value alphabet hne
        (alphaMeasure ⟨(num.natAbs : Int) - 1, []⟩ + 1) ⟨(num.natAbs : Int) - 1, []⟩ (by omega)
      simp only [hcs]
      exact ⟨_, rfl⟩

theorem int_to_alphabetic_value (alphabet : List Char) (hne : alphabet ≠ []) (num : Int) :
    ∃ s, intToAlphabetic alphabet num = .val s := by
  rcases int_to_alphabetic_total alphabet num with h | ⟨h, _⟩
  · exact h
  · exact absurd h hne

example : intToAlphabetic "abc".toList 5 = .val "ab" := by decide +kernel
example : intToAlphabetic "abc".toList (-13) = .val "-aaa" := by decide +kernel
example : intToAlphabetic [] 7 = .escape "ZeroDivisionError" := by decide +kernel
example : intToAlphabetic [] 0 = .val "0" := by decide +kernel

/-! ## 2. `get_argument_tokens` -/

/-- the loop equals the recursive specification whenever the fuel exceeds the depth of the left
spine — in particular it terminates, for every tree and every accumulator -/
theorem arg_loop_spec : ∀ (f : Nat) (tk : Tk) (acc : List Nat), tk.spine < f →
    argLoop f ⟨tk, acc⟩ = match argsSpec tk with
      | some l => .val (l ++ acc.reverse)
      | none => .escape "IndexError" := by
  intro f
  induction f with
  | zero => intro tk acc h; omega
  | succ f ih =>
    intro tk acc h
    cases tk with
    | leaf c i => cases c <;> simp [argLoop, argStep, argsSpec, Tk.id]
    | un c i k0 => cases c <;> simp [argLoop, argStep, argsSpec, Tk.id]
    | bin c i k0 k1 =>
      cases c
      · simp [argLoop, argStep, argsSpec, Tk.id]
      · have hk : k0.spine < f := by simp only [Tk.spine] at h; omega
        simp only [argLoop, argStep, argsSpec]
        rw [ih k0 (acc ++ [k1.id]) hk]
        cases argsSpec k0 <;> simp

theorem args_spec_some_iff : ∀ tk : Tk, (argsSpec tk).isSome = tk.spineOK := by
  intro tk
  induction tk with
  | leaf c i => cases c <;> rfl
  | un c i k0 _ => cases c <;> rfl
  | bin c i k0 k1 ih0 _ =>
    cases c
    · rfl
    · simp only [argsSpec, Tk.spineOK, Option.isSome_map]; exact ih0

/-- **`get_argument_tokens` is total**: for every token tree the loop terminates (fuel = spine depth
+ 1 is not exhausted) and returns exactly the recursively defined argument list, or — exactly when a
`','` token on the left spine has fewer than two items — escapes with `IndexError` -/
theorem get_argument_tokens_total (tk : Tk) :
    (tk.spineOK = true ∧ ∃ l, argsSpec tk = some l ∧ getArgumentTokens tk = .val l) ∨
    (tk.spineOK = false ∧ getArgumentTokens tk = .escape "IndexError") := by
  have h := arg_loop_spec (tk.spine + 1) tk [] (by omega)
  have hs := args_spec_some_iff tk
  unfold getArgumentTokens
  cases ho : argsSpec tk with
  | some l =>
    left
    rw [ho] at h hs
    refine ⟨by simpa using hs.symm, l, rfl, ?_⟩
    simpa using h
  | none =>
    right
    rw [ho] at h hs
    exact ⟨by simpa using hs.symm, h⟩

/-- trees built by the parser (every `','` has two items): a value, never an escape -/
theorem get_argument_tokens_value (tk : Tk) (h : tk.spineOK = true) :
    ∃ l, getArgumentTokens tk = .val l := by
  rcases get_argument_tokens_total tk with ⟨_, l, _, hl⟩ | ⟨hb, _⟩
  · exact ⟨l, hl⟩
  · rw [h] at hb; cases hb

example : getArgumentTokens (.bin true 0 (.bin true 1 (.leaf false 2) (.leaf false 3)) (.un false 4 (.leaf true 5)))
    = .val [2, 3, 4] := by decide +kernel
example : getArgumentTokens (.bin true 0 (.un true 1 (.leaf false 2)) (.leaf false 3)) = .escape "IndexError" := by
  decide +kernel

/-! ## 3. `ElementNode.iter_descendants` -/

/-- what is still to be delivered from a state: the running iterator, then the stacked ones from the
top of the stack down -/
def pending (s : DescSt) : List Nat := s.children.pre ++ (s.iterators.map Forest.pre).flatten

theorem pre_of_isNil {k : Forest} (h : k.isNil = true) : k.pre = [] := by
  cases k <;> simp_all [Forest.isNil, Forest.pre]

theorem size_of_isNil {k : Forest} (h : k.isNil = true) : k.size = 0 := by
  cases k <;> simp_all [Forest.isNil, Forest.size]

/-- the loop terminates for every state (fuel above the measure is never exhausted) and yields the
already delivered nodes followed by the pending ones in document order -/
theorem desc_loop_spec : ∀ (f : Nat) (s : DescSt), descMeasure s < f →
    descLoop f s = .val (s.out ++ pending s) := by
  intro f
  induction f with
  | zero => intro s h; omega
  | succ f ih =>
    intro s h
    obtain ⟨ch, its, out⟩ := s
    cases ch with
    | nil =>
      cases its with
      | nil => simp [descLoop, descStep, pending, Forest.pre]
      | cons it its =>
        simp only [descLoop, descStep]
        rw [ih]
        · simp [pending, Forest.pre]
        · simp only [descMeasure, Forest.size, List.map_cons, List.sum_cons] at *
          omega
    | cons id el kids rest =>
      simp only [descLoop, descStep]
      by_cases hc : (el && !kids.isNil) = true
      · rw [if_pos hc]
        show descLoop f ⟨kids, rest :: its, out ++ [id]⟩ = _
        rw [ih]
        · have hel : el = true := by cases el <;> simp_all
          simp [pending, Forest.pre, hel]
        · simp only [descMeasure, Forest.size, List.map_cons, List.sum_cons] at *
          omega
      · rw [if_neg hc]
        show descLoop f ⟨rest, its, out ++ [id]⟩ = _
        rw [ih]
        · cases el
          · simp [pending, Forest.pre]
          · have hk : kids.isNil = true := by simpa using hc
            simp [pending, Forest.pre, pre_of_isNil hk]
        · simp only [descMeasure, Forest.size] at *
          omega

/-- **`iter_descendants` is total**: for every (finite) children forest the explicit-stack loop
terminates — `2·nodes + 1` steps suffice — and yields exactly the descendants in document order;
no exception is possible (the `IndexError` of `iterators.pop()` is the loop exit) -/
theorem iter_descendants_total (children : Forest) :
    iterDescendants children = .val children.pre := by
  unfold iterDescendants
  rw [desc_loop_spec _ _ (by simp [descMeasure])]
  simp [pending]

example : iterDescendants (.cons 1 true (.cons 2 true .nil (.cons 3 false .nil .nil)) (.cons 4 false (.cons 9 false .nil .nil) .nil))
    = .val [1, 2, 3, 4] := by decide +kernel

/-! ## the table of `while` loops: how many rows are proved -/

/-- rows of `whileBaseline` whose termination argument starts with the given letter
(`p`roved / `a`rgued) -/
def rowsWith (c : Char) : Nat :=
  (EPV.C03Cover.whileBaseline.filter fun r => r.2.2.2.toList.head? == some c).length

/-- of the 52 listed `while` loops 12 are `proved` (or `proved in part`) by theorems of this property —
`advance_until`, `expression` (in part), the comment scan, the consecutive-comments loop, the three
loops of this file and the five parent walks of EPV/Props/C03Loops2.lean — and 41 are `argued` by
reading; every row is one or the other -/
theorem while_baseline_counts :
    EPV.C03Cover.whileBaseline.length = 53 ∧ rowsWith 'p' = 12 ∧ rowsWith 'a' = 41 := by decide +kernel
end EPV.C03Loops

/-
C01 — path expressions select exactly the XDM-defined nodes, once, in document order.
Only the property theorems; lemmas live in EPV/Lemmas/Axes*.lean.

Reading guide
* `Arr`, `Mode`      : an XML tree as a pre-order array of records (node = index, document order = `<`),
                       and the root form (document / Element with dummy document / fragment)
* `wfArr m a`        : decidable well-formedness of the encoding (the driver checks it on every tree)
* `iterAxis m a ax n`: what the context iterator of `xpath_context.py` behind axis `ax` yields for
                       context node `n` (model, keeps the implementation's algorithm)
* `eval m a e f`     : `token.select(context)` for expression `e` and focus `f = (item, position, size)`
* `Spec.onAxis`, `Spec.sem` : XPath 1.0 §2 — axes as predicates over parent / document order / kind;
                       node-sets as "all nodes of the document, filtered", i.e. in document order
The model mirrors /repo with the `fix:` commits of branches fix-c01, fix-c01-2, fix-c01-3 (docs/C01.md):
no known finding is left, every theorem is stated at full strength.
-/
import EPV.Lemmas.AxesPath
import EPV.Lemmas.AxesFlatten
import EPV.Lemmas.AxesState
import EPV.Lemmas.AxesEvalState
import EPV.Lemmas.AxesEvaluate
namespace EPV.C01
open EPV.XP EPV.XP.Spec

/-! ## the encoding -/

/-- The decidable check implies the well-formedness propositions used by every theorem below. -/
theorem wfArr_sound (m : Mode) (a : Arr) (h : wfArr m a = true) : WF m a := wf_of_wfArr h

/-- In a well-formed array "`q` is on the parent chain of `i`" (how the specification defines
ancestor) is the same as "`i` lies in the subtree interval of `q`" (what the model's descendant /
following / preceding iterators use). -/
theorem anc_iff_interval (m : Mode) (a : Arr) (h : wfArr m a = true) (q i : Nat) (hi : i < a.length) :
    isAnc a q i = true ↔ (q < i ∧ i ≤ q + sz a q) :=
  isAnc_iff (wf_of_wfArr h) hi

/-- The specification's ancestor relation is the transitive closure of `parent`. -/
inductive Anc (a : Arr) : Nat → Nat → Prop
  | parent {q i : Nat} : par a i = some q → Anc a q i
  | step {q p i : Nat} : par a i = some p → Anc a q p → Anc a q i

theorem anc_iff_closure (m : Mode) (a : Arr) (h : wfArr m a = true) (q i : Nat) (hi : i < a.length) :
    isAnc a q i = true ↔ Anc a q i := by
  have w := wf_of_wfArr h
  constructor
  · intro hq
    unfold isAnc ancOf at hq
    rw [List.contains_iff_mem] at hq
    have key : ∀ (fuel i : Nat), i < a.length → q ∈ ancUp a fuel i → Anc a q i := by
      intro fuel
      induction fuel with
      | zero => intro i _ hm; simp [ancUp] at hm
      | succ fuel ih =>
        intro i hi hm
        unfold ancUp at hm
        cases hp : par a i with
        | none => rw [hp] at hm; simp at hm
        | some p =>
          rw [hp] at hm
          simp only [List.mem_cons] at hm
          rcases hm with rfl | hm
          · exact Anc.parent hp
          · exact Anc.step hp (ih p (w.par_lt_len hi hp) hm)
    exact key i i hi hq
  · intro hq
    have key : ∀ {q i : Nat}, Anc a q i → i < a.length → isAnc a q i = true := by
      intro q i hq
      induction hq with
      | @parent i hp =>
        intro hi
        exact (isAnc_iff w hi).2 (w.parLt i q hi hp)
      | @step p i hp _ ih =>
        intro hi
        have hpl := w.par_lt_len hi hp
        have h1 := (isAnc_iff w hpl).1 (ih hpl)
        have h2 := w.parLt i p hi hp
        have := w.nest p q hpl h1.1 h1.2
        exact (isAnc_iff w hi).2 ⟨by omega, by omega⟩
    exact key hq hi

/-! ## every finite tree -/

/-- **flatten_wf.**  The pre-order array `Root.flatten r` of every finite XML tree `r` (document with
its top-level comments / PIs / root element, Element root in the default form with elementpath's dummy
document, or fragment; elements with any namespace nodes, attributes and children; text, comment
and PI leaves) is well-formed — so every theorem about well-formed arrays below holds for all trees.
The driver recomputes `flatten` from the nested tree the harness ships and compares it with the
array the harness computed (`fl=1`). -/
theorem flatten_wf (r : Root) : WF r.mode r.flatten := flatten_WF r

/-- `axis_eq_spec` for every tree (no well-formedness hypothesis left). -/
theorem axis_eq_spec_tree (r : Root) (ax : Axis) (n : Nat) (hn : n < r.flatten.length) :
    iterAxis r.mode r.flatten ax n = (allNodes r.flatten).filter (onAxis r.mode r.flatten ax n) :=
  axis_eq (flatten_WF r) hn ax

/-- **path_eq_spec for every tree.** -/
theorem path_eq_spec_tree (r : Root) (e : Expr) (t : Ty) (f : Focus) (ht : ty e = some t)
    (hf : f.item < r.flatten.length) :
    eval r.mode r.flatten e f = sem r.mode r.flatten e f :=
  eval_eq_sem_aux (flatten_WF r) e t f ht hf

/-- for every tree and typed path: the selected nodes are in document order, duplicate free -/
theorem path_ordered_tree (r : Root) (e : Expr) (f : Focus) (ht : ty e = some .path)
    (hf : f.item < r.flatten.length) :
    ∃ l, eval r.mode r.flatten e f = .nodes l ∧ l.Pairwise (· < ·) ∧ ∀ x ∈ l, x < r.flatten.length := by
  rw [path_eq_spec_tree r e .path f ht hf]
  obtain ⟨l, hl⟩ := hasTy_path (sem_typed (m := r.mode) (a := r.flatten) e .path f ht)
  have := sem_good e f l hf hl
  exact ⟨l, hl, this.1, this.2⟩

/-! ## the thirteen axes -/

/-- **axis_eq_spec.**  For every well-formed tree, root form and context node — of any kind — the
nodes yielded by the implementation's axis method for axis `ax` are exactly the nodes of the document
that the XPath specification puts on that axis, each once, in document order: all thirteen axes,
no side condition. -/
theorem axis_eq_spec (m : Mode) (a : Arr) (hw : wfArr m a = true) (ax : Axis) (n : Nat)
    (hn : n < a.length) :
    iterAxis m a ax n = (allNodes a).filter (onAxis m a ax n) :=
  axis_eq (wf_of_wfArr hw) hn ax

theorem self_eq_spec (m : Mode) (a : Arr) (n : Nat) (hn : n < a.length) :
    iterAxis m a .self n = (allNodes a).filter (onAxis m a .self n) := self_eq hn

theorem child_eq_spec (m : Mode) (a : Arr) (hw : wfArr m a = true) (n : Nat) (hn : n < a.length) :
    iterAxis m a .child n = (allNodes a).filter (onAxis m a .child n) := child_eq (wf_of_wfArr hw) hn

theorem descendant_eq_spec (m : Mode) (a : Arr) (hw : wfArr m a = true) (n : Nat) (hn : n < a.length) :
    iterAxis m a .descendant n = (allNodes a).filter (onAxis m a .descendant n) :=
  descendant_eq (wf_of_wfArr hw) hn

theorem descendantOrSelf_eq_spec (m : Mode) (a : Arr) (hw : wfArr m a = true) (n : Nat)
    (hn : n < a.length) :
    iterAxis m a .descendantOrSelf n = (allNodes a).filter (onAxis m a .descendantOrSelf n) :=
  descendantOrSelf_eq (wf_of_wfArr hw) hn

theorem parent_eq_spec (m : Mode) (a : Arr) (hw : wfArr m a = true) (n : Nat) (hn : n < a.length) :
    iterAxis m a .parent n = (allNodes a).filter (onAxis m a .parent n) := parent_eq (wf_of_wfArr hw) hn

/-- `iter_ancestors` returns `reversed(ancestors)`: document order -/
theorem ancestor_eq_spec (m : Mode) (a : Arr) (hw : wfArr m a = true) (n : Nat) (hn : n < a.length) :
    iterAxis m a .ancestor n = (allNodes a).filter (onAxis m a .ancestor n) :=
  ancestor_eq (wf_of_wfArr hw) hn

theorem ancestorOrSelf_eq_spec (m : Mode) (a : Arr) (hw : wfArr m a = true) (n : Nat)
    (hn : n < a.length) :
    iterAxis m a .ancestorOrSelf n = (allNodes a).filter (onAxis m a .ancestorOrSelf n) :=
  ancestorOrSelf_eq (wf_of_wfArr hw) hn

/-- the `follows` flag loop over the parent's children; attribute / namespace context: empty -/
theorem followingSibling_eq_spec (m : Mode) (a : Arr) (hw : wfArr m a = true) (n : Nat)
    (hn : n < a.length) :
    iterAxis m a .followingSibling n = (allNodes a).filter (onAxis m a .followingSibling n) :=
  followingSibling_eq (wf_of_wfArr hw) hn

theorem precedingSibling_eq_spec (m : Mode) (a : Arr) (hw : wfArr m a = true) (n : Nat)
    (hn : n < a.length) :
    iterAxis m a .precedingSibling n = (allNodes a).filter (onAxis m a .precedingSibling n) :=
  precedingSibling_eq (wf_of_wfArr hw) hn

/-- `iter_preceding`: walk of the root's descendants up to the item (owner element for an
attribute / namespace item) minus the collected ancestors — all context kinds. -/
theorem preceding_eq_spec (m : Mode) (a : Arr) (hw : wfArr m a = true) (n : Nat) (hn : n < a.length) :
    iterAxis m a .preceding n = (allNodes a).filter (onAxis m a .preceding n) :=
  preceding_eq (wf_of_wfArr hw) hn

theorem namespace_eq_spec (m : Mode) (a : Arr) (hw : wfArr m a = true) (n : Nat) (hn : n < a.length) :
    iterAxis m a .namespace n = (allNodes a).filter (onAxis m a .namespace n) :=
  namespace_eq (wf_of_wfArr hw) hn

/-- `select__following_axis`: the pinned helper `iter_followings` for element / text / comment / PI
context nodes; for an attribute or namespace node the owner's descendants, then the owner's following
nodes (fix F01b) — equal to the specified following axis for every context kind. -/
theorem following_eq_spec (m : Mode) (a : Arr) (hw : wfArr m a = true) (n : Nat) (hn : n < a.length) :
    iterAxis m a .following n = (allNodes a).filter (onAxis m a .following n) :=
  following_eq (wf_of_wfArr hw) hn

/-- `select__attribute_reference_or_axis`: empty for an attribute context node (fix F01c), the stored
attributes of an element, empty otherwise. -/
theorem attribute_eq_spec (m : Mode) (a : Arr) (hw : wfArr m a = true) (n : Nat) (hn : n < a.length) :
    iterAxis m a .attribute n = (allNodes a).filter (onAxis m a .attribute n) :=
  attribute_eq (wf_of_wfArr hw) hn

/-- Every axis yields a strictly increasing index list: each node once, in document order — also
the reverse axes (their proximity positions are assigned by `focus_position_reverse`). -/
theorem axis_ordered_nodup (m : Mode) (a : Arr) (hw : wfArr m a = true) (ax : Axis) (n : Nat)
    (hn : n < a.length) :
    (iterAxis m a ax n).Pairwise (· < ·) ∧ (iterAxis m a ax n).Nodup := by
  rw [axis_eq_spec m a hw ax n hn]
  exact ⟨range_filter_sorted _ _, nodup_of_sorted (range_filter_sorted _ _)⟩

/-! ## steps and predicates -/

/-- **focus_position_reverse.**  The focus sequence over which a predicate `[p]` of `e` is
evaluated (`select_with_focus`: reverse axes counted down from `len(results)`; later predicates of a
reverse step re-numbered) assigns to every node its XPath proximity position: index in document
order for forward steps and filter expressions, index in reverse document order for all
predicates of a reverse-axis step; context size = number of nodes. -/
theorem focus_position_reverse (e : Expr) (l : List Nat) (h : l.Pairwise (· < ·)) :
    predFocus e l = l.map fun n => ⟨n, proximity (predAxisReverse e) l n, l.length⟩ :=
  predFocus_eq e (nodup_of_sorted h)

/-- One location step: axis method + node test = the specification's step (both spellings, abbreviated
and explicit). -/
theorem step_eq_spec (m : Mode) (a : Arr) (hw : wfArr m a = true) (ax : Axis) (t : Test)
    (abbr : Bool) (n : Nat) (hn : n < a.length) :
    evalStep m a ax t abbr n = stepSet m a ax t n :=
  evalStep_eq (wf_of_wfArr hw) hn ax t abbr

/-! ## paths -/

/-- **path_eq_spec.**  For every well-formed tree, every root form, every expression `e` of the typed
fragment (steps on all thirteen axes with name / kind tests, any number of predicates — integer,
negative and decimal literals, `position()`/`last()`/`count()` comparisons, paths, `and`/`or`/`not` —,
`/`, `//`, leading `/` and `//`, `.`, `..`, `@`, parenthesised sub-paths also as left operand
`(e)/step`, unions `a | b`) and every context (node of any kind, position, size): the implementation's
`select` returns exactly the value the specification defines — for node-sets: the same nodes, each
once, in document order.  No side condition. -/
theorem path_eq_spec (m : Mode) (a : Arr) (hw : wfArr m a = true) (e : Expr) (t : Ty)
    (f : Focus) (ht : ty e = some t) (hf : f.item < a.length) :
    eval m a e f = sem m a e f :=
  eval_eq_sem_aux (wf_of_wfArr hw) e t f ht hf

/-- **path_sound.**  A node is selected iff the specification selects it. -/
theorem path_sound (m : Mode) (a : Arr) (hw : wfArr m a = true) (e : Expr) (f : Focus)
    (ht : ty e = some .path) (hf : f.item < a.length) (x : Nat) :
    x ∈ nodesOf (eval m a e f) ↔ x ∈ nodesOf (sem m a e f) := by
  rw [path_eq_spec m a hw e .path f ht hf]

/-- **path_ordered / path_nodup.**  The selected nodes come out in document order and without
duplicates (strictly increasing indices, all of them nodes of the tree). -/
theorem path_ordered (m : Mode) (a : Arr) (hw : wfArr m a = true) (e : Expr) (f : Focus)
    (ht : ty e = some .path) (hf : f.item < a.length) :
    ∃ l, eval m a e f = .nodes l ∧ l.Pairwise (· < ·) ∧ l.Nodup ∧ ∀ x ∈ l, x < a.length := by
  rw [path_eq_spec m a hw e .path f ht hf]
  obtain ⟨l, hl⟩ := hasTy_path (sem_typed (m := m) (a := a) e .path f ht)
  have := sem_good e f l hf hl
  exact ⟨l, hl, this.1, nodup_of_sorted this.1, this.2⟩

/-- The results of the path operators `/`, `//` (two operands) and leading `//` are in document
order and duplicate free **unconditionally** (any array, any operands): the seen-set followed by
the sort by node position (fix F01). -/
theorem path_operator_ordered (m : Mode) (a : Arr) (l r : Expr) (f : Focus) (ls : List Nat)
    (h : eval m a (.slash l r) f = .nodes ls ∨ eval m a (.dslash l r) f = .nodes ls ∨
         eval m a (.droot r) f = .nodes ls) : ls.Pairwise (· < ·) := by
  have key : ∀ rs : List Nat, (docOrder rs).Pairwise (· < ·) :=
    fun rs => sorted_isort _ (nodup_dedup rs [])
  rcases h with h | h | h
  · simp only [eval] at h
    split at h
    · split at h
      · simp only [Val.nodes.injEq] at h; subst h; exact key _
      · cases h
    · cases h
  · simp only [eval] at h
    split at h
    · split at h
      · simp only [Val.nodes.injEq] at h; subst h; exact key _
      · cases h
    · cases h
  · simp only [eval] at h
    split at h
    · simp only [Val.nodes.injEq] at h; subst h; exact key _
    · cases h

/-- `l | r` returns its nodes in document order without duplicates, unconditionally. -/
theorem union_ordered (m : Mode) (a : Arr) (l r : Expr) (f : Focus) (ls : List Nat)
    (h : eval m a (.union l r) f = .nodes ls) : ls.Pairwise (· < ·) := by
  simp only [eval] at h
  split at h
  · simp only [Val.nodes.injEq] at h; subst h; exact sorted_isort _ (nodup_dedup _ [])
  · cases h

/-- The specification never yields an error on a typed expression, and its node-sets are strictly
increasing lists of valid indices (so `path_eq_spec` is not an equation between errors). -/
theorem spec_total_ordered (m : Mode) (a : Arr) (e : Expr) (f : Focus) (ht : ty e = some .path)
    (hf : f.item < a.length) :
    ∃ l, sem m a e f = .nodes l ∧ l.Pairwise (· < ·) ∧ ∀ x ∈ l, x < a.length := by
  obtain ⟨l, hl⟩ := hasTy_path (sem_typed (m := m) (a := a) e .path f ht)
  have := sem_good e f l hf hl
  exact ⟨l, hl, this.1, this.2⟩

/-! ## the generator discipline of the iterators (`EPV/Model/AxesState.lean`)

Each context iterator is transcribed statement by statement (`prog`): axis assignment, loop variable
`self.item`, `yield`, restore of the saved `status`.  `exec` = run to exhaustion, `closeAfter k` = the
consumer abandons the generator after the k-th yield. -/

/-- Entered with `context.axis is None`, the statement-level transcription of every helper generator
yields `helperAxis` (= `iterAxis`, except for the two helpers pinned by the suite) and every axis
METHOD yields exactly the list `iterAxis` that the axis theorems above are about. -/
theorem iterator_yields (m : Mode) (a : Arr) (ax : Axis) (c : Ctx) (hc : c.axis = none) :
    (exec (prog m a ax c) c).1.map (·.1) = helperAxis m a ax c.item := prog_yields ax c hc

/-- **iterator_restores.**  On normal exhaustion every helper generator and every axis method leaves
`context.item` and `context.axis` exactly as it found them — all thirteen axes (the namespace axis gives
`item` back in its `finally:` clause). -/
theorem iterator_restores (m : Mode) (a : Arr) (ax : Axis) (c : Ctx) :
    (exec (prog m a ax c) c).2 = c ∧ (c.axis = none → (exec (axisProg m a ax c) c).2 = c) :=
  ⟨prog_restores ax c, fun hc => axisProg_restores ax c hc⟩

/-- the `iter_descendants()` call of the `//` operator restores as well -/
theorem dslash_iterator_restores (m : Mode) (a : Arr) (c : Ctx) :
    (exec (progDslash m a c) c).2 = c := progDslash_restores c

/-- **iterator_trace.**  What the node test observes at every `yield` of an axis method:
`context.axis` is the name of the axis and `context.item` is the yielded node — no exception (the helper
`iter_children_or_self` alone yields the root element for the dummy document without moving the item;
`select__child_axis` moves it, fix F01i). -/
theorem iterator_trace (m : Mode) (a : Arr) (hw : wfArr m a = true) (ax : Axis) (c : Ctx)
    (hc : c.axis = none) (hns : ax ≠ .namespace) :
    (exec (axisProg m a ax c) c).1 = (iterAxis m a ax c.item).map fun x => (x, (⟨x, some ax⟩ : Ctx)) :=
  axisProg_trace ax c hc hns (fun hv => by
    obtain ⟨_, h, h0, _⟩ := (wf_of_wfArr hw).v_is_doc hv; rw [h]; exact h0)

/-- **step_from_state.**  Running the axis method and, at each yield, the node test on the context
*state* (`iter_matching_nodes` / `iter_children_or_self` with `context.axis` set test `context.item`) is
the structural step semantics `evalStep` used by `eval` — the abstraction of the `context.axis` state
machine is a theorem. -/
theorem step_from_state (m : Mode) (a : Arr) (hw : wfArr m a = true) (ax : Axis) (t : Test) (ab : Bool)
    (c : Ctx) (hc : c.axis = none) : evalStepState m a ax t c = evalStep m a ax t ab c.item :=
  evalStepState_eq ax t ab c hc (fun hv => by
    obtain ⟨_, h, h0, _⟩ := (wf_of_wfArr hw).v_is_doc hv; rw [h]; exact h0)

/-- abbreviated steps (`x`, `*`, `node()`): the test loops over the iterator's yielded values -/
theorem abbrev_step_from_state (m : Mode) (a : Arr) (t : Test) (c : Ctx) (hc : c.axis = none) :
    evalAbbrevState m a t c = evalStep m a .child t true c.item := evalAbbrevState_eq t c hc

/-- **early_close_restores.**  A loop iterator abandoned after its k-th yield (the consumer closes the
generator: `boolean_value`, `fn:head`, an exception …) runs its `finally:` clause and leaves the context
exactly as after exhaustion: the saved status is written back (fix 8377c57). -/
theorem early_close_restores (ax : Option Axis) (l : List Nat) (c s : Ctx) (k : Nat) (hk : 0 < k)
    (hl : k ≤ l.length) :
    closeAfter k ([.setAxis ax] ++ loopItems l ++ [.restore s]) c = some s :=
  closeAfter_loop ax l c s k hk hl

/-! ## the consumers of the iterator state (`EPV/Model/AxesEvalState.lean`)

`evalS J m a e c` threads the dynamic context state (item, axis, position, size) through the evaluation
of `e` exactly where the code shares one `XPathContext` between caller and callee (steps, the base and
the right operand of `/` `//` `[`, leading `/` `//`, parentheses, `count`) and copies it where the
code calls `copy(context)` (predicates, `|`, comparisons, `and`, `or`, `not`). -/

/-- **eval_state_values.**  For every typed expression, evaluated from a context with `axis = None`, the
state-threading evaluator computes the value of the pure evaluator `eval` (the one the specification
theorems are about): no construct of the fragment lets a callee's left-over state influence a later
evaluation. -/
theorem eval_state_values (m : Mode) (a : Arr) (hw : wfArr m a = true)
    (e : Expr) (t : Ty) (c : SCtx) (ht : ty e = some t) (hc : c.axis = none) :
    (evalS m a e c).1 = eval m a e c.focus :=
  (evalS_spec (fun n hv => by
    obtain ⟨_, rfl, h0, _⟩ := (wf_of_wfArr hw).v_is_doc hv; exact h0) e t c ht hc).1

/-- **eval_leaves_context.**  Evaluating any typed expression of the fragment — path-valued, numeric or
boolean — to exhaustion leaves the caller's context exactly as it was: item, axis, position, size.  No
exception (the namespace axis gives the focus back since fix ca057dd).  `iterator_restores` composed
through `select_with_focus`, the predicate loop, the path operators, the leading `/` and the
`copy(context)` of `|`, comparisons, `and`, `or`, `not`. -/
theorem eval_leaves_context (m : Mode) (a : Arr) (hw : wfArr m a = true)
    (e : Expr) (t : Ty) (c : SCtx) (ht : ty e = some t) (hc : c.axis = none) : (evalS m a e c).2 = c :=
  kept_eq ((evalS_spec (fun n hv => by
    obtain ⟨_, rfl, h0, _⟩ := (wf_of_wfArr hw).v_is_doc hv; exact h0) e t c ht hc).2)

/-- `select_with_focus` of an `XPathAxis` token selects on the context as it is, the base one resets
`context.axis` first; started with `axis = None` the two coincide (this is the only place where the
1.0 `attribute::` axis token and the 2.0 multi-role `attribute` token differ). -/
theorem swf_entry_axis_none (e : Expr) (c : SCtx) (hc : c.axis = none) : swfEntry e c = c := by
  unfold swfEntry; split
  · rfl
  · exact sctx_axis_none hc

/-! ## the second evaluation path: `evaluate`, and the 3.0 / 3.1 `(`…`)` (`EPV/Model/AxesEvaluate.lean`) -/

/-- **select_eq_evaluate.**  For every expression of the fragment and both families of parser classes:
expanding the value returned by `token.evaluate(context)` (a list, a single node for `.` / `..` / an
unwrapped 3.0 parenthesis, or an atomic value) gives exactly the sequence `token.select(context)` yields.
Hence `path_eq_spec` describes the `evaluate` path too. -/
theorem select_eq_evaluate (v3 : Bool) (m : Mode) (a : Arr) (e : Expr) (f : Focus) :
    ofPy (evaluate v3 m a e f) = eval m a e f := ofPy_evaluate v3 e f

/-- **paren30_select_eq.**  The parenthesised expression of the 3.0 / 3.1 parsers has no `select` of its
own: the generic `select` expands its `evaluate`, which unwraps a one-item list of the operand's
`evaluate`.  It yields exactly what the 1.0 / 2.0 pass-through yields — so all four parser versions are
covered by `eval`, and with `path_eq_spec` by the specification. -/
theorem paren30_select_eq (m : Mode) (a : Arr) (hw : wfArr m a = true) (e : Expr) (t : Ty) (f : Focus)
    (ht : ty e = some t) (hf : f.item < a.length) :
    selectParen30 m a e f = eval m a (.paren e) f ∧ selectParen30 m a e f = sem m a (.paren e) f := by
  have h := selectParen30_eq (m := m) (a := a) e f
  exact ⟨h, by rw [h]; exact eval_eq_sem_aux (wf_of_wfArr hw) (.paren e) t f (by simpa [ty] using ht) hf⟩

/-- **bool_operands_from_same_focus.**  The value of `l and r` / `l or r` is a function of the values
of the two operands *at the focus of the operator* (the predicate's context node, position, size):
no operand sees a context moved by the other one.  State level: each operand starts from a fresh
`copy(context)` (`operandStart`), i.e. from the operator's context item with `axis = None`, no matter
where the previous operand's generator was abandoned by `boolean_value`. -/
theorem bool_operands_from_same_focus (m : Mode) (a : Arr) (l r : Expr) (f : Focus) :
    eval m a (.or l r) f = orVal (eval m a l f) (eval m a r f) ∧
    eval m a (.and l r) f = andVal (eval m a l f) (eval m a r f) ∧
    ∀ (c left : Ctx), operandStart c left = ⟨c.item, none⟩ :=
  ⟨eval_or l r f, eval_and l r f, fun _ _ => rfl⟩

/-! ## kernel-checked examples (tests on literals) -/

/-- `<a><b k="1"><c/></b><d/></a>` as an Element root with `fragment=True`
(0 a, 1 ns xml, 2 b, 3 ns xml, 4 @k, 5 c, 6 ns xml, 7 d, 8 ns xml) -/
def w1 : Arr :=
  [⟨.elem, "", "a", none, 8⟩, ⟨.ns, "", "xml", some 0, 0⟩,
   ⟨.elem, "", "b", some 0, 4⟩, ⟨.ns, "", "xml", some 2, 0⟩, ⟨.attr, "", "k", some 2, 0⟩,
   ⟨.elem, "", "c", some 2, 1⟩, ⟨.ns, "", "xml", some 5, 0⟩,
   ⟨.elem, "", "d", some 0, 1⟩, ⟨.ns, "", "xml", some 7, 0⟩]

/-- the same tree as an Element root in the default form (record 0 = dummy document) -/
def w2 : Arr :=
  [⟨.doc, "", "", none, 0⟩,
   ⟨.elem, "", "a", none, 8⟩, ⟨.ns, "", "xml", some 1, 0⟩,
   ⟨.elem, "", "b", some 1, 4⟩, ⟨.ns, "", "xml", some 3, 0⟩, ⟨.attr, "", "k", some 3, 0⟩,
   ⟨.elem, "", "c", some 3, 1⟩, ⟨.ns, "", "xml", some 6, 0⟩,
   ⟨.elem, "", "d", some 1, 1⟩, ⟨.ns, "", "xml", some 8, 0⟩]

/-- the three former findings, now equal to the specification (F01b: `//@k/following::*` = `c, d`;
F01c: `//@k/@k` = nothing; F01i: `/child::a` = `/a` = the root element; the pinned helpers still behave
as the suite demands) -/
theorem former_findings_now_agree :
    wfArr .frag w1 = true ∧ wfArr .dummy w2 = true ∧
    eval .frag w1 (.slash (.droot (.step .attribute (.name "" "k") true)) (.step .following .any false)) ⟨0, 1, 1⟩
      = .nodes [5, 7] ∧ iterFollowings .frag w1 4 = [] ∧
    eval .frag w1 (.slash (.droot (.step .attribute (.name "" "k") true)) (.step .attribute (.name "" "k") true)) ⟨0, 1, 1⟩
      = .nodes [] ∧ iterAttributes w1 4 = [4] ∧
    eval .dummy w2 (.root (.step .child (.name "" "a") false)) ⟨1, 1, 1⟩ = .nodes [1] ∧
    eval .dummy w2 (.root (.step .child (.name "" "a") true)) ⟨1, 1, 1⟩ = .nodes [1] := by decide +kernel

/-- test (`w1`, context node `b` = 2, `not(c) or c`): `not(c)` stops the child iterator at its first yield;
since fix 8377c57 its `finally:` clause writes the saved status back, so even a shared context would be left
where the second operand expects it (before that fix it stayed on node `c` with `axis = 'child'`) -/
example :
    closeAfter 1 (prog .frag w1 .child (copyCtx ⟨2, none⟩)) (copyCtx ⟨2, none⟩) = some ⟨2, none⟩ ∧
    operandStart ⟨2, none⟩ ⟨5, some .child⟩ = ⟨2, none⟩ ∧
    iterAxis .frag w1 .child 2 = [5] := by decide +kernel

/-- test: `namespace::*` from `b` (index 2 of `w1`) gives the focus back -/
example :
    (evalS .frag w1 (.step .namespace .any false) ⟨2, none, 1, 1⟩) = (.nodes [3], ⟨2, none, 1, 1⟩) := by
  decide +kernel

/-- test: `(.)`, `(..)` and `(//c)` through the 3.0 evaluate path on `w1` -/
example :
    evaluate true .frag w1 (.paren .ctxItem) ⟨5, 1, 1⟩ = .node 5 ∧
    evaluate true .frag w1 (.paren (.paren (.droot (.step .child (.name "" "c") true)))) ⟨0, 1, 1⟩ = .node 5 ∧
    evaluate false .frag w1 (.paren (.droot (.step .child (.name "" "c") true))) ⟨0, 1, 1⟩ = .seq [5] ∧
    selectParen30 .frag w1 (.droot (.step .child .any true)) ⟨0, 1, 1⟩ = .nodes [2, 5, 7] := by decide +kernel

/-- test: `iter_parent` from `c` (index 5 of `w1`), closed after its only yield or exhausted, leaves the
context where it was; so does the namespace axis from `b` -/
example :
    closeAfter 1 (prog .frag w1 .parent ⟨5, none⟩) ⟨5, none⟩ = some ⟨5, none⟩ ∧
    (exec (prog .frag w1 .parent ⟨5, none⟩) ⟨5, none⟩).2 = ⟨5, none⟩ ∧
    (exec (prog .frag w1 .parent ⟨5, none⟩) ⟨5, none⟩).1 = [(2, ⟨2, some .parent⟩)] ∧
    closeAfter 1 (prog .frag w1 .namespace ⟨2, none⟩) ⟨2, none⟩ = some ⟨2, none⟩ ∧
    (exec (prog .frag w1 .namespace ⟨2, none⟩) ⟨2, none⟩).2 = ⟨2, none⟩ := by decide +kernel

/-- The hypotheses of `path_eq_spec` hold on a non-trivial state (test, on literals):
`//*[not(c)]/preceding::*[1]/..` and `(//c/ancestor::*)[last()]/@k` hmm — a reverse axis with a
numeric predicate after a multi-node step, evaluated on `w1`. -/
example :
    wfArr .frag w1 = true ∧
    ty (.slash (.slash (.droot (.pred (.step .child .any true) (.not (.step .child (.name "" "c") true))))
        (.pred (.step .preceding .any false) (.num 1))) .parentAbbr) = some .path ∧
    eval .frag w1 (.slash (.slash (.droot (.pred (.step .child .any true) (.not (.step .child (.name "" "c") true))))
        (.pred (.step .preceding .any false) (.num 1))) .parentAbbr) ⟨0, 1, 1⟩ = .nodes [2] := by
  decide +kernel

/-- test: the formerly unordered `//x/y` shape — `//b/following-sibling::*/..//*` on `w1` — and the
hypotheses of the partial axis theorems are satisfiable. -/
example :
    isAN w1 5 = false ∧ iterAxis .frag w1 .following 5 = [7] ∧
    kd w1 2 ≠ .attr ∧ iterAxis .frag w1 .attribute 2 = [4] ∧
    iterAxis .frag w1 .preceding 7 = [2, 5] := by decide +kernel

end EPV.C01

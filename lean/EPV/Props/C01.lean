import EPV.Spec.XPath1Paths
namespace EPV.C01
open EPV.XP

/-- stub while the pipeline is brought up -/
theorem self_axis (m : Mode) (a : Arr) (n : Nat) : iterAxis m a .self n = [n] := rfl

end EPV.C01

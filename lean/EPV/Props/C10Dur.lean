/-
C10 — durations (xs:duration, xs:yearMonthDuration, xs:dayTimeDuration): the pattern of the implementation
matches exactly the XSD lexical space, and the constructor computes the XSD value (months, seconds).
Model: `Lex.durParse`, `Lex.durCtor` (EPV/Model/Lexical.lean); spec: `XSD.durationRender`, `XSD.durationWF`,
`XSD.DurationLex`, `XSD.durationValue` (EPV/Spec/XSDLexical.lean).
-/
import EPV.Lemmas.LexicalDur
namespace EPV.C10
open EPV EPV.LexLemmas

/-- **ctor_iff_lexical (durations), pattern level** — for every string `s` and capture `p`: the duration
pattern matches `s` with the captured fragments `p` iff `p` is a well-formed choice of fragments (digit
strings, at least one fragment, 'T' exactly when a time fragment follows) whose rendering
`-?P nY nM nD T nH nM n(.n)?S` is `s` (XSD 1.1 Part 2 §3.3.6.2). -/
theorem dur_pattern_iff_lexical (s : List Char) (p : Lex.DurParts) :
    Lex.durParse s = some p ↔
      XSD.durationWF p.date p.time p.sec = true ∧ XSD.durationRender p.neg p.date p.time p.sec = s :=
  durParse_iff s p

/-- hence the pattern accepts exactly the lexical space of xs:duration -/
theorem dur_pattern_accepts_iff (s : List Char) : (Lex.durParse s).isSome = true ↔ XSD.DurationLex s := by
  constructor
  · intro h
    cases hp : Lex.durParse s with
    | none => rw [hp] at h; cases h
    | some p =>
      obtain ⟨hwf, hr⟩ := (durParse_iff s p).mp hp
      exact ⟨p.neg, p.date, p.time, p.sec, hwf, hr⟩
  · rintro ⟨neg, date, time, sec, hwf, hr⟩
    have := (durParse_iff s ⟨neg, date, time, sec⟩).mpr ⟨hwf, hr⟩
    rw [this]; rfl

/-- **ctor_iff_lexical (xs:duration)**: `Duration.fromstring(s)` raises ValueError exactly when the string,
trimmed of XML white space, is outside the lexical space (it may still raise OverflowError → FODT0002 beyond
2^31 months / 2^63 seconds). -/
theorem dur_ctor_value_error_iff (s : List Char) :
    Lex.durCtor .duration s = .error .value ↔ ¬ XSD.DurationLex (Lex.pyStrip s) := by
  rw [← dur_pattern_accepts_iff]
  unfold Lex.durCtor
  cases hp : Lex.durParse (Lex.pyStrip s) with
  | none => simp
  | some p =>
    simp only [Option.isSome_some, not_true_eq_false, iff_false]
    unfold Lex.durCheck
    have h1 : (Lex.DurKind.duration == Lex.DurKind.dayTime) = false := by decide
    have h2 : (Lex.DurKind.duration == Lex.DurKind.yearMonth) = false := by decide
    simp only [h1, h2, Bool.false_and, Bool.false_eq_true, ↓reduceIte]
    repeat' split
    all_goals (intro h; cases h)

theorem optNat_eq (v : Option (List Char)) : Lex.optNat v = XSD.optVal v := by
  cases v <;> simp [Lex.optNat, XSD.optVal, Lex.digitsVal, digitSeqVal_eq]

/-- **value of a duration**: the months and the exact decimal seconds computed by `Duration.fromstring`
from the captured fragments are the XSD `durationMap` of the literal (months = 12·Y + M, seconds =
86400·D + 3600·H + 60·M + S, both negated for '-'). -/
theorem dur_value_eq_spec (p : Lex.DurParts) :
    XSD.durationValue p.neg p.date p.time p.sec =
      (if p.neg then (-(Lex.durMonths p : Int), ⟨-(Lex.durSecNum p : Int), Lex.durScale p⟩)
       else ((Lex.durMonths p : Int), ⟨(Lex.durSecNum p : Int), Lex.durScale p⟩)) := by
  unfold XSD.durationValue Lex.durMonths Lex.durSecNum Lex.durScale
  simp only [optNat_eq, Lex.digitsVal, ← digitSeqVal_eq]
  have hm : 12 * XSD.optVal (p.date.getD 0 none) + XSD.optVal (p.date.getD 1 none) =
      XSD.optVal (p.date.getD 1 none) + 12 * XSD.optVal (p.date.getD 0 none) := by omega
  have hw : 86400 * XSD.optVal (p.date.getD 2 none) + 3600 * XSD.optVal (p.time.getD 0 none) +
      60 * XSD.optVal (p.time.getD 1 none) =
      60 * XSD.optVal (p.time.getD 1 none) + 3600 * XSD.optVal (p.time.getD 0 none) +
      86400 * XSD.optVal (p.date.getD 2 none) := by omega
  rw [hm, hw]
  cases p.sec with
  | none => rfl
  | some q =>
    obtain ⟨a, fo⟩ := q
    cases fo <;> rfl

/-- what the constructor returns on success: the XSD months, and the seconds quantised to microseconds
(ROUND_HALF_EVEN) — exact when the literal has at most six fraction digits (`quantize_exact`). -/
theorem dur_ctor_ok (s : List Char) (m us : Int) (h : Lex.durCtor .duration s = .ok (m, us)) :
    ∃ p, Lex.durParse (Lex.pyStrip s) = some p ∧
      m = (if p.neg then -(Lex.durMonths p : Int) else Lex.durMonths p) ∧
      us = (if p.neg then -(Lex.quantizeMicro (Lex.durSecNum p) (Lex.durScale p) : Int)
            else Lex.quantizeMicro (Lex.durSecNum p) (Lex.durScale p)) := by
  unfold Lex.durCtor at h
  cases hp : Lex.durParse (Lex.pyStrip s) with
  | none => rw [hp] at h; cases h
  | some p =>
    rw [hp] at h
    refine ⟨p, rfl, ?_⟩
    unfold Lex.durCheck at h
    have h1 : (Lex.DurKind.duration == Lex.DurKind.dayTime) = false := by decide
    have h2 : (Lex.DurKind.duration == Lex.DurKind.yearMonth) = false := by decide
    simp only [h1, h2, Bool.false_and, Bool.false_eq_true, ↓reduceIte] at h
    split at h
    · cases h
    · split at h
      · cases h
      · cases hn : p.neg <;> rw [hn] at h <;>
          simp only [Bool.false_eq_true, ↓reduceIte, Except.ok.injEq, Prod.mk.injEq] at h <;>
          simp [h.1.symm, h.2.symm]

/-- the derived types accept only their own fragments (after fix-c10-2): a successful
xs:yearMonthDuration has no day/time fragment, a successful xs:dayTimeDuration no year/month fragment -/
theorem dur_derived_fragments (s : List Char) (v : Int × Int) :
    (Lex.durCtor .yearMonth s = .ok v → ∃ p, Lex.durParse (Lex.pyStrip s) = some p ∧ Lex.hasDT p = false) ∧
    (Lex.durCtor .dayTime s = .ok v → ∃ p, Lex.durParse (Lex.pyStrip s) = some p ∧ Lex.hasYM p = false) := by
  unfold Lex.durCtor
  cases hp : Lex.durParse (Lex.pyStrip s) with
  | none => exact ⟨fun h => by simp at h, fun h => by simp at h⟩
  | some p =>
    simp only
    unfold Lex.durCheck
    constructor
    · intro h
      refine ⟨p, rfl, ?_⟩
      cases hd : Lex.hasDT p with
      | false => rfl
      | true =>
        have h1 : (Lex.DurKind.yearMonth == Lex.DurKind.dayTime) = false := by decide
        simp [h1, hd] at h
    · intro h
      refine ⟨p, rfl, ?_⟩
      cases hd : Lex.hasYM p with
      | false => rfl
      | true => simp [hd] at h

/-- quantisation is exact for at most six fraction digits -/
theorem quantize_exact (num scale : Nat) (h : scale ≤ 6) :
    Lex.quantizeMicro num scale * 10 ^ scale = num * 10 ^ 6 := by
  unfold Lex.quantizeMicro
  rw [if_pos h, Nat.mul_assoc, ← Nat.pow_add]
  congr 2; omega

/-- tests on literals: fragments, signs, rounding to microseconds (half to even), the derived types
(fix-c10-2: zero-valued foreign fragments are rejected), white space -/
example :
    Lex.durCtor .duration "-P1Y2M3DT4H5M6.5S".toList = .ok (-14, -273906500000) ∧
    Lex.durCtor .duration "PT0.0000005S".toList = .ok (0, 0) ∧
    Lex.durCtor .duration "PT0.0000015S".toList = .ok (0, 2) ∧
    Lex.durCtor .duration " PT1M\n".toList = .ok (0, 60000000) ∧
    Lex.durCtor .duration "P".toList = .error .value ∧ Lex.durCtor .duration "PT".toList = .error .value ∧
    Lex.durCtor .duration "P1YT".toList = .error .value ∧ Lex.durCtor .duration "P1M1Y".toList = .error .value ∧
    Lex.durCtor .duration "PT1.S".toList = .error .value ∧ Lex.durCtor .duration "P1.5D".toList = .error .value ∧
    Lex.durCtor .yearMonth "P13M0D".toList = .error .value ∧ Lex.durCtor .yearMonth "P13M".toList = .ok (13, 0) ∧
    Lex.durCtor .dayTime "P0Y400D".toList = .error .value ∧
    Lex.durCtor .duration "P2147483649M".toList = .error .overflow := by decide

end EPV.C10

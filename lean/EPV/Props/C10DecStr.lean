/-
C10 (phase 5): decimal → string.  The canonical text the code derives from a Decimal (`Lex.decCanon`:
`format(d,'f')`, `rstrip('0').rstrip('.')`, `-0` → `0`) IS the canonical representation the specification computes
from the numeric value (`XSD.decimalCanon`: least scale, digits of the numerator, zero padding, point, sign —
XSD 1.1 Part 2 §3.3.3.2 decimalCanonicalMap, F&O 3.1 §19.1.2 casting to xs:string).  This closes the decimal → string
exclusion of `cast_eq_spec_partial`.
-/
import EPV.Props.C10
import EPV.Lemmas.LexicalDecCanon
namespace EPV.C10
open EPV EPV.LexLemmas

/-- **decimal → string (every Decimal)**: for every sign and every digit strings before and after the point (leading
and trailing zeros, empty integer part, any length), `string_value(d)` equals the XSD canonical representation of the
*number* `±int(ip ++ fp) / 10^len(fp)`. -/
theorem dec_canon_eq_spec (d : Lex.PyDec) (h : WFDec d) :
    Lex.decCanon d = XSD.decimalCanon (pyDecVal d) := decCanon_eq_decimalCanon d h

/-- test: the hypothesis holds for a Decimal with leading and trailing zeros and a negative zero -/
example : WFDec ⟨true, "007".toList, "500".toList⟩ ∧ WFDec ⟨true, [], "00".toList⟩ ∧
    XSD.decimalCanon (pyDecVal ⟨true, "007".toList, "500".toList⟩) = "-7.5".toList ∧
    XSD.decimalCanon (pyDecVal ⟨true, [], "00".toList⟩) = "0".toList ∧
    XSD.decimalCanon (pyDecVal ⟨false, [], "0050".toList⟩) = "0.005".toList := by
  refine ⟨⟨by decide, by decide, by decide⟩, ⟨by decide, by decide, by decide⟩, by decide, by decide, by decide⟩

/-- **… for the Decimal the constructor builds from any string**: if `xs:decimal(s)` succeeds with `d`, then
`string(d)` is the canonical representation of the XSD value of the literal `wsCollapse s` — the statement the
driver prints both sides of (`op=canon`, `op=cast`). -/
theorem dec_string_of_ctor_eq_spec (s : List Char) (d : Lex.PyDec) (h : Lex.decCtor s = .ok d) :
    Lex.decCanon d = XSD.decimalCanon (XSD.decimalVal (XSD.wsCollapse s)) := by
  have hv := dec_ctor_value s d h
  rw [collapse_eq_wsCollapse_all s] at hv
  rw [← hv]
  rw [dec_ctor_iff_lexical] at h
  split at h
  · rename_i hl
    cases h
    exact decCanon_eq_decimalCanon _ (decOfLex_wf _ hl)
  · cases h

/-- test: a literal with white space, '+', leading and trailing zeros is accepted -/
example : Lex.decCtor " +007.500\n".toList = .ok ⟨false, "007".toList, "500".toList⟩ := by decide

/-- **… and for a Decimal given by `as_tuple()`** (sign, coefficient `c`, exponent `-k` — values that did not come from
a literal: variables, results of arithmetic): `format(d,'f')` (pad the coefficient with zeros to `k + 1` digits, point
before the last `k`), then the strips, is the canonical representation of `±c / 10^k`, for all `c`, `k`. -/
theorem dec_tuple_string_eq_spec (neg : Bool) (c k : Nat) :
    Lex.decCanon (Lex.pyDecOfTuple neg c k) = XSD.decimalCanon ⟨if neg then -(c : Int) else c, k⟩ := by
  obtain ⟨hw, hv⟩ := pyDecOfTuple_wf_val neg c k
  rw [← hv]
  exact decCanon_eq_decimalCanon _ hw

/-- tests: 1500·10⁻⁵, a negative zero with scale, an integer coefficient with scale 0 -/
example : Lex.decCanon (Lex.pyDecOfTuple false 1500 5) = "0.015".toList ∧
    Lex.decCanon (Lex.pyDecOfTuple true 0 3) = "0".toList ∧
    Lex.decCanon (Lex.pyDecOfTuple true 1200 0) = "-1200".toList ∧
    Lex.decCanon (Lex.pyDecOfTuple true 12345 2) = "-123.45".toList := by decide

/-- the scope of `cast_eq_spec`: everything but double → string (stated separately: `double_string`); a Decimal
operand of a cast to a string type is a Decimal made of digits (what every constructor produces: `decOfLex_wf`) -/
def castInScopeDec (a : Lex.Atom) (t : Lex.Target) : Prop :=
  match a, t with
  | .dbl _ _, .string => False
  | .dbl _ _, .untypedAtomic => False
  | .dec d, .string => WFDec d
  | .dec d, .untypedAtomic => WFDec d
  | _, _ => True

/-- PARTIAL (only double → string is left out, see `double_string`): **the casts of the corner follow F&O 3.1 §19** —
`cast_eq_spec_partial` extended by decimal → xs:string / xs:untypedAtomic: the result is the canonical
representation of the value (`XSD.castToString`). -/
theorem cast_eq_spec_dec_partial (ver : Lex.Ver) (a : Lex.Atom) (t : Lex.Target) (h : castInScopeDec a t) :
    toSRes (Lex.cast ver a t) = XSD.castSpec (toSAtom a) (toSType ver t) := by
  by_cases hs : castInScope a t
  · exact cast_eq_spec_partial ver a t hs
  · cases a with
    | dec d =>
      cases t with
      | string =>
        have hw : WFDec d := h
        simp only [Lex.cast, toSRes, toSVal, toSType, XSD.castSpec, toSAtom, Lex.stringValue, XSD.castToString,
          decCanon_eq_decimalCanon d hw]
      | untypedAtomic =>
        have hw : WFDec d := h
        simp only [Lex.cast, toSRes, toSVal, toSType, XSD.castSpec, toSAtom, Lex.stringValue, XSD.castToString,
          decCanon_eq_decimalCanon d hw]
      | _ => exact absurd trivial hs
    | dbl x r =>
      cases t with
      | string => exact absurd h id
      | untypedAtomic => exact absurd h id
      | _ => exact absurd trivial hs
    | _ => cases t <;> exact absurd trivial hs

/-- test: the new scope contains a decimal → string cast with a non-trivial operand -/
example : castInScopeDec (.dec ⟨true, "0".toList, "50".toList⟩) .string ∧
    Lex.cast .v11 (.dec ⟨true, "0".toList, "50".toList⟩) .string = .ok (.str "-0.5".toList) := by
  refine ⟨⟨by decide, by decide, by decide⟩, by decide⟩

end EPV.C10

/-
C19 — property theorems: process-global state (locale, lock, environment, decimal context),
the environment-variable gate, the entity gate, and N threads.
Only statements a reader needs; helper lemmas are in EPV/Lemmas/Globals*.lean.

Reading guide
* `World`        : `avail n` — does the C library's `setlocale` accept the name `n` (ANY function:
                   every installed-locale configuration, including "nothing but C/POSIX");
                   `norm r` — the name Python's `locale.setlocale` derives from a request
* `State`        : `lock` (`_locale_collate_lock` held?), `lc` (`LC_COLLATE`), `env` (`os.environ`),
                   `dec` (`decimal.getcontext()`), `log` (ghost)
* `Ev`           : one `with CollationManager(..): body` evaluation, its body possibly containing
                   further such evaluations and possibly raising
* `evalEv`       : transcription of `__init__`/`__enter__`/body/`__exit__` (fixed tree)
* `Clean w σ`    : lock free and the current locale is one `setlocale` accepts (true of any
                   process state the C library itself produced)
-/
import EPV.Lemmas.Globals
import EPV.Lemmas.GlobalsThreads
namespace EPV.C19
open EPV.Globals

/-- the lock is free and the current `LC_COLLATE` is a name `setlocale` accepts -/
def Clean (w : World) (σ : State) : Prop := σ.lock = false ∧ w.avail σ.lc = true

/-! ## One evaluation, one thread -/

/-- **Headline.**  Every flat collation-using evaluation — any manager (`__init__` result: any
collation URI, supported or not, malformed, with or without fallback, or the empty sequence),
any locale availability, body returning or raising — returns to its caller (never blocks) with
the lock free and `LC_COLLATE`, `os.environ`, decimal context exactly as it found them. -/
theorem eval_restores (w : World) (σ : State) (mk : Except Err Mgr) (raises : Option Nat)
    (hc : Clean w σ) :
    ∃ out σ', evalEv w (.call mk [] raises) σ = .ok out σ' ∧
      σ'.lock = false ∧ σ'.lc = σ.lc ∧ σ'.env = σ.env ∧ σ'.dec = σ.dec := by
  have hn : nestFree false (.call mk [] raises) = true := by simp [nestFree, nestFreeL]
  obtain ⟨out, σ', h, hl, _, h2, h3, h4⟩ := evalEv_nestFree w _ σ hn hc.1 hc.2
  exact ⟨out, σ', h, hl, h2, h3, h4⟩

/-- The same for evaluation *trees*: bodies that themselves perform collation-using evaluations
(`contains-token(distinct-values(..), ..)`, `index-of`, `sort`, `deep-equal` evaluate operands
inside the `with` block), to any depth.  PARTIAL (known finding F19b): the hypothesis
`nestFree false ev` excludes trees in which a locale-switching scope is entered while another
one is open; the full statement (no hypothesis) is false — `nested_locale_scope_blocks`. -/
theorem eval_restores_nested_partial (w : World) (σ : State) (ev : Ev) (hc : Clean w σ)
    (hn : nestFree false ev = true) :
    ∃ out σ', evalEv w ev σ = .ok out σ' ∧
      σ'.lock = false ∧ σ'.lc = σ.lc ∧ σ'.env = σ.env ∧ σ'.dec = σ.dec := by
  obtain ⟨out, σ', h, hl, _, h2, h3, h4⟩ := evalEv_nestFree w ev σ hn hc.1 hc.2
  exact ⟨out, σ', h, hl, h2, h3, h4⟩

/-- F19b, general form: when a locale-switching scope has been opened successfully, the first
evaluation of its body that also switches the locale blocks forever (the lock is not
reentrant), with the lock held and `LC_COLLATE` changed. -/
theorem nested_locale_scope_blocks (w : World) (σ : State) (m m' : Mgr) (req : Req)
    (inner' rest : List Ev) (r r' : Option Nat)
    (hl : σ.lock = false) (hm : m.lc = some req) (ha : w.avail (w.norm req) = true)
    (hm' : m'.lc.isSome = true) :
    ∃ τ, evalEv w (.call (.ok m) (.call (.ok m') inner' r' :: rest) r) σ = .stuck τ ∧
      τ.lock = true ∧ τ.lc = w.norm req := by
  rcases enter_free w m σ req hm hl with ⟨σ1, he, h1, _, h3, _⟩ | ⟨σ1, _, _, hna, _⟩
  · refine ⟨σ1, ?_, h1, ?_⟩
    · simp [evalEv, evalEvs, he, enter_held w m' σ1 hm' h1]
    · rcases h3 with h | ⟨_, h, _⟩
      · exact h
      · rw [ha] at h; cases h
  · rw [ha] at hna; cases hna

/-- F19b, kernel-checked witness: `contains-token(distinct-values(.., 'de_DE.UTF-8'), ..,
'de_DE.UTF-8')` in a process where that locale is installed never returns. -/
theorem nested_locale_scope_blocks_witness :
    let w : World := ⟨fun n => n == "C" || n == "de_DE.UTF-8", fun
      | .name s => s
      | .pair l => l ++ ".UTF-8"⟩
    let m : Mgr := ⟨some (.name "de_DE.UTF-8"), false⟩
    let σ : State := ⟨false, "C", [], "", []⟩
    (∃ τ, evalEv w (.call (.ok m) [.call (.ok m) [] none] none) σ = .stuck τ ∧ τ.lock = true ∧
      τ.lc = "de_DE.UTF-8") ∧
    nestFree false (.call (.ok m) [.call (.ok m) [] none] none) = false := by
  refine ⟨⟨_, rfl, rfl, rfl⟩, by decide⟩

/-! ## Histories -/

/-- `runHist` observations all say: returned, lock free, locale as at the start -/
def AllRestored (init : State) (obs : List Obs) : Prop :=
  ∀ o ∈ obs, o.out.isSome = true ∧ o.lock = false ∧ o.lc = init.lc

/-- **All histories.**  For every availability function and every history of evaluations
without nested locale scopes (in particular every history of flat collation calls), after
*every* evaluation of the history the lock is free and `LC_COLLATE` is the initial one, every
evaluation returns, and the final state has environment and decimal context untouched.
(Induction over the history.) -/
theorem history_restores (w : World) (es : List Ev) (σ : State) (hc : Clean w σ)
    (hn : ∀ e ∈ es, nestFree false e = true) :
    (runHist w es σ).1.length = es.length ∧ AllRestored σ (runHist w es σ).1 ∧
    ∃ σ', (runHist w es σ).2 = some σ' ∧ σ'.lock = false ∧ σ'.lc = σ.lc ∧ σ'.env = σ.env ∧
      σ'.dec = σ.dec := by
  induction es generalizing σ with
  | nil => exact ⟨rfl, fun o ho => by simp [runHist] at ho, σ, rfl, hc.1, rfl, rfl, rfl⟩
  | cons e es ih =>
    obtain ⟨out, σ1, h1, hl1, _, hlc1, henv1, hdec1⟩ :=
      evalEv_nestFree w e σ (hn e (by simp)) hc.1 hc.2
    have hc1 : Clean w σ1 := ⟨hl1, by rw [hlc1]; exact hc.2⟩
    obtain ⟨ihlen, ihall, σ', hfin, h3, h4, h5, h6⟩ :=
      ih σ1 hc1 (fun e' he' => hn e' (by simp [he']))
    refine ⟨by simp [runHist, h1, ihlen], ?_, σ', by simp [runHist, h1, hfin], h3,
      by rw [h4, hlc1], by rw [h5, henv1], by rw [h6, hdec1]⟩
    intro o ho
    simp only [runHist, h1, List.mem_cons] at ho
    rcases ho with rfl | ho
    · exact ⟨rfl, hl1, hlc1⟩
    · have := ihall o ho
      exact ⟨this.1, this.2.1, by rw [this.2.2, hlc1]⟩

/-- flat histories (DESIGN.md's notion) satisfy the hypothesis of `history_restores` -/
theorem flat_nestFree (e : Ev) (h : e.flat = true) : nestFree false e = true := by
  cases e with
  | call mk inner raises =>
    cases inner with
    | nil => simp [nestFree, nestFreeL]
    | cons _ _ => simp [Ev.flat] at h

/-- **No sequential deadlock.**  After any history without nested locale scopes, the next
`__enter__` — of any manager — does not block. -/
theorem no_deadlock_sequential (w : World) (es : List Ev) (σ : State) (hc : Clean w σ)
    (hn : ∀ e ∈ es, nestFree false e = true) (m : Mgr) :
    ∃ σ', (runHist w es σ).2 = some σ' ∧ ∀ τ, enter w m σ' ≠ .stuck τ := by
  obtain ⟨_, _, σ', hfin, hl, _⟩ := history_restores w es σ hc hn
  refine ⟨σ', hfin, fun τ h => ?_⟩
  cases hm : m.lc with
  | none => rw [enter_noLocale w m σ' hm] at h; cases h
  | some req =>
    rcases enter_free w m σ' req hm hl with ⟨_, he, _⟩ | ⟨_, he, _⟩ <;> rw [he] at h <;> cases h

/-- later evaluations give the same answers: an evaluation's outcome and final state do not
depend on the history that ran before it (up to the ghost log) -/
theorem history_independent (w : World) (es : List Ev) (σ : State) (hc : Clean w σ)
    (hn : ∀ e ∈ es, nestFree false e = true) :
    ∃ σ', (runHist w es σ).2 = some σ' ∧ σ'.same σ := by
  obtain ⟨_, _, σ', hfin, hl, h2, h3, h4⟩ := history_restores w es σ hc hn
  exact ⟨σ', hfin, by rw [hl, hc.1], h2, h3, h4⟩

/-- the hypotheses are satisfiable on a non-trivial history (test on literals): unsupported
locale without fallback, unsupported with available fallback, supported, body raising -/
example :
    let w : World := ⟨fun n => n == "C" || n == "en_US.UTF-8" || n == "de_DE.UTF-8", fun
      | .name s => s
      | .pair l => l ++ ".UTF-8"⟩
    let σ : State := ⟨false, "C", [("HOME", "/root")], "prec=28", []⟩
    let es : List Ev := [.call (.ok ⟨some (.pair "xx"), false⟩) [] none,
                         .call (.ok ⟨some (.pair "xx"), true⟩) [] (some 1),
                         .call (.ok ⟨some (.name "de_DE.UTF-8"), false⟩)
                           [.call (.ok ⟨none, false⟩) [] none] none,
                         .call (.error .XPTY0004) [] none]
    Clean w σ ∧ (∀ e ∈ es, nestFree false e = true) ∧
    (runHist w es σ).1 = [⟨some (.err .FOCH0002), false, "C"⟩, ⟨some (.err (.body 1)), false, "C"⟩,
                          ⟨some .ok, false, "C"⟩, ⟨some (.err .XPTY0004), false, "C"⟩] := by
  refine ⟨⟨rfl, rfl⟩, by decide +kernel, by decide +kernel⟩

/-! ## Frame: environment and decimal context -/

/-- whatever an evaluation tree does (even one that blocks), it never writes `os.environ` or
the decimal context: every state it passes on has them unchanged -/
theorem eval_frame (w : World) (ev : Ev) (σ : State) :
    match evalEv w ev σ with
    | .ok _ σ' => σ'.env = σ.env ∧ σ'.dec = σ.dec
    | .err _ σ' => σ'.env = σ.env ∧ σ'.dec = σ.dec
    | .stuck σ' => σ'.env = σ.env ∧ σ'.dec = σ.dec := by
  have := evalEv_frame w ev σ
  cases h : evalEv w ev σ <;> rw [h] at this <;> exact this

/-! ## N threads, all interleavings

`Thr.Config.start L progs`: lock free, `LC_COLLATE = L`, one thread per program (a program = a
list of flat evaluations: manager, number of `strcoll` calls of the body, does the body raise).
`Thr.Reach w c c'`: `c'` is reached from `c` by any finite number of steps, each taken by an
arbitrary thread (`Thr.Step`) — every interleaving at the granularity of one lock / `setlocale` /
`strcoll` operation per step.  Any number of threads, any programs, any availability. -/

open Thr in
/-- **Mutual exclusion.**  In every reachable configuration at most one thread is between
`acquire` and `release`, and the lock bit says exactly whether one is. -/
theorem mutual_exclusion (w : World) (L : Loc) (hL : w.avail L = true) (progs : List (List Job))
    (c : Config) (hr : Reach w (Config.start L progs) c) :
    holders c.ts ≤ 1 ∧ (c.sh.lock = true ↔ holders c.ts = 1) := by
  have hi := inv_reach w L hL _ _ (inv_start L progs) hr
  have := hi.count
  cases hl : c.sh.lock <;> simp [hl] at this ⊢ <;> omega

open Thr in
/-- mutual exclusion, index form: two threads inside the critical section are the same thread -/
theorem mutual_exclusion_pairwise (w : World) (L : Loc) (hL : w.avail L = true)
    (progs : List (List Job)) (c : Config) (hr : Reach w (Config.start L progs) c)
    (i j : Nat) (hi : i < c.ts.length) (hj : j < c.ts.length)
    (h1 : c.ts[i].pc.holds = true) (h2 : c.ts[j].pc.holds = true) : i = j :=
  countP_le_one_index (fun t : Thread => t.pc.holds) c.ts
    (mutual_exclusion w L hL progs c hr).1 i j hi hj h1 h2

open Thr in
/-- **Each thread sees its locale.**  Every `strcoll`/`strxfrm` call made by a body inside a
locale scope ran while `LC_COLLATE` was the locale that this thread's own `__enter__` installed
(the requested one, or the fallback) — in every reachable configuration, for every thread. -/
theorem each_thread_sees_its_locale (w : World) (L : Loc) (hL : w.avail L = true)
    (progs : List (List Job)) (c : Config) (hr : Reach w (Config.start L progs) c) :
    ∀ t ∈ c.ts, ∀ p ∈ t.seen, p.2 = p.1 :=
  (inv_reach w L hL _ _ (inv_start L progs) hr).seen

open Thr in
/-- **All schedules restore.**  Whenever no thread is inside the critical section — in
particular when all threads have finished — the lock is free and `LC_COLLATE` is the initial
locale, whatever the interleaving was. -/
theorem all_schedules_restore (w : World) (L : Loc) (hL : w.avail L = true)
    (progs : List (List Job)) (c : Config) (hr : Reach w (Config.start L progs) c)
    (hq : ∀ t ∈ c.ts, t.pc.holds = false) : c.sh.lock = false ∧ c.sh.lc = L := by
  have hi := inv_reach w L hL _ _ (inv_start L progs) hr
  have h0 : holders c.ts = 0 := List.countP_eq_zero.mpr (by simpa using hq)
  have hl : c.sh.lock = false := by
    have := hi.count
    cases hl : c.sh.lock with
    | false => rfl
    | true => simp [hl, h0] at this
  exact ⟨hl, hi.free hl⟩

open Thr in
/-- finished threads are outside the critical section -/
theorem all_done_restored (w : World) (L : Loc) (hL : w.avail L = true)
    (progs : List (List Job)) (c : Config) (hr : Reach w (Config.start L progs) c)
    (hd : ∀ t ∈ c.ts, t.done = true) : c.sh = ⟨false, L⟩ := by
  have := all_schedules_restore w L hL progs c hr (fun t ht => by
    have := hd t ht
    simp only [Thread.done, Bool.and_eq_true, beq_iff_eq] at this
    simp [this.1, Pc.holds])
  cases hc : c.sh with
  | mk lock lc => simp_all

open Thr in
/-- **No deadlock.**  In every reachable configuration with an unfinished thread some thread
can take a step: a thread blocked in `acquire` always waits for a holder that can move. -/
theorem no_deadlock_threads (w : World) (L : Loc) (hL : w.avail L = true)
    (progs : List (List Job)) (c : Config) (hr : Reach w (Config.start L progs) c)
    (hu : ∃ t ∈ c.ts, t.done = false) : ∃ c', Step w c c' := by
  have hi := inv_reach w L hL _ _ (inv_start L progs) hr
  have pick : ∀ t ∈ c.ts, (∃ r, step w c.sh t = some r) → ∃ c', Step w c c' := by
    intro t ht ⟨⟨s', t'⟩, hstep⟩
    obtain ⟨pre, post, hsplit⟩ := List.append_of_mem ht
    refine ⟨⟨s', pre ++ t' :: post⟩, ?_⟩
    have := Step.mk (w := w) c.sh s' pre post t t' hstep
    rw [← hsplit] at this
    exact this
  cases hl : c.sh.lock with
  | false =>
    obtain ⟨t, ht, hd⟩ := hu
    exact pick t ht (free_enabled w c.sh t hl hd)
  | true =>
    have hc := hi.count
    simp only [hl, ↓reduceIte] at hc
    have : ∃ t ∈ c.ts, t.pc.holds = true := by
      have hpos : 0 < List.countP (·.pc.holds) c.ts := by unfold holders at hc; omega
      obtain ⟨t, ht, hp⟩ := List.countP_pos_iff.mp hpos
      exact ⟨t, ht, hp⟩
    obtain ⟨t, ht, hh⟩ := this
    exact pick t ht (holder_enabled w c.sh t hh)

open Thr in
/-- **Concurrent = sequential.**  In every reachable configuration, under every interleaving,
the outcomes a thread has delivered so far are a prefix of — and, once the thread has finished,
exactly — `prog.map (Job.expected w)`: the outcome of each of its evaluations is a function of
that evaluation and the installed locales alone; what the other threads do, and when, has no
influence.  The threads keep their programs in place (`c.ts.map (·.prog) = progs`). -/
theorem thread_outcomes_schedule_independent (w : World) (L : Loc) (hL : w.avail L = true)
    (progs : List (List Job)) (c : Config) (hr : Reach w (Config.start L progs) c) :
    c.ts.map (·.prog) = progs ∧
    ∀ t ∈ c.ts, (∃ rest, t.outs ++ rest = t.prog.map (Job.expected w)) ∧
      (t.done = true → t.outs = t.prog.map (Job.expected w)) := by
  obtain ⟨ho, hp⟩ := out_start w L progs
  obtain ⟨h1, h2⟩ := out_reach w L hL _ _ (inv_start L progs) ho hr
  refine ⟨by simpa [Progs] using h2.trans hp, fun t ht => ⟨⟨_, (h1 t ht).2⟩, fun hd => ?_⟩⟩
  have := (h1 t ht).2
  simp only [Thread.done, Bool.and_eq_true, beq_iff_eq, List.isEmpty_iff] at hd
  simpa [pending, owesCur, hd.1, hd.2] using this

open Thr in
/-- … and that function is the sequential model: `Job.expected w j` is the outcome `evalEv`
gives for the same evaluation run alone, from any clean state -/
theorem expected_is_sequential_outcome (w : World) (j : Job) (σ : State) (hc : Clean w σ) :
    ∃ σ', evalEv w j.toEv σ = .ok (j.expected w) σ' :=
  evalEv_flat_expected w j σ hc.1 hc.2

open Thr in
/-- **Every schedule is finite**: no execution from a configuration takes more steps than its
`weight` (total work left) — so with `no_deadlock_threads`, every maximal execution ends with
all threads finished, and `all_done_restored` applies to its end. -/
theorem schedules_bounded (w : World) (c c' : Config) (n : Nat) (h : ReachN w c c' n) :
    n ≤ c.weight := by
  have := h.weight; omega

/-- the thread theorems are not vacuous (test on literals): two threads with different locales
and a third whose locale is missing, run under one concrete interleaving to completion -/
example :
    let w : World := ⟨fun n => n == "C" || n == "de_DE.UTF-8" || n == "fr_FR.UTF-8", fun
      | .name s => s
      | .pair l => l ++ ".UTF-8"⟩
    let progs : List (List Thr.Job) :=
      [[⟨⟨some (.name "de_DE.UTF-8"), false⟩, 2, false⟩],
       [⟨⟨some (.name "fr_FR.UTF-8"), false⟩, 1, true⟩],
       [⟨⟨some (.pair "xx"), true⟩, 1, false⟩]]
    let c := Thr.runSched w [0, 1, 0, 2, 1, 0, 0, 1, 0, 0, 2, 0, 0, 0, 1, 1, 1, 1, 1, 1, 1, 2, 2, 2, 2, 2]
      (Thr.Config.start "C" progs)
    c.sh = ⟨false, "C"⟩ ∧ c.ts.map (·.outs) = [[.ok], [.err (.body 0)], [.err .FOCH0002]] ∧
    c.ts.map (·.seen) = [[("de_DE.UTF-8", "de_DE.UTF-8"), ("de_DE.UTF-8", "de_DE.UTF-8")],
                          [("fr_FR.UTF-8", "fr_FR.UTF-8")], []] ∧
    c.ts.all (·.done) = true := by
  decide +kernel

/-! ## The two repaired defects, as theorems about the pinned code (record) -/

/-- F19 (fixed by `fix: release the collation lock and raise FOCH0002 when the fallback locale is
unsupported too`): on the pinned tree, whenever neither the requested locale nor `en_US.UTF-8`
is installed and fallback is on, `__enter__` lets a bare `locale.Error` escape with the lock
held — and then the next locale-switching `__enter__` (pinned or fixed) blocks forever. -/
theorem pinned_F19_lock_left_held (w : World) (rt : Loc → Option Loc) (m m' : Mgr) (σ : State)
    (req : Req) (hl : σ.lock = false) (hm : m.lc = some req) (hfb : m.fallback = true)
    (h1 : w.avail (w.norm req) = false) (h2 : w.avail enUS = false) (hrt : (rt σ.lc).isSome = true)
    (hm' : m'.lc.isSome = true) :
    ∃ σ', Pinned.enter w rt m σ = .err .localeError σ' ∧ σ'.lock = true ∧ σ'.lc = σ.lc ∧
      enter w m' σ' = .stuck σ' := by
  obtain ⟨saved, hs⟩ := Option.isSome_iff_exists.mp hrt
  refine ⟨logFail (logFail { σ with lock := true } (w.norm req)) enUS, ?_, rfl, rfl, ?_⟩
  · simp [Pinned.enter, hm, hl, hs, setloc, h1, h2, hfb, logFail]
  · exact enter_held w m' _ hm' rfl

/-- F19c (fixed by `fix: save and restore LC_COLLATE by its exact name`): on the pinned tree an
initial locale name that `getlocale` cannot parse makes `__enter__` raise `ValueError` with the
lock held (kernel-checked instance: `LC_COLLATE = "mylocale"`). -/
theorem pinned_F19c_witness :
    let w : World := ⟨fun n => n == "mylocale" || n == "de_DE.UTF-8", fun
      | .name s => s
      | .pair l => l ++ ".UTF-8"⟩
    let rt : Loc → Option Loc := fun n => if n == "mylocale" then none else some n
    let σ : State := ⟨false, "mylocale", [], "", []⟩
    (∃ σ', Pinned.enter w rt ⟨some (.name "de_DE.UTF-8"), false⟩ σ = .err .valueError σ' ∧
      σ'.lock = true) ∧
    (∃ out σ', evalEv w (.call (.ok ⟨some (.name "de_DE.UTF-8"), false⟩) [] none) σ = .ok out σ' ∧
      σ'.lock = false ∧ σ'.lc = "mylocale") := by
  exact ⟨⟨_, rfl, rfl⟩, ⟨_, _, rfl, rfl, rfl⟩⟩

end EPV.C19

/-
C19 — property theorems: process-global state (locale, lock, environment, decimal context),
the environment-variable gate, the entity gate, and N threads.
Only statements a reader needs; helper lemmas are in EPV/Lemmas/Globals*.lean.

Reading guide
* `World`        : `avail n` — does the C library's `setlocale` accept the name `n` (ANY function:
                   every installed-locale configuration, including "nothing but C/POSIX");
                   `norm r` — the name Python's `locale.setlocale` derives from a request
* `State`        : `lock` (`_locale_collate_lock` held?), `lc` (`LC_COLLATE`), `env` (`os.environ`),
                   `dec` (`decimal.getcontext()`), `log` (ghost: what reached the C library)
* `Ev`           : an evaluation tree: `call mk body raises` = `with CollationManager(..): body`,
                   the body being any sequence of comparisons (`cmp`) by this manager and further
                   evaluations (nested scopes, scopes kept open by suspended generators), possibly
                   raising at its end
* `evalEv w encl`: transcription of `__init__` / `__enter__` (`probe`) / body / `strcoll`,`strxfrm`
                   (`useLoc`) of the tree with fix-c19 and fix-c19-2
* `Clean w σ`    : lock free and the current locale is one `setlocale` accepts (true of any
                   process state the C library itself produced)
* `Br`, `compile`: the critical sections ("brackets") a tree performs; `Thr.*`: N threads running
                   arbitrary bracket programs under all interleavings
-/
import EPV.Lemmas.Globals
import EPV.Lemmas.GlobalsThreads
import EPV.Lemmas.GlobalsXmlText
import EPV.Lemmas.GlobalsXmlSubset
namespace EPV.C19
open EPV.Globals

/-- the lock is free and the current `LC_COLLATE` is a name `setlocale` accepts -/
def Clean (w : World) (σ : State) : Prop := σ.lock = false ∧ w.avail σ.lc = true

/-! ## One evaluation, one thread -/

/-- **Headline, full strength.**  Every evaluation tree — any managers (any collation URI,
supported or not, malformed, with or without fallback, the empty sequence), scopes nested or
interleaved to any depth, any number of comparisons anywhere, bodies returning or raising, under
any locale availability — returns to its caller (never blocks) with the lock free and
`LC_COLLATE`, `os.environ`, decimal context exactly as it found them. -/
theorem eval_restores_nested (w : World) (σ : State) (encl : Option Loc) (ev : Ev)
    (hc : Clean w σ) :
    ∃ out σ', evalEv w encl ev σ = .ok out σ' ∧
      σ'.lock = false ∧ σ'.lc = σ.lc ∧ σ'.env = σ.env ∧ σ'.dec = σ.dec := by
  obtain ⟨σ', h, ⟨hl, _, h2, h3, h4⟩, _⟩ := evalEv_clean w encl ev σ hc.1 hc.2
  exact ⟨_, σ', h, hl, h2, h3, h4⟩

/-- the flat case of DESIGN.md: one manager, `n` comparisons, body returning or raising -/
theorem eval_restores (w : World) (σ : State) (mk : Except Err Mgr) (n : Nat)
    (raises : Option Nat) (hc : Clean w σ) :
    ∃ out σ', evalEv w none (.call mk (List.replicate n .cmp) raises) σ = .ok out σ' ∧
      σ'.lock = false ∧ σ'.lc = σ.lc ∧ σ'.env = σ.env ∧ σ'.dec = σ.dec :=
  eval_restores_nested w σ none _ hc

/-- the outcome of a tree is `outcome w encl ev` — a function of the tree and the installed
locales only — and the tree performs exactly the critical sections `compile w encl ev`, one after
the other (the final states, logs included, coincide) -/
theorem eval_is_bracket_sequence (w : World) (σ : State) (encl : Option Loc) (ev : Ev)
    (hc : Clean w σ) :
    ∃ σ', evalEv w encl ev σ = .ok (outcome w encl ev) σ' ∧
      runBrs w (compile w encl ev) σ = some σ' := by
  obtain ⟨σ', h, _, hb⟩ := evalEv_clean w encl ev σ hc.1 hc.2
  exact ⟨σ', h, hb⟩

/-- every `strcoll`/`strxfrm` that reaches the C library during any evaluation tree — from any
state — is made while `LC_COLLATE` is the effective locale of the manager that makes it -/
theorem comparisons_under_own_locale (w : World) (σ : State) (encl : Option Loc) (ev : Ev)
    (hσ : LogOK σ) :
    match evalEv w encl ev σ with
    | .ok _ σ' => LogOK σ'
    | .err _ σ' => LogOK σ'
    | .stuck σ' => LogOK σ' := by
  have := evalEv_logOK w encl ev σ hσ
  cases h : evalEv w encl ev σ <;> rw [h] at this <;> exact this

/-! ## Histories -/

/-- `runHist` observations all say: returned, lock free, locale as at the start -/
def AllRestored (init : State) (obs : List Obs) : Prop :=
  ∀ o ∈ obs, o.out.isSome = true ∧ o.lock = false ∧ o.lc = init.lc

/-- **All histories.**  For every availability function and every history of evaluation trees,
after *every* evaluation of the history the lock is free and `LC_COLLATE` is the initial one,
every evaluation returns, and the final state has environment and decimal context untouched.
(Induction over the history.) -/
theorem history_restores (w : World) (es : List Ev) (σ : State) (hc : Clean w σ) :
    (runHist w es σ).1.length = es.length ∧ AllRestored σ (runHist w es σ).1 ∧
    ∃ σ', (runHist w es σ).2 = some σ' ∧ σ'.lock = false ∧ σ'.lc = σ.lc ∧ σ'.env = σ.env ∧
      σ'.dec = σ.dec := by
  induction es generalizing σ with
  | nil => exact ⟨rfl, fun o ho => by simp [runHist] at ho, σ, rfl, hc.1, rfl, rfl, rfl⟩
  | cons e es ih =>
    obtain ⟨σ1, h1, ⟨hl1, _, hlc1, henv1, hdec1⟩, _⟩ := evalEv_clean w none e σ hc.1 hc.2
    have hc1 : Clean w σ1 := ⟨hl1, by rw [hlc1]; exact hc.2⟩
    obtain ⟨ihlen, ihall, σ', hfin, h3, h4, h5, h6⟩ := ih σ1 hc1
    refine ⟨by simp [runHist, h1, ihlen], ?_, σ', by simp [runHist, h1, hfin], h3,
      by rw [h4, hlc1], by rw [h5, henv1], by rw [h6, hdec1]⟩
    intro o ho
    simp only [runHist, h1, List.mem_cons] at ho
    rcases ho with rfl | ho
    · exact ⟨rfl, hl1, hlc1⟩
    · have := ihall o ho
      exact ⟨this.1, this.2.1, by rw [this.2.2, hlc1]⟩

/-- **No sequential deadlock.**  After any history, the next `__enter__` — of any manager —
and the next comparison do not block. -/
theorem no_deadlock_sequential (w : World) (es : List Ev) (σ : State) (hc : Clean w σ)
    (m : Mgr) (eff : Loc) :
    ∃ σ', (runHist w es σ).2 = some σ' ∧ (∀ τ, probe w m σ' ≠ .stuck τ) ∧
      (∀ τ, useLoc w eff σ' ≠ .stuck τ) := by
  obtain ⟨_, _, σ', hfin, hl, hlc, _⟩ := history_restores w es σ hc
  have ha : w.avail σ'.lc = true := by rw [hlc]; exact hc.2
  refine ⟨σ', hfin, fun τ h => ?_, fun τ h => ?_⟩
  · obtain ⟨σ2, _, hp⟩ := probe_clean w m σ' hl ha
    rw [hp] at h; split at h <;> cases h
  · obtain ⟨σ2, _, hp⟩ := useLoc_clean w eff σ' hl ha
    rw [hp] at h; split at h <;> cases h

/-- later evaluations give the same answers: the state after a history is the initial one up to
the ghost log, and an evaluation's outcome does not depend on the state at all -/
theorem history_independent (w : World) (es : List Ev) (σ : State) (hc : Clean w σ) (ev : Ev) :
    ∃ σ' σ'', (runHist w es σ).2 = some σ' ∧ σ'.same σ ∧
      evalEv w none ev σ' = .ok (outcome w none ev) σ'' ∧
      ∃ τ, evalEv w none ev σ = .ok (outcome w none ev) τ := by
  obtain ⟨_, _, σ', hfin, hl, h2, h3, h4⟩ := history_restores w es σ hc
  have ha : w.avail σ'.lc = true := by rw [h2]; exact hc.2
  obtain ⟨σ'', he, _⟩ := evalEv_clean w none ev σ' hl ha
  obtain ⟨τ, he', _⟩ := evalEv_clean w none ev σ hc.1 hc.2
  exact ⟨σ', σ'', hfin, ⟨by rw [hl, hc.1], h2, h3, h4⟩, he, τ, he'⟩

/-- the theorems are not vacuous (test on literals): unsupported locale without fallback,
unsupported with available fallback and a raising body, a locale scope whose body compares twice
and contains another locale scope (the shape that used to block: F19b), the empty-sequence
collation -/
example :
    let w : World := ⟨fun n => n == "C" || n == "en_US.UTF-8" || n == "de_DE.UTF-8", fun
      | .name s => s
      | .pair l => l ++ ".UTF-8"⟩
    let σ : State := ⟨false, "C", [("HOME", "/root")], "prec=28", []⟩
    let es : List Ev := [.call (.ok ⟨some (.pair "xx"), false⟩) [.cmp] none,
                         .call (.ok ⟨some (.pair "xx"), true⟩) [.cmp] (some 1),
                         .call (.ok ⟨some (.name "de_DE.UTF-8"), false⟩)
                           [.cmp, .call (.ok ⟨some (.name "en_US.UTF-8"), false⟩) [.cmp] none, .cmp] none,
                         .call (.error .XPTY0004) [] none]
    Clean w σ ∧
    (runHist w es σ).1 = [⟨some (.err .FOCH0002), false, "C"⟩, ⟨some (.err (.body 1)), false, "C"⟩,
                          ⟨some .ok, false, "C"⟩, ⟨some (.err .XPTY0004), false, "C"⟩] ∧
    compile w none es[2]! = [.probe (.name "de_DE.UTF-8") false, .use "de_DE.UTF-8",
      .probe (.name "en_US.UTF-8") false, .use "en_US.UTF-8", .use "de_DE.UTF-8"] := by
  refine ⟨⟨rfl, rfl⟩, by decide +kernel, by decide +kernel⟩

/-! ## Frame: environment and decimal context -/

/-- whatever an evaluation tree does (from any state, even one in which it blocks), it never
writes `os.environ` or the decimal context -/
theorem eval_frame (w : World) (encl : Option Loc) (ev : Ev) (σ : State) :
    match evalEv w encl ev σ with
    | .ok _ σ' => σ'.env = σ.env ∧ σ'.dec = σ.dec
    | .err _ σ' => σ'.env = σ.env ∧ σ'.dec = σ.dec
    | .stuck σ' => σ'.env = σ.env ∧ σ'.dec = σ.dec := by
  have := evalEv_frame w encl ev σ
  cases h : evalEv w encl ev σ <;> rw [h] at this <;> exact this

/-! ## N threads, all interleavings

`Thr.Config.start L progs`: lock free, `LC_COLLATE = L`, one thread per program; a program is an
arbitrary list of brackets (`Br.probe` = an `__enter__`, `Br.use` = one comparison) — for a thread
that evaluates trees, `compileL w none trees` (`eval_is_bracket_sequence`).  Nothing is held between
brackets, so these theorems cover nested scopes, generator-held scopes, abandoned generators and
exceptions alike.  `Thr.Reach w c c'`: `c'` is reached from `c` by any finite number of steps, each
taken by an arbitrary thread — every interleaving at the granularity of one lock / `setlocale` /
`strcoll` operation per step.  Any number of threads, any programs, any availability. -/

open Thr in
/-- **Mutual exclusion.**  In every reachable configuration at most one thread is inside a
`with _locale_collate_lock:` block, and the lock bit says exactly whether one is. -/
theorem mutual_exclusion (w : World) (L : Loc) (hL : w.avail L = true) (progs : List (List Br))
    (c : Config) (hr : Reach w (Config.start L progs) c) :
    holders c.ts ≤ 1 ∧ (c.sh.lock = true ↔ holders c.ts = 1) := by
  have hi := inv_reach w L hL _ _ (inv_start L progs) hr
  have := hi.count
  cases hl : c.sh.lock <;> simp [hl] at this ⊢ <;> omega

open Thr in
/-- mutual exclusion, index form: two threads inside the critical section are the same thread -/
theorem mutual_exclusion_pairwise (w : World) (L : Loc) (hL : w.avail L = true)
    (progs : List (List Br)) (c : Config) (hr : Reach w (Config.start L progs) c)
    (i j : Nat) (hi : i < c.ts.length) (hj : j < c.ts.length)
    (h1 : c.ts[i].pc.holds = true) (h2 : c.ts[j].pc.holds = true) : i = j :=
  countP_le_one_index (fun t : Thread => t.pc.holds) c.ts
    (mutual_exclusion w L hL progs c hr).1 i j hi hj h1 h2

open Thr in
/-- **Each thread sees its locale.**  Every `strcoll`/`strxfrm` call ran while `LC_COLLATE` was
the effective locale of the manager that made it — in every reachable configuration, for every
thread. -/
theorem each_thread_sees_its_locale (w : World) (L : Loc) (hL : w.avail L = true)
    (progs : List (List Br)) (c : Config) (hr : Reach w (Config.start L progs) c) :
    ∀ t ∈ c.ts, ∀ p ∈ t.seen, p.2 = p.1 :=
  (inv_reach w L hL _ _ (inv_start L progs) hr).seen

open Thr in
/-- **All schedules restore.**  Whenever no thread is inside a critical section — in particular
between any two comparisons of a single-threaded program, and when all threads have finished —
the lock is free and `LC_COLLATE` is the initial locale, whatever the interleaving was. -/
theorem all_schedules_restore (w : World) (L : Loc) (hL : w.avail L = true)
    (progs : List (List Br)) (c : Config) (hr : Reach w (Config.start L progs) c)
    (hq : ∀ t ∈ c.ts, t.pc.holds = false) : c.sh.lock = false ∧ c.sh.lc = L := by
  have hi := inv_reach w L hL _ _ (inv_start L progs) hr
  have h0 : holders c.ts = 0 := List.countP_eq_zero.mpr (by simpa using hq)
  have hl : c.sh.lock = false := by
    have := hi.count
    cases hl : c.sh.lock with
    | false => rfl
    | true => simp [hl, h0] at this
  exact ⟨hl, hi.free hl⟩

open Thr in
/-- finished threads are outside the critical section -/
theorem all_done_restored (w : World) (L : Loc) (hL : w.avail L = true)
    (progs : List (List Br)) (c : Config) (hr : Reach w (Config.start L progs) c)
    (hd : ∀ t ∈ c.ts, t.done = true) : c.sh = ⟨false, L⟩ := by
  have := all_schedules_restore w L hL progs c hr (fun t ht => by
    have := hd t ht
    simp only [Thread.done, Bool.and_eq_true, beq_iff_eq] at this
    simp [this.1, Pc.holds])
  cases hc : c.sh with
  | mk lock lc => simp_all

open Thr in
/-- **No deadlock.**  In every reachable configuration with an unfinished thread some thread
can take a step: a thread blocked in `acquire` always waits for a holder that can move. -/
theorem no_deadlock_threads (w : World) (L : Loc) (hL : w.avail L = true)
    (progs : List (List Br)) (c : Config) (hr : Reach w (Config.start L progs) c)
    (hu : ∃ t ∈ c.ts, t.done = false) : ∃ c', Step w c c' := by
  have hi := inv_reach w L hL _ _ (inv_start L progs) hr
  have pick : ∀ t ∈ c.ts, (∃ r, step w c.sh t = some r) → ∃ c', Step w c c' := by
    intro t ht ⟨⟨s', t'⟩, hstep⟩
    obtain ⟨pre, post, hsplit⟩ := List.append_of_mem ht
    refine ⟨⟨s', pre ++ t' :: post⟩, ?_⟩
    have := Step.mk (w := w) c.sh s' pre post t t' hstep
    rw [← hsplit] at this
    exact this
  cases hl : c.sh.lock with
  | false =>
    obtain ⟨t, ht, hd⟩ := hu
    exact pick t ht (free_enabled w c.sh t hl hd)
  | true =>
    have hc := hi.count
    simp only [hl, ↓reduceIte] at hc
    have : ∃ t ∈ c.ts, t.pc.holds = true := by
      have hpos : 0 < List.countP (·.pc.holds) c.ts := by unfold holders at hc; omega
      obtain ⟨t, ht, hp⟩ := List.countP_pos_iff.mp hpos
      exact ⟨t, ht, hp⟩
    obtain ⟨t, ht, hh⟩ := this
    exact pick t ht (holder_enabled w c.sh t hh)

open Thr in
/-- **Concurrent = sequential.**  In every reachable configuration, under every interleaving,
the results a thread has delivered so far are a prefix of — and, once the thread has finished,
exactly — `prog.map (Br.expected w)`: the result of each of its brackets is a function of that
bracket and the installed locales alone; what the other threads do, and when, has no influence.
The threads keep their programs in place (`c.ts.map (·.prog) = progs`). -/
theorem thread_outcomes_schedule_independent (w : World) (L : Loc) (hL : w.avail L = true)
    (progs : List (List Br)) (c : Config) (hr : Reach w (Config.start L progs) c) :
    c.ts.map (·.prog) = progs ∧
    ∀ t ∈ c.ts, (∃ rest, t.outs ++ rest = t.prog.map (Br.expected w)) ∧
      (t.done = true → t.outs = t.prog.map (Br.expected w)) := by
  obtain ⟨ho, hp⟩ := out_start w L progs
  obtain ⟨h1, h2⟩ := out_reach w L hL _ _ (inv_start L progs) ho hr
  refine ⟨by simpa [Progs] using h2.trans hp, fun t ht => ⟨⟨_, by
    have := h1 t ht; unfold OutInv at this; rw [List.append_assoc] at this; exact this⟩,
    fun hd => ?_⟩⟩
  have := h1 t ht
  simp only [Thread.done, Bool.and_eq_true, beq_iff_eq, List.isEmpty_iff] at hd
  simpa [OutInv, owed, hd.1, hd.2] using this

open Thr in
/-- … and that function is the sequential model: `Br.expected w b` is what the bracket returns
when run alone from any clean state, which it hands back restored -/
theorem expected_is_sequential_outcome (w : World) (b : Br) (σ : State) (hc : Clean w σ) :
    ∃ σ', (σ'.lock = false ∧ σ'.lc = σ.lc) ∧
      runBr w b σ = (match b.expected w with | .ok => .ok () σ' | .err e => .err e σ') := by
  obtain ⟨σ', ⟨hl, _, hlc, _⟩, h⟩ := runBr_expected w b σ hc.1 hc.2
  exact ⟨σ', ⟨hl, hlc⟩, h⟩

open Thr in
/-- **Every schedule is finite**: no execution from a configuration takes more steps than its
`weight` (total work left) — so with `no_deadlock_threads`, every maximal execution ends with
all threads finished, and `all_done_restored` applies to its end. -/
theorem schedules_bounded (w : World) (c c' : Config) (n : Nat) (h : ReachN w c c' n) :
    n ≤ c.weight := by
  have := h.weight; omega

/-- the thread theorems are not vacuous (test on literals): three threads evaluating trees — a
nested pair of locale scopes, a raising body, an unsupported locale with unsupported fallback —
run under one concrete interleaving to completion -/
example :
    let w : World := ⟨fun n => n == "C" || n == "de_DE.UTF-8" || n == "fr_FR.UTF-8", fun
      | .name s => s
      | .pair l => l ++ ".UTF-8"⟩
    let de : Mgr := ⟨some (.name "de_DE.UTF-8"), false⟩
    let fr : Mgr := ⟨some (.name "fr_FR.UTF-8"), false⟩
    let progs : List (List Br) :=
      [compile w none (.call (.ok de) [.cmp, .call (.ok fr) [.cmp] none, .cmp] none),
       compile w none (.call (.ok fr) [.cmp] (some 1)),
       compile w none (.call (.ok ⟨some (.pair "xx"), true⟩) [.cmp] none)]
    let sched := (List.range 60).flatMap fun _ => [0, 1, 0, 2, 1]
    let c := Thr.runSched w sched (Thr.Config.start "C" progs)
    c.sh = ⟨false, "C"⟩ ∧
    c.ts.map (·.outs) = [[.ok, .ok, .ok, .ok, .ok], [.ok, .ok], [.err .FOCH0002]] ∧
    c.ts.map (·.seen) = [[("de_DE.UTF-8", "de_DE.UTF-8"), ("fr_FR.UTF-8", "fr_FR.UTF-8"),
                           ("de_DE.UTF-8", "de_DE.UTF-8")], [("fr_FR.UTF-8", "fr_FR.UTF-8")], []] ∧
    c.ts.all (·.done) = true := by
  decide +kernel

/-! ## The prolog scanner against the XML 1.0 prolog grammar: DOCTYPE detection -/

open EPV.GlobalsSpec.PrologGrammar in
/-- **`scanner_finds_doctype_iff`.**  Against the grammar `XMLDecl? Misc* S? (doctypedecl | element)`
of EPV/Spec/GlobalsSpec.lean — any XML declaration with a leading `version`, any comments
(no `--` inside) and PIs (target ≠ `xml`, no `?>` inside) separated by any white space, in any
number and order — the scanner records a DOCTYPE **iff** the construct that follows is a
DOCTYPE declaration, and none iff it is the root element's start tag.  In particular a
`<!DOCTYPE`/`<!ENTITY` *inside* a comment or PI is never mistaken for one, and a DOCTYPE after
any amount of comments / PIs / white space / an XML declaration is never missed. -/
theorem scanner_finds_doctype_iff (xd : Option (Char × List Char))
    (items : List (List Char × MiscItem)) (pad tail : List Char)
    (hx : xmlDeclWf xd = true) (hi : miscWf items = true) (hp : pad.all XmlText.isWs = true)
    (ht : startsDoctype tail = true ∨ startsRoot tail = true) :
    (XmlText.scanProlog (renderXmlDecl xd ++ (renderMisc items ++ pad ++ tail))).doctype.isSome = true
      ↔ startsDoctype tail = true := by
  rw [XmlText.scanProlog_finds_doctype xd items pad tail hx hi hp ht]

open EPV.GlobalsSpec.PrologGrammar in
/-- the hypotheses are satisfiable on a non-trivial text (test on literals): XML declaration, a
comment that contains `<!DOCTYPE`, an `xml-stylesheet` PI that contains `<!ENTITY`, white space —
followed once by the root element and once by a DOCTYPE declaring an entity -/
example :
    let xd := some (' ', "version=\"1.0\" encoding=\"utf-8\"".toList)
    let items := [([], MiscItem.comment " <!DOCTYPE r [<!ENTITY e \"x\">]> ".toList),
                  (['\n'], MiscItem.pi "xml-stylesheet".toList " href=\"<!ENTITY\"".toList)]
    xmlDeclWf xd = true ∧ miscWf items = true ∧
    (XmlText.scanProlog (renderXmlDecl xd ++ (renderMisc items ++ [' '] ++ "<r>t</r>".toList))).doctype = none ∧
    (XmlText.scanProlog (renderXmlDecl xd ++ (renderMisc items ++ [' '] ++
      "<!DOCTYPE r [<!ENTITY e \"EXP\">]><r>&e;</r>".toList))).forbidden = true := by
  decide +kernel

/-! ## The inside of the DOCTYPE declaration against the grammar of XML 1.0 §2.8 / §4.2

Grammar (`PrologGrammar` in EPV/Spec/GlobalsSpec.lean): `DoctypeG` = S Name (S ExternalID)? S?
('[' intSubset ']' S?)? '>';  the internal subset is a list of `SubItem`s — comments, PIs,
parameter-entity references, entity declarations (`EntD`: general / parameter, with an entity value
whose quoted text may contain `>` and `]`, or a SYSTEM / PUBLIC external identifier, optionally
`NDATA`), element / attribute-list / notation declarations (characters and quoted literals up to
`>`) — each preceded by optional white space. -/

open EPV.GlobalsSpec.PrologGrammar in
/-- **The internal subset is read back exactly** — on every internal-subset text the grammar
derives, the scanner returns the declarations the grammar derives (`subsetDecls`): every entity
declaration, with its name, kind and value, as long as no parameter-entity reference has been
passed, inert ones afterwards (XML 1.0 §5.1), and the text after the closing `]`. -/
theorem scanner_parses_internal_subset (items : List (List Char × SubItem)) (wi rest : List Char)
    (hi : subsetWf items = true) (hwi : wsOk wi = true) :
    XmlText.intSubset ((renderSubset items ++ (wi ++ ']' :: rest)).length + 1)
        (renderSubset items ++ (wi ++ ']' :: rest)) [] true
      = (subsetDecls true items, some rest) := by
  have hlen : items.length < (renderSubset items ++ (wi ++ ']' :: rest)).length + 1 := by
    have := XmlText.length_renderSubset items
    simp only [List.length_append]; omega
  simpa using XmlText.intSubset_parses items wi rest _ [] true hlen hi hwi

open EPV.GlobalsSpec.PrologGrammar in
/-- **The whole prolog is read back exactly.**  For every text
`XMLDecl? Misc* S? '<!DOCTYPE' doctypedecl Misc* S? <root…` the grammar derives, `scanProlog`
records the grammar's DOCTYPE value — is there an external identifier, and the declarations of the
internal subset — marks the declaration complete, counts the `Misc` items before it and stops at
the root element's start tag. -/
theorem scanner_parses_prolog (xd : Option (Char × List Char)) (m1 : List (List Char × MiscItem))
    (p1 : List Char) (d : DoctypeG) (m2 : List (List Char × MiscItem)) (p2 tail : List Char)
    (hx : xmlDeclWf xd = true) (hm1 : miscWf m1 = true) (hp1 : p1.all XmlText.isWs = true)
    (hd : d.wf = true) (hm2 : miscWf m2 = true) (hp2 : p2.all XmlText.isWs = true)
    (ht : startsRoot tail = true) :
    let p := XmlText.scanProlog (XmlText.prologText xd m1 p1 d m2 p2 tail)
    p.doctype = some d.value ∧ p.complete = true ∧ p.leading = m1.length ∧ p.rest = some tail ∧
      p.xmlDecl = xd.isSome :=
  XmlText.scanProlog_parses xd m1 p1 d m2 p2 tail hx hm1 hp1 hd hm2 hp2 ht

/-- did the scan record a declaration on which `SafeExpatParser`'s entity handlers fire? -/
def recordsEntityDecl (p : XmlText.Prolog) : Bool :=
  match p.doctype with
  | some (_, decls) => decls.any Decl.forbiddenDecl
  | none => false

open EPV.GlobalsSpec.PrologGrammar in
/-- **`scanner_records_entity_iff`.**  On every prolog text the grammar derives, the scanner
records an entity declaration **iff** the grammar derives a processed one in the internal subset
(an `EntityDecl` — general, parameter, external or unparsed — not preceded by a parameter-entity
reference); in that case `fn:parse-xml` with the default parser refuses the text. -/
theorem scanner_records_entity_iff (xd : Option (Char × List Char)) (m1 : List (List Char × MiscItem))
    (p1 : List Char) (d : DoctypeG) (m2 : List (List Char × MiscItem)) (p2 tail : List Char)
    (hx : xmlDeclWf xd = true) (hm1 : miscWf m1 = true) (hp1 : p1.all XmlText.isWs = true)
    (hd : d.wf = true) (hm2 : miscWf m2 = true) (hp2 : p2.all XmlText.isWs = true)
    (ht : startsRoot tail = true) :
    (recordsEntityDecl (XmlText.scanProlog (XmlText.prologText xd m1 p1 d m2 p2 tail)) = true ↔
      (match d.subset with
        | none => false
        | some (items, _, _) => derivesEntityDecl true items) = true) ∧
    ((match d.subset with
        | none => false
        | some (items, _, _) => derivesEntityDecl true items) = true →
      parseXmlText true (String.ofList (XmlText.prologText xd m1 p1 d m2 p2 tail)) = .error .forbidden) := by
  obtain ⟨hdt, _⟩ := XmlText.scanProlog_parses xd m1 p1 d m2 p2 tail hx hm1 hp1 hd hm2 hp2 ht
  have hrec : recordsEntityDecl (XmlText.scanProlog (XmlText.prologText xd m1 p1 d m2 p2 tail))
      = (match d.subset with
        | none => false
        | some (items, _, _) => derivesEntityDecl true items) := by
    unfold recordsEntityDecl
    rw [hdt]
    unfold DoctypeG.value
    cases d.subset with
    | none => rfl
    | some p => obtain ⟨items, wi, w3⟩ := p; exact XmlText.subsetDecls_forbidden true items
  refine ⟨by rw [hrec], fun h => ?_⟩
  have hf : (XmlText.scanProlog (XmlText.prologText xd m1 p1 d m2 p2 tail)).forbidden = true := by
    have h2 := hrec.trans h
    unfold recordsEntityDecl at h2
    unfold XmlText.Prolog.forbidden
    cases hdd : (XmlText.scanProlog (XmlText.prologText xd m1 p1 d m2 p2 tail)).doctype with
    | none => simp [hdd] at h2
    | some v => obtain ⟨e, ds⟩ := v; simp only [hdd] at h2; simp [h2]
  simp [parseXmlText, String.toList_ofList, hf]

open EPV.GlobalsSpec.PrologGrammar in
/-- the grammar theorems are not vacuous (test on literals): a DOCTYPE with a PUBLIC identifier and
an internal subset holding a comment, an attribute-list declaration with `>` in a literal, a general
entity whose value contains `]>`, a parameter entity, its reference, and a further entity (inert) -/
example :
    let d : DoctypeG := {
      w1 := [' '], name := ['r'],
      ext := some ([' '], { pub := some (⟨true, "-//x".toList⟩, [' ']), wk := [' '], sys := ⟨false, "x.dtd".toList⟩ }),
      w2 := [' '],
      subset := some ([
        ([], .comment " <!ENTITY no \"x\"> ".toList),
        (['\n'], .attlist [.ch ' ', .ch 'r', .ch ' ', .ch 'a', .ch ' ', .lit ⟨true, "d>f".toList⟩]),
        ([], .entity { w1 := [' '], param := none, name := ['e'], w2 := [' '],
                       defn := .value ⟨true, "]>EXP".toList⟩, w3 := [] }),
        ([], .entity { w1 := [' '], param := some [' '], name := ['p'], w2 := [' '],
                       defn := .value ⟨false, "x".toList⟩, w3 := [' '] }),
        ([' '], .peRef ['p']),
        ([], .entity { w1 := [' '], param := none, name := ['z'], w2 := [' '],
                       defn := .ndata { pub := none, wk := [' '], sys := ⟨true, "u".toList⟩ } [' '] [' '] ['n'],
                       w3 := [] })], [' '], []) }
    d.wf = true ∧
    d.value = (true, [.comment, .attlist, .entity "e" "]>EXP", .paramEntity "p", .element]) ∧
    (XmlText.doctypeDecl (d.render ++ "<r/>".toList)).1 = d.value := by
  decide +kernel

/-! ## The three repaired defects, as theorems about the earlier code (record) -/

/-- F19b (fixed by `fix: switch LC_COLLATE only around each collation comparison, not for the
whole CollationManager scope`): under the previous protocol (`Scoped.enter`: lock and locale kept
for the whole `with` block) a locale based scope that opened successfully made every further
locale based `__enter__` in the same thread block forever, with the lock held and `LC_COLLATE`
changed — while the same tree now returns restored (`eval_restores_nested`). -/
theorem scoped_F19b_nested_enter_blocks (w : World) (m m' : Mgr) (σ : State) (req : Req)
    (hl : σ.lock = false) (hm : m.lc = some req) (ha : w.avail (w.norm req) = true)
    (hm' : m'.lc.isSome = true) :
    ∃ σ', Scoped.enter w m σ = .ok (some σ.lc) σ' ∧ σ'.lock = true ∧ σ'.lc = w.norm req ∧
      Scoped.enter w m' σ' = .stuck σ' := by
  obtain ⟨σ', h1, h2, h3⟩ := Scoped.enter_open w m σ req hm hl ha
  exact ⟨σ', h1, h2, h3, Scoped.enter_held w m' σ' hm' h2⟩

/-- F19 (fixed by `fix: release the collation lock and raise FOCH0002 when the fallback locale is
unsupported too`): on the pinned tree, whenever neither the requested locale nor `en_US.UTF-8`
is installed and fallback is on, `__enter__` lets a bare `locale.Error` escape with the lock
held — and then every later locale based `__enter__` blocks forever. -/
theorem pinned_F19_lock_left_held (w : World) (rt : Loc → Option Loc) (m m' : Mgr) (σ : State)
    (req : Req) (hl : σ.lock = false) (hm : m.lc = some req) (hfb : m.fallback = true)
    (h1 : w.avail (w.norm req) = false) (h2 : w.avail enUS = false) (hrt : (rt σ.lc).isSome = true)
    (hm' : m'.lc.isSome = true) :
    ∃ σ', Pinned.enter w rt m σ = .err .localeError σ' ∧ σ'.lock = true ∧ σ'.lc = σ.lc ∧
      probe w m' σ' = .stuck σ' := by
  obtain ⟨saved, hs⟩ := Option.isSome_iff_exists.mp hrt
  refine ⟨logFail (logFail { σ with lock := true } (w.norm req)) enUS, ?_, rfl, rfl, ?_⟩
  · simp [Pinned.enter, hm, hl, hs, setloc, h1, h2, hfb, logFail]
  · exact probe_held w m' _ hm' rfl

/-- F19c (fixed by `fix: save and restore LC_COLLATE by its exact name`): on the pinned tree an
initial locale name that `getlocale` cannot parse makes `__enter__` raise `ValueError` with the
lock held (kernel-checked instance: `LC_COLLATE = "mylocale"`). -/
theorem pinned_F19c_witness :
    let w : World := ⟨fun n => n == "mylocale" || n == "de_DE.UTF-8", fun
      | .name s => s
      | .pair l => l ++ ".UTF-8"⟩
    let rt : Loc → Option Loc := fun n => if n == "mylocale" then none else some n
    let σ : State := ⟨false, "mylocale", [], "", []⟩
    (∃ σ', Pinned.enter w rt ⟨some (.name "de_DE.UTF-8"), false⟩ σ = .err .valueError σ' ∧
      σ'.lock = true) ∧
    (∃ out σ', evalEv w none (.call (.ok ⟨some (.name "de_DE.UTF-8"), false⟩) [.cmp] none) σ
        = .ok out σ' ∧ σ'.lock = false ∧ σ'.lc = "mylocale") := by
  exact ⟨⟨_, rfl, rfl⟩, ⟨_, _, rfl, rfl, rfl⟩⟩

end EPV.C19

/-
C02 — property theorems for the node-tree builder model (EPV/Model/Builder.lean) against the XDM
specification (EPV/Spec/XDMTree.lean).  Helper lemmas live in EPV/Lemmas/Builder*.lean.

Reading guide
* `Input`            : what is handed to `get_node_tree` (library, Element/ElementTree, fragment, namespaces, tree)
* `build i`          : the node tree with the positions the Python builders assign
* `iter root`        : `root.iter()` — every node incl. the lazily created namespace and attribute nodes,
                       as records `(kind, name, pos, parent position, string value)`
-/
import EPV.Lemmas.Builder
import EPV.Spec.XDMTree
namespace EPV.C02
open EPV.Builder EPV.XDM

/-- HEADLINE.  For every input (any tree, any nesting, any attribute counts, any namespace maps — even
ill-formed ones —, Element or ElementTree, lxml or xml.etree, every `fragment`, every `namespaces`
argument) the positions of the nodes listed by `root.iter()` — element, its namespace nodes, its
attributes, then its children — are strictly increasing; hence unique, and comparing positions is
comparing document order. -/
theorem build_positions_strict (i : Input) (root : PNode) (h : build i = .ok root) :
    List.Pairwise (· < ·) ((iter root).map (·.pos)) :=
  let ⟨_, hs⟩ := build_seg i root h
  hs.1

/-- positions are pairwise distinct -/
theorem build_positions_nodup (i : Input) (root : PNode) (h : build i = .ok root) :
    ((iter root).map (·.pos)).Nodup :=
  (build_positions_strict i root h).imp (fun hlt => Nat.ne_of_lt hlt)

/-- test on a literal: the hypotheses are satisfiable on a non-trivial tree
(`<x a="1" b="2">t<y/>u<!--c--></x>` in an lxml document with a prolog PI, namespaces `{None: u, p: v}`) -/
example :
    let m : NsMap := [(none, "u"), (some "p", "v")]
    let t : XTree := .elem "x" m [("a", "1"), ("b", "2")] (some "t")
      [.elem "y" m [] none [] (some "u"), .comment "c" none] none
    let i : Input := { cfg := { lxml := true, namespaces := [], fragment := none }, isTree := true,
                       prolog := [.pi "p" "d" none], top := some t, epilog := [], path := [] }
    (build i).toOption.map (fun r => (iter r).map (·.pos)) = some (List.range' 1 15) := by decide

end EPV.C02
